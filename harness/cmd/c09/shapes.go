package main

import (
	"fmt"
	"sort"
	"strings"
	"time"

	"github.com/d5/tengo/v2"
	"verifharness/lib"
)

// Systematic searchers (no sampling of the shape):
//
//	frozen shapes   every nesting of 1..4 container layers, each layer an array or a map, mutable or
//	                wrapped by immutable(...), with six sibling arrangements next to the nested child
//	                (none, scalar, mutable container, error value, shallow-immutable container holding a
//	                mutable one, the child twice). The value is built without any mutable alias, frozen,
//	                and then EVERY container reachable from the result (not behind error values: O24) is
//	                attacked: index/selector assignment (direct and nested from the root), append / slice /
//	                + / copy followed by writes, splice, delete, iteration. Object-op stream (real objects,
//	                model replay, deep watch) and program stream (literal, value imported from a source
//	                module, host-provided global) with the per-instruction probe.
//	module exports  source modules whose export expression is every form that can yield a container
//	                (literal, identifier, call, index, selector, ||, &&, ?:, parentheses, immutable(),
//	                copy/append/+/slice, nested import, export inside a block, random compositions);
//	                the importer attacks what it got; type, contents and the next import are compared.

const innerModule = "export {p: [1, 2], q: 5}"

const (
	vOnly   = iota // the nested child is the only element
	vScalar        // a scalar next to it
	vMutSib        // a mutable container next to it
	vErrSib        // an error value (container payload) next to it
	vImmSib        // a shallow-immutable container holding a mutable one next to it
	vShared        // the child twice (shared sub-structure)
	nVariants
)

type layer struct {
	Kind    byte // 'a' array, 'm' map
	Imm     bool
	Variant int
}

type shape []layer

func (s shape) spec() string {
	parts := make([]string, len(s))
	for i, l := range s {
		mu := byte('M')
		if l.Imm {
			mu = 'I'
		}
		parts[i] = fmt.Sprintf("%c%c%d", l.Kind, mu, l.Variant)
	}
	return strings.Join(parts, "/")
}

func parseShape(spec string) (shape, bool) {
	var s shape
	for _, p := range strings.Split(spec, "/") {
		if len(p) != 3 || (p[0] != 'a' && p[0] != 'm') || (p[1] != 'I' && p[1] != 'M') || p[2] < '0' || p[2] >= '0'+nVariants {
			return nil, false
		}
		s = append(s, layer{Kind: p[0], Imm: p[1] == 'I', Variant: int(p[2] - '0')})
	}
	return s, len(s) > 0
}

// baseShapes: every kind/mutability assignment for 1..maxDepth layers (variant 0 everywhere).
func baseShapes(maxDepth int) []shape {
	var out []shape
	var rec func(prefix shape, d int)
	rec = func(prefix shape, d int) {
		if len(prefix) > 0 {
			out = append(out, append(shape{}, prefix...))
		}
		if d == 0 {
			return
		}
		for _, k := range []byte{'a', 'm'} {
			for _, imm := range []bool{false, true} {
				rec(append(append(shape{}, prefix...), layer{Kind: k, Imm: imm}), d-1)
			}
		}
	}
	rec(nil, maxDepth)
	return out
}

func (s shape) withVariant(f func(level int) int) shape {
	out := append(shape{}, s...)
	for i := range out {
		if i < len(out)-1 {
			out[i].Variant = f(i)
		}
	}
	return out
}

// shapeSet: the configurations of one run. Every base shape with the arrangements "only child" and
// "scalar sibling"; shapes of depth <= 3 with every uniform arrangement; every shape with two (quick) or six
// (thorough) random mixes of arrangements.
func shapeSet(r *lib.RNG, mixes int) []shape {
	var out []shape
	seen := map[string]bool{}
	add := func(s shape) {
		if k := s.spec(); !seen[k] {
			seen[k] = true
			out = append(out, s)
		}
	}
	bases := baseShapes(4)
	sort.SliceStable(bases, func(i, j int) bool { return len(bases[i]) < len(bases[j]) })
	for _, b := range bases { // the plain nestings first, shallow before deep (the simplest failing input is reported)
		add(b)
	}
	for _, b := range bases {
		for v := 1; v < nVariants; v++ {
			if v == vScalar || len(b) <= 3 {
				v := v
				add(b.withVariant(func(int) int { return v }))
			}
		}
		if len(b) > 2 {
			for i := 0; i < mixes; i++ {
				add(b.withVariant(func(int) int { return r.Intn(nVariants) }))
			}
		}
	}
	return out
}

// source renders layer i.. as a Tengo expression (only literals: no mutable alias of any storage exists).
func (s shape) source(i int) string {
	l := s[i]
	var body string
	switch {
	case i == len(s)-1 && l.Kind == 'a':
		body = "[1, 2]"
	case i == len(s)-1:
		body = "{a: 1, b: 2}"
	case l.Kind == 'a':
		c := s.source(i + 1)
		switch l.Variant {
		case vScalar:
			body = "[0, " + c + "]"
		case vMutSib:
			body = "[" + c + ", [7]]"
		case vErrSib:
			body = "[" + c + ", error([3])]"
		case vImmSib:
			body = "[immutable([[7]]), " + c + "]"
		case vShared:
			body = "func(t) { return [t, t] }(" + c + ")"
		default:
			body = "[" + c + "]"
		}
	default:
		c := s.source(i + 1)
		switch l.Variant {
		case vScalar:
			body = "{a: " + c + ", b: 5}"
		case vMutSib:
			body = "{a: " + c + ", b: {c: 7}}"
		case vErrSib:
			body = "{a: " + c + ", b: error([3])}"
		case vImmSib:
			body = "{a: " + c + ", b: immutable({c: [7]})}"
		case vShared:
			body = "func(t) { return {a: t, b: t} }(" + c + ")"
		default:
			body = "{a: " + c + "}"
		}
	}
	if l.Imm {
		return "immutable(" + body + ")"
	}
	return body
}

func intObj(n int64) tengo.Object { return &tengo.Int{Value: n} }

// host builds the same value from Go objects (what a host program hands to a script).
func (s shape) host(i int) tengo.Object {
	l := s[i]
	arr := func(el ...tengo.Object) tengo.Object { return &tengo.Array{Value: el} }
	var el []tengo.Object
	var mp map[string]tengo.Object
	switch {
	case i == len(s)-1 && l.Kind == 'a':
		el = []tengo.Object{intObj(1), intObj(2)}
	case i == len(s)-1:
		mp = map[string]tengo.Object{"a": intObj(1), "b": intObj(2)}
	case l.Kind == 'a':
		c := s.host(i + 1)
		switch l.Variant {
		case vScalar:
			el = []tengo.Object{intObj(0), c}
		case vMutSib:
			el = []tengo.Object{c, arr(intObj(7))}
		case vErrSib:
			el = []tengo.Object{c, &tengo.Error{Value: arr(intObj(3))}}
		case vImmSib:
			el = []tengo.Object{&tengo.ImmutableArray{Value: []tengo.Object{arr(intObj(7))}}, c}
		case vShared:
			el = []tengo.Object{c, c}
		default:
			el = []tengo.Object{c}
		}
	default:
		c := s.host(i + 1)
		mp = map[string]tengo.Object{"a": c}
		switch l.Variant {
		case vScalar:
			mp["b"] = intObj(5)
		case vMutSib:
			mp["b"] = &tengo.Map{Value: map[string]tengo.Object{"c": intObj(7)}}
		case vErrSib:
			mp["b"] = &tengo.Error{Value: arr(intObj(3))}
		case vImmSib:
			mp["b"] = &tengo.ImmutableMap{Value: map[string]tengo.Object{"c": arr(intObj(7))}}
		case vShared:
			mp["b"] = c
		}
	}
	switch {
	case l.Kind == 'a' && l.Imm:
		return &tengo.ImmutableArray{Value: el}
	case l.Kind == 'a':
		return &tengo.Array{Value: el}
	case l.Imm:
		return &tengo.ImmutableMap{Value: mp}
	}
	return &tengo.Map{Value: mp}
}

// ---- object-op stream ---------------------------------------------------------------------------

// seqb builds a deterministic sequence on a machine.
type seqb struct {
	m    *machine
	lits map[string]int
	n    int
}

func newSeqb(stream string) *seqb {
	b := &seqb{m: newMachine(stream), lits: map[string]int{}}
	for _, l := range []string{"i0", "i1", "i2", "i3", "i5", "i7", "i99", "sa", "sb", "sc", "szz", "u"} {
		b.lit(l)
	}
	return b
}

func (b *seqb) last() int { return len(b.m.regs) - 1 }

func (b *seqb) do(op opRec) bool {
	ok := b.m.exec(op)
	if ok {
		b.n++
		res.Dist("op:" + op.K)
		if b.n%8 == 0 {
			b.m.snapCmd(b.m.containerHandles(false))
		} else if op.K != "lit" && op.K != "arr" && op.K != "map" {
			b.m.snapCmd(b.m.containerHandles(true))
		}
	}
	return ok
}

func (b *seqb) lit(l string) int {
	if h, ok := b.lits[l]; ok {
		return h
	}
	b.m.exec(opRec{K: "lit", Lit: l, Hidden: true})
	b.lits[l] = b.last()
	return b.last()
}

func (b *seqb) arr(el ...int) int {
	b.do(opRec{K: "arr", A: el, Cap: len(el) + len(el)%2, Hidden: true})
	return b.last()
}

func (b *seqb) mp(keys []string, el ...int) int {
	b.do(opRec{K: "map", A: el, Keys: keys, Hidden: true})
	return b.last()
}

// imm wraps the private temporary h (what immutable(<literal>) does); direct: the host builds the
// immutable object itself instead of running the IMMUT instruction.
func (b *seqb) imm(h int, direct bool) int {
	op := opRec{K: "immut", A: []int{h}, Flag: true, Hidden: true}
	if direct {
		op.Name = "direct"
	}
	b.do(op)
	return b.last()
}

func (b *seqb) build(s shape, i int, direct bool) int {
	l := s[i]
	var el []int
	var keys []string
	switch {
	case i == len(s)-1 && l.Kind == 'a':
		el = []int{b.lit("i1"), b.lit("i2")}
	case i == len(s)-1:
		keys, el = []string{"a", "b"}, []int{b.lit("i1"), b.lit("i2")}
	case l.Kind == 'a':
		c := b.build(s, i+1, direct)
		switch l.Variant {
		case vScalar:
			el = []int{b.lit("i0"), c}
		case vMutSib:
			el = []int{c, b.arr(b.lit("i7"))}
		case vErrSib:
			p := b.arr(b.lit("i3"))
			b.do(opRec{K: "err", A: []int{p}, Hidden: true})
			el = []int{c, b.last()}
		case vImmSib:
			el = []int{b.imm(b.arr(b.arr(b.lit("i7"))), direct), c}
		case vShared:
			el = []int{c, c}
		default:
			el = []int{c}
		}
	default:
		c := b.build(s, i+1, direct)
		keys, el = []string{"a"}, []int{c}
		switch l.Variant {
		case vScalar:
			keys, el = append(keys, "b"), append(el, b.lit("i5"))
		case vMutSib:
			keys, el = append(keys, "b"), append(el, b.mp([]string{"c"}, b.lit("i7")))
		case vErrSib:
			p := b.arr(b.lit("i3"))
			b.do(opRec{K: "err", A: []int{p}, Hidden: true})
			keys, el = append(keys, "b"), append(el, b.last())
		case vImmSib:
			keys, el = append(keys, "b"), append(el, b.imm(b.mp([]string{"c"}, b.arr(b.lit("i7"))), direct))
		case vShared:
			keys, el = append(keys, "b"), append(el, c)
		}
	}
	var h int
	if l.Kind == 'a' {
		h = b.arr(el...)
	} else {
		h = b.mp(keys, el...)
	}
	if l.Imm {
		h = b.imm(h, direct)
	}
	return h
}

// attack applies every write route to every container reachable from root (not behind error values).
func (b *seqb) attack(root int) {
	v := b.lit("i99")
	i0, i1, und := b.lit("i0"), b.lit("i1"), b.lit("u")
	setThrough := func(h int) { // a derived value (append / slice / + / copy result): write into it, one and two levels deep
		b.do(opRec{K: "set", A: []int{h, v, i0}})
		b.do(opRec{K: "set", A: []int{h, v, i0, i0}})
	}
	var rec func(h int, sels []int, depth int)
	rec = func(h int, sels []int, depth int) {
		if depth > 8 {
			return
		}
		o := b.m.regs[h]
		switch {
		case isArrLike(o):
			b.do(opRec{K: "set", A: []int{h, v, i0}})
			b.do(opRec{K: "set", A: []int{h, v, i0}, Flag: true})
			if len(sels) > 0 {
				b.do(opRec{K: "set", A: append(append([]int{root, v}, sels...), i0), Flag: true}) // x[..][..][0] = 99 as one statement
			}
			if b.do(opRec{K: "append", A: []int{h, v}}) && isArrLike(b.m.regs[b.last()]) && b.last() != h {
				setThrough(b.last())
			}
			b.do(opRec{K: "splice", A: []int{h, i0, i1, v}})
			n := len(b.m.regs)
			if b.do(opRec{K: "slice", A: []int{h, und, i1}}) && len(b.m.regs) > n {
				setThrough(b.last())
			}
			n = len(b.m.regs)
			if b.do(opRec{K: "add", A: []int{h, h}, Flag: depth%2 == 0}) && len(b.m.regs) > n {
				setThrough(b.last())
			}
			b.do(opRec{K: "copy", A: []int{h}, Flag: depth%2 == 1})
			setThrough(b.last())
			b.do(opRec{K: "delete", A: []int{h, b.lit("sa")}})
		case isMapLike(o):
			ka := b.lit("sa")
			b.do(opRec{K: "set", A: []int{h, v, ka}})
			b.do(opRec{K: "set", A: []int{h, v, b.lit("szz")}, Flag: true})
			if len(sels) > 0 {
				b.do(opRec{K: "set", A: append(append([]int{root, v}, sels...), ka), Flag: true})
			}
			b.do(opRec{K: "delete", A: []int{h, ka}})
			b.do(opRec{K: "copy", A: []int{h}, Flag: depth%2 == 1})
			ch := b.last()
			b.do(opRec{K: "set", A: []int{ch, v, ka}})
			b.do(opRec{K: "set", A: []int{ch, v, ka, i0}})
			b.do(opRec{K: "splice", A: []int{h, i0, i1}})
		default:
			return
		}
		b.do(opRec{K: "iter", A: []int{h}})
		// children (re-read after the attacks: under a defect the container may have changed)
		type child struct {
			sel string
			obj tengo.Object
		}
		var cs []child
		switch c := b.m.regs[h].(type) {
		case *tengo.Array:
			for i, e := range c.Value {
				cs = append(cs, child{fmt.Sprintf("i%d", i), e})
			}
		case *tengo.ImmutableArray:
			for i, e := range c.Value {
				cs = append(cs, child{fmt.Sprintf("i%d", i), e})
			}
		case *tengo.Map:
			for k, e := range c.Value {
				cs = append(cs, child{"s" + k, e})
			}
		case *tengo.ImmutableMap:
			for k, e := range c.Value {
				cs = append(cs, child{"s" + k, e})
			}
		}
		sort.Slice(cs, func(i, j int) bool { return cs[i].sel < cs[j].sel })
		for _, c := range cs {
			if !isArrLike(c.obj) && !isMapLike(c.obj) {
				continue // scalars; error values are not entered (their payload is finding O24)
			}
			if len(cs) > 6 {
				break
			}
			s := b.lit(c.sel)
			n := len(b.m.regs)
			if b.do(opRec{K: "get", A: []int{h, s}, Flag: depth%2 == 1}) && len(b.m.regs) > n {
				rec(b.last(), append(append([]int{}, sels...), s), depth+1)
			}
		}
	}
	rec(root, nil, 0)
}

// runShapeSeq: build the shape, freeze it, attack the result.
func runShapeSeq(s shape, idx int) {
	b := newSeqb("objops")
	root := b.build(s, 0, idx%3 == 2)
	if b.do(opRec{K: "freeze", A: []int{root}, Flag: idx%2 == 0, Watch: true}) {
		b.attack(b.last())
	}
	b.m.snapCmd(b.m.containerHandles(false))
	res.Dist("shapes:objops")
	finish(b.m)
}

// runExportSeq: import the module's exported value into the sequence (real compiler + VM), then attack it.
// freezeToo: additionally freeze the imported value and attack the frozen result.
func runExportSeq(modsrc string, freezeToo bool) {
	b := newSeqb("objops")
	if !b.do(opRec{K: "export", Name: modsrc}) {
		res.Dist("exports:module-did-not-run")
		return
	}
	root := b.last()
	if isArrLike(b.m.regs[root]) || isMapLike(b.m.regs[root]) {
		res.Dist("exports:objops-container")
	}
	if freezeToo {
		if b.do(opRec{K: "freeze", A: []int{root}, Flag: true, Watch: true}) {
			b.attack(b.last())
		}
	} else {
		b.attack(root)
	}
	b.m.snapCmd(b.m.containerHandles(false))
	finish(b.m)
}

// ---- program stream -----------------------------------------------------------------------------

type cpath struct {
	expr string // selector text relative to the root variable
	kind byte   // 'a' / 'm'
}

// containerPaths lists every container reachable from o without entering error values (a shared
// container is listed once per route).
func containerPaths(o tengo.Object) []cpath {
	var out []cpath
	var rec func(o tengo.Object, expr string, d int)
	rec = func(o tengo.Object, expr string, d int) {
		if d > 8 {
			return
		}
		var el []tengo.Object
		var mp map[string]tengo.Object
		switch v := o.(type) {
		case *tengo.Array:
			el = v.Value
		case *tengo.ImmutableArray:
			el = v.Value
		case *tengo.Map:
			mp = v.Value
		case *tengo.ImmutableMap:
			mp = v.Value
		default:
			return
		}
		if mp == nil {
			out = append(out, cpath{expr, 'a'})
			for i, e := range el {
				rec(e, fmt.Sprintf("%s[%d]", expr, i), d+1)
			}
			return
		}
		out = append(out, cpath{expr, 'm'})
		keys := make([]string, 0, len(mp))
		for k := range mp {
			keys = append(keys, k)
		}
		sort.Strings(keys)
		for _, k := range keys {
			rec(mp[k], expr+"."+k, d+1)
		}
	}
	rec(o, "", 0)
	return out
}

// attackLines: attacks that do not stop the program on a correct implementation (writes guarded by the
// mutable type, writes into derived copies) and the list of plain attacks (each ends a correct run with
// "not index-assignable" / an argument type error).
func attackLines(root string, paths []cpath) (cont []string, finals []string) {
	t := 0
	tmp := func() string { t++; return fmt.Sprintf("t%d", t) }
	for _, p := range paths {
		P := root + p.expr
		if p.kind == 'a' {
			cont = append(cont, fmt.Sprintf("if is_array(%s) { %s[0] = 99 }", P, P))
			n := tmp()
			cont = append(cont, fmt.Sprintf("%s := append(%s, 4); %s[0] = 97", n, P, n))
			n = tmp()
			cont = append(cont, fmt.Sprintf("%s := %s[0:1]; if len(%s) > 0 { %s[0] = 96 }", n, P, n, n))
			n = tmp()
			cont = append(cont, fmt.Sprintf("%s := %s + %s; if len(%s) > 0 { %s[0] = 95 }", n, P, P, n, n))
			n = tmp()
			cont = append(cont, fmt.Sprintf("%s := copy(%s); if len(%s) > 0 { %s[0] = 94 }", n, P, n, n))
			cont = append(cont, fmt.Sprintf("if is_array(%s) { splice(%s, 0, 1, 98) }", P, P))
			finals = append(finals, P+"[0] = 99", "splice("+P+", 0, 1)")
		} else {
			cont = append(cont, fmt.Sprintf("if is_map(%s) { %s.zz = 99 }", P, P))
			n := tmp()
			cont = append(cont, fmt.Sprintf("%s := copy(%s); %s.a = 94", n, P, n))
			cont = append(cont, fmt.Sprintf("if is_map(%s) { delete(%s, \"a\") }", P, P))
			finals = append(finals, P+".a = 99", "delete("+P+", \"a\")")
		}
		cont = append(cont, fmt.Sprintf("for k, e in %s { if is_array(e) && len(e) > 0 { e[0] = 55 } else if is_map(e) { e.z = 56 } }", P))
	}
	return
}

type progOut struct {
	globals []tengo.Object
	gidx    map[string]int
	runErr  error
	pan     string
	timeout bool
	steps   int
}

func (p *progOut) get(name string) tengo.Object {
	if i, ok := p.gidx[name]; ok {
		return p.globals[i]
	}
	return nil
}

// execProgram compiles and runs src on the real VM; onStep runs before every instruction of the main
// function and once after the run.
func execProgram(src string, mods *tengo.ModuleMap, inputs map[string]tengo.Object, onStep func(p *progOut)) (*progOut, error) {
	names := make([]string, 0, len(inputs))
	for n := range inputs {
		names = append(names, n)
	}
	sort.Strings(names)
	c, err := lib.CompileSource([]byte(src), lib.CompileOpts{Modules: mods, Inputs: names})
	if err != nil {
		return nil, err
	}
	p := &progOut{globals: make([]tengo.Object, tengo.GlobalsSize), gidx: map[string]int{}}
	for _, name := range c.Symbols.Names() {
		if sym, _, ok := c.Symbols.Resolve(name, false); ok && sym.Scope == tengo.ScopeGlobal {
			p.gidx[name] = sym.Index
		}
	}
	for n, o := range inputs {
		p.globals[p.gidx[n]] = o
	}
	vm := tengo.NewVM(c.BC, p.globals, -1)
	tengo.VerifProbe = func(v *tengo.VM, fn *tengo.CompiledFunction, ip, sp, bp, fi int, allocs int64) {
		if v != vm {
			return
		}
		p.steps++
		if fi == 1 && p.steps < 20000 {
			onStep(p)
		}
	}
	defer func() { tengo.VerifProbe = nil }()
	done := make(chan struct{})
	go func() {
		defer close(done)
		defer func() {
			if r := recover(); r != nil {
				p.pan = fmt.Sprint(r)
			}
		}()
		p.runErr = vm.Run()
	}()
	select {
	case <-done:
	case <-time.After(3 * time.Second):
		vm.Abort()
		<-done
		p.timeout = true
		res.Dist("timeout")
	}
	tengo.VerifProbe = nil
	onStep(p)
	return p, nil
}

func buildModules(modsrc map[string]string) *tengo.ModuleMap {
	if len(modsrc) == 0 {
		return nil
	}
	mm := tengo.NewModuleMap()
	for n, s := range modsrc {
		mm.AddSourceModule(n, []byte(s))
	}
	return mm
}

// mutableReachable: a mutable array/map reachable from o without entering error values.
func mutableReachable(o tengo.Object, d int) bool {
	if d > 64 {
		return false
	}
	switch v := o.(type) {
	case *tengo.Array, *tengo.Map:
		return true
	case *tengo.ImmutableArray:
		for _, e := range v.Value {
			if mutableReachable(e, d+1) {
				return true
			}
		}
	case *tengo.ImmutableMap:
		for _, e := range v.Value {
			if mutableReachable(e, d+1) {
				return true
			}
		}
	}
	return false
}

func outcomeDist(prefix string, p *progOut) {
	switch {
	case p.pan != "":
		res.Dist(prefix + ":go-panic")
	case p.runErr != nil && strings.Contains(p.runErr.Error(), "not index-assignable"):
		res.Dist(prefix + ":write-rejected")
	case p.runErr != nil && strings.Contains(p.runErr.Error(), "invalid type for argument"):
		res.Dist(prefix + ":builtin-rejected")
	case p.runErr != nil:
		res.Dist(prefix + ":runtime-error")
	default:
		res.Dist(prefix + ":ran-to-end")
	}
}

// runFrozenProgram: the program assigns `x := freeze(…)` once; from the first instruction after that
// assignment on, x has no mutable container (outside error values) and its contents (error payloads cut
// off) never change. host: spec of the host-provided global `h` (the argument of freeze), if any.
func runFrozenProgram(src string, modsrc map[string]string, host map[string]string) {
	const stream = "immprog"
	inputs := map[string]tengo.Object{}
	for n, spec := range host {
		s, ok := parseShape(spec)
		if !ok {
			return
		}
		inputs[n] = s.host(0)
	}
	hostBefore := ""
	if h := inputs["h"]; h != nil {
		hostBefore = lib.Canon(h)
	}
	in := map[string]interface{}{"kind": "frozen-shape", "source": src, "global": "x"}
	if len(modsrc) > 0 {
		in["modules"] = modsrc
	}
	if len(host) > 0 {
		in["host"] = host
	}
	seen, snap := false, ""
	reported := map[string]bool{}
	violate := func(sig, obs, exp, oracle string) {
		if reported[sig] {
			return
		}
		reported[sig] = true
		res.Dist("violation:" + stream + ":" + sig)
		res.Violate(lib.Violation{Signature: sig, Stream: stream, Input: in, Observed: obs, Expected: exp, Oracle: oracle})
	}
	p, err := execProgram(src, buildModules(modsrc), inputs, func(p *progOut) {
		x := p.get("x")
		if x == nil {
			return
		}
		if !seen {
			seen = true
			snap = canonNoErr(x, 0)
			if mutableReachable(x, 0) {
				violate("freeze-result-has-mutable-container", lib.Canon(x), "no array/map reachable (outside error values)", "everything reachable from freeze(x) is immutable")
			}
			if h := inputs["h"]; h != nil {
				if now := lib.Canon(h); now != hostBefore {
					violate("freeze-modified-argument", now, hostBefore, "freeze does not modify its argument (host-provided value)")
				}
				if !x.Equals(h) {
					violate("freeze-result-not-equal", lib.Canon(x), hostBefore, "freeze(x) == x")
				}
			}
			return
		}
		if now := canonNoErr(x, 0); now != snap {
			violate("immutable-storage-changed", now, snap, "a frozen value (no mutable alias existed: built from literals / a fresh host value / a module export) keeps its contents, error payloads aside, whatever the program does afterwards")
			snap = now
		}
	})
	if err != nil {
		res.Count(stream, src, false)
		res.Dist("shapes:compile-error")
		return
	}
	res.Count(stream, src, seen)
	res.Dist("shapes:immprog")
	outcomeDist("shapes", p)
}

// runExportProgram: `v := import("m")` in the program; v is an immutable container (if a container at
// all), its own elements never change, and `w` (the next import, if the program gets there) equals what
// the first import gave.
func runExportProgram(src string, modsrc map[string]string) {
	const stream = "immprog"
	in := map[string]interface{}{"kind": "export-import", "source": src, "global": "v", "modules": modsrc}
	ids := map[tengo.Object]int{}
	shallow := func(o tengo.Object) string {
		el := func(e tengo.Object) string {
			if isContainer(e) {
				if _, ok := ids[e]; !ok {
					ids[e] = len(ids) + 1
				}
				return fmt.Sprintf("@%d", ids[e])
			}
			return lib.Canon(e)
		}
		var sb strings.Builder
		switch v := o.(type) {
		case *tengo.Array:
			for _, e := range v.Value {
				sb.WriteString(" " + el(e))
			}
		case *tengo.ImmutableArray:
			for _, e := range v.Value {
				sb.WriteString(" " + el(e))
			}
		case *tengo.Map, *tengo.ImmutableMap:
			mv := map[string]tengo.Object(nil)
			if m, ok := v.(*tengo.Map); ok {
				mv = m.Value
			} else {
				mv = v.(*tengo.ImmutableMap).Value
			}
			keys := make([]string, 0, len(mv))
			for k := range mv {
				keys = append(keys, k)
			}
			sort.Strings(keys)
			for _, k := range keys {
				sb.WriteString(" (" + k + " " + el(mv[k]) + ")")
			}
		default:
			return lib.Canon(o)
		}
		return "(" + o.TypeName() + sb.String() + ")"
	}
	seen, container := false, false
	first, deep := "", ""
	reported := map[string]bool{}
	violate := func(sig, obs, exp, oracle string) {
		if reported[sig] {
			return
		}
		reported[sig] = true
		res.Dist("violation:" + stream + ":" + sig)
		res.Violate(lib.Violation{Signature: sig, Stream: stream, Input: in, Observed: obs, Expected: exp, Oracle: oracle})
	}
	p, err := execProgram(src, buildModules(modsrc), nil, func(p *progOut) {
		v := p.get("v")
		if v == nil {
			return
		}
		if !seen {
			seen = true
			first, deep = shallow(v), lib.Canon(v)
			switch v.(type) {
			case *tengo.Array, *tengo.Map:
				container = true
				violate("exported-value-mutable", deep, "immutable-array / immutable-map", "a value exported from a module is immutable (import yields a mutable container)")
			case *tengo.ImmutableArray, *tengo.ImmutableMap:
				container = true
			}
			return
		}
		if now := shallow(v); now != first {
			violate("exported-value-changed", now, first, "the elements of a value exported from a module never change in the importer (element scalars by value, element containers by identity)")
			first = now
		}
		if w := p.get("w"); w != nil && !hasFunction(w) {
			if d := lib.Canon(w); d != deep {
				violate("module-next-import-differs", d, deep, "importing the module again gives the value the first import gave, whatever the importer did to the first one")
			}
		}
	})
	if err != nil {
		res.Count(stream, src, false)
		res.Dist("exports:compile-error")
		return
	}
	res.Count(stream, src, seen && container)
	res.Dist("exports:immprog")
	if container {
		res.Dist("exports:immprog-container")
	}
	outcomeDist("exports", p)
}

// ---- export forms -------------------------------------------------------------------------------

type payload struct {
	lit  string
	kind byte
}

var payloads = []payload{
	{"[1, 2, 3]", 'a'},
	{"[[1, 2], {k: 3}, 4]", 'a'},
	{"{host: \"localhost\", port: 80, a: 1}", 'm'},
	{"{a: {b: [1]}, port: [80, 443]}", 'm'},
}

type exportForm struct {
	name string
	src  string // P is replaced by the payload literal
	only byte   // 0, or the payload kind the form needs
}

var exportForms = []exportForm{
	{"literal", "export P", 0},
	{"identifier", "x := P\nexport x", 0},
	{"call", "f := func() { return P }\nexport f()", 0},
	{"call-literal", "export func() { return P }()", 0},
	{"call-arg", "f := func(p) { return p }\nexport f(P)", 0},
	{"closure", "x := P\nf := func() { return x }\nexport f()", 0},
	{"index", "t := [0, P]\nexport t[1]", 0},
	{"selector", "t := {k: P}\nexport t.k", 0},
	{"index-literal", "export [0, P][1]", 0},
	{"selector-literal", "export {k: P}.k", 0},
	{"or-default", "o := undefined\nexport o || P", 0},
	{"or-first", "x := P\nexport x || 0", 0},
	{"or-chain", "a := undefined\nb := 0\nexport a || b || P", 0},
	{"and-guard", "e := true\nexport e && P", 0},
	{"and-both", "x := P\nexport x && x", 0},
	{"and-or", "ok := true\nexport ok && P || 0", 0},
	{"or-and", "o := undefined\ne := 1\nexport (e && o) || P", 0},
	{"cond-true", "c := true\nexport c ? P : 0", 0},
	{"cond-false", "c := false\nexport c ? 0 : P", 0},
	{"cond-or", "c := true\no := 0\nexport c ? (o || P) : 1", 0},
	{"cond-nested", "c := true\nd := false\nexport c ? (d ? 0 : P) : 1", 0},
	{"paren", "export (P)", 0},
	{"paren-paren-or", "o := undefined\nexport ((o || P))", 0},
	{"immutable", "export immutable(P)", 0},
	{"immutable-or", "o := undefined\nexport o || immutable(P)", 0},
	{"freeze", "export freeze(P)", 0},
	{"copy", "x := P\nexport copy(x)", 0},
	{"block", "if true { export P }", 0},
	{"loop-assigned", "x := 0\nfor i := 0; i < 1; i++ { x = P }\nexport x", 0},
	{"func-default", "f := func(d) { return d || P }\nexport f(undefined)", 0},
	{"import-inner", "export import(\"inner\")", 0},
	{"import-inner-or", "o := undefined\nexport o || import(\"inner\")", 0},
	{"add", "export P + [4]", 'a'},
	{"add-or", "o := undefined\nexport (o || P) + [4]", 'a'},
	{"slice", "x := P\nexport x[0:2]", 'a'},
	{"slice-or", "base := P\nexport (len(base) > 5 && base[:5]) || base", 'a'},
	{"append", "export append(P, 4)", 'a'},
}

// composite: a random composition of the expression forms around the payload.
func compositeExport(r *lib.RNG, p payload) string {
	const (
		lvCond = 1
		lvOr   = 2
		lvAnd  = 3
		lvAtom = 4
	)
	wrap := func(t string, have, need int) string {
		if have < need {
			return "(" + t + ")"
		}
		return t
	}
	var gen func(d int) (string, int)
	gen = func(d int) (string, int) {
		if d <= 0 {
			return p.lit, lvAtom
		}
		t, lv := gen(d - 1)
		switch r.Intn(12) {
		case 0:
			return "(" + t + ")", lvAtom
		case 1:
			return "o || " + wrap(t, lv, lvAnd), lvOr
		case 2:
			return wrap(t, lv, lvOr) + " || 0", lvOr
		case 3:
			return "e && " + wrap(t, lv, lvAtom), lvAnd
		case 4:
			return "c ? " + t + " : 0", lvCond
		case 5:
			return "n ? 0 : " + t, lvCond
		case 6:
			return "id(" + t + ")", lvAtom
		case 7:
			return "[0, " + t + "][1]", lvAtom
		case 8:
			return "{k: " + t + "}.k", lvAtom
		case 9:
			return "immutable(" + t + ")", lvAtom
		case 10:
			return "z || o || " + wrap(t, lv, lvAnd), lvOr
		}
		return "e && c && " + wrap(t, lv, lvAtom), lvAnd
	}
	t, _ := gen(1 + r.Intn(4))
	return "o := undefined\ne := true\nc := true\nn := false\nz := 0\nid := func(p) { return p }\nexport " + t
}

// importerPrograms: one importer per plain attack (a correct run ends there) plus one that only does the
// continuing attacks and imports the module again.
func importerPrograms(kind byte) []string {
	cont, finals := attackLines("alias", []cpath{{"", kind}})
	head := "v := import(\"m\")\nalias := v\n"
	body := strings.Join(cont, "\n") + "\nw := import(\"m\")\n"
	out := []string{head + body}
	for i, f := range finals {
		if i%2 == 0 {
			out = append(out, head+f+"\n")
		} else {
			out = append(out, head+body+f+"\n")
		}
	}
	return out
}

func runExports(r *lib.RNG, nComposite int) {
	run := func(modsrc string, kind byte, all bool) {
		mods := map[string]string{"m": modsrc, "inner": innerModule}
		progs := importerPrograms(kind)
		if !all {
			progs = []string{progs[0], progs[1+r.Intn(len(progs)-1)]}
		}
		for _, src := range progs {
			runExportProgram(src, mods)
		}
		runExportSeq(modsrc, false)
		if all {
			runExportSeq(modsrc, true)
		}
	}
	for _, f := range exportForms {
		for pi, p := range payloads {
			if (f.only != 0 && f.only != p.kind) || (pi > 0 && !strings.Contains(f.src, "P")) {
				continue
			}
			kind := p.kind
			if strings.HasPrefix(f.name, "import-inner") {
				kind = 'm'
			}
			run(strings.ReplaceAll(f.src, "P", p.lit), kind, true)
		}
	}
	for i := 0; i < nComposite; i++ {
		p := lib.Pick(r, payloads)
		run(compositeExport(r, p), p.kind, false)
	}
}

// ---- frozen shapes, all streams ------------------------------------------------------------------

func runShapes(r *lib.RNG, mixes int) {
	shapes := shapeSet(r, mixes)
	for i, s := range shapes {
		runShapeSeq(s, i)
		expr := s.source(0)
		paths := containerPaths(s.host(0))
		cont, finals := attackLines("x", paths)
		body := strings.Join(cont, "\n") + "\n"
		allVariantsZero := true
		for _, l := range s {
			if l.Variant != 0 {
				allVariantsZero = false
			}
		}
		final := func(k int) string { return finals[k%len(finals)] + "\n" }
		// literal
		runFrozenProgram("x := freeze("+expr+")\n"+body+final(i), nil, nil)
		if allVariantsZero {
			for k := range finals {
				runFrozenProgram("x := freeze("+expr+")\n"+final(k), nil, nil)
			}
		}
		// value exported by a source module
		runFrozenProgram("x := freeze(import(\"shp\"))\n"+body+final(i+1), map[string]string{"shp": "export " + expr}, nil)
		// host-provided value
		runFrozenProgram("x := freeze(h)\n"+body+final(i+2), nil, map[string]string{"h": s.spec()})
		// the module's value, frozen, on the object level
		if i%4 == 0 {
			runExportSeq("export "+expr, true)
		}
	}
	res.Dist(fmt.Sprintf("shapes:configurations=%d", len(shapes)))
}

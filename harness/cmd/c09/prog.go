package main

import (
	"fmt"
	"os"
	"strings"
	"time"

	"github.com/d5/tengo/v2"
	"verifharness/lib"
)

// Whole-program streams: the program runs on the real VM; at every instruction of the main function
// (per-instruction probe) every immutable container reachable from a global is compared with the
// snapshot taken when it was first seen. The generators never apply `immutable` to a live mutable
// variable, so no immutable value of these programs has a mutable alias of its storage.

type progRec struct {
	ident string
	deep  string // "" unless everything reachable is immutable (then the full contents are fixed)
	step  int
}

func allImmutable(o tengo.Object) bool {
	ok := true
	walk(o, map[tengo.Object]bool{}, func(x tengo.Object) {
		switch x.(type) {
		case *tengo.Array, *tengo.Map, *tengo.Error, *tengo.ObjectPtr, *tengo.CompiledFunction:
			ok = false
		}
	})
	return ok
}

func runProgram(stream, src string, mods *tengo.ModuleMap, expectImm []string) {
	c, err := lib.CompileSource([]byte(src), lib.CompileOpts{Modules: mods})
	if err != nil {
		res.Count(stream, src, false)
		res.Dist("compile-error")
		if os.Getenv("C09_DEBUG") != "" {
			fmt.Fprintln(os.Stderr, "COMPILE", stream, err, "\n", src)
		}
		if strings.HasPrefix(err.Error(), "PANIC") {
			res.Dist("compile-panic")
		}
		return
	}
	globals := make([]tengo.Object, tengo.GlobalsSize)
	var gidx []int
	var gname []string
	for _, name := range c.Symbols.Names() {
		sym, _, ok := c.Symbols.Resolve(name, false)
		if ok && sym.Scope == tengo.ScopeGlobal {
			gidx = append(gidx, sym.Index)
			gname = append(gname, name)
		}
	}
	vm := tengo.NewVM(c.BC, globals, -1)
	pm := newMachine(stream)
	seen := map[tengo.Object]*progRec{}
	steps, checks := 0, 0
	reported := false
	check := func() {
		checks++
		for gi, idx := range gidx {
			o := globals[idx]
			if o == nil || !isContainer(o) {
				continue
			}
			imms := immutablesOf(o)
			for x := range imms {
				pm.clean[x] = true
			}
			for x := range imms {
				r := seen[x]
				if r == nil {
					r = &progRec{ident: pm.identSnap(x, 0), step: steps}
					if allImmutable(x) {
						r.deep = lib.Canon(x)
					}
					seen[x] = r
					continue
				}
				now := pm.identSnap(x, 0)
				bad := now != r.ident
				obs, exp := now, r.ident
				if !bad && r.deep != "" {
					if d := lib.Canon(x); d != r.deep {
						bad, obs, exp = true, d, r.deep
					}
				}
				if bad && !reported {
					reported = true
					res.Dist("violation:" + stream + ":immutable-storage-changed")
					res.Violate(lib.Violation{Signature: "immutable-storage-changed", Stream: stream,
						Input:    map[string]interface{}{"source": src, "global": gname[gi], "first_seen_step": r.step, "changed_by_step": steps},
						Observed: obs, Expected: exp, Oracle: "an immutable value reachable from a global keeps the contents it had when first seen (identity snapshot; full snapshot when everything reachable is immutable)"})
				}
			}
		}
	}
	tengo.VerifProbe = func(v *tengo.VM, fn *tengo.CompiledFunction, ip, sp, bp, fi int, allocs int64) {
		if v != vm {
			return
		}
		steps++
		if fi == 1 && steps < 6000 && steps%3 == 0 { // main frame
			check()
		}
	}
	defer func() { tengo.VerifProbe = nil }()
	var runErr error
	var pan string
	done := make(chan struct{})
	go func() {
		defer close(done)
		defer func() {
			if p := recover(); p != nil {
				pan = fmt.Sprint(p)
			}
		}()
		runErr = vm.Run()
	}()
	select {
	case <-done:
	case <-time.After(3 * time.Second):
		vm.Abort()
		<-done
		res.Dist("timeout")
	}
	tengo.VerifProbe = nil
	check()
	for gi, idx := range gidx {
		for _, n := range expectImm {
			if n != gname[gi] || globals[idx] == nil {
				continue
			}
			switch globals[idx].(type) {
			case *tengo.Array, *tengo.Map:
				res.Dist("violation:" + stream + ":value-not-immutable")
				res.Violate(lib.Violation{Signature: "value-not-immutable", Stream: stream, Input: map[string]interface{}{"source": src, "global": n},
					Observed: lib.Canon(globals[idx]), Expected: "immutable-array / immutable-map",
					Oracle: "the result of immutable(…), freeze(…), importing an exported array/map or a builtin module is an immutable container"})
			}
		}
	}
	res.Count(stream, src, len(seen) > 0)
	if len(seen) > 0 {
		res.Dist(stream + ":programs-with-immutables")
	}
	switch {
	case pan != "":
		res.Dist(stream + ":go-panic")
	case runErr != nil && strings.Contains(runErr.Error(), "not index-assignable"):
		res.Dist(stream + ":write-rejected")
	case runErr != nil:
		res.Dist(stream + ":runtime-error")
	}
	res.Sample(map[string]interface{}{"stream": stream, "source": src, "immutables_seen": len(seen), "checks": checks}, 4)
}

// ---- immutable-heavy program generator ----------------------------------------------------------

type pvar struct {
	name string
	kind string // marr iarr farr mmap imap fmap
}

type pgen struct {
	r    *lib.RNG
	sb   strings.Builder
	vars []pvar
	n    int
}

func (g *pgen) fresh(kind string) string {
	g.n++
	name := fmt.Sprintf("v%d", g.n)
	g.vars = append(g.vars, pvar{name, kind})
	return name
}

func (g *pgen) pick(kinds ...string) (pvar, bool) {
	var c []pvar
	for _, v := range g.vars {
		for _, k := range kinds {
			if v.kind == k {
				c = append(c, v)
			}
		}
	}
	if len(c) == 0 {
		return pvar{}, false
	}
	return lib.Pick(g.r, c), true
}

func (g *pgen) scalar() string {
	switch g.r.Intn(5) {
	case 0:
		return `"s"`
	case 1:
		return "true"
	case 2:
		return "2.5"
	}
	return fmt.Sprint(g.r.Intn(10))
}

// lit: a literal; vars: may mention existing variables (sharing).
func (g *pgen) lit(depth int, vars bool) string {
	if depth <= 0 || g.r.Chance(1, 3) {
		if vars && len(g.vars) > 0 && g.r.Chance(1, 3) {
			return lib.Pick(g.r, g.vars).name
		}
		return g.scalar()
	}
	if g.r.Bool() {
		return g.arrLit(depth, vars)
	}
	return g.mapLit(depth, vars)
}

func (g *pgen) arrLit(depth int, vars bool) string {
	n := g.r.Intn(4)
	parts := make([]string, n)
	for i := range parts {
		parts[i] = g.lit(depth-1, vars)
	}
	return "[" + strings.Join(parts, ", ") + "]"
}

func (g *pgen) mapLit(depth int, vars bool) string {
	n := g.r.Intn(3)
	parts := make([]string, n)
	for i := range parts {
		parts[i] = keyNames[i] + ": " + g.lit(depth-1, vars)
	}
	return "{" + strings.Join(parts, ", ") + "}"
}

func (g *pgen) line(s string) { g.sb.WriteString(s + "\n") }

func (g *pgen) stmt() {
	arrKinds := []string{"marr", "iarr", "farr"}
	mapKinds := []string{"mmap", "imap", "fmap"}
	switch g.r.Weighted([]int{5, 5, 3, 3, 6, 5, 4, 3, 8, 5, 3, 4, 3, 3}) {
	case 0:
		rhs := g.arrLit(3, true)
		g.line(g.fresh("iarr") + " := immutable(" + rhs + ")")
	case 1:
		if g.r.Bool() {
			rhs := g.arrLit(3, true)
			g.line(g.fresh("farr") + " := freeze(" + rhs + ")")
		} else {
			rhs := g.mapLit(3, true)
			g.line(g.fresh("fmap") + " := freeze(" + rhs + ")")
		}
	case 2:
		rhs := g.mapLit(3, true)
		g.line(g.fresh("imap") + " := immutable(" + rhs + ")")
	case 3:
		if g.r.Bool() {
			rhs := g.arrLit(2, true)
			g.line(g.fresh("marr") + " := " + rhs)
		} else {
			rhs := g.mapLit(2, true)
			g.line(g.fresh("mmap") + " := " + rhs)
		}
	case 4: // slice, then write into the slice
		if a, ok := g.pick(arrKinds...); ok {
			t := g.fresh("marr")
			g.line(fmt.Sprintf("%s := %s[%s:%s]", t, a.name, lib.Pick(g.r, []string{"", "0", "1"}), lib.Pick(g.r, []string{"", "2", "3"})))
			g.line(fmt.Sprintf("if len(%s) > 0 { %s[0] = %s }", t, t, g.lit(1, false)))
		}
	case 5: // append, then write / append again
		if a, ok := g.pick(arrKinds...); ok {
			t := g.fresh("marr")
			g.line(fmt.Sprintf("%s := append(%s, %s)", t, a.name, g.lit(1, false)))
			g.line(fmt.Sprintf("%s[0] = %s", t, g.scalar()))
			if g.r.Bool() {
				g.line(fmt.Sprintf("%s := append(%s, %s)", g.fresh("marr"), a.name, g.scalar()))
			}
		}
	case 6: // +
		if a, ok := g.pick("iarr", "farr"); ok {
			if b, ok := g.pick("iarr", "farr"); ok {
				t := g.fresh("marr")
				g.line(fmt.Sprintf("%s := %s + %s", t, a.name, b.name))
				g.line(fmt.Sprintf("if len(%s) > 0 { %s[len(%s)-1] = %s }", t, t, t, g.scalar()))
				g.line(fmt.Sprintf("%s := %s + %s", g.fresh("marr"), a.name, b.name))
			}
		} else if a, ok := g.pick("marr"); ok {
			g.line(fmt.Sprintf("%s := %s + [%s]", g.fresh("marr"), a.name, g.scalar()))
		}
	case 7: // copy, then deep write
		if a, ok := g.pick(append(arrKinds, mapKinds...)...); ok {
			kind := "marr"
			if strings.HasSuffix(a.kind, "map") {
				kind = "mmap"
			}
			t := g.fresh(kind)
			g.line(fmt.Sprintf("%s := copy(%s)", t, a.name))
			if kind == "marr" {
				g.line(fmt.Sprintf("if len(%s) > 0 { if is_array(%s[0]) && len(%s[0]) > 0 { %s[0][0] = 77 } else { %s[0] = 78 } }", t, t, t, t, t))
			} else {
				g.line(fmt.Sprintf("%s.a = 79", t))
			}
		}
	case 8: // writes through sub-objects handed out by an immutable value
		if a, ok := g.pick(append(arrKinds, mapKinds...)...); ok {
			sel := "[0]"
			if strings.HasSuffix(a.kind, "map") {
				sel = ".a"
			}
			x := a.name + sel
			switch g.r.Intn(4) {
			case 0:
				g.line(fmt.Sprintf("if is_array(%s) && len(%s) > 0 { %s[0] = %s }", x, x, x, g.lit(1, false)))
			case 1:
				g.line(fmt.Sprintf("if is_map(%s) { %s.b = %s }", x, x, g.lit(1, false)))
			case 2:
				g.line(fmt.Sprintf("if is_map(%s) { delete(%s, \"a\") }", x, x))
			case 3:
				g.line(fmt.Sprintf("if is_array(%s) { splice(%s, 0, 1, %s) }", x, x, g.scalar()))
			}
		}
	case 9: // plain writes into mutable values
		if a, ok := g.pick("marr"); ok {
			g.line(fmt.Sprintf("if len(%s) > 1 { %s[1] = %s }", a.name, a.name, g.lit(1, false)))
		} else if a, ok := g.pick("mmap"); ok {
			g.line(fmt.Sprintf("%s.c = %s", a.name, g.lit(1, false)))
		}
	case 10: // iteration, writing what the iteration hands out
		if a, ok := g.pick(append(arrKinds, mapKinds...)...); ok {
			g.line(fmt.Sprintf("for k, e in %s { if is_array(e) && len(e) > 0 { e[0] = 55 } else if is_map(e) { e.z = 56 } }", a.name))
		}
	case 11: // through a function
		if a, ok := g.pick(arrKinds...); ok {
			g.line(fmt.Sprintf("func(p) { q := p[:]; if len(q) > 0 { q[0] = 44 }; r := append(p, 45); r[0] = 46 }(%s)", a.name))
		}
	case 12: // freeze of an existing value
		if a, ok := g.pick(append(arrKinds, mapKinds...)...); ok {
			kind := "farr"
			if strings.HasSuffix(a.kind, "map") {
				kind = "fmap"
			}
			g.line(fmt.Sprintf("%s := freeze(%s)", g.fresh(kind), a.name))
		}
	case 13: // module values
		switch g.r.Intn(3) {
		case 0:
			g.line(g.fresh("imap") + " := import(\"math\")")
		case 1:
			g.line(g.fresh("imap") + " := import(\"expm\")")
		case 2:
			g.line(g.fresh("iarr") + " := import(\"expa\")")
		}
	}
}

// immNames: the variables the generator expects to hold immutable containers.
func (g *pgen) immNames() []string {
	var out []string
	for _, v := range g.vars {
		if v.kind != "marr" && v.kind != "mmap" {
			out = append(out, v.name)
		}
	}
	return out
}

func (g *pgen) program() string {
	n := 6 + g.r.Intn(14)
	for i := 0; i < n; i++ {
		g.stmt()
	}
	// one attempted write to an immutable value at the very end (a run-time error ends the program)
	if a, ok := g.pick("iarr", "farr", "imap", "fmap"); ok && g.r.Chance(2, 3) {
		switch {
		case strings.HasSuffix(a.kind, "map"):
			g.line(lib.Pick(g.r, []string{a.name + ".a = 1", "delete(" + a.name + ", \"a\")", a.name + ".a.b = 2"}))
		default:
			g.line(lib.Pick(g.r, []string{a.name + "[0] = 1", "splice(" + a.name + ", 0, 1)", a.name + "[0][0] = 2"}))
		}
	}
	return g.sb.String()
}

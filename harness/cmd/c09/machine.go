package main

import (
	"fmt"
	"os"
	"reflect"
	"sort"
	"strings"

	"github.com/d5/tengo/v2"
	"github.com/d5/tengo/v2/stdlib"
	"github.com/d5/tengo/v2/token"
	"verifharness/lib"
)

// opRec is one operation of a sequence (replayable: the real objects and the model line are
// both rebuilt from it).
type opRec struct {
	K      string   `json:"k"`           // lit arr map err immut get set append splice delete slice add copy freeze iter eq export builtin
	A      []int    `json:"a,omitempty"` // handle operands (meaning per kind)
	Lit    string   `json:"lit,omitempty"`
	Keys   []string `json:"keys,omitempty"`
	Cap    int      `json:"cap,omitempty"`
	Flag   bool     `json:"flag,omitempty"`   // immut: consume; others: run through a compiled script
	Name   string   `json:"name,omitempty"`   // export: module source; builtin: module name
	Hidden bool     `json:"hidden,omitempty"` // the pushed handle is a private temporary
	Watch  bool     `json:"watch,omitempty"`  // freeze: the argument is a private tree (nothing else refers into it): deep watch on the result
}

func (o opRec) String() string {
	s := o.K
	if o.Lit != "" {
		s += " " + o.Lit
	}
	for _, k := range o.Keys {
		s += " ." + k
	}
	for _, a := range o.A {
		s += fmt.Sprintf(" @%d", a)
	}
	if o.K == "arr" {
		s += fmt.Sprintf(" cap=%d", o.Cap)
	}
	if o.Flag {
		s += " !"
	}
	if o.Watch {
		s += " (private)"
	}
	if o.Name != "" {
		s += " " + strings.ReplaceAll(o.Name, "\n", "; ")
	}
	return s
}

type watch struct {
	handle int
	obj    tengo.Object
	deep   bool // full Canon must stay (a frozen private tree); else identity snapshot of the clean storage
	snap   string
	cut    string // deep watches: full snapshot with error payloads cut off (tells whether a change is behind an error value)
	origin string
	since  int
}

// machine executes a sequence on real tengo objects and records the model line.
type machine struct {
	regs    []tengo.Object
	private map[int]bool
	cmds    []string // model commands
	expect  []string // expected answer per command
	cmdOp   []int    // op index of each command
	log     []opRec
	watches []*watch
	watched map[tengo.Object]bool
	clean   map[tengo.Object]bool // immutable containers whose storage had no mutable alias when made
	ids     map[tengo.Object]int
	stream  string
	dirty   bool // the model left its domain or the op was skipped: stop comparing
}

func newMachine(stream string) *machine {
	return &machine{private: map[int]bool{}, watched: map[tengo.Object]bool{}, clean: map[tengo.Object]bool{},
		ids: map[tengo.Object]int{}, stream: stream}
}

var opaquePool = []tengo.Object{tengo.TrueValue, tengo.FalseValue, &tengo.Float{Value: 1.5}, &tengo.Char{Value: 'x'}, &tengo.Bytes{Value: []byte("hi")}}

func isContainer(o tengo.Object) bool {
	switch o.(type) {
	case *tengo.Array, *tengo.ImmutableArray, *tengo.Map, *tengo.ImmutableMap, *tengo.Error:
		return true
	}
	return false
}

func isScalarModelled(o tengo.Object) bool {
	switch o.(type) {
	case *tengo.Int, *tengo.String, *tengo.Undefined:
		return true
	}
	return false
}

// litOf renders a scalar as the model literal.
func litOf(o tengo.Object) string {
	switch v := o.(type) {
	case *tengo.Undefined:
		return "u"
	case *tengo.Int:
		return "(i " + lib.I(v.Value) + ")"
	case *tengo.String:
		return "(s " + lib.HexS(v.Value) + ")"
	}
	return "(o " + lib.HexS(lib.Canon(o)) + ")"
}

func (m *machine) id(o tengo.Object) int {
	if i, ok := m.ids[o]; ok {
		return i
	}
	i := len(m.ids) + 1
	m.ids[o] = i
	return i
}

// identSnap: structure of the clean immutable storage; anything mutable (or whose storage was aliased
// when it became immutable) is named by object identity only.
func (m *machine) identSnap(o tengo.Object, depth int) string {
	if depth > 64 {
		return "(deep)"
	}
	switch v := o.(type) {
	case *tengo.ImmutableArray:
		if !m.clean[o] {
			return fmt.Sprintf("@%d", m.id(o))
		}
		var sb strings.Builder
		sb.WriteString("(ia")
		for _, e := range v.Value {
			sb.WriteByte(' ')
			sb.WriteString(m.identSnap(e, depth+1))
		}
		sb.WriteByte(')')
		return sb.String()
	case *tengo.ImmutableMap:
		if !m.clean[o] {
			return fmt.Sprintf("@%d", m.id(o))
		}
		keys := make([]string, 0, len(v.Value))
		for k := range v.Value {
			keys = append(keys, k)
		}
		sort.Strings(keys)
		var sb strings.Builder
		sb.WriteString("(im")
		for _, k := range keys {
			sb.WriteString(" (" + lib.HexS(k) + " " + m.identSnap(v.Value[k], depth+1) + ")")
		}
		sb.WriteByte(')')
		return sb.String()
	case *tengo.Array, *tengo.Map:
		return fmt.Sprintf("@%d", m.id(o))
	case *tengo.Error:
		return "(e@" + fmt.Sprint(m.id(o)) + " " + m.identSnap(v.Value, depth+1) + ")"
	case *tengo.UserFunction, *tengo.BuiltinFunction, *tengo.CompiledFunction:
		return fmt.Sprintf("(fn@%d)", m.id(o))
	}
	return lib.Canon(o)
}

// canonNoErr: deep snapshot that does not look behind error values.
func canonNoErr(o tengo.Object, depth int) string {
	if depth > 64 {
		return "(deep)"
	}
	var sb strings.Builder
	switch v := o.(type) {
	case *tengo.Error:
		return "(e)"
	case *tengo.Array:
		sb.WriteString("(a")
		for _, e := range v.Value {
			sb.WriteString(" " + canonNoErr(e, depth+1))
		}
	case *tengo.ImmutableArray:
		sb.WriteString("(ia")
		for _, e := range v.Value {
			sb.WriteString(" " + canonNoErr(e, depth+1))
		}
	case *tengo.Map, *tengo.ImmutableMap:
		mv, tag := map[string]tengo.Object(nil), "(im"
		if x, ok := v.(*tengo.Map); ok {
			mv, tag = x.Value, "(m"
		} else {
			mv = v.(*tengo.ImmutableMap).Value
		}
		keys := make([]string, 0, len(mv))
		for k := range mv {
			keys = append(keys, k)
		}
		sort.Strings(keys)
		sb.WriteString(tag)
		for _, k := range keys {
			sb.WriteString(" (" + lib.HexS(k) + " " + canonNoErr(mv[k], depth+1) + ")")
		}
	default:
		return lib.Canon(o)
	}
	sb.WriteByte(')')
	return sb.String()
}

// storeKey identifies the backing storage of a container (slices of one allocation share their end).
func storeKey(o tengo.Object) interface{} {
	switch v := o.(type) {
	case *tengo.Array:
		if cap(v.Value) == 0 {
			return nil
		}
		return &v.Value[:cap(v.Value)][cap(v.Value)-1]
	case *tengo.ImmutableArray:
		if cap(v.Value) == 0 {
			return nil
		}
		return &v.Value[:cap(v.Value)][cap(v.Value)-1]
	case *tengo.Map:
		return reflect.ValueOf(v.Value).Pointer()
	case *tengo.ImmutableMap:
		return reflect.ValueOf(v.Value).Pointer()
	}
	return nil
}

// walk visits every object reachable from o (through errors too); whole backing arrays are not
// visited, only the visible elements (the invisible tail can only hold stale elements).
func walk(o tengo.Object, seen map[tengo.Object]bool, f func(tengo.Object)) {
	if o == nil || seen[o] {
		return
	}
	if !isContainer(o) {
		f(o)
		return
	}
	seen[o] = true
	f(o)
	switch v := o.(type) {
	case *tengo.Array:
		for _, e := range v.Value {
			walk(e, seen, f)
		}
	case *tengo.ImmutableArray:
		for _, e := range v.Value {
			walk(e, seen, f)
		}
	case *tengo.Map:
		for _, e := range v.Value {
			walk(e, seen, f)
		}
	case *tengo.ImmutableMap:
		for _, e := range v.Value {
			walk(e, seen, f)
		}
	case *tengo.Error:
		walk(v.Value, seen, f)
	}
}

// wouldCycle: storing val into (the storage of) dst would make dst reachable from itself.
func wouldCycle(dst, val tengo.Object) bool {
	if !isContainer(val) {
		return false
	}
	dk := storeKey(dst)
	hit := false
	walk(val, map[tengo.Object]bool{}, func(o tengo.Object) {
		if o == dst {
			hit = true
		}
		if k := storeKey(o); k != nil && dk != nil && k == dk {
			hit = true
		}
	})
	return hit
}

func hasFunction(o tengo.Object) bool {
	hit := false
	walk(o, map[tengo.Object]bool{}, func(x tengo.Object) {
		switch f := x.(type) {
		case *tengo.UserFunction, *tengo.BuiltinFunction, *tengo.CompiledFunction:
			hit = true
		case *tengo.Float:
			if f.Value != f.Value {
				hit = true
			}
		}
	})
	return hit
}

// ---- command recording -------------------------------------------------------------------------

func (m *machine) emit(cmd, expect string) {
	m.cmds = append(m.cmds, cmd)
	m.expect = append(m.expect, strings.TrimSpace(expect))
	m.cmdOp = append(m.cmdOp, len(m.log)-1)
}

func (m *machine) push(o tengo.Object) int {
	m.regs = append(m.regs, o)
	return len(m.regs) - 1
}

func pushedAns(objs ...tengo.Object) string {
	parts := make([]string, len(objs))
	for i, o := range objs {
		parts[i] = lib.Canon(o)
	}
	return fmt.Sprintf("p%d %s", len(objs), strings.Join(parts, " ; "))
}

func ints(xs []int) string {
	parts := make([]string, len(xs))
	for i, x := range xs {
		parts[i] = lib.N(x)
	}
	return strings.Join(parts, " ")
}

func errKind(err error) string {
	switch err {
	case tengo.ErrNotIndexAssignable:
		return "not-index-assignable"
	case tengo.ErrNotIndexable:
		return "not-indexable"
	case tengo.ErrInvalidIndexType:
		return "invalid-index-type"
	case tengo.ErrIndexOutOfBounds:
		return "index-out-of-bounds"
	case tengo.ErrInvalidIndexOnError:
		return "invalid-index-on-error"
	case tengo.ErrInvalidOperator:
		return "invalid-operator"
	case tengo.ErrWrongNumArguments:
		return "wrong-num-args"
	}
	if e, ok := err.(tengo.ErrInvalidArgumentType); ok {
		return "invalid-arg-" + e.Name
	}
	t := err.Error()
	for _, p := range [][2]string{{"not index-assignable", "not-index-assignable"}, {"not indexable", "not-indexable"},
		{"invalid slice index type", "invalid-slice-index-type"}, {"invalid slice index", "invalid-slice-index"},
		{"invalid index on error", "invalid-index-on-error"}, {"invalid index type", "invalid-index-type"},
		{"index out of bounds", "index-out-of-bounds"}, {"invalid operator", "invalid-operator"}, {"invalid operation", "invalid-operator"}} {
		if strings.Contains(t, p[0]) {
			return p[1]
		}
	}
	return "other:" + t
}

// runScript runs a one-statement script over shared globals (the real compiler and VM) and returns the
// global `out`. Compiled code is cached per statement text; the VM is reused until a run fails (a VM that
// returned an error keeps it).
type cachedScript struct {
	c       *lib.Compiled
	globals []tengo.Object
	idx     map[string]int
	out     int
	vm      *tengo.VM
}

var scriptCache = map[string]*cachedScript{}

func runScript(src string, vars map[string]tengo.Object) (tengo.Object, error) {
	names := make([]string, 0, len(vars))
	for k := range vars {
		names = append(names, k)
	}
	sort.Strings(names)
	key := src + "|" + strings.Join(names, ",")
	cs := scriptCache[key]
	if cs == nil {
		c, err := lib.CompileSource([]byte(src), lib.CompileOpts{Inputs: names})
		if err != nil {
			return nil, fmt.Errorf("compile: %v", err)
		}
		cs = &cachedScript{c: c, globals: make([]tengo.Object, tengo.GlobalsSize), idx: map[string]int{}, out: -1}
		for _, n := range append(append([]string{}, names...), "out") {
			if sym, _, ok := c.Symbols.Resolve(n, false); ok && sym.Scope == tengo.ScopeGlobal {
				if n == "out" {
					cs.out = sym.Index
				} else {
					cs.idx[n] = sym.Index
				}
			}
		}
		scriptCache[key] = cs
	}
	for n, i := range cs.idx {
		cs.globals[i] = vars[n]
	}
	if cs.out >= 0 {
		cs.globals[cs.out] = nil
	}
	if cs.vm == nil {
		cs.vm = tengo.NewVM(cs.c.BC, cs.globals, -1)
	}
	err := cs.vm.Run()
	var out tengo.Object
	if cs.out >= 0 {
		out = cs.globals[cs.out]
		cs.globals[cs.out] = nil
	}
	for _, i := range cs.idx {
		cs.globals[i] = nil
	}
	if err != nil {
		cs.vm = nil
		return nil, err
	}
	return out, nil
}

var builtins = func() map[string]tengo.CallableFunc {
	m := map[string]tengo.CallableFunc{}
	for _, f := range tengo.GetAllBuiltinFunctions() {
		m[f.Name] = f.Value
	}
	return m
}()

func capOf(o tengo.Object) int {
	switch v := o.(type) {
	case *tengo.Array:
		return cap(v.Value)
	case *tengo.ImmutableArray:
		return cap(v.Value)
	}
	return 0
}

// copyCaps lists array capacities of a Copy() result in the model's order (pre-order, maps by key).
func copyCaps(o tengo.Object, out *[]int) {
	switch v := o.(type) {
	case *tengo.Array:
		*out = append(*out, cap(v.Value))
		for _, e := range v.Value {
			copyCaps(e, out)
		}
	case *tengo.Map:
		keys := make([]string, 0, len(v.Value))
		for k := range v.Value {
			keys = append(keys, k)
		}
		sort.Strings(keys)
		for _, k := range keys {
			copyCaps(v.Value[k], out)
		}
	case *tengo.Error:
		copyCaps(v.Value, out)
	}
}

func (m *machine) args(xs []int) []tengo.Object {
	out := make([]tengo.Object, len(xs))
	for i, x := range xs {
		out[i] = m.regs[x]
	}
	return out
}

func (m *machine) valid(op opRec) bool {
	for _, a := range op.A {
		if a < 0 || a >= len(m.regs) {
			return false
		}
	}
	return true
}

// exec performs op on the real objects. Returns false when the op was skipped (it would build a
// cyclic value, or is malformed).
func (m *machine) exec(op opRec) bool {
	if !m.valid(op) {
		return false
	}
	m.log = append(m.log, op)
	n0 := len(m.regs)
	ok := m.exec1(op)
	if !ok {
		m.log = m.log[:len(m.log)-1]
		return false
	}
	if op.Hidden {
		for i := n0; i < len(m.regs); i++ {
			m.private[i] = true
		}
	}
	m.afterOp(op, n0)
	if op.K == "freeze" && op.Watch && len(m.regs) > n0 {
		m.private[op.A[0]] = true
		m.addWatch(len(m.regs)-1, true, "freeze(private tree)")
	}
	return true
}

func (m *machine) fail(kind string) bool {
	m.emit("", "err "+kind)
	return true
}

func (m *machine) exec1(op opRec) bool {
	A := op.A
	switch op.K {
	case "lit":
		var o tengo.Object
		switch {
		case op.Lit == "u":
			o = tengo.UndefinedValue
		case strings.HasPrefix(op.Lit, "i"):
			var n int64
			fmt.Sscan(op.Lit[1:], &n)
			o = &tengo.Int{Value: n}
		case strings.HasPrefix(op.Lit, "s"):
			o = &tengo.String{Value: op.Lit[1:]}
		case strings.HasPrefix(op.Lit, "o"):
			var n int
			fmt.Sscan(op.Lit[1:], &n)
			o = opaquePool[n%len(opaquePool)]
		default:
			return false
		}
		m.push(o)
		m.emit("(lit "+litOf(o)+")", pushedAns(o))
	case "arr":
		c := op.Cap
		if c < len(A) {
			c = len(A)
		}
		v := make([]tengo.Object, len(A), c)
		copy(v, m.args(A))
		o := &tengo.Array{Value: v}
		m.push(o)
		m.emit(lib.L("arr", lib.N(c), ints(A)), pushedAns(o))
	case "map":
		if len(op.Keys) != len(A) {
			return false
		}
		mm := map[string]tengo.Object{}
		parts := []string{"map"}
		for i, k := range op.Keys {
			mm[k] = m.regs[A[i]]
			parts = append(parts, lib.L(lib.HexS(k), lib.N(A[i])))
		}
		o := &tengo.Map{Value: mm}
		m.push(o)
		m.emit(lib.L(parts...), pushedAns(o))
	case "err":
		var o tengo.Object
		if op.Flag {
			r, err := runScript("out := error(a)", map[string]tengo.Object{"a": m.regs[A[0]]})
			if err != nil {
				return false
			}
			o = r
		} else {
			o = &tengo.Error{Value: m.regs[A[0]]}
		}
		m.push(o)
		m.emit(lib.L("err", lib.N(A[0])), pushedAns(o))
	case "immut":
		x := m.regs[A[0]]
		var r tengo.Object
		if op.Name == "direct" { // what OpImmutable does, without compiling a script (exhaustive universe)
			switch v := x.(type) {
			case *tengo.Array:
				r = &tengo.ImmutableArray{Value: v.Value}
			case *tengo.Map:
				r = &tengo.ImmutableMap{Value: v.Value}
			default:
				r = x
			}
		} else {
			var err error
			r, err = runScript("out := immutable(a)", map[string]tengo.Object{"a": x})
			if err != nil || r == nil {
				return false
			}
		}
		consume := op.Flag
		switch x.(type) {
		case *tengo.Array, *tengo.Map:
			if consume {
				m.regs[A[0]] = tengo.UndefinedValue // the program drops its only reference to the mutable wrapper
				m.private[A[0]] = true
				m.clean[r] = true
			}
		default:
			consume = false
		}
		m.push(r)
		m.emit(lib.L("immut", lib.B(consume), lib.N(A[0])), pushedAns(r))
	case "get":
		x, i := m.regs[A[0]], m.regs[A[1]]
		var r tengo.Object
		var err error
		if op.Flag {
			r, err = runScript("out := a[i]", map[string]tengo.Object{"a": x, "i": i})
		} else {
			r, err = x.IndexGet(i)
		}
		cmd := lib.L("get", lib.N(A[0]), lib.N(A[1]))
		if err != nil {
			m.emit(cmd, "err "+errKind(err))
			return true
		}
		if r == nil {
			r = tengo.UndefinedValue
		}
		m.push(r)
		m.emit(cmd, pushedAns(r))
	case "set": // A = x, v, sel...
		if len(A) < 3 {
			return false
		}
		x, v, sels := m.regs[A[0]], m.regs[A[1]], m.args(A[2:])
		// find the final target without side effects, to refuse cyclic stores
		dst := x
		var gerr error
		for _, s := range sels[:len(sels)-1] {
			var nx tengo.Object
			nx, gerr = dst.IndexGet(s)
			if gerr != nil {
				break
			}
			if nx == nil {
				nx = tengo.UndefinedValue
			}
			dst = nx
		}
		if gerr == nil && wouldCycle(dst, v) {
			return false
		}
		cmd := lib.L("set", lib.N(A[0]), lib.N(A[1]), ints(A[2:]))
		var err error
		if op.Flag {
			src := "a"
			vars := map[string]tengo.Object{"a": x, "v": v}
			for i, s := range sels {
				name := fmt.Sprintf("s%d", i)
				vars[name] = s
				src += "[" + name + "]"
			}
			_, err = runScript(src+" = v", vars)
		} else if gerr != nil {
			err = gerr
		} else {
			err = dst.IndexSet(sels[len(sels)-1], v)
		}
		if err != nil {
			m.emit(cmd, "err "+errKind(err))
		} else {
			m.emit(cmd, "done")
		}
	case "append": // A = x, item...
		x := m.regs[A[0]]
		for _, it := range m.args(A[1:]) {
			if wouldCycle(x, it) {
				return false
			}
		}
		r, err := builtins["append"](m.args(A)...)
		if err != nil {
			m.emit(lib.L("append", lib.N(A[0]), "0", ints(A[1:])), "err "+errKind(err))
			return true
		}
		m.push(r)
		m.emit(lib.L("append", lib.N(A[0]), lib.N(capOf(r)), ints(A[1:])), pushedAns(r))
	case "splice": // A = x, arg...
		x := m.regs[A[0]]
		if len(A) > 3 {
			for _, it := range m.args(A[3:]) {
				if wouldCycle(x, it) {
					return false
				}
			}
		}
		r, err := builtins["splice"](m.args(A)...)
		if err != nil {
			m.emit(lib.L("splice", lib.N(A[0]), "0", "0", ints(A[1:])), "err "+errKind(err))
			return true
		}
		m.push(r)
		m.emit(lib.L("splice", lib.N(A[0]), lib.N(capOf(x)), lib.N(capOf(r)), ints(A[1:])), pushedAns(r))
	case "delete":
		_, err := builtins["delete"](m.args(A)...)
		cmd := lib.L("delete", lib.N(A[0]), lib.N(A[1]))
		if err != nil {
			m.emit(cmd, "err "+errKind(err))
		} else {
			m.emit(cmd, "done")
		}
	case "slice": // A = x, lo, hi
		r, err := runScript("out := a[lo:hi]", map[string]tengo.Object{"a": m.regs[A[0]], "lo": m.regs[A[1]], "hi": m.regs[A[2]]})
		if err != nil {
			m.emit(lib.L("slice", ints(A), "0"), "err "+errKind(err))
			return true
		}
		if r == nil {
			return false
		}
		m.push(r)
		m.emit(lib.L("slice", ints(A), lib.N(capOf(r))), pushedAns(r))
	case "add":
		x, y := m.regs[A[0]], m.regs[A[1]]
		var r tengo.Object
		var err error
		if op.Flag {
			r, err = runScript("out := a + b", map[string]tengo.Object{"a": x, "b": y})
		} else {
			r, err = x.BinaryOp(token.Add, y)
		}
		if err != nil {
			m.emit(lib.L("add", ints(A)), "err "+errKind(err))
			return true
		}
		m.push(r)
		m.emit(lib.L("add", ints(A)), pushedAns(r))
	case "copy":
		var r tengo.Object
		if op.Flag {
			r, _ = builtins["copy"](m.regs[A[0]])
		} else {
			r = m.regs[A[0]].Copy()
		}
		var caps []int
		copyCaps(r, &caps)
		m.push(r)
		m.emit(lib.L("copy", lib.N(A[0]), ints(caps)), pushedAns(r))
	case "freeze":
		m.doFreeze(op)
	case "iter":
		x := m.regs[A[0]]
		if !x.CanIterate() {
			return false
		}
		it := x.Iterate()
		type kv struct {
			k string
			v tengo.Object
		}
		var items []kv
		for it.Next() {
			items = append(items, kv{lib.Canon(it.Key()), it.Value()})
		}
		switch x.(type) {
		case *tengo.Map, *tengo.ImmutableMap:
			sort.Slice(items, func(i, j int) bool { return items[i].k < items[j].k })
		}
		var objs []tengo.Object
		for _, e := range items {
			objs = append(objs, e.v)
			m.push(e.v)
		}
		m.emit(lib.L("iter", lib.N(A[0])), pushedAns(objs...))
	case "eq":
		b := m.regs[A[0]].Equals(m.regs[A[1]])
		m.emit(lib.L("eq", ints(A)), "b"+lib.B(b))
	case "export", "builtin":
		return m.doImport(op)
	default:
		return false
	}
	return true
}

// immutablesOf collects the immutable containers reachable from o.
func immutablesOf(o tengo.Object) map[tengo.Object]bool {
	set := map[tengo.Object]bool{}
	walk(o, map[tengo.Object]bool{}, func(x tengo.Object) {
		switch x.(type) {
		case *tengo.ImmutableArray, *tengo.ImmutableMap:
			set[x] = true
		}
	})
	return set
}

func (m *machine) doFreeze(op opRec) {
	x := m.regs[op.A[0]]
	before := lib.Canon(x)
	old := immutablesOf(x)
	var r tengo.Object
	if op.Flag {
		r, _ = runScript("out := freeze(a)", map[string]tengo.Object{"a": x})
	}
	if r == nil {
		r, _ = builtins["freeze"](x)
	}
	in := m.input()
	if after := lib.Canon(x); after != before {
		res.Violate(lib.Violation{Signature: "freeze-modified-argument", Stream: m.stream, Input: in, Observed: after, Expected: before,
			Oracle: "freeze does not modify its argument"})
	}
	if !hasFunction(x) && !r.Equals(x) {
		res.Violate(lib.Violation{Signature: "freeze-result-not-equal", Stream: m.stream, Input: in, Observed: lib.Canon(r), Expected: before,
			Oracle: "freeze(x) == x on NaN-free, function-free values"})
	}
	// everything reachable (not looking behind error values: finding O24, probed separately) is immutable
	var bad tengo.Object
	var chk func(o tengo.Object, d int)
	chk = func(o tengo.Object, d int) {
		if d > 64 {
			return
		}
		switch v := o.(type) {
		case *tengo.Array, *tengo.Map:
			bad = o
		case *tengo.ImmutableArray:
			for _, e := range v.Value {
				chk(e, d+1)
			}
		case *tengo.ImmutableMap:
			for _, e := range v.Value {
				chk(e, d+1)
			}
		}
	}
	chk(r, 0)
	if bad != nil {
		res.Violate(lib.Violation{Signature: "freeze-result-has-mutable-container", Stream: m.stream, Input: in, Observed: lib.Canon(r),
			Expected: "no array/map reachable", Oracle: "everything reachable from freeze(x) is immutable"})
	}
	// new immutable containers have fresh storage
	for o := range immutablesOf(r) {
		if !old[o] {
			m.clean[o] = true
		}
	}
	m.push(r)
	m.emit(lib.L("freeze", lib.N(op.A[0])), pushedAns(r))
}

// doImport brings an exported module value / a builtin-module table into the sequence: the real value
// is obtained from the real compiler+VM, the model gets the equivalent construction.
func (m *machine) doImport(op opRec) bool {
	s := tengo.NewScript([]byte("out := import(\"m\")"))
	mods := tengo.NewModuleMap()
	if op.K == "export" {
		mods.AddSourceModule("m", []byte(op.Name))
		mods.AddSourceModule("inner", []byte(innerModule))
	} else {
		bm := stdlib.GetModuleMap(op.Name).GetBuiltinModule(op.Name)
		if bm == nil {
			return false
		}
		mods.AddBuiltinModule("m", bm.Attrs)
	}
	s.SetImports(mods)
	c, err := s.Run()
	if err != nil {
		return false
	}
	v := c.Get("out").Object()
	switch v.(type) {
	case *tengo.ImmutableArray, *tengo.ImmutableMap:
		m.clean[v] = true
	case *tengo.Array, *tengo.Map:
		sig, what := "exported-value-mutable", "a value exported from a module is immutable"
		if op.K == "builtin" {
			sig, what = "builtin-module-table-mutable", "a builtin-module table is immutable"
		}
		res.Dist("violation:" + m.stream + ":" + sig)
		res.Violate(lib.Violation{Signature: sig, Stream: m.stream, Input: map[string]interface{}{"ops": append([]opRec{}, m.log...), "module": op.Name},
			Observed: lib.Canon(v), Expected: "immutable-array / immutable-map", Oracle: what})
	}
	m.importObj(v, map[tengo.Object]int{})
	return true
}

func (m *machine) importObj(o tengo.Object, memo map[tengo.Object]int) int {
	if h, ok := memo[o]; ok {
		return h
	}
	hide := func(h int) int { m.private[h] = true; return h }
	switch v := o.(type) {
	case *tengo.Array, *tengo.ImmutableArray:
		var elems []tengo.Object
		if a, ok := v.(*tengo.Array); ok {
			elems = a.Value
		} else {
			elems = v.(*tengo.ImmutableArray).Value
		}
		hs := make([]int, len(elems))
		for i, e := range elems {
			hs[i] = m.importObj(e, memo)
		}
		view := &tengo.Array{Value: elems}
		cmd := lib.L("arr", lib.N(cap(elems)), ints(hs))
		if _, imm := o.(*tengo.ImmutableArray); imm {
			t := hide(m.push(tengo.UndefinedValue))
			m.emit(cmd, pushedAns(view))
			h := m.push(o)
			m.emit(lib.L("immut", "1", lib.N(t)), pushedAns(o))
			memo[o] = h
			return h
		}
		h := hide(m.push(o))
		m.emit(cmd, pushedAns(o))
		memo[o] = h
		return h
	case *tengo.Map, *tengo.ImmutableMap:
		var mv map[string]tengo.Object
		if a, ok := v.(*tengo.Map); ok {
			mv = a.Value
		} else {
			mv = v.(*tengo.ImmutableMap).Value
		}
		keys := make([]string, 0, len(mv))
		for k := range mv {
			keys = append(keys, k)
		}
		sort.Strings(keys)
		parts := []string{"map"}
		for _, k := range keys {
			parts = append(parts, lib.L(lib.HexS(k), lib.N(m.importObj(mv[k], memo))))
		}
		view := &tengo.Map{Value: mv}
		if _, imm := o.(*tengo.ImmutableMap); imm {
			t := hide(m.push(tengo.UndefinedValue))
			m.emit(lib.L(parts...), pushedAns(view))
			h := m.push(o)
			m.emit(lib.L("immut", "1", lib.N(t)), pushedAns(o))
			memo[o] = h
			return h
		}
		h := hide(m.push(o))
		m.emit(lib.L(parts...), pushedAns(o))
		memo[o] = h
		return h
	case *tengo.Error:
		p := m.importObj(v.Value, memo)
		h := hide(m.push(o))
		m.emit(lib.L("err", lib.N(p)), pushedAns(o))
		memo[o] = h
		return h
	}
	h := hide(m.push(o))
	m.emit("(lit "+litOf(o)+")", pushedAns(o))
	return h
}

// ---- oracles -----------------------------------------------------------------------------------

func (m *machine) input() map[string]interface{} {
	ops := make([]string, len(m.log))
	for i, o := range m.log {
		ops[i] = o.String()
	}
	return map[string]interface{}{"ops": m.log, "text": ops}
}

// addWatch registers a clean immutable value; deep: the whole tree was private to the value.
func (m *machine) addWatch(h int, deep bool, origin string) {
	o := m.regs[h]
	switch o.(type) {
	case *tengo.ImmutableArray, *tengo.ImmutableMap:
	default:
		return
	}
	if !m.clean[o] {
		return
	}
	if m.watched[o] && !deep {
		return
	}
	m.watched[o] = true
	w := &watch{handle: h, obj: o, deep: deep, origin: origin, since: len(m.log)}
	if deep {
		w.snap = lib.Canon(o)
		w.cut = canonNoErr(o, 0)
	} else {
		w.snap = m.identSnap(o, 0)
	}
	m.watches = append(m.watches, w)
}

func (m *machine) afterOp(op opRec, n0 int) {
	// 1. every watched immutable value still has its contents
	for _, w := range m.watches {
		var now, cut string
		if w.deep {
			now = lib.Canon(w.obj)
			cut = canonNoErr(w.obj, 0)
		} else {
			now = m.identSnap(w.obj, 0)
		}
		if now == w.snap {
			continue
		}
		sig := "immutable-storage-changed"
		oracle := "a value made immutable without a mutable alias of its storage keeps its elements (identity snapshot of the immutable storage)"
		if w.deep && cut == w.cut {
			sig = "freeze-error-payload-mutable"
			oracle = "nothing reachable from a frozen private value changes (deep snapshot); the immutable storage itself is intact, the change is behind an error value"
		}
		in := m.input()
		in["watched"] = fmt.Sprintf("@%d (%s, immutable since op %d)", w.handle, w.origin, w.since)
		res.Dist("violation:" + m.stream + ":" + sig)
		res.Violate(lib.Violation{Signature: sig, Stream: m.stream, Input: in, Observed: now, Expected: w.snap, Oracle: oracle})
		w.snap, w.cut = now, cut // report once
	}
	// 2. new clean immutable values are watched from now on
	for i := n0; i < len(m.regs); i++ {
		m.addWatch(i, false, op.K)
	}
}

// snapCmd asks the model for the snapshots of the given handles and records the real ones.
func (m *machine) snapCmd(hs []int) {
	if len(hs) == 0 {
		return
	}
	parts := make([]string, len(hs))
	for i, h := range hs {
		parts[i] = lib.Canon(m.regs[h])
	}
	m.emit(lib.L("snap", ints(hs)), "s "+strings.Join(parts, " ; "))
}

func (m *machine) containerHandles(onlyImm bool) []int {
	var hs []int
	for i, o := range m.regs {
		switch o.(type) {
		case *tengo.ImmutableArray, *tengo.ImmutableMap:
			hs = append(hs, i)
		case *tengo.Array, *tengo.Map, *tengo.Error:
			if !onlyImm {
				hs = append(hs, i)
			}
		}
	}
	return hs
}

// line renders the model request.
func (m *machine) line() string {
	var sb strings.Builder
	sb.WriteString("(c09")
	for _, c := range m.cmds {
		if c != "" {
			sb.WriteByte(' ')
			sb.WriteString(c)
		}
	}
	sb.WriteByte(')')
	return sb.String()
}

// compare checks the model's answer against the real outcomes. Returns the number of compared items.
func (m *machine) compare(ans string) int {
	items := strings.Split(ans, " | ")
	var exp []string
	var idx []int
	for i, c := range m.cmds {
		if c != "" {
			exp = append(exp, m.expect[i])
			idx = append(idx, m.cmdOp[i])
		}
	}
	n := 0
	for i, it := range items {
		it = strings.TrimSpace(it)
		if it == "fuel" || it == "bad" {
			res.Skipped++
			res.Dist("model-left-domain:" + it)
			if os.Getenv("C09_DEBUG") != "" && i < len(exp) {
				fmt.Fprintln(os.Stderr, "LEFT", it, m.cmdsNonEmpty()[i], "impl:", exp[i], "regs:", debugRegs(m, m.cmdsNonEmpty()[i]))
			}
			return n
		}
		if i >= len(exp) {
			break
		}
		if it != exp[i] {
			in := m.input()
			in["at_op"] = idx[i]
			in["cmd"] = m.cmdsNonEmpty()[i]
			res.Disagree(lib.Disagreement{Stream: m.stream, Input: in, Model: it, Impl: exp[i]})
			return n
		}
		n++
	}
	if len(items) != len(exp) {
		res.Disagree(lib.Disagreement{Stream: m.stream, Input: m.input(), Model: fmt.Sprintf("%d answers", len(items)), Impl: fmt.Sprintf("%d commands", len(exp))})
	}
	return n
}

func (m *machine) cmdsNonEmpty() []string {
	var out []string
	for _, c := range m.cmds {
		if c != "" {
			out = append(out, c)
		}
	}
	return out
}

func debugRegs(m *machine, cmd string) string {
	var out []string
	for _, f := range strings.Fields(strings.NewReplacer("(", " ", ")", " ").Replace(cmd)) {
		var n int
		if _, err := fmt.Sscan(f, &n); err == nil && n >= 0 && n < len(m.regs) {
			out = append(out, fmt.Sprintf("@%d=%s", n, m.regs[n].TypeName()))
		}
	}
	return strings.Join(out, " ")
}

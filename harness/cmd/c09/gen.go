package main

import (
	"fmt"
	"strings"

	"github.com/d5/tengo/v2"
	"verifharness/lib"
)

var keyNames = []string{"a", "b", "c", "value"}

type gen struct {
	r     *lib.RNG
	m     *machine
	ints  []int // handles of small ints 0,1,2,3,-1,9
	strs  []int // handles of the key strings
	undef int
	opq   int
	limit int
}

func (g *gen) ops() int { return len(g.m.log) }

func (g *gen) do(op opRec) bool {
	ok := g.m.exec(op)
	if ok {
		res.Dist("op:" + op.K)
	}
	return ok
}

func (g *gen) last() int { return len(g.m.regs) - 1 }

func (g *gen) setup() {
	for _, n := range []int{0, 1, 2, 3, -1, 9} {
		g.do(opRec{K: "lit", Lit: fmt.Sprintf("i%d", n)})
		g.ints = append(g.ints, g.last())
	}
	for _, k := range keyNames {
		g.do(opRec{K: "lit", Lit: "s" + k})
		g.strs = append(g.strs, g.last())
	}
	g.do(opRec{K: "lit", Lit: "u"})
	g.undef = g.last()
	g.do(opRec{K: "lit", Lit: fmt.Sprintf("o%d", g.r.Intn(len(opaquePool)))})
	g.opq = g.last()
}

// pick returns a random public handle satisfying pred (recent handles are preferred).
func (g *gen) pick(pred func(o tengo.Object) bool) (int, bool) {
	var c []int
	for i, o := range g.m.regs {
		if !g.m.private[i] && pred(o) {
			c = append(c, i)
		}
	}
	if len(c) == 0 {
		return 0, false
	}
	if g.r.Chance(1, 2) && len(c) > 4 {
		c = c[len(c)-4:]
	}
	return lib.Pick(g.r, c), true
}

func anyObj(tengo.Object) bool { return true }
func isArrLike(o tengo.Object) bool {
	switch o.(type) {
	case *tengo.Array, *tengo.ImmutableArray:
		return true
	}
	return false
}
func isMapLike(o tengo.Object) bool {
	switch o.(type) {
	case *tengo.Map, *tengo.ImmutableMap:
		return true
	}
	return false
}
func isImm(o tengo.Object) bool {
	switch o.(type) {
	case *tengo.ImmutableArray, *tengo.ImmutableMap:
		return true
	}
	return false
}
func modelled(o tengo.Object) bool { return isContainer(o) || isScalarModelled(o) }

// scalar returns the handle of a fresh hidden or shared scalar.
func (g *gen) scalar() int {
	switch g.r.Intn(6) {
	case 0:
		return lib.Pick(g.r, g.strs)
	case 1:
		return g.undef
	case 2:
		return g.opq
	}
	return lib.Pick(g.r, g.ints)
}

// sel returns a scalar usable as index / key / bound inside the model (no opaque scalars).
func (g *gen) sel() int {
	switch g.r.Intn(8) {
	case 0:
		return lib.Pick(g.r, g.strs)
	case 1:
		return g.undef
	}
	return lib.Pick(g.r, g.ints)
}

// tree builds a private value (every intermediate handle hidden): nested arrays/maps/errors of fresh
// containers, with sharing inside the tree. errContainers: allow error payloads that are containers.
func (g *gen) tree(depth int, errContainers bool, pool *[]int) int {
	if depth <= 0 || g.r.Chance(1, 4) {
		return g.scalar()
	}
	if len(*pool) > 0 && g.r.Chance(1, 5) {
		return lib.Pick(g.r, *pool) // shared sub-structure
	}
	var h int
	switch g.r.Intn(7) {
	case 0, 1, 2:
		n := g.r.Intn(4)
		el := make([]int, n)
		for i := range el {
			el[i] = g.tree(depth-1, errContainers, pool)
		}
		g.do(opRec{K: "arr", A: el, Cap: n + g.r.Intn(3), Hidden: true})
		h = g.last()
	case 3, 4, 5:
		n := g.r.Intn(3)
		var keys []string
		var el []int
		for i := 0; i < n; i++ {
			keys = append(keys, keyNames[i])
			el = append(el, g.tree(depth-1, errContainers, pool))
		}
		g.do(opRec{K: "map", A: el, Keys: keys, Hidden: true})
		h = g.last()
	default:
		var p int
		if errContainers {
			p = g.tree(depth-1, true, pool)
		} else {
			p = g.scalar()
		}
		g.do(opRec{K: "err", A: []int{p}, Hidden: true, Flag: g.r.Bool()})
		h = g.last()
	}
	if _, isErr := g.m.regs[h].(*tengo.Error); !isErr && g.r.Chance(1, 5) {
		// immutable(<literal>) inside the literal: a shallow-immutable layer in the middle of the tree
		if g.do(opRec{K: "immut", A: []int{h}, Flag: true, Hidden: true}) {
			h = g.last()
		}
	}
	*pool = append(*pool, h)
	return h
}

// topTree builds a fresh private array or map (its elements are private trees that may share
// sub-structures); nothing else refers to the returned container.
func (g *gen) topTree(errContainers bool) int {
	var pool []int
	if g.r.Bool() {
		n := 1 + g.r.Intn(3)
		el := make([]int, n)
		for i := range el {
			el[i] = g.tree(2, errContainers, &pool)
		}
		g.do(opRec{K: "arr", A: el, Cap: n + g.r.Intn(3), Hidden: true})
		return g.last()
	}
	n := 1 + g.r.Intn(3)
	var keys []string
	var el []int
	for i := 0; i < n; i++ {
		keys = append(keys, keyNames[i])
		el = append(el, g.tree(2, errContainers, &pool))
	}
	g.do(opRec{K: "map", A: el, Keys: keys, Hidden: true})
	return g.last()
}

// selectorFor picks a selector handle that fits the container (mostly).
func (g *gen) selectorFor(o tengo.Object) int {
	if g.r.Chance(1, 8) {
		return g.sel()
	}
	switch v := o.(type) {
	case *tengo.Array:
		if len(v.Value) > 0 && len(v.Value) <= 4 {
			return g.ints[g.r.Intn(len(v.Value))]
		}
		return lib.Pick(g.r, g.ints)
	case *tengo.ImmutableArray:
		if len(v.Value) > 0 && len(v.Value) <= 4 {
			return g.ints[g.r.Intn(len(v.Value))]
		}
		return lib.Pick(g.r, g.ints)
	case *tengo.Map, *tengo.ImmutableMap:
		return g.strs[g.r.Intn(3)]
	case *tengo.Error:
		return g.strs[3]
	}
	return lib.Pick(g.r, g.ints)
}

func (g *gen) step() {
	m := g.m
	flag := g.r.Bool()
	switch g.r.Weighted([]int{6, 4, 8, 6, 3, 5, 10, 16, 8, 5, 4, 8, 5, 5, 3, 3, 2, 1}) {
	case 0: // public array over existing values (sharing)
		n := g.r.Intn(4)
		el := make([]int, n)
		for i := range el {
			if g.r.Chance(1, 2) {
				el[i] = g.scalar()
			} else if h, ok := g.pick(modelled); ok {
				el[i] = h
			} else {
				el[i] = g.scalar()
			}
		}
		g.do(opRec{K: "arr", A: el, Cap: n + g.r.Intn(3)})
	case 1: // public map
		n := 1 + g.r.Intn(3)
		var keys []string
		var el []int
		for i := 0; i < n; i++ {
			keys = append(keys, keyNames[i])
			if h, ok := g.pick(modelled); ok && g.r.Bool() {
				el = append(el, h)
			} else {
				el = append(el, g.scalar())
			}
		}
		g.do(opRec{K: "map", A: el, Keys: keys})
	case 2: // immutable(<fresh literal>): no mutable alias of the storage exists
		h := g.topTree(true)
		g.do(opRec{K: "immut", A: []int{h}, Flag: true})
	case 3: // freeze(<fresh literal>): the whole tree is private to the result
		h := g.topTree(false)
		g.do(opRec{K: "freeze", A: []int{h}, Flag: flag, Watch: true}) // Watch: deep snapshot of the result (the tree is private)
	case 4: // immutable(x) of a live mutable value: aliased, not watched
		if h, ok := g.pick(anyObj); ok {
			g.do(opRec{K: "immut", A: []int{h}})
		}
	case 5:
		if h, ok := g.pick(isContainer); ok {
			g.do(opRec{K: "freeze", A: []int{h}, Flag: flag})
		}
	case 6: // element read handing out a sub-object
		if h, ok := g.pick(isContainer); ok {
			g.do(opRec{K: "get", A: []int{h, g.selectorFor(m.regs[h])}, Flag: flag})
		} else {
			g.do(opRec{K: "get", A: []int{lib.Pick(g.r, []int{g.undef, g.ints[0]}), g.sel()}, Flag: flag})
		}
	case 7: // selector assignment, depth 1..3
		h, ok := g.pick(isContainer)
		if !ok {
			return
		}
		depth := 1 + g.r.Intn(3)
		cur := m.regs[h]
		var sels []int
		for d := 0; d < depth; d++ {
			s := g.selectorFor(cur)
			sels = append(sels, s)
			if d < depth-1 {
				nx, err := cur.IndexGet(m.regs[s])
				if err != nil || nx == nil || !isContainer(nx) {
					if g.r.Chance(3, 4) {
						break
					}
					if nx == nil || err != nil {
						nx = tengo.UndefinedValue
					}
				}
				cur = nx
			}
		}
		v := g.scalar()
		if g.r.Chance(1, 3) {
			if c, ok := g.pick(modelled); ok {
				v = c
			}
		}
		g.do(opRec{K: "set", A: append([]int{h, v}, sels...), Flag: flag})
	case 8:
		if h, ok := g.pick(isArrLike); ok || g.r.Chance(1, 6) {
			if !ok {
				h, _ = g.pick(anyObj)
			}
			items := []int{g.scalar()}
			if g.r.Chance(1, 3) {
				items = append(items, g.scalar())
			}
			if c, ok := g.pick(isContainer); ok && g.r.Chance(1, 4) {
				items[0] = c
			}
			g.do(opRec{K: "append", A: append([]int{h}, items...)})
		}
	case 9:
		if h, ok := g.pick(isArrLike); ok || g.r.Chance(1, 6) {
			if !ok {
				h, _ = g.pick(anyObj)
			}
			a := []int{h}
			for i, n := 0, g.r.Intn(5); i < n; i++ {
				if i < 2 {
					a = append(a, g.ints[g.r.Intn(4)])
				} else {
					a = append(a, g.scalar())
				}
			}
			if g.r.Chance(1, 12) && len(a) > 1 {
				a[1] = g.sel()
			}
			g.do(opRec{K: "splice", A: a})
		}
	case 10:
		if h, ok := g.pick(isMapLike); ok || g.r.Chance(1, 6) {
			if !ok {
				h, _ = g.pick(anyObj)
			}
			k := g.strs[g.r.Intn(3)]
			if g.r.Chance(1, 10) {
				k = g.sel()
			}
			g.do(opRec{K: "delete", A: []int{h, k}})
		}
	case 11:
		if h, ok := g.pick(isArrLike); ok || g.r.Chance(1, 8) {
			if !ok {
				h, _ = g.pick(func(o tengo.Object) bool { _, isStr := o.(*tengo.String); return modelled(o) && !isStr })
			}
			lo, hi := g.undef, g.undef
			if g.r.Bool() {
				lo = lib.Pick(g.r, g.ints)
			}
			if g.r.Bool() {
				hi = lib.Pick(g.r, g.ints)
			}
			if g.r.Chance(1, 12) {
				lo = g.sel()
			}
			g.do(opRec{K: "slice", A: []int{h, lo, hi}})
		}
	case 12:
		if h, ok := g.pick(isArrLike); ok {
			y, ok2 := g.pick(isArrLike)
			if !ok2 || g.r.Chance(1, 8) {
				y, _ = g.pick(isContainer)
			}
			g.do(opRec{K: "add", A: []int{h, y}, Flag: flag})
		} else if h, ok := g.pick(isContainer); ok {
			g.do(opRec{K: "add", A: []int{h, h}, Flag: flag})
		}
	case 13:
		if h, ok := g.pick(modelled); ok {
			g.do(opRec{K: "copy", A: []int{h}, Flag: flag})
		}
	case 14:
		if h, ok := g.pick(func(o tengo.Object) bool { return isContainer(o) || o == tengo.UndefinedValue }); ok {
			if _, isErr := m.regs[h].(*tengo.Error); !isErr {
				g.do(opRec{K: "iter", A: []int{h}})
			}
		}
	case 15:
		if h, ok := g.pick(modelled); ok {
			if y, ok := g.pick(modelled); ok {
				g.do(opRec{K: "eq", A: []int{h, y}})
			}
		}
	case 16:
		if h, ok := g.pick(modelled); ok {
			g.do(opRec{K: "err", A: []int{h}, Flag: flag})
		}
	case 17:
		if g.r.Bool() {
			g.do(opRec{K: "export", Name: lib.Pick(g.r, exportModules)})
		} else {
			g.do(opRec{K: "builtin", Name: lib.Pick(g.r, []string{"math", "text", "times", "rand", "fmt", "json", "base64", "hex", "os"})})
		}
	}
}

var exportModules = []string{
	"export [1, 2, 3]",
	"export {a: [1, 2], b: 5}",
	"x := [1, [2, 3]]\nexport x",
	"export {a: {b: [1]}, c: \"s\"}",
	"f := func() { return [7, 8] }\nexport f()",
	"export immutable([1, {a: 2}])",
	"export freeze([[1], {a: [2]}])",
	"export error([1, 2])",
	"export 5",
}

// runRandom generates one sequence, replays it on the model and compares.
func runRandom(r *lib.RNG, maxOps int) {
	m := newMachine("objops")
	g := &gen{r: r, m: m, limit: maxOps}
	g.setup()
	nSetup := g.ops()
	guard := 0
	for g.ops()-nSetup < maxOps && guard < 4*maxOps {
		guard++
		before := g.ops()
		g.step()
		if g.ops() == before {
			continue
		}
		if guard%6 == 0 {
			m.snapCmd(m.containerHandles(false))
		} else {
			m.snapCmd(m.containerHandles(true))
		}
	}
	m.snapCmd(m.containerHandles(false))
	finish(m)
}

// finish asks the model and records the sequence in the evidence.
func finish(m *machine) {
	nImm := len(m.watches)
	key := strings.Join(m.cmdsNonEmpty(), " ")
	res.Count(m.stream, key, nImm > 0)
	res.Sample(map[string]interface{}{"stream": m.stream, "ops": m.input()["text"], "watched_immutables": nImm}, 2)
	if drv == nil {
		return
	}
	ans, err := drv.Ask(m.line())
	if err != nil {
		fatal(err)
	}
	res.ModelLines += m.compare(ans)
}

// ---- exhaustive sequences over a 12-value universe ----------------------------------------------

type universe struct {
	m                   *machine
	i0, i1, i7, sa, und int
	vis                 []int // the 12 visible handles
}

func buildUniverse() *universe {
	m := newMachine("exhaustive")
	u := &universe{m: m}
	lit := func(l string, hidden bool) int {
		m.exec(opRec{K: "lit", Lit: l, Hidden: hidden})
		return len(m.regs) - 1
	}
	arr := func(capa int, hidden bool, el ...int) int {
		m.exec(opRec{K: "arr", A: el, Cap: capa, Hidden: hidden})
		return len(m.regs) - 1
	}
	mp := func(hidden bool, keys []string, el ...int) int {
		m.exec(opRec{K: "map", A: el, Keys: keys, Hidden: hidden})
		return len(m.regs) - 1
	}
	imm := func(h int) int {
		m.exec(opRec{K: "immut", A: []int{h}, Flag: true, Name: "direct"})
		return len(m.regs) - 1
	}
	u.i0, u.i1, u.sa, u.und = lit("i0", false), lit("i1", false), lit("sa", false), lit("u", false)
	h1, h2, h3, h5 := lit("i1", true), lit("i2", true), lit("i3", true), lit("i5", true)
	sv := lit("svalue", false)
	u.i7 = sv                                                                   // the value written by assignments: distinct from every element
	a := arr(4, false, h1, h2, h3)                                              // 5: mutable [1,2,3] with spare capacity
	ia := imm(arr(6, true, h1, h2, h3))                                         // 6: immutable([1,2,3]) with spare capacity
	ian := imm(arr(2, true, arr(2, true, h1, h2), mp(true, []string{"a"}, h1))) // 7: immutable([[1,2],{a:1}])
	mm := mp(false, []string{"a", "b"}, h1, arr(1, true, h5))                   // 8: {a:1, b:[5]}
	im := imm(mp(true, []string{"a", "b"}, arr(1, true, h1), h2))               // 9: immutable({a:[1], b:2})
	t := arr(2, true, mp(true, []string{"a"}, arr(2, true, h1, h2)), arr(1, true, h3))
	m.exec(opRec{K: "freeze", A: []int{t}})
	m.private[t] = true
	fz := len(m.regs) - 1 // 10: freeze([{a:[1,2]},[3]])
	m.addWatch(fz, true, "freeze(private tree)")
	m.exec(opRec{K: "err", A: []int{arr(1, true, h3)}})
	er := len(m.regs) - 1 // 11: error([3])
	u.vis = []int{u.i0, u.i1, u.sa, u.und, sv, a, ia, ian, mm, im, fz, er}
	return u
}

// altsFor enumerates the operations tried at one position, from the types of the live handles.
func altsFor(m *machine, u *universe, reduced bool) []opRec {
	if reduced {
		return altsReduced(m, u)
	}
	var cs []int
	for i, o := range m.regs {
		if !m.private[i] && isContainer(o) {
			cs = append(cs, i)
		}
	}
	var out []opRec
	sels := []int{u.i0, u.sa}
	for _, c := range cs {
		for _, s := range sels {
			out = append(out, opRec{K: "get", A: []int{c, s}})
			out = append(out, opRec{K: "set", A: []int{c, u.i7, s}, Flag: s == u.i0 && isArrLike(m.regs[c])}) // arrays: through OpSetSel*
			out = append(out, opRec{K: "set", A: []int{c, u.i7, s, u.i0}})
		}
		out = append(out,
			opRec{K: "set", A: []int{c, u.i7, u.i0, u.sa}},
			opRec{K: "append", A: []int{c, u.i7}},
			opRec{K: "splice", A: []int{c, u.i0, u.i1, u.i7}},
			opRec{K: "delete", A: []int{c, u.sa}},
			opRec{K: "slice", A: []int{c, u.und, u.i1}},
			opRec{K: "slice", A: []int{c, u.i1, u.und}},
			opRec{K: "copy", A: []int{c}},
			opRec{K: "freeze", A: []int{c}},
			opRec{K: "immut", A: []int{c}},
			opRec{K: "iter", A: []int{c}},
			opRec{K: "add", A: []int{c, c}},
		)
		if isArrLike(m.regs[c]) {
			for _, d := range cs {
				if d != c && isArrLike(m.regs[d]) && d < 16 {
					out = append(out, opRec{K: "add", A: []int{c, d}})
				}
			}
		}
	}
	return out
}

// altsReduced: the type-directed core of the operation set (used for the length-3 enumeration).
func altsReduced(m *machine, u *universe) []opRec {
	var out []opRec
	for c, o := range m.regs {
		if m.private[c] {
			continue
		}
		switch {
		case isArrLike(o):
			out = append(out,
				opRec{K: "get", A: []int{c, u.i0}},
				opRec{K: "set", A: []int{c, u.i7, u.i0}},
				opRec{K: "append", A: []int{c, u.i7}},
				opRec{K: "splice", A: []int{c, u.i0, u.i1, u.i7}},
				opRec{K: "slice", A: []int{c, u.und, u.i1}},
				opRec{K: "add", A: []int{c, c}},
				opRec{K: "copy", A: []int{c}},
				opRec{K: "freeze", A: []int{c}})
		case isMapLike(o):
			out = append(out,
				opRec{K: "get", A: []int{c, u.sa}},
				opRec{K: "set", A: []int{c, u.i7, u.sa}},
				opRec{K: "delete", A: []int{c, u.sa}},
				opRec{K: "copy", A: []int{c}},
				opRec{K: "freeze", A: []int{c}},
				opRec{K: "immut", A: []int{c}})
		default:
			if _, ok := o.(*tengo.Error); ok {
				out = append(out, opRec{K: "get", A: []int{c, u.i7}}, opRec{K: "set", A: []int{c, u.i7, u.i7}})
			}
		}
	}
	return out
}

// runExhaustive tries every sequence of at most maxLen operations.
func runExhaustive(maxLen int, reduced bool) int {
	total := 0
	var rec func(prefix []opRec)
	rec = func(prefix []opRec) {
		// state after the prefix (to enumerate continuations)
		u0 := buildUniverse()
		for _, p := range prefix {
			u0.m.exec(p)
		}
		alts := altsFor(u0.m, u0, reduced)
		nPrefixCmds := len(u0.m.cmdsNonEmpty())
		var sb strings.Builder
		sb.WriteString("(c09x (" + strings.Join(u0.m.cmdsNonEmpty(), " ") + ")")
		var ms []*machine
		var done []opRec
		for _, a := range alts {
			u := buildUniverse()
			for _, p := range prefix {
				u.m.exec(p)
			}
			if !u.m.exec(a) {
				continue
			}
			u.m.snapCmd(u.m.containerHandles(false))
			cm := u.m.cmdsNonEmpty()
			sb.WriteString(" (" + strings.Join(cm[nPrefixCmds:], " ") + ")")
			ms = append(ms, u.m)
			done = append(done, a)
			total++
			res.Count("exhaustive", strings.Join(cm, " "), true)
			res.Dist("op:" + a.K)
		}
		sb.WriteString(")")
		if drv != nil {
			ans, err := drv.Ask(sb.String())
			if err != nil {
				fatal(err)
			}
			parts := strings.Split(ans, " || ")
			if len(parts) != len(ms)+1 {
				res.Disagree(lib.Disagreement{Stream: "exhaustive", Input: u0.m.input(), Model: fmt.Sprintf("%d parts", len(parts)), Impl: fmt.Sprintf("%d alternatives", len(ms))})
			} else {
				for i, mm := range ms {
					full := parts[0]
					if parts[i+1] != "" {
						full += " | " + parts[i+1]
					}
					res.ModelLines += mm.compare(full)
				}
			}
		}
		if len(prefix)+1 < maxLen {
			for _, a := range done {
				rec(append(append([]opRec{}, prefix...), a))
			}
		}
	}
	rec(nil)
	return total
}

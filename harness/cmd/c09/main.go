// Command c09: correspondence and searchers for C09 (immutable values cannot be changed by any
// sequence of operations).
//
// Streams
//
//	objops      random operation sequences (≤ 40 ops quick) on real tengo objects: BinaryOp / IndexGet /
//	            IndexSet / Iterate / Copy / Equals called directly, builtins through GetAllBuiltinFunctions,
//	            SLICE / IMMUT / selector assignment / error() through one-statement compiled scripts that
//	            share the objects as globals; exported module values and builtin-module tables are imported
//	            from the real compiler+VM. The same operations are replayed on the Lean heap model
//	            (`c09` line); outcomes and deep snapshots are compared (Disagree).
//	exhaustive  every sequence of ≤ 2 operations (full operation set) and, thorough, of ≤ 3 operations
//	            (type-directed core of the set) over a 12-value universe.
//	programs    whole programs from lib.NewGen (Immutables on) under the per-instruction probe.
//	immprog     immutable-heavy programs (slice/append/+/copy/iteration then writes, freeze, modules).
//	shapes / exports (shapes.go, reported under objops and immprog): every nesting of mutable / immutable
//	            array and map layers up to depth 4, frozen and attacked at every reachable container;
//	            every export expression form with array and map payloads, attacked by the importer.
//	derive (derive.go, reported under immprog): an immutable array spread into variadic closures (every
//	            arity, every call form), builtins and host functions, or passed whole, and written through
//	            whatever the callee received.
//
// Searcher (model independent): a snapshot of an immutable value changed although no mutable alias of
// its storage existed when it became immutable (provenance tracked here); freeze(x) != x; freeze
// modified x; freeze left a mutable container reachable.
package main

import (
	"encoding/json"
	"fmt"
	"os"
	"runtime/pprof"
	"strings"
	"time"

	"github.com/d5/tengo/v2"
	"github.com/d5/tengo/v2/stdlib"
	"verifharness/lib"
)

var (
	res *lib.Result
	drv *lib.Driver
)

func fatal(err error) {
	fmt.Fprintln(os.Stderr, "c09:", err)
	os.Exit(3)
}

func progModules() *tengo.ModuleMap {
	mm := stdlib.GetModuleMap("math")
	mm.AddSourceModule("expm", []byte("export {a: [1, 2], b: {c: 3}}"))
	mm.AddSourceModule("expa", []byte("x := [[1, 2], 3]\nexport x"))
	return mm
}

// probeO24: freeze returns error values as they are, so the payload of an error inside a frozen value
// stays mutable (DESIGN.md §6 O24). Reported under its own signature while it reproduces.
func probeO24() {
	src := "e := freeze([{k: error([3])}])\nbefore := string(e)\ne[0].k.value[0] = 8\nafter := string(e)\n"
	g, errText, pan := lib.RunScript(src, 5*time.Second)
	res.Count("finding-probe", "O24", true)
	if pan != "" || errText != "" {
		return // the write is rejected (or freeze changed): the finding no longer reproduces
	}
	if g["before"] != g["after"] {
		res.Violate(lib.Violation{Signature: "freeze-error-payload-mutable", Stream: "finding-probe",
			Input:    "e := freeze([{k: error([3])}]); e[0].k.value[0] = 8",
			Observed: "string(e) after the assignment: " + g["after"], Expected: "string(e) before: " + g["before"],
			Oracle: "everything reachable from a frozen value keeps its contents (freezeObject returns error values as-is: their payload stays mutable)"})
	}
}

// probeO40: the stdlib function rand.read fills the Bytes value it is given IN PLACE; freeze leaves Bytes values
// as they are (a script has no operation that writes into bytes), so a Bytes reachable from a frozen value
// changes its contents. Reported under its own signature while it reproduces.
func probeO40() {
	src := "rand := import(\"rand\")\nx := freeze({b: bytes(4)})\nbefore := string(x.b)\nrand.seed(7)\nn := rand.read(x.b)\nafter := string(x.b)\nsame := before == after\n"
	res.Count("finding-probe", "O40", true)
	s := tengo.NewScript([]byte(src))
	s.SetImports(stdlib.GetModuleMap("rand"))
	c, err := s.Run()
	if err != nil {
		return // the call is rejected: the finding no longer reproduces
	}
	if v := c.Get("same"); v != nil && v.Value() == false {
		res.Violate(lib.Violation{Signature: "frozen-bytes-overwritten-by-rand-read", Stream: "finding-probe",
			Input:    "rand := import(\"rand\"); x := freeze({b: bytes(4)}); rand.read(x.b)",
			Observed: "the bytes value inside the frozen map changed: " + lib.Canon(c.Get("after").Object()), Expected: "contents as before: " + lib.Canon(c.Get("before").Object()),
			Oracle: "everything reachable from a frozen value keeps its contents (rand.read writes into its argument; freeze returns Bytes as they are)"})
	}
}

// corpus: hand-written sequences run first (regressions of O4/O5/O5b on the object level, aliasing shapes).
func corpusSeqs() [][]opRec {
	lits := []opRec{{K: "lit", Lit: "i1"}, {K: "lit", Lit: "i2"}, {K: "lit", Lit: "i3"}, {K: "lit", Lit: "i0"}, {K: "lit", Lit: "i99"}, {K: "lit", Lit: "u"}}
	// handles: 0:1 1:2 2:3 3:0 4:99 5:undef 6:[1,2,3] 7:immutable
	base := append(append([]opRec{}, lits...), opRec{K: "arr", A: []int{0, 1, 2}, Cap: 4, Hidden: true}, opRec{K: "immut", A: []int{6}, Flag: true})
	return [][]opRec{
		append(append([]opRec{}, base...), opRec{K: "slice", A: []int{7, 3, 1}}, opRec{K: "set", A: []int{8, 4, 3}, Flag: true}),
		append(append([]opRec{}, base...), opRec{K: "slice", A: []int{7, 3, 1}}, opRec{K: "append", A: []int{8, 4}}, opRec{K: "append", A: []int{7, 4}}, opRec{K: "set", A: []int{10, 4, 3}}),
		append(append([]opRec{}, base...), opRec{K: "add", A: []int{7, 7}}, opRec{K: "add", A: []int{7, 7}, Flag: true}, opRec{K: "set", A: []int{8, 4, 3}}),
		append(append([]opRec{}, base...), opRec{K: "splice", A: []int{7, 3, 0}}, opRec{K: "delete", A: []int{7, 3}}, opRec{K: "set", A: []int{7, 4, 3}}, opRec{K: "copy", A: []int{7}}, opRec{K: "set", A: []int{8, 4, 3}}),
		// mutable slices share storage; append within capacity writes in place
		append(append([]opRec{}, lits...), opRec{K: "arr", A: []int{0, 1, 2}, Cap: 4}, opRec{K: "slice", A: []int{6, 3, 1}}, opRec{K: "append", A: []int{7, 4}},
			opRec{K: "append", A: []int{6, 3}}, opRec{K: "append", A: []int{6, 4}}, opRec{K: "splice", A: []int{6, 3, 0, 4}}, opRec{K: "immut", A: []int{6}}, opRec{K: "set", A: []int{6, 4, 3}}),
	}
}

func runSeq(ops []opRec, stream string) {
	m := newMachine(stream)
	for _, op := range ops {
		if m.exec(op) {
			m.snapCmd(m.containerHandles(false))
		}
	}
	finish(m)
}

func main() {
	f := lib.ParseFlags()
	res = lib.NewResult("C09", f)
	var err error
	drv, err = lib.StartDriver(f.Driver)
	if err != nil {
		fatal(err)
	}
	defer drv.Close()
	res.DriverUsed = drv != nil
	res.Rule = "objops/exhaustive: operation sequences over nested arrays/maps/errors with shared sub-structures, shallow-immutable, frozen, exported-module and builtin-module values; " +
		"a sequence is non-trivial when at least one immutable value without a mutable alias is under watch while later operations run; distinct by the model command line. " +
		"programs/immprog: non-trivial when an immutable container was reachable from a global; distinct by source"

	if f.Replay != "" {
		replay(f.Replay)
		res.Write(f.Out)
		return
	}
	lib.RunProbes(res, "C09", f.Known)
	probeO24()
	probeO40()
	if pf := os.Getenv("C09_PROF"); pf != "" {
		fh, _ := os.Create(pf)
		_ = pprof.StartCPUProfile(fh)
		defer pprof.StopCPUProfile()
	}
	if os.Getenv("C09_ONLY") == "exhaustive" { // development aid: time the exhaustive stream alone
		n := runExhaustive(2, false)
		if f.Thorough() {
			n += runExhaustive(3, true)
		}
		res.Extra = map[string]interface{}{"exhaustive_sequences": n}
		res.Write(f.Out)
		return
	}
	if os.Getenv("C09_ONLY") == "derive" { // development aid: the call-derivation searcher alone
		runDerive(lib.NewRNG(f.Seed).Fork(), f.Scale(400, 12000), f.Thorough())
		res.Write(f.Out)
		return
	}
	for _, s := range corpusSeqs() {
		runSeq(s, "objops")
	}
	// systematic searchers first (their own generator state: the random streams below are unaffected)
	srng := lib.NewRNG(f.Seed)
	runShapes(srng.Fork(), f.Scale(2, 6))
	runExports(srng.Fork(), f.Scale(150, 3000))
	runDerive(srng.Fork(), f.Scale(400, 12000), f.Thorough())
	rng := lib.NewRNG(f.Seed)
	nSeq := f.Scale(3000, 60000)
	for i := 0; i < nSeq; i++ {
		r := rng.Fork()
		runRandom(r, 12+r.Intn(f.Scale(29, 49)))
	}
	exLen := f.Scale(2, 3)
	nEx := runExhaustive(2, false) // every operation of the full set, every sequence of length <= 2
	if f.Thorough() {
		nEx += runExhaustive(3, true) // length <= 3 over the type-directed core of the operation set
	}
	res.Exhaustive = true
	mods := progModules()
	nProg := f.Scale(300, 6000)
	for i, ran := 0, 0; i < 40*nProg && ran < nProg; i++ {
		r := rng.Fork()
		p := lib.DefaultProfile()
		p.Immutables = true
		p.MaxStmts = 10 + r.Intn(14)
		g := lib.NewGen(r, p)
		src := g.Program()
		if !strings.Contains(src, "immutable(") {
			continue // only programs that use immutable values
		}
		ran++
		runProgram("programs", src, nil, nil)
	}
	nImm := f.Scale(1000, 20000)
	for i := 0; i < nImm; i++ {
		r := rng.Fork()
		g := &pgen{r: r}
		src := g.program()
		runProgram("immprog", src, mods, g.immNames())
	}
	res.Extra = map[string]interface{}{"exhaustive_max_len": exLen, "exhaustive_sequences": nEx, "universe": "0, 1, \"a\", undefined, \"value\", [1,2,3] (cap 4), immutable([1,2,3]), immutable([[1,2],{a:1}]), {a:1,b:[5]}, immutable({a:[1],b:2}), freeze([{a:[1,2]},[3]]), error([3])"}
	res.Write(f.Out)
}

func replay(path string) {
	b, err := os.ReadFile(path)
	if err != nil {
		fatal(err)
	}
	type inp struct {
		Ops     []opRec           `json:"ops"`
		Source  string            `json:"source"`
		Global  string            `json:"global"`
		Kind    string            `json:"kind"`
		Modules map[string]string `json:"modules"`
		Host    map[string]string `json:"host"`
	}
	var rp struct {
		Violations []struct {
			Stream string          `json:"stream"`
			Input  json.RawMessage `json:"input"`
		} `json:"violations"`
		Obligations []struct {
			Detail string `json:"detail"`
		} `json:"theorem_or_stream"`
	}
	if err := json.Unmarshal(b, &rp); err != nil {
		fatal(err)
	}
	one := func(stream string, raw json.RawMessage) {
		var in inp
		if json.Unmarshal(raw, &in) != nil {
			probeO24()
			lib.RunProbes(res, "C09", "")
			return
		}
		if len(in.Ops) > 0 {
			runSeq(in.Ops, "objops")
		}
		switch {
		case in.Source == "":
		case in.Kind == "frozen-shape":
			runFrozenProgram(in.Source, in.Modules, in.Host)
		case in.Kind == "export-import":
			runExportProgram(in.Source, in.Modules)
		case in.Kind == "derive-call":
			runDeriveProgram(in.Source, in.Modules["m"], "")
		default:
			runProgram(stream, in.Source, progModules(), []string{in.Global})
		}
	}
	for _, v := range rp.Violations {
		one(v.Stream, v.Input)
	}
	for _, o := range rp.Obligations {
		var d struct {
			Stream string          `json:"stream"`
			Input  json.RawMessage `json:"input"`
		}
		if json.Unmarshal([]byte(o.Detail), &d) == nil {
			one(d.Stream, d.Input)
		}
	}
}

// Command c17: correspondence and searchers for C17 (format() and sprintf agree
// with Go's fmt for every documented verb).
//
// Streams
//
//	equal    (searcher, model-independent) tengo.Format(f, args) == fmt.Sprintf(f, goArgs...) inside the
//	         equality claim; which operand each verb consumes is observed from Go's fmt itself
//	         (recording fmt.Formatter wrappers), so no parser of ours decides the claim. Two differences
//	         of the unchanged tree are decided exactly and reported under their own signatures (known
//	         findings O38/O39): the text of a bad-verb group (%!d("s"="s") for Go's %!d(string=s)) and a
//	         bytes operand under a verb other than s q x X v d printing nothing (Go: the element list);
//	         every other difference, also inside such a group, is format-differs-from-go-fmt
//	safety   (searcher) arbitrary formats/arguments: no panic, terminates, result within
//	         MaxStringLen, the only error is ErrStringLimit (also under small MaxStringLen)
//	entry    (searcher) the `format` builtin and `fmt.sprintf` (compiled scripts) return what
//	         tengo.Format returns
//	fmt      (correspondence) real output vs the Lean model M, byte for byte
//	gspec    (spec tie) the declarative spec G of Props/C17 vs fmt.Sprintf on single directives
//	single   exhaustive single directives (verb x flag subset x width x precision x argument)
//	cross    exhaustive single directives of every documented verb on every operand type it is NOT
//	         documented for (bad verbs on int/float/string/bool, bytes under the other verbs)
package main

import (
	"context"
	"encoding/hex"
	"encoding/json"
	"errors"
	"fmt"
	"io"
	"math"
	"os"
	"sort"
	"strconv"
	"strings"
	"time"
	"unicode/utf8"

	"github.com/d5/tengo/v2"
	"github.com/d5/tengo/v2/stdlib"
	"verifharness/lib"
)

// ---- arguments ----

type arg struct {
	K byte // i f s b y
	I int64
	F float64
	S string // string or bytes content
	B bool
}

func (a arg) obj() tengo.Object {
	switch a.K {
	case 'i':
		return &tengo.Int{Value: a.I}
	case 'f':
		return &tengo.Float{Value: a.F}
	case 's':
		return &tengo.String{Value: a.S}
	case 'b':
		if a.B {
			return tengo.TrueValue
		}
		return tengo.FalseValue
	}
	return &tengo.Bytes{Value: []byte(a.S)}
}

func (a arg) goVal() interface{} {
	switch a.K {
	case 'i':
		return a.I
	case 'f':
		return a.F
	case 's':
		return a.S
	case 'b':
		return a.B
	}
	return []byte(a.S)
}

func (a arg) sexp() string {
	switch a.K {
	case 'i':
		return lib.L("i", lib.I(a.I))
	case 'f':
		return lib.L("f", lib.U(math.Float64bits(a.F)))
	case 's':
		return lib.L("s", lib.HexS(a.S))
	case 'b':
		return lib.L("b", lib.B(a.B))
	}
	return lib.L("y", lib.HexS(a.S))
}

type jarg struct {
	K string `json:"k"`
	V string `json:"v"`
}

func (a arg) j() jarg {
	switch a.K {
	case 'i':
		return jarg{"i", strconv.FormatInt(a.I, 10)}
	case 'f':
		return jarg{"f", strconv.FormatUint(math.Float64bits(a.F), 16)}
	case 'b':
		return jarg{"b", lib.B(a.B)}
	}
	return jarg{string(a.K), hex.EncodeToString([]byte(a.S))}
}

func fromJ(j jarg) arg {
	switch j.K {
	case "i":
		n, _ := strconv.ParseInt(j.V, 10, 64)
		return arg{K: 'i', I: n}
	case "f":
		n, _ := strconv.ParseUint(j.V, 16, 64)
		return arg{K: 'f', F: math.Float64frombits(n)}
	case "b":
		return arg{K: 'b', B: j.V == "1"}
	}
	b, _ := hex.DecodeString(j.V)
	return arg{K: j.K[0], S: string(b)}
}

// replayInput is what a violation/disagreement carries (and what -replay re-runs).
type replayInput struct {
	Format string `json:"format_hex"`
	Text   string `json:"format_quoted"`
	Args   []jarg `json:"args"`
	MaxLen int    `json:"max_string_len"`
}

func mkInput(f string, args []arg, L int) replayInput {
	in := replayInput{Format: hex.EncodeToString([]byte(f)), Text: strconv.Quote(f), MaxLen: L}
	for _, a := range args {
		in.Args = append(in.Args, a.j())
	}
	return in
}

var (
	res      *lib.Result
	drv      *lib.Driver
	thorough bool
	defLimit = tengo.MaxStringLen
)

// ---- observation of Go's fmt: which operand does each verb consume ----

type use struct {
	verb  rune
	idx   int
	sharp bool
}

// recorder collects the operand uses of one fmt.Sprintf over the wrapped operands. With args == nil the
// wrappers only record (observation run). With args set they also print: every use prints what Go's fmt
// prints for the corresponding Go value under the same flags, width and precision, except the uses the
// rewrite mask selects, which print what the unchanged tengo tree prints there (known findings O38/O39).
type recorder struct {
	uses []use
	args []arg
	rw   int  // rwBadVerb | rwBytes
	odd  bool // Go's own text of a selected use did not have the expected shape: no classification
}

const (
	rwBadVerb = 1 // %!verb(type=value) -> %!verb(String()=fmtS(String())), formatter.go badVerb
	rwBytes   = 2 // [e0 e1 ...] of a bytes operand under a verb other than s q x X v d -> nothing (fmtBytes has no default arm)
)

// classes of one (operand, verb) use
const (
	useGood       = iota // verb documented for the operand's type (and %d on bytes, which both sides print as the element list)
	useBadVerb           // documented verb on an int/float/string/bool operand it is not documented for
	useBytesOther        // documented verb other than s q x X (v) d on a bytes operand
	useOutside           // %v (O22), %T (O23), verbs that are not documented at all
)

// every verb docs/formatting.md documents for some type (%v and %T: known findings O22/O23)
const documentedAny = "tbcdoOqxXUeEfFgGs"

func classOf(a arg, verb rune) int {
	if verb >= utf8.RuneSelf || !strings.ContainsRune(documentedAny, verb) {
		return useOutside
	}
	if strings.ContainsRune(documented[a.K], verb) {
		return useGood
	}
	if a.K == 'y' {
		if verb == 'd' {
			return useGood
		}
		return useBytesOther
	}
	return useBadVerb
}

// tengoString is Object.String() of the five mapped types as the unchanged tree defines it (objects.go),
// computed here without the tree so that a change of the tree cannot move the expectation.
func tengoString(a arg) string {
	switch a.K {
	case 'i':
		return strconv.FormatInt(a.I, 10)
	case 'f':
		return strconv.FormatFloat(a.F, 'f', -1, 64)
	case 's':
		return strconv.Quote(a.S)
	case 'b':
		return strconv.FormatBool(a.B)
	}
	return a.S
}

func goTypeName(a arg) string {
	switch a.K {
	case 'i':
		return "int64"
	case 'f':
		return "float64"
	case 's':
		return "string"
	case 'b':
		return "bool"
	}
	return "[]uint8"
}

// Operands handed to Go's fmt for the observation run. Int arguments stay integer kinds (so `*`
// accepts them exactly like the int64 they stand for): one named int type per argument position.
type other struct{ idx int }

func (o other) Format(s fmt.State, verb rune) { rec(o.idx, s, verb) }

var curRec *recorder

type pi0 int64
type pi1 int64
type pi2 int64
type pi3 int64
type pi4 int64
type pi5 int64
type pi6 int64
type pi7 int64
type pi8 int64
type pi9 int64

func rec(i int, s fmt.State, verb rune) {
	r := curRec
	r.uses = append(r.uses, use{verb, i, s.Flag('#')})
	if r.args == nil || i >= len(r.args) {
		return
	}
	a := r.args[i]
	// what Go's fmt prints for the Go value under this directive (fmt.FormatString rebuilds flags, width, precision)
	own := fmt.Sprintf(fmt.FormatString(s, verb), a.goVal())
	switch classOf(a, verb) {
	case useBadVerb:
		if !strings.HasPrefix(own, "%!"+string(verb)+"("+goTypeName(a)+"=") || !strings.HasSuffix(own, ")") {
			r.odd = true
		} else if r.rw&rwBadVerb != 0 {
			// formatter.go badVerb: "%!" verb "(" arg.String() "=" printArg(arg, 'v') ")", and printArg's 'v' is
			// fmtS(arg.String()) under the directive's own width, precision, '-' and '0' (what %s does in Go)
			str := tengoString(a)
			_, _ = io.WriteString(s, "%!"+string(verb)+"("+str+"="+fmt.Sprintf(fmt.FormatString(s, 's'), str)+")")
			return
		}
	case useBytesOther:
		if !strings.HasPrefix(own, "[") || !strings.HasSuffix(own, "]") {
			r.odd = true
		} else if r.rw&rwBytes != 0 {
			return
		}
	}
	_, _ = io.WriteString(s, own)
}
func (pi0) Format(s fmt.State, v rune) { rec(0, s, v) }
func (pi1) Format(s fmt.State, v rune) { rec(1, s, v) }
func (pi2) Format(s fmt.State, v rune) { rec(2, s, v) }
func (pi3) Format(s fmt.State, v rune) { rec(3, s, v) }
func (pi4) Format(s fmt.State, v rune) { rec(4, s, v) }
func (pi5) Format(s fmt.State, v rune) { rec(5, s, v) }
func (pi6) Format(s fmt.State, v rune) { rec(6, s, v) }
func (pi7) Format(s fmt.State, v rune) { rec(7, s, v) }
func (pi8) Format(s fmt.State, v rune) { rec(8, s, v) }
func (pi9) Format(s fmt.State, v rune) { rec(9, s, v) }

const maxArgs = 10

func wrapInt(i int, v int64) interface{} {
	switch i {
	case 0:
		return pi0(v)
	case 1:
		return pi1(v)
	case 2:
		return pi2(v)
	case 3:
		return pi3(v)
	case 4:
		return pi4(v)
	case 5:
		return pi5(v)
	case 6:
		return pi6(v)
	case 7:
		return pi7(v)
	case 8:
		return pi8(v)
	}
	return pi9(v)
}

// observe runs Go's fmt with recording operands and returns (verb, operand index, '#') of every
// operand a verb consumed.
func wrapArgs(args []arg) []interface{} {
	w := make([]interface{}, len(args))
	for i, a := range args {
		if a.K == 'i' {
			w[i] = wrapInt(i, a.I)
		} else {
			w[i] = other{i}
		}
	}
	return w
}

// render runs Go's fmt over printing wrappers: Go's own text when rw == 0 (must reproduce fmt.Sprintf on the
// plain values, which the caller checks), otherwise Go's text with the selected uses in the unchanged tree's form.
func render(f string, args []arg, rw int) (string, bool) {
	r := &recorder{args: args, rw: rw}
	curRec = r
	out := fmt.Sprintf(f, wrapArgs(args)...)
	return out, r.odd
}

func observe(f string, args []arg) []use {
	r := &recorder{}
	curRec = r
	out := fmt.Sprintf(f, wrapArgs(args)...)
	// %T and %p are handled by fmt before it looks for a Formatter: they show as the operand's type name
	// (possibly truncated by a precision, hence the conservative test on the format bytes as well)
	if strings.Contains(out, "main.pi") || strings.Contains(out, "main.other") || strings.ContainsAny(f, "Tp") {
		r.uses = append(r.uses, use{'T', -1, false})
	}
	return r.uses
}

// documented verbs per argument type (docs/formatting.md); %v and %T are documented but deviate
// (known findings O22/O23) and are excluded from the equality claim here.
var documented = map[byte]string{
	'i': "bcdoOqxXU",
	'f': "beEfFgGxX",
	's': "sqxX",
	'y': "sqxX",
	'b': "t",
}

func convertibleNonInt(a arg) bool {
	switch a.K {
	case 'f', 'b':
		return true
	case 's':
		_, err := strconv.ParseInt(a.S, 10, 64)
		return err == nil
	}
	return false
}

// inClaim decides, from Go's own behaviour, whether (f, args) lies inside the equality claim, and counts
// the uses on which the unchanged tree is known to differ from Go (bad: O38, byo: O39).
func inClaim(f string, args []arg, goOut string) (in bool, why string, bad, byo int) {
	if len(args) > maxArgs {
		return false, "too-many-args", 0, 0
	}
	for _, u := range observe(f, args) {
		if u.idx < 0 {
			return false, "verb-T-or-p(O23)", 0, 0
		}
		a := args[u.idx]
		switch classOf(a, u.verb) {
		case useOutside:
			if u.verb == 'v' {
				return false, "verb-v(O22)", 0, 0
			}
			if u.verb == 'T' {
				return false, "verb-T(O23)", 0, 0
			}
			return false, "verb-not-documented", 0, 0
		case useBadVerb:
			bad++
			continue
		case useBytesOther:
			byo++
			continue
		}
		if a.K == 'i' && u.verb == 'q' && (a.I < 0 || a.I > 0x10FFFF) {
			return false, "q-on-non-code-point", 0, 0
		}
		if a.K == 'f' && (u.verb == 'x' || u.verb == 'X') && u.sharp {
			return false, "sharp-x-on-float", 0, 0
		}
		if a.K == 'f' && (u.verb == 'g' || u.verb == 'G') && u.sharp && a.F != 0 && math.Abs(a.F) < 1 {
			return false, "sharp-g-leading-zeros(O29)", 0, 0
		}
	}
	if strings.Contains(goOut, "%!(EXTRA ") {
		return false, "surplus-args", 0, 0
	}
	if strings.Contains(goOut, "%!(BADWIDTH)") || strings.Contains(goOut, "%!(BADPREC)") {
		for _, a := range args {
			if convertibleNonInt(a) {
				return false, "star-operand-maybe-non-int(O27)", 0, 0
			}
		}
	}
	return true, "", bad, byo
}

const (
	sigBadVerb = "format-bad-verb-text-differs-from-go-fmt"     // known finding O38
	sigBytes   = "format-bytes-under-other-verb-prints-nothing" // known finding O39
)

// outcomeOf is what a formatter producing text t must return under the limit L.
func outcomeOf(t string, L int) string {
	if len(t) > L {
		return "err stringLimit"
	}
	return "ok " + lib.HexS(t)
}

// knownDifference decides whether the real outcome differs from Go's ONLY by the two recorded differences of
// the unchanged tree: it must equal, byte for byte, Go's text with the bad-verb groups and/or the bytes element
// lists of exactly the uses Go's fmt reported replaced by what formatter.go prints there. Nothing of the tree
// under test enters the expectation.
func knownDifference(f string, args []arg, L int, goOut, real string, bad, byo int) []string {
	if bad == 0 && byo == 0 {
		return nil
	}
	if id, odd := render(f, args, 0); odd || id != goOut {
		res.Dist("classify:wrappers-do-not-reproduce-go")
		return nil
	}
	try := func(rw int) bool {
		t, _ := render(f, args, rw)
		return real == outcomeOf(t, L)
	}
	switch {
	case bad > 0 && try(rwBadVerb):
		return []string{sigBadVerb}
	case byo > 0 && try(rwBytes):
		return []string{sigBytes}
	case bad > 0 && byo > 0 && try(rwBadVerb|rwBytes):
		return []string{sigBadVerb, sigBytes}
	}
	return nil
}

// ---- oracle table for the model ----

func truncRunes(s string, n int) string {
	for i := range s {
		n--
		if n < 0 {
			return s[:i]
		}
	}
	return s
}

const maxOraclePrec = 1200

func oracleTable(f string, args []arg) string {
	// candidate precisions: defaults, every number in the format, every int-convertible argument
	precs := map[int]bool{-1: true, 6: true}
	for i := 0; i < len(f); {
		if f[i] < '0' || f[i] > '9' {
			i++
			continue
		}
		n := 0
		j := i
		for j < len(f) && f[j] >= '0' && f[j] <= '9' {
			if n <= 100000000 {
				n = n*10 + int(f[j]-'0')
			}
			// every prefix of a digit run can be the number parsenum stops at
			if n <= maxOraclePrec {
				precs[n] = true
			}
			j++
		}
		// suffixes of a digit run (after a '[n]' or flags '0' the number may start later)
		for k := i + 1; k < j; k++ {
			m := 0
			for q := k; q < j && m <= maxOraclePrec; q++ {
				m = m*10 + int(f[q]-'0')
				if m <= maxOraclePrec {
					precs[m] = true
				}
			}
		}
		i = j
	}
	has := func(c byte) bool { return strings.IndexByte(f, c) >= 0 }
	star := has('*')
	for _, a := range args {
		if !star {
			break
		}
		if v, ok := tengo.ToInt64(a.obj()); ok && v >= 0 && v <= maxOraclePrec {
			precs[int(v)] = true
		}
	}
	var ps []int
	for p := range precs {
		ps = append(ps, p)
	}
	sort.Ints(ps)
	var out []string
	seen := map[string]bool{}
	add := func(e string) {
		if !seen[e] {
			seen[e] = true
			out = append(out, e)
		}
	}
	for _, a := range args {
		switch a.K {
		case 'f':
			bits := lib.U(math.Float64bits(a.F))
			add(lib.L("fs", bits, lib.HexS(a.obj().String())))
			add(lib.L("fi", bits, lib.I(int64(a.F))))
			for _, v := range []byte("eEfgGbxX") {
				if !has(v) && !(v == 'f' && has('F')) {
					continue
				}
				for _, p := range ps {
					add(lib.L("ff", bits, lib.N(int(v)), lib.N(p), lib.Hex(strconv.AppendFloat(nil, a.F, v, p, 64))))
				}
			}
		case 's', 'y':
			if a.K == 's' {
				add(lib.L("q", lib.HexS(a.S), lib.HexS(strconv.Quote(a.S))))
			}
			if has('q') {
				ts := map[string]bool{a.S: true}
				for _, p := range ps {
					if p >= 0 {
						ts[truncRunes(a.S, p)] = true
					}
				}
				var tl []string
				for t := range ts {
					tl = append(tl, t)
				}
				sort.Strings(tl)
				for _, t := range tl {
					add(lib.L("q", lib.HexS(t), lib.HexS(strconv.Quote(t))))
					add(lib.L("qa", lib.HexS(t), lib.HexS(strconv.QuoteToASCII(t))))
					add(lib.L("cb", lib.HexS(t), lib.B(strconv.CanBackquote(t))))
				}
			}
		case 'i':
			if a.I >= 0 && a.I <= 0x10FFFF {
				if has('q') {
					add(lib.L("qr", lib.I(a.I), lib.HexS(strconv.QuoteRune(rune(a.I)))))
					add(lib.L("qra", lib.I(a.I), lib.HexS(strconv.QuoteRuneToASCII(rune(a.I)))))
				}
				if has('U') {
					add(lib.L("ip", lib.I(a.I), lib.B(strconv.IsPrint(rune(a.I)))))
				}
			}
		}
	}
	return "(" + strings.Join(out, " ") + ")"
}

// ---- the real code, three entry points ----

type outcome struct {
	s       string
	limit   bool   // ErrStringLimit
	other   string // any other error
	panic   string
	timeout bool
}

func (o outcome) String() string {
	switch {
	case o.timeout:
		return "timeout"
	case o.panic != "":
		return "panic: " + o.panic
	case o.limit:
		return "err stringLimit"
	case o.other != "":
		return "err " + o.other
	}
	return "ok " + lib.HexS(o.s)
}

func callFormat(f string, args []arg) (o outcome) {
	objs := make([]tengo.Object, len(args))
	for i, a := range args {
		objs[i] = a.obj()
	}
	g := lib.Guard(20*time.Second, func() {
		s, err := tengo.Format(f, objs...)
		if err != nil {
			if errors.Is(err, tengo.ErrStringLimit) {
				o.limit = true
			} else {
				o.other = err.Error()
			}
			return
		}
		o.s = s
	})
	if g.Panicked {
		o.panic = g.PanicVal
	}
	o.timeout = g.TimedOut
	return
}

var compiledCache = map[string]*tengo.Compiled{}

func compiledFor(entry string, n int) (*tengo.Compiled, error) {
	key := fmt.Sprintf("%s/%d", entry, n)
	if c, ok := compiledCache[key]; ok {
		return c, nil
	}
	var names []string
	for i := 0; i < n; i++ {
		names = append(names, fmt.Sprintf("a%d", i))
	}
	call := "format(" + strings.Join(append([]string{"f"}, names...), ", ") + ")"
	src := "out := " + call + "\n"
	if entry == "sprintf" {
		src = "fmt := import(\"fmt\")\nout := fmt.sprintf(" + strings.Join(append([]string{"f"}, names...), ", ") + ")\n"
	}
	cur := tengo.MaxStringLen
	tengo.MaxStringLen = defLimit // compile under the default limit; the call under test runs under the small one
	defer func() { tengo.MaxStringLen = cur }()
	s := tengo.NewScript([]byte(src))
	s.SetImports(stdlib.GetModuleMap("fmt"))
	_ = s.Add("f", "")
	for _, nm := range names {
		_ = s.Add(nm, 0)
	}
	c, err := s.Compile()
	if err != nil {
		return nil, err
	}
	compiledCache[key] = c
	return c, nil
}

// callScript runs the builtin `format` or `fmt.sprintf` through a compiled script.
func callScript(entry, f string, args []arg) (o outcome, usable bool) {
	c0, err := compiledFor(entry, len(args))
	if err != nil {
		fatal(err)
	}
	c := c0.Clone()
	if err := c.Set("f", f); err != nil {
		return o, false // the format itself exceeds the limit: outside the call under test
	}
	for i, a := range args {
		if err := c.Set(fmt.Sprintf("a%d", i), a.goVal()); err != nil {
			return o, false
		}
	}
	ctx, cancel := context.WithTimeout(context.Background(), 20*time.Second)
	defer cancel()
	g := lib.Guard(25*time.Second, func() {
		err := c.RunContext(ctx)
		if err != nil {
			if errors.Is(err, tengo.ErrStringLimit) || strings.Contains(err.Error(), tengo.ErrStringLimit.Error()) {
				o.limit = true
			} else {
				o.other = err.Error()
			}
			return
		}
		v := c.Get("out")
		if s, ok := v.Object().(*tengo.String); ok {
			o.s = s.Value
		} else {
			o.other = "result is " + v.ValueType()
		}
	})
	if g.Panicked {
		o.panic = g.PanicVal
	}
	o.timeout = g.TimedOut
	return o, true
}

// ---- one case ----

type caseOpts struct {
	stream  string
	scripts bool
	noModel bool
}

func goSprintf(f string, args []arg) string {
	ga := make([]interface{}, len(args))
	for i, a := range args {
		ga[i] = a.goVal()
	}
	return fmt.Sprintf(f, ga...)
}

func clip(s string, n int) string {
	if len(s) > n {
		return s[:n] + "…"
	}
	return s
}

func checkCase(f string, args []arg, L int, opt caseOpts) {
	if len(args) > maxArgs {
		args = args[:maxArgs]
	}
	tengo.MaxStringLen = L
	defer func() { tengo.MaxStringLen = defLimit }()
	in := mkInput(f, args, L)
	real := callFormat(f, args)
	goOut := goSprintf(f, args)
	claim, why, nBad, nByo := inClaim(f, args, goOut)
	key := f + "\x00" + fmt.Sprint(in.Args) + "\x00" + strconv.Itoa(L)
	res.Count(opt.stream, key, claim && strings.Contains(f, "%"))
	if claim {
		res.Dist("in-claim")
	} else {
		res.Dist("outside:" + why)
	}

	// safety, everywhere
	switch {
	case real.timeout:
		res.Violate(lib.Violation{Signature: "format-does-not-terminate", Stream: "safety", Input: in, Observed: "no result after 20s", Expected: "a string or ErrStringLimit", Oracle: "watchdog"})
		return
	case real.panic != "":
		res.Violate(lib.Violation{Signature: "format-panics", Stream: "safety", Input: in, Observed: clip(real.panic, 300), Expected: "a string or ErrStringLimit", Oracle: "recover"})
		return
	case real.other != "":
		res.Violate(lib.Violation{Signature: "format-returns-other-error", Stream: "safety", Input: in, Observed: clip(real.other, 300), Expected: "a string or ErrStringLimit", Oracle: "errors.Is(err, ErrStringLimit)"})
		return
	case !real.limit && len(real.s) > L:
		res.Violate(lib.Violation{Signature: "format-result-exceeds-MaxStringLen", Stream: "safety", Input: in, Observed: fmt.Sprintf("%d bytes", len(real.s)), Expected: fmt.Sprintf("<= %d bytes or ErrStringLimit", L), Oracle: "len(result) <= tengo.MaxStringLen"})
		return
	}
	if real.limit {
		res.Dist("result:stringLimit")
	}

	// equality with Go's fmt, inside the claim
	if claim && real.String() != outcomeOf(goOut, L) {
		if sigs := knownDifference(f, args, L, goOut, real.String(), nBad, nByo); sigs != nil {
			for _, sig := range sigs {
				res.Dist("known-difference:" + sig)
				res.Violate(lib.Violation{Signature: sig, Stream: "equal", Input: in, Observed: clip(real.String(), 400) + " = " + clip(strconv.Quote(real.s), 200), Expected: clip(outcomeOf(goOut, L), 400) + " = " + clip(strconv.Quote(goOut), 200), Oracle: "fmt.Sprintf on the corresponding Go values; the result equals Go's text with exactly this recorded difference of the unchanged tree applied to the uses Go's fmt reports"})
			}
		} else if len(goOut) <= L {
			if real.limit || real.s != goOut {
				res.Violate(lib.Violation{Signature: "format-differs-from-go-fmt", Stream: "equal", Input: in, Observed: clip(real.String(), 400), Expected: clip("ok "+lib.HexS(goOut), 400) + " = " + clip(strconv.Quote(goOut), 200), Oracle: "fmt.Sprintf on the corresponding Go values (int64, float64, string, bool, []byte)"})
			}
		} else if !real.limit {
			res.Violate(lib.Violation{Signature: "format-result-exceeds-MaxStringLen", Stream: "equal", Input: in, Observed: clip(real.String(), 200), Expected: "ErrStringLimit", Oracle: "Go's result has more than MaxStringLen bytes"})
		}
	}

	// the other two entry points
	if opt.scripts {
		for _, e := range []string{"format", "sprintf"} {
			so, usable := callScript(e, f, args)
			if !usable {
				res.Dist("entry:" + e + ":args-over-limit")
				continue
			}
			res.Count("entry", e+"\x00"+key, claim)
			want := real
			if len(args) == 0 {
				// known finding O28: with no arguments the builtins return the format unchanged;
				// kept out of this comparison, probed separately
				if !strings.Contains(f, "%") && so.String() != want.String() {
					res.Violate(lib.Violation{Signature: "entry-point-differs", Stream: "entry", Input: in, Observed: e + ": " + clip(so.String(), 300), Expected: clip(want.String(), 300), Oracle: "builtin must return what tengo.Format returns"})
				}
				continue
			}
			if so.panic != "" || so.timeout {
				res.Violate(lib.Violation{Signature: "format-panics", Stream: "entry", Input: in, Observed: e + ": " + clip(so.String(), 300), Expected: "a string or the string-limit error", Oracle: "recover / watchdog"})
				continue
			}
			if so.String() != want.String() {
				res.Violate(lib.Violation{Signature: "entry-point-differs", Stream: "entry", Input: in, Observed: e + ": " + clip(so.String(), 300), Expected: clip(want.String(), 300), Oracle: "builtin must return what tengo.Format returns"})
			}
		}
	}

	// correspondence with the model
	if drv != nil && !opt.noModel && len(real.s) > 100000 {
		res.Dist("model:skipped-large-output")
	} else if drv != nil && !opt.noModel {
		pending = append(pending, pendingLine{lib.L("fmt", lib.N(L), lib.HexS(f), "("+joinArgs(args)+")", oracleTable(f, args)), real.String(), in})
		if len(pending) >= 256 {
			flush()
		}
	}
	res.Sample(map[string]interface{}{"stream": opt.stream, "format": strconv.Quote(f), "args": in.Args, "limit": L, "result": clip(real.String(), 120), "in_claim": claim}, 6)
}

type pendingLine struct {
	line, impl string
	in         replayInput
}

var pending []pendingLine

// flush sends the queued model lines (pipelined) and compares the answers.
func flush() {
	if drv == nil || len(pending) == 0 {
		return
	}
	lines := make([]string, len(pending))
	for i, p := range pending {
		lines[i] = p.line
	}
	ans, err := drv.Batch(lines)
	if err != nil {
		fatal(err)
	}
	for i, p := range pending {
		if ans[i] == "unsupported" {
			res.Skipped++
			res.Dist("model:unsupported")
			continue
		}
		res.ModelLines++
		if ans[i] != p.impl {
			res.Disagree(lib.Disagreement{Stream: "fmt", Input: p.in, Model: clip(ans[i], 600), Impl: clip(p.impl, 600)})
		}
	}
	pending = pending[:0]
}

func joinArgs(args []arg) string {
	var s []string
	for _, a := range args {
		s = append(s, a.sexp())
	}
	return strings.Join(s, " ")
}

// ---- pools ----

var intPool = []int64{0, 1, -1, 7, 9, 65, 97, 255, 256, -128, 0x7F, 0x80, 0x7FF, 0x800, 0xD800, 0xDFFF, 0xFFFD, 0xFFFF, 0x10000,
	0x1F600, 0x10FFFF, 0x110000, math.MaxInt64, math.MinInt64, math.MinInt64 + 1, 1000000, 1000001, -1000000, -1000001, 12345, -42, 10, 0x0A, 0x27, 0x5C, 0xAD}

var floatPool = []float64{0, math.Copysign(0, -1), math.NaN(), math.Inf(1), math.Inf(-1), 5e-324, 1e21, 1e-7, 1, -1.5, 123.456,
	math.MaxFloat64, 1e20, 1e-5, 0.1, 100, 1e6, 7.9, -3.2, 2.5, 0.000123456789, 1234567.0, 3, 1e100, 9.999999e5}

var strPool = []string{"", "abc", "héllo", "a\xffb", "\x00\x01\n\t", "日本語", "`back`", "quo\"te", "\xed\xa0\x80", "\xf4\x90\x80\x80",
	"123", "-5", "+7", " 7", "9223372036854775808", strings.Repeat("xy", 40), "%d", "a b", "­ ", "\xc0\x80", "\xe2\x82", "😀x", "é"}

var bytesPool = []string{"", "hi", "\x00\xff\x80", "\xffé", "abcdefgh", "日本", "a\nb"}

func randArg(r *lib.RNG, kinds string) arg {
	k := kinds[r.Intn(len(kinds))]
	switch k {
	case 'i':
		if r.Chance(1, 5) {
			return arg{K: 'i', I: int64(r.U64())}
		}
		if r.Chance(1, 6) {
			return arg{K: 'i', I: int64(r.Intn(0x110000))}
		}
		return arg{K: 'i', I: lib.Pick(r, intPool)}
	case 'f':
		if r.Chance(1, 5) {
			return arg{K: 'f', F: math.Float64frombits(r.U64())}
		}
		if r.Chance(1, 6) {
			return arg{K: 'f', F: float64(int64(r.U64()>>40)) / 1024}
		}
		return arg{K: 'f', F: lib.Pick(r, floatPool)}
	case 's':
		if r.Chance(1, 6) {
			n := r.Intn(12)
			b := make([]byte, n)
			for i := range b {
				b[i] = byte(r.Intn(256))
			}
			return arg{K: 's', S: string(b)}
		}
		return arg{K: 's', S: lib.Pick(r, strPool)}
	case 'b':
		return arg{K: 'b', B: r.Bool()}
	}
	if r.Chance(1, 6) {
		n := r.Intn(10)
		b := make([]byte, n)
		for i := range b {
			b[i] = byte(r.Intn(256))
		}
		return arg{K: 'y', S: string(b)}
	}
	return arg{K: 'y', S: lib.Pick(r, bytesPool)}
}

const allVerbs = "vT%tbcdoOqxXUeEfFgGs"

func kindFor(r *lib.RNG, verb byte) string {
	var ks []byte
	for _, k := range []byte("ifsyb") {
		if strings.IndexByte(documented[k], verb) >= 0 {
			ks = append(ks, k)
		}
	}
	if len(ks) == 0 {
		return "ifsyb"
	}
	return string(ks)
}

var widthLits = []string{"", "", "0", "1", "7", "64", "12", "300"}
var precLits = []string{"", "", ".", ".0", ".1", ".7", ".64", ".3", ".20"}

// genDirective appends one directive and the operands it is meant to consume.
func genDirective(r *lib.RNG, sb *strings.Builder, args *[]arg, chaos bool) {
	sb.WriteByte('%')
	fl := "+-# 0"
	m := r.Intn(32)
	if r.Chance(1, 3) {
		m = 0
	}
	for k := 0; k < 5; k++ {
		if m&(1<<k) != 0 {
			sb.WriteByte(fl[k])
		}
	}
	if chaos && r.Chance(1, 8) {
		sb.WriteByte(fl[r.Intn(5)]) // repeated / reordered flag
	}
	index := func() {
		switch r.Intn(10) {
		case 0:
			sb.WriteString("[0]")
		case 1:
			sb.WriteString(fmt.Sprintf("[%d]", len(*args)+2+r.Intn(3)))
		case 2:
			sb.WriteString(lib.Pick(r, []string{"[", "[]", "[x]", "[1", "[-1]", "[99999999999]", "[1]]", "[ 1]"}))
		default:
			sb.WriteString(fmt.Sprintf("[%d]", 1+r.Intn(len(*args)+1)))
		}
	}
	starArg := func() {
		switch {
		case r.Chance(1, 12):
			*args = append(*args, randArg(r, "fsyb")) // non-int operand (O27 region unless bytes / non-numeric)
		case r.Chance(1, 8):
			*args = append(*args, arg{K: 'i', I: lib.Pick(r, []int64{-7, -1, 1000000, 1000001, -1000001, math.MinInt64, 100000})})
		default:
			*args = append(*args, arg{K: 'i', I: int64(r.Intn(20))})
		}
	}
	// width
	switch r.Intn(8) {
	case 0:
		sb.WriteByte('*')
		starArg()
	case 1:
		if r.Chance(1, 3) {
			index()
			sb.WriteByte('*')
			if r.Chance(2, 3) {
				starArg()
			}
		} else {
			sb.WriteString(lib.Pick(r, widthLits))
		}
	default:
		sb.WriteString(lib.Pick(r, widthLits))
		if chaos && r.Chance(1, 400) {
			sb.WriteString(lib.Pick(r, []string{"1000001", "10000009", "100000000", "99999999999999999999"}))
		}
	}
	// precision
	switch r.Intn(8) {
	case 0:
		sb.WriteString(".*")
		starArg()
	case 1:
		if r.Chance(1, 3) {
			sb.WriteByte('.')
			index()
			sb.WriteByte('*')
			if r.Chance(2, 3) {
				starArg()
			}
		} else {
			sb.WriteString(lib.Pick(r, precLits))
		}
	default:
		sb.WriteString(lib.Pick(r, precLits))
	}
	if r.Chance(1, 7) {
		index()
	}
	// verb
	var verb byte
	switch {
	case chaos && r.Chance(1, 10):
		sb.WriteString(lib.Pick(r, []string{"é", "\xff", "!", "Z", "p", "\x00", "日", ".", "*", "[", "]", " "}))
		*args = append(*args, randArg(r, "ifsyb"))
		return
	default:
		verb = allVerbs[r.Intn(len(allVerbs))]
	}
	sb.WriteByte(verb)
	if verb == '%' {
		return
	}
	if r.Chance(1, 7) {
		*args = append(*args, randArg(r, "ifsyb")) // any type: often a bad verb, outside the claim
	} else {
		*args = append(*args, randArg(r, kindFor(r, verb)))
	}
}

var literals = []string{"", "", "x", "abc ", "é", "100", " = ", "\xff", "[", "]", ".", "*", "日本", "\n", "%%", "(", "0"}

func genGrammar(r *lib.RNG) (string, []arg) {
	var sb strings.Builder
	var args []arg
	n := 1 + r.Intn(4)
	if r.Chance(1, 2) {
		n = 1
	}
	chaos := r.Chance(1, 3)
	for i := 0; i < n; i++ {
		sb.WriteString(lib.Pick(r, literals))
		genDirective(r, &sb, &args, chaos)
	}
	sb.WriteString(lib.Pick(r, literals))
	if r.Chance(1, 12) {
		sb.WriteString(lib.Pick(r, []string{"%", "%5", "%.", "%[1]", "%-", "%*", "%.*", "%[", "%5.3"}))
	}
	// missing / surplus arguments
	switch r.Intn(12) {
	case 0:
		if len(args) > 0 {
			args = args[:len(args)-1]
		}
	case 1:
		args = nil
	case 2:
		args = append(args, randArg(r, "ifsyb"))
	case 3:
		// shuffle: operands of other types under the verbs
		for i := range args {
			j := r.Intn(len(args))
			args[i], args[j] = args[j], args[i]
		}
	}
	if len(args) > maxArgs {
		args = args[:maxArgs]
	}
	return sb.String(), args
}

func genBytes(r *lib.RNG) (string, []arg) {
	n := r.Intn(14)
	b := make([]byte, n)
	alphabet := "%%%%[]*.0123456789+-# vTtbcdoOqxXUeEfFgGs!\xff\xc3\xa9z"
	for i := range b {
		if r.Chance(1, 8) {
			b[i] = byte(r.Intn(256))
		} else {
			b[i] = alphabet[r.Intn(len(alphabet))]
		}
	}
	var args []arg
	for i := r.Intn(5); i > 0; i-- {
		args = append(args, randArg(r, "ifsyb"))
	}
	return string(b), args
}

func pickLimit(r *lib.RNG) int {
	if r.Chance(1, 6) {
		return lib.Pick(r, []int{0, 1, 2, 3, 5, 8, 10, 16, 31, 64, 100})
	}
	return defLimit
}

// ---- exhaustive single directives ----

var singleArgs = []arg{
	{K: 'i', I: 0}, {K: 'i', I: -1}, {K: 'i', I: 65}, {K: 'i', I: math.MinInt64}, {K: 'i', I: 0x1F600}, {K: 'i', I: 0x110000},
	{K: 'f', F: 0}, {K: 'f', F: math.Copysign(0, -1)}, {K: 'f', F: math.NaN()}, {K: 'f', F: math.Inf(-1)}, {K: 'f', F: 1e21}, {K: 'f', F: 1e-7}, {K: 'f', F: 5e-324}, {K: 'f', F: 123.456},
	{K: 's', S: ""}, {K: 's', S: "a\xffb\x01é"}, {K: 's', S: "héllo wörld"},
	{K: 'b', B: true}, {K: 'b', B: false},
	{K: 'y', S: ""}, {K: 'y', S: "hi\xff"},
}

func singles(full bool) {
	fl := "+-# 0"
	wids := []string{"", "0", "1", "7", "64", "*"}
	precs := []string{"", ".", ".1", ".7", ".64", ".*"}
	argsSet := singleArgs
	if !full {
		wids = []string{"", "7", "*"}
		precs = []string{"", ".0", ".3", ".*"}
		argsSet = []arg{singleArgs[1], singleArgs[2], singleArgs[3], singleArgs[7], singleArgs[8], singleArgs[13], singleArgs[15], singleArgs[17], singleArgs[20]}
	}
	for _, v := range []byte(allVerbs) {
		for m := 0; m < 32; m++ {
			fs := ""
			for k := 0; k < 5; k++ {
				if m&(1<<k) != 0 {
					fs += string(fl[k])
				}
			}
			for _, w := range wids {
				for _, p := range precs {
					f := "%" + fs + w + p + string(v)
					for _, a := range argsSet {
						if !full && strings.IndexByte(documented[a.K], v) < 0 && v != 'v' && v != 'T' {
							continue
						}
						var args []arg
						if w == "*" {
							args = append(args, arg{K: 'i', I: 9})
						}
						if p == ".*" {
							args = append(args, arg{K: 'i', I: 3})
						}
						if v != '%' {
							args = append(args, a)
						}
						checkCase(f, args, defLimit, caseOpts{stream: "single"})
						if v == '%' {
							break
						}
					}
				}
			}
		}
	}
}

// intbufBoundary: integer verbs whose digit count (from the precision, or from the width under the 0 flag) lies
// around the size of the formatter's fixed scratch buffer (68 bytes), with every sign / prefix combination — the
// place where "is the fixed buffer large enough" is decided (C17-m6/m7/m8: sized from the precision only;
// C17-m9: compared without the three bytes for sign and prefix: panics only for 66..68 digits plus sign/prefix).
func intbufBoundary(full bool) {
	lo, hi := 62, 72
	if full {
		lo, hi = 56, 80
	}
	vals := []int64{5, -5, 0, math.MaxInt64, math.MinInt64}
	for _, v := range []byte("dxXoOb") {
		for _, fs := range []string{"", "+", "#", "+#", " ", " #", "0", "+0", "#0", "+#0", "-", "-+#"} {
			for n := lo; n <= hi; n++ {
				for _, shape := range []string{fmt.Sprintf(".%d", n), fmt.Sprintf("%d", n), fmt.Sprintf("%d.%d", n+2, n), ".*", "*"} {
					if strings.ContainsAny(shape, ".") && strings.Contains(fs, "0") && shape[0] != '.' {
						continue
					}
					f := "[%" + fs + shape + string(v) + "]"
					for _, x := range vals {
						var args []arg
						if strings.Contains(shape, "*") {
							args = append(args, arg{K: 'i', I: int64(n)})
						}
						args = append(args, arg{K: 'i', I: x})
						checkCase(f, args, defLimit, caseOpts{stream: "intbuf"})
					}
				}
			}
		}
	}
}

// ---- exhaustive cross-type directives: every documented verb on every operand type it is not documented for ----

var crossArgs = []arg{
	{K: 'i', I: 65}, {K: 'i', I: -7}, {K: 'i', I: math.MinInt64},
	{K: 'f', F: 1.5}, {K: 'f', F: 1e21}, {K: 'f', F: math.NaN()}, {K: 'f', F: math.Copysign(0, -1)},
	{K: 's', S: "s"}, {K: 's', S: "hé\"llo)\n"}, {K: 's', S: ""}, {K: 's', S: "%!d(string=x)"},
	{K: 'b', B: true}, {K: 'b', B: false},
	{K: 'y', S: "ab"}, {K: 'y', S: ""}, {K: 'y', S: "hi\xff\x00é"},
}

// cross runs through both searchers and the model correspondence, so that bad verbs on all five operand
// types and bytes under the other verbs are compared with Go's fmt AND with the Lean model on every run.
func cross(full bool) {
	flagSets := []string{"", "-", "0", "+", "#", " ", "-0", "+# 0"}
	wids := []string{"", "7", "*"}
	precs := []string{"", ".1", ".*"}
	if full {
		flagSets = nil
		for m := 0; m < 32; m++ {
			fs := ""
			for k := 0; k < 5; k++ {
				if m&(1<<k) != 0 {
					fs += string("+-# 0"[k])
				}
			}
			flagSets = append(flagSets, fs)
		}
		wids = []string{"", "0", "1", "7", "64", "*"}
		precs = []string{"", ".", ".1", ".7", ".*"}
	}
	n := 0
	for _, v := range []byte(documentedAny) {
		for _, a := range crossArgs {
			if strings.IndexByte(documented[a.K], v) >= 0 {
				continue
			}
			for _, fs := range flagSets {
				for _, w := range wids {
					for _, p := range precs {
						var args []arg
						if w == "*" {
							args = append(args, arg{K: 'i', I: -9})
						}
						if p == ".*" {
							args = append(args, arg{K: 'i', I: 3})
						}
						args = append(args, a)
						n++
						checkCase("%"+fs+w+p+string(v), args, defLimit, caseOpts{stream: "cross", scripts: n%16 == 0})
						if n%7 == 0 {
							// several directives, literal text, an explicit index re-using the operand, a small limit
							checkCase("<%"+fs+w+p+string(v)+"|%[1]"+string(v)+">", args, lib.Pick(crossRNG, []int{defLimit, defLimit, 24, 9}), caseOpts{stream: "cross"})
						}
					}
				}
			}
		}
	}
}

var crossRNG *lib.RNG

// ---- known-finding probes of this property ----

type probe struct {
	id, sig, input, what string
	run                  func() (fails bool, observed string)
}

func fmtProbe(f string, args []arg) func() (bool, string) {
	return func() (bool, string) {
		got := callFormat(f, args)
		want := goSprintf(f, args)
		if got.String() != "ok "+lib.HexS(want) {
			return true, fmt.Sprintf("tengo %s, Go %q", strconv.Quote(got.s), want)
		}
		return false, ""
	}
}

var probes = []probe{
	{"O22", "format-%v-prints-String()-not-the-typed-default", `format("%v", "abc"); format("%v", 1e21); format("%.2v", 12345); format("%v", bytes("hi"))`,
		"%v prints Object.String() through fmtS (quoted strings, floats in 'f' form, precision truncating ints, bytes as text) instead of Go's %s/%g/%d/[104 105]",
		func() (bool, string) {
			for _, c := range []struct {
				f string
				a arg
			}{{"%v", arg{K: 's', S: "abc"}}, {"%v", arg{K: 'f', F: 1e21}}, {"%.2v", arg{K: 'i', I: 12345}}, {"%v", arg{K: 'y', S: "hi"}}} {
				if f, o := fmtProbe(c.f, []arg{c.a})(); f {
					return true, o
				}
			}
			return false, ""
		}},
	{"O23", "format-%T-prints-tengo-type-name", `format("%T", 1)`, "%T prints the Tengo type name (int, float, bytes) where Go prints int64, float64, []uint8",
		func() (bool, string) {
			for _, a := range []arg{{K: 'i', I: 1}, {K: 'f', F: 1}, {K: 'y', S: "x"}} {
				if f, o := fmtProbe("%T", []arg{a})(); f {
					return true, o
				}
			}
			return false, ""
		}},
	{"O27", "format-star-operand-non-int-accepted", `format("%*d", 3.0, 5); format("%.*f", true, 2.5); format("%*d", "4", 5)`,
		"'*' width/precision takes Float, Bool and numeric String operands through ToInt64 where Go's fmt (and docs/formatting.md: 'must be of type Int') prints %!(BADWIDTH)/%!(BADPREC)",
		func() (bool, string) {
			for _, c := range []struct {
				f string
				a []arg
			}{{"%*d", []arg{{K: 'f', F: 3}, {K: 'i', I: 5}}}, {"%.*f", []arg{{K: 'b', B: true}, {K: 'f', F: 2.5}}}, {"%*d", []arg{{K: 's', S: "4"}, {K: 'i', I: 5}}}} {
				if f, o := fmtProbe(c.f, c.a)(); f {
					return true, o
				}
			}
			return false, ""
		}},
	{"O29", "format-%#g-counts-leading-zeros-as-significant-digits", `format("%#.3g", 0.1)`,
		"%#g / %#G on a float below 1 counts the leading zeros as significant digits: \"0.10\" where Go's fmt (since the port was taken) prints \"0.100\"",
		fmtProbe("%#.3g", []arg{{K: 'f', F: 0.1}})},
	{"O28", "format-without-arguments-returns-format-verbatim", `format("100%%"); format("%d"); fmt.sprintf("%%")`,
		"with no arguments the format builtin and fmt.sprintf return the format string unprocessed (\"100%%\", \"%d\") where tengo.Format and Go's fmt give \"100%\" and \"%!d(MISSING)\"",
		func() (bool, string) {
			for _, e := range []string{"format", "sprintf"} {
				for _, f := range []string{"100%%", "%d"} {
					o, ok := callScript(e, f, nil)
					want := fmt.Sprintf(f)
					if ok && o.String() != "ok "+lib.HexS(want) {
						return true, fmt.Sprintf("%s(%q) = %s, Go %q", e, f, strconv.Quote(o.s), want)
					}
				}
			}
			return false, ""
		}},
}

func runOwnProbes(knownPath string) {
	known := map[string]bool{}
	for _, k := range lib.LoadKnown(knownPath) {
		if k.Property == "C17" && k.Status == "known" {
			known[k.ID] = true
		}
	}
	for _, p := range probes {
		fails, obs := p.run()
		res.Count("finding-probe", p.id, true)
		if !fails {
			continue
		}
		if known[p.id] {
			res.KnownHits = append(res.KnownHits, p.id)
			continue
		}
		res.Violate(lib.Violation{Signature: p.sig, Stream: "finding-probe", Input: p.input, Observed: obs, Expected: "what fmt.Sprintf prints", Oracle: p.what})
	}
}

// ---- corpus: hand-written boundary cases, run first ----

type ccase struct {
	f    string
	args []arg
	L    int
}

func ai(n int64) arg              { return arg{K: 'i', I: n} }
func af(x float64) arg            { return arg{K: 'f', F: x} }
func as(s string) arg             { return arg{K: 's', S: s} }
func ay(s string) arg             { return arg{K: 'y', S: s} }
func ab(b bool) arg               { return arg{K: 'b', B: b} }
func cc(f string, a ...arg) ccase { return ccase{f, a, 0} }

var corpus = []ccase{
	cc("%d %s", ai(5)), cc("%[2]d %[1]d", ai(1), ai(2)), cc("%[3]d", ai(1)), cc("%[2]*[1]d", ai(5), ai(8)), cc("%[1]*d", ai(3), ai(4)),
	cc("%*d", ai(-6), ai(42)), cc("%.*d", ai(-6), ai(42)), cc("%*d", ai(1000001), ai(42)), cc("%", ai(1)), cc("%5", ai(1)), cc("%.", ai(1)),
	cc("%[1]2d", ai(7)), cc("%[1].2d", ai(7)), cc("%.[1]*d", ai(3), ai(7)), cc("%[5]*d", ai(3), ai(7)), cc("%!", ai(1)), cc("%é", ai(1)), cc("%\xff", as("x")),
	cc("%#O %#o %#x %#X %#b", ai(8), ai(8), ai(255), ai(255), ai(5)), cc("%+.64b", ai(math.MinInt64)), cc("%#+64.64O", ai(math.MinInt64)),
	cc("%064d", ai(-1)), cc("%-064d|", ai(-1)), cc("%.0d|%.d|%5.0d|", ai(0), ai(0), ai(0)), cc("%x %X % x %# x %#-12x|", as("hi\xff"), ay("hi"), as("abc"), ay("abc"), as("ab")),
	cc("%q %+q %#q %#+q", as("héllo\n"), as("héllo"), as("raw`"), as("日本")), cc("%q %+q %#q", ai(0x1F600), ai(0x1F600), ai(10)), cc("%U %#U %#.8U %#U", ai(0x1F600), ai(0x1F600), ai(65), ai(0xD800)),
	cc("%c|%5c|%-5c|%05c", ai(65), ai(0x1F600), ai(-1), ai(0xD800)), cc("%t %5t %-7t|%07t", ab(true), ab(false), ab(true), ab(false)),
	cc("%s|%5s|%-5s|%.2s|%05s|%.0s|", as("héllo"), as("é"), as("é"), as("a\xffbc"), as("ab"), as("x")), cc("%s %.1s %x", ay("hi\xff"), ay("\xffé"), ay("")),
	cc("%e %E %f %F %g %G %b", af(123.456), af(1e-7), af(1e21), af(-0.0), af(5e-324), af(1e100), af(1.5)),
	cc("%+f % f %+.0f %#.0f %#g %#.3g %010.2f %-10.2f| %+010f", af(1), af(1), af(2.5), af(2), af(1), af(1e6), af(-3.14159), af(3.14159), af(math.Inf(1))),
	cc("%f %+f % f %010f %-10f|%5.1f", af(math.NaN()), af(math.NaN()), af(math.NaN()), af(math.Inf(-1)), af(math.NaN()), af(math.Inf(1))),
	cc("%#e %#E %#.0e %#G %#.10g %x %X %.3x", af(1), af(100), af(5), af(1e-10), af(123456789), af(1), af(255.5), af(1)),
	cc("%d", as("x")), cc("%s", ai(1)), cc("%t", ai(1)), cc("%d", ay("ab")), cc("%c", ay("ab")),
	// bad verbs (O38) and bytes under the other verbs (O39): width/precision/flags reach the value inside the group, '*', [n], nesting
	cc("%d", as("s")), cc("%8.2d|%-8d|%08d|%+d|%#d|% d", as("héllo"), as("s"), as("s"), as("s"), as("s"), as("s")), cc("%*d|%-*.*d|", ai(6), as("s"), ai(-7), ai(2), as("abc")),
	cc("%s %e %t %q %c %U", ai(1), ai(2), ai(3), af(1.5), af(2.5), as("x")), cc("%d %x %s %q %c", ab(true), ab(false), ab(true), ab(false), ab(true)), cc("%5.1t|%05s|%-6s|", af(1e21), af(math.NaN()), af(-0.0)),
	cc("%[2]*[1]t %[1]s", ai(5), ai(8)), cc("%d", as("%!d(string=x)")), cc("%d %d", as(")"), as("=")), cc("%!d(string=s) %d", as("s")),
	cc("%c|%o|%t|%U|%b|%O|%e|%g", ay("ab"), ay("ab"), ay("ab"), ay("ab"), ay("a"), ay("a"), ay("a"), ay("")), cc("%5c|%-5o|%05b|%+d|%#o|%.2c|%*c", ay("ab"), ay("ab"), ay("ab"), ay("ab"), ay("ab"), ay("ab"), ai(4), ay("ab")),
	cc("%c %d", ay("ab"), as("x")), cc("%d|%c|%[1]s|%[2]d", as("s"), ay("ab")), cc("%5d|%#d|%+.3d", ay("ab"), ay("\x00\xff"), ay("ab")),
	{"%d", []arg{as("s")}, 12}, {"%d", []arg{as("s")}, 11}, {"%d", []arg{as("s")}, 13}, {"%c", []arg{ay("ab")}, 0}, {"%c", []arg{ay("ab")}, 4}, {"%c|%t", []arg{ay("ab"), ai(1)}, 10}, cc("%5.1z", ai(7)), cc("%v %v %v %v %v", ai(1), af(1e21), as("a"), ab(true), ay("hi")),
	cc("%T %T %T %T %T", ai(1), af(1), as("a"), ab(true), ay("hi")), cc("%d", ai(1), ai(2), as("x")), cc("%[1]d", ai(1), ai(2)), cc("%%|%5%|%-5%|%[1]%|%*%", ai(3)),
	cc("%*d", af(3), ai(5)), cc("%*d", as("4"), ai(5)), cc("%.*f", ab(true), af(2.5)), cc("%*d", ay("4"), ai(5)), cc("%*d", af(math.NaN()), ai(5)),
	cc("%10000001d", ai(1)), cc("%1000000d|", ai(1)), cc("%.99999999999d", ai(1)), cc("%[99999999999]d", ai(1)),
	{"%x", []arg{as("abcdefgh")}, 10}, {"%5d", []arg{ai(1)}, 4}, {"%s%s", []arg{as("abc"), as("def")}, 5}, {"abcdef", nil, 3}, {"%c", []arg{ai(0x1F600)}, 3}, {"%-8s", []arg{as("ab")}, 7},
	{"%010.3f", []arg{af(-1.5)}, 9}, {"% x", []arg{ay("abcd")}, 10}, {"%#x", []arg{as("abcd")}, 9}, {"%!(", nil, 2}, {"%z", []arg{ai(1)}, 6}, {"%d", []arg{ai(1), ai(2)}, 12},
}

func fatal(err error) {
	fmt.Fprintln(os.Stderr, "c17:", err)
	os.Exit(3)
}

func main() {
	f := lib.ParseFlags()
	res = lib.NewResult("C17", f)
	thorough = f.Thorough()
	var err error
	drv, err = lib.StartDriver(f.Driver)
	if err != nil {
		fatal(err)
	}
	defer drv.Close()
	res.DriverUsed = drv != nil
	res.Rule = "format strings from the directive grammar (verb x flag subset x width x precision x [n] forms, '*' operands, missing/surplus arguments) and arbitrary byte strings, " +
		"arguments from boundary pools (ints incl. MinInt64 and code-point edges, special floats, non-UTF-8 strings, bools, bytes); a case is non-trivial when it lies inside the equality claim " +
		"(every consumed operand has a documented verb, as observed from Go's fmt; a verb the operand's type is not documented for is inside: Go prints %!verb(type=value) or, for bytes, the element list) and contains a directive; distinct by (format, arguments, MaxStringLen)"

	if f.Replay != "" {
		replay(f.Replay)
		flush()
		runOwnProbes(f.Known)
		lib.RunProbes(res, "C17", f.Known)
		knownLast()
		res.Write(f.Out)
		return
	}
	for _, c := range corpus {
		L := c.L
		if L == 0 {
			L = defLimit
		}
		checkCase(c.f, c.args, L, caseOpts{stream: "corpus", scripts: true})
	}
	gspec(f.Thorough())
	rng := lib.NewRNG(f.Seed)
	n := f.Scale(20000, 600000)
	for i := 0; i < n; i++ {
		r := rng.Fork()
		var fs string
		var args []arg
		stream := "grammar"
		if r.Chance(1, 5) {
			fs, args = genBytes(r)
			stream = "bytes"
		} else {
			fs, args = genGrammar(r)
		}
		checkCase(fs, args, pickLimit(r), caseOpts{stream: stream, scripts: i%f.Scale(8, 40) == 0})
	}
	singles(f.Thorough())
	crossRNG = rng.Fork()
	cross(f.Thorough())
	intbufBoundary(f.Thorough())
	res.Exhaustive = true
	res.Extra = map[string]interface{}{"single_directives": map[bool]string{true: "20 verbs x 32 flag subsets x 6 widths x 6 precisions x 21 arguments", false: "20 verbs x 32 flag subsets x 3 widths x 4 precisions x up to 9 arguments of a documented type"}[f.Thorough()],
		"cross_type_directives": map[bool]string{true: "17 documented verbs x every one of 16 arguments of a type the verb is not documented for x 32 flag subsets x 6 widths x 5 precisions", false: "17 documented verbs x every one of 16 arguments of a type the verb is not documented for x 8 flag sets x 3 widths x 3 precisions"}[f.Thorough()]}
	flush()
	runOwnProbes(f.Known)
	lib.RunProbes(res, "C17", f.Known)
	knownLast()
	res.Write(f.Out)
}

// knownLast moves the violations carrying the two recorded signatures behind all others, so that whoever
// reads only the head of the list (tools/mutant-run prints three) sees the unexplained ones first.
func knownLast() {
	sort.SliceStable(res.Violations, func(i, j int) bool {
		ki := res.Violations[i].Signature == sigBadVerb || res.Violations[i].Signature == sigBytes
		kj := res.Violations[j].Signature == sigBadVerb || res.Violations[j].Signature == sigBytes
		return !ki && kj
	})
}

func replay(path string) {
	b, err := os.ReadFile(path)
	if err != nil {
		fatal(err)
	}
	var rp struct {
		Violations []struct {
			Input json.RawMessage `json:"input"`
		} `json:"violations"`
		Broken [][]string `json:"broken_obligations"`
		Obl    []struct {
			Detail string `json:"detail"`
		} `json:"theorem_or_stream"`
	}
	if err := json.Unmarshal(b, &rp); err != nil {
		fatal(err)
	}
	run := func(raw []byte) {
		var in replayInput
		if json.Unmarshal(raw, &in) != nil || (in.Format == "" && in.Text == "") {
			return
		}
		fb, _ := hex.DecodeString(in.Format)
		var args []arg
		for _, j := range in.Args {
			args = append(args, fromJ(j))
		}
		checkCase(string(fb), args, in.MaxLen, caseOpts{stream: "replay", scripts: true})
	}
	for _, v := range rp.Violations {
		run(v.Input)
	}
	for _, o := range rp.Broken {
		if len(o) == 3 {
			var d struct {
				Input json.RawMessage `json:"input"`
			}
			if json.Unmarshal([]byte(o[2]), &d) == nil {
				run(d.Input)
			}
		}
	}
	for _, o := range rp.Obl {
		var d struct {
			Input json.RawMessage `json:"input"`
		}
		if json.Unmarshal([]byte(o.Detail), &d) == nil {
			run(d.Input)
		}
	}
}

// gspec: the declarative spec G (Lean, Model/FormatSpec) against the real fmt.Sprintf, exhaustively over
// single directives of the families G covers. The directive text is G's own `showDir`.
func gspec(full bool) {
	if drv == nil {
		return
	}
	wids := []string{"-", "1", "7", "64"}
	precs := []string{"-", "0", "1", "7", "64"}
	type ga struct {
		a     arg
		verbs string
	}
	gargs := []ga{}
	for _, n := range []int64{0, 1, -1, 65, 255, -256, 0xD800, 0x1F600, 0x110000, math.MaxInt64, math.MinInt64} {
		gargs = append(gargs, ga{ai(n), "bdoOxXc"})
	}
	for _, s := range []string{"", "abc", "héllo wörld", "a\xffb\x01é", "日本語テキスト"} {
		gargs = append(gargs, ga{as(s), "s"}, ga{ay(s), "s"})
	}
	gargs = append(gargs, ga{ab(true), "t"}, ga{ab(false), "t"})
	if !full {
		wids = []string{"-", "7"}
		precs = []string{"-", "0", "7"}
	}
	var lines []string
	var cases []arg
	for _, g := range gargs {
		for _, v := range []byte(g.verbs) {
			for m := 0; m < 32; m++ {
				for _, w := range wids {
					for _, p := range precs {
						lines = append(lines, lib.L("gfmt", lib.N(m), w, p, lib.N(int(v)), g.a.sexp()))
						cases = append(cases, g.a)
					}
				}
			}
		}
	}
	ans, err := drv.Batch(lines)
	if err != nil {
		fatal(err)
	}
	for i, a := range ans {
		parts := strings.Fields(a)
		if len(parts) != 3 || parts[0] != "ok" {
			res.Disagree(lib.Disagreement{Stream: "gspec", Input: lines[i], Model: a, Impl: "ok #<directive> #<text>"})
			continue
		}
		fb, _ := hex.DecodeString(parts[1][1:])
		gb, _ := hex.DecodeString(parts[2][1:])
		want := goSprintf(string(fb), []arg{cases[i]})
		res.Count("gspec", lines[i], true)
		res.ModelLines++
		if string(gb) != want {
			res.Disagree(lib.Disagreement{Stream: "gspec", Input: map[string]interface{}{"line": lines[i], "format": string(fb)}, Model: strconv.Quote(string(gb)), Impl: strconv.Quote(want)})
		}
	}
}

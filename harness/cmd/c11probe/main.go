package main

import (
	"fmt"
	"time"
	"verifharness/lib"
)

func run(name, src string) {
	g, e, p := lib.RunScript(src, 3*time.Second)
	fmt.Printf("--- %s\n%s\n=> g=%v e=%q p=%q\n", name, src, g, e, p)
}

func main() {
	run("O26 top", "len := 1\nout := len\n")
	run("O26 fn", "out := 0\nf := func() { len := 1; out = len }\nf()\n")
	run("cap-redecl top", "x := 1\ng := func() { y := x; x := 2; return y + x }\nout := g()\n")
	run("cap-redecl fn", "f := func() { x := 1\ng := func() { y := x; x := 2; return y + x }\nreturn g() }\nout := f()\n")
	run("shadow-self fn", "f := func() { x := 1\ng := func() { x := x + 1; return x }\nreturn [g(), x] }\nout := f()\n")
	run("shadow-self top", "x := 1\ng := func() { x := x + 1; return x }\nout := [g(), x]\n")
	run("block shadow top", "x := 1\nif true { x := x + 1; x = 5 }\nout := x\n")
	run("block shadow fn", "f := func() { x := 1\nif true { x := x + 1; x = 5 }\nreturn x }\nout := f()\n")
	run("rec top", "f := func(n) { return n == 0 ? 0 : f(n-1) }\nout := f(3)\n")
	run("rec fn", "h := func() { f := func(n) { return n == 0 ? 0 : f(n-1) }\nreturn f(3) }\nout := h()\n")
	run("self-ref nonfunc top", "a := [func() { return a }]\nout := a[0]()\n")
	run("self-ref nonfunc fn", "h := func() { a := [func() { return a }]\n return a[0]() }\nout := h()\n")
	run("use before def top", "f := func() { return z }\nz := 3\nout := f()\n")
	run("use before def fn", "h := func() { f := func() { return z }\nz := 3\nreturn f() }\nout := h()\n")
	run("loop closure top", "fs := []\nfor i := 0; i < 3; i++ { j := i; fs = append(fs, func() { return j }) }\nout := [fs[0](), fs[1](), fs[2]()]\n")
	run("loop closure fn", "h := func() { fs := []\nfor i := 0; i < 3; i++ { j := i; fs = append(fs, func() { return j }) }\nreturn [fs[0](), fs[1](), fs[2]()] }\nout := h()\n")
}

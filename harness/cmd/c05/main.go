// Command c05: searcher and correspondence for C05 (no script can take the host down through the
// context-aware run path).
//
// A hostile generator (gen.go) produces programs that compile and then misbehave at run time. Every
// program is executed through Compiled.RunContext in a CHILD process (this binary with -child; GOMEMLIMIT,
// bounded Go stack, per-call watchdog), in batches; a batch in which the child died is re-run one program
// per process. After the first call the child calls Get/GetAll/IsDefined/Set and RunContext again on the
// same Compiled.
//
// SEARCHER (Violate): the process dies; a panic escapes RunContext; a call does not return (watchdog);
// Get/Set/RunContext afterwards panic, block, or (deterministic programs) answer differently.
// CORRESPONDENCE (Disagree): for programs whose way of ending is known by construction (ok / run-time error /
// recovered Go panic) the class of the returned value is compared with the protocol model's prediction
// `(sched (fin n class) never)`.
// Known finding O9 (cyclic container + native recursion = Go stack exhaustion, not recoverable) is probed
// in a child of its own and reported through KnownHits; the generator never builds cyclic containers.
package main

import (
	"bufio"
	"bytes"
	"context"
	"encoding/json"
	"errors"
	"flag"
	"fmt"
	"io"
	"os"
	"os/exec"
	"regexp"
	"runtime"
	"runtime/debug"
	"sort"
	"strings"
	"sync"
	"sync/atomic"
	"time"

	"github.com/d5/tengo/v2"
	"verifharness/lib"
)

// hostile is one generated program with what the generator knows about it.
type hostile struct {
	I         int    `json:"i"`
	Family    string `json:"family"`
	Src       string `json:"source"`
	TimeoutMs int    `json:"timeout_ms"`           // context timeout of each RunContext
	MaxAllocs int64  `json:"max_allocs,omitempty"` // 0 = unlimited
	Det       bool   `json:"det,omitempty"`        // outcome is deterministic (no map order, no timing)
	Label     string `json:"label,omitempty"`      // known way of ending: ok | err | panic | ctx
	Clone     bool   `json:"clone,omitempty"`      // also Clone() the object after its runs and run the clone (acyclic globals only: O9)
}

// childResult is what the child reports for one program.
type childResult struct {
	I          int    `json:"i"`
	CompileErr string `json:"compile_err,omitempty"`
	Class1     string `json:"class1,omitempty"` // nil | err | panic | ctx
	Err1       string `json:"err1,omitempty"`
	Class2     string `json:"class2,omitempty"`
	Err2       string `json:"err2,omitempty"`
	Escaped    string `json:"escaped,omitempty"` // "<call>: <panic value>"
	Hang       string `json:"hang,omitempty"`    // call that did not return
	Misbehave  string `json:"misbehave,omitempty"`
	NilLeak    string `json:"nil_leak,omitempty"` // a Go nil Object reachable from a global after the run
	ElapsedMs  int64  `json:"elapsed_ms"`
}

const childCallWatchdog = 20 * time.Second

// ---------------------------------------------------------------- child

func classOf(err error) string {
	switch {
	case err == nil:
		return "nil"
	case errors.Is(err, context.Canceled), errors.Is(err, context.DeadlineExceeded):
		return "ctx"
	case strings.HasPrefix(err.Error(), "Runtime Error:"):
		return "err"
	default:
		return "panic"
	}
}

func errText(err error) string {
	if err == nil {
		return ""
	}
	s := err.Error()
	if len(s) > 300 {
		s = s[:300]
	}
	return s
}

// guarded runs f with recover and the watchdog; escaped = panic value, hung = did not return.
func guarded(f func()) (escaped string, hung bool) {
	done := make(chan string, 1)
	go func() {
		defer func() {
			if p := recover(); p != nil {
				done <- fmt.Sprint(p)
				return
			}
			done <- ""
		}()
		f()
	}()
	select {
	case e := <-done:
		return e, false
	case <-time.After(childCallWatchdog):
		return "", true
	}
}

func hostFuncs(s *tengo.Script) {
	add := func(name string, fn tengo.CallableFunc) {
		_ = s.Add(name, &tengo.UserFunction{Name: name, Value: fn})
	}
	add("hosterr", func(args ...tengo.Object) (tengo.Object, error) { return nil, errors.New("host says no") })
	add("hostnil", func(args ...tengo.Object) (tengo.Object, error) { return nil, nil })
	add("hostwrongargs", func(args ...tengo.Object) (tengo.Object, error) { return nil, tengo.ErrWrongNumArguments })
	add("hostbadtype", func(args ...tengo.Object) (tengo.Object, error) {
		return nil, tengo.ErrInvalidArgumentType{Name: "first", Expected: "int", Found: "string"}
	})
	add("hostpanicval", func(args ...tengo.Object) (tengo.Object, error) { panic(42) })
	add("hostpanicstr", func(args ...tengo.Object) (tengo.Object, error) { panic("host panic %d text") })
	add("hostpanicerr", func(args ...tengo.Object) (tengo.Object, error) { panic(errors.New("host panic error")) })
	add("hostid", func(args ...tengo.Object) (tengo.Object, error) {
		if len(args) == 0 {
			return tengo.UndefinedValue, nil
		}
		return args[0], nil
	})
}

var hostNames = map[string]bool{"hosterr": true, "hostnil": true, "hostwrongargs": true, "hostbadtype": true,
	"hostpanicval": true, "hostpanicstr": true, "hostpanicerr": true, "hostid": true}

func runOne(h hostile) (r childResult, stuck bool) {
	r.I = h.I
	t0 := time.Now()
	defer func() { r.ElapsedMs = time.Since(t0).Milliseconds() }()
	s := tengo.NewScript([]byte(h.Src))
	hostFuncs(s)
	if h.MaxAllocs > 0 {
		s.SetMaxAllocs(h.MaxAllocs)
	}
	var c *tengo.Compiled
	var cerr error
	if esc, hung := guarded(func() { c, cerr = s.Compile() }); esc != "" || hung {
		r.CompileErr = "compiler panic or hang (outside C05): " + esc
		return r, hung
	}
	if cerr != nil {
		r.CompileErr = errText(cerr)
		return r, false
	}
	timeout := time.Duration(h.TimeoutMs) * time.Millisecond
	call := func(name string, background bool) (class, text string, ok bool) {
		var err error
		esc, hung := guarded(func() {
			if background {
				// a context that can never be cancelled (ctx.Done() == nil): the same guarantees hold
				err = c.RunContext(context.Background())
				return
			}
			ctx, cancel := context.WithTimeout(context.Background(), timeout)
			defer cancel()
			err = c.RunContext(ctx)
		})
		if hung {
			r.Hang = name
			return "", "", false
		}
		if esc != "" {
			r.Escaped = name + ": " + esc
			return "", "", false
		}
		return classOf(err), errText(err), true
	}
	var ok bool
	if r.Class1, r.Err1, ok = call("RunContext", false); !ok {
		return r, r.Hang != ""
	}
	// the object must stay usable: Get / GetAll / IsDefined / Set / RunContext
	var names []string
	esc, hung := guarded(func() {
		for _, v := range c.GetAll() {
			names = append(names, v.Name())
			_ = v.ValueType()
			if r.NilLeak == "" {
				r.NilLeak = nilLeak(v.Name(), v.Object(), 0)
			}
		}
		sort.Strings(names)
		for _, n := range names {
			v := c.Get(n)
			if v == nil {
				r.Misbehave = "Get(" + n + ") returned nil"
			}
			_ = c.IsDefined(n)
		}
		_ = c.Get("no_such_variable").Value()
		if err := c.Set("no_such_variable", 1); err == nil {
			r.Misbehave = "Set of an unknown name succeeded"
		}
		for _, n := range names {
			if hostNames[n] {
				continue
			}
			if err := c.Set(n, 5); err != nil {
				r.Misbehave = "Set(" + n + ", 5): " + err.Error()
			} else if got := c.Get(n).Int(); got != 5 {
				r.Misbehave = fmt.Sprintf("Get(%s) after Set(…, 5) = %d", n, got)
			}
			break
		}
	})
	if hung {
		r.Hang = "Get/Set after RunContext"
		return r, true
	}
	if esc != "" {
		r.Escaped = "Get/Set after RunContext: " + esc
		return r, false
	}
	// the second run uses context.Background() when the first one finished by itself in good time
	bg := h.Det && r.Class1 != "ctx" && time.Since(t0) < timeout/2
	if r.Class2, r.Err2, ok = call("second RunContext", bg); !ok {
		return r, r.Hang != ""
	}
	// a context that is already cancelled: the call must still return (with the context's error or the
	// run's own result), whatever the program does
	{
		var err error
		esc, hung := guarded(func() {
			ctx, cancel := context.WithCancel(context.Background())
			cancel()
			err = c.RunContext(ctx)
		})
		_ = err
		if hung {
			r.Hang = "RunContext with an already cancelled context"
			return r, true
		}
		if esc != "" {
			r.Escaped = "RunContext with an already cancelled context: " + esc
			return r, false
		}
	}
	// "remains usable": a Compiled that was run can be cloned and the clone run (the globals now hold whatever the
	// script left there: closures, copies of closures, …)
	if h.Clone {
		var err error
		esc, hung := guarded(func() {
			cl := c.Clone()
			ctx, cancel := context.WithTimeout(context.Background(), timeout)
			defer cancel()
			err = cl.RunContext(ctx)
			for _, v := range cl.GetAll() {
				_ = v.ValueType()
			}
		})
		if hung {
			r.Hang = "Clone after RunContext, RunContext of the clone"
			return r, true
		}
		if esc != "" {
			r.Escaped = "Clone after RunContext: " + esc
			return r, false
		}
		if h.Det && r.Misbehave == "" && r.Class1 != "ctx" && classOf(err) != "ctx" && classOf(err) != r.Class1 {
			r.Misbehave = fmt.Sprintf("RunContext of a clone returned %q, the original %q", errText(err), r.Err1)
		}
	}
	if h.Det && r.Misbehave == "" && r.Class1 != "ctx" && r.Class2 != "ctx" && (r.Class1 != r.Class2 || r.Err1 != r.Err2) {
		r.Misbehave = fmt.Sprintf("second RunContext returned %q, first %q", r.Err2, r.Err1)
	}
	return r, false
}

// nilLeak looks (to a small depth, acyclic or not) for a Go nil stored where a tengo Object is expected.
func nilLeak(path string, o tengo.Object, depth int) string {
	if o == nil {
		return path
	}
	if depth > 3 {
		return ""
	}
	switch v := o.(type) {
	case *tengo.Array:
		for i, e := range v.Value {
			if i > 64 {
				break
			}
			if p := nilLeak(fmt.Sprintf("%s[%d]", path, i), e, depth+1); p != "" {
				return p
			}
		}
	case *tengo.ImmutableArray:
		for i, e := range v.Value {
			if i > 64 {
				break
			}
			if p := nilLeak(fmt.Sprintf("%s[%d]", path, i), e, depth+1); p != "" {
				return p
			}
		}
	case *tengo.Map:
		n := 0
		for k, e := range v.Value {
			if n++; n > 64 {
				break
			}
			if p := nilLeak(path+"."+k, e, depth+1); p != "" {
				return p
			}
		}
	}
	return ""
}

func childMain() {
	debug.SetMaxStack(64 << 20)
	in := bufio.NewReaderSize(os.Stdin, 1<<20)
	out := bufio.NewWriter(os.Stdout)
	for {
		line, err := in.ReadBytes('\n')
		if len(bytes.TrimSpace(line)) > 0 {
			var h hostile
			if json.Unmarshal(line, &h) != nil {
				os.Exit(4)
			}
			fmt.Fprintf(out, "begin %d\n", h.I)
			out.Flush()
			r, stuck := runOne(h)
			b, _ := json.Marshal(r)
			fmt.Fprintf(out, "end %s\n", b)
			out.Flush()
			if stuck {
				os.Exit(5) // a goroutine is stuck in tengo: start over with a clean process
			}
		}
		if err != nil {
			return
		}
	}
}

// ---------------------------------------------------------------- parent

type death struct {
	Prog   hostile
	Stderr string
	Exit   string
}

// runChild feeds progs to one child. It returns the results it got and, when the child ended early, the
// program that was running (nil if the child read everything).
func runChild(progs []hostile) (results []childResult, culprit *hostile, stderrTail, exit string) {
	exe, err := os.Executable()
	if err != nil {
		fatal(err)
	}
	cmd := exec.Command(exe, "-child")
	cmd.Env = append(os.Environ(), "GOMEMLIMIT=256MiB", "GOMAXPROCS=2", "GOTRACEBACK=single")
	var stdin bytes.Buffer
	for _, p := range progs {
		b, _ := json.Marshal(p)
		stdin.Write(b)
		stdin.WriteByte('\n')
	}
	cmd.Stdin = &stdin
	stdout, err := cmd.StdoutPipe()
	if err != nil {
		fatal(err)
	}
	var stderr bytes.Buffer
	cmd.Stderr = &limitedWriter{w: &stderr, n: 1 << 16}
	if err := cmd.Start(); err != nil {
		fatal(err)
	}
	// activity watchdog: the child reports hangs itself after childCallWatchdog; this is the backstop
	lines := make(chan string, 64)
	go func() {
		sc := bufio.NewScanner(stdout)
		sc.Buffer(make([]byte, 1<<20), 1<<24)
		for sc.Scan() {
			lines <- sc.Text()
		}
		close(lines)
	}()
	current := -1
	byI := map[int]hostile{}
	for _, p := range progs {
		byI[p.I] = p
	}
	killed := false
loop:
	for {
		select {
		case l, ok := <-lines:
			if !ok {
				break loop
			}
			if strings.HasPrefix(l, "begin ") {
				fmt.Sscanf(l, "begin %d", &current)
			} else if strings.HasPrefix(l, "end ") {
				var r childResult
				if json.Unmarshal([]byte(l[4:]), &r) == nil {
					results = append(results, r)
					if r.Hang == "" {
						current = -1
					}
				}
			}
		case <-time.After(4 * childCallWatchdog):
			killed = true
			_ = cmd.Process.Kill()
		}
	}
	werr := cmd.Wait()
	exit = "0"
	if werr != nil {
		exit = werr.Error()
	}
	if killed {
		exit = "killed by the parent watchdog (no output for " + (4 * childCallWatchdog).String() + ")"
	}
	if current >= 0 {
		p := byI[current]
		culprit = &p
	}
	return results, culprit, tail(stderr.String(), 3000), exit
}

type limitedWriter struct {
	w io.Writer
	n int
}

func (l *limitedWriter) Write(p []byte) (int, error) {
	if l.n > 0 {
		q := p
		if len(q) > l.n {
			q = q[:l.n]
		}
		l.n -= len(q)
		_, _ = l.w.Write(q)
	}
	return len(p), nil
}

func tail(s string, n int) string {
	if len(s) > n {
		return s[:n]
	}
	return s
}

// runBatch runs a batch; if the child dies, the whole batch is re-run one program per process.
func runBatch(progs []hostile) ([]childResult, []death) {
	if hangsSeen.Load() >= 3 {
		skippedAfterHangs.Add(int64(len(progs)))
		return nil, nil // enough evidence; every further hang costs a full watchdog period
	}
	results, culprit, _, _ := runChild(progs)
	for _, r := range results {
		if r.Hang != "" {
			hangsSeen.Add(1)
		}
	}
	if culprit == nil && len(results) == len(progs) {
		return results, nil
	}
	// the child ended early (death, or exit after a reported hang): one process per program
	have := map[int]bool{}
	var out []childResult
	for _, r := range results {
		if r.Hang != "" || (culprit != nil && r.I == culprit.I) {
			continue
		}
		have[r.I] = true
		out = append(out, r)
	}
	var deaths []death
	for _, p := range progs {
		if have[p.I] {
			continue
		}
		if hangsSeen.Load() >= 3 {
			skippedAfterHangs.Add(1)
			continue
		}
		rs, c, se, ex := runChild([]hostile{p})
		for _, r := range rs {
			if r.Hang != "" {
				hangsSeen.Add(1)
			}
		}
		if c != nil && (len(rs) == 0 || rs[len(rs)-1].Hang == "") {
			deaths = append(deaths, death{Prog: p, Stderr: se, Exit: ex})
			continue
		}
		out = append(out, rs...)
	}
	return out, deaths
}

var (
	reFatal = regexp.MustCompile(`(?m)^(fatal error: .*|panic: .*)$`)
	reSlug  = regexp.MustCompile(`[^a-z]+`)
)

func deathSignature(stderr string) string {
	m := reFatal.FindString(stderr)
	if m == "" {
		return "process-death-without-go-message"
	}
	s := strings.Trim(reSlug.ReplaceAllString(strings.ToLower(m), "-"), "-")
	if len(s) > 70 {
		s = s[:70]
	}
	return "process-death-" + s
}

var (
	hangsSeen         atomic.Int64
	skippedAfterHangs atomic.Int64
	res               *lib.Result
	drv               *lib.Driver
	famMs             = map[string]int64{}
)

func fatal(err error) {
	fmt.Fprintln(os.Stderr, "c05:", err)
	os.Exit(3)
}

type vioInput struct {
	Family    string `json:"family"`
	Source    string `json:"source"`
	MaxAllocs int64  `json:"max_allocs,omitempty"`
	TimeoutMs int    `json:"timeout_ms,omitempty"`
}

func inputOf(p hostile) vioInput {
	return vioInput{Family: p.Family, Source: p.Src, MaxAllocs: p.MaxAllocs, TimeoutMs: p.TimeoutMs}
}

var labelToModel = map[string]string{"ok": "nil", "err": "err", "panic": "panic", "ctx": "ctx"}

func judge(p hostile, r childResult) {
	nontrivial := r.CompileErr == "" && r.Class1 != "nil"
	res.Count("hostile", p.Src, nontrivial)
	res.Dist("family:" + p.Family)
	if r.CompileErr != "" {
		res.Dist("compile-error")
		if strings.HasPrefix(r.CompileErr, "compiler panic") {
			res.Dist("compiler-panic-or-hang(C04)")
		}
		return
	}
	res.Dist("class:" + r.Class1)
	famMs[p.Family] += r.ElapsedMs
	if r.NilLeak != "" {
		res.Dist("observation:go-nil-object-left-in-global")
		if _, ok := res.Extra["nil_object_in_global_example"]; !ok {
			res.Extra["nil_object_in_global_example"] = map[string]string{"source": p.Src, "where": r.NilLeak}
		}
	}
	if r.Class1 == "panic" {
		k := r.Err1
		if i := strings.IndexAny(k, "\n"); i >= 0 {
			k = k[:i]
		}
		if len(k) > 48 {
			k = k[:48]
		}
		res.Dist("recovered:" + regexp.MustCompile(`[0-9]+`).ReplaceAllString(k, "N"))
	}
	in := inputOf(p)
	if r.Hang != "" {
		sig := "runcontext-does-not-return"
		if strings.HasPrefix(r.Hang, "Get/Set") {
			sig = "compiled-blocks-after-run"
		} else if strings.HasPrefix(r.Hang, "second") {
			sig = "second-runcontext-does-not-return"
		}
		res.Violate(lib.Violation{Signature: sig, Stream: "hostile", Input: in, Observed: r.Hang + " did not return within " + childCallWatchdog.String(),
			Expected: "the call returns (context timeout " + fmt.Sprint(p.TimeoutMs) + " ms)", Oracle: "watchdog in the child process"})
		return
	}
	if r.Escaped != "" {
		res.Violate(lib.Violation{Signature: "panic-escapes-" + strings.ReplaceAll(strings.SplitN(r.Escaped, ":", 2)[0], " ", "-"), Stream: "hostile", Input: in, Observed: r.Escaped,
			Expected: "nil or an error value", Oracle: "recover around the call in the child process"})
		return
	}
	if r.Misbehave != "" {
		res.Violate(lib.Violation{Signature: "compiled-misbehaves-after-run", Stream: "hostile", Input: in, Observed: r.Misbehave,
			Expected: "Get/Set/RunContext keep working after any outcome", Oracle: "Get/Set/second RunContext on the same Compiled"})
	}
	if p.Label != "" && drv != nil {
		ans, err := drv.Ask(lib.L("sched", lib.L("fin", "0", map[string]string{"ok": "ok", "err": "err", "panic": "panic", "ctx": "ok"}[p.Label]), "never"))
		if err != nil {
			fatal(err)
		}
		res.ModelLines++
		want := labelToModel[p.Label]
		modelOK := strings.Contains(ans, "("+want+" ") || p.Label == "ctx"
		if p.Label == "ctx" {
			a2, err := drv.Ask(lib.L("sched", "inf", lib.L("at", "3")))
			if err != nil {
				fatal(err)
			}
			res.ModelLines++
			modelOK = strings.Contains(a2, "(ctx ")
		}
		if r.Class1 == "ctx" && p.Label != "ctx" {
			res.Dist("label-inconclusive-timeout")
		} else if !modelOK || r.Class1 != want {
			res.Disagree(lib.Disagreement{Stream: "outcome-class", Input: in, Model: fmt.Sprintf("%s ending is delivered as %s (%s)", p.Label, want, ans),
				Impl: fmt.Sprintf("%s: %s", r.Class1, r.Err1)})
		}
	}
}

func runAll(progs []hostile, batchSize, parallel int) {
	type job struct {
		idx   int
		progs []hostile
	}
	type done struct {
		idx     int
		results []childResult
		deaths  []death
	}
	var jobs []job
	for i := 0; i < len(progs); i += batchSize {
		j := i + batchSize
		if j > len(progs) {
			j = len(progs)
		}
		jobs = append(jobs, job{len(jobs), progs[i:j]})
	}
	outs := make([]done, len(jobs))
	var wg sync.WaitGroup
	sem := make(chan struct{}, parallel)
	for _, j := range jobs {
		wg.Add(1)
		sem <- struct{}{}
		go func(j job) {
			defer wg.Done()
			defer func() { <-sem }()
			r, d := runBatch(j.progs)
			outs[j.idx] = done{j.idx, r, d}
		}(j)
	}
	wg.Wait()
	byI := map[int]hostile{}
	for _, p := range progs {
		byI[p.I] = p
	}
	for _, o := range outs {
		sort.Slice(o.results, func(a, b int) bool { return o.results[a].I < o.results[b].I })
		for _, r := range o.results {
			judge(byI[r.I], r)
		}
		for _, d := range o.deaths {
			res.Count("hostile", d.Prog.Src, true)
			res.Dist("family:" + d.Prog.Family)
			res.Violate(lib.Violation{Signature: deathSignature(d.Stderr), Stream: "hostile", Input: inputOf(d.Prog),
				Observed: "child process died (" + d.Exit + "): " + tail(d.Stderr, 600), Expected: "RunContext returns nil or an error; the host keeps running",
				Oracle: "the program alone in a fresh child process"})
		}
	}
}

// probeO9: the known finding, in a child of its own.
func probeO9(knownPath string) {
	inputs := []string{
		"a := [0]\na[0] = a\nb := a == a\n",
	}
	for _, src := range inputs {
		p := hostile{I: 0, Family: "known-O9", Src: src, TimeoutMs: 3000}
		rs, culprit, se, ex := runChild([]hostile{p})
		res.Count("finding-probe", "O9", true)
		if culprit == nil && len(rs) == 1 {
			continue // no longer kills the process
		}
		known := false
		for _, k := range lib.LoadKnown(knownPath) {
			if k.Property == "C05" && k.ID == "O9" && k.Status == "known" {
				known = true
			}
		}
		if root := os.Getenv("VERIF_ROOT"); root != "" && !known {
			for _, k := range lib.LoadKnown(root + "/known/C05.json") {
				if k.Property == "C05" && k.ID == "O9" && k.Status == "known" {
					known = true
				}
			}
		}
		if known {
			res.KnownHits = append(res.KnownHits, "O9")
			res.Extra["O9"] = "child died (" + ex + "): " + firstLines(se, 2)
			return
		}
		res.Violate(lib.Violation{Signature: "cyclic-container-native-recursion-fatal", Stream: "finding-probe", Input: inputOf(p),
			Observed: "child process died (" + ex + "): " + tail(se, 400), Expected: "RunContext returns an error", Oracle: "the program alone in a fresh child process"})
		return
	}
}

func firstLines(s string, n int) string {
	ls := strings.SplitN(s, "\n", n+1)
	if len(ls) > n {
		ls = ls[:n]
	}
	return strings.Join(ls, " | ")
}

func main() {
	for _, a := range os.Args[1:] {
		if a == "-child" || a == "--child" {
			childMain()
			return
		}
	}
	_ = flag.Bool("child", false, "run as the subprocess that executes programs read from stdin")
	f := lib.ParseFlags()
	res = lib.NewResult("C05", f)
	res.Extra = map[string]interface{}{}
	var err error
	drv, err = lib.StartDriver(f.Driver)
	if err != nil {
		fatal(err)
	}
	defer drv.Close()
	res.DriverUsed = drv != nil
	res.Rule = "programs from the hostile generator (ill-typed operations on all type pairs, division by zero, runaway and mutual recursion, expression nesting and literals around StackSize, recursion depth around MaxFrames, container mutation during for-in, builtin misuse with negative and large capped sizes, large range(), host callables returning errors/nil/panicking, allocation limits, infinite loops under a context timeout) plus type-directed programs with 30% ill-typed operands; each through RunContext, Get/Set, RunContext in a child process; non-trivial when the first call does not return nil; distinct by source"
	if f.Replay != "" {
		replay(f.Replay)
		res.Write(f.Out)
		return
	}
	rng := lib.NewRNG(f.Seed)
	progs := generate(rng, f.Scale(1500, 20000))
	for i := range progs {
		progs[i].I = i
	}
	par := runtime.NumCPU() / 2
	if par < 2 {
		par = 2
	}
	if par > 6 {
		par = 6
	}
	runAll(progs, 60, par)
	repairAndRerun()
	probeO9(f.Known)
	lib.RunProbes(res, "C05", f.Known)
	res.Extra["children_parallel"] = par
	if n := skippedAfterHangs.Load(); n > 0 {
		res.Extra["programs_skipped_after_three_hangs"] = n
		res.Skipped += int(n)
	}
	res.Extra["family_ms"] = famMs
	res.Extra["child_limits"] = "GOMEMLIMIT=256MiB, Go max stack 64 MiB, per-call watchdog " + childCallWatchdog.String()
	res.Write(f.Out)
}

func replay(path string) {
	b, err := os.ReadFile(path)
	if err != nil {
		fatal(err)
	}
	var rp struct {
		Violations []struct {
			Input vioInput `json:"input"`
		} `json:"violations"`
		Obligations []struct {
			Detail string `json:"detail"`
		} `json:"theorem_or_stream"`
	}
	if err := json.Unmarshal(b, &rp); err != nil {
		fatal(err)
	}
	var progs []hostile
	add := func(in vioInput) {
		if in.Source == "" {
			return
		}
		t := in.TimeoutMs
		if t == 0 {
			t = 3000
		}
		progs = append(progs, hostile{I: len(progs), Family: "replay:" + in.Family, Src: in.Source, TimeoutMs: t, MaxAllocs: in.MaxAllocs})
	}
	for _, v := range rp.Violations {
		add(v.Input)
	}
	for _, o := range rp.Obligations {
		var d struct {
			Input vioInput `json:"input"`
		}
		if json.Unmarshal([]byte(o.Detail), &d) == nil {
			add(d.Input)
		}
	}
	runAll(progs, 1, 2)
}

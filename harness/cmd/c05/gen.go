package main

// Hostile program generator for C05. Every program compiles (or is dropped by the child as a compile
// error) and then misbehaves at run time. Two regions are avoided on purpose: cyclic containers (known
// finding O9) and unbounded single allocations (outside the claim): sizes are capped so that one program
// stays far below 256 MB.

import (
	"fmt"
	"strings"

	"verifharness/lib"
)

const (
	stackSize = 2048
	maxFrames = 1024
)

// value literals by type name; none of them is cyclic
var lits = []struct{ ty, src string }{
	{"int", "7"}, {"int0", "0"}, {"intmin", "-9223372036854775807 - 1"}, {"intneg", "-1"}, {"float", "2.5"}, {"float0", "0.0"},
	{"bool", "true"}, {"char", "'x'"}, {"string", `"abc"`}, {"string0", `""`}, {"bytes", `bytes("xyz")`},
	{"array", "[1, 2, 3]"}, {"array0", "[]"}, {"map", "{a: 1, b: 2}"}, {"imm-array", "immutable([1, 2])"},
	{"imm-map", "immutable({a: 1})"}, {"undefined", "undefined"}, {"error", `error("e")`},
	{"func", "func(x) { return x }"}, {"builtin", "len"}, {"host", "hostid"}, {"time", "time(0)"},
	{"nested", "[[1, [2, {k: [3]}]], {m: {n: [4]}}]"},
}

var binOps = []string{"+", "-", "*", "/", "%", "&", "|", "^", "&^", "<<", ">>", "==", "!=", "<", ">", "<=", ">=", "&&", "||"}

type emitter struct {
	r    *lib.RNG
	out  []hostile
	seen map[string]bool
}

func (e *emitter) add(family, src string, opts ...func(*hostile)) {
	if e.seen[src] {
		return
	}
	e.seen[src] = true
	h := hostile{Family: family, Src: src, TimeoutMs: 3000, Det: true}
	for _, o := range opts {
		o(&h)
	}
	e.out = append(e.out, h)
}

func label(l string) func(*hostile)    { return func(h *hostile) { h.Label = l } }
func nondet(h *hostile)                { h.Det = false }
func mayTimeout(h *hostile)            { h.TimeoutMs = 120; h.Det = false }
func maxAllocs(n int64) func(*hostile) { return func(h *hostile) { h.MaxAllocs = n } }

func (e *emitter) lit() string { return lib.Pick(e.r, lits).src }

// ---- families ----

func (e *emitter) illTyped(n int) {
	for i := 0; i < n; i++ {
		a, b := lib.Pick(e.r, lits), lib.Pick(e.r, lits)
		switch e.r.Intn(9) {
		case 0, 1, 2, 3:
			op := lib.Pick(e.r, binOps)
			e.add("ill-typed-binary", fmt.Sprintf("a := %s\nb := %s\nc := a %s b\nd := 1\n", a.src, b.src, op))
		case 4:
			op := lib.Pick(e.r, []string{"+=", "-=", "*=", "/=", "%=", "&=", "|=", "^=", "<<=", ">>=", "&^="})
			e.add("ill-typed-assign-op", fmt.Sprintf("a := %s\nb := %s\na %s b\n", a.src, b.src, op))
		case 5:
			op := lib.Pick(e.r, []string{"-", "!", "^", "+"})
			e.add("ill-typed-unary", fmt.Sprintf("a := %s\nc := %sa\n", a.src, op))
		case 6:
			e.add("ill-typed-index", fmt.Sprintf("a := %s\nb := %s\nc := a[b]\nd := a.x\ne := a[b:]\n", a.src, b.src))
		case 7:
			e.add("ill-typed-index-set", fmt.Sprintf("a := %s\nb := %s\na[b] = 1\na.x = b\n", a.src, b.src))
		default:
			e.add("ill-typed-call", fmt.Sprintf("a := %s\nb := %s\nc := a(b)\nd := a(b, b, b)\ne := a()\n", a.src, b.src))
		}
	}
	// inside functions and closures (frames > 1 when the error is raised)
	for i := 0; i < n/6; i++ {
		a, b := lib.Pick(e.r, lits), lib.Pick(e.r, lits)
		op := lib.Pick(e.r, binOps)
		e.add("ill-typed-in-closure", fmt.Sprintf("x := %s\nf := func(y) { g := func() { return x %s y }; return g() }\nz := f(%s)\n", a.src, op, b.src))
	}
}

func (e *emitter) divZero() {
	for _, num := range []string{"1", "0", "-9223372036854775807 - 1", "'c'", "2.5", "0.0"} {
		for _, den := range []string{"0", "0.0", "-1", "'\\x00'", "false"} {
			for _, op := range []string{"/", "%"} {
				var opts []func(*hostile)
				if (num == "1" || num == "0") && den == "0" {
					opts = append(opts, label("panic"))
				}
				e.add("div-zero", fmt.Sprintf("n := %s\nd := %s\nq := n %s d\nafter := 1\n", num, den, op), opts...)
			}
		}
	}
	e.add("div-zero", "f := func(a) { return 10 / a }\nx := f(0)\n", label("panic"))
	e.add("div-zero", "x := 0\nfor i := 3; i >= 0; i-- { x += 6 / i }\n", label("panic"))
	e.add("div-zero", "a := 5\na /= 0\n", label("panic"))
	e.add("div-zero", "a := 5\na %= 0\n", label("panic"))
}

func (e *emitter) recursion() {
	e.add("runaway-recursion", "f := func(n) { return 1 + f(n + 1) }\nx := f(0)\n")
	e.add("runaway-recursion", "f := func(n) { return [f(n + 1)] }\nx := f(0)\n")
	e.add("runaway-recursion", "f := func(n) { a := 1; b := 2; c := 3; d := [a, b, c]; return f(n + 1) + d[0] }\nx := f(0)\n")
	e.add("frames-exhausted", "f := func() { f(); return 1 }\nx := f()\n")
	e.add("runaway-recursion-closure", "mk := func() { var_f := undefined; var_f = func(n) { return 1 + var_f(n + 1) }; return var_f }\nx := mk()(0)\n")
	e.add("mutual-recursion", "g := undefined\nf := func(n) { return g(n + 1) + 1 }\ng = func(n) { return f(n + 1) + 1 }\nx := f(0)\n")
	e.add("mutual-recursion", "g := undefined\nh := undefined\nf := func(n) { return 1 + g(n) }\ng = func(n) { return 1 + h(n) }\nh = func(n) { return 1 + f(n) }\nx := f(0)\n")
	e.add("mutual-tail-recursion", "g := undefined\nf := func(n) { return g(n + 1) }\ng = func(n) { return f(n + 1) }\nx := f(0)\n")
	// many locals per frame: the 2048-slot stack ends before the 1024 frames do
	for _, locals := range []int{3, 10, 40, 100, 200, 250} {
		var sb strings.Builder
		sb.WriteString("f := func(n) {\n")
		for i := 0; i < locals; i++ {
			fmt.Fprintf(&sb, "  v%d := n + %d\n", i, i)
		}
		fmt.Fprintf(&sb, "  return f(n + 1) + v%d\n}\nx := f(0)\n", locals-1)
		e.add("runaway-recursion-wide-frames", sb.String())
	}
	// varargs and spread in the recursion
	e.add("runaway-recursion-varargs", "f := func(...a) { return 1 + f(a...) }\nx := f(1, 2, 3)\n")
	e.add("runaway-recursion-varargs", "f := func(a, ...b) { return len(b) + f(a, b..., a) }\nx := f(1)\n", mayTimeout)
	// infinite self tail call and loops: only the context ends them
	e.add("infinite-tail-call", "f := func(n) { return f(n + 1) }\nx := f(0)\n", mayTimeout, label("ctx"))
	e.add("infinite-tail-call-stmt", "f := func(n) { f(n + 1) }\nf(0)\n", mayTimeout, label("ctx"))
	e.add("infinite-loop", "for {}\n", mayTimeout, label("ctx"))
	e.add("infinite-loop", "a := 0\nfor true { a++ }\n", mayTimeout, label("ctx"))
	e.add("infinite-loop-alloc", "a := 0\nfor { a = [1, 2, 3] }\n", mayTimeout, label("ctx"))
	e.add("infinite-loop-alloc-limit", "a := 0\nfor { a = [1, 2, 3] }\n", maxAllocs(1000), label("err"))
	e.add("infinite-loop-alloc-limit", "s := \"\"\nfor i := 0; i < 100000; i++ { s = string(i) }\n", maxAllocs(500), label("err"))
}

func (e *emitter) frameBoundary() {
	// one stack slot per frame: the frame limit (MaxFrames, main included) is reached before the stack ends
	for d := maxFrames - 4; d <= maxFrames+3; d++ {
		l := "ok"
		if d >= maxFrames {
			l = "err" // ErrStackOverflow, a returned error (not a Go panic)
		}
		e.add("frame-boundary-slim", fmt.Sprintf("n := 0\nf := func() { n++; if n < %d { f() }; return 0 }\nx := f()\n", d), label(l))
	}
	for d := maxFrames - 4; d <= maxFrames+2; d++ {
		e.add("frame-boundary", fmt.Sprintf("f := func(n) { if n == 0 { return 0 }; return 1 + f(n - 1) }\nx := f(%d)\n", d))
		e.add("frame-boundary-closure", fmt.Sprintf("k := 1\nf := func(n) { if n == 0 { return k }; return k + f(n - 1) }\nx := f(%d)\n", d))
		e.add("frame-boundary-then-error", fmt.Sprintf("f := func(n) { if n == 0 { return 1 / 0 }; return 1 + f(n - 1) }\nx := f(%d)\n", d))
	}
	// a non-tail call at the deepest frame of a tail-recursive descent
	e.add("frame-boundary", fmt.Sprintf("g := func(x) { return x }\nf := func(n) { if n == 0 { return g(1) }; return 1 + f(n - 1) }\nx := f(%d)\n", maxFrames-2))
	e.add("frame-boundary", fmt.Sprintf("g := func(x) { return x }\nf := func(n) { if n == 0 { return g(1) }; return 1 + f(n - 1) }\nx := f(%d)\n", maxFrames-3))
}

func nest(open, close string, d int, core string) string {
	return strings.Repeat(open, d) + core + strings.Repeat(close, d)
}

func (e *emitter) stackBoundary() {
	for _, d := range []int{stackSize - 40, stackSize - 3, stackSize - 2, stackSize - 1, stackSize, stackSize + 1, stackSize + 2, stackSize + 300} {
		// right-nested additions keep every left operand on the stack
		e.add("deep-expression", "x := "+nest("1 + (", ")", d, "1")+"\n")
		// array / call with d elements: all pushed before OpArray / OpCall
		el := strings.TrimSuffix(strings.Repeat("0, ", d), ", ")
		e.add("wide-array-literal", "x := ["+el+"]\n")
		e.add("wide-call", "f := func(...a) { return len(a) }\nx := f("+el+")\n")
		e.add("wide-builtin-call", "x := append([], "+el+")\n")
	}
	for _, d := range []int{100, 500, 1500} {
		e.add("deep-array-nesting", "x := "+nest("[", "]", d, "1")+"\n")
		e.add("deep-ternary", "a := 1\nx := "+nest("a ? (", ") : 0", d, "2")+"\n")
		e.add("deep-call-nesting", "f := func(v) { return v }\nx := "+nest("f(", ")", d, "1")+"\n")
	}
	// deep but acyclic values through the native recursive operations (depth capped)
	for _, d := range []int{50, 2000, 8000} {
		e.add("deep-acyclic-value", fmt.Sprintf("a := []\nfor i := 0; i < %d; i++ { a = [a] }\nb := a == a\ns := len(string(a))\nc := copy(a)\nd := a != c\n", d))
		e.add("deep-acyclic-value", fmt.Sprintf("a := {}\nfor i := 0; i < %d; i++ { a = {k: a} }\nb := a == a\nc := copy(a)\ns := format(\"%%v\", a)\n", d))
		e.add("deep-acyclic-value", fmt.Sprintf("a := error(1)\nfor i := 0; i < %d; i++ { a = error(a) }\nb := a == a\nc := copy(a)\ns := string(a)\n", d))
		e.add("deep-acyclic-value", fmt.Sprintf("a := []\nfor i := 0; i < %d; i++ { a = immutable([a]) }\nb := a == a\n", d))
	}
}

func (e *emitter) iterMutation() {
	mut := []string{
		"a = append(a, v)", "a = append(a, a...)", "splice(a, 0, 1)", "splice(a, 0)", "a[0] = v", "a[len(a) - 1] = [v]",
		"a = []", "a = undefined", "a = 5", "splice(a, 1, 1, 7, 8, 9)", "delete(a, 0)", "a = a[1:]",
	}
	for _, m := range mut {
		e.add("array-mutation-in-for-in", "a := [1, 2, 3, 4, 5]\nn := 0\nfor i, v in a { n++; if n > 50 { break }; "+m+" }\n")
		e.add("array-mutation-in-for-in", "a := [1, 2, 3, 4, 5]\nn := 0\nf := func(v) { "+m+" }\nfor v in a { n++; if n > 50 { break }; f(v) }\n")
	}
	mm := []string{
		"delete(m, k)", "delete(m, \"a\"); delete(m, \"b\"); delete(m, \"c\"); delete(m, \"d\")", "m[k + \"x\"] = v", "m = {}", "m.a = undefined",
		"m[k] = m[k] + 1", "m = undefined", "for k2, v2 in m { delete(m, k2) }",
	}
	for _, m := range mm {
		e.add("map-mutation-in-for-in", "m := {a: 1, b: 2, c: 3, d: 4}\nn := 0\nfor k, v in m { n++; if n > 50 { break }; "+m+" }\nafter := len(string(m))\n", nondet)
		e.add("map-mutation-in-for-in", "m := {a: 1, b: 2, c: 3, d: 4}\nn := 0\nfor k, v in m { n++; if n > 50 { break }; "+m+"; w := v + 1; s := string(v) }\n", nondet)
	}
	// the values an exhausted or emptied iterator hands out, used afterwards
	e.add("map-mutation-in-for-in", "m := {a: 1, b: 2}\nout := []\nfor k, v in m { delete(m, \"a\"); delete(m, \"b\"); out = append(out, v) }\nx := out[0] + 1\ns := string(out)\n", nondet)
	e.add("map-mutation-in-for-in", "m := {a: [1], b: [2]}\nfor k, v in m { delete(m, \"a\"); delete(m, \"b\"); x := v[0] }\n", nondet)
	e.add("map-mutation-in-for-in", "m := {a: 1, b: 2}\nfor k, v in m { delete(m, \"a\"); delete(m, \"b\"); x := is_undefined(v); y := type_name(v); z := v == v }\n", nondet)
	e.add("bytes-string-in-for-in", "b := bytes(\"hello\")\nfor i, c in b { b = bytes(\"\"); x := c + 1 }\n")
	e.add("bytes-string-in-for-in", "s := \"héllo\"\nfor i, c in s { s = s + s; if len(s) > 100000 { break } }\n")
	e.add("for-in-non-iterable", "for x in 5 { y := x }\n", label("err"))
	e.add("for-in-non-iterable", "for k, v in undefined { y := v }\nz := 1\n")
	e.add("for-in-non-iterable", "f := func() {}\nfor k, v in f { y := v }\n")
	e.add("for-in-immutable", "a := immutable([1, 2, 3])\nfor i, v in a { a[i] = v + 1 }\n", label("err"))
	e.add("for-in-immutable", "m := immutable({a: 1})\nfor k, v in m { m[k] = 2 }\n", label("err"))
}

func (e *emitter) builtinMisuse(n int) {
	names := []string{"len", "copy", "append", "delete", "splice", "string", "int", "bool", "float", "char", "bytes", "time",
		"is_int", "is_float", "is_string", "is_bool", "is_char", "is_bytes", "is_array", "is_immutable_array", "is_map",
		"is_immutable_map", "is_iterable", "is_time", "is_error", "is_undefined", "is_function", "is_callable", "type_name",
		"format", "range", "hosterr", "hostnil", "hostwrongargs", "hostbadtype", "hostpanicval", "hostpanicstr", "hostpanicerr"}
	ints := []string{"-1", "0", "1", "-9223372036854775807 - 1", "9223372036854775807", "1 << 24", "65536", "-65536", "3"}
	for i := 0; i < n; i++ {
		fn := lib.Pick(e.r, names)
		k := e.r.Intn(5)
		args := make([]string, k)
		for j := range args {
			if e.r.Chance(1, 3) {
				args[j] = lib.Pick(e.r, ints)
			} else {
				args[j] = e.lit()
			}
		}
		// sizes stay capped: the only builtins that allocate by a numeric argument are bytes(n) and range()
		if fn == "bytes" || fn == "range" || fn == "format" {
			for j := range args {
				if strings.Contains(args[j], "9223372036854775807") {
					args[j] = "1 << 20"
				}
			}
			if fn == "range" && k >= 2 {
				args[0], args[1] = lib.Pick(e.r, []string{"0", "-5", "200000", "7"}), lib.Pick(e.r, []string{"0", "-5", "200000", "7", "-200000"})
			}
		}
		var opts []func(*hostile)
		e.add("builtin-misuse", fmt.Sprintf("x := %s(%s)\ny := 1\n", fn, strings.Join(args, ", ")), opts...)
	}
	for _, s := range []string{
		"x := bytes(-1)\n", "x := bytes(-9223372036854775807 - 1)\n", "x := bytes(1 << 24)\ny := len(x)\n",
		"x := range(0, 200000)\ny := len(x)\n", "x := range(200000, 0)\n", "x := range(0, 10, 0)\n", "x := range(0, 10, -1)\n",
		"x := range(0, 200000, 7)\ns := 0\nfor v in x { s += v }\n", "n := 0\nfor i in range(0, 200000) { n++ }\n",
		"a := [1, 2, 3]\nx := splice(a, -1)\n", "a := [1, 2, 3]\nx := splice(a, 4)\n", "a := [1, 2, 3]\nx := splice(a, 1, -1)\n",
		"a := [1, 2, 3]\nx := splice(a, 1, 9223372036854775807)\n", "a := [1, 2, 3]\nx := splice(a, 3, 0, a, a)\n",
		"a := [1, 2, 3]\nx := a[2:1]\n", "a := [1, 2, 3]\nx := a[-1:]\n", "a := [1, 2, 3]\nx := a[:99]\n", "a := \"abc\"\nx := a[2:1]\n",
		"a := bytes(\"abc\")\nx := a[9:]\n", "a := [1, 2, 3]\nx := a[\"k\":]\n", "a := [1, 2, 3]\nx := a[1.5]\n", "a := [1, 2, 3]\na[5] = 1\n", "a := [1, 2, 3]\na[-1] = 1\n",
		"x := format(\"%d %s\", 1)\n", "x := format(\"%!\", 1)\n", "x := format(\"%100000d\", 1)\ny := len(x)\n", "x := format(\"%.100000f\", 1.5)\ny := len(x)\n",
		"x := format(\"%*d\", 1000, 1)\n", "x := format(\"%v %v %v\", [1], {a: 1}, error(2))\n", "x := format(5)\n", "x := format(\"%[5]d\", 1)\n", "x := format(\"%[-1]d\", 1)\n",
		"x := int(\"zzz\")\ny := x + 1\n", "x := char(-5)\n", "x := char(1114112)\ny := string(x)\n", "x := time(\"x\")\n", "x := string(undefined) + 1\n",
		"x := delete({}, 5)\n", "x := delete(immutable({a: 1}), \"a\")\n", "x := append(immutable([1]), 2)\nx[0] = 9\n", "x := copy(len)\ny := x(\"ab\")\n",
		"x := hosterr()\ny := 1\n", "x := hostnil()\ny := is_undefined(x)\n", "x := hostwrongargs(1)\n", "x := hostbadtype(1)\n",
		"f := func() { return hosterr() }\nx := f()\n", "x := [hostnil(), hostnil()][1].a.b\n",
		"e := error(\"x\")\ny := e.value\nz := e.nope\nw := e()\n", "u := undefined\nx := u.a.b.c\ny := u[1][2]\nz := u()\n",
		"f := func(a, b) { return a }\nx := f(1)\n", "f := func(a, b) { return a }\nx := f(1, 2, 3)\n", "f := func(a, ...b) { return b }\nx := f()\n",
		"f := func(a) { return a }\nx := f([1, 2]...)\n", "f := func(...a) { return a }\nx := f(5...)\n", "f := func(...a) { return a }\nx := f({}...)\n",
		"x := len(1, 2)\n", "x := \"abc\".x\n", "x := 5.x\n", "x := 'a'[0]\n", "m := {}\nm[[1]] = 1\n", "m := {}\nx := m[{}]\n", "s := \"abc\"\ns[0] = 'x'\n",
		"a := immutable([1, [2]])\na[1][0] = 5\nb := a[1][0]\na[0] = 1\n", "x := 1 << 64\ny := 1 << -1\nz := 1 >> 9999\n", "x := 1 << 63 - 1 + 1\n",
		"x := \"a\" * 3\n", "x := [1] * 3\n", "x := [1] - [1]\n", "x := {} + {}\n", "x := true + true\n", "x := 'a' + 'b' + \"c\" + 1 + 2.5\n",
	} {
		e.add("builtin-misuse", s)
	}
	// short ranges whose next element would pass the int64 bounds (O31: the loop wrapped around and never ended)
	for _, s := range []string{
		"x := range(9223372036854775800, 9223372036854775807, 5)\nn := len(x)\n",
		"x := range(9223372036854775806, 9223372036854775807)\nn := len(x)\n",
		"x := range(-9223372036854775800, -9223372036854775807 - 1, 5)\nn := len(x)\n",
		"x := range(9223372036854775807, 9223372036854775800, 3)\nn := len(x)\n",
		"x := range(0, 9223372036854775807, 4611686018427387904)\nn := len(x)\n",
		"x := range(-9223372036854775807 - 1, 9223372036854775807, 9223372036854775807)\nn := len(x)\n",
		"x := range(9223372036854775807, -9223372036854775807 - 1, 9223372036854775807)\nn := len(x)\n",
	} {
		e.add("range-near-int64-bounds", s, label("ok"))
	}
	e.add("host-panic", "x := hostpanicval()\n", label("panic"))
	e.add("host-panic", "x := hostpanicstr()\n", label("panic"))
	e.add("host-panic", "x := hostpanicerr()\n", label("panic"))
	e.add("host-panic", "f := func() { return [hostpanicstr()] }\nfor i := 0; i < 3; i++ { x := f() }\n", label("panic"))
	e.add("bytes-negative", "n := -1\nb := bytes(n)\n", label("panic"))
	e.add("ok-program", "a := 1\nb := [a, 2]\nc := len(b)\n", label("ok"))
	e.add("type-error", "a := 1\nb := a + {}\n", label("err"))
	e.add("alloc-limit", "a := []\nfor i := 0; i < 10000; i++ { a = append(a, [i]) }\n", maxAllocs(50), label("err"))
	// bounded growth
	e.add("bounded-growth", "s := \"ab\"\nfor i := 0; i < 18; i++ { s += s }\nn := len(s)\n")
	e.add("bounded-growth", "a := [1]\nfor i := 0; i < 18; i++ { a = append(a, a...) }\nn := len(a)\n")
	e.add("bounded-growth", "b := bytes(\"ab\")\nfor i := 0; i < 18; i++ { b += b }\nn := len(b)\n")
	e.add("bounded-growth", "m := {}\nfor i := 0; i < 20000; i++ { m[string(i)] = i }\nn := len(m)\n")
}

func (e *emitter) chaos(n int) {
	for i := 0; i < n; i++ {
		r := e.r.Fork()
		p := lib.DefaultProfile()
		p.Chaos = 300
		p.MaxStmts = 6 + r.Intn(12)
		p.MaxDepth = 2 + r.Intn(2)
		g := lib.NewGen(r, p)
		e.add("typed-generator-chaos", g.Program(), nondet)
	}
}

// cyclicSafe: self-containing containers used only through operations that are meant to cope with
// them (freeze memoises, len / type tests / indexing / iteration do not recurse). Equality, string
// conversion, copy and formatting of cyclic values are the known finding O9 and stay excluded.
func (e *emitter) cyclicSafe() {
	for _, src := range []string{
		"a := [1]\na[0] = a\nb := freeze(a)\nn := len(b)\nt := is_immutable_array(b)\n",
		"m := {k: 1}\nm.self = m\nf := freeze(m)\nn := len(f)\nt := is_immutable_map(f.self)\n",
		"m := {}\nm.a = [m]\nf := freeze(m)\nx := is_immutable_array(f.a)\n",
		"a := [0, [1]]\na[1][0] = a\nf := freeze(a)\nn := len(f[1])\n",
		"a := [0]\na[0] = a\nn := len(a)\nt := type_name(a)\nx := a[0][0][0]\nc := is_array(a[0])\nk := 0\nfor v in a { k += len(v) }\n",
		"m := {k: 1}\nm.m = m\ndelete(m, \"k\")\nn := len(m)\nk := 0\nfor key, v in m { k += len(key) }\n",
		"a := [0]\na[0] = a\nb := immutable(a)\nn := len(b[0])\ne := error(a)\nt := is_error(e)\n",
		"a := [0]\na[0] = a\nb := append(a, 1)\nc := a[0:1]\nn := len(b) + len(c)\nsplice(a, 0, 0, 5)\n",
	} {
		e.add("cyclic-safe-ops", src)
	}
}

// generate returns about n programs (the fixed boundary families always; the random families fill up).
func generate(rng *lib.RNG, n int) []hostile {
	e := &emitter{r: rng, seen: map[string]bool{}}
	e.divZero()
	e.recursion()
	e.frameBoundary()
	e.stackBoundary()
	e.iterMutation()
	e.builtinMisuse(0)
	e.cyclicSafe()
	e.closureCopies()
	fixed := len(e.out)
	rest := n - fixed
	if rest < 300 {
		rest = 300
	}
	e.illTyped(rest * 45 / 100)
	e.builtinMisuse(rest * 30 / 100)
	e.chaos(rest * 25 / 100)
	// shuffle so that slow programs spread over the batches (deterministic in the seed)
	for i := len(e.out) - 1; i > 0; i-- {
		j := rng.Intn(i + 1)
		e.out[i], e.out[j] = e.out[j], e.out[i]
	}
	return e.out
}

// closureCopies (round 10, seeded change C05-m13: Copy of a closure copies its captured cells, a closure that captures
// itself then recurses natively without end): copy() and Clone() of closures whose cells lead back to the closure —
// a local recursive function, mutually recursive locals, a map holding a closure that captures the map — and of
// containers of such closures. On the unchanged tree copies share the cells, so nothing here recurses natively.
func withClone(h *hostile) { h.Clone = true }

func (e *emitter) closureCopies() {
	progs := []string{
		"mk := func() {\n\tfact := func(n) { return n <= 1 ? 1 : n * fact(n-1) }\n\treturn fact\n}\nf := mk()\ng := copy(f)\nout := g(5)\n",
		"mk := func() {\n\tfact := func(n) { return n <= 1 ? 1 : n * fact(n-1) }\n\treturn fact\n}\nf := mk()\nout := f(5)\n",
		"mk := func() {\n\tev := undefined\n\tod := func(n) { return n == 0 ? false : ev(n-1) }\n\tev = func(n) { return n == 0 ? true : od(n-1) }\n\treturn [ev, od]\n}\np := mk()\nq := copy(p)\nout := [q[0](10), q[1](7), p[0](3)]\n",
		"mk := func() {\n\tm := {n: 0}\n\tm.f = func() { m.n += 1; return m.n }\n\treturn m.f\n}\nf := mk()\ng := copy(f)\nout := [f(), g(), f()]\n",
		"mk := func() {\n\tc := 0\n\tinc := func() { c += 1; return c }\n\tget := func() { return [c, inc] }\n\treturn {inc: inc, get: get}\n}\no := mk()\no2 := copy(o)\nimm := immutable(o)\nfr := copy(imm)\nout := [o.inc(), o2.inc(), fr.get()[0]]\n",
		"loop := func() {\n\tfs := []\n\tfor i := 0; i < 4; i++ {\n\t\tg := func(n) { return n == 0 ? i : g(n-1) }\n\t\tfs = append(fs, g)\n\t}\n\treturn fs\n}\nfs := loop()\ncs := copy(fs)\nout := [cs[0](3), cs[3](2), fs[1](1)]\n",
		"mk := func(d) {\n\tw := func(n) { return n == 0 ? d : w(n-1) }\n\treturn d == 0 ? w : [w, mk(d-1)]\n}\nt := mk(5)\nu := copy(t)\ne := error(t)\nv := copy(e)\nout := u[0](2)\n",
	}
	for _, p := range progs {
		e.add("closure-copy", p, label("ok"), withClone)
	}
}

package main

import (
	"context"
	"fmt"
	"time"

	"github.com/d5/tengo/v2"
	"verifharness/lib"
)

// repairAndRerun: "the compiled object remains usable for further Get/Set/Run calls" — a script whose failure
// depends on an input variable is run with a bad input (it fails with an error VALUE, not a recovered panic),
// the host sets a good input and runs the SAME Compiled again: that run must succeed with the expected result;
// then bad again (must fail again), good again, and the same on a clone. Added after seeded change C05-m9 (a VM
// kept across runs whose stored run-time error was never cleared: every later run returned the old error) —
// the hostile-program stream re-runs the same failing program, which fails again anyway.
func repairAndRerun() {
	type tc struct {
		name, src, varName string
		bad, good          interface{}
		want               string
	}
	cases := []tc{
		{"ill-typed-division", "out := 100 / x\n", "x", "five", 5, "20"},
		{"ill-typed-addition-in-function", "f := func(a) { return a + 1 }\nout := f(x)\n", "x", map[string]interface{}{"k": 1}, 41, "42"},
		{"invalid-index-type", "a := [10, 20, 30]\nout := a[x]\n", "x", "k", 1, "20"},
		{"not-callable", "out := x(3)\n", "x", 7, &tengo.UserFunction{Name: "dbl", Value: func(args ...tengo.Object) (tengo.Object, error) {
			v, _ := tengo.ToInt64(args[0])
			return &tengo.Int{Value: v * 2}, nil
		}}, "6"},
		{"not-iterable", "out := 0\nfor v in x { out += v }\n", "x", 5, []interface{}{1, 2, 3}, "6"},
		{"selector-assign-on-int", "x.k = 1\nout := x.k\n", "x", 3, map[string]interface{}{}, "1"},
		{"wrong-argument-count", "f := func(a, b) { return a + b }\nout := x ? f(1, 2) : f(1)\n", "x", false, true, "3"},
		{"host-function-error", "out := x()\n", "x", &tengo.UserFunction{Name: "bad", Value: func(args ...tengo.Object) (tengo.Object, error) {
			return nil, fmt.Errorf("host says no")
		}}, &tengo.UserFunction{Name: "ok", Value: func(args ...tengo.Object) (tengo.Object, error) { return &tengo.Int{Value: 9}, nil }}, "9"},
		{"error-after-partial-globals", "a := 1\nb := a + x\nout := b * 2\n", "x", "s", 4, "10"},
	}
	for _, c := range cases {
		esc, hung := guarded(func() {
			s := tengo.NewScript([]byte(c.src))
			if err := s.Add(c.varName, c.bad); err != nil {
				return
			}
			cp, err := s.Compile()
			if err != nil {
				return
			}
			run := func(obj *tengo.Compiled) error {
				ctx, cancel := context.WithTimeout(context.Background(), 3*time.Second)
				defer cancel()
				return obj.RunContext(ctx)
			}
			check := func(obj *tengo.Compiled, who string, step int, v interface{}, wantOK bool) bool {
				if err := obj.Set(c.varName, v); err != nil {
					res.Violate(lib.Violation{Signature: "set-fails-after-a-failed-run", Stream: "rerun", Input: map[string]interface{}{"case": c.name, "source": c.src, "step": step, "object": who},
						Observed: err.Error(), Expected: "Set of a declared variable succeeds", Oracle: "Compiled stays usable after a failed run"})
					return false
				}
				err := run(obj)
				res.Count("rerun", fmt.Sprintf("%s/%s/%d", c.name, who, step), true)
				got := ""
				if err == nil {
					got = fmt.Sprint(obj.Get("out").Value())
				}
				switch {
				case wantOK && err != nil:
					res.Violate(lib.Violation{Signature: "run-after-a-failed-run-returns-an-error", Stream: "rerun", Input: map[string]interface{}{"case": c.name, "source": c.src, "step": step, "object": who},
						Observed: err.Error(), Expected: "nil; out = " + c.want, Oracle: "after the host repaired the input the same Compiled runs correctly"})
					return false
				case wantOK && got != c.want:
					res.Violate(lib.Violation{Signature: "run-after-a-failed-run-wrong-result", Stream: "rerun", Input: map[string]interface{}{"case": c.name, "source": c.src, "step": step, "object": who},
						Observed: "out = " + got, Expected: "out = " + c.want, Oracle: "after the host repaired the input the same Compiled runs correctly"})
					return false
				case !wantOK && err == nil:
					res.Violate(lib.Violation{Signature: "failing-input-no-longer-fails", Stream: "rerun", Input: map[string]interface{}{"case": c.name, "source": c.src, "step": step, "object": who},
						Observed: "nil; out = " + got, Expected: "a run-time error", Oracle: "the bad input fails every time"})
					return false
				}
				return true
			}
			steps := []bool{false, true, true, false, true}
			for i, ok := range steps {
				v := c.bad
				if ok {
					v = c.good
				}
				if !check(cp, "original", i, v, ok) {
					return
				}
			}
			// a clone taken after a failed run behaves the same
			_ = cp.Set(c.varName, c.bad)
			_ = run(cp)
			cl := cp.Clone()
			for i, ok := range []bool{true, false, true} {
				v := c.bad
				if ok {
					v = c.good
				}
				if !check(cl, "clone", i, v, ok) {
					return
				}
			}
		})
		if hung {
			res.Violate(lib.Violation{Signature: "does-not-return", Stream: "rerun", Input: map[string]interface{}{"case": c.name, "source": c.src}, Observed: "hung", Expected: "returns", Oracle: "guard"})
		}
		if esc != "" {
			res.Violate(lib.Violation{Signature: "panic-escapes", Stream: "rerun", Input: map[string]interface{}{"case": c.name, "source": c.src}, Observed: esc, Expected: "nil or error", Oracle: "recover"})
		}
	}
}

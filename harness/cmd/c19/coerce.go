package main

// ROUND 8: the DOCUMENTED coercions, written from docs/runtime-types.md ("Type Conversion/Coercion Table") and from
// nothing else: no tengo.ToInt / ToInt64 / ToFloat64 / ToString / ToByteSlice / ToTime is called here. They are the
// reference of two additional comparisons:
//
//	coerce       (searcher) every function entry of refs.go, every base tuple, every parameter position: the argument is
//	             replaced by a value of ANOTHER type / another spelling from a pool of boundary forms ("010", "08", "0x10",
//	             "1_0", "+5", " 7", "1e3", "0x1p4", "inf", 2.5, true, 'a', …) plus spellings derived from the base value
//	             itself ("0"+decimal, "+"+decimal, hex / octal / binary literal forms, 'e' / hex-float forms). If the table
//	             converts it, the call must return what the Go function returns on the converted value; if the table has
//	             no conversion (String -> Int that strconv.ParseInt(s, 10, 64) refuses, Bool -> Float, String -> Time, …)
//	             the call must be rejected with a run-time error.
//	adapter-doc  every case of the adapter stream (all 44 stdlib.FuncAxxRyy x the sample values) is decided a second time
//	             without the Lean model: the digest the probe function recorded must be the digest of the documented
//	             conversions of the arguments; a non-convertible argument / a wrong count must be rejected.
//
// Both report property violations with the concrete call (signatures differ from every known finding).

import (
	"fmt"
	"math"
	"reflect"
	"strconv"
	"strings"
	"time"

	"github.com/d5/tengo/v2"
	"verifharness/lib"
)

// ---- the table ----

// docInt: "-" for Int, "strconv" for String (decimal: strconv.ParseInt(s, 10, 64)), int64(f) for Float, 1 / 0 for
// Bool, int64(c) for Char, X otherwise.
func docInt(o tengo.Object) (int64, bool) {
	switch v := o.(type) {
	case *tengo.Int:
		return v.Value, true
	case *tengo.String:
		n, err := strconv.ParseInt(v.Value, 10, 64)
		return n, err == nil
	case *tengo.Float:
		return int64(v.Value), true
	case *tengo.Bool:
		if v.IsFalsy() {
			return 0, true
		}
		return 1, true
	case *tengo.Char:
		return int64(v.Value), true
	}
	return 0, false
}

// docFloat: float64(v) for Int, "strconv" for String (strconv.ParseFloat(s, 64)), "-" for Float, X otherwise
// (Bool and Char have NO conversion to Float).
func docFloat(o tengo.Object) (float64, bool) {
	switch v := o.(type) {
	case *tengo.Float:
		return v.Value, true
	case *tengo.Int:
		return float64(v.Value), true
	case *tengo.String:
		f, err := strconv.ParseFloat(v.Value, 64)
		return f, err == nil
	}
	return 0, false
}

// docString: strconv for Int and Float, "true" / "false", string(c), string(y); Undefined X. The compound types
// ("[...]", "{...}", String(), "error: ...") are left undecided by this oracle (decided = false).
func docString(o tengo.Object) (s string, conv, decided bool) {
	switch v := o.(type) {
	case *tengo.String:
		return v.Value, true, true
	case *tengo.Int:
		return strconv.FormatInt(v.Value, 10), true, true
	case *tengo.Float:
		return strconv.FormatFloat(v.Value, 'f', -1, 64), true, true
	case *tengo.Bool:
		if v.IsFalsy() {
			return "false", true, true
		}
		return "true", true, true
	case *tengo.Char:
		return string(v.Value), true, true
	case *tengo.Bytes:
		return string(v.Value), true, true
	case *tengo.Undefined:
		return "", false, true
	}
	return "", false, false
}

// docBytes: []byte(s) for String, "-" for Bytes, X otherwise.
func docBytes(o tengo.Object) ([]byte, bool) {
	switch v := o.(type) {
	case *tengo.Bytes:
		return append([]byte{}, v.Value...), true
	case *tengo.String:
		return []byte(v.Value), true
	}
	return nil, false
}

// docTime: time.Unix(v, 0) for Int, "-" for Time, X otherwise.
func docTime(o tengo.Object) (time.Time, bool) {
	switch v := o.(type) {
	case *tengo.Time:
		return v.Value, true
	case *tengo.Int:
		return time.Unix(v.Value, 0), true
	}
	return time.Time{}, false
}

// docStrings: an Array / ImmutableArray whose elements all convert to String.
func docStrings(o tengo.Object) (xs []string, conv, decided bool) {
	var elems []tengo.Object
	switch v := o.(type) {
	case *tengo.Array:
		elems = v.Value
	case *tengo.ImmutableArray:
		elems = v.Value
	default:
		return nil, false, true
	}
	xs = []string{}
	for _, el := range elems {
		s, c, d := docString(el)
		if !d {
			return nil, false, false
		}
		if !c {
			return nil, false, true
		}
		xs = append(xs, s)
	}
	return xs, true, true
}

// docCoerce: the Go value (in the representation refs.go uses) a parameter of the given kind receives.
func docCoerce(kind byte, o tengo.Object) (v interface{}, conv, decided bool) {
	switch kind {
	case 'I':
		n, ok := docInt(o)
		return n, ok, true
	case 'F':
		f, ok := docFloat(o)
		return f, ok, true
	case 'S', 'P', 'R', 'Q':
		return docString(o)
	case 'Y':
		b, ok := docBytes(o)
		return b, ok, true
	case 'T':
		t, ok := docTime(o)
		return t, ok, true
	case 'A':
		return docStrings(o)
	}
	return nil, false, false
}

// ---- pools ----

func sObj(s string) tengo.Object  { return &tengo.String{Value: s} }
func iObj(n int64) tengo.Object   { return &tengo.Int{Value: n} }
func fObj(f float64) tengo.Object { return &tengo.Float{Value: f} }
func cObj(c rune) tengo.Object    { return &tengo.Char{Value: c} }
func yObj(s string) tengo.Object  { return &tengo.Bytes{Value: []byte(s)} }

func sObjs(ss ...string) []tengo.Object {
	out := make([]tengo.Object, len(ss))
	for i, s := range ss {
		out[i] = sObj(s)
	}
	return out
}

// spellings of integers: decimal with leading zeros / signs (convertible, decimal value), literal forms of the
// script language and of strconv's base 0 (not convertible), blanks, float spellings, 64- and 32-bit borders
var intTexts = []string{"010", "08", "09", "017", "00", "-010", "+010", "007", "+5", "-0", "+0", "-3", "12", "64", "064", "016", "0100",
	"0x10", "0X1f", "0x0A", "0x2", "0b11", "0B1", "0o17", "0O7", "1_0", "0_7", "1_000", "0x_1", "0x", "0b", "0o",
	" 7", "7 ", "7\n", "\t7", "1e3", "1E1", "1.0", "2.5", "7.", ".7", "1,000", "٣", "１２", "--1", "+-1", "1-", "0-1",
	"9223372036854775807", "9223372036854775808", "-9223372036854775808", "-9223372036854775809", "2147483647", "2147483648", "-2147483649", "4294967296",
	"", "-", "+", "abc", "true", "7f", "ff", "inf", "nan", "\x00", "1\x00"}

var floatTexts = []string{"010", "08", "007.50", "+5", "-0", "-0.0", "+0", "1e3", "1E3", "1e+3", "1e-3", ".5", "5.", "-.5", "0.1", "2.5", "12",
	"0x10", "0x1p4", "0X1P-2", "0x1.8p1", "0x1.8", "0x_1p0", "1_0.5", "1_0", "1__0", "_1", "1_", "0b11", "0o17",
	"inf", "Inf", "-Inf", "+Infinity", "infinity", "INF", "nan", "NaN", "+nan", "-nan", "in", "infinit",
	" 7", "7 ", "7\n", "1e", "e3", ".", "", "-", "+", "1,5", "1.5.2", "1f", "1d", "abc", "true", "٣", "\x00",
	"1e400", "-1e400", "1e-400", "1.7976931348623157e308", "1.7976931348623159e308", "4.9e-324", "2e-324", "3.4028236e38", "16777217",
	"9223372036854775807", "9223372036854775808", "0.1000000000000000055511151231257827", "179769313486231570000000000000000000000"}

var intPool, floatPool, strPool, bytesPool, timePool, arrPool []tengo.Object

func coercePool(kind byte) []tengo.Object {
	if intPool == nil {
		intPool = append(sObjs(intTexts...),
			fObj(2.5), fObj(-2.5), fObj(7.99), fObj(-0.99), fObj(math.Copysign(0, -1)), fObj(1e18), fObj(8), fObj(10),
			tengo.TrueValue, tengo.FalseValue, cObj('0'), cObj(3), cObj('a'), cObj(0), iObj(10), iObj(-1),
			yObj("7"), yObj("010"), tengo.UndefinedValue, &tengo.Time{Value: time.Unix(5, 0).UTC()})
		floatPool = append(sObjs(floatTexts...),
			iObj(3), iObj(-7), iObj(0), iObj(math.MaxInt64), iObj(math.MinInt64), iObj(1<<53+1), iObj(10),
			tengo.TrueValue, tengo.FalseValue, cObj('1'), cObj(0), yObj("1.5"), tengo.UndefinedValue)
		strPool = []tengo.Object{iObj(12), iObj(-7), iObj(0), iObj(math.MinInt64), fObj(2.5), fObj(100), fObj(1e21), fObj(1e-7), fObj(math.NaN()),
			fObj(math.Inf(-1)), fObj(math.Copysign(0, -1)), tengo.TrueValue, tengo.FalseValue, cObj('x'), cObj(0x4e16), cObj(0), cObj(0xD800),
			yObj("ab"), yObj("\xff,"), yObj(""), tengo.UndefinedValue}
		bytesPool = []tengo.Object{sObj("hi"), sObj(""), sObj("\xfb\xff"), sObj("6869"), yObj("aGk="), cObj('a'), iObj(104), tengo.UndefinedValue}
		timePool = []tengo.Object{iObj(0), iObj(5), iObj(1600000000), iObj(-1), sObj("5"), sObj("1600000000"), sObj("2021-03-09"), cObj('5'), fObj(5),
			tengo.TrueValue, yObj("5"), tengo.UndefinedValue}
		mixed := []tengo.Object{iObj(1), cObj('a'), fObj(2.5), yObj("q"), tengo.TrueValue, sObj("z")}
		arrPool = []tengo.Object{&tengo.Array{Value: mixed}, &tengo.ImmutableArray{Value: mixed}, &tengo.Array{Value: []tengo.Object{}},
			&tengo.Array{Value: []tengo.Object{iObj(1), tengo.UndefinedValue}}, &tengo.ImmutableArray{Value: []tengo.Object{tengo.UndefinedValue}},
			sObj("ab"), yObj("ab"), tengo.UndefinedValue}
	}
	switch kind {
	case 'I':
		return intPool
	case 'F':
		return floatPool
	case 'S', 'P', 'R', 'Q':
		return strPool
	case 'Y':
		return bytesPool
	case 'T':
		return timePool
	case 'A':
		return arrPool
	}
	return nil
}

// derivedForms: other spellings of the base tuple's own value (so that the converted tuple stays inside the entry's
// domain): decimal with leading zeros and signs must convert to the same value; the literal forms of the script
// language (hex / octal / binary / underscore) are not decimal integers and must be rejected.
func derivedForms(kind byte, g interface{}) []tengo.Object {
	switch kind {
	case 'I':
		n, ok := g.(int64)
		if !ok {
			return nil
		}
		dec := strconv.FormatInt(n, 10)
		var out []string
		if n >= 0 {
			out = append(out, "0"+dec, "00"+dec, "+"+dec, "+0"+dec, "0x"+strconv.FormatInt(n, 16), "0o"+strconv.FormatInt(n, 8), "0b"+strconv.FormatInt(n, 2),
				dec+".0", dec+"e0", " "+dec, dec+" ")
			if n >= 10 {
				out = append(out, dec[:1]+"_"+dec[1:])
			}
		} else {
			out = append(out, "-0"+dec[1:], "-00"+dec[1:], "-0x"+strconv.FormatUint(uint64(-n), 16), dec+".0", " "+dec)
		}
		objs := sObjs(out...)
		if n > -(1<<40) && n < 1<<40 {
			objs = append(objs, fObj(float64(n)), fObj(float64(n)+0.5*sign(n)))
		}
		if n >= 0 && n <= 0x10FFFF {
			objs = append(objs, cObj(rune(n)))
		}
		return objs
	case 'F':
		f, ok := g.(float64)
		if !ok || f != f {
			return nil
		}
		out := []string{strconv.FormatFloat(f, 'e', -1, 64), strconv.FormatFloat(f, 'x', -1, 64), strconv.FormatFloat(f, 'g', -1, 64)}
		if !math.IsInf(f, 0) && math.Abs(f) < 1e15 {
			d := strconv.FormatFloat(f, 'f', -1, 64)
			if !math.Signbit(f) {
				out = append(out, "0"+d, "+"+d, "00"+d, " "+d, d+" ")
				if len(d) >= 2 && d[1] != '.' && d[0] != '.' {
					out = append(out, d[:1]+"_"+d[1:])
				}
			} else {
				out = append(out, "-0"+d[1:])
			}
			if f == math.Trunc(f) {
				out = append(out, "0x"+strconv.FormatInt(int64(f), 16), "0b"+strconv.FormatInt(int64(f), 2))
			}
		}
		return sObjs(out...)
	}
	return nil
}

// extra base tuples for this stream: int arguments of 8 and more, on which an octal / decimal confusion of a
// zero-led spelling changes the RESULT (not only the acceptance)
var coerceBases = map[string][]T{
	"text.repeat":        {{"ab", int64(8)}},
	"text.substr":        {{"0123456789abcdefghij", int64(8), int64(12)}, {"0123456789abcdefghij", int64(10)}},
	"text.split_n":       {{"a,b,c,d,e,f,g,h,i,j,k,l,m", ",", int64(10)}},
	"text.split_after_n": {{"a,b,c,d,e,f,g,h,i,j,k,l,m", ",", int64(10)}},
	"text.replace":       {{"aaaaaaaaaaaaaa", "a", "b", int64(10)}},
	"text.pad_left":      {{"x", int64(10), "-"}, {"x", int64(9)}},
	"text.pad_right":     {{"x", int64(10), "-"}, {"x", int64(9)}},
	"text.format_int":    {{int64(255), int64(16)}, {int64(255), int64(10)}},
	"text.format_float":  {{1.0 / 3, "f", int64(10), int64(64)}, {1.0 / 3, "e", int64(8), int64(32)}},
	"text.parse_int":     {{"77", int64(10), int64(64)}, {"77", int64(8), int64(16)}},
	"text.parse_float":   {{"0.1", int64(64)}, {"0.1", int64(32)}},
	"text.itoa":          {{int64(10)}, {int64(8)}},
	"text.re_find":       {{"a", "aaaaaaaaaaaaaa", int64(10)}},
	"text.re_split":      {{"a", "bababababababababababab", int64(10)}},
	"text.regexp.find":   {{"a", "aaaaaaaaaaaaaa", int64(10)}},
	"text.regexp.split":  {{"a", "bababababababababababab", int64(10)}},
	"math.pow10":         {{int64(10)}, {int64(8)}},
	"math.jn":            {{int64(10), 1.5}},
	"math.yn":            {{int64(10), 1.5}},
	"math.ldexp":         {{0.75, int64(10)}},
	"times.month_string": {{int64(10)}, {int64(8)}},
	"times.date":         {{int64(2010), int64(10), int64(18), int64(19), int64(58), int64(59), int64(100), "UTC"}},
	"times.unix":         {{int64(1600000010), int64(10)}},
	"times.add":          {{t0, int64(7200000000000)}},
	"times.add_date":     {{t0, int64(10), int64(11), int64(12)}},
}

// ---- the coerce stream ----

func litOf(g interface{}) string {
	switch x := g.(type) {
	case string:
		return strconv.Quote(x)
	case []byte:
		return "bytes(" + strconv.Quote(string(x)) + ")"
	case time.Time:
		return "time<" + x.Format(time.RFC3339Nano) + ">"
	case float64:
		s := strconv.FormatFloat(x, 'g', -1, 64)
		if !strings.ContainsAny(s, ".eIN") {
			s += ".0"
		}
		return s
	}
	return fmt.Sprint(g)
}

func objLit(o tengo.Object) string {
	switch v := o.(type) {
	case *tengo.String:
		return strconv.Quote(v.Value)
	case *tengo.Int:
		return strconv.FormatInt(v.Value, 10)
	case *tengo.Float:
		return litOf(v.Value)
	case *tengo.Char:
		return "char(" + strconv.FormatInt(int64(v.Value), 10) + ")"
	case *tengo.Bytes:
		return "bytes(" + strconv.Quote(string(v.Value)) + ")"
	case *tengo.Bool:
		return v.String()
	case *tengo.Undefined:
		return "undefined"
	case *tengo.Time:
		return "time<" + v.Value.Format(time.RFC3339Nano) + ">"
	case *tengo.ImmutableArray:
		return "immutable(" + v.String() + ")"
	}
	return o.String()
}

func describeWith(e *entry, base []interface{}, p int, o tengo.Object) string {
	parts := make([]string, len(base))
	for i, g := range base {
		if i == p {
			parts[i] = objLit(o)
		} else {
			parts[i] = litOf(g)
		}
	}
	return e.id + "(" + strings.Join(parts, ", ") + ")"
}

var kindWord = map[byte]string{'I': "int", 'F': "float", 'S': "string", 'P': "string", 'R': "string", 'Q': "string", 'Y': "bytes", 'T': "time", 'A': "array of strings"}

// coerceViolate: one listed input per signature (a defect of a shared conversion routine fails in every entry that
// has a parameter of that type; the result file lists 25 violations at most), the others are counted.
var coerceListed = map[string]bool{}

func coerceViolate(v lib.Violation) {
	if coerceListed[v.Signature] {
		res.Dist("coerce:further-violations-not-listed")
		return
	}
	coerceListed[v.Signature] = true
	res.Violate(v)
}

func (e *entry) checkCoercedAt(r *lib.RNG, base []interface{}, p int, o tengo.Object) {
	kind := e.kind(p)
	v, conv, decided := docCoerce(kind, o)
	if !decided {
		return
	}
	call := describeWith(e, base, p, o)
	in := map[string]interface{}{"entry": e.id, "call": call, "seed": flags.Seed, "tier": flags.Tier,
		"note": fmt.Sprintf("argument %d (%s parameter) given as %s %s", p+1, kindWord[kind], o.TypeName(), objLit(o))}
	args := e.objs(r, base, false)
	args[p] = o
	if !conv {
		got := e.call(args)
		res.Count("coerce", call, true)
		res.Dist("coerce:no-conversion->run-time-error-expected")
		if got.err == nil {
			sig := e.id + "-non-convertible-argument-accepted"
			if got.panicked != "" {
				sig = e.id + "-panics-on-non-convertible-argument"
			}
			coerceViolate(lib.Violation{Signature: sig, Stream: "coerce", Input: in, Observed: got.String(), Expected: "run-time error",
				Oracle: "docs/runtime-types.md: no conversion of this value to " + kindWord[kind] + " (String -> Int is strconv.ParseInt(s, 10, 64), String -> Float is strconv.ParseFloat(s, 64)): the call must be rejected"})
		}
		return
	}
	gvs := append([]interface{}{}, base...)
	gvs[p] = v
	if !e.inDom(gvs) {
		res.Dist("coerce:converted-tuple-outside-domain")
		return
	}
	want, pnk := e.safeRef(gvs)
	if pnk {
		res.Dist("coerce:go-function-panics(outside-domain)")
		return
	}
	got := e.call(args)
	exp := canonRef(want)
	_, isErr := want.(errVal)
	res.Count("coerce", call, !isErr)
	res.Dist("coerce:converted:" + o.TypeName() + "->" + kindWord[kind])
	oracle := "direct Go call of the documented function on the arguments converted by the table of docs/runtime-types.md (" + litOf(v) + " here)"
	switch {
	case got.panicked != "":
		coerceViolate(lib.Violation{Signature: e.id + "-panics-on-convertible-argument", Stream: "coerce", Input: in, Observed: got.String(), Expected: exp, Oracle: oracle})
	case got.err != nil:
		sig := e.id + "-convertible-argument-rejected"
		if isErr {
			sig = e.id + "-go-error-raised-as-runtime-error-on-convertible-argument"
		}
		coerceViolate(lib.Violation{Signature: sig, Stream: "coerce", Input: in, Observed: got.String(), Expected: exp, Oracle: oracle})
	case canonObj(got.obj) != exp:
		coerceViolate(lib.Violation{Signature: e.id + "-value-differs-on-converted-argument", Stream: "coerce", Input: in, Observed: got.String(), Expected: exp, Oracle: oracle})
	}
}

func (e *entry) coerceBaseTuples(r *lib.RNG) [][]interface{} {
	usable := func(t []interface{}) bool {
		if !e.inDom(t) {
			return false
		}
		v, p := e.safeRef(t)
		if p {
			return false
		}
		_, isErr := v.(errVal)
		return !(isErr && e.errBeforeTypes)
	}
	var fixed [][]interface{}
	for _, t := range e.fixed {
		if usable(t) {
			fixed = append(fixed, t)
		}
	}
	// at most four of the fixed tuples, spread over the corpus; always one of every argument count
	var out [][]interface{}
	seenLen := map[int]bool{}
	step := 1
	if len(fixed) > 4 {
		step = (len(fixed) + 3) / 4
	}
	for i, t := range fixed {
		if i%step == 0 || !seenLen[len(t)] {
			out = append(out, t)
			seenLen[len(t)] = true
		}
	}
	for _, t := range coerceBases[e.id] {
		if usable(t) {
			out = append(out, t)
		}
	}
	if t := e.genTuple(r); t != nil && usable(t) {
		out = append(out, t)
	}
	return out
}

func (e *entry) checkCoercions(r *lib.RNG) {
	if e.noWrong { // enum: no coercing parameters
		return
	}
	full := map[int]bool{} // argument counts that already met the whole pool
	for _, base := range e.coerceBaseTuples(r) {
		for p := range base {
			kind := e.kind(p)
			pool := coercePool(kind)
			if full[len(base)] && len(pool) > 4 {
				// the whole pool on the first base tuple of every argument count; a random handful on the others
				pick := make([]tengo.Object, 4)
				for i := range pick {
					pick[i] = lib.Pick(r, pool)
				}
				pool = pick
			}
			for _, o := range pool {
				e.checkCoercedAt(r, base, p, o)
			}
			for _, o := range derivedForms(kind, base[p]) {
				e.checkCoercedAt(r, base, p, o)
			}
		}
		full[len(base)] = true
	}
}

// ---- the adapters, decided without the model ----

// adapterDocViolate: the result file lists at most 25 violations; the adapter stream runs first and a defect of one
// conversion routine fails in most of the 44 adapters, so at most one violation per signature and six in all are
// listed from here (the rest is counted), which leaves room for the script-level calls of the searcher.
var adapterDocListed = map[string]bool{}

func adapterDocViolate(v lib.Violation) {
	if adapterDocListed[v.Signature] || len(adapterDocListed) >= 6 {
		res.Dist("adapter-doc:further-violations-not-listed")
		return
	}
	adapterDocListed[v.Signature] = true
	res.Violate(v)
}

// adapterDocCheck: impl is the answer of the real adapter ("<outcome> <digest recorded by the probe | ->").
func adapterDocCheck(c adapterCase, line, impl string) {
	ft := reflect.TypeOf(adapterFuncs[c.kind]).In(0)
	argLits := make([]string, len(c.args))
	for i, a := range c.args {
		argLits[i] = objLit(a)
	}
	call := "stdlib.Func" + c.kind + "(probe)(" + strings.Join(argLits, ", ") + ")"
	in := map[string]interface{}{"entry": "adapter", "call": call, "line": line, "seed": flags.Seed, "tier": flags.Tier,
		"note": fmt.Sprintf("probe of type %s; MaxStringLen=%d MaxBytesLen=%d", ft.String(), c.cfg.maxS, c.cfg.maxB)}
	called := impl[strings.LastIndexByte(impl, ' ')+1:]
	if len(c.args) != ft.NumIn() {
		res.Count("adapter-doc", line, true)
		if !strings.HasPrefix(impl, "err wrong-num-args ") || called != "-" {
			adapterDocViolate(lib.Violation{Signature: "adapter-" + c.kind + "-wrong-count-accepted", Stream: "adapter-doc", Input: in, Observed: impl,
				Expected: "err wrong-num-args, wrapped function not called", Oracle: "wrong argument counts are rejected"})
		}
		return
	}
	vals := make([]reflect.Value, len(c.args))
	bad := -1
	for i, a := range c.args {
		t := ft.In(i)
		var v interface{}
		conv, decided := false, true
		switch {
		case t.Kind() == reflect.Int || t.Kind() == reflect.Int64:
			v, conv = docInt(a)
		case t.Kind() == reflect.Float64:
			v, conv = docFloat(a)
		case t.Kind() == reflect.String:
			v, conv, decided = docString(a)
		case t.Kind() == reflect.Slice && t.Elem().Kind() == reflect.Uint8:
			v, conv = docBytes(a)
		case t.Kind() == reflect.Slice && t.Elem().Kind() == reflect.String:
			v, conv, decided = docStrings(a)
		default:
			decided = false
		}
		if !decided {
			res.Dist("adapter-doc:undecided(compound value as string)")
			return
		}
		if !conv {
			if bad < 0 {
				bad = i
			}
			continue
		}
		vals[i] = reflect.ValueOf(v).Convert(t)
	}
	res.Count("adapter-doc", line, bad < 0)
	if bad >= 0 {
		if !strings.HasPrefix(impl, "err invalid-arg ") || called != "-" {
			adapterDocViolate(lib.Violation{Signature: "adapter-" + c.kind + "-non-convertible-argument-accepted", Stream: "adapter-doc", Input: in, Observed: impl,
				Expected: fmt.Sprintf("err invalid-arg (argument %d: %s has no conversion to %s), wrapped function not called", bad+1, objLit(c.args[bad]), ft.In(bad).String()),
				Oracle:   "conversion table of docs/runtime-types.md; String -> Int is strconv.ParseInt(s, 10, 64), String -> Float is strconv.ParseFloat(s, 64)"})
		}
		return
	}
	want := strconv.FormatUint(digestOf(vals), 10)
	if called == "-" && (strings.HasPrefix(impl, "err string-limit ") || strings.HasPrefix(impl, "err bytes-limit ")) {
		res.Dist("adapter-doc:limit-error-before-the-call")
		return
	}
	switch {
	case strings.HasPrefix(impl, "err invalid-arg ") || strings.HasPrefix(impl, "err wrong-num-args "):
		adapterDocViolate(lib.Violation{Signature: "adapter-" + c.kind + "-convertible-argument-rejected", Stream: "adapter-doc", Input: in, Observed: impl,
			Expected: "wrapped function called, argument digest " + want, Oracle: "conversion table of docs/runtime-types.md applied to every argument"})
	case called != want:
		adapterDocViolate(lib.Violation{Signature: "adapter-" + c.kind + "-converted-arguments-differ", Stream: "adapter-doc", Input: in, Observed: impl,
			Expected: "wrapped function called with the documented conversions of the arguments: digest " + want + " of (" + digestText(vals) + ")",
			Oracle:   "conversion table of docs/runtime-types.md applied to every argument; digest = the probe's digest of the values it received"})
	}
}

func digestText(vals []reflect.Value) string {
	parts := make([]string, len(vals))
	for i, v := range vals {
		switch v.Kind() {
		case reflect.String:
			parts[i] = strconv.Quote(v.String())
		case reflect.Float64:
			parts[i] = strconv.FormatFloat(v.Float(), 'g', -1, 64)
		case reflect.Slice:
			if v.Type().Elem().Kind() == reflect.Uint8 {
				parts[i] = "bytes(" + strconv.Quote(string(v.Bytes())) + ")"
			} else {
				parts[i] = fmt.Sprintf("%q", v.Interface())
			}
		default:
			parts[i] = fmt.Sprint(v.Interface())
		}
	}
	return strings.Join(parts, ", ")
}

package main

// SEARCHER engine: calls every table entry through a compiled script and compares with the Go reference.
// Nothing here looks at the Lean model.

import (
	"fmt"
	"math"
	"sort"
	"strconv"
	"strings"
	"time"
	"unicode/utf8"

	"github.com/d5/tengo/v2"
	"github.com/d5/tengo/v2/stdlib"
	"verifharness/lib"
)

type undefT struct{}

var undef = undefT{}

type errVal string // the Go function returned this error: the script must see an error value with this text
type raw string    // already canonical (compound results)

// entry: one script-visible function and its executable specification.
//
// params: one letter per parameter, '|' before the optional ones.
//
//	S string  I int  F float  Y bytes  T time  A array of strings  P regexp pattern  R regexp replacement
//	b/f/i/s   bool/float/int/string that the wrapper takes without coercion
//	X         enumerable (enum module; custom generator)
type entry struct {
	mod, name string
	id        string
	params    string
	tmpl      func(n int) string // script body for n arguments (default: out = m.name(a0, …))
	ref       func(a []interface{}) interface{}
	fixed     [][]interface{} // distinguishing corpus
	gen       func(r *lib.RNG) []interface{}
	dom       func(a []interface{}) bool
	limit     func(a []interface{}, ref interface{}, lim int) bool // small-MaxStringLen rule: limit error expected?
	noWrong   bool
	badCount  []string // script bodies that must raise a run-time error (wrong counts; enum)
	// errBeforeTypes: the wrapper reports a Go error of an earlier argument before it looks at the later ones
	// (region of known finding S4): wrong-typed probes use value-returning bases only
	errBeforeTypes bool
}

func (e *entry) minMax() (int, int) {
	p := e.params
	if i := strings.IndexByte(p, '|'); i >= 0 {
		return i, len(p) - 1
	}
	return len(p), len(p)
}

func (e *entry) kind(i int) byte { return strings.ReplaceAll(e.params, "|", "")[i] }

var modules = stdlib.GetModuleMap("text", "math", "base64", "hex", "times", "enum")

type compiledKey struct {
	id string
	n  int
}

var compiledCache = map[compiledKey]*tengo.Compiled{}

func argList(from, n int) string {
	var xs []string
	for i := from; i < n; i++ {
		xs = append(xs, "a"+strconv.Itoa(i))
	}
	return strings.Join(xs, ", ")
}

func compileBody(mod, body string, n int) (*tengo.Compiled, error) {
	src := "m := import(\"" + mod + "\")\n" + body + "\n"
	s := tengo.NewScript([]byte(src))
	s.SetImports(modules)
	for i := 0; i < n; i++ {
		_ = s.Add("a"+strconv.Itoa(i), nil)
	}
	_ = s.Add("out", nil)
	return s.Compile()
}

func (e *entry) body(n int) string {
	if e.tmpl != nil {
		return e.tmpl(n)
	}
	return "out = m." + e.name + "(" + argList(0, n) + ")"
}

type outcome struct {
	obj      tengo.Object
	err      error
	panicked string
}

func (o outcome) String() string {
	switch {
	case o.panicked != "":
		return "PANIC " + o.panicked
	case o.err != nil:
		return "run-time error: " + o.err.Error()
	}
	return canonObj(o.obj)
}

func runCompiled(c *tengo.Compiled, args []tengo.Object) (o outcome) {
	defer func() {
		if p := recover(); p != nil {
			o.panicked = fmt.Sprint(p)
		}
	}()
	for i, a := range args {
		if err := c.Set("a"+strconv.Itoa(i), a); err != nil {
			o.err = err
			return
		}
	}
	_ = c.Set("out", nil)
	if err := c.Run(); err != nil {
		o.err = err
		return
	}
	o.obj = c.Get("out").Object()
	return
}

func (e *entry) call(args []tengo.Object) outcome {
	k := compiledKey{e.id, len(args)}
	c := compiledCache[k]
	if c == nil {
		var err error
		c, err = compileBody(e.mod, e.body(len(args)), len(args))
		if err != nil {
			return outcome{err: fmt.Errorf("compile: %v", err)}
		}
		compiledCache[k] = c
	}
	o := runCompiled(c, args)
	if o.panicked != "" {
		delete(compiledCache, k)
	}
	return o
}

// ---- canonical forms ----

func canonTime(t time.Time) string {
	return "(t " + lib.I(t.Unix()) + " " + lib.N(t.Nanosecond()) + " " + lib.HexS(t.Location().String()) + ")"
}

func canonObj(o tengo.Object) string {
	if t, ok := o.(*tengo.Time); ok {
		return canonTime(t.Value)
	}
	return lib.Canon(o)
}

func canonRef(v interface{}) string {
	switch x := v.(type) {
	case nil, undefT:
		return "u"
	case raw:
		return string(x)
	case errVal:
		return "(e (s " + lib.HexS(string(x)) + "))"
	case string:
		return "(s " + lib.HexS(x) + ")"
	case int:
		return "(i " + lib.I(int64(x)) + ")"
	case int64:
		return "(i " + lib.I(x) + ")"
	case float64:
		bits := math.Float64bits(x)
		if x != x {
			bits = 0x7ff8000000000001
		}
		return "(f " + lib.U(bits) + ")"
	case bool:
		return "(b " + lib.B(x) + ")"
	case []byte:
		return "(y " + lib.Hex(x) + ")"
	case []string:
		var sb strings.Builder
		sb.WriteString("(a")
		for _, s := range x {
			sb.WriteString(" (s " + lib.HexS(s) + ")")
		}
		return sb.String() + ")"
	case []int64:
		var sb strings.Builder
		sb.WriteString("(a")
		for _, s := range x {
			sb.WriteString(" (i " + lib.I(s) + ")")
		}
		return sb.String() + ")"
	case []interface{}:
		var sb strings.Builder
		sb.WriteString("(a")
		for _, s := range x {
			sb.WriteString(" " + canonRef(s))
		}
		return sb.String() + ")"
	case map[string]int64:
		keys := make([]string, 0, len(x))
		for k := range x {
			keys = append(keys, k)
		}
		sort.Strings(keys)
		var sb strings.Builder
		sb.WriteString("(m")
		for _, k := range keys {
			sb.WriteString(" (" + lib.HexS(k) + " (i " + lib.I(x[k]) + "))")
		}
		return sb.String() + ")"
	case time.Time:
		return canonTime(x)
	}
	panic(fmt.Sprintf("canonRef: unsupported %T", v))
}

func describe(e *entry, gvs []interface{}) string {
	parts := make([]string, len(gvs))
	for i, g := range gvs {
		switch x := g.(type) {
		case string:
			parts[i] = strconv.Quote(x)
		case []byte:
			parts[i] = "bytes(" + strconv.Quote(string(x)) + ")"
		case time.Time:
			parts[i] = "time<" + x.Format(time.RFC3339Nano) + ">"
		case float64:
			parts[i] = strconv.FormatFloat(x, 'g', -1, 64)
			if !strings.ContainsAny(parts[i], ".eIN") {
				parts[i] += ".0"
			}
		default:
			parts[i] = fmt.Sprint(g)
		}
	}
	return e.id + "(" + strings.Join(parts, ", ") + ")"
}

// ---- right-typed values and their script-side representations ----

var strTokens = []string{"a", "b", "c", "A", "B", " ", "x", "1", "-", ",", "é", "ß", "世", "\xff", "\t", "ǆ", ".", "ab", "\n", "\xc3"}

func randString(r *lib.RNG) string {
	n := r.Intn(9)
	if r.Chance(1, 10) {
		n = 0
	}
	var sb strings.Builder
	for i := 0; i < n; i++ {
		sb.WriteString(lib.Pick(r, strTokens))
	}
	return sb.String()
}

// related derives a string that overlaps s (so that searching / trimming functions have something to find).
func related(r *lib.RNG, s string) string {
	if len(s) == 0 {
		return randString(r)
	}
	switch r.Intn(6) {
	case 0:
		i := r.Intn(len(s))
		j := i + r.Intn(len(s)-i+1)
		return s[i:j]
	case 1:
		return s[:r.Intn(len(s)+1)]
	case 2:
		return s[r.Intn(len(s)+1):]
	case 3: // a cutset of its runes
		var sb strings.Builder
		for _, c := range s {
			if r.Bool() && c != utf8.RuneError {
				sb.WriteRune(c)
			}
		}
		return sb.String()
	case 4:
		return strings.ToUpper(s)
	}
	return randString(r)
}

func randInt(r *lib.RNG) int64 {
	switch r.Weighted([]int{50, 15, 20, 15}) {
	case 0:
		return int64(r.Intn(7))
	case 1:
		return -int64(r.Intn(3)) - 1
	case 2:
		return int64(7 + r.Intn(34))
	}
	return int64(r.U64())
}

var floatSpecials = []float64{0, math.Copysign(0, -1), 1, -1, 0.5, -0.5, 1.5, -1.5, 2.5, -2.5, math.Inf(1), math.Inf(-1), math.NaN(),
	math.MaxFloat64, math.SmallestNonzeroFloat64, 1e-10, 1e10, 0.1, 3, -7, 100, 0.999999, math.Pi}

func randFloat(r *lib.RNG) float64 {
	switch r.Weighted([]int{30, 25, 25, 20}) {
	case 0:
		return lib.Pick(r, floatSpecials)
	case 1:
		return float64(int64(r.Intn(41))-20) / 4
	case 2:
		return (float64(r.U64()>>11)/float64(1<<53))*20 - 10
	}
	return math.Float64frombits(r.U64())
}

func randTime(r *lib.RNG) time.Time {
	switch r.Weighted([]int{60, 8, 20, 12}) {
	case 0:
		return time.Unix(int64(r.Intn(2000000000)), int64(r.Intn(1000000000))).UTC()
	case 1:
		return time.Time{}
	case 2:
		return time.Date(1+r.Intn(9998), time.Month(1+r.Intn(12)), 1+r.Intn(28), r.Intn(24), r.Intn(60), r.Intn(60), r.Intn(1000000000), time.UTC)
	}
	return time.Unix(int64(r.Intn(2000000000)), 0) // location Local: may travel as an Int (documented Int->Time: time.Unix(v, 0))
}

// regular expressions from a small grammar
func randRegexp(r *lib.RNG, depth int) string {
	atom := func() string {
		switch r.Intn(9) {
		case 0:
			return "."
		case 1:
			return "[ab]"
		case 2:
			return "[^a]"
		case 3:
			return `\d`
		case 4:
			return `\w`
		case 5:
			if depth > 0 {
				return "(" + randRegexp(r, depth-1) + ")"
			}
		case 6:
			if depth > 0 {
				return "(?:" + randRegexp(r, depth-1) + ")"
			}
		case 7:
			if depth > 0 {
				return "(?P<n>" + randRegexp(r, depth-1) + ")"
			}
		}
		return lib.Pick(r, []string{"a", "b", "c", "x", "1", " ", "é"})
	}
	n := 1 + r.Intn(3)
	var sb strings.Builder
	for i := 0; i < n; i++ {
		sb.WriteString(atom())
		sb.WriteString(lib.Pick(r, []string{"", "", "", "*", "+", "?", "{1,2}", "*?"}))
	}
	s := sb.String()
	if depth > 0 && r.Chance(1, 4) {
		s += "|" + randRegexp(r, depth-1)
	}
	if r.Chance(1, 10) {
		s = "^" + s
	}
	if r.Chance(1, 10) {
		s += "$"
	}
	return s
}

var badRegexps = []string{"(", "[a", "a**", `\`, "(?P<n", "a{2,1}", ")"}

func randReplacement(r *lib.RNG) string {
	n := r.Intn(4)
	var sb strings.Builder
	for i := 0; i < n; i++ {
		sb.WriteString(lib.Pick(r, []string{"x", "$1", "${1}", "$0", "$$", "${n}", "ab", "$2", "-", "$1x", "é"}))
	}
	return sb.String()
}

func genValue(r *lib.RNG, kind byte, prev []interface{}) interface{} {
	switch kind {
	case 'S', 's':
		if len(prev) > 0 && r.Chance(3, 5) {
			if s, ok := prev[0].(string); ok {
				return related(r, s)
			}
		}
		return randString(r)
	case 'I', 'i':
		return randInt(r)
	case 'F', 'f':
		return randFloat(r)
	case 'Y':
		return []byte(randString(r))
	case 'T':
		return randTime(r)
	case 'A':
		n := r.Intn(5)
		xs := make([]string, n)
		for i := range xs {
			xs[i] = randString(r)
		}
		return xs
	case 'b':
		return r.Bool()
	case 'Q':
		return randRegexp(r, 2)
	case 'P':
		if r.Chance(1, 20) {
			return lib.Pick(r, badRegexps)
		}
		return randRegexp(r, 2)
	case 'R':
		return randReplacement(r)
	}
	panic("genValue: kind " + string(kind))
}

func isCanonInt(s string) (int64, bool) {
	n, err := strconv.ParseInt(s, 10, 64)
	return n, err == nil && strconv.FormatInt(n, 10) == s
}

// toObj gives the script-side value of a right-typed Go value. With coerce it may pick a value of another
// type that the documented conversion table maps to the same Go value (Int 12 for "12", Bytes for a string,
// Float 3.0 / String "3" / Char for an int, Int / String for a float, String for bytes, Int seconds for a time).
func toObj(r *lib.RNG, kind byte, g interface{}, coerce bool) tengo.Object {
	switch kind {
	case 'S', 'P', 'R', 'Q':
		s := g.(string)
		if coerce {
			switch r.Intn(4) {
			case 0:
				return &tengo.Bytes{Value: []byte(s)}
			case 1:
				if n, ok := isCanonInt(s); ok {
					return &tengo.Int{Value: n}
				}
			case 2:
				if s == "true" {
					return tengo.TrueValue
				}
				if s == "false" {
					return tengo.FalseValue
				}
				if c, w := utf8.DecodeRuneInString(s); w == len(s) && w > 0 && c != utf8.RuneError {
					return &tengo.Char{Value: c}
				}
			}
		}
		return &tengo.String{Value: s}
	case 's':
		return &tengo.String{Value: g.(string)}
	case 'I':
		n := g.(int64)
		if coerce {
			switch r.Intn(4) {
			case 0:
				if n > -(1<<40) && n < 1<<40 {
					return &tengo.Float{Value: float64(n) + lib.Pick(r, []float64{0, 0.25, 0.75})*sign(n)}
				}
			case 1:
				return &tengo.String{Value: strconv.FormatInt(n, 10)}
			case 2:
				if n == 0 {
					return tengo.FalseValue
				}
				if n == 1 {
					return tengo.TrueValue
				}
			case 3:
				if n >= 0 && n <= 0x10FFFF {
					return &tengo.Char{Value: rune(n)}
				}
			}
		}
		return &tengo.Int{Value: n}
	case 'i':
		return &tengo.Int{Value: g.(int64)}
	case 'F':
		f := g.(float64)
		if coerce {
			if r.Bool() {
				if f == math.Trunc(f) && math.Abs(f) < 1<<53 && !(f == 0 && math.Signbit(f)) {
					return &tengo.Int{Value: int64(f)}
				}
			} else if f == f {
				return &tengo.String{Value: strconv.FormatFloat(f, 'g', -1, 64)}
			}
		}
		return &tengo.Float{Value: f}
	case 'f':
		return &tengo.Float{Value: g.(float64)}
	case 'Y':
		b := g.([]byte)
		if coerce && r.Bool() {
			return &tengo.String{Value: string(b)}
		}
		return &tengo.Bytes{Value: append([]byte{}, b...)}
	case 'T':
		t := g.(time.Time)
		if coerce && t.Equal(time.Unix(t.Unix(), 0)) && t.Location() == time.Local {
			return &tengo.Int{Value: t.Unix()}
		}
		return &tengo.Time{Value: t}
	case 'A':
		xs := g.([]string)
		objs := make([]tengo.Object, len(xs))
		for i, s := range xs {
			objs[i] = toObj(r, 'S', s, coerce && r.Chance(1, 3))
		}
		if coerce && r.Bool() {
			return &tengo.ImmutableArray{Value: objs}
		}
		return &tengo.Array{Value: objs}
	case 'b':
		if g.(bool) {
			return tengo.TrueValue
		}
		return tengo.FalseValue
	case 'X', 'V':
		switch x := g.(type) {
		case []int64:
			objs := make([]tengo.Object, len(x))
			for i, v := range x {
				objs[i] = &tengo.Int{Value: v}
			}
			if coerce {
				return &tengo.ImmutableArray{Value: objs}
			}
			return &tengo.Array{Value: objs}
		case map[string]int64:
			m := map[string]tengo.Object{}
			for k, v := range x {
				m[k] = &tengo.Int{Value: v}
			}
			if coerce {
				return &tengo.ImmutableMap{Value: m}
			}
			return &tengo.Map{Value: m}
		case int64:
			return &tengo.Int{Value: x}
		case string:
			return &tengo.String{Value: x}
		case undefT:
			return tengo.UndefinedValue
		}
	}
	panic(fmt.Sprintf("toObj: kind %c value %T", kind, g))
}

func sign(n int64) float64 {
	if n < 0 {
		return -1
	}
	return 1
}

// wrongSamples: values the documented table has NO conversion for towards the parameter's type.
func wrongSamples(kind byte) []tengo.Object {
	u := tengo.UndefinedValue
	arr := &tengo.Array{Value: []tengo.Object{&tengo.Int{Value: 1}}}
	mp := &tengo.Map{Value: map[string]tengo.Object{}}
	by := &tengo.Bytes{Value: []byte("7")}
	switch kind {
	case 'S', 'P', 'R', 'Q':
		return []tengo.Object{u}
	case 'I':
		return []tengo.Object{u, arr, mp, by, &tengo.String{Value: "abc"}, &tengo.String{Value: ""}, &tengo.Error{Value: &tengo.Int{Value: 1}}}
	case 'F':
		return []tengo.Object{u, arr, mp, by, tengo.TrueValue, &tengo.Char{Value: '1'}, &tengo.String{Value: "x1"}}
	case 'Y':
		return []tengo.Object{u, arr, mp, &tengo.Int{Value: 1}, &tengo.Float{Value: 1}, tengo.TrueValue, &tengo.Char{Value: 'a'}}
	case 'T':
		return []tengo.Object{u, arr, mp, by, &tengo.String{Value: "2020"}, &tengo.Float{Value: 1}, tengo.TrueValue}
	case 'A':
		return []tengo.Object{u, mp, &tengo.String{Value: "ab"}, &tengo.Int{Value: 3},
			&tengo.Array{Value: []tengo.Object{&tengo.String{Value: "a"}, u}}}
	case 'b', 'f', 'i', 's':
		return []tengo.Object{u, arr, mp}
	}
	return nil
}

// ---- the streams ----

var knownIDs map[string]bool
var knownHit = map[string]bool{}

func isKnown(id string) bool {
	if knownIDs == nil {
		knownIDs = map[string]bool{}
		for _, k := range lib.LoadKnown(flags.Known) {
			if k.Property == "C19" && k.Status == "known" {
				knownIDs[k.ID] = true
			}
		}
	}
	return knownIDs[id]
}

// finding reports a failing input of a recorded finding: KNOWN-FINDING while it is listed as known, a violation otherwise.
func finding(id, signature, stream string, input interface{}, observed, expected, oracle string) {
	if isKnown(id) {
		if !knownHit[id] {
			knownHit[id] = true
			res.KnownHits = append(res.KnownHits, id)
		}
		return
	}
	res.Violate(lib.Violation{Signature: signature, Stream: stream, Input: input, Observed: observed, Expected: expected, Oracle: oracle})
}

const sigS1 = "go-error-raised-as-runtime-error-by-named-return-err"

func inputOf(e *entry, gvs []interface{}, extra string) map[string]interface{} {
	m := map[string]interface{}{"entry": e.id, "call": describe(e, gvs), "seed": flags.Seed, "tier": flags.Tier}
	if extra != "" {
		m["note"] = extra
	}
	return m
}

func (e *entry) inDom(a []interface{}) (ok bool) {
	defer func() {
		if recover() != nil {
			ok = false
		}
	}()
	return e.dom == nil || e.dom(a)
}

func (e *entry) safeRef(a []interface{}) (v interface{}, panicked bool) {
	defer func() {
		if recover() != nil {
			panicked = true
		}
	}()
	return e.ref(a), false
}

func (e *entry) objs(r *lib.RNG, gvs []interface{}, coerce bool) []tengo.Object {
	out := make([]tengo.Object, len(gvs))
	for i, g := range gvs {
		out[i] = toObj(r, e.kind(i), g, coerce && r.Chance(1, 2))
	}
	return out
}

func (e *entry) checkValue(r *lib.RNG, gvs []interface{}, coerce bool) {
	if !e.inDom(gvs) {
		res.Dist("value:outside-domain")
		return
	}
	want, p := e.safeRef(gvs)
	if p {
		res.Dist("value:go-function-panics(outside-domain)")
		return
	}
	args := e.objs(r, gvs, coerce)
	got := e.call(args)
	exp := canonRef(want)
	_, isErr := want.(errVal)
	res.Count("value", describe(e, gvs), !isErr)
	res.Dist("value:" + e.mod)
	if coerce {
		res.Dist("value:with-coercible-arguments")
	}
	if isErr {
		res.Dist("value:go-error")
	}
	switch {
	case got.panicked != "":
		res.Violate(lib.Violation{Signature: e.id + "-panics", Stream: "value", Input: inputOf(e, gvs, ""), Observed: got.String(), Expected: exp,
			Oracle: "direct Go call of the documented function"})
	case got.err != nil:
		sig := e.id + "-right-typed-arguments-rejected"
		if isErr {
			sig = e.id + "-go-error-raised-as-runtime-error"
		}
		res.Violate(lib.Violation{Signature: sig, Stream: "value", Input: inputOf(e, gvs, ""), Observed: got.String(), Expected: exp,
			Oracle: "direct Go call of the documented function; Go errors must come back as error values"})
	case canonObj(got.obj) != exp:
		res.Violate(lib.Violation{Signature: e.id + "-value-differs", Stream: "value", Input: inputOf(e, gvs, ""), Observed: got.String(), Expected: exp,
			Oracle: "direct Go call of the documented function on the coerced arguments"})
	}
}

func (e *entry) genTuple(r *lib.RNG) []interface{} {
	for try := 0; try < 30; try++ {
		var gvs []interface{}
		if e.gen != nil {
			gvs = e.gen(r)
		} else {
			min, max := e.minMax()
			n := min
			if max > min && r.Bool() {
				n = min + 1 + r.Intn(max-min)
			}
			for i := 0; i < n; i++ {
				gvs = append(gvs, genValue(r, e.kind(i), gvs))
			}
		}
		if e.inDom(gvs) {
			return gvs
		}
	}
	return nil
}

func (e *entry) base() []interface{} {
	_, max := e.minMax()
	for _, f := range e.fixed {
		if len(f) == max && e.inDom(f) {
			return f
		}
	}
	return nil
}

func (e *entry) bases() [][]interface{} {
	var out [][]interface{}
	_, max := e.minMax()
	for _, f := range e.fixed {
		if len(f) != max || !e.inDom(f) {
			continue
		}
		if v, p := e.safeRef(f); !p {
			if _, isErr := v.(errVal); !isErr || !e.errBeforeTypes {
				out = append(out, f)
			}
		}
	}
	return out
}

func (e *entry) checkWrongTypes(r *lib.RNG) {
	if e.noWrong {
		return
	}
	for _, base := range e.bases() {
		e.checkWrongTypesOn(r, base)
	}
}

func (e *entry) checkWrongTypesOn(r *lib.RNG, base []interface{}) {
	for p := range base {
		for _, w := range wrongSamples(e.kind(p)) {
			args := e.objs(r, base, false)
			args[p] = w
			got := e.call(args)
			key := fmt.Sprintf("%s#%d:%s", e.id, p, w.TypeName())
			res.Count("wrongtype", key, true)
			if got.err == nil {
				res.Violate(lib.Violation{Signature: e.id + "-wrong-type-accepted", Stream: "wrongtype",
					Input:    inputOf(e, base, fmt.Sprintf("argument %d replaced by %s %s", p+1, w.TypeName(), w.String())),
					Observed: got.String(), Expected: "run-time error", Oracle: "the conversion table has no conversion from this type: the call must be rejected"})
			}
		}
	}
}

func (e *entry) checkWrongCounts(r *lib.RNG) {
	for _, b := range e.badCount {
		c, err := compileBody(e.mod, b, 1)
		if err != nil {
			fatal(fmt.Errorf("%s: %v", e.id, err))
		}
		got := runCompiled(c, []tengo.Object{&tengo.Array{}})
		res.Count("wrongcount", e.id+b, true)
		if got.err == nil {
			res.Violate(lib.Violation{Signature: e.id + "-wrong-count-accepted", Stream: "wrongcount", Input: map[string]interface{}{"entry": e.id, "script": b},
				Observed: got.String(), Expected: "run-time error", Oracle: "wrong argument counts are rejected"})
		}
	}
	if e.tmpl != nil && e.badCount != nil {
		return
	}
	base := e.base()
	if base == nil && len(e.params) > 0 {
		return
	}
	min, max := e.minMax()
	full := e.objs(r, base, false)
	for _, n := range []int{min - 1, max + 1} {
		if n < 0 {
			continue
		}
		args := make([]tengo.Object, n)
		for i := range args {
			if i < len(full) {
				args[i] = full[i]
			} else {
				args[i] = &tengo.Int{Value: 1}
			}
		}
		got := e.call(args)
		res.Count("wrongcount", fmt.Sprintf("%s/%d", e.id, n), true)
		if got.err == nil {
			res.Violate(lib.Violation{Signature: e.id + "-wrong-count-accepted", Stream: "wrongcount",
				Input: inputOf(e, base, fmt.Sprintf("called with %d arguments", n)), Observed: got.String(), Expected: "run-time error",
				Oracle: "wrong argument counts are rejected"})
		}
	}
}

func (e *entry) checkLimit(r *lib.RNG, gvs []interface{}, lim int) {
	if e.limit == nil || !e.inDom(gvs) {
		return
	}
	for _, g := range gvs {
		switch x := g.(type) {
		case string:
			if len(x) > lim {
				return
			}
		case []string:
			for _, s := range x {
				if len(s) > lim {
					return
				}
			}
		}
	}
	want, p := e.safeRef(gvs)
	if p {
		return
	}
	if _, isErr := want.(errVal); isErr {
		return
	}
	over := e.limit(gvs, want, lim)
	args := e.objs(r, gvs, false)
	old := tengo.MaxStringLen
	tengo.MaxStringLen = lim
	got := e.call(args)
	tengo.MaxStringLen = old
	res.Count("limit", fmt.Sprintf("%d:%s", lim, describe(e, gvs)), over)
	in := inputOf(e, gvs, fmt.Sprintf("tengo.MaxStringLen=%d", lim))
	if over {
		res.Dist("limit:over")
		if got.err == nil || !strings.Contains(got.err.Error(), "exceeding string size limit") {
			res.Disagree(lib.Disagreement{Stream: "limit", Input: in, Model: "run-time error: exceeding string size limit (wrapper limit rule)", Impl: got.String()})
		}
		return
	}
	res.Dist("limit:within")
	if got.err != nil || got.panicked != "" || canonObj(got.obj) != canonRef(want) {
		res.Disagree(lib.Disagreement{Stream: "limit", Input: in, Model: canonRef(want), Impl: got.String()})
	}
}

func hash64(s string) uint64 {
	h := uint64(1469598103934665603)
	for i := 0; i < len(s); i++ {
		h = (h ^ uint64(s[i])) * 1099511628211
	}
	return h
}

// selfCheck: within a module, every two entries of the same parameter shape must be told apart by the
// union of their fixed corpora (so a swapped table entry always has a concrete failing tuple).
func selfCheck(entries []*entry) (groups map[string][]*entry) {
	groups = map[string][]*entry{}
	for _, e := range entries {
		if e.ref == nil {
			continue
		}
		k := e.mod + "/" + e.params
		groups[k] = append(groups[k], e)
	}
	var bad []string
	for _, g := range groups {
		var corpus [][]interface{}
		for _, e := range g {
			corpus = append(corpus, e.fixed...)
		}
		for i := 0; i < len(g); i++ {
			for j := i + 1; j < len(g); j++ {
				sep := false
				for _, t := range corpus {
					if !g[i].inDom(t) || !g[j].inDom(t) {
						continue
					}
					a, pa := g[i].safeRef(t)
					b, pb := g[j].safeRef(t)
					if !pa && !pb && canonRef(a) != canonRef(b) {
						sep = true
						break
					}
				}
				if !sep {
					bad = append(bad, g[i].id+"~"+g[j].id)
				}
			}
		}
	}
	if len(bad) > 0 {
		sort.Strings(bad)
		fatal(fmt.Errorf("fixed corpus does not separate: %s", strings.Join(bad, " ")))
	}
	return groups
}

func runSearcher(seed uint64, perEntry int, only string) {
	entries := allEntries()
	groups := selfCheck(entries)
	nFuncs := 0
	for _, e := range entries {
		if only != "" && only != e.id {
			continue
		}
		r := lib.NewRNG(seed ^ hash64(e.id))
		if e.ref == nil { // constants
			checkConst(e)
			continue
		}
		nFuncs++
		// fixed corpus: own and that of every same-shaped neighbour
		for _, n := range groups[e.mod+"/"+e.params] {
			for _, t := range n.fixed {
				e.checkValue(r, t, false)
			}
		}
		for i := 0; i < perEntry; i++ {
			if t := e.genTuple(r); t != nil {
				e.checkValue(r, t, i%3 == 2)
				if e.limit != nil && i%4 == 0 {
					e.checkLimit(r, t, lib.Pick(r, []int{6, 10, 16}))
				}
			}
		}
		if e.limit != nil {
			for _, t := range e.fixed {
				for _, lim := range []int{4, 8, 16} {
					e.checkLimit(r, t, lim)
				}
			}
		}
		e.checkWrongTypes(r)
		e.checkWrongCounts(r)
		e.checkCoercions(r) // round 8 (coerce.go); last, so that the streams above see the same random draws as before
	}
	if res.Extra == nil {
		res.Extra = map[string]interface{}{}
	}
	res.Extra["table_entries"] = len(entries)
	res.Extra["function_entries"] = nFuncs
	res.Extra["tuples_per_entry"] = perEntry
}

func checkConst(e *entry) {
	c, err := compileBody(e.mod, "out = m."+e.name, 0)
	if err != nil {
		fatal(err)
	}
	got := runCompiled(c, nil)
	want := canonRef(e.fixed[0][0])
	res.Count("const", e.id, true)
	if got.err != nil || got.panicked != "" || canonObj(got.obj) != want {
		res.Violate(lib.Violation{Signature: e.id + "-constant-differs", Stream: "const", Input: map[string]interface{}{"entry": e.id},
			Observed: got.String(), Expected: want, Oracle: "the Go constant the documentation names"})
	}
}

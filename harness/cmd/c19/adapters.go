package main

// CORRESPONDENCE: every exported stdlib.FuncAxxRyy applied to a probe function vs the Lean adapter model.

import (
	"encoding/hex"
	"errors"
	"fmt"
	"math"
	"reflect"
	"strconv"
	"strings"
	"time"

	"github.com/d5/tengo/v2"
	"github.com/d5/tengo/v2/stdlib"
	"verifharness/lib"
)

// every exported adapter of stdlib/func_typedefs.go (Gen.adapterTypes = the model's 44 is proved in Props)
var adapterFuncs = map[string]interface{}{
	"AR": stdlib.FuncAR, "ARI": stdlib.FuncARI, "ARI64": stdlib.FuncARI64, "AI64RI64": stdlib.FuncAI64RI64,
	"AI64R": stdlib.FuncAI64R, "ARB": stdlib.FuncARB, "ARE": stdlib.FuncARE, "ARS": stdlib.FuncARS,
	"ARSE": stdlib.FuncARSE, "ARYE": stdlib.FuncARYE, "ARF": stdlib.FuncARF, "ARSs": stdlib.FuncARSs,
	"ARIsE": stdlib.FuncARIsE, "AIRIs": stdlib.FuncAIRIs, "AFRF": stdlib.FuncAFRF, "AIR": stdlib.FuncAIR,
	"AIRF": stdlib.FuncAIRF, "AFRI": stdlib.FuncAFRI, "AFFRF": stdlib.FuncAFFRF, "AIFRF": stdlib.FuncAIFRF,
	"AFIRF": stdlib.FuncAFIRF, "AFIRB": stdlib.FuncAFIRB, "AFRB": stdlib.FuncAFRB, "ASRS": stdlib.FuncASRS,
	"ASRSs": stdlib.FuncASRSs, "ASRSE": stdlib.FuncASRSE, "ASRE": stdlib.FuncASRE, "ASSRE": stdlib.FuncASSRE,
	"ASSRSs": stdlib.FuncASSRSs, "ASSIRSs": stdlib.FuncASSIRSs, "ASSRI": stdlib.FuncASSRI, "ASSRS": stdlib.FuncASSRS,
	"ASSRB": stdlib.FuncASSRB, "ASsSRS": stdlib.FuncASsSRS, "ASI64RE": stdlib.FuncASI64RE, "AIIRE": stdlib.FuncAIIRE,
	"ASIRS": stdlib.FuncASIRS, "ASIIRE": stdlib.FuncASIIRE, "AYRIE": stdlib.FuncAYRIE, "AYRS": stdlib.FuncAYRS,
	"ASRIE": stdlib.FuncASRIE, "ASRYE": stdlib.FuncASRYE, "AIRSsE": stdlib.FuncAIRSsE, "AIRS": stdlib.FuncAIRS,
}

func hx(b []byte) string { return hex.EncodeToString(b) }

// valSexp renders a run-time value for the model line (with the external text the model takes as oracle).
func valSexp(o tengo.Object) string {
	switch v := o.(type) {
	case *tengo.Undefined:
		return "u"
	case *tengo.Int:
		return "(i " + lib.I(v.Value) + ")"
	case *tengo.Float:
		return "(f " + lib.U(math.Float64bits(v.Value)) + " " + lib.HexS(v.String()) + ")"
	case *tengo.String:
		pf := "x"
		if f, err := strconv.ParseFloat(v.Value, 64); err == nil {
			pf = lib.U(math.Float64bits(f))
		}
		return "(s " + lib.HexS(v.Value) + " " + pf + ")"
	case *tengo.Bool:
		return "(b " + lib.B(!v.IsFalsy()) + ")"
	case *tengo.Char:
		return "(c " + lib.I(int64(v.Value)) + ")"
	case *tengo.Bytes:
		return "(y " + lib.Hex(v.Value) + ")"
	case *tengo.Array:
		return arrSexp("0", v.String(), v.Value)
	case *tengo.ImmutableArray:
		return arrSexp("1", v.String(), v.Value)
	}
	return "(o " + lib.HexS(o.TypeName()) + " " + lib.HexS(o.String()) + ")"
}

func arrSexp(imm, shown string, xs []tengo.Object) string {
	var sb strings.Builder
	sb.WriteString("(a " + imm + " " + lib.HexS(shown))
	for _, x := range xs {
		sb.WriteString(" " + valSexp(x))
	}
	sb.WriteString(")")
	return sb.String()
}

func digestOf(in []reflect.Value) uint64 {
	var sb strings.Builder
	for _, v := range in {
		switch v.Kind() {
		case reflect.Int, reflect.Int64:
			sb.WriteString("i" + strconv.FormatInt(v.Int(), 10))
		case reflect.Float64:
			sb.WriteString("f" + strconv.FormatUint(math.Float64bits(v.Float()), 10))
		case reflect.String:
			sb.WriteString("s" + hx([]byte(v.String())))
		case reflect.Slice:
			if v.Type().Elem().Kind() == reflect.Uint8 {
				sb.WriteString("y" + hx(v.Bytes()))
			} else {
				sb.WriteString("l")
				for i := 0; i < v.Len(); i++ {
					sb.WriteString(hx([]byte(v.Index(i).String())) + ",")
				}
			}
		}
		sb.WriteString(";")
	}
	h := uint64(7)
	for _, b := range []byte(sb.String()) {
		h = (h*131 + uint64(b)) % 1000000007
	}
	return h
}

var errorType = reflect.TypeOf((*error)(nil)).Elem()

// makeProbe builds a function of the adapter's parameter type that records the digest of its arguments
// and answers as a function of that digest (same rule as Tengo.Drivers.C19.probe).
func makeProbe(ft reflect.Type, errMode bool, pad int, called *string) reflect.Value {
	return reflect.MakeFunc(ft, func(in []reflect.Value) []reflect.Value {
		h := digestOf(in)
		*called = strconv.FormatUint(h, 10)
		hasErr := ft.NumOut() > 0 && ft.Out(ft.NumOut()-1) == errorType
		fail := errMode && hasErr
		padding := strings.Repeat("x", pad)
		outs := make([]reflect.Value, ft.NumOut())
		for j := range outs {
			t := ft.Out(j)
			if t == errorType {
				if fail {
					outs[j] = reflect.ValueOf(errors.New("E" + *called)).Convert(errorType)
				} else {
					outs[j] = reflect.Zero(errorType)
				}
				continue
			}
			if fail {
				outs[j] = reflect.Zero(t)
				continue
			}
			switch t.Kind() {
			case reflect.Int, reflect.Int64:
				outs[j] = reflect.ValueOf(int64(h) - 500000000).Convert(t)
			case reflect.Float64:
				outs[j] = reflect.ValueOf(math.Float64frombits(0x4000000000000000 + h*1024))
			case reflect.Bool:
				outs[j] = reflect.ValueOf(h%2 == 1)
			case reflect.String:
				outs[j] = reflect.ValueOf("R" + *called + padding)
			case reflect.Slice:
				switch t.Elem().Kind() {
				case reflect.Uint8:
					outs[j] = reflect.ValueOf([]byte("R" + *called + padding))
				case reflect.String:
					outs[j] = reflect.ValueOf([]string{"a" + *called, padding})
				default:
					outs[j] = reflect.ValueOf([]int{int(h), -int(h), 0})
				}
			}
		}
		return outs
	})
}

func implOut(obj tengo.Object, err error) string {
	if err != nil {
		switch {
		case err == tengo.ErrWrongNumArguments:
			return "err wrong-num-args"
		case err == tengo.ErrStringLimit:
			return "err string-limit"
		case err == tengo.ErrBytesLimit:
			return "err bytes-limit"
		}
		if e, ok := err.(tengo.ErrInvalidArgumentType); ok {
			return "err invalid-arg " + lib.HexS(e.Name) + " " + lib.HexS(e.Expected) + " " + lib.HexS(e.Found)
		}
		return "err other " + lib.HexS(err.Error())
	}
	if obj == nil {
		return "nil"
	}
	return lib.Canon(obj)
}

type adapterCfg struct {
	errMode bool
	pad     int
	maxS    int
	maxB    int
}

var adapterCfgs = []adapterCfg{
	{false, 0, 2147483647, 2147483647},
	{true, 0, 2147483647, 2147483647},
	{false, 2, 11, 11}, {false, 2, 12, 12}, {false, 2, 13, 13}, {false, 2, 14, 14},
	{false, 0, 1, 1}, {true, 40, 5, 5},
}

type adapterCase struct {
	kind string
	cfg  adapterCfg
	args []tengo.Object
}

func (c adapterCase) line() string {
	parts := make([]string, len(c.args))
	for i, a := range c.args {
		parts[i] = valSexp(a)
	}
	mode := "val"
	if c.cfg.errMode {
		mode = "err"
	}
	return lib.L("adapter", c.kind, mode, lib.N(c.cfg.pad), lib.N(c.cfg.maxS), lib.N(c.cfg.maxB), "("+strings.Join(parts, " ")+")")
}

func (c adapterCase) runImpl() (out string) {
	called := "-"
	defer func() {
		if p := recover(); p != nil {
			out = "panic " + lib.HexS(fmt.Sprint(p)) + " " + called
		}
	}()
	fv := reflect.ValueOf(adapterFuncs[c.kind])
	probe := makeProbe(fv.Type().In(0), c.cfg.errMode, c.cfg.pad, &called)
	cf := fv.Call([]reflect.Value{probe})[0].Interface().(tengo.CallableFunc)
	oldS, oldB := tengo.MaxStringLen, tengo.MaxBytesLen
	tengo.MaxStringLen, tengo.MaxBytesLen = c.cfg.maxS, c.cfg.maxB
	obj, err := cf(c.args...)
	tengo.MaxStringLen, tengo.MaxBytesLen = oldS, oldB
	return implOut(obj, err) + " " + called
}

// sampleValues: values of every runtime type, with the corner cases of each coercion.
func sampleValues() []tengo.Object {
	str := func(s string) tengo.Object { return &tengo.String{Value: s} }
	flt := func(f float64) tengo.Object { return &tengo.Float{Value: f} }
	in := func(i int64) tengo.Object { return &tengo.Int{Value: i} }
	arr := func(xs ...tengo.Object) tengo.Object { return &tengo.Array{Value: xs} }
	return []tengo.Object{
		in(0), in(7), in(-12), in(math.MaxInt64), in(math.MinInt64), in(1 << 53), in(1<<53 + 1), in(1<<62 + 12345),
		flt(0), flt(2.5), flt(-3.99), flt(1e10), flt(9.3e18), flt(-9.3e18), flt(math.NaN()), flt(math.Inf(1)), flt(math.Copysign(0, -1)), flt(4.9e-324),
		str(""), str("abc"), str("42"), str("-7"), str("+5"), str(" 1"), str("1e3"), str("0x10"), str("1_0"), str("9223372036854775807"),
		str("9223372036854775808"), str("-9223372036854775808"), str("-9223372036854775809"), str("007"), str("2.5"), str("inf"), str("\xff\xfeA"), str("-"),
		str("010"), str("08"), str("0x1p4"), str("0.1"), // round 8: decimal with a leading zero (octal 8 / not octal), hex float, not a float32
		tengo.TrueValue, tengo.FalseValue,
		&tengo.Char{Value: 'a'}, &tengo.Char{Value: 0x4e16}, &tengo.Char{Value: 0x1F600}, &tengo.Char{Value: 0xD800}, &tengo.Char{Value: -1}, &tengo.Char{Value: 0xe9},
		&tengo.Bytes{Value: []byte("hi\x00\xff")}, &tengo.Bytes{Value: nil},
		tengo.UndefinedValue,
		arr(), arr(str("a"), str("b")), arr(str("x"), in(3), flt(1.5), tengo.TrueValue), arr(str("a"), tengo.UndefinedValue, str("c")),
		arr(arr(str("q"))),
		&tengo.ImmutableArray{Value: []tengo.Object{str("p"), &tengo.Char{Value: 'q'}}},
		&tengo.Map{Value: map[string]tengo.Object{"k": in(1)}},
		&tengo.ImmutableMap{Value: map[string]tengo.Object{}},
		&tengo.Time{Value: time.Unix(1600000000, 0).UTC()},
		&tengo.Error{Value: str("boom")},
		&tengo.UserFunction{Name: "uf", Value: func(...tengo.Object) (tengo.Object, error) { return nil, nil }},
	}
}

func runAdapterStream(rng *lib.RNG, perTernary int) {
	if drv == nil {
		res.Skipped++
		return
	}
	vals := sampleValues()
	kinds := make([]string, 0, len(adapterFuncs))
	for k := range adapterFuncs {
		kinds = append(kinds, k)
	}
	sortStrings(kinds)
	var cases []adapterCase
	for _, k := range kinds {
		ft := reflect.TypeOf(adapterFuncs[k]).In(0)
		n := ft.NumIn()
		r := rng.Fork()
		cfgOf := func(i int) adapterCfg { return adapterCfgs[i%len(adapterCfgs)] }
		// wrong counts
		for _, m := range []int{0, n - 1, n + 1, n + 2} {
			if m < 0 || m == n {
				continue
			}
			args := make([]tengo.Object, m)
			for i := range args {
				args[i] = lib.Pick(r, vals)
			}
			cases = append(cases, adapterCase{k, cfgOf(m), args})
		}
		switch n {
		case 0:
			for i := range adapterCfgs {
				cases = append(cases, adapterCase{k, cfgOf(i), nil})
			}
		case 1:
			for i, v := range vals {
				for j := 0; j < 3; j++ {
					cases = append(cases, adapterCase{k, cfgOf(i + j*3), []tengo.Object{v}})
				}
			}
		case 2:
			for i, v := range vals {
				for j, w := range vals {
					cases = append(cases, adapterCase{k, cfgOf(i*7 + j), []tengo.Object{v, w}})
				}
			}
		default:
			for i := 0; i < perTernary; i++ {
				args := make([]tengo.Object, n)
				for j := range args {
					args[j] = lib.Pick(r, vals)
				}
				cases = append(cases, adapterCase{k, cfgOf(r.Intn(64)), args})
			}
		}
	}
	lines := make([]string, len(cases))
	for i, c := range cases {
		lines[i] = c.line()
	}
	answers, err := drv.Batch(lines)
	if err != nil {
		fatal(err)
	}
	for i, c := range cases {
		impl := c.runImpl()
		model := answers[i]
		called := !strings.HasSuffix(impl, " -")
		res.Count("adapter", lines[i], called)
		res.ModelLines++
		res.Dist("adapter:" + strings.SplitN(impl, " ", 3)[0])
		if impl != model {
			res.Disagree(lib.Disagreement{Stream: "adapter", Input: map[string]string{"line": lines[i]}, Model: model, Impl: impl})
		}
		adapterDocCheck(c, lines[i], impl) // round 8 (coerce.go): the same answer decided by the documented conversions, without the model
		if i%997 == 0 {
			res.Sample(map[string]string{"stream": "adapter", "line": clip(lines[i], 200), "answer": clip(impl, 120)}, 4)
		}
	}
}

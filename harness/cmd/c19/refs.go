package main

// THE EXECUTABLE SPECIFICATION: script name ↦ the Go function the module documentation names
// (docs/stdlib-text.md, -math.md, -base64.md, -hex.md, -times.md, -enum.md), with a fixed corpus that tells
// every entry from its same-shaped neighbours. Written from the documentation, not from stdlib/*.go.

import (
	"encoding/base64"
	"encoding/hex"
	"math"
	"regexp"
	"sort"
	"strconv"
	"strings"
	"time"

	"github.com/d5/tengo/v2"
	"verifharness/lib"
)

type T = []interface{}

func str(a T, i int) string    { return a[i].(string) }
func num(a T, i int) int       { return int(a[i].(int64)) }
func flt(a T, i int) float64   { return a[i].(float64) }
func tim(a T, i int) time.Time { return a[i].(time.Time) }
func orErr(v interface{}, err error) interface{} {
	if err != nil {
		return errVal(err.Error())
	}
	return v
}

var entriesList []*entry

func add(e *entry) *entry {
	e.id = e.mod + "." + e.name
	entriesList = append(entriesList, e)
	return e
}

func byResult(a T, ref interface{}, lim int) bool {
	s, ok := ref.(string)
	return ok && len(s) > lim
}

// ---------- text ----------

var ssCorpus = []T{{"xxhixx", "x"}, {"abcabc", "bc"}, {"abcabc", "cb"}, {"Go", "GO"}, {"abc", "abd"}, {"a,b,c", ","}, {"", ""},
	{"abab", "ab"}, {"xyhixy", "xy"}, {"yxhiyx", "xy"}, {"héllo wörld", "lo"}, {"a\xffb", "\xff"}, {"abc", ""}, {"b", "abc"}, {"xhix", "x"}, {"xhiy", "yx"}}

var sCorpus = []T{{" ab Cd\t"}, {"ǆ x"}, {"\"q\\n\""}, {"12"}, {"-7x"}, {"'a'"}, {"`r`"}, {"ß"}, {""}, {"hello World"}, {"a\xffb"}, {"  "}, {"+5"}}

func textEntries() {
	ssi := func(name string, f func(string, string) int) {
		add(&entry{mod: "text", name: name, params: "SS", fixed: ssCorpus, ref: func(a T) interface{} { return f(str(a, 0), str(a, 1)) }})
	}
	ssb := func(name string, f func(string, string) bool) {
		add(&entry{mod: "text", name: name, params: "SS", fixed: ssCorpus, ref: func(a T) interface{} { return f(str(a, 0), str(a, 1)) }})
	}
	sss := func(name string, f func(string, string) string) {
		add(&entry{mod: "text", name: name, params: "SS", fixed: ssCorpus, limit: byResult, ref: func(a T) interface{} { return f(str(a, 0), str(a, 1)) }})
	}
	ssl := func(name string, f func(string, string) []string) {
		add(&entry{mod: "text", name: name, params: "SS", fixed: ssCorpus, ref: func(a T) interface{} { return f(str(a, 0), str(a, 1)) }})
	}
	ss := func(name string, f func(string) string) {
		add(&entry{mod: "text", name: name, params: "S", fixed: sCorpus, limit: byResult, ref: func(a T) interface{} { return f(str(a, 0)) }})
	}
	ssi("compare", strings.Compare)
	ssb("contains", strings.Contains)
	ssb("contains_any", strings.ContainsAny)
	ssi("count", strings.Count)
	ssb("equal_fold", strings.EqualFold)
	ssb("has_prefix", strings.HasPrefix)
	ssb("has_suffix", strings.HasSuffix)
	ssi("index", strings.Index)
	ssi("index_any", strings.IndexAny)
	ssi("last_index", strings.LastIndex)
	ssi("last_index_any", strings.LastIndexAny)
	ssl("split", strings.Split)
	ssl("split_after", strings.SplitAfter)
	sss("trim", strings.Trim)
	sss("trim_left", strings.TrimLeft)
	sss("trim_prefix", strings.TrimPrefix)
	sss("trim_right", strings.TrimRight)
	sss("trim_suffix", strings.TrimSuffix)
	add(&entry{mod: "text", name: "fields", params: "S", fixed: sCorpus, ref: func(a T) interface{} { return strings.Fields(str(a, 0)) }})
	ss("title", strings.Title) //nolint
	ss("to_lower", strings.ToLower)
	ss("to_title", strings.ToTitle)
	ss("to_upper", strings.ToUpper)
	ss("trim_space", strings.TrimSpace)
	ss("quote", strconv.Quote)
	add(&entry{mod: "text", name: "atoi", params: "S", fixed: sCorpus, ref: func(a T) interface{} { return orErr(strconv.Atoi(str(a, 0))) }})
	add(&entry{mod: "text", name: "unquote", params: "S", fixed: sCorpus, ref: func(a T) interface{} { return orErr(strconv.Unquote(str(a, 0))) }})
	add(&entry{mod: "text", name: "itoa", params: "I", fixed: []T{{int64(42)}, {int64(-7)}}, ref: func(a T) interface{} { return strconv.Itoa(num(a, 0)) }})
	ssn := []T{{"a,b,c,d", ",", int64(2)}, {"a,b,c,d", ",", int64(-1)}, {"a,b,c", ",", int64(0)}, {"abc", "", int64(2)}}
	add(&entry{mod: "text", name: "split_n", params: "SSI", fixed: ssn, ref: func(a T) interface{} { return strings.SplitN(str(a, 0), str(a, 1), num(a, 2)) },
		dom: func(a T) bool { return num(a, 2) < 1<<20 }})
	add(&entry{mod: "text", name: "split_after_n", params: "SSI", fixed: ssn, ref: func(a T) interface{} { return strings.SplitAfterN(str(a, 0), str(a, 1), num(a, 2)) },
		dom: func(a T) bool { return num(a, 2) < 1<<20 }})
	add(&entry{mod: "text", name: "join", params: "AS", limit: byResult, fixed: []T{{[]string{"a", "b", "c"}, ", "}, {[]string{}, "x"}, {[]string{"q"}, "-"}},
		ref: func(a T) interface{} { return strings.Join(a[0].([]string), str(a, 1)) }})
	add(&entry{mod: "text", name: "repeat", params: "SI", limit: byResult, fixed: []T{{"ab", int64(3)}, {"x", int64(0)}, {"", int64(5)}, {"abcd", int64(4)}},
		dom: func(a T) bool { return num(a, 1) >= 0 && num(a, 1) <= 8 },
		gen: func(r *lib.RNG) T { return T{randString(r), int64(r.Intn(9))} },
		ref: func(a T) interface{} { return strings.Repeat(str(a, 0), num(a, 1)) }})
	add(&entry{mod: "text", name: "replace", params: "SSSI", limit: byResult,
		fixed: []T{{"abcabcabc", "bc", "X", int64(2)}, {"abcabc", "bc", "XYZW", int64(-1)}, {"aaa", "", "-", int64(-1)}, {"aaa", "a", "bbbbbb", int64(2)}, {"abc", "b", "b", int64(1)}},
		gen: func(r *lib.RNG) T {
			s := randString(r)
			return T{s, related(r, s), randString(r), int64(r.Intn(9) - 2)}
		},
		ref: func(a T) interface{} { return strings.Replace(str(a, 0), str(a, 1), str(a, 2), num(a, 3)) }})
	add(&entry{mod: "text", name: "substr", params: "SI|I", fixed: []T{{"hello", int64(1), int64(3)}, {"hello", int64(2)}, {"héllo", int64(0), int64(2)}, {"abc", int64(3), int64(3)}},
		dom: func(a T) bool {
			lo, hi := num(a, 1), len(str(a, 0))
			if len(a) == 3 {
				hi = num(a, 2)
			}
			return 0 <= lo && lo <= hi && hi <= len(str(a, 0))
		},
		gen: func(r *lib.RNG) T {
			s := randString(r)
			lo := r.Intn(len(s) + 1)
			hi := lo + r.Intn(len(s)-lo+1)
			if r.Bool() {
				return T{s, int64(lo)}
			}
			return T{s, int64(lo), int64(hi)}
		},
		ref: func(a T) interface{} {
			if len(a) == 3 {
				return str(a, 0)[num(a, 1):num(a, 2)]
			}
			return str(a, 0)[num(a, 1):]
		}})
	pad := func(name string, left bool) {
		add(&entry{mod: "text", name: name, params: "SI|S",
			fixed: []T{{"ab", int64(5), "x"}, {"ab", int64(5)}, {"abcdef", int64(3), "x"}, {"ab", int64(6), "xy"}, {"", int64(2), "é"}, {"ab", int64(-1), "x"}, {"", int64(5), "ab"}, {"x", int64(6), "abcd"}, {"x", int64(4), "ab"}},
			dom: func(a T) bool {
				n := num(a, 1)
				p := " "
				if len(a) == 3 {
					p = str(a, 2)
				}
				// "padded … to length pad_len": with a multi-character pad_with that does not divide the gap the
				// implementation keeps the copies adjacent to s whole and cuts the far end (S5: it used to slice
				// out of range there)
				return n <= 64 && len(p) > 0
			},
			gen: func(r *lib.RNG) T {
				s := randString(r)
				p := lib.Pick(r, []string{"x", " ", "ab", "é", "0"})
				n := len(s) + len(p)*r.Intn(4) - r.Intn(2)*r.Intn(len(s)+2) + r.Intn(2)*r.Intn(len(p)+1)
				if r.Chance(1, 3) {
					return T{s, int64(n)}
				}
				return T{s, int64(n), p}
			},
			limit: func(a T, ref interface{}, lim int) bool { return num(a, 1) > lim },
			ref: func(a T) interface{} {
				n, s := num(a, 1), str(a, 0)
				p := " "
				if len(a) == 3 {
					p = str(a, 2)
				}
				if len(s) >= n {
					return s
				}
				gap := n - len(s)
				fill := strings.Repeat(p, gap/len(p)+1)
				if left {
					return fill[len(fill)-gap:] + s
				}
				return s + fill[:gap]
			}})
	}
	pad("pad_left", true)
	pad("pad_right", false)
	add(&entry{mod: "text", name: "format_bool", params: "b", fixed: []T{{true}, {false}}, ref: func(a T) interface{} { return strconv.FormatBool(a[0].(bool)) }})
	add(&entry{mod: "text", name: "format_float", params: "fSII", fixed: []T{{1.5, "f", int64(2), int64(64)}, {1234.5678, "e", int64(-1), int64(32)}, {0.1, "g", int64(-1), int64(32)}},
		dom: func(a T) bool {
			f, p, b := str(a, 1), num(a, 2), num(a, 3)
			return len(f) >= 1 && strings.ContainsRune("eEfgGbxX", rune(f[0])) && p >= -1 && p <= 20 && (b == 32 || b == 64)
		},
		gen: func(r *lib.RNG) T {
			return T{randFloat(r), lib.Pick(r, []string{"e", "E", "f", "g", "G", "b", "x", "X", "fz"}), int64(r.Intn(10) - 1), lib.Pick(r, []int64{32, 64})}
		},
		ref: func(a T) interface{} { return strconv.FormatFloat(flt(a, 0), str(a, 1)[0], num(a, 2), num(a, 3)) }})
	add(&entry{mod: "text", name: "format_int", params: "iI", fixed: []T{{int64(255), int64(16)}, {int64(-5), int64(2)}},
		dom: func(a T) bool { return num(a, 1) >= 2 && num(a, 1) <= 36 },
		gen: func(r *lib.RNG) T { return T{randInt(r), int64(2 + r.Intn(35))} },
		ref: func(a T) interface{} { return strconv.FormatInt(a[0].(int64), num(a, 1)) }})
	add(&entry{mod: "text", name: "parse_bool", params: "s", fixed: []T{{"true"}, {"0"}, {"T"}, {"False"}},
		gen: func(r *lib.RNG) T {
			return T{lib.Pick(r, []string{"1", "t", "T", "TRUE", "true", "True", "0", "f", "F", "FALSE", "false", "False", "yes", "", "tRUE"})}
		},
		ref: func(a T) interface{} { return orErr(strconv.ParseBool(str(a, 0))) }})
	numTexts := []string{"1.5", "-2", "1e3", "0x10", "abc", "", "1e400", "  1", "3.4028236e38", "0b11", "0o17", "1_000", "9223372036854775808", "-9223372036854775808", "zz", "7f", "+12", "NaN", "inf"}
	add(&entry{mod: "text", name: "parse_float", params: "sI", fixed: []T{{"1.5", int64(64)}, {"16777217", int64(32)}},
		dom: func(a T) bool { return num(a, 1) == 32 || num(a, 1) == 64 },
		gen: func(r *lib.RNG) T { return T{lib.Pick(r, numTexts), lib.Pick(r, []int64{32, 64})} },
		ref: func(a T) interface{} { return orErr(strconv.ParseFloat(str(a, 0), num(a, 1))) }})
	add(&entry{mod: "text", name: "parse_int", params: "sII", fixed: []T{{"ff", int64(16), int64(64)}, {"-12", int64(10), int64(8)}, {"0x1f", int64(0), int64(64)}},
		dom: func(a T) bool {
			b := num(a, 1)
			return (b == 0 || (b >= 2 && b <= 36)) && num(a, 2) >= 0 && num(a, 2) <= 64
		},
		gen: func(r *lib.RNG) T {
			return T{lib.Pick(r, numTexts), lib.Pick(r, []int64{0, 2, 8, 10, 16, 36}), lib.Pick(r, []int64{0, 8, 16, 32, 64})}
		},
		ref: func(a T) interface{} { return orErr(strconv.ParseInt(str(a, 0), num(a, 1), num(a, 2))) }})
	regexpEntries()
}

// ---------- regular expressions ----------

func matchMap(s string, b, e int) string {
	return "(im (" + lib.HexS("begin") + " (i " + lib.N(b) + ")) (" + lib.HexS("end") + " (i " + lib.N(e) + ")) (" + lib.HexS("text") + " (s " + lib.HexS(s[b:e]) + ")))"
}

func matchArr(s string, m []int) string {
	var sb strings.Builder
	sb.WriteString("(a")
	for i := 0; i < len(m); i += 2 {
		if m[i] >= 0 && m[i+1] >= 0 {
			sb.WriteString(" " + matchMap(s, m[i], m[i+1]))
		}
	}
	return sb.String() + ")"
}

// "returns an array holding all matches, each of which is an array of map object that contains matching
// text, begin and end (exclusive) index" — undefined when there is no match
func refFind(re *regexp.Regexp, a T, off int) interface{} {
	s := str(a, off)
	if len(a) == off+1 {
		m := re.FindStringSubmatchIndex(s)
		if m == nil {
			return undef
		}
		return raw("(a " + matchArr(s, m) + ")")
	}
	ms := re.FindAllStringSubmatchIndex(s, num(a, off+1))
	if ms == nil {
		return undef
	}
	var sb strings.Builder
	sb.WriteString("(a")
	for _, m := range ms {
		sb.WriteString(" " + matchArr(s, m))
	}
	return raw(sb.String() + ")")
}

func withRe(a T, f func(re *regexp.Regexp) interface{}) interface{} {
	re, err := regexp.Compile(str(a, 0))
	if err != nil {
		return errVal(err.Error())
	}
	return f(re)
}

func regexpEntries() {
	pm := []T{{"a(b+)c", "xabbcx"}, {"^a", "ba"}, {"(", "x"}, {"[ab]+", "--abba--"}}
	pf := []T{{"a(b+)c", "xabbcx-abc"}, {"a(b+)c", "xabbcx-abc", int64(-1)}, {"a(b+)c", "xabbcx-abc", int64(1)}, {"z", "abc"}, {"(a)|b", "b"}, {",", "a,b,c", int64(2)}, {",", "a,b,c"}}
	pr := []T{{"a(x*)b", "-ab-axxb-", "${1}W"}, {"a(x*)b", "-ab-axxb-", "$1W"}, {"b*", "abc", "-"}, {"(?P<n>b)", "abc", "[$n]"}}
	nArg := func(a T, i, def int) int {
		if len(a) > i {
			return num(a, i)
		}
		return def
	}
	smallN := func(a T, i int) bool { return len(a) <= i || (num(a, i) > -1<<20 && num(a, i) < 1<<20) }
	add(&entry{mod: "text", name: "re_match", params: "PS", fixed: pm, ref: func(a T) interface{} {
		return orErr(regexp.MatchString(str(a, 0), str(a, 1)))
	}})
	add(&entry{mod: "text", name: "re_find", params: "PS|I", errBeforeTypes: true, fixed: append(append([]T{}, pf...), T{"(", "x", int64(1)}), dom: func(a T) bool { return smallN(a, 2) },
		ref: func(a T) interface{} {
			return withRe(a, func(re *regexp.Regexp) interface{} { return refFind(re, a, 1) })
		}})
	add(&entry{mod: "text", name: "re_replace", params: "PSR", fixed: pr, limit: byResult, ref: func(a T) interface{} {
		return withRe(a, func(re *regexp.Regexp) interface{} { return re.ReplaceAllString(str(a, 1), str(a, 2)) })
	}})
	add(&entry{mod: "text", name: "re_split", params: "PS|I", fixed: pf, dom: func(a T) bool { return smallN(a, 2) }, ref: func(a T) interface{} {
		return withRe(a, func(re *regexp.Regexp) interface{} { return re.Split(str(a, 1), nArg(a, 2, -1)) })
	}})
	// the object re_compile returns: methods called on it (pattern = first script argument)
	method := func(name string) func(n int) string {
		return func(n int) string {
			return "re := m.re_compile(a0)\nout = is_error(re) ? re : re." + name + "(" + argList(1, n) + ")"
		}
	}
	validRe := func(a T) bool { _, err := regexp.Compile(str(a, 0)); return err == nil }
	add(&entry{mod: "text", name: "regexp.match", params: "QS", tmpl: method("match"), fixed: pm[:2], dom: validRe, ref: func(a T) interface{} {
		return withRe(a, func(re *regexp.Regexp) interface{} { return re.MatchString(str(a, 1)) })
	}})
	add(&entry{mod: "text", name: "regexp.find", params: "QS|I", tmpl: method("find"), fixed: []T{pf[0], pf[1], pf[2], pf[3], pf[4], pf[5], pf[6], {"(a)|b", "b", int64(2)}},
		dom: func(a T) bool { return validRe(a) && smallN(a, 2) },
		ref: func(a T) interface{} {
			return withRe(a, func(re *regexp.Regexp) interface{} { return refFind(re, a, 1) })
		}})
	add(&entry{mod: "text", name: "regexp.replace", params: "QSR", tmpl: method("replace"), fixed: pr, dom: validRe, limit: byResult, ref: func(a T) interface{} {
		return withRe(a, func(re *regexp.Regexp) interface{} { return re.ReplaceAllString(str(a, 1), str(a, 2)) })
	}})
	add(&entry{mod: "text", name: "regexp.split", params: "QS|I", tmpl: method("split"), fixed: []T{pf[0], pf[1], pf[2], pf[3], pf[5], pf[6]},
		dom: func(a T) bool { return validRe(a) && smallN(a, 2) }, ref: func(a T) interface{} {
			return withRe(a, func(re *regexp.Regexp) interface{} { return re.Split(str(a, 1), nArg(a, 2, -1)) })
		}})
	add(&entry{mod: "text", name: "re_compile", params: "P", tmpl: func(n int) string {
		return "re := m.re_compile(" + argList(0, n) + ")\nout = is_error(re) ? re : (is_immutable_map(re) && is_callable(re.match) && is_callable(re.find) && is_callable(re.replace) && is_callable(re.split))"
	}, fixed: []T{{"a+"}, {"("}}, ref: func(a T) interface{} { return withRe(a, func(*regexp.Regexp) interface{} { return true }) }})
}

// ---------- math ----------

var fCorpus = []T{{0.3}, {-0.7}, {2.5}, {-2.5}, {10.0}, {0.5}, {1.0}, {-1.0}, {100.25}, {1e-3}, {math.NaN()}, {math.Inf(1)}, {0.0}, {3.7}, {-8.0}, {math.Copysign(0, -1)}}
var ffCorpus = []T{{3.0, -2.0}, {-2.0, 3.0}, {2.5, 1.0}, {5.5, 2.0}, {1.0, 1.5}, {0.0, -1.0}, {math.NaN(), 1.0}}

func mathEntries() {
	ff := func(name string, f func(float64) float64) {
		add(&entry{mod: "math", name: name, params: "F", fixed: fCorpus, ref: func(a T) interface{} { return f(flt(a, 0)) }})
	}
	fff := func(name string, f func(float64, float64) float64) {
		add(&entry{mod: "math", name: name, params: "FF", fixed: ffCorpus, ref: func(a T) interface{} { return f(flt(a, 0), flt(a, 1)) }})
	}
	for _, c := range []struct {
		n string
		f func(float64) float64
	}{{"abs", math.Abs}, {"acos", math.Acos}, {"acosh", math.Acosh}, {"asin", math.Asin}, {"asinh", math.Asinh}, {"atan", math.Atan},
		{"atanh", math.Atanh}, {"cbrt", math.Cbrt}, {"ceil", math.Ceil}, {"cos", math.Cos}, {"cosh", math.Cosh}, {"erf", math.Erf},
		{"erfc", math.Erfc}, {"exp", math.Exp}, {"exp2", math.Exp2}, {"expm1", math.Expm1}, {"floor", math.Floor}, {"gamma", math.Gamma},
		{"j0", math.J0}, {"j1", math.J1}, {"log", math.Log}, {"log10", math.Log10}, {"log1p", math.Log1p}, {"log2", math.Log2},
		{"logb", math.Logb}, {"sin", math.Sin}, {"sinh", math.Sinh}, {"sqrt", math.Sqrt}, {"tan", math.Tan}, {"tanh", math.Tanh},
		{"trunc", math.Trunc}, {"y0", math.Y0}, {"y1", math.Y1}} {
		ff(c.n, c.f)
	}
	for _, c := range []struct {
		n string
		f func(float64, float64) float64
	}{{"atan2", math.Atan2}, {"copysign", math.Copysign}, {"dim", math.Dim}, {"hypot", math.Hypot}, {"max", math.Max}, {"min", math.Min},
		{"mod", math.Mod}, {"nextafter", math.Nextafter}, {"pow", math.Pow}, {"remainder", math.Remainder}} {
		fff(c.n, c.f)
	}
	add(&entry{mod: "math", name: "ilogb", params: "F", fixed: fCorpus, ref: func(a T) interface{} { return math.Ilogb(flt(a, 0)) }})
	add(&entry{mod: "math", name: "is_nan", params: "F", fixed: fCorpus, ref: func(a T) interface{} { return math.IsNaN(flt(a, 0)) }})
	add(&entry{mod: "math", name: "signbit", params: "F", fixed: fCorpus, ref: func(a T) interface{} { return math.Signbit(flt(a, 0)) }})
	add(&entry{mod: "math", name: "inf", params: "I", fixed: []T{{int64(1)}, {int64(-1)}, {int64(0)}}, ref: func(a T) interface{} { return math.Inf(num(a, 0)) }})
	add(&entry{mod: "math", name: "pow10", params: "I", fixed: []T{{int64(2)}, {int64(-1)}}, ref: func(a T) interface{} { return math.Pow10(num(a, 0)) }})
	smallOrder := func(a T) bool { return num(a, 0) >= -8 && num(a, 0) <= 40 }
	add(&entry{mod: "math", name: "jn", params: "IF", dom: smallOrder, fixed: []T{{int64(2), 1.5}, {int64(0), 0.3}}, ref: func(a T) interface{} { return math.Jn(num(a, 0), flt(a, 1)) }})
	add(&entry{mod: "math", name: "yn", params: "IF", dom: smallOrder, fixed: []T{{int64(2), 1.5}, {int64(0), 0.3}}, ref: func(a T) interface{} { return math.Yn(num(a, 0), flt(a, 1)) }})
	add(&entry{mod: "math", name: "ldexp", params: "FI", fixed: []T{{0.75, int64(3)}, {math.Inf(1), int64(1)}}, ref: func(a T) interface{} { return math.Ldexp(flt(a, 0), num(a, 1)) }})
	add(&entry{mod: "math", name: "is_inf", params: "FI", fixed: []T{{math.Inf(1), int64(1)}, {math.Inf(-1), int64(1)}, {math.Inf(-1), int64(0)}, {2.0, int64(0)}},
		ref: func(a T) interface{} { return math.IsInf(flt(a, 0), num(a, 1)) }})
	add(&entry{mod: "math", name: "nan", params: "", fixed: []T{{}}, ref: func(a T) interface{} { return math.NaN() }})
	for n, v := range map[string]interface{}{
		"e": math.E, "pi": math.Pi, "phi": math.Phi, "sqrt2": math.Sqrt2, "sqrtE": math.SqrtE, "sqrtPi": math.SqrtPi, "sqrtPhi": math.SqrtPhi,
		"ln2": math.Ln2, "log2E": math.Log2E, "ln10": math.Ln10, "log10E": math.Log10E,
		"maxFloat32": float64(math.MaxFloat32), "smallestNonzeroFloat32": float64(math.SmallestNonzeroFloat32),
		"maxFloat64": math.MaxFloat64, "smallestNonzeroFloat64": math.SmallestNonzeroFloat64,
		"maxInt": int64(math.MaxInt), "minInt": int64(math.MinInt), "maxInt8": int64(math.MaxInt8), "minInt8": int64(math.MinInt8),
		"maxInt16": int64(math.MaxInt16), "minInt16": int64(math.MinInt16), "maxInt32": int64(math.MaxInt32), "minInt32": int64(math.MinInt32),
		"maxInt64": int64(math.MaxInt64), "minInt64": int64(math.MinInt64)} {
		add(&entry{mod: "math", name: n, fixed: []T{{v}}})
	}
}

// ---------- base64, hex ----------

func codecEntries() {
	yCorpus := []T{{[]byte{0xfb, 0xff}}, {[]byte("hi")}, {[]byte{}}, {[]byte("hello")}, {[]byte{0xfb, 0xff, 0xfe}}}
	sC := []T{{"aGk="}, {"aGk"}, {"-_8="}, {"+/8="}, {"-_8"}, {"+/8"}, {"!!!"}, {""}, {"6869"}, {"6g"}, {"abc"}}
	enc := func(mod, name string, f func([]byte) string) {
		add(&entry{mod: mod, name: name, params: "Y", fixed: yCorpus, ref: func(a T) interface{} { return f(a[0].([]byte)) }})
	}
	dec := func(mod, name string, f func(string) ([]byte, error)) {
		add(&entry{mod: mod, name: name, params: "S", fixed: sC, ref: func(a T) interface{} { return orErr(f(str(a, 0))) },
			gen: func(r *lib.RNG) T {
				b := []byte(randString(r))
				s := lib.Pick(r, []func([]byte) string{base64.StdEncoding.EncodeToString, base64.RawStdEncoding.EncodeToString,
					base64.URLEncoding.EncodeToString, base64.RawURLEncoding.EncodeToString, hex.EncodeToString})(b)
				if r.Chance(1, 5) {
					s = randString(r)
				}
				return T{s}
			}})
	}
	enc("base64", "encode", base64.StdEncoding.EncodeToString)
	dec("base64", "decode", base64.StdEncoding.DecodeString)
	enc("base64", "raw_encode", base64.RawStdEncoding.EncodeToString)
	dec("base64", "raw_decode", base64.RawStdEncoding.DecodeString)
	enc("base64", "url_encode", base64.URLEncoding.EncodeToString)
	dec("base64", "url_decode", base64.URLEncoding.DecodeString)
	enc("base64", "raw_url_encode", base64.RawURLEncoding.EncodeToString)
	dec("base64", "raw_url_decode", base64.RawURLEncoding.DecodeString)
	enc("hex", "encode", hex.EncodeToString)
	dec("hex", "decode", hex.DecodeString)
}

// ---------- times (clock-independent part) ----------

var t0 = time.Date(2021, 3, 9, 4, 5, 6, 7, time.UTC) // Tuesday; all components distinct

func timesEntries() {
	for n, v := range map[string]interface{}{
		"format_ansic": time.ANSIC, "format_unix_date": time.UnixDate, "format_ruby_date": time.RubyDate, "format_rfc822": time.RFC822,
		"format_rfc822z": time.RFC822Z, "format_rfc850": time.RFC850, "format_rfc1123": time.RFC1123, "format_rfc1123z": time.RFC1123Z,
		"format_rfc3339": time.RFC3339, "format_rfc3339_nano": time.RFC3339Nano, "format_kitchen": time.Kitchen, "format_stamp": time.Stamp,
		"format_stamp_milli": time.StampMilli, "format_stamp_micro": time.StampMicro, "format_stamp_nano": time.StampNano,
		"nanosecond": int64(time.Nanosecond), "microsecond": int64(time.Microsecond), "millisecond": int64(time.Millisecond),
		"second": int64(time.Second), "minute": int64(time.Minute), "hour": int64(time.Hour),
		"january": int64(time.January), "february": int64(time.February), "march": int64(time.March), "april": int64(time.April),
		"may": int64(time.May), "june": int64(time.June), "july": int64(time.July), "august": int64(time.August),
		"september": int64(time.September), "october": int64(time.October), "november": int64(time.November), "december": int64(time.December)} {
		add(&entry{mod: "times", name: n, fixed: []T{{v}}})
	}
	iC := []T{{int64(5400000000000)}, {int64(3)}, {int64(-1500000000)}, {int64(12)}}
	dur := func(name string, f func(time.Duration) interface{}) {
		add(&entry{mod: "times", name: name, params: "I", fixed: iC, ref: func(a T) interface{} { return f(time.Duration(a[0].(int64))) }})
	}
	dur("duration_hours", func(d time.Duration) interface{} { return d.Hours() })
	dur("duration_minutes", func(d time.Duration) interface{} { return d.Minutes() })
	dur("duration_nanoseconds", func(d time.Duration) interface{} { return d.Nanoseconds() })
	dur("duration_seconds", func(d time.Duration) interface{} { return d.Seconds() })
	dur("duration_string", func(d time.Duration) interface{} { return d.String() })
	add(&entry{mod: "times", name: "month_string", params: "I", fixed: iC, ref: func(a T) interface{} { return time.Month(a[0].(int64)).String() }})
	add(&entry{mod: "times", name: "parse_duration", params: "S", fixed: []T{{"1h30m"}, {"-1.5h"}, {"300ms"}, {"zz"}},
		gen: func(r *lib.RNG) T {
			return T{lib.Pick(r, []string{"1ns", "2us", "3µs", "4ms", "5s", "6m", "7h", "1h2m3s", "-1.5h", "+2s", "1.5", "", "zz", "1d", "0", ".5s", "9999999h"})}
		},
		ref: func(a T) interface{} {
			d, err := time.ParseDuration(str(a, 0))
			return orErr(int64(d), err)
		}})
	zones := []string{"UTC", "Europe/Paris", "America/New_York", "Asia/Tokyo"}
	add(&entry{mod: "times", name: "date", params: "IIIIIII|S",
		dom:   func(a T) bool { return len(a) == 8 }, // without a location the Local zone is used (excluded: OS state)
		fixed: []T{{int64(2021), int64(3), int64(9), int64(4), int64(5), int64(6), int64(7), "UTC"}, {int64(2020), int64(14), int64(35), int64(25), int64(61), int64(61), int64(-1), "Asia/Tokyo"}},
		gen: func(r *lib.RNG) T {
			z := lib.Pick(r, zones)
			if r.Chance(1, 25) {
				z = "No/Where"
			}
			return T{int64(1 + r.Intn(4000)), int64(r.Intn(16) - 1), int64(r.Intn(40) - 2), int64(r.Intn(30) - 2), int64(r.Intn(70) - 3), int64(r.Intn(70) - 3), int64(r.Intn(2000000000)) - 5, z}
		},
		ref: func(a T) interface{} {
			loc, err := time.LoadLocation(str(a, 7))
			if err != nil {
				return errVal(err.Error())
			}
			return time.Date(num(a, 0), time.Month(num(a, 1)), num(a, 2), num(a, 3), num(a, 4), num(a, 5), num(a, 6), loc)
		}})
	layouts := []string{"2006-01-02 15:04:05", time.RFC3339, time.RFC3339Nano, time.RFC1123Z, time.Kitchen, "2006", "Jan _2 15:04:05.000", time.RFC822Z}
	add(&entry{mod: "times", name: "parse", params: "SS", fixed: []T{{"2006-01-02 15:04:05", "2021-03-09 04:05:06"}, {"2006", "zz"}, {time.RFC3339, "2021-03-09T04:05:06+09:00"}},
		gen: func(r *lib.RNG) T {
			l := lib.Pick(r, layouts)
			t := randTime(r).UTC()
			if t.Year() < 1 || t.Year() > 9999 {
				t = t0
			}
			s := t.Format(l)
			if r.Chance(1, 8) {
				s = randString(r)
			}
			if r.Chance(1, 8) {
				l, s = s, l
			}
			return T{l, s}
		},
		ref: func(a T) interface{} { return orErr(time.Parse(str(a, 0), str(a, 1))) }})
	add(&entry{mod: "times", name: "unix", params: "II", fixed: []T{{int64(5), int64(7)}, {int64(1600000000), int64(-1)}},
		gen: func(r *lib.RNG) T { return T{int64(r.Intn(2000000000)) - 1000, int64(r.Intn(2000000000)) - 1000} },
		ref: func(a T) interface{} { return time.Unix(a[0].(int64), a[1].(int64)) }})
	add(&entry{mod: "times", name: "add", params: "TI", fixed: []T{{t0, int64(3600000000000)}, {t0, int64(-1)}},
		gen: func(r *lib.RNG) T { return T{randTime(r), int64(r.U64()>>20) - 1<<42} },
		ref: func(a T) interface{} { return tim(a, 0).Add(time.Duration(a[1].(int64))) }})
	add(&entry{mod: "times", name: "add_date", params: "TIII", fixed: []T{{t0, int64(1), int64(2), int64(3)}, {t0, int64(-1), int64(14), int64(-40)}},
		gen: func(r *lib.RNG) T {
			return T{randTime(r), int64(r.Intn(41) - 20), int64(r.Intn(61) - 30), int64(r.Intn(801) - 400)}
		},
		ref: func(a T) interface{} { return tim(a, 0).AddDate(num(a, 1), num(a, 2), num(a, 3)) }})
	ttC := []T{{t0, t0.Add(time.Hour)}, {t0.Add(time.Hour), t0}, {t0, t0}}
	add(&entry{mod: "times", name: "sub", params: "TT", fixed: ttC, ref: func(a T) interface{} { return int64(tim(a, 0).Sub(tim(a, 1))) }})
	add(&entry{mod: "times", name: "after", params: "TT", fixed: ttC, ref: func(a T) interface{} { return tim(a, 0).After(tim(a, 1)) }})
	add(&entry{mod: "times", name: "before", params: "TT", fixed: ttC, ref: func(a T) interface{} { return tim(a, 0).Before(tim(a, 1)) }})
	paris, _ := time.LoadLocation("Europe/Paris")
	tC := []T{{t0}, {time.Time{}}, {time.Date(1999, 12, 31, 23, 59, 58, 999999999, time.UTC)}}
	if paris != nil {
		tC = append(tC, T{t0.In(paris)})
	}
	notLocal := func(a T) bool { return tim(a, 0).Location() != time.Local }
	tf := func(name string, dom func(T) bool, f func(time.Time) interface{}) {
		add(&entry{mod: "times", name: name, params: "T", fixed: tC, dom: dom, ref: func(a T) interface{} { return f(tim(a, 0)) }})
	}
	tf("time_year", nil, func(t time.Time) interface{} { return t.Year() })
	tf("time_month", nil, func(t time.Time) interface{} { return int(t.Month()) })
	tf("time_day", nil, func(t time.Time) interface{} { return t.Day() })
	tf("time_weekday", nil, func(t time.Time) interface{} { return int(t.Weekday()) })
	tf("time_hour", nil, func(t time.Time) interface{} { return t.Hour() })
	tf("time_minute", nil, func(t time.Time) interface{} { return t.Minute() })
	tf("time_second", nil, func(t time.Time) interface{} { return t.Second() })
	tf("time_nanosecond", nil, func(t time.Time) interface{} { return t.Nanosecond() })
	tf("time_unix", nil, func(t time.Time) interface{} { return t.Unix() })
	tf("time_unix_nano", func(a T) bool { y := tim(a, 0).Year(); return y > 1678 && y < 2262 }, func(t time.Time) interface{} { return t.UnixNano() })
	tf("time_location", notLocal, func(t time.Time) interface{} { return t.Location().String() })
	tf("time_string", notLocal, func(t time.Time) interface{} { return t.String() })
	tf("is_zero", nil, func(t time.Time) interface{} { return t.IsZero() })
	tf("to_local", nil, func(t time.Time) interface{} { return t.Local() })
	tf("to_utc", nil, func(t time.Time) interface{} { return t.UTC() })
	add(&entry{mod: "times", name: "time_format", params: "TS", dom: notLocal, limit: byResult,
		fixed: []T{{t0, "2006-01-02 15:04:05.000000000 Mon Jan"}, {t0, time.RFC1123Z}, {t0, "x"}},
		gen: func(r *lib.RNG) T {
			l := lib.Pick(r, layouts)
			if r.Chance(1, 5) {
				l = randString(r)
			}
			return T{randTime(r), l}
		},
		ref: func(a T) interface{} { return tim(a, 0).Format(str(a, 1)) }})
	add(&entry{mod: "times", name: "in_location", params: "TS", fixed: []T{{t0, "UTC"}, {t0, "Asia/Tokyo"}, {t0, "No/Where"}},
		gen: func(r *lib.RNG) T {
			z := lib.Pick(r, zones)
			if r.Chance(1, 10) {
				z = "No/Where"
			}
			return T{randTime(r), z}
		},
		ref: func(a T) interface{} {
			loc, err := time.LoadLocation(str(a, 1))
			if err != nil {
				return errVal(err.Error())
			}
			return tim(a, 0).In(loc)
		}})
}

// ---------- enum (source module) ----------

func truthyGT2(v int64) bool { return v > 2 }

func enumEntries() {
	const gt2 = "func(k, v) { return v > 2 }"
	randX := func(r *lib.RNG) interface{} {
		switch r.Intn(8) {
		case 0:
			return int64(r.Intn(5))
		case 1:
			return "str"
		case 2:
			return undef
		case 3, 4:
			m := map[string]int64{}
			for i, n := 0, r.Intn(4); i < n; i++ {
				m[lib.Pick(r, []string{"a", "b", "c", "d", "e"})] = int64(r.Intn(6))
			}
			return m
		}
		xs := make([]int64, r.Intn(6))
		for i := range xs {
			xs[i] = int64(r.Intn(6))
		}
		return xs
	}
	arrC := []T{{[]int64{1, 5, 2, 4}}, {[]int64{}}, {[]int64{3, 3}}, {map[string]int64{"a": 1, "b": 7}}, {map[string]int64{"a": 1}}, {int64(3)}, {"s"}, {undef}}
	each := func(x interface{}, f func(k interface{}, v int64)) bool { // false: not enumerable
		switch t := x.(type) {
		case []int64:
			for i, v := range t {
				f(int64(i), v)
			}
		case map[string]int64:
			keys := make([]string, 0, len(t))
			for k := range t {
				keys = append(keys, k)
			}
			sort.Strings(keys)
			for _, k := range keys {
				f(k, t[k])
			}
		default:
			return false
		}
		return true
	}
	isArr := func(x interface{}) bool { _, ok := x.([]int64); return ok }
	matches := func(x interface{}) int {
		n := 0
		each(x, func(_ interface{}, v int64) {
			if v > 2 {
				n++
			}
		})
		return n
	}
	one := func(name, body string, dom func(T) bool, ref func(x interface{}) interface{}) {
		add(&entry{mod: "enum", name: name, params: "X", noWrong: true, fixed: arrC, dom: dom,
			tmpl:     func(int) string { return body },
			badCount: []string{"out = m." + name + "(a0)", "out = m." + name + "(a0, " + gt2 + ", 1)"},
			gen:      func(r *lib.RNG) T { return T{randX(r)} },
			ref:      func(a T) interface{} { return ref(a[0]) }})
	}
	one("all", "out = m.all(a0, "+gt2+")", nil, func(x interface{}) interface{} {
		ok := true
		if !each(x, func(_ interface{}, v int64) { ok = ok && v > 2 }) {
			return undef
		}
		return ok
	})
	one("any", "out = m.any(a0, "+gt2+")", nil, func(x interface{}) interface{} {
		ok := false
		if !each(x, func(_ interface{}, v int64) { ok = ok || v > 2 }) {
			return undef
		}
		return ok
	})
	one("each", "s := 0\nr := m.each(a0, func(k, v) { s += v })\nout = [r, s]", nil, func(x interface{}) interface{} {
		s := int64(0)
		each(x, func(_ interface{}, v int64) { s += v })
		return []interface{}{undef, s}
	})
	one("filter", "out = m.filter(a0, "+gt2+")", nil, func(x interface{}) interface{} {
		if !isArr(x) {
			return undef
		}
		out := []int64{}
		each(x, func(_ interface{}, v int64) {
			if v > 2 {
				out = append(out, v)
			}
		})
		return out
	})
	// over a map the first match depends on Go's map order: only maps with at most one match are inside the oracle
	uniq := func(a T) bool { return isArr(a[0]) || matches(a[0]) <= 1 }
	one("find", "out = m.find(a0, "+gt2+")", uniq, func(x interface{}) interface{} {
		var out interface{} = undef
		found := false
		if !each(x, func(_ interface{}, v int64) {
			if v > 2 && !found {
				out, found = v, true
			}
		}) {
			return undef
		}
		return out
	})
	one("find_key", "out = m.find_key(a0, "+gt2+")", uniq, func(x interface{}) interface{} {
		var out interface{} = undef
		found := false
		if !each(x, func(k interface{}, v int64) {
			if v > 2 && !found {
				out, found = k, true
			}
		}) {
			return undef
		}
		return out
	})
	one("map", "out = m.map(a0, func(k, v) { return v * 2 + 1 })", func(a T) bool {
		_, isMap := a[0].(map[string]int64)
		return !isMap || len(a[0].(map[string]int64)) <= 1
	},
		func(x interface{}) interface{} {
			out := []int64{}
			if !each(x, func(_ interface{}, v int64) { out = append(out, v*2+1) }) {
				return undef
			}
			return out
		})
	add(&entry{mod: "enum", name: "chunk", params: "XV", noWrong: true,
		fixed:    []T{{[]int64{1, 2, 3, 4, 5}, int64(2)}, {[]int64{1, 2, 3, 4}, int64(2)}, {[]int64{}, int64(3)}, {[]int64{1}, int64(0)}, {map[string]int64{"a": 1}, int64(1)}, {"s", int64(1)}},
		badCount: []string{"out = m.chunk(a0)", "out = m.chunk(a0, 1, 2)"},
		gen:      func(r *lib.RNG) T { return T{randX(r), int64(r.Intn(4))} },
		ref: func(a T) interface{} {
			xs, ok := a[0].([]int64)
			n := num(a, 1)
			if !ok || n == 0 {
				return undef
			}
			out := []interface{}{}
			for i := 0; i < len(xs); i += n {
				j := i + n
				if j > len(xs) {
					j = len(xs)
				}
				out = append(out, append([]int64{}, xs[i:j]...))
			}
			return out
		}})
	add(&entry{mod: "enum", name: "at", params: "XV", noWrong: true,
		fixed:    []T{{[]int64{4, 5, 6}, int64(1)}, {map[string]int64{"a": 1, "b": 2}, "b"}, {map[string]int64{"a": 1}, "zz"}, {[]int64{4}, "a"}, {map[string]int64{"a": 1}, int64(0)}, {int64(5), int64(0)}, {[]int64{4, 5}, int64(7)}},
		badCount: []string{"out = m.at(a0)", "out = m.at(a0, 1, 2)"},
		gen: func(r *lib.RNG) T {
			if r.Bool() {
				return T{randX(r), int64(r.Intn(6))}
			}
			return T{randX(r), lib.Pick(r, []string{"a", "b", "c", "zz"})}
		},
		ref: func(a T) interface{} {
			switch x := a[0].(type) {
			case []int64:
				if i, ok := a[1].(int64); ok && i >= 0 && int(i) < len(x) {
					return x[i]
				}
			case map[string]int64:
				if k, ok := a[1].(string); ok {
					if v, has := x[k]; has {
						return v
					}
				}
			}
			return undef
		}})
	kv := func(name string, pick int) {
		add(&entry{mod: "enum", name: name, params: "VV", noWrong: true, fixed: []T{{int64(1), "v"}, {"k", int64(2)}},
			badCount: []string{"out = m." + name + "(a0)", "out = m." + name + "(a0, 1, 2)"},
			gen:      func(r *lib.RNG) T { return T{int64(r.Intn(9)), randString(r)} },
			ref:      func(a T) interface{} { return a[pick] }})
	}
	kv("key", 0)
	kv("value", 1)
}

func allEntries() []*entry {
	if entriesList == nil {
		textEntries()
		mathEntries()
		codecEntries()
		timesEntries()
		enumEntries()
		sort.SliceStable(entriesList, func(i, j int) bool { return entriesList[i].id < entriesList[j].id })
	}
	return entriesList
}

// ---------- probes of the findings of the unchanged tree ----------

func runScriptOnce(mod, body string) outcome {
	c, err := compileBody(mod, body, 0)
	if err != nil {
		return outcome{err: err}
	}
	return runCompiled(c, nil)
}

func runFindingProbes() {
	// S1: twelve hand-written wrappers return the wrapped error AND leave it in their named `err` result
	s1 := []struct{ mod, call, goErr string }{
		{"text", `m.re_match("(", "x")`, "missing closing )"}, {"text", `m.re_find("(", "x")`, "missing closing )"},
		{"text", `m.re_replace("(", "x", "y")`, "missing closing )"}, {"text", `m.re_split("(", "x")`, "missing closing )"},
		{"text", `m.re_compile("(")`, "missing closing )"}, {"text", `m.parse_bool("zz")`, "invalid syntax"},
		{"text", `m.parse_float("zz", 64)`, "invalid syntax"}, {"text", `m.parse_int("zz", 10, 64)`, "invalid syntax"},
		{"times", `m.parse_duration("zz")`, "invalid duration"}, {"times", `m.parse("2006", "zz")`, "cannot parse"},
		{"times", `m.date(2021, 3, 9, 4, 5, 6, 7, "No/Where")`, "unknown time zone"}, {"times", `m.in_location(5, "No/Where")`, "unknown time zone"},
	}
	for _, p := range s1 {
		got := runScriptOnce(p.mod, "out = "+p.call)
		res.Count("finding-probe", "S1:"+p.call, true)
		if got.err != nil && strings.Contains(got.err.Error(), p.goErr) {
			finding("S1", sigS1, "finding-probe", map[string]interface{}{"entry": "probe-S1", "script": p.mod + ": " + p.call}, got.String(),
				"an error value holding the Go error", "Go errors must surface as error values, not as run-time errors")
		} else if _, isErr := got.obj.(*tengo.Error); !isErr {
			res.Violate(lib.Violation{Signature: "probe-S1-unexpected-outcome", Stream: "finding-probe", Input: map[string]interface{}{"script": p.call},
				Observed: got.String(), Expected: "an error value holding the Go error", Oracle: "Go errors must surface as error values"})
		}
	}
	// S2: the find method of a compiled regexp slices with the -1 indexes of an unmatched group
	for _, call := range []string{`m.re_compile("(a)|b").find("b")`, `m.re_compile("(a)|b").find("b", 2)`} {
		got := runScriptOnce("text", "out = "+call)
		res.Count("finding-probe", "S2:"+call, true)
		want := canonRef(withRe(T{"(a)|b", "b"}, func(re *regexp.Regexp) interface{} {
			if strings.Contains(call, ", 2") {
				return refFind(re, T{"(a)|b", "b", int64(2)}, 1)
			}
			return refFind(re, T{"(a)|b", "b"}, 1)
		}))
		if got.panicked != "" {
			finding("S2", "text.regexp.find-panics-on-unmatched-group", "finding-probe", map[string]interface{}{"entry": "probe-S2", "script": call}, got.String(), want,
				"re_find's documented result (unmatched groups left out); a Go panic is neither a value nor an error")
		} else if got.err != nil || canonObj(got.obj) != want {
			res.Violate(lib.Violation{Signature: "text.regexp.find-value-differs", Stream: "finding-probe", Input: map[string]interface{}{"script": call},
				Observed: got.String(), Expected: want, Oracle: "regexp.FindStringSubmatchIndex, unmatched groups left out as re_find does"})
		}
	}
	// S4: re_find compiles the pattern (and returns its error) before it looks at the type of the text argument
	for _, call := range []string{`m.re_find("(", undefined)`, `m.re_find("(", undefined, 1)`} {
		got := runScriptOnce("text", "out = "+call)
		res.Count("finding-probe", "S4:"+call, true)
		if got.err == nil && got.panicked == "" {
			finding("S4", "text.re_find-wrong-typed-text-accepted-when-pattern-invalid", "finding-probe", map[string]interface{}{"entry": "probe-S4", "script": call},
				got.String(), "run-time error (undefined has no string conversion)", "wrong argument types are rejected as run-time errors")
		}
	}
	// S3: pad_left / pad_right look at pad_with only when padding is needed
	for _, call := range []string{`m.pad_left("abcdef", 2, undefined)`, `m.pad_right("abcdef", 2, undefined)`} {
		got := runScriptOnce("text", "out = "+call)
		res.Count("finding-probe", "S3:"+call, true)
		if got.err == nil && got.panicked == "" {
			finding("S3", "text.pad-wrong-typed-pad_with-accepted-when-no-padding-needed", "finding-probe", map[string]interface{}{"entry": "probe-S3", "script": call},
				got.String(), "run-time error (undefined has no string conversion)", "wrong argument types are rejected as run-time errors")
		}
	}
}

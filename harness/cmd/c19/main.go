// Command c19: correspondence and searcher for C19 (standard-library wrappers compute what the wrapped Go
// functions compute).
//
// Streams
//
//	adapter   every exported stdlib.FuncAxxRyy applied to a probe function (records its arguments, answers with
//	          chosen values / errors / over-limit strings) on argument tuples of every runtime type vs the Lean model
//	value     (searcher) every function of text, math, base64, hex, enum and the clock-independent part of times,
//	          called through a compiled script importing the module, vs the direct Go call the documentation names
//	          (table in refs.go = the executable specification), on right-typed and coercible arguments
//	wrongtype (searcher) one argument of a type the documented coercion table has no conversion for: run-time error
//	wrongcount(searcher) one argument too few / too many: run-time error
//	const     (searcher) module constants vs the Go constants
//	limit     size-limited functions with a small tengo.MaxStringLen (model = the wrapper's limit rule)
//	finding-probe  inputs of the known findings
//	coerce    (searcher, coerce.go) one argument replaced by another type / another spelling ("010", "08", "0x10", "1_0", " 7",
//	          "0x1p4", "inf", 2.5, true, 'a', …): converted by the table of docs/runtime-types.md (written out in coerce.go,
//	          not tengo.ToX) -> the Go function's value on the converted tuple; no conversion -> run-time error
//	adapter-doc  the adapter stream's answers decided by the same table, without the model
package main

import (
	"encoding/json"
	"fmt"
	"os"
	"sort"
	"strings"

	"verifharness/lib"
)

var (
	res   *lib.Result
	drv   *lib.Driver
	flags *lib.Flags
)

func fatal(err error) {
	fmt.Fprintln(os.Stderr, "c19:", err)
	os.Exit(3)
}

func clip(s string, n int) string {
	if len(s) > n {
		return s[:n] + "…"
	}
	return s
}

func sortStrings(xs []string) { sort.Strings(xs) }

func main() {
	flags = lib.ParseFlags()
	res = lib.NewResult("C19", flags)
	var err error
	drv, err = lib.StartDriver(flags.Driver)
	if err != nil {
		fatal(err)
	}
	defer drv.Close()
	res.DriverUsed = drv != nil
	res.Rule = "adapter: all 44 adapters x all values of a 64-value sample of every runtime type (arity 1: all, arity 2: all pairs, arity 3: random), " +
		"8 probe/limit configurations, non-trivial when the wrapped function was reached; value: per table entry a fixed distinguishing corpus " +
		"(every pair of same-shaped entries of a module is separated by it) plus random right-typed / coercible tuples (strings incl. non-UTF-8, " +
		"ints, floats incl. specials, regexps from a grammar, UTC times), non-trivial when the Go reference returns a non-error value; distinct by canonical argument text; " +
		"coerce: per function entry, base tuples (fixed corpus, extra tuples with ints >= 8, 1 random) x every parameter position x a pool of other-typed values and " +
		"boundary spellings (whole pool on the first tuple of every argument count, 4 random pool values on the others) + spellings derived from the base value; " +
		"adapter-doc: every adapter case again, expected digest computed from the documented conversions"

	only := ""
	if flags.Replay != "" {
		only = replayEntry(flags.Replay) // also restores the recorded seed and tier
		res.Seed, res.Tier = flags.Seed, flags.Tier
	}
	rng := lib.NewRNG(flags.Seed)
	switch {
	case only == "":
		runAdapterStream(rng.Fork(), flags.Scale(1500, 40000))
		runSearcher(flags.Seed, flags.Scale(200, 20000), "")
		runFindingProbes()
		lib.RunProbes(res, "C19", flags.Known)
	case only == "adapter":
		runAdapterStream(rng.Fork(), flags.Scale(1500, 40000))
	case strings.HasPrefix(only, "probe-"):
		runFindingProbes()
	default:
		runSearcher(flags.Seed, flags.Scale(200, 20000), only)
	}
	res.Write(flags.Out)
}

// replayEntry: a replay file names the entry (or stream) to re-run with the given seed and tier.
func replayEntry(path string) string {
	b, err := os.ReadFile(path)
	if err != nil {
		fatal(err)
	}
	var rp struct {
		Seed       uint64 `json:"seed"`
		Tier       string `json:"tier"`
		Violations []struct {
			Stream string                 `json:"stream"`
			Input  map[string]interface{} `json:"input"`
		} `json:"violations"`
		Obligations []struct {
			Detail string `json:"detail"`
		} `json:"theorem_or_stream"`
	}
	if err := json.Unmarshal(b, &rp); err != nil {
		fatal(err)
	}
	if rp.Seed != 0 {
		flags.Seed = rp.Seed
	}
	if rp.Tier != "" {
		flags.Tier = rp.Tier
	}
	for _, v := range rp.Violations {
		if e, ok := v.Input["entry"].(string); ok {
			return e
		}
	}
	for _, o := range rp.Obligations {
		var d lib.Disagreement
		if json.Unmarshal([]byte(o.Detail), &d) == nil {
			if d.Stream == "adapter" {
				return "adapter"
			}
			if m, ok := d.Input.(map[string]interface{}); ok {
				if e, ok := m["entry"].(string); ok {
					return e
				}
			}
		}
	}
	return ""
}

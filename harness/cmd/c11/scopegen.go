package main

// A second program generator, centred on where variables live: nested function literals capturing
// at depth 1..3, assignment / op-assignment / selector assignment through captured variables,
// shadowing in blocks and functions (`x := x + 1`), loop-body declarations captured by closures that
// die with the iteration, closure factories (state captured from a finished call), local recursive
// functions, parameters shadowing outer names. Names come from a small pool so that shadowing is
// frequent. Closures never leave the loop iteration that declared a variable they capture (the
// documented scope-dependent case): inside a top-level loop a function value is only ever called.

import (
	"strings"

	"verifharness/lib"
)

type svar struct {
	name string
	kind int // 0 int, 1 array, 2 map, 3 function (arity in n), 4 counter closure (arity 0)
	n    int
	ro   bool // loop variable / function: never assigned
}

type sgen struct {
	r      *lib.RNG
	sb     strings.Builder
	ind    int
	scopes [][]*svar
	depth  int
	fdepth int
	loops  int
	budget int
	fresh  int
	Feat   map[string]int
	// copyForms: also generate copy() of closures (copygen.go); off for the original program sequence
	copyForms bool
}

var spool = []string{"a", "b", "c", "d", "e", "x", "y", "n", "acc", "t"}

func newScopeGen(r *lib.RNG) *sgen {
	return &sgen{r: r, scopes: [][]*svar{{}}, Feat: map[string]int{}}
}

func (g *sgen) line(s string) {
	g.sb.WriteString(strings.Repeat("\t", g.ind) + s + "\n")
}

func (g *sgen) push() { g.scopes = append(g.scopes, nil) }
func (g *sgen) pop()  { g.scopes = g.scopes[:len(g.scopes)-1] }

// visible returns the innermost binding per name.
func (g *sgen) visible(pred func(*svar) bool) []*svar {
	seen := map[string]bool{}
	var out []*svar
	for i := len(g.scopes) - 1; i >= 0; i-- {
		for j := len(g.scopes[i]) - 1; j >= 0; j-- {
			v := g.scopes[i][j]
			if seen[v.name] {
				continue
			}
			seen[v.name] = true
			if pred(v) {
				out = append(out, v)
			}
		}
	}
	return out
}

func (g *sgen) inCurrent(name string) bool {
	for _, v := range g.scopes[len(g.scopes)-1] {
		if v.name == name {
			return true
		}
	}
	return false
}

// newName picks a name that is not yet declared in the current block (re-declaration is a compile
// error); it often shadows an outer binding.
func (g *sgen) newName() string {
	for k := 0; k < 8; k++ {
		n := lib.Pick(g.r, spool)
		if !g.inCurrent(n) {
			if len(g.visible(func(v *svar) bool { return v.name == n })) > 0 {
				g.Feat["shadow"]++
			}
			return n
		}
	}
	g.fresh++
	return "u" + lib.N(g.fresh)
}

// fnName: function-valued variables get names nothing else uses (`f := func…` makes f visible
// inside the literal, so a shadowing function name would silently turn a call of the outer
// function into a recursive call).
func (g *sgen) fnName() string {
	g.fresh++
	return lib.Pick(g.r, []string{"f", "g", "h", "fn"}) + lib.N(g.fresh)
}

func (g *sgen) declare(v *svar) {
	cur := len(g.scopes) - 1
	g.scopes[cur] = append(g.scopes[cur], v)
}

func (g *sgen) pick(kind int, assignable bool) *svar {
	vs := g.visible(func(v *svar) bool { return v.kind == kind && (!assignable || !v.ro) })
	if len(vs) == 0 {
		return nil
	}
	return lib.Pick(g.r, vs)
}

func (g *sgen) intExpr(d int) string {
	if d <= 0 || g.r.Chance(1, 3) {
		if v := g.pick(0, false); v != nil && g.r.Chance(4, 5) {
			return v.name
		}
		return lib.Pick(g.r, []string{"0", "1", "2", "3", "5", "10", "-1"})
	}
	switch g.r.Intn(9) {
	case 0, 1:
		return "(" + g.intExpr(d-1) + lib.Pick(g.r, []string{" + ", " - ", " * "}) + g.intExpr(d-1) + ")"
	case 2:
		if a := g.pick(1, false); a != nil {
			return "(" + a.name + "[" + lib.Pick(g.r, []string{"0", "1", "2"}) + "] || 0)"
		}
	case 3:
		if m := g.pick(2, false); m != nil {
			return "(" + m.name + "." + lib.Pick(g.r, []string{"k", "j"}) + " || 0)"
		}
	case 4:
		if f := g.pick(3, false); f != nil {
			args := make([]string, f.n)
			for i := range args {
				args[i] = g.intExpr(d - 1)
			}
			g.Feat["call"]++
			return f.name + "(" + strings.Join(args, ", ") + ")"
		}
	case 5:
		if f := g.pick(4, false); f != nil {
			g.Feat["counter-call"]++
			return f.name + "()"
		}
	case 6:
		if a := g.pick(1, false); a != nil {
			return "len(" + a.name + ")"
		}
	case 7:
		return "(" + g.intExpr(d-1) + " > " + g.intExpr(d-1) + " ? " + g.intExpr(d-1) + " : " + g.intExpr(d-1) + ")"
	}
	return "(" + g.intExpr(d-1) + " + " + g.intExpr(d-1) + ")"
}

func (g *sgen) program() string {
	g.budget = 6 + g.r.Intn(16)
	g.defInt()
	if g.r.Bool() {
		g.defArr()
	}
	if g.r.Bool() {
		g.defMap()
	}
	for g.budget > 0 {
		g.stmt()
	}
	return g.sb.String()
}

func (g *sgen) defInt() {
	e := g.intExpr(2) // before the name exists in this block: may read the shadowed outer binding
	n := g.newName()
	g.line(n + " := " + e)
	g.declare(&svar{name: n, kind: 0})
}

func (g *sgen) defArr() {
	e := "[" + g.intExpr(1) + ", " + g.intExpr(1) + ", " + g.intExpr(1) + "]"
	n := g.newName()
	g.line(n + " := " + e)
	g.declare(&svar{name: n, kind: 1})
}

func (g *sgen) defMap() {
	e := "{k: " + g.intExpr(1) + ", j: " + g.intExpr(1) + "}"
	n := g.newName()
	g.line(n + " := " + e)
	g.declare(&svar{name: n, kind: 2})
}

func (g *sgen) block(body func()) {
	g.ind++
	g.depth++
	g.push()
	body()
	g.pop()
	g.depth--
	g.ind--
}

func (g *sgen) stmts(n int) {
	for i := 0; i < n && g.budget > 0; i++ {
		g.stmt()
	}
}

func (g *sgen) stmt() {
	g.budget--
	deep := g.depth >= 5
	w := []int{
		5,                 // 0 define int
		6,                 // 1 assign / op-assign / incdec
		4,                 // 2 index / selector assignment
		b2i(!deep) * 3,    // 3 if block
		b2i(!deep) * 3,    // 4 for loop
		b2i(!deep && g.fdepth < 3) * 6, // 5 closure definition (+ calls)
		b2i(!deep && g.fdepth < 2) * 2, // 6 counter factory
		b2i(!deep && g.fdepth < 2) * 2, // 7 local recursive function
		2,                 // 8 define array / map
		b2i(!deep) * 2,    // 9 for-in
		b2i(g.fdepth < 3) * 2, // 10 iife statement mutating outer variables
		b2i(!deep && g.loops == 0 && g.fdepth < 3) * 3, // 11 closure that outlives the (non-loop) block declaring its variable
		b2i(g.copyForms && !deep && g.loops == 0 && g.fdepth < 3) * 5, // 12 copy() of closures over outer variables (copygen.go)
	}
	switch g.r.Weighted(w) {
	case 0:
		g.defInt()
	case 1:
		g.assign()
	case 2:
		g.selAssign()
	case 3:
		g.Feat["if"]++
		g.line("if " + g.intExpr(1) + " >= " + g.intExpr(1) + " {")
		g.block(func() { g.stmts(1 + g.r.Intn(3)) })
		if g.r.Bool() {
			g.line("} else {")
			g.block(func() { g.stmts(1 + g.r.Intn(2)) })
		}
		g.line("}")
	case 4:
		g.Feat["for"]++
		g.fresh++
		i := "i" + lib.N(g.fresh)
		g.line("for " + i + " := 0; " + i + " < " + lib.Pick(g.r, []string{"1", "2", "3", "4"}) + "; " + i + "++ {")
		g.loops++
		g.block(func() {
			g.declare(&svar{name: i, kind: 0, ro: true})
			g.stmts(1 + g.r.Intn(4))
		})
		g.loops--
		g.line("}")
	case 5:
		g.closure()
	case 6:
		g.counterFactory()
	case 7:
		g.recursive()
	case 8:
		if g.r.Bool() {
			g.defArr()
		} else {
			g.defMap()
		}
	case 9:
		if a := g.pick(1, false); a != nil {
			g.Feat["for-in"]++
			g.fresh++
			k, v := "k"+lib.N(g.fresh), "w"+lib.N(g.fresh)
			g.line("for " + k + ", " + v + " in " + a.name + " {")
			g.loops++
			g.block(func() {
				g.declare(&svar{name: k, kind: 0, ro: true})
				g.declare(&svar{name: v, kind: 0, ro: true})
				g.stmts(1 + g.r.Intn(3))
			})
			g.loops--
			g.line("}")
		} else {
			g.defArr()
		}
	case 11:
		g.escapeBlock()
	case 12:
		g.copyClosures()
	case 10:
		g.Feat["iife-stmt"]++
		g.line("(func() {")
		g.fdepth++
		saved := g.loops
		g.loops = 0
		g.block(func() { g.stmts(1 + g.r.Intn(3)) })
		g.loops = saved
		g.fdepth--
		g.line("})()")
	}
}

func (g *sgen) assign() {
	v := g.pick(0, true)
	if v == nil {
		g.defInt()
		return
	}
	switch g.r.Intn(4) {
	case 0:
		g.Feat["assign"]++
		g.line(v.name + " = " + g.intExpr(2))
	case 1:
		g.Feat["opassign"]++
		g.line(v.name + lib.Pick(g.r, []string{" += ", " -= ", " *= ", " |= "}) + g.intExpr(1))
	case 2:
		g.Feat["incdec"]++
		g.line(v.name + lib.Pick(g.r, []string{"++", "--"}))
	default:
		// `x := x + 1` in a nested block or function: a new variable initialised from the outer one
		if g.depth > 0 && !g.inCurrent(v.name) {
			g.Feat["shadow-self"]++
			g.line(v.name + " := " + v.name + " + " + g.intExpr(1))
			g.declare(&svar{name: v.name, kind: 0})
		} else {
			g.line(v.name + " = " + v.name + " * 2 + " + g.intExpr(1))
		}
	}
}

func (g *sgen) selAssign() {
	if g.r.Bool() {
		if a := g.pick(1, false); a != nil {
			g.Feat["index-assign"]++
			op := lib.Pick(g.r, []string{" = ", " += "})
			g.line(a.name + "[" + lib.Pick(g.r, []string{"0", "1", "2"}) + "]" + op + g.intExpr(1))
			return
		}
	}
	if m := g.pick(2, false); m != nil {
		g.Feat["selector-assign"]++
		k := lib.Pick(g.r, []string{"k", "j", "z"})
		switch g.r.Intn(3) {
		case 0:
			g.line(m.name + "." + k + " = " + g.intExpr(1))
		case 1:
			g.line(m.name + "[\"" + k + "\"] = " + g.intExpr(1))
		default:
			g.line(m.name + ".k += " + g.intExpr(1))
		}
		return
	}
	g.assign()
}

// closure defines `f := func(p…) { …; return e }` whose body reads and writes the variables of the
// enclosing scopes, then calls it (and sometimes writes a captured variable between two calls).
func (g *sgen) closure() {
	g.Feat["closure"]++
	np := g.r.Intn(3)
	var ps []string
	for i := 0; i < np; i++ {
		ps = append(ps, lib.Pick(g.r, spool)) // parameters shadow outer names
	}
	ps = uniq(ps)
	f := g.fnName()
	g.line(f + " := func(" + strings.Join(ps, ", ") + ") {")
	g.fdepth++
	saved := g.loops
	g.loops = 0
	// the function's own name is visible inside (recursion idiom) but we do not call it there
	g.block(func() {
		for _, p := range ps {
			g.declare(&svar{name: p, kind: 0})
		}
		g.stmts(1 + g.r.Intn(4))
		g.line("return " + g.intExpr(2))
	})
	g.loops = saved
	g.fdepth--
	g.line("}")
	fv := &svar{name: f, kind: 3, n: len(ps), ro: true}
	g.declare(fv)
	call := func() string {
		args := make([]string, len(ps))
		for i := range args {
			args[i] = g.intExpr(1)
		}
		return f + "(" + strings.Join(args, ", ") + ")"
	}
	r1 := g.newName()
	g.line(r1 + " := " + call())
	g.declare(&svar{name: r1, kind: 0})
	if g.r.Chance(2, 3) {
		// write a (possibly captured) variable in the owner's scope, then call again
		g.Feat["write-after-capture"]++
		g.assign()
		if g.r.Bool() {
			g.selAssign()
		}
		if v := g.pick(0, true); v != nil {
			g.line(v.name + " = " + v.name + " + " + call())
		}
	}
}

func uniq(xs []string) []string {
	seen := map[string]bool{}
	var out []string
	for _, x := range xs {
		if !seen[x] {
			seen[x] = true
			out = append(out, x)
		}
	}
	return out
}

// counterFactory: closures over a local of a finished call; two instances must not share state.
func (g *sgen) counterFactory() {
	g.Feat["factory"]++
	mk := g.fnName()
	st := lib.Pick(g.r, spool)
	param, arg := "", ""
	if g.r.Bool() {
		param, arg = "s0", lib.Pick(g.r, []string{"7", "0", "-2"})
	}
	g.line(mk + " := func(" + param + ") {")
	g.ind++
	start := g.intExpr(1)
	if param != "" {
		start = "s0 + " + start
	}
	g.line(st + " := " + start)
	step := lib.Pick(g.r, []string{"1", "2", st})
	g.line("return func() { " + st + " += " + step + "; return " + st + " }")
	g.ind--
	g.line("}")
	g.declare(&svar{name: mk, kind: 5, ro: true})
	c1, c2 := g.fnName(), ""
	g.line(c1 + " := " + mk + "(" + arg + ")")
	g.declare(&svar{name: c1, kind: 4, ro: true})
	if g.r.Bool() {
		c2 = g.fnName()
		g.line(c2 + " := " + mk + "(" + arg + ")")
		g.declare(&svar{name: c2, kind: 4, ro: true})
	}
	r := g.newName()
	e := c1 + "() * 100 + " + c1 + "()"
	if c2 != "" {
		e += " * 10 + " + c2 + "()"
	}
	g.line(r + " := " + e)
	g.declare(&svar{name: r, kind: 0})
}

// escapeBlock: a closure assigned to a variable of the enclosing scope captures a variable declared
// in an `if` block and is called after the block has ended (no loop involved, so every placement must
// agree). At top level the block variable is a global slot of its own; in a function it is a local
// slot that later declarations reuse while the closure keeps its cell.
func (g *sgen) escapeBlock() {
	g.Feat["escape-block"]++
	h := g.fnName()
	g.line(h + " := func() { return " + g.intExpr(0) + " }")
	g.declare(&svar{name: h, kind: 5, ro: true})
	g.line("if " + g.intExpr(1) + " >= " + g.intExpr(1) + " {")
	g.block(func() {
		if g.r.Bool() {
			g.defInt()
		}
		t := g.newName()
		g.line(t + " := " + g.intExpr(1))
		g.declare(&svar{name: t, kind: 0})
		g.line(h + " = func() { " + t + " += " + g.intExpr(0) + "; return " + t + " }")
		if g.r.Bool() {
			g.assign()
		}
	})
	g.line("}")
	// declarations after the block reuse the block's slots
	g.defInt()
	if g.r.Bool() {
		g.defInt()
	}
	r := g.newName()
	g.line(r + " := " + h + "() * 10 + " + h + "()")
	g.declare(&svar{name: r, kind: 0})
}

// recursive: `f := func(n) { … f(n-1) … }` — inside a function the name is a local captured before
// it is assigned (the NULL; DEFL; GETLP; CLOSURE; SETL sequence of compiler.go).
func (g *sgen) recursive() {
	g.Feat["recursive"]++
	f := g.fnName()
	outer := g.pick(0, true)
	g.line(f + " := func(m) {")
	g.ind++
	g.line("if m <= 0 { return " + g.intExpr(0) + " }")
	if outer != nil && g.r.Bool() {
		g.line(outer.name + " += 1")
	}
	g.line("return m + " + f + "(m - 1)")
	g.ind--
	g.line("}")
	// kind 6: never called from generated expressions (an arbitrary argument means arbitrary depth,
	// and the frame/stack limits are not the subject here)
	g.declare(&svar{name: f, kind: 6, n: 1, ro: true})
	r := g.newName()
	g.line(r + " := " + f + "(" + lib.Pick(g.r, []string{"0", "1", "3", "6"}) + ")")
	g.declare(&svar{name: r, kind: 0})
}

func b2i(b bool) int {
	if b {
		return 1
	}
	return 0
}

// Command c11: correspondence and searcher for C11 (a program means the same wherever its
// variables live).
//
// Streams
//
//	symops   random / compiler-shaped sequences of symbol-table operations on the real
//	         tengo.SymbolTable versus the Lean model Tengo.Model.Symtab (Disagree)
//	meta     metamorphic search on the real code only (Violate): every generated program is compared
//	         with (i) the same statements inside a function body, (ii) inside a source-module body
//	         (plus an importer that declares the same names), (iii) sub-expressions wrapped in
//	         immediately invoked function literals, (iv) injective renamings (values, errors AND
//	         bytecode), and compositions of these
package main

import (
	"bytes"
	"context"
	"encoding/json"
	"fmt"
	"os"
	"regexp"
	"strings"
	"time"

	"github.com/d5/tengo/v2"
	"verifharness/lib"
)

var (
	res *lib.Result
	drv *lib.Driver
)

func fatal(err error) {
	fmt.Fprintln(os.Stderr, "c11:", err)
	os.Exit(3)
}

func clip(s string, n int) string {
	if len(s) > n {
		return s[:n] + "…"
	}
	return s
}

// ---- running real code ----

type outcome struct {
	Class string   // ok | perr | cerr | rerr | panic | timeout | shape
	Msg   string   // first line of the error, positions never included
	Vals  []string // canonical values, one per collected name
}

func (o outcome) String() string {
	if o.Class == "ok" {
		return "ok [" + strings.Join(o.Vals, " ") + "]"
	}
	return o.Class + " " + o.Msg
}

func errOutcome(err error) outcome {
	msg := err.Error()
	first := msg
	if i := strings.Index(first, "\n"); i >= 0 {
		first = first[:i]
	}
	switch {
	case strings.HasPrefix(msg, "Parse Error"):
		return outcome{Class: "perr", Msg: first}
	case strings.HasPrefix(msg, "Compile Error: "):
		return outcome{Class: "cerr", Msg: strings.TrimPrefix(first, "Compile Error: ")}
	case strings.HasPrefix(msg, "Runtime Error: "):
		return outcome{Class: "rerr", Msg: strings.TrimPrefix(first, "Runtime Error: ")}
	case err == context.DeadlineExceeded:
		return outcome{Class: "timeout"}
	}
	return outcome{Class: "panic", Msg: first}
}

// runScript compiles and runs main (with the source modules given) through the Script API and
// hands the compiled program to read.
func runScript(main string, modules map[string]string, read func(c *tengo.Compiled) outcome) outcome {
	var out outcome
	g := lib.Guard(10*time.Second, func() {
		s := tengo.NewScript([]byte(main))
		if len(modules) > 0 {
			mm := tengo.NewModuleMap()
			for n, src := range modules {
				mm.AddSourceModule(n, []byte(src))
			}
			s.SetImports(mm)
		}
		c, err := s.Compile()
		if err != nil {
			out = errOutcome(err)
			return
		}
		ctx, cancel := context.WithTimeout(context.Background(), 4*time.Second)
		defer cancel()
		if err := c.RunContext(ctx); err != nil {
			out = errOutcome(err)
			return
		}
		out = read(c)
	})
	if g.Panicked {
		return outcome{Class: "panic", Msg: g.PanicVal}
	}
	if g.TimedOut {
		return outcome{Class: "timeout"}
	}
	return out
}

// readGlobals collects the named globals.
func readGlobals(names []string) func(c *tengo.Compiled) outcome {
	return func(c *tengo.Compiled) outcome {
		o := outcome{Class: "ok"}
		for _, n := range names {
			v := c.Get(n)
			if v == nil {
				o.Vals = append(o.Vals, "missing")
				continue
			}
			o.Vals = append(o.Vals, lib.Canon(v.Object()))
		}
		return o
	}
}

// readArray reads the elements of the (immutable) array held by global `name`, followed by extra
// plain globals.
func readArray(name string, n int, extra []string) func(c *tengo.Compiled) outcome {
	return func(c *tengo.Compiled) outcome {
		v := c.Get(name)
		var elems []tengo.Object
		switch a := v.Object().(type) {
		case *tengo.Array:
			elems = a.Value
		case *tengo.ImmutableArray:
			elems = a.Value
		default:
			return outcome{Class: "shape", Msg: name + " is " + lib.Canon(v.Object())}
		}
		if len(elems) != n {
			return outcome{Class: "shape", Msg: fmt.Sprintf("%s has %d elements, want %d", name, len(elems), n)}
		}
		o := outcome{Class: "ok"}
		for _, e := range elems {
			o.Vals = append(o.Vals, lib.Canon(e))
		}
		for _, x := range extra {
			o.Vals = append(o.Vals, lib.Canon(c.Get(x).Object()))
		}
		return o
	}
}

func same(a, b outcome) bool {
	if a.Class != b.Class {
		return false
	}
	if a.Class == "ok" {
		if len(a.Vals) != len(b.Vals) {
			return false
		}
		for i := range a.Vals {
			if a.Vals[i] != b.Vals[i] {
				return false
			}
		}
		return true
	}
	return a.Msg == b.Msg
}

func resourceLimit(o outcome) bool {
	return o.Class == "rerr" && strings.Contains(o.Msg, "stack overflow") ||
		o.Class == "panic" && strings.Contains(o.Msg, "index out of range [2048]")
}

// ---- one variant ----

type variantInput struct {
	Source         string            `json:"source"`
	Transformation string            `json:"transformation"` // func | module | module-isolation | iife | rename | iife+func | rename+func
	Detail         string            `json:"detail,omitempty"`
	Names          []string          `json:"names"`
	Variant        string            `json:"variant"`
	Main           string            `json:"main,omitempty"`    // importer of the module variants
	Sigma          map[string]string `json:"sigma,omitempty"`   // renaming
	Sentinels      []string          `json:"sentinels,omitempty"`
}

var quoted = regexp.MustCompile(`'([^']*)'`)

func mapMsg(msg string, sigma map[string]string) string {
	if len(sigma) == 0 {
		return msg
	}
	return quoted.ReplaceAllStringFunc(msg, func(q string) string {
		if nn, ok := sigma[q[1:len(q)-1]]; ok {
			return "'" + nn + "'"
		}
		return q
	})
}

// evalVariant runs the variant the way its transformation asks and returns the outcome to compare
// with the original's.
func evalVariant(in variantInput) outcome {
	n := len(in.Names)
	switch in.Transformation {
	case "func", "iife+func", "rename+func":
		return runScript(in.Variant, nil, readArray("__out", n, nil))
	case "module":
		return runScript(in.Main, map[string]string{"m": in.Variant}, readArray("__out", n, nil))
	case "module-isolation":
		return runScript(in.Main, map[string]string{"m": in.Variant}, readArray("__out", n, in.Sentinels))
	case "rename":
		names := make([]string, n)
		for i, x := range in.Names {
			names[i] = x
			if nn, ok := in.Sigma[x]; ok {
				names[i] = nn
			}
		}
		return runScript(in.Variant, nil, readGlobals(names))
	}
	return runScript(in.Variant, nil, readGlobals(in.Names))
}

// check compares one variant with the original's outcome; a difference is a violation of C11.
func check(orig outcome, in variantInput) bool {
	got := evalVariant(in)
	want := orig
	if in.Transformation == "rename" || in.Transformation == "rename+func" {
		want.Msg = mapMsg(orig.Msg, in.Sigma)
	}
	if in.Transformation == "module-isolation" && want.Class == "ok" {
		for range in.Sentinels {
			want.Vals = append(append([]string{}, want.Vals...), lib.Canon(&tengo.String{Value: "main's own"}))
		}
	}
	res.Count("meta:"+in.Transformation, in.Variant, true)
	if got.Class == "timeout" || got.Class == "perr" {
		res.Dist("variant-skipped:" + got.Class)
		return true
	}
	if resourceLimit(got) && !resourceLimit(want) {
		// the transformation adds call frames; running into the frame/stack limit is not a change of meaning
		res.Dist("variant-skipped:frame-or-stack-limit")
		return true
	}
	if same(got, want) {
		return true
	}
	what := "value-differs"
	if got.Class != want.Class {
		what = want.Class + "-becomes-" + got.Class
	} else if got.Class != "ok" {
		what = "error-differs"
	}
	res.Violate(lib.Violation{Signature: in.Transformation + ":" + what, Stream: "meta", Input: in,
		Observed: clip(got.String(), 1200), Expected: clip(want.String(), 1200),
		Oracle: "metamorphic: the transformed program must compute the same values / fail with the same error as the original (real code on both sides)"})
	return false
}

// ---- bytecode of renamed programs ----

func bytecodeDump(src string) (string, error) {
	c, err := lib.CompileSource([]byte(src), lib.CompileOpts{})
	if err != nil {
		return "", err
	}
	var sb strings.Builder
	fmt.Fprintf(&sb, "main %x\n", c.BC.MainFunction.Instructions)
	for i, k := range c.BC.Constants {
		if f, ok := k.(*tengo.CompiledFunction); ok {
			fmt.Fprintf(&sb, "const %d fn locals=%d params=%d varargs=%v %x\n", i, f.NumLocals, f.NumParameters, f.VarArgs, f.Instructions)
		} else {
			fmt.Fprintf(&sb, "const %d %s\n", i, lib.Canon(k))
		}
	}
	return sb.String(), nil
}

func checkRenameBytecode(in variantInput) {
	a, errA := bytecodeDump(in.Source)
	b, errB := bytecodeDump(in.Variant)
	if errA != nil || errB != nil {
		return // compile errors are compared through the run path
	}
	res.Count("meta:rename-bytecode", in.Variant, true)
	if a != b {
		res.Violate(lib.Violation{Signature: "rename:bytecode-differs", Stream: "meta", Input: in,
			Observed: clip(firstDiff(a, b), 600), Expected: "identical instructions and constants",
			Oracle: "names reach the bytecode only through symbol-table lookups: a consistently renamed program compiles to the same instructions and constants"})
	}
}

func firstDiff(a, b string) string {
	la, lb := strings.Split(a, "\n"), strings.Split(b, "\n")
	for i := 0; i < len(la) && i < len(lb); i++ {
		if la[i] != lb[i] {
			return "original: " + la[i] + " | renamed: " + lb[i]
		}
	}
	return fmt.Sprintf("%d vs %d lines", len(la), len(lb))
}

// ---- the reference interpreter as a safety net for the placement variants ----

// specSame asks the Lean reference interpreter (C01's model) whether top-level and function
// placement mean the same for this program: "same", "differs" or "unknown" (outside the modelled
// language, out of fuel, no driver).
func specSame(p *program, names []string, fnVariant string) string {
	if drv == nil {
		return "unknown"
	}
	q, err := parseProgram(fnVariant)
	if err != nil {
		return "unknown"
	}
	d := lib.ASTDumper{}
	a1, err1 := drv.Ask(lib.L("spec", "200000", "()", d.File(p.file)))
	a2, err2 := drv.Ask(lib.L("spec", "200000", "()", d.File(q.file)))
	if err1 != nil || err2 != nil {
		fatal(fmt.Errorf("driver: %v %v", err1, err2))
	}
	res.ModelLines += 2
	c1, c2 := strings.Fields(a1)[0], strings.Fields(a2)[0]
	for _, c := range []string{c1, c2} {
		switch c {
		case "ok", "cerr", "rerr":
		default:
			return "unknown"
		}
	}
	if c1 != c2 {
		return "differs"
	}
	if c1 != "ok" {
		if a1 == a2 {
			return "same"
		}
		return "differs"
	}
	g1 := specGlobals(a1)
	g2 := specGlobals(a2)
	out, ok := g2["__out"]
	if !ok {
		return "unknown"
	}
	elems := splitTop(strings.TrimSuffix(strings.TrimPrefix(out, "(a"), ")"))
	if len(elems) != len(names) {
		return "unknown"
	}
	for i, n := range names {
		if g1[n] != elems[i] {
			return "differs"
		}
	}
	return "same"
}

func specGlobals(ans string) map[string]string {
	m := map[string]string{}
	for _, it := range splitTop(strings.TrimPrefix(ans, "ok")) {
		inner := strings.TrimSuffix(strings.TrimPrefix(it, "("), ")")
		sp := strings.Index(inner, " ")
		if sp < 0 || !strings.HasPrefix(inner, "#") {
			continue
		}
		var name []byte
		fmt.Sscanf(inner[1:sp], "%x", &name)
		m[string(name)] = strings.TrimSpace(inner[sp+1:])
	}
	return m
}

// splitTop splits a sequence of S-expressions at depth 0.
func splitTop(s string) []string {
	var out []string
	depth, start := 0, -1
	for i := 0; i < len(s); i++ {
		switch s[i] {
		case '(':
			if depth == 0 && start < 0 {
				start = i
			}
			depth++
		case ')':
			depth--
			if depth == 0 && start >= 0 {
				out = append(out, s[start:i+1])
				start = -1
			}
		case ' ', '\t':
			if depth == 0 && start >= 0 {
				out = append(out, s[start:i])
				start = -1
			}
		default:
			if depth == 0 && start < 0 {
				start = i
			}
		}
	}
	if start >= 0 {
		out = append(out, s[start:])
	}
	return out
}

// ---- one program, all its variants ----

func checkProgram(src string, feats map[string]int, r *lib.RNG, thorough bool) {
	p, err := parseProgram(src)
	if err != nil {
		res.Dist("skip:parse-error")
		return
	}
	if p.hasTopLevelOnly() {
		res.Dist("skip:top-level-only-construct")
		res.Skipped++
		return
	}
	names := p.topLevelNames()
	orig := runScript(src, nil, readGlobals(names))
	switch orig.Class {
	case "timeout", "panic", "perr":
		if os.Getenv("C11_DEBUG") != "" {
			fmt.Fprintln(os.Stderr, "ORIGINAL", orig.String(), "\n"+src)
		}
		res.Dist("skip:original-" + orig.Class)
		res.Skipped++
		return
	}
	res.Dist("original:" + orig.Class)
	nontrivial := len(feats) >= 5 && strings.Contains(src, "func(")
	res.Count("meta:programs", src, nontrivial)
	res.Sample(map[string]interface{}{"source": clip(src, 600), "outcome": clip(orig.String(), 200)}, 2)
	base := variantInput{Source: src, Names: names}

	// (iv) renamings
	for k := 0; k < 2; k++ {
		sigma := p.renaming(r)
		if len(sigma) == 0 {
			break
		}
		v := p.rename(sigma)
		q, err := parseProgram(v)
		if err != nil || !renameConsistent(p, q, sigma) {
			res.Dist("variant-skipped:rename-not-consistent")
			continue
		}
		in := base
		in.Transformation, in.Variant, in.Sigma = "rename", v, sigma
		check(orig, in)
		checkRenameBytecode(in)
		if k == 0 && !p.scopeDependent() {
			in2 := in
			in2.Transformation = "rename+func"
			rn := make([]string, len(names))
			for i, x := range names {
				rn[i] = x
				if nn, ok := sigma[x]; ok {
					rn[i] = nn
				}
			}
			in2.Variant = q.inFunction(rn)
			check(orig, in2)
		}
	}

	// (iii) immediately invoked function literals
	sites := p.wrapSites()
	res.Distribution["wrap-sites"] += len(sites)
	var picks [][]site
	single := 6
	if thorough {
		single = len(sites)
	}
	perm := make([]int, len(sites))
	for i := range perm {
		perm[i] = i
	}
	for i := len(perm) - 1; i > 0; i-- {
		j := r.Intn(i + 1)
		perm[i], perm[j] = perm[j], perm[i]
	}
	for i := 0; i < len(perm) && i < single; i++ {
		picks = append(picks, []site{sites[perm[i]]})
	}
	for k := 0; k < 3 && len(sites) > 1; k++ {
		var sub []site
		den := 2 + r.Intn(4)
		for _, s := range sites {
			if r.Chance(1, den) {
				sub = append(sub, s)
			}
		}
		if len(sub) > 1 {
			picks = append(picks, sub)
		}
	}
	if len(sites) > 1 && len(sites) <= 40 {
		picks = append(picks, sites)
	}
	var lastWrapped string
	for _, sub := range picks {
		v := p.wrap(sub)
		if _, err := parseProgram(v); err != nil {
			res.Dist("variant-skipped:wrap-unparsable")
			continue
		}
		in := base
		in.Transformation, in.Variant = "iife", v
		in.Detail = fmt.Sprintf("%d site(s), first: %s", len(sub), sub[0].desc)
		check(orig, in)
		lastWrapped = v
	}

	// (i) function body, (ii) module body
	if p.scopeDependent() {
		res.Dist("placement:skipped-closure-may-outlive-loop-iteration")
		return
	}
	fn := p.inFunction(names)
	switch specSame(p, names, fn) {
	case "differs":
		// the reference semantics itself distinguishes the placements: the documented
		// scope-dependent case slipped through the syntactic filter (or the model is off); not compared
		res.Dist("placement:skipped-reference-semantics-distinguishes")
		res.Skipped++
		return
	case "same":
		res.Dist("placement:reference-semantics-agrees")
	default:
		res.Dist("placement:reference-semantics-silent")
	}
	in := base
	in.Transformation, in.Variant = "func", fn
	check(orig, in)
	if lastWrapped != "" {
		if q, err := parseProgram(lastWrapped); err == nil {
			in := base
			in.Transformation, in.Variant = "iife+func", q.inFunction(names)
			check(orig, in)
		}
	}
	in = base
	in.Transformation, in.Variant, in.Main = "module", p.asModule(names), "__out := import(\"m\")\n"
	check(orig, in)
	if len(names) > 0 {
		// the importer declares some of the module's names itself: neither side may notice
		var sent []string
		var sb strings.Builder
		for _, n := range names {
			if r.Chance(1, 2) || len(sent) == 0 {
				sent = append(sent, n)
				sb.WriteString(n + " := \"main's own\"\n")
			}
		}
		in = base
		in.Transformation, in.Variant, in.Sentinels = "module-isolation", p.asModule(names), sent
		in.Main = sb.String() + "__out := import(\"m\")\n"
		check(orig, in)
	}
	// a program that uses a name it does not declare fails the same way as a module, even when the
	// importer happens to declare that name: drop one top-level declaration and let the importer make it
	decls := p.topLevelDecls()
	for k := 0; k < 2 && len(decls) > 0; k++ {
		d := decls[r.Intn(len(decls))]
		src2 := p.src[:d.start] + "undefined" + p.src[d.end:]
		p2, err := parseProgram(src2)
		if err != nil {
			continue
		}
		names2 := p2.topLevelNames()
		orig2 := runScript(src2, nil, readGlobals(names2))
		if orig2.Class == "timeout" || orig2.Class == "panic" {
			continue
		}
		res.Dist("undeclared-use:" + orig2.Class)
		in := variantInput{Source: src2, Names: names2, Transformation: "module-isolation", Variant: p2.asModule(names2),
			Sentinels: []string{d.desc}, Detail: "declaration of " + d.desc + " removed from the program and made by the importer",
			Main: d.desc + " := \"main's own\"\n__out := import(\"m\")\n"}
		check(orig2, in)
	}
}

// ---- known finding O26 ----

const o26Signature = "toplevel-define-of-builtin-name-redeclared-but-fine-in-function"

func probeO26(knownPath string) {
	src := "len := 1\nout := len\n"
	p, err := parseProgram(src)
	if err != nil {
		return
	}
	names := p.topLevelNames()
	orig := runScript(src, nil, readGlobals(names))
	in := variantInput{Source: src, Names: names, Transformation: "func", Variant: p.inFunction(names)}
	got := evalVariant(in)
	res.Count("finding-probe", "O26", true)
	if same(orig, got) {
		return
	}
	for _, k := range lib.LoadKnown(knownPath) {
		if k.Property == "C11" && k.ID == "O26" && k.Status == "known" {
			res.KnownHits = append(res.KnownHits, "O26")
			// also reported as a violation with the known signature, so that the evidence shows it
			res.Violate(lib.Violation{Signature: o26Signature, Stream: "finding-probe", Input: in,
				Observed: got.String(), Expected: orig.String(), Oracle: "top level and function body must agree"})
			return
		}
	}
	res.Violate(lib.Violation{Signature: o26Signature, Stream: "finding-probe", Input: in,
		Observed: got.String(), Expected: orig.String(), Oracle: "top level and function body must agree"})
}

// ---- main ----

func profile(r *lib.RNG) lib.Profile {
	p := lib.DefaultProfile()
	p.MaxStmts = 6 + r.Intn(12)
	p.MaxDepth = 3 + r.Intn(2)
	p.Chaos = 10
	p.NoFormat = true
	return p
}

func main() {
	f := lib.ParseFlags()
	res = lib.NewResult("C11", f)
	var err error
	drv, err = lib.StartDriver(f.Driver)
	if err != nil {
		fatal(err)
	}
	if drv != nil {
		drv.Timeout = 5 * time.Second
	}
	defer drv.Close()
	res.DriverUsed = drv != nil
	res.Rule = "symops: random and compiler-shaped operation sequences on the real tengo.SymbolTable vs the Lean model, every result and the whole table chain compared after every operation (non-trivial = a FREE symbol occurs). " +
		"meta: programs from lib.NewGen (no top-level return/export) and from the scope-stress generator (captures at depth 1-3, writes and selector writes through captured variables, shadowing, loop-body declarations, closure factories, local recursion); " +
		"plus programs that copy() closures / containers of closures over outer variables and interleave calls of original and copy with direct reads and writes (the copy refers to the same variables wherever they live); each is compared on the real code with its function-body / module-body placement, IIFE-wrapped sub-expressions (single sites, random subsets, all), injective renamings (values, errors, bytecode) and compositions; " +
		"placements are not compared when a closure may outlive the loop iteration declaring a captured variable (syntactic filter, plus the reference interpreter as a second opinion); non-trivial = at least 5 generator features and a function literal"
	if f.Replay != "" {
		replay(f.Replay)
		res.Write(f.Out)
		return
	}
	lib.RunProbes(res, "C11", f.Known)
	probeO26(f.Known)
	rng := lib.NewRNG(f.Seed)

	// correspondence
	for _, ops := range fixedSymOps {
		checkSymOps(ops)
	}
	n := f.Scale(2500, 30000)
	for i := 0; i < n; i++ {
		r := rng.Fork()
		if i%3 == 2 {
			checkSymOps(compilerLikeOps(r))
		} else {
			checkSymOps(genSymOps(r))
		}
	}

	// searcher
	for _, src := range corpus {
		checkProgram(src, map[string]int{"a": 1, "b": 1, "c": 1, "d": 1, "e": 1}, rng.Fork(), true)
	}
	// residence-dependent static limits: a variable mentioned k times inside a closure is ONE captured variable
	// wherever it lives (k beyond the 255 captured-variable slots), and k distinct captured variables up to the limit
	for _, k := range []int{2, 254, 255, 256, 300} {
		terms := make([]string, k)
		for i := range terms {
			terms[i] = "x"
		}
		src := "x := 1\nf := func() { return " + strings.Join(terms, " + ") + " }\nout := f()\n"
		checkProgram(src, map[string]int{"a": 1, "b": 1, "c": 1, "d": 1, "e": 1}, rng.Fork(), true)
		src = "x := 1\nf := func() { g := func() { x += 1; return " + strings.Join(terms, " + ") + " }; return g() }\nout := f()\n"
		checkProgram(src, map[string]int{"a": 1, "b": 1, "c": 1, "d": 1, "e": 1}, rng.Fork(), true)
	}
	n = f.Scale(350, 1200)
	for i := 0; i < n; i++ {
		r := rng.Fork()
		g := lib.NewGen(r, profile(r))
		src := g.Program()
		checkProgram(src, g.Feat, r, f.Thorough())
		if i%20 == 0 {
			for k, v := range g.Feat {
				res.Distribution["feat:"+k] += v
			}
		}
	}
	n = f.Scale(560, 2000)
	for i := 0; i < n; i++ {
		r := rng.Fork()
		g := newScopeGen(r)
		src := g.program()
		g.Feat["scope-stress"] = 5
		checkProgram(src, g.Feat, r, f.Thorough())
		if i%20 == 0 {
			for k, v := range g.Feat {
				res.Distribution["sfeat:"+k] += v
			}
		}
	}
	// copy() of closures over outer variables (copygen.go); after the other programs, so that their sequence
	// for a given seed stays what it was
	for _, src := range copyCorpus {
		checkProgram(src, map[string]int{"a": 1, "b": 1, "c": 1, "d": 1, "e": 1}, rng.Fork(), true)
	}
	n = f.Scale(140, 600)
	for i := 0; i < n; i++ {
		r := rng.Fork()
		g := newScopeGen(r)
		src := g.copyProgram()
		g.Feat["scope-stress"] = 5
		checkProgram(src, g.Feat, r, f.Thorough())
		if i%10 == 0 {
			for k, v := range g.Feat {
				res.Distribution["sfeat:"+k] += v
			}
		}
	}
	res.Write(f.Out)
}

func replay(path string) {
	b, err := os.ReadFile(path)
	if err != nil {
		fatal(err)
	}
	var rp struct {
		Violations []struct {
			Stream string          `json:"stream"`
			Input  json.RawMessage `json:"input"`
		} `json:"violations"`
		Disagreements []struct {
			Input json.RawMessage `json:"input"`
		} `json:"disagreements"`
	}
	if err := json.Unmarshal(b, &rp); err != nil {
		fatal(err)
	}
	for _, v := range rp.Violations {
		var in variantInput
		dec := json.NewDecoder(bytes.NewReader(v.Input))
		if err := dec.Decode(&in); err != nil || in.Source == "" {
			continue
		}
		p, err := parseProgram(in.Source)
		if err != nil {
			continue
		}
		orig := runScript(in.Source, nil, readGlobals(p.topLevelNames()))
		if v.Stream == "finding-probe" {
			probeO26("")
			continue
		}
		check(orig, in)
		if in.Transformation == "rename" {
			checkRenameBytecode(in)
		}
	}
	for _, d := range rp.Disagreements {
		var ops []symOp
		if json.Unmarshal(d.Input, &ops) == nil && len(ops) > 0 {
			checkSymOps(ops)
			continue
		}
		var w struct {
			Ops []symOp `json:"ops"`
		}
		if json.Unmarshal(d.Input, &w) == nil && len(w.Ops) > 0 {
			checkSymOps(w.Ops)
		}
	}
}

var fixedSymOps = [][]symOp{
	// doubly nested capture
	{{Kind: "fork"}, {Kind: "define", Name: "a"}, {Kind: "mark", Name: "a"}, {Kind: "fork"}, {Kind: "fork"}, {Kind: "resolve", Name: "a"}, {Kind: "leave"}, {Kind: "leave"}},
	// the duplicate capture (TODO in defineFree)
	{{Kind: "fork"}, {Kind: "define", Name: "x"}, {Kind: "mark", Name: "x"}, {Kind: "fork"}, {Kind: "resolve", Name: "x"}, {Kind: "define", Name: "x"}, {Kind: "resolve", Name: "x"}},
	// globals in blocks
	{{Kind: "define", Name: "a"}, {Kind: "fork", Block: true}, {Kind: "define", Name: "b"}, {Kind: "parent"}, {Kind: "fork", Block: true}, {Kind: "define", Name: "c"}},
}

var corpus = []string{
	// every residence of a counter: global, local, free at depth 1 and 2, through selectors
	"x := 1\nm := {k: 1}\nf := func() { x += 1; m.k += x; g := func() { x *= 2; m.k = m.k + x; return x }; return g() + x }\nout := f()\nx = 10\nout2 := f() + m.k\n",
	// loop-body declaration captured by a closure that dies with the iteration
	"acc := 0\nfor i := 0; i < 3; i++ { j := i * 2; g := func() { j += 1; return j }; acc += g() + j }\n",
	// closure factory: two instances, state from a finished call
	"mk := func() { c := 0; return func() { c += 1; return c } }\nc1 := mk()\nc2 := mk()\nout := [c1(), c1(), c2()]\n",
	// local recursive function and write after capture
	"x := 5\nfib := func(n) { if n < 2 { return n }; return fib(n-1) + fib(n-2) }\nh := func() { return x }\nx = 7\nout := [fib(6), h()]\n",
	// shadowing
	"x := 1\nif true { x := x + 1; x = x * 5 }\nf := func(x) { x := x + 100; return x }\nout := [x, f(x)]\n",
}

// Command c11: correspondence and searcher for C11 (a program means the same wherever its
// variables live).
//
// Streams
//
//	symops   random / compiler-shaped sequences of symbol-table operations on the real
//	         tengo.SymbolTable versus the Lean model Tengo.Model.Symtab (Disagree)
//	meta     metamorphic search on the real code only (Violate): every generated program is compared
//	         with (i) the same statements inside a function body, (ii) inside a source-module body
//	         (plus an importer that declares the same names), (iii) sub-expressions wrapped in
//	         immediately invoked function literals, (iv) injective renamings (values, errors AND
//	         bytecode), and compositions of these. Failing runs are compared too: first line of the
//	         error, calls seen by the host callback, globals still readable after the failed run (errgen.go)
package main

import (
	"bytes"
	"context"
	"encoding/json"
	"fmt"
	"os"
	"regexp"
	"sort"
	"strings"
	"time"

	"github.com/d5/tengo/v2"
	"verifharness/lib"
)

var (
	res *lib.Result
	drv *lib.Driver
)

func fatal(err error) {
	fmt.Fprintln(os.Stderr, "c11:", err)
	os.Exit(3)
}

func clip(s string, n int) string {
	if len(s) > n {
		return s[:n] + "…"
	}
	return s
}

// ---- running real code ----

type outcome struct {
	Class string   // ok | perr | cerr | rerr | panic | timeout | shape
	Msg   string   // first line of the error, positions never included
	Vals  []string // canonical values, one per collected name
	// Fail: after a FAILED run, the globals the host can still read with Compiled.Get (canonical value per
	// original name). Only the names that are globals in this placement are present: all top-level names for
	// the original, its IIFE and renamed variants, the names of the statements left at top level for the
	// function placements, none for module bodies. Compared on the names both sides have.
	Fail map[string]string
	// Log: the arguments of every call of the host callback `rec` (error-path programs, errgen.go), in
	// order, rendered at the time of the call. The callback is reachable from every placement.
	Log []string
}

func (o outcome) String() string {
	s := o.Class + " " + o.Msg
	if o.Class == "ok" {
		s = "ok [" + strings.Join(o.Vals, " ") + "]"
	}
	if o.Log != nil {
		s += " | host callback log: " + strings.Join(o.Log, "; ")
	}
	if o.Class != "ok" && len(o.Fail) > 0 {
		keys := make([]string, 0, len(o.Fail))
		for k := range o.Fail {
			keys = append(keys, k)
		}
		sort.Strings(keys)
		s += " | globals after the failed run:"
		for _, k := range keys {
			s += " " + k + "=" + o.Fail[k]
		}
	}
	return s
}

func errOutcome(err error) outcome {
	msg := err.Error()
	first := msg
	if i := strings.Index(first, "\n"); i >= 0 {
		first = first[:i]
	}
	switch {
	case strings.HasPrefix(msg, "Parse Error"):
		return outcome{Class: "perr", Msg: first}
	case strings.HasPrefix(msg, "Compile Error: "):
		return outcome{Class: "cerr", Msg: strings.TrimPrefix(first, "Compile Error: ")}
	case strings.HasPrefix(msg, "Runtime Error: "):
		return outcome{Class: "rerr", Msg: strings.TrimPrefix(first, "Runtime Error: ")}
	case err == context.DeadlineExceeded:
		return outcome{Class: "timeout"}
	}
	return outcome{Class: "panic", Msg: first}
}

// runOpts: what a run needs besides the source, and what is read from it when it fails.
type runOpts struct {
	modules map[string]string
	// host: the builtin module "host" is importable; its function rec(args…) appends its arguments to the log
	host bool
	// failNames[i] is read with Compiled.Get after a failed run and stored under failKeys[i]
	failNames, failKeys []string
}

const maxLog = 400

// runScript compiles and runs main (with the source modules given) through the Script API and
// hands the compiled program to read.
func runScript(main string, modules map[string]string, read func(c *tengo.Compiled) outcome) outcome {
	return runScriptX(main, runOpts{modules: modules}, read)
}

func runScriptX(main string, ro runOpts, read func(c *tengo.Compiled) outcome) outcome {
	var out outcome
	g := lib.Guard(10*time.Second, func() {
		var log []string
		s := tengo.NewScript([]byte(main))
		if len(ro.modules) > 0 || ro.host {
			mm := tengo.NewModuleMap()
			for n, src := range ro.modules {
				mm.AddSourceModule(n, []byte(src))
			}
			if ro.host {
				log = []string{}
				mm.AddBuiltinModule("host", map[string]tengo.Object{"rec": &tengo.UserFunction{Name: "rec",
					Value: func(args ...tengo.Object) (tengo.Object, error) {
						if len(log) < maxLog {
							parts := make([]string, len(args))
							for i, a := range args {
								parts[i] = readable(a, 0)
							}
							log = append(log, "rec("+strings.Join(parts, ", ")+")")
						}
						return tengo.UndefinedValue, nil
					}}})
			}
			s.SetImports(mm)
		}
		c, err := s.Compile()
		if err != nil {
			out = errOutcome(err)
			return
		}
		ctx, cancel := context.WithTimeout(context.Background(), 4*time.Second)
		defer cancel()
		if err := c.RunContext(ctx); err != nil {
			out = errOutcome(err)
			if out.Class == "rerr" || out.Class == "panic" {
				out.Log = log
				if len(ro.failNames) > 0 {
					out.Fail = map[string]string{}
					for i, n := range ro.failNames {
						if ro.host {
							out.Fail[ro.failKeys[i]] = readable(c.Get(n).Object(), 0)
						} else {
							out.Fail[ro.failKeys[i]] = lib.Canon(c.Get(n).Object())
						}
					}
				}
			}
			return
		}
		out = read(c)
		out.Log = log
	})
	if g.Panicked {
		return outcome{Class: "panic", Msg: g.PanicVal}
	}
	if g.TimedOut {
		return outcome{Class: "timeout"}
	}
	return out
}

// readable renders an argument of the host callback for the log: like lib.Canon (map keys sorted, nothing
// address- or order-dependent) but with plain strings, so that a reported log can be read.
func readable(o tengo.Object, depth int) string {
	if depth > 12 {
		return "(deep)"
	}
	list := func(xs []tengo.Object) string {
		parts := make([]string, len(xs))
		for i, x := range xs {
			parts[i] = readable(x, depth+1)
		}
		return strings.Join(parts, ", ")
	}
	dict := func(m map[string]tengo.Object) string {
		keys := make([]string, 0, len(m))
		for k := range m {
			keys = append(keys, k)
		}
		sort.Strings(keys)
		parts := make([]string, len(keys))
		for i, k := range keys {
			parts[i] = k + ": " + readable(m[k], depth+1)
		}
		return strings.Join(parts, ", ")
	}
	switch v := o.(type) {
	case *tengo.String:
		return fmt.Sprintf("%q", v.Value)
	case *tengo.Int:
		return fmt.Sprint(v.Value)
	case *tengo.Undefined:
		return "undefined"
	case *tengo.Array:
		return "[" + list(v.Value) + "]"
	case *tengo.ImmutableArray:
		return "immutable([" + list(v.Value) + "])"
	case *tengo.Map:
		return "{" + dict(v.Value) + "}"
	case *tengo.ImmutableMap:
		return "immutable({" + dict(v.Value) + "})"
	}
	return lib.Canon(o)
}

// readGlobals collects the named globals.
func readGlobals(names []string) func(c *tengo.Compiled) outcome {
	return func(c *tengo.Compiled) outcome {
		o := outcome{Class: "ok"}
		for _, n := range names {
			v := c.Get(n)
			if v == nil {
				o.Vals = append(o.Vals, "missing")
				continue
			}
			o.Vals = append(o.Vals, lib.Canon(v.Object()))
		}
		return o
	}
}

// readArray reads the elements of the (immutable) array held by global `name`, followed by extra
// plain globals.
func readArray(name string, n int, extra []string) func(c *tengo.Compiled) outcome {
	return func(c *tengo.Compiled) outcome {
		v := c.Get(name)
		var elems []tengo.Object
		switch a := v.Object().(type) {
		case *tengo.Array:
			elems = a.Value
		case *tengo.ImmutableArray:
			elems = a.Value
		default:
			return outcome{Class: "shape", Msg: name + " is " + lib.Canon(v.Object())}
		}
		if len(elems) != n {
			return outcome{Class: "shape", Msg: fmt.Sprintf("%s has %d elements, want %d", name, len(elems), n)}
		}
		o := outcome{Class: "ok"}
		for _, e := range elems {
			o.Vals = append(o.Vals, lib.Canon(e))
		}
		for _, x := range extra {
			o.Vals = append(o.Vals, lib.Canon(c.Get(x).Object()))
		}
		return o
	}
}

func same(a, b outcome) bool {
	if a.Class != b.Class {
		return false
	}
	if a.Class == "ok" {
		if len(a.Vals) != len(b.Vals) {
			return false
		}
		for i := range a.Vals {
			if a.Vals[i] != b.Vals[i] {
				return false
			}
		}
		return sameLog(a, b)
	}
	return a.Msg == b.Msg && sameFailState(a, b)
}

func sameLog(a, b outcome) bool {
	if (a.Log == nil) != (b.Log == nil) || len(a.Log) != len(b.Log) {
		return false
	}
	for i := range a.Log {
		if a.Log[i] != b.Log[i] {
			return false
		}
	}
	return true
}

// sameFailState: two failed runs stopped at the same point — the host callback saw the same calls and
// every global both placements have holds the same value.
func sameFailState(a, b outcome) bool {
	if !sameLog(a, b) {
		return false
	}
	for k, v := range a.Fail {
		if w, ok := b.Fail[k]; ok && v != w {
			return false
		}
	}
	return true
}

func resourceLimit(o outcome) bool {
	return o.Class == "rerr" && strings.Contains(o.Msg, "stack overflow") ||
		o.Class == "panic" && strings.Contains(o.Msg, "index out of range [2048]")
}

// ---- one variant ----

type variantInput struct {
	Source         string            `json:"source"`
	Transformation string            `json:"transformation"` // func | module | module-isolation | iife | rename | iife+func | rename+func
	Detail         string            `json:"detail,omitempty"`
	Names          []string          `json:"names"`
	Variant        string            `json:"variant"`
	Main           string            `json:"main,omitempty"`    // importer of the module variants
	Sigma          map[string]string `json:"sigma,omitempty"`   // renaming
	Sentinels      []string          `json:"sentinels,omitempty"`
	// error-path programs (errgen.go): the builtin module "host" (callback rec) is importable; the first
	// Prelude statements of the source stay at top level in the function placements (their names are globals
	// everywhere and are read after a failed run)
	Host         bool     `json:"host_callback,omitempty"`
	Prelude      int      `json:"prelude_statements,omitempty"`
	PreludeNames []string `json:"prelude_names,omitempty"`
}

// runOriginal runs the untransformed program: values of its top-level names, and the same names after a
// failed run (they are all globals).
func runOriginal(in variantInput) outcome {
	return runScriptX(in.Source, runOpts{host: in.Host, failNames: in.Names, failKeys: in.Names}, readGlobals(in.Names))
}

var quoted = regexp.MustCompile(`'([^']*)'`)

func mapMsg(msg string, sigma map[string]string) string {
	if len(sigma) == 0 {
		return msg
	}
	return quoted.ReplaceAllStringFunc(msg, func(q string) string {
		if nn, ok := sigma[q[1:len(q)-1]]; ok {
			return "'" + nn + "'"
		}
		return q
	})
}

// evalVariant runs the variant the way its transformation asks and returns the outcome to compare
// with the original's.
func evalVariant(in variantInput) outcome {
	n := len(in.Names)
	ro := runOpts{host: in.Host}
	switch in.Transformation {
	case "func", "func-nested", "iife+func":
		ro.failNames, ro.failKeys = in.PreludeNames, in.PreludeNames
		return runScriptX(in.Variant, ro, readArray("__out", n, nil))
	case "rename+func":
		ro.failNames, ro.failKeys = renamed(in.PreludeNames, in.Sigma), in.PreludeNames
		return runScriptX(in.Variant, ro, readArray("__out", n, nil))
	case "module":
		ro.modules = map[string]string{"m": in.Variant}
		return runScriptX(in.Main, ro, readArray("__out", n, nil))
	case "module-isolation":
		ro.modules = map[string]string{"m": in.Variant}
		return runScriptX(in.Main, ro, readArray("__out", n, in.Sentinels))
	case "rename":
		names := renamed(in.Names, in.Sigma)
		ro.failNames, ro.failKeys = names, in.Names
		return runScriptX(in.Variant, ro, readGlobals(names))
	}
	ro.failNames, ro.failKeys = in.Names, in.Names
	return runScriptX(in.Variant, ro, readGlobals(in.Names))
}

func renamed(names []string, sigma map[string]string) []string {
	out := make([]string, len(names))
	for i, x := range names {
		out[i] = x
		if nn, ok := sigma[x]; ok {
			out[i] = nn
		}
	}
	return out
}

// check compares one variant with the original's outcome; a difference is a violation of C11.
func check(orig outcome, in variantInput) bool {
	got := evalVariant(in)
	want := orig
	if in.Transformation == "rename" || in.Transformation == "rename+func" {
		want.Msg = mapMsg(orig.Msg, in.Sigma)
	}
	if in.Transformation == "module-isolation" && want.Class == "ok" {
		for range in.Sentinels {
			want.Vals = append(append([]string{}, want.Vals...), lib.Canon(&tengo.String{Value: "main's own"}))
		}
	}
	res.Count("meta:"+in.Transformation, in.Variant, true)
	if got.Class == "timeout" || got.Class == "perr" {
		res.Dist("variant-skipped:" + got.Class)
		return true
	}
	if resourceLimit(got) && !resourceLimit(want) {
		// the transformation adds call frames; running into the frame/stack limit is not a change of meaning
		res.Dist("variant-skipped:frame-or-stack-limit")
		return true
	}
	if resourceLimit(got) && resourceLimit(want) {
		// both ran into the limit: the added frames move the point where it is reached, only the error is compared
		got.Fail, got.Log, want.Fail, want.Log = nil, nil, nil, nil
	}
	if got.Class != "ok" && got.Class == want.Class {
		res.Dist("failing-pair-compared:" + in.Transformation)
	}
	if want.Fail != nil {
		// only the globals both placements have are compared (and shown)
		common := map[string]string{}
		for k, v := range want.Fail {
			if _, ok := got.Fail[k]; ok {
				common[k] = v
			}
		}
		want.Fail = common
	}
	if same(got, want) {
		return true
	}
	what := "value-differs"
	if got.Class != want.Class {
		what = want.Class + "-becomes-" + got.Class
	} else if got.Class != "ok" && got.Msg != want.Msg {
		what = "error-differs"
	} else if got.Class != "ok" {
		// same error, but the two runs did not stop at the same point
		what = "state-at-failure-differs"
	}
	res.Violate(lib.Violation{Signature: in.Transformation + ":" + what, Stream: "meta", Input: in,
		Observed: clip(got.String(), 1200), Expected: clip(want.String(), 1200),
		Oracle: "metamorphic: the transformed program must compute the same values / fail with the same error as the original, and a failing run must stop at the same point (first line of the error without positions; calls the host callback has seen; globals readable after the failed run) — real code on both sides"})
	return false
}

// ---- bytecode of renamed programs ----

func bytecodeDump(src string, host bool) (string, error) {
	var mm *tengo.ModuleMap
	if host {
		mm = tengo.NewModuleMap()
		mm.AddBuiltinModule("host", map[string]tengo.Object{"rec": &tengo.UserFunction{Name: "rec",
			Value: func(args ...tengo.Object) (tengo.Object, error) { return tengo.UndefinedValue, nil }}})
	}
	c, err := lib.CompileSource([]byte(src), lib.CompileOpts{Modules: mm})
	if err != nil {
		return "", err
	}
	var sb strings.Builder
	fmt.Fprintf(&sb, "main %x\n", c.BC.MainFunction.Instructions)
	for i, k := range c.BC.Constants {
		if f, ok := k.(*tengo.CompiledFunction); ok {
			fmt.Fprintf(&sb, "const %d fn locals=%d params=%d varargs=%v %x\n", i, f.NumLocals, f.NumParameters, f.VarArgs, f.Instructions)
		} else {
			fmt.Fprintf(&sb, "const %d %s\n", i, lib.Canon(k))
		}
	}
	return sb.String(), nil
}

func checkRenameBytecode(in variantInput) {
	a, errA := bytecodeDump(in.Source, in.Host)
	b, errB := bytecodeDump(in.Variant, in.Host)
	if errA != nil || errB != nil {
		return // compile errors are compared through the run path
	}
	res.Count("meta:rename-bytecode", in.Variant, true)
	if a != b {
		res.Violate(lib.Violation{Signature: "rename:bytecode-differs", Stream: "meta", Input: in,
			Observed: clip(firstDiff(a, b), 600), Expected: "identical instructions and constants",
			Oracle: "names reach the bytecode only through symbol-table lookups: a consistently renamed program compiles to the same instructions and constants"})
	}
}

func firstDiff(a, b string) string {
	la, lb := strings.Split(a, "\n"), strings.Split(b, "\n")
	for i := 0; i < len(la) && i < len(lb); i++ {
		if la[i] != lb[i] {
			return "original: " + la[i] + " | renamed: " + lb[i]
		}
	}
	return fmt.Sprintf("%d vs %d lines", len(la), len(lb))
}

// ---- the reference interpreter as a safety net for the placement variants ----

// specSame asks the Lean reference interpreter (C01's model) whether top-level and function
// placement mean the same for this program: "same", "differs" or "unknown" (outside the modelled
// language, out of fuel, no driver).
func specSame(p *program, names []string, fnVariant string) string {
	if drv == nil {
		return "unknown"
	}
	q, err := parseProgram(fnVariant)
	if err != nil {
		return "unknown"
	}
	d := lib.ASTDumper{}
	a1, err1 := drv.Ask(lib.L("spec", "200000", "()", d.File(p.file)))
	a2, err2 := drv.Ask(lib.L("spec", "200000", "()", d.File(q.file)))
	if err1 != nil || err2 != nil {
		fatal(fmt.Errorf("driver: %v %v", err1, err2))
	}
	res.ModelLines += 2
	c1, c2 := strings.Fields(a1)[0], strings.Fields(a2)[0]
	for _, c := range []string{c1, c2} {
		switch c {
		case "ok", "cerr", "rerr":
		default:
			return "unknown"
		}
	}
	if c1 != c2 {
		return "differs"
	}
	if c1 != "ok" {
		if a1 == a2 {
			return "same"
		}
		return "differs"
	}
	g1 := specGlobals(a1)
	g2 := specGlobals(a2)
	out, ok := g2["__out"]
	if !ok {
		return "unknown"
	}
	elems := splitTop(strings.TrimSuffix(strings.TrimPrefix(out, "(a"), ")"))
	if len(elems) != len(names) {
		return "unknown"
	}
	for i, n := range names {
		if g1[n] != elems[i] {
			return "differs"
		}
	}
	return "same"
}

func specGlobals(ans string) map[string]string {
	m := map[string]string{}
	for _, it := range splitTop(strings.TrimPrefix(ans, "ok")) {
		inner := strings.TrimSuffix(strings.TrimPrefix(it, "("), ")")
		sp := strings.Index(inner, " ")
		if sp < 0 || !strings.HasPrefix(inner, "#") {
			continue
		}
		var name []byte
		fmt.Sscanf(inner[1:sp], "%x", &name)
		m[string(name)] = strings.TrimSpace(inner[sp+1:])
	}
	return m
}

// splitTop splits a sequence of S-expressions at depth 0.
func splitTop(s string) []string {
	var out []string
	depth, start := 0, -1
	for i := 0; i < len(s); i++ {
		switch s[i] {
		case '(':
			if depth == 0 && start < 0 {
				start = i
			}
			depth++
		case ')':
			depth--
			if depth == 0 && start >= 0 {
				out = append(out, s[start:i+1])
				start = -1
			}
		case ' ', '\t':
			if depth == 0 && start >= 0 {
				out = append(out, s[start:i])
				start = -1
			}
		default:
			if depth == 0 && start < 0 {
				start = i
			}
		}
	}
	if start >= 0 {
		out = append(out, s[start:])
	}
	return out
}

// ---- one program, all its variants ----

// progOpts: error-path programs (errgen.go) import the host callback and keep their first `prelude`
// statements at top level in the function placements.
type progOpts struct {
	host    bool
	prelude int
}

func checkProgram(src string, feats map[string]int, r *lib.RNG, thorough bool) {
	checkProgramX(src, feats, r, thorough, progOpts{})
}

func checkProgramX(src string, feats map[string]int, r *lib.RNG, thorough bool, po progOpts) {
	p, err := parseProgram(src)
	if err != nil {
		res.Dist("skip:parse-error")
		if po.host {
			fatal(fmt.Errorf("error-path generator produced an unparsable program: %v\n%s", err, src))
		}
		return
	}
	if !po.host && p.hasTopLevelOnly() {
		res.Dist("skip:top-level-only-construct")
		res.Skipped++
		return
	}
	names := p.topLevelNames()
	base := variantInput{Source: src, Names: names, Host: po.host, Prelude: po.prelude}
	if po.prelude > 0 {
		q, err := parseProgram(src[:p.off(p.file.Stmts[po.prelude].Pos())])
		if err != nil {
			fatal(err)
		}
		base.PreludeNames = q.topLevelNames()
	}
	orig := runOriginal(base)
	switch orig.Class {
	case "timeout", "panic", "perr":
		if os.Getenv("C11_DEBUG") != "" {
			fmt.Fprintln(os.Stderr, "ORIGINAL", orig.String(), "\n"+src)
		}
		res.Dist("skip:original-" + orig.Class)
		res.Skipped++
		return
	}
	res.Dist("original:" + orig.Class)
	nontrivial := len(feats) >= 5 && strings.Contains(src, "func(")
	res.Count("meta:programs", src, nontrivial)
	res.Sample(map[string]interface{}{"source": clip(src, 600), "outcome": clip(orig.String(), 200)}, 2)
	if po.host {
		res.Dist("error-path:original:" + orig.Class)
		if orig.Class == "rerr" {
			res.Dist("error-path:error:" + orig.Msg)
		}
	}

	// (iv) renamings
	for k := 0; k < 2; k++ {
		sigma := p.renaming(r)
		if len(sigma) == 0 {
			break
		}
		v := p.rename(sigma)
		q, err := parseProgram(v)
		if err != nil || !renameConsistent(p, q, sigma) {
			res.Dist("variant-skipped:rename-not-consistent")
			continue
		}
		in := base
		in.Transformation, in.Variant, in.Sigma = "rename", v, sigma
		check(orig, in)
		checkRenameBytecode(in)
		if k == 0 && !p.scopeDependent() {
			in2 := in
			in2.Transformation = "rename+func"
			in2.Variant = q.inFunctionFrom(po.prelude, renamed(names, sigma))
			check(orig, in2)
		}
	}

	// (iii) immediately invoked function literals
	sites := p.wrapSites()
	res.Distribution["wrap-sites"] += len(sites)
	var picks [][]site
	single := 6
	if thorough {
		single = len(sites)
		if po.host && single > 16 {
			single = 16 // every statement of an error-path program carries several sites; the subsets below cover the rest
		}
	}
	perm := make([]int, len(sites))
	for i := range perm {
		perm[i] = i
	}
	for i := len(perm) - 1; i > 0; i-- {
		j := r.Intn(i + 1)
		perm[i], perm[j] = perm[j], perm[i]
	}
	for i := 0; i < len(perm) && i < single; i++ {
		picks = append(picks, []site{sites[perm[i]]})
	}
	for k := 0; k < 3 && len(sites) > 1; k++ {
		var sub []site
		den := 2 + r.Intn(4)
		for _, s := range sites {
			if r.Chance(1, den) {
				sub = append(sub, s)
			}
		}
		if len(sub) > 1 {
			picks = append(picks, sub)
		}
	}
	if len(sites) > 1 && len(sites) <= 40 {
		picks = append(picks, sites)
	}
	var lastWrapped string
	for _, sub := range picks {
		v := p.wrap(sub)
		if _, err := parseProgram(v); err != nil {
			res.Dist("variant-skipped:wrap-unparsable")
			continue
		}
		in := base
		in.Transformation, in.Variant = "iife", v
		in.Detail = fmt.Sprintf("%d site(s), first: %s", len(sub), sub[0].desc)
		check(orig, in)
		lastWrapped = v
	}

	// (i) function body, (ii) module body
	if p.scopeDependent() {
		res.Dist("placement:skipped-closure-may-outlive-loop-iteration")
		return
	}
	fn := p.inFunctionFrom(po.prelude, names)
	spec := "unknown"
	if !po.host {
		spec = specSame(p, names, fn)
	}
	switch spec {
	case "differs":
		// the reference semantics itself distinguishes the placements: the documented
		// scope-dependent case slipped through the syntactic filter (or the model is off); not compared
		res.Dist("placement:skipped-reference-semantics-distinguishes")
		res.Skipped++
		return
	case "same":
		res.Dist("placement:reference-semantics-agrees")
	default:
		res.Dist("placement:reference-semantics-silent")
	}
	in := base
	in.Transformation, in.Variant = "func", fn
	check(orig, in)
	if lastWrapped != "" {
		if q, err := parseProgram(lastWrapped); err == nil {
			in := base
			in.Transformation, in.Variant = "iife+func", q.inFunctionFrom(po.prelude, names)
			check(orig, in)
		}
	}
	if po.host {
		// the same statements two function literals deep
		in = base
		in.Transformation, in.Variant = "func-nested", p.inNestedFunctionFrom(po.prelude, names)
		check(orig, in)
	}
	if po.prelude > 0 {
		return // a module body cannot leave statements at the importer's top level
	}
	in = base
	in.Transformation, in.Variant, in.Main = "module", p.asModule(names), "__out := import(\"m\")\n"
	check(orig, in)
	if len(names) > 0 {
		// the importer declares some of the module's names itself: neither side may notice
		var sent []string
		var sb strings.Builder
		for _, n := range names {
			if r.Chance(1, 2) || len(sent) == 0 {
				sent = append(sent, n)
				sb.WriteString(n + " := \"main's own\"\n")
			}
		}
		in = base
		in.Transformation, in.Variant, in.Sentinels = "module-isolation", p.asModule(names), sent
		in.Main = sb.String() + "__out := import(\"m\")\n"
		check(orig, in)
	}
	if po.host {
		return
	}
	// a program that uses a name it does not declare fails the same way as a module, even when the
	// importer happens to declare that name: drop one top-level declaration and let the importer make it
	decls := p.topLevelDecls()
	for k := 0; k < 2 && len(decls) > 0; k++ {
		d := decls[r.Intn(len(decls))]
		src2 := p.src[:d.start] + "undefined" + p.src[d.end:]
		p2, err := parseProgram(src2)
		if err != nil {
			continue
		}
		names2 := p2.topLevelNames()
		orig2 := runScript(src2, nil, readGlobals(names2))
		if orig2.Class == "timeout" || orig2.Class == "panic" {
			continue
		}
		res.Dist("undeclared-use:" + orig2.Class)
		in := variantInput{Source: src2, Names: names2, Transformation: "module-isolation", Variant: p2.asModule(names2),
			Sentinels: []string{d.desc}, Detail: "declaration of " + d.desc + " removed from the program and made by the importer",
			Main: d.desc + " := \"main's own\"\n__out := import(\"m\")\n"}
		check(orig2, in)
	}
}

// ---- known finding O26 ----

const o26Signature = "toplevel-define-of-builtin-name-redeclared-but-fine-in-function"

func probeO26(knownPath string) {
	src := "len := 1\nout := len\n"
	p, err := parseProgram(src)
	if err != nil {
		return
	}
	names := p.topLevelNames()
	orig := runScript(src, nil, readGlobals(names))
	in := variantInput{Source: src, Names: names, Transformation: "func", Variant: p.inFunction(names)}
	got := evalVariant(in)
	res.Count("finding-probe", "O26", true)
	if same(orig, got) {
		return
	}
	for _, k := range lib.LoadKnown(knownPath) {
		if k.Property == "C11" && k.ID == "O26" && k.Status == "known" {
			res.KnownHits = append(res.KnownHits, "O26")
			// also reported as a violation with the known signature, so that the evidence shows it
			res.Violate(lib.Violation{Signature: o26Signature, Stream: "finding-probe", Input: in,
				Observed: got.String(), Expected: orig.String(), Oracle: "top level and function body must agree"})
			return
		}
	}
	res.Violate(lib.Violation{Signature: o26Signature, Stream: "finding-probe", Input: in,
		Observed: got.String(), Expected: orig.String(), Oracle: "top level and function body must agree"})
}

// ---- main ----

func profile(r *lib.RNG) lib.Profile {
	p := lib.DefaultProfile()
	p.MaxStmts = 6 + r.Intn(12)
	p.MaxDepth = 3 + r.Intn(2)
	p.Chaos = 10
	p.NoFormat = true
	return p
}

func main() {
	f := lib.ParseFlags()
	res = lib.NewResult("C11", f)
	var err error
	drv, err = lib.StartDriver(f.Driver)
	if err != nil {
		fatal(err)
	}
	if drv != nil {
		drv.Timeout = 5 * time.Second
	}
	defer drv.Close()
	res.DriverUsed = drv != nil
	res.Rule = "symops: random and compiler-shaped operation sequences on the real tengo.SymbolTable vs the Lean model, every result and the whole table chain compared after every operation (non-trivial = a FREE symbol occurs). " +
		"meta: programs from lib.NewGen (no top-level return/export) and from the scope-stress generator (captures at depth 1-3, writes and selector writes through captured variables, shadowing, loop-body declarations, closure factories, local recursion); " +
		"plus programs that copy() closures / containers of closures over outer variables and interleave calls of original and copy with direct reads and writes (the copy refers to the same variables wherever they live); each is compared on the real code with its function-body / module-body placement, IIFE-wrapped sub-expressions (single sites, random subsets, all), injective renamings (values, errors, bytecode) and compositions; " +
		"plus error-path programs that fail at run time on purpose, several times in a row (selector / index assignment, += and ++ through a selector, calls of non-callables, ill-typed operators, wrong argument counts, on a base that is a global, a local, or captured one or two levels up), recording progress through a host callback and a global that stays at top level; a pair of failing runs must agree on the first line of the error, on the callback log and on every global both placements can still read after the failed run; " +
		"placements are not compared when a closure may outlive the loop iteration declaring a captured variable (syntactic filter, plus the reference interpreter as a second opinion); non-trivial = at least 5 generator features and a function literal"
	if f.Replay != "" {
		replay(f.Replay)
		res.Write(f.Out)
		return
	}
	lib.RunProbes(res, "C11", f.Known)
	probeO26(f.Known)
	rng := lib.NewRNG(f.Seed)

	// correspondence
	for _, ops := range fixedSymOps {
		checkSymOps(ops)
	}
	n := f.Scale(2500, 30000)
	for i := 0; i < n; i++ {
		r := rng.Fork()
		if i%3 == 2 {
			checkSymOps(compilerLikeOps(r))
		} else {
			checkSymOps(genSymOps(r))
		}
	}

	// searcher
	for _, src := range corpus {
		checkProgram(src, map[string]int{"a": 1, "b": 1, "c": 1, "d": 1, "e": 1}, rng.Fork(), true)
	}
	// residence-dependent static limits: a variable mentioned k times inside a closure is ONE captured variable
	// wherever it lives (k beyond the 255 captured-variable slots), and k distinct captured variables up to the limit
	for _, k := range []int{2, 254, 255, 256, 300} {
		terms := make([]string, k)
		for i := range terms {
			terms[i] = "x"
		}
		src := "x := 1\nf := func() { return " + strings.Join(terms, " + ") + " }\nout := f()\n"
		checkProgram(src, map[string]int{"a": 1, "b": 1, "c": 1, "d": 1, "e": 1}, rng.Fork(), true)
		src = "x := 1\nf := func() { g := func() { x += 1; return " + strings.Join(terms, " + ") + " }; return g() }\nout := f()\n"
		checkProgram(src, map[string]int{"a": 1, "b": 1, "c": 1, "d": 1, "e": 1}, rng.Fork(), true)
	}
	n = f.Scale(350, 1200)
	for i := 0; i < n; i++ {
		r := rng.Fork()
		g := lib.NewGen(r, profile(r))
		src := g.Program()
		checkProgram(src, g.Feat, r, f.Thorough())
		if i%20 == 0 {
			for k, v := range g.Feat {
				res.Distribution["feat:"+k] += v
			}
		}
	}
	n = f.Scale(560, 2000)
	for i := 0; i < n; i++ {
		r := rng.Fork()
		g := newScopeGen(r)
		src := g.program()
		g.Feat["scope-stress"] = 5
		checkProgram(src, g.Feat, r, f.Thorough())
		if i%20 == 0 {
			for k, v := range g.Feat {
				res.Distribution["sfeat:"+k] += v
			}
		}
	}
	// copy() of closures over outer variables (copygen.go); after the other programs, so that their sequence
	// for a given seed stays what it was
	for _, src := range copyCorpus {
		checkProgram(src, map[string]int{"a": 1, "b": 1, "c": 1, "d": 1, "e": 1}, rng.Fork(), true)
	}
	n = f.Scale(140, 600)
	for i := 0; i < n; i++ {
		r := rng.Fork()
		g := newScopeGen(r)
		src := g.copyProgram()
		g.Feat["scope-stress"] = 5
		checkProgram(src, g.Feat, r, f.Thorough())
		if i%10 == 0 {
			for k, v := range g.Feat {
				res.Distribution["sfeat:"+k] += v
			}
		}
	}
	// error-path programs (errgen.go): run-time failures on purpose, compared exactly; after everything else
	for _, src := range errCorpus {
		checkProgramX(src, map[string]int{"a": 1, "b": 1, "c": 1, "d": 1, "e": 1}, rng.Fork(), true, progOpts{host: true, prelude: 1})
	}
	n = f.Scale(260, 800)
	for i := 0; i < n; i++ {
		r := rng.Fork()
		g := newErrGen(r)
		src, prelude := g.program()
		g.Feat["error-path"] = 5
		checkProgramX(src, g.Feat, r, f.Thorough(), progOpts{host: true, prelude: prelude})
		if i%10 == 0 {
			for k, v := range g.Feat {
				res.Distribution["efeat:"+k] += v
			}
		}
	}
	res.Write(f.Out)
}

func replay(path string) {
	b, err := os.ReadFile(path)
	if err != nil {
		fatal(err)
	}
	var rp struct {
		Violations []struct {
			Stream string          `json:"stream"`
			Input  json.RawMessage `json:"input"`
		} `json:"violations"`
		Disagreements []struct {
			Input json.RawMessage `json:"input"`
		} `json:"disagreements"`
	}
	if err := json.Unmarshal(b, &rp); err != nil {
		fatal(err)
	}
	for _, v := range rp.Violations {
		var in variantInput
		dec := json.NewDecoder(bytes.NewReader(v.Input))
		if err := dec.Decode(&in); err != nil || in.Source == "" {
			continue
		}
		p, err := parseProgram(in.Source)
		if err != nil {
			continue
		}
		in0 := in
		in0.Names = p.topLevelNames()
		orig := runOriginal(in0)
		if v.Stream == "finding-probe" {
			probeO26("")
			continue
		}
		check(orig, in)
		if in.Transformation == "rename" {
			checkRenameBytecode(in)
		}
	}
	for _, d := range rp.Disagreements {
		var ops []symOp
		if json.Unmarshal(d.Input, &ops) == nil && len(ops) > 0 {
			checkSymOps(ops)
			continue
		}
		var w struct {
			Ops []symOp `json:"ops"`
		}
		if json.Unmarshal(d.Input, &w) == nil && len(w.Ops) > 0 {
			checkSymOps(w.Ops)
		}
	}
}

var fixedSymOps = [][]symOp{
	// doubly nested capture
	{{Kind: "fork"}, {Kind: "define", Name: "a"}, {Kind: "mark", Name: "a"}, {Kind: "fork"}, {Kind: "fork"}, {Kind: "resolve", Name: "a"}, {Kind: "leave"}, {Kind: "leave"}},
	// the duplicate capture (TODO in defineFree)
	{{Kind: "fork"}, {Kind: "define", Name: "x"}, {Kind: "mark", Name: "x"}, {Kind: "fork"}, {Kind: "resolve", Name: "x"}, {Kind: "define", Name: "x"}, {Kind: "resolve", Name: "x"}},
	// globals in blocks
	{{Kind: "define", Name: "a"}, {Kind: "fork", Block: true}, {Kind: "define", Name: "b"}, {Kind: "parent"}, {Kind: "fork", Block: true}, {Kind: "define", Name: "c"}},
}

var corpus = []string{
	// every residence of a counter: global, local, free at depth 1 and 2, through selectors
	"x := 1\nm := {k: 1}\nf := func() { x += 1; m.k += x; g := func() { x *= 2; m.k = m.k + x; return x }; return g() + x }\nout := f()\nx = 10\nout2 := f() + m.k\n",
	// loop-body declaration captured by a closure that dies with the iteration
	"acc := 0\nfor i := 0; i < 3; i++ { j := i * 2; g := func() { j += 1; return j }; acc += g() + j }\n",
	// closure factory: two instances, state from a finished call
	"mk := func() { c := 0; return func() { c += 1; return c } }\nc1 := mk()\nc2 := mk()\nout := [c1(), c1(), c2()]\n",
	// local recursive function and write after capture
	"x := 5\nfib := func(n) { if n < 2 { return n }; return fib(n-1) + fib(n-2) }\nh := func() { return x }\nx = 7\nout := [fib(6), h()]\n",
	// shadowing
	"x := 1\nif true { x := x + 1; x = x * 5 }\nf := func(x) { x := x + 100; return x }\nout := [x, f(x)]\n",
}

package main

// Error-path programs (round 7, seeded change C11-m10). "Fail with the same errors" is part of C11: a
// statement that fails at run time must stop the program at the same point with the same error wherever
// the variables it touches live. The three instruction families have separate error paths (SETSG / SETSL /
// SETSF for a failing selector assignment, GETG / GETL / GETF feeding a failing call or operator), and
// the other generators avoid run-time errors. The programs below fail ON PURPOSE, several times in a row:
// each "episode" declares a base value, performs one operation on it that usually fails (selector / index
// assignment, `+=`, `++` through a selector, call of a non-callable, ill-typed operator, wrong argument
// count, iteration over a non-iterable, bad slice) from a chosen place — directly, in a function literal one
// or two levels below the variable, in an immediately invoked literal, in a method of a map, through a
// parameter, in a loop, inside a function of the program itself (the base a local there, or captured from
// there), in a closure returned by a factory — and records progress before and after it. Only the first
// failing episode is reached on a correct VM; the later ones (different base kind, hence a different
// message) show when execution continues past a failure.
//
// What the placements can observe of a failed run, and what is compared:
//   - the first line of the error (no positions): every placement;
//   - the calls of the host callback `rec` (builtin module "host", bound by `rec := import("host").rec` — in
//     the moved statements, so that it is a global / local / captured variable like everything else, or in the
//     prelude): every placement, including module bodies;
//   - the globals the host can still read with Compiled.Get: all top-level names for the original and its
//     IIFE / renamed variants; for the function placements the names of the prelude (`trace := "start"`, which
//     the moved statements assign), since the first statements of these programs stay at top level.
//
// Positions and the `at …` lines are never compared.

import (
	"fmt"
	"strings"

	"verifharness/lib"
)

type ebase struct {
	feat string
	stem string
	lit  string
	bad  []string // lvalues (the base written %s) whose assignment fails
	good []string // lvalues whose assignment of an int works
}

var ebases = []ebase{
	{"immutable-map", "cfg", `immutable({limit: 1, sub: {k: 1}, l: [1, 2]})`,
		[]string{`%s.limit`, `%s["limit"]`, `%s.fresh`, `%s.l[7]`, `%s.limit.x`}, []string{`%s.sub.k`, `%s.l[0]`}},
	{"immutable-array", "fixed", `immutable([1, 2, [3]])`,
		[]string{`%s[0]`, `%s[5]`, `%s[2][4]`}, []string{`%s[2][0]`}},
	{"array", "hist", `[10, 20, {k: 1}]`,
		[]string{`%s[3]`, `%s[-1]`, `%s["a"]`, `%s.k`, `%s[2].k.z`, `%s[0].x`}, []string{`%s[0]`, `%s[2].k`}},
	{"map", "tab", `{a: 1, m: {}}`,
		[]string{`%s.a.b`, `%s.zz.b`, `%s.m.q.r`}, []string{`%s.a`, `%s.m.k`, `%s.other`}},
	{"int", "num", `5`, []string{`%s.k`, `%s[0]`}, nil},
	{"string", "str", `"abc"`, []string{`%s[0]`, `%s.k`}, nil},
	{"undefined", "nothing", `undefined`, []string{`%s.k`, `%s[1]`}, nil},
	{"bytes", "raw", `bytes("ab")`, []string{`%s[0]`}, nil},
	{"error", "failure", `error("e")`, []string{`%s.value`, `%s.k`}, nil},
	{"function", "callee", `func(a) { return a }`, []string{`%s.k`, `%s[0]`}, nil},
}

type egen struct {
	r        *lib.RNG
	sb       strings.Builder
	ind      int
	useTrace bool
	marks    int
	fresh    int
	lastKind int
	tops     []etop // bases declared at the top level of the moved statements so far
	Feat     map[string]int
}

type etop struct {
	name string
	kind int
}

func newErrGen(r *lib.RNG) *egen {
	return &egen{r: r, Feat: map[string]int{}, lastKind: -1}
}

func (g *egen) line(s string) {
	g.sb.WriteString(strings.Repeat("\t", g.ind) + s + "\n")
}

func (g *egen) name(stem string) string {
	g.fresh++
	return stem + lib.N(g.fresh)
}

// mark records progress: a call of the host callback (with the counter or the base value), the prelude
// global `trace`, the counter n (a variable of the moved statements: global / local / captured).
func (g *egen) mark(what string, vals ...string) {
	g.marks++
	label := fmt.Sprintf("\"m%d %s\"", g.marks, what)
	if g.useTrace && g.r.Chance(2, 3) {
		g.line("trace = " + label)
	}
	if g.r.Chance(1, 2) {
		g.line(lib.Pick(g.r, []string{"n += 1", "n++", "n = n + 1"}))
	}
	switch k := g.r.Intn(4); {
	case k == 0:
		g.line("rec(" + label + ")")
	case k == 1 || len(vals) == 0:
		g.line("rec([" + label + ", n])")
	default:
		g.line("rec([" + label + ", " + strings.Join(vals, ", ") + "])")
	}
}

// failing returns the statement(s) of one operation on the base named b (value operand v).
func (g *egen) failing(kind int, b, v string) []string {
	e := ebases[kind]
	lv := func(ts []string) string { return fmt.Sprintf(lib.Pick(g.r, ts), b) }
	assign := func(l string) string {
		switch g.r.Intn(6) {
		case 0, 1, 2:
			g.Feat["err:selector-assign"]++
			return l + " = " + v
		case 3:
			g.Feat["err:selector-opassign"]++
			return l + lib.Pick(g.r, []string{" += ", " -= ", " *= "}) + v
		case 4:
			g.Feat["err:selector-incdec"]++
			return l + lib.Pick(g.r, []string{"++", "--"})
		default:
			g.Feat["err:selector-assign-composite"]++
			return l + " = [" + v + ", {k: " + v + "}]"
		}
	}
	var out []string
	q := g.name("q")
	switch g.r.Intn(16) {
	case 0, 1, 2, 3, 4, 5, 6:
		// a successful write first (the state it leaves is observed), then the failing one, then one more
		if len(e.good) > 0 && g.r.Bool() {
			out = append(out, lv(e.good)+" = "+v)
		}
		out = append(out, assign(lv(e.bad)))
		if len(e.good) > 0 && g.r.Chance(1, 3) {
			out = append(out, lv(e.good)+" = 99")
		}
	case 7:
		if len(e.good) > 0 {
			// works: the program goes on to the next episode
			g.Feat["err:assignment-that-works"]++
			out = append(out, lv(e.good)+" = "+v)
			break
		}
		out = append(out, assign(lv(e.bad)))
	case 8:
		g.Feat["err:call-non-callable"]++
		out = append(out, lib.Pick(g.r, []string{b + "()", b + "(" + v + ", 2)", q + " := " + b + "(" + v + ")", b + ".limit()", b + "[0](" + v + ")"}))
	case 9:
		g.Feat["err:operator"]++
		out = append(out, q+" := "+lib.Pick(g.r, []string{b + " + " + v, v + " - " + b, "-" + b, b + " < " + v, b + " * " + b, "\"s\" - " + b, b + "[2:1]", "^" + b, b + " / 1"}))
	case 10:
		g.Feat["err:argument-count"]++
		h := g.name("h")
		g.line(h + " := func(p1, p2) { return [p1, p2, " + b + "] }")
		out = append(out, lib.Pick(g.r, []string{h + "(" + v + ")", h + "()", q + " := " + h + "(" + b + ", " + v + ", 3)", h + "(" + b + "...)"}))
	case 11:
		g.Feat["err:builtin-arguments"]++
		out = append(out, q+" := "+lib.Pick(g.r, []string{"len()", "len(" + b + ", " + b + ")", "len(" + b + ")", "append(" + b + ", " + v + ")", "int()", "delete(" + b + ", \"a\")", "splice(" + b + ", 9)"}))
	case 12:
		g.Feat["err:iterate"]++
		// (a map is iterated in no particular order: only the number of rounds is recorded)
		out = append(out, "for k9, e9 in "+b+" { rec(\"item\") }")
	case 13:
		g.Feat["err:index-read"]++
		out = append(out, q+" := "+lib.Pick(g.r, []string{b + ".k.z", b + "[0][1]", b + "[\"x\"]", b + "[1:]", b + ".limit.x.y"}))
	default:
		out = append(out, assign(lv(e.bad)))
	}
	return out
}

// kindFor picks the base kind of an episode, never the previous episode's (the second failure would have
// the same message).
func (g *egen) kindFor() int {
	for {
		k := g.r.Intn(len(ebases))
		if g.r.Chance(1, 2) {
			k = g.r.Intn(4) // containers twice as often
		}
		if k != g.lastKind {
			g.lastKind = k
			return k
		}
	}
}

func (g *egen) emit(ss []string) {
	for _, s := range ss {
		g.line(s)
	}
}

func (g *egen) open(s string)  { g.line(s); g.ind++ }
func (g *egen) close(s string) { g.ind--; g.line(s) }

// declareTop declares the base at the top level of the moved statements: a global of the original, a local
// of the function placements and of the module body.
func (g *egen) declareTop(kind int) string {
	b := g.name(ebases[kind].stem)
	g.line(b + " := " + ebases[kind].lit)
	g.tops = append(g.tops, etop{b, kind})
	return b
}

func (g *egen) episode() {
	kind := g.kindFor()
	e := ebases[kind]
	g.Feat["base:"+e.feat]++
	shape := g.r.Intn(17)
	if shape == 16 && len(g.tops) == 0 {
		shape = 1
	}
	g.Feat[fmt.Sprintf("shape:%02d", shape)]++
	val := lib.Pick(g.r, []string{"2", "7", "n", "n + 1"})
	switch shape {
	case 0: // directly at the top level of the moved statements: SETSG at top level, SETSL in a function / module body
		b := g.declareTop(kind)
		g.mark("before direct", b)
		g.emit(g.failing(kind, b, val))
		g.mark("after direct", b)
	case 1: // a function literal one level below the variable: SETSG / SETSF
		b := g.declareTop(kind)
		f := g.name("set")
		g.open(f + " := func(v) {")
		g.mark("in "+f, "v")
		g.emit(g.failing(kind, b, "v"))
		g.mark("still in "+f, b)
		g.close("}")
		g.mark("before call")
		g.line(f + "(" + val + ")")
		g.mark("after call", b)
	case 2: // two levels below
		b := g.declareTop(kind)
		f, in := g.name("outer"), g.name("inner")
		g.open(f + " := func(v) {")
		g.open(in + " := func(w) {")
		g.mark("in "+in, "w")
		g.emit(g.failing(kind, b, "w"))
		g.mark("still in " + in)
		g.close("}")
		g.mark("in " + f)
		g.line(in + "(v + 1)")
		g.mark("back in "+f, b)
		g.close("}")
		g.line(f + "(" + val + ")")
		g.mark("after call", b)
	case 3: // an immediately invoked literal as a statement
		b := g.declareTop(kind)
		g.open("(func() {")
		g.mark("in literal")
		g.emit(g.failing(kind, b, val))
		g.mark("still in literal", b)
		g.close("})()")
		g.mark("after literal", b)
	case 4: // a method of a map
		b := g.declareTop(kind)
		o := g.name("obj")
		g.open(o + " := {")
		g.open("set: func(v) {")
		g.emit(g.failing(kind, b, "v"))
		g.mark("still in method")
		g.close("},")
		g.line("get: func() { return " + b + " }")
		g.close("}")
		g.mark("before method")
		g.line(lib.Pick(g.r, []string{o + ".set(" + val + ")", o + "[\"set\"](" + val + ")"}))
		g.mark("after method", o+".get()")
	case 5: // through a parameter: SETSL in every placement, the argument read from the variable's home
		b := g.declareTop(kind)
		f := g.name("apply")
		g.open(f + " := func(o, v) {")
		g.emit(g.failing(kind, "o", "v"))
		g.mark("still in "+f, "o")
		g.close("}")
		g.mark("before call")
		g.line(f + "(" + b + ", " + val + ")")
		g.mark("after call", b)
	case 6: // a loop calling the closure: a VM that goes on keeps looping
		b := g.declareTop(kind)
		f, i := g.name("set"), g.name("i")
		g.open(f + " := func(v) {")
		g.emit(g.failing(kind, b, "v"))
		g.mark("still in " + f)
		g.close("}")
		g.open("for " + i + " := 0; " + i + " < 3; " + i + "++ {")
		g.mark("round", i)
		g.line(f + "(" + i + ")")
		g.mark("round done", i)
		g.close("}")
		g.mark("after loop", b)
	case 7: // directly in a loop body
		b := g.declareTop(kind)
		i := g.name("i")
		g.open("for " + i + " := 0; " + i + " < 3; " + i + "++ {")
		g.mark("round", i)
		g.emit(g.failing(kind, b, i))
		g.mark("round done", i)
		g.close("}")
		g.mark("after loop", b)
	case 8: // the base is a local of a function of the program: SETSL everywhere
		run, b := g.name("run"), g.name(e.stem)
		g.open(run + " := func() {")
		g.line(b + " := " + e.lit)
		g.mark("in "+run, b)
		g.emit(g.failing(kind, b, val))
		g.mark("still in "+run, b)
		g.close("}")
		g.line(run + "()")
		g.mark("after " + run)
	case 9: // … captured one level below its function: SETSF everywhere
		run, b, f := g.name("run"), g.name(e.stem), g.name("set")
		g.open(run + " := func() {")
		g.line(b + " := " + e.lit)
		g.open(f + " := func(v) {")
		g.emit(g.failing(kind, b, "v"))
		g.mark("still in " + f)
		g.close("}")
		g.mark("in " + run)
		g.line(f + "(" + val + ")")
		g.mark("back in "+run, b)
		g.close("}")
		g.line(run + "()")
		g.mark("after " + run)
	case 10: // … captured two levels below
		run, b, mid, in := g.name("run"), g.name(e.stem), g.name("mid"), g.name("inner")
		g.open(run + " := func() {")
		g.line(b + " := " + e.lit)
		g.open(mid + " := func() {")
		g.open(in + " := func(v) {")
		g.emit(g.failing(kind, b, "v"))
		g.mark("still in " + in)
		g.close("}")
		g.line(in + "(" + val + ")")
		g.mark("back in "+mid, b)
		g.close("}")
		g.line(mid + "()")
		g.mark("back in " + run)
		g.close("}")
		g.line(run + "()")
		g.mark("after " + run)
	case 11: // the closure comes from a factory
		b := g.declareTop(kind)
		mk, s := g.name("mk"), g.name("setter")
		g.open(mk + " := func() {")
		g.open("return func(v) {")
		g.emit(g.failing(kind, b, "v"))
		g.mark("still in setter")
		g.close("}")
		g.close("}")
		g.line(s + " := " + mk + "()")
		g.mark("before setter")
		g.line(s + "(" + val + ")")
		g.mark("after setter", b)
	case 12: // the base is a local of a finished call
		mk, s, b := g.name("mk"), g.name("setter"), g.name(e.stem)
		g.open(mk + " := func() {")
		g.line(b + " := " + e.lit)
		g.open("return func(v) {")
		g.emit(g.failing(kind, b, "v"))
		g.mark("still in setter", b)
		g.close("}")
		g.close("}")
		g.line(s + " := " + mk + "()")
		g.mark("before setter")
		g.line(s + "(" + val + ")")
		g.mark("after setter")
	case 13: // declared in a block (no loop): a global slot of its own at top level, a reused local slot in a function
		b, f := g.name(e.stem), g.name("set")
		g.open("if n >= 0 {")
		g.line(b + " := " + e.lit)
		g.open(f + " := func(v) {")
		g.emit(g.failing(kind, b, "v"))
		g.mark("still in " + f)
		g.close("}")
		g.mark("in block")
		g.line(f + "(" + val + ")")
		g.mark("still in block", b)
		g.close("}")
		g.mark("after block")
	case 14: // the failing literal returns a value that is used: the caller's statement must not complete either
		b := g.declareTop(kind)
		f, q := g.name("try"), g.name("got")
		g.open(f + " := func(v) {")
		g.emit(g.failing(kind, b, "v"))
		g.mark("still in " + f)
		g.line("return v + 100")
		g.close("}")
		g.line(q + " := 0")
		g.line(q + " = " + f + "(" + val + ") + " + f + "(1)")
		g.mark("after "+f, q)
	case 15: // the variable gets the base value later, through a function literal (written where it lives, then used)
		b := g.name(e.stem)
		g.line(b + " := {ok: 1}")
		g.tops = append(g.tops, etop{b, kind})
		f, h := g.name("swap"), g.name("set")
		g.line(f + " := func() { " + b + " = " + e.lit + " }")
		g.open(h + " := func(v) {")
		g.emit(g.failing(kind, b, "v"))
		g.mark("still in " + h)
		g.close("}")
		g.line(b + ".ok = 2")
		g.line(f + "()")
		g.mark("swapped", b)
		g.line(h + "(" + val + ")")
		g.mark("after "+h, b)
	default: // a base of an earlier episode again (reached only when nothing has failed so far)
		t := lib.Pick(g.r, g.tops)
		g.lastKind = t.kind
		f := g.name("again")
		g.open(f + " := func(v) {")
		g.emit(g.failing(t.kind, t.name, "v"))
		g.mark("still in " + f)
		g.close("}")
		g.line(f + "(" + val + ")")
		g.mark("after "+f, t.name)
	}
}

// program returns the source and the number of leading statements that stay at top level in the function
// placements (the prelude). Three layouts: everything moves (module bodies included); `trace` and the
// callback in the prelude; `trace` in the prelude and the callback among the moved statements.
func (g *egen) program() (string, int) {
	prelude := 0
	switch g.r.Intn(3) {
	case 0:
		g.Feat["layout:all-moved"]++
		g.line("rec := import(\"host\").rec")
	case 1:
		g.Feat["layout:trace-and-callback-global"]++
		g.useTrace = true
		g.line("trace := \"start\"")
		g.line("rec := import(\"host\").rec")
		prelude = 2
	default:
		g.Feat["layout:trace-global"]++
		g.useTrace = true
		g.line("trace := \"start\"")
		g.line("rec := import(\"host\").rec")
		prelude = 1
	}
	g.line("n := 0")
	n := 2 + g.r.Intn(3)
	for i := 0; i < n; i++ {
		g.episode()
	}
	g.mark("end")
	g.line("result := n")
	return g.sb.String(), prelude
}

// errCorpus: fixed error-path programs, run for every seed. prelude = 1 (`trace`).
var errCorpus = []string{
	// a failing selector assignment through a function literal, a second different one behind it
	"trace := \"start\"\nrec := import(\"host\").rec\ncfg := immutable({limit: 1})\nhist := [0]\nset := func(v) { cfg.limit = v; hist[3] = v }\n" +
		"trace = \"before set\"\nrec(\"before set\")\nset(2)\ntrace = \"after set\"\nrec([\"after set\", hist])\n",
	// the same at the statement's own level, two levels down, and in a loop
	"trace := \"start\"\nrec := import(\"host\").rec\nhist := [1, 2]\nn := 0\nouter := func() { inner := func(i) { n += 1; hist[i] = n; rec([\"set\", i, n]) }; for i := 0; i < 5; i++ { inner(i); trace = \"round\" } }\n" +
		"outer()\ntrace = \"after outer\"\nnum := 5\nnum.k = 1\n",
	// op-assignment and ++ through a selector of an immutable value, then a call of a non-callable
	"trace := \"start\"\nrec := import(\"host\").rec\nbox := immutable({n: 1, l: [1]})\nbump := func() { box.l[0] += 1; rec(box); box.n++; rec(\"bumped\") }\nbump()\ntrace = \"after bump\"\nbox()\ntrace = \"after call\"\n",
	// not index-assignable bases: int, string, undefined
	"trace := \"start\"\nrec := import(\"host\").rec\nnothing := undefined\nstr := \"abc\"\nf := func() { g := func() { nothing.k = 1; rec(\"one\"); str[0] = \"x\"; rec(\"two\") }; g(); rec(\"three\") }\nf()\ntrace = \"after f\"\nq := 1 + \"x\"\n",
	// wrong argument count, then an ill-typed operator, callee and operands reached from a function literal
	"trace := \"start\"\nrec := import(\"host\").rec\nh := func(a, b) { return a + b }\ntab := {a: 1}\nrun := func() { rec(\"run\"); h(1); rec(\"after h\"); return tab - 1 }\nx := run()\ntrace = \"after run\"\n",
}

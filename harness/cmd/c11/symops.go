package main

// Correspondence stream `symops`: random sequences of symbol-table operations on the REAL
// tengo.SymbolTable versus the Lean model Tengo.Model.Symtab (driver line `(symops <op>…)`).

import (
	"sort"
	"strings"

	"github.com/d5/tengo/v2"
	"verifharness/lib"
)

type symOp struct {
	Kind  string `json:"op"` // define builtin fork parent leave resolve assign mark
	Name  string `json:"name,omitempty"`
	Index int    `json:"index,omitempty"`
	Block bool   `json:"block,omitempty"`
	Recur bool   `json:"recur,omitempty"`
}

func (o symOp) sexp() string {
	switch o.Kind {
	case "define", "assign", "mark":
		return lib.L(o.Kind, o.Name)
	case "builtin":
		return lib.L("builtin", lib.N(o.Index), o.Name)
	case "fork":
		if o.Block {
			return "(fork block)"
		}
		return "(fork func)"
	case "resolve":
		if o.Recur {
			return lib.L("resolve", o.Name, "recur")
		}
		return lib.L("resolve", o.Name)
	}
	return "(" + o.Kind + ")"
}

func b01(b bool) string {
	if b {
		return "1"
	}
	return "0"
}

func symStr(s *tengo.Symbol, sep string) string {
	return s.Name + sep + string(s.Scope) + sep + lib.N(s.Index) + sep + b01(s.LocalAssigned)
}

// realReplay drives the real symbol table and renders every step like the driver does.
func realReplay(ops []symOp) []string {
	cur := tengo.NewSymbolTable()
	blocks := []bool{false} // block flag per table, current first
	chain := func() string {
		var sb strings.Builder
		i := 0
		for t := cur; t != nil; t = t.Parent(false) {
			var fr []string
			for _, s := range t.FreeSymbols() {
				fr = append(fr, symStr(s, ":"))
			}
			names := t.Names()
			sort.Strings(names)
			sb.WriteString("[" + b01(blocks[i]) + " " + lib.N(t.MaxSymbols()) + " free=(" + strings.Join(fr, " ") + ") names=(" + strings.Join(names, " ") + ")]")
			i++
		}
		return sb.String()
	}
	out := make([]string, 0, len(ops))
	for _, o := range ops {
		res := ""
		switch o.Kind {
		case "define":
			res = "sym " + symStr(cur.Define(o.Name), " ")
		case "builtin":
			res = "sym " + symStr(cur.DefineBuiltin(o.Index, o.Name), " ")
		case "fork":
			cur = cur.Fork(o.Block)
			blocks = append([]bool{o.Block}, blocks...)
			res = "ok"
		case "parent", "leave":
			p := cur.Parent(false)
			if p == nil {
				res = "nil"
				break
			}
			fs := cur.FreeSymbols()
			cur = p
			blocks = blocks[1:]
			if o.Kind == "leave" {
				// compiler.go, FuncLit case: every captured local is (made) assigned
				for _, s := range fs {
					if s.Scope == tengo.ScopeLocal {
						s.LocalAssigned = true
					}
				}
			}
			res = "ok"
		case "resolve", "assign", "mark":
			recur := o.Recur
			if o.Kind == "assign" {
				recur = false
			} else if o.Kind == "mark" {
				recur = true
			}
			s, d, ok := cur.Resolve(o.Name, recur)
			if !ok {
				res = "notfound"
				break
			}
			res = "found " + symStr(s, " ") + " " + lib.N(d)
			if o.Kind == "assign" && s.Scope == tengo.ScopeLocal {
				s.LocalAssigned = true
			}
			if o.Kind == "mark" && s.Scope == tengo.ScopeLocal && d == 0 {
				s.LocalAssigned = true
			}
		}
		out = append(out, res+" / "+chain())
	}
	return out
}

var symNames = []string{"a", "b", "c", "x", "y", "len", "copy"}

func genSymOps(r *lib.RNG) []symOp {
	n := 8 + r.Intn(50)
	ops := []symOp{{Kind: "builtin", Index: 0, Name: "len"}, {Kind: "builtin", Index: 1, Name: "copy"}}
	if r.Chance(1, 6) {
		ops = nil // also exercise a table without builtins
	}
	depth := 0
	pool := symNames[:3+r.Intn(len(symNames)-2)]
	for i := 0; i < n; i++ {
		switch r.Weighted([]int{24, 22, 9, 9, 6, 6, 9, 9, 2, 4}) {
		case 0:
			ops = append(ops, symOp{Kind: "define", Name: lib.Pick(r, pool)})
		case 1:
			ops = append(ops, symOp{Kind: "resolve", Name: lib.Pick(r, pool)})
		case 2:
			if depth < 7 {
				ops = append(ops, symOp{Kind: "fork", Block: true})
				depth++
			}
		case 3:
			if depth < 7 {
				ops = append(ops, symOp{Kind: "fork", Block: false})
				depth++
			}
		case 4:
			ops = append(ops, symOp{Kind: "parent"})
			if depth > 0 {
				depth--
			}
		case 5:
			ops = append(ops, symOp{Kind: "leave"})
			if depth > 0 {
				depth--
			}
		case 6:
			ops = append(ops, symOp{Kind: "assign", Name: lib.Pick(r, pool)})
		case 7:
			// the compiler's pattern: Define immediately followed by the mark
			nm := lib.Pick(r, pool)
			if r.Bool() {
				ops = append(ops, symOp{Kind: "define", Name: nm})
			}
			ops = append(ops, symOp{Kind: "mark", Name: nm})
		case 8:
			ops = append(ops, symOp{Kind: "builtin", Index: r.Intn(40), Name: lib.Pick(r, symNames)})
		case 9:
			ops = append(ops, symOp{Kind: "resolve", Name: lib.Pick(r, pool), Recur: true})
		}
	}
	return ops
}

// compilerLikeOps mimics the operation order of compiler.go on a nest of function literals, so that
// the discipline the theorems assume (NoPending) is what is replayed.
func compilerLikeOps(r *lib.RNG) []symOp {
	ops := []symOp{{Kind: "builtin", Index: 0, Name: "len"}, {Kind: "builtin", Index: 1, Name: "copy"}}
	names := []string{"a", "b", "c", "d", "e"}
	var body func(depth int)
	body = func(depth int) {
		k := 2 + r.Intn(5)
		for i := 0; i < k; i++ {
			switch r.Intn(6) {
			case 0, 1: // n := expr
				nm := lib.Pick(r, names)
				ops = append(ops, symOp{Kind: "resolve", Name: nm}) // redeclaration test
				ops = append(ops, symOp{Kind: "resolve", Name: lib.Pick(r, names)})
				ops = append(ops, symOp{Kind: "define", Name: nm}, symOp{Kind: "mark", Name: nm})
			case 2: // n = expr
				ops = append(ops, symOp{Kind: "resolve", Name: lib.Pick(r, names)})
				ops = append(ops, symOp{Kind: "assign", Name: lib.Pick(r, names)})
			case 3: // block
				if depth < 5 {
					ops = append(ops, symOp{Kind: "fork", Block: true})
					body(depth + 1)
					ops = append(ops, symOp{Kind: "parent"})
				}
			case 4, 5: // n := func(p) { … }
				if depth < 5 {
					nm := lib.Pick(r, names)
					ops = append(ops, symOp{Kind: "resolve", Name: nm}, symOp{Kind: "define", Name: nm})
					ops = append(ops, symOp{Kind: "fork", Block: false})
					p := lib.Pick(r, names)
					ops = append(ops, symOp{Kind: "define", Name: p}, symOp{Kind: "mark", Name: p})
					ops = append(ops, symOp{Kind: "fork", Block: true})
					body(depth + 2)
					ops = append(ops, symOp{Kind: "parent"}, symOp{Kind: "leave"}, symOp{Kind: "mark", Name: nm})
				}
			}
		}
	}
	body(0)
	return ops
}

func checkSymOps(ops []symOp) {
	real := realReplay(ops)
	key := make([]string, len(ops))
	for i, o := range ops {
		key[i] = o.sexp()
	}
	line := "(symops " + strings.Join(key, " ") + ")"
	nontrivial := false
	for _, s := range real {
		if strings.Contains(s, " FREE ") {
			nontrivial = true
		}
	}
	res.Count("symops", line, nontrivial)
	for _, o := range ops {
		res.Dist("symop:" + o.Kind)
	}
	for _, s := range real {
		f := strings.Fields(s)
		if f[0] == "found" || f[0] == "sym" {
			res.Dist("symres:" + f[2])
		} else {
			res.Dist("symres:" + f[0])
		}
	}
	if drv == nil {
		return
	}
	ans, err := drv.Ask(line)
	if err != nil {
		fatal(err)
	}
	res.ModelLines++
	model := []string{}
	if strings.HasPrefix(ans, "ok ") {
		model = strings.Split(strings.TrimPrefix(ans, "ok "), " ; ")
	}
	if len(model) != len(real) {
		res.Disagree(lib.Disagreement{Stream: "symops", Input: ops, Model: clip(ans, 400), Impl: clip(strings.Join(real, " ; "), 400)})
		return
	}
	for i := range real {
		if real[i] != model[i] {
			res.Disagree(lib.Disagreement{Stream: "symops", Input: map[string]interface{}{"ops": ops, "first_difference_at": i, "op": ops[i]},
				Model: model[i], Impl: real[i]})
			return
		}
	}
}

package main

// Source transformations of the C11 searcher. All of them work on the REAL parser's AST and splice
// source text at node positions; every spliced range is validated (the text of the range parses back
// to the same expression) and every variant must parse, otherwise the variant is skipped.

import (
	"sort"
	"strings"

	"github.com/d5/tengo/v2"
	"github.com/d5/tengo/v2/parser"
	"verifharness/lib"
)

type program struct {
	src  string
	file *parser.File
	sf   *parser.SourceFile
}

func parseProgram(src string) (*program, error) {
	fs := parser.NewFileSet()
	sf := fs.AddFile("(main)", -1, len(src))
	p := parser.NewParser(sf, []byte(src), nil)
	f, err := p.ParseFile()
	if err != nil {
		return nil, err
	}
	return &program{src: src, file: f, sf: sf}, nil
}

func (p *program) off(pos parser.Pos) int { return p.sf.Offset(pos) }

// ---- generic walk ----

type visitor struct {
	// expr is called for every expression in rvalue position (never for assignment targets, map keys,
	// selector names, parameters). inFunc = number of enclosing function literals, loops = enclosing
	// loops that are not inside a function literal.
	expr func(e parser.Expr, ctx *walkCtx)
	// ident is called for every identifier occurrence that names a variable (uses, targets,
	// parameters, for-in variables).
	ident func(id *parser.Ident, ctx *walkCtx, decl bool)
	// enter/leave scopes
	stmt func(s parser.Stmt, ctx *walkCtx)
}

type walkCtx struct {
	inFunc   int
	topLoops []parser.Stmt // enclosing loops outside any function literal
	callee   bool          // the expression is the callee of a call
	defRHS   bool          // the expression is the direct right-hand side of `:=`
	funcs    []*parser.FuncLit
}

func walkStmts(ss []parser.Stmt, v *visitor, c *walkCtx) {
	for _, s := range ss {
		walkStmt(s, v, c)
	}
}

func walkStmt(s parser.Stmt, v *visitor, c *walkCtx) {
	if s == nil {
		return
	}
	if v.stmt != nil {
		v.stmt(s, c)
	}
	switch n := s.(type) {
	case *parser.AssignStmt:
		for _, l := range n.LHS {
			walkTarget(l, v, c)
		}
		for _, r := range n.RHS {
			cc := *c
			cc.callee = false
			cc.defRHS = n.Token.String() == ":="
			walkExpr(r, v, &cc)
		}
	case *parser.BlockStmt:
		walkStmts(n.Stmts, v, c)
	case *parser.ExportStmt:
		walkExprTop(n.Result, v, c)
	case *parser.ExprStmt:
		walkExprTop(n.Expr, v, c)
	case *parser.ForInStmt:
		walkExprTop(n.Iterable, v, c)
		cc := *c
		if c.inFunc == 0 {
			cc.topLoops = append(append([]parser.Stmt{}, c.topLoops...), s)
		}
		if v.ident != nil {
			if n.Key != nil && n.Key.Name != "_" {
				v.ident(n.Key, &cc, true)
			}
			if n.Value != nil && n.Value.Name != "_" {
				v.ident(n.Value, &cc, true)
			}
		}
		walkStmt(n.Body, v, &cc)
	case *parser.ForStmt:
		cc := *c
		if c.inFunc == 0 {
			cc.topLoops = append(append([]parser.Stmt{}, c.topLoops...), s)
		}
		walkStmt(n.Init, v, &cc)
		if n.Cond != nil {
			walkExprTop(n.Cond, v, &cc)
		}
		walkStmt(n.Post, v, &cc)
		walkStmt(n.Body, v, &cc)
	case *parser.IfStmt:
		walkStmt(n.Init, v, c)
		walkExprTop(n.Cond, v, c)
		walkStmt(n.Body, v, c)
		walkStmt(n.Else, v, c)
	case *parser.IncDecStmt:
		walkTarget(n.Expr, v, c)
	case *parser.ReturnStmt:
		if n.Result != nil {
			walkExprTop(n.Result, v, c)
		}
	}
}

func walkExprTop(e parser.Expr, v *visitor, c *walkCtx) {
	cc := *c
	cc.callee, cc.defRHS = false, false
	walkExpr(e, v, &cc)
}

// walkTarget walks an assignment target: the root identifier is a variable occurrence, index
// expressions inside selectors are rvalues.
func walkTarget(e parser.Expr, v *visitor, c *walkCtx) {
	switch n := e.(type) {
	case *parser.Ident:
		if v.ident != nil && n.Name != "_" {
			v.ident(n, c, true)
		}
	case *parser.IndexExpr:
		walkTarget(n.Expr, v, c)
		walkExprTop(n.Index, v, c)
	case *parser.SelectorExpr:
		walkTarget(n.Expr, v, c)
	case *parser.ParenExpr:
		walkTarget(n.Expr, v, c)
	default:
		walkExprTop(e, v, c)
	}
}

func walkExpr(e parser.Expr, v *visitor, c *walkCtx) {
	if e == nil {
		return
	}
	if v.expr != nil {
		v.expr(e, c)
	}
	sub := *c
	sub.callee, sub.defRHS = false, false
	switch n := e.(type) {
	case *parser.Ident:
		if v.ident != nil {
			v.ident(n, c, false)
		}
	case *parser.ArrayLit:
		for _, x := range n.Elements {
			walkExpr(x, v, &sub)
		}
	case *parser.BinaryExpr:
		walkExpr(n.LHS, v, &sub)
		walkExpr(n.RHS, v, &sub)
	case *parser.CallExpr:
		cc := sub
		cc.callee = true
		walkExpr(n.Func, v, &cc)
		for _, x := range n.Args {
			walkExpr(x, v, &sub)
		}
	case *parser.CondExpr:
		walkExpr(n.Cond, v, &sub)
		walkExpr(n.True, v, &sub)
		walkExpr(n.False, v, &sub)
	case *parser.ErrorExpr:
		walkExpr(n.Expr, v, &sub)
	case *parser.ImmutableExpr:
		walkExpr(n.Expr, v, &sub)
	case *parser.FuncLit:
		cc := sub
		cc.inFunc++
		cc.funcs = append(append([]*parser.FuncLit{}, c.funcs...), n)
		if v.ident != nil {
			for _, p := range n.Type.Params.List {
				v.ident(p, &cc, true)
			}
		}
		walkStmt(n.Body, v, &cc)
	case *parser.IndexExpr:
		walkExpr(n.Expr, v, &sub)
		walkExpr(n.Index, v, &sub)
	case *parser.MapLit:
		for _, m := range n.Elements {
			walkExpr(m.Value, v, &sub)
		}
	case *parser.ParenExpr:
		cc := sub
		cc.callee = c.callee
		walkExpr(n.Expr, v, &cc)
	case *parser.SelectorExpr:
		walkExpr(n.Expr, v, &sub)
	case *parser.SliceExpr:
		walkExpr(n.Expr, v, &sub)
		walkExpr(n.Low, v, &sub)
		walkExpr(n.High, v, &sub)
	case *parser.UnaryExpr:
		walkExpr(n.Expr, v, &sub)
	}
}

// ---- facts about a program ----

// topLevelNames: names defined by `:=` statements directly at top level, in first-definition order
// (exactly the names Compiled.GetAll reports).
func (p *program) topLevelNames() []string {
	var out []string
	seen := map[string]bool{}
	for _, s := range p.file.Stmts {
		if a, ok := s.(*parser.AssignStmt); ok && a.Token.String() == ":=" && len(a.LHS) == 1 {
			if id, ok := a.LHS[0].(*parser.Ident); ok && !seen[id.Name] {
				seen[id.Name] = true
				out = append(out, id.Name)
			}
		}
	}
	return out
}

// topLevelDecls: the `name := …` statements directly at top level (source range and name).
func (p *program) topLevelDecls() []site {
	var out []site
	for _, s := range p.file.Stmts {
		if a, ok := s.(*parser.AssignStmt); ok && a.Token.String() == ":=" && len(a.LHS) == 1 && len(a.RHS) == 1 {
			if id, ok := a.LHS[0].(*parser.Ident); ok && !reserved[id.Name] {
				st, en := p.off(a.Pos()), p.off(a.End())
				if st >= 0 && en <= len(p.src) && st < en && strings.HasPrefix(p.src[st:en], id.Name) {
					out = append(out, site{st, en, id.Name})
				}
			}
		}
	}
	return out
}

// hasTopLevelOnly: return/export at top level (outside function literals) or import anywhere.
func (p *program) hasTopLevelOnly() bool {
	found := false
	v := &visitor{
		stmt: func(s parser.Stmt, c *walkCtx) {
			switch s.(type) {
			case *parser.ReturnStmt, *parser.ExportStmt:
				if c.inFunc == 0 {
					found = true
				}
			}
		},
		expr: func(e parser.Expr, c *walkCtx) {
			if _, ok := e.(*parser.ImportExpr); ok {
				found = true
			}
		},
	}
	walkStmts(p.file.Stmts, v, &walkCtx{})
	return found
}

// userVars: every name the program declares (`:=` targets, parameters, for-in variables).
func (p *program) userVars() map[string]bool {
	set := map[string]bool{}
	v := &visitor{stmt: func(s parser.Stmt, c *walkCtx) {
		if a, ok := s.(*parser.AssignStmt); ok && a.Token.String() == ":=" {
			for _, l := range a.LHS {
				if id, ok := l.(*parser.Ident); ok {
					set[id.Name] = true
				}
			}
		}
	}}
	walkStmts(p.file.Stmts, v, &walkCtx{})
	// parameters and for-in variables
	v2 := &visitor{expr: func(e parser.Expr, c *walkCtx) {
		if f, ok := e.(*parser.FuncLit); ok {
			for _, q := range f.Type.Params.List {
				set[q.Name] = true
			}
		}
	}, stmt: func(s parser.Stmt, c *walkCtx) {
		if f, ok := s.(*parser.ForInStmt); ok {
			if f.Key != nil && f.Key.Name != "_" {
				set[f.Key.Name] = true
			}
			if f.Value != nil && f.Value.Name != "_" {
				set[f.Value.Name] = true
			}
		}
	}}
	walkStmts(p.file.Stmts, v2, &walkCtx{})
	return set
}

// allIdentNames: every identifier-like word of the source (variables, builtins, map keys, selectors).
func (p *program) allWords() map[string]bool {
	set := map[string]bool{}
	word := []byte{}
	flush := func() {
		if len(word) > 0 {
			set[string(word)] = true
			word = word[:0]
		}
	}
	for i := 0; i < len(p.src); i++ {
		ch := p.src[i]
		if ch == '_' || ch >= 'a' && ch <= 'z' || ch >= 'A' && ch <= 'Z' || ch >= '0' && ch <= '9' || ch >= 0x80 {
			word = append(word, ch)
		} else {
			flush()
		}
	}
	flush()
	return set
}

// scopeDependent reports the one documented scope-dependent situation, conservatively: a function
// literal inside a TOP-LEVEL loop refers to a variable declared inside that loop (outside the literal)
// and is neither invoked on the spot nor bound by `f := func…` to a name that is only ever called.
// For such programs the function/module placements are not compared.
func (p *program) scopeDependent() bool {
	type loopInfo struct {
		declared map[string]bool
	}
	infos := map[parser.Stmt]*loopInfo{}
	// pass 1: names declared inside each top-level loop, outside function literals
	v1 := &visitor{}
	v1.ident = func(id *parser.Ident, c *walkCtx, decl bool) {}
	v1.stmt = func(s parser.Stmt, c *walkCtx) {
		if c.inFunc != 0 {
			return
		}
		add := func(name string) {
			for _, l := range c.topLoops {
				if infos[l] == nil {
					infos[l] = &loopInfo{declared: map[string]bool{}}
				}
				infos[l].declared[name] = true
			}
		}
		switch n := s.(type) {
		case *parser.AssignStmt:
			if n.Token.String() == ":=" {
				for _, l := range n.LHS {
					if id, ok := l.(*parser.Ident); ok {
						add(id.Name)
					}
				}
			}
		case *parser.ForInStmt:
			// its own variables belong to itself: registered below through topLoops of the body;
			// simplest: declare them for this loop and all enclosing ones
			if infos[s] == nil {
				infos[s] = &loopInfo{declared: map[string]bool{}}
			}
			for _, id := range []*parser.Ident{n.Key, n.Value} {
				if id != nil && id.Name != "_" {
					infos[s].declared[id.Name] = true
					add(id.Name)
				}
			}
		case *parser.ForStmt:
			if infos[s] == nil {
				infos[s] = &loopInfo{declared: map[string]bool{}}
			}
			if a, ok := n.Init.(*parser.AssignStmt); ok && a.Token.String() == ":=" {
				for _, l := range a.LHS {
					if id, ok := l.(*parser.Ident); ok {
						infos[s].declared[id.Name] = true
					}
				}
			}
		}
	}
	walkStmts(p.file.Stmts, v1, &walkCtx{})
	if len(infos) == 0 {
		return false
	}
	// pass 2: function literals directly inside a top-level loop (outermost literal only)
	suspect := false
	bound := map[string]bool{}   // names bound by `f := func…` inside a top-level loop to a capturing literal
	okLits := map[*parser.FuncLit]bool{}
	var lits []*parser.FuncLit
	litLoops := map[*parser.FuncLit][]parser.Stmt{}
	v2 := &visitor{}
	v2.stmt = func(s parser.Stmt, c *walkCtx) {
		if c.inFunc != 0 || len(c.topLoops) == 0 {
			return
		}
		if a, ok := s.(*parser.AssignStmt); ok && a.Token.String() == ":=" && len(a.LHS) == 1 && len(a.RHS) == 1 {
			if f, ok := a.RHS[0].(*parser.FuncLit); ok {
				if id, ok := a.LHS[0].(*parser.Ident); ok {
					okLits[f] = true
					bound[id.Name] = true
				}
			}
		}
	}
	v2.expr = func(e parser.Expr, c *walkCtx) {
		if f, ok := e.(*parser.FuncLit); ok && c.inFunc == 0 && len(c.topLoops) > 0 {
			lits = append(lits, f)
			litLoops[f] = c.topLoops
			if c.callee {
				okLits[f] = true
			}
		}
	}
	walkStmts(p.file.Stmts, v2, &walkCtx{})
	for _, f := range lits {
		// does f mention a loop-declared name? does a literal nested in f?
		mentions, nested := false, false
		vv := &visitor{}
		vv.ident = func(id *parser.Ident, c *walkCtx, decl bool) {
			for _, l := range litLoops[f] {
				if infos[l] != nil && infos[l].declared[id.Name] {
					mentions = true
					if c.inFunc > 0 {
						nested = true // the inner closure may be handed out by f
					}
				}
			}
		}
		walkStmt(f.Body, vv, &walkCtx{})
		if mentions && (!okLits[f] || nested) {
			suspect = true
		}
	}
	// a bound name must only be called
	v3 := &visitor{}
	v3.ident = func(id *parser.Ident, c *walkCtx, decl bool) {
		if !decl && bound[id.Name] && !c.callee {
			suspect = true
		}
	}
	walkStmts(p.file.Stmts, v3, &walkCtx{})
	return suspect
}

// ---- (i) function placement, (ii) module placement ----

func collectArray(names []string) string { return "[" + strings.Join(names, ", ") + "]" }

func (p *program) inFunction(names []string) string {
	return "__f := func() {\n" + p.src + "\nreturn " + collectArray(names) + "\n}\n__out := __f()\n"
}

// splitAt: the source before and from top-level statement k (k = 0: everything moves).
func (p *program) splitAt(k int) (string, string) {
	if k <= 0 || k >= len(p.file.Stmts) {
		return "", p.src
	}
	o := p.off(p.file.Stmts[k].Pos())
	return p.src[:o], p.src[o:]
}

// inFunctionFrom: the statements from top-level statement k on run inside a function body, the first k
// statements stay where they are (their variables are globals in both placements).
func (p *program) inFunctionFrom(k int, names []string) string {
	head, body := p.splitAt(k)
	return head + "__f := func() {\n" + body + "\nreturn " + collectArray(names) + "\n}\n__out := __f()\n"
}

// inNestedFunctionFrom: the same, two function literals deep.
func (p *program) inNestedFunctionFrom(k int, names []string) string {
	head, body := p.splitAt(k)
	return head + "__f := func() {\nreturn func() {\n" + body + "\nreturn " + collectArray(names) + "\n}()\n}\n__out := __f()\n"
}

func (p *program) asModule(names []string) string {
	return p.src + "\nexport " + collectArray(names) + "\n"
}

// ---- (iii) IIFE wrapping ----

type site struct {
	start, end int
	desc       string
}

// wrapSites lists the rvalue sub-expressions that may be wrapped in an immediately invoked function
// literal. Excluded: function literals themselves (`f := func…` is the documented recursion idiom:
// the name is visible in the literal only when the literal is the direct right-hand side), import
// expressions, and ranges whose text does not parse back to the same expression.
func (p *program) wrapSites() []site {
	var out []site
	d := lib.ASTDumper{}
	v := &visitor{}
	v.expr = func(e parser.Expr, c *walkCtx) {
		switch e.(type) {
		case *parser.FuncLit, *parser.ImportExpr, *parser.BadExpr:
			return
		}
		s, t := p.off(e.Pos()), p.off(e.End())
		if s < 0 || t > len(p.src) || s >= t {
			return
		}
		text := p.src[s:t]
		q, err := parseProgram("__x := (" + text + ")\n")
		if err != nil || len(q.file.Stmts) != 1 {
			return
		}
		a, ok := q.file.Stmts[0].(*parser.AssignStmt)
		if !ok || len(a.RHS) != 1 {
			return
		}
		pe, ok := a.RHS[0].(*parser.ParenExpr)
		if !ok || d.Expr(pe.Expr) != d.Expr(e) {
			return
		}
		out = append(out, site{s, t, clip(text, 40)})
	}
	walkStmts(p.file.Stmts, v, &walkCtx{})
	return out
}

// wrap applies the wrapping at the chosen sites (nested choices are fine: inner ones first).
func (p *program) wrap(sites []site) string {
	// process by start descending / end ascending so that inner and later ranges are rewritten first
	type edit struct {
		pos  int
		text string
		ord  int
	}
	var edits []edit
	for _, s := range sites {
		edits = append(edits, edit{s.start, "(func() { return ", 1}, edit{s.end, " })()", 0})
	}
	// insertions at the same offset: closers (ord 0) before openers (ord 1); among openers the outer
	// (longer range) first, among closers the inner first — ranges are nested or disjoint, so sorting
	// by (pos, ord) and, for equal keys, keeping generation order of nested sites is enough when the
	// sites are sorted outer-first.
	sort.SliceStable(edits, func(i, j int) bool {
		if edits[i].pos != edits[j].pos {
			return edits[i].pos < edits[j].pos
		}
		return edits[i].ord < edits[j].ord
	})
	var sb strings.Builder
	last := 0
	for _, e := range edits {
		sb.WriteString(p.src[last:e.pos])
		sb.WriteString(e.text)
		last = e.pos
	}
	sb.WriteString(p.src[last:])
	return sb.String()
}

// ---- (iv) renaming ----

var reserved = func() map[string]bool {
	m := map[string]bool{}
	for _, k := range []string{"break", "continue", "else", "for", "func", "error", "immutable", "if", "return", "export",
		"true", "false", "in", "undefined", "import", "_", "__f", "__out", "__x"} {
		m[k] = true
	}
	for _, f := range tengo.GetAllBuiltinFunctions() {
		m[f.Name] = true
	}
	return m
}()

// renaming picks an injective map from the program's variables to fresh names (mode 0: same
// length, every source position stays; mode 1: other lengths; mode 2: a cyclic permutation of the
// program's own names). Builtin names, keywords and every other word of the source are avoided.
func (p *program) renaming(r *lib.RNG) map[string]string {
	vars := p.userVars()
	names := make([]string, 0, len(vars))
	for n := range vars {
		if !reserved[n] { // a program that shadows a builtin keeps that name (O26 territory)
			names = append(names, n)
		}
	}
	sort.Strings(names)
	sigma := map[string]string{}
	mode := r.Intn(3)
	if mode == 2 && len(names) >= 2 {
		sh := 1 + r.Intn(len(names)-1)
		for i, n := range names {
			sigma[n] = names[(i+sh)%len(names)]
		}
		return sigma
	}
	used := p.allWords()
	stems := []string{"q", "zz", "tmp_", "K", "a_b_", "n0x", "longer_identifier_", "é"}
	for i, n := range names {
		for k := 0; ; k++ {
			var nn string
			if mode == 0 && k < 60 {
				nn = sameLen(n, i, k)
			} else {
				nn = lib.Pick(r, stems) + lib.N(i) + strings.Repeat("_", k)
			}
			if reserved[nn] || used[nn] {
				continue
			}
			sigma[n] = nn
			used[nn] = true
			break
		}
	}
	return sigma
}

func sameLen(n string, i, k int) string {
	const alpha = "abcdefghijklmnopqrstuvwxyz"
	b := []byte(n)
	x := i*7 + k*11 + 3
	for j := range b {
		b[j] = alpha[(x+j*5)%26]
		x = x*31 + 7
		if x < 0 {
			x = -x
		}
	}
	return string(b)
}

// rename rewrites every variable occurrence by sigma.
func (p *program) rename(sigma map[string]string) string {
	type edit struct {
		start, end int
		text       string
	}
	var edits []edit
	seen := map[int]bool{}
	v := &visitor{}
	v.ident = func(id *parser.Ident, c *walkCtx, decl bool) {
		nn, ok := sigma[id.Name]
		if !ok {
			return
		}
		s := p.off(id.NamePos)
		if seen[s] || s < 0 || s+len(id.Name) > len(p.src) || p.src[s:s+len(id.Name)] != id.Name {
			return
		}
		seen[s] = true
		edits = append(edits, edit{s, s + len(id.Name), nn})
	}
	walkStmts(p.file.Stmts, v, &walkCtx{})
	sort.Slice(edits, func(i, j int) bool { return edits[i].start < edits[j].start })
	var sb strings.Builder
	last := 0
	for _, e := range edits {
		sb.WriteString(p.src[last:e.start])
		sb.WriteString(e.text)
		last = e.end
	}
	sb.WriteString(p.src[last:])
	return sb.String()
}

// renamedDump checks the rewriting itself: the variant's AST must be the original's AST with the
// names mapped (so a missed or wrongly renamed occurrence is never blamed on tengo).
func renameConsistent(orig, variant *program, sigma map[string]string) bool {
	var a, b []string
	collect := func(p *program, out *[]string) {
		v := &visitor{}
		v.ident = func(id *parser.Ident, c *walkCtx, decl bool) { *out = append(*out, id.Name) }
		walkStmts(p.file.Stmts, v, &walkCtx{})
	}
	collect(orig, &a)
	collect(variant, &b)
	if len(a) != len(b) {
		return false
	}
	for i := range a {
		want := a[i]
		if nn, ok := sigma[want]; ok {
			want = nn
		}
		if b[i] != want {
			return false
		}
	}
	return true
}

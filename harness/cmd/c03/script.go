// Round 8: the optimized / unoptimized comparison on what a user actually runs.
//
// Script.Compile post-processes the compiler's bytecode with Bytecode.RemoveDuplicates. A pass that
// merges constants by content can only tell two compiled functions apart as long as their bytes
// differ — and dead-code elimination is exactly what makes two functions with the same live code
// byte-identical. The twin comparison of main.go is made on the compiler's raw output, so it cannot
// see such an interaction. This file adds
//
//	dedup   (searcher) every program of every family: optimized bytecode and the harness-built
//	        unoptimized twin, each cloned and sent through RemoveDuplicates, must run alike, and
//	        like the reference run of the raw unoptimized twin (globals, error text with positions;
//	        for programs with several functions also under a forced allocation-limit error)
//	script  (searcher) closed-form and random "duplicate function" programs through the real
//	        tengo.Script API (Compile = compiler + RemoveDuplicates; Run), optimized against the
//	        keep-dead-code twin compiled through the same API, plus an oracle that is independent of
//	        both: the harness knows the line/column of the failing expression and of the call site
//	        (markers in the program template) and which values the succeeding calls return
//
// The family: K function literals / module functions with identical live code that differ only in
// unreachable code (after a return: at the end, inside an if-block, inside a loop), placed on
// different lines and columns, stored in variables / a map / an array / made by a maker function /
// exported by source modules / called where they are written, called directly / through an alias /
// with a spread argument / from a wrapper function, with one of them failing at run time.
package main

import (
	"context"
	"fmt"
	"os"
	"sort"
	"strings"
	"time"

	"github.com/d5/tengo/v2"
	"verifharness/lib"
)

// ---- dedup stream -------------------------------------------------------------------------

var dedupSweepBudget, scriptSweepBudget, dedupSingle int
var replaying bool // a replay evaluates every recorded input in full

// wall time spent in the round-8 streams (reported in the result's extra block)
var dedupTime, scriptTime, familyTime time.Duration

func cloneFn(f *tengo.CompiledFunction) *tengo.CompiledFunction {
	return &tengo.CompiledFunction{Instructions: append([]byte{}, f.Instructions...), NumLocals: f.NumLocals,
		NumParameters: f.NumParameters, VarArgs: f.VarArgs, SourceMap: f.SourceMap, Free: f.Free}
}

// dedupClone copies the bytecode (RemoveDuplicates rewrites instructions in place) preserving the
// identity structure of the function constants, and runs the real RemoveDuplicates on the copy.
func dedupClone(c *lib.Compiled) (out *lib.Compiled, panicked string) {
	defer func() {
		if p := recover(); p != nil {
			out, panicked = nil, fmt.Sprint(p)
		}
	}()
	bc := &tengo.Bytecode{FileSet: c.BC.FileSet, MainFunction: cloneFn(c.BC.MainFunction)}
	same := map[*tengo.CompiledFunction]*tengo.CompiledFunction{}
	for _, k := range c.BC.Constants {
		if f, ok := k.(*tengo.CompiledFunction); ok {
			if same[f] == nil {
				same[f] = cloneFn(f)
			}
			bc.Constants = append(bc.Constants, same[f])
		} else {
			bc.Constants = append(bc.Constants, k)
		}
	}
	bc.RemoveDuplicates()
	return &lib.Compiled{BC: bc, Symbols: c.Symbols, FileSet: c.FileSet, File: c.File}, ""
}

// checkDedup is called by checkProgram once the raw twins were compared: o = optimized bytecode,
// u = harness-built unoptimized twin, ru = outcome of u (the reference; it ran without
// RemoveDuplicates and without any optimizer code).
func checkDedup(src string, o, u *lib.Compiled, ru lib.RunOutcome, nfn int, removedAny bool) {
	t0 := time.Now()
	defer func() { dedupTime += time.Since(t0) }()
	if nfn < 3 {
		// a single function literal: nothing RemoveDuplicates could confuse it with; sampled
		dedupSingle++
		if dedupSingle%4 != 0 && !replaying {
			return
		}
	}
	do, p1 := dedupClone(o)
	du, p2 := dedupClone(u)
	if p1 != "" || p2 != "" {
		res.Violate(lib.Violation{Signature: "remove-duplicates-panics", Stream: "dedup", Input: replayInput{Source: src},
			Observed: clip("optimized: "+p1+" unoptimized: "+p2, 300), Expected: "no panic", Oracle: "recover around Bytecode.RemoveDuplicates on compiler output"})
		return
	}
	rdo := lib.RunBytecode(do, lib.RunOpts{})
	rdu := lib.RunBytecode(du, lib.RunOpts{})
	// did RemoveDuplicates drop a function constant of either twin? (the compiler never emits one function
	// object twice for a program without imports)
	merged := len(lib.Functions(do.BC)) != len(lib.Functions(o.BC)) || len(lib.Functions(du.BC)) != len(lib.Functions(u.BC))
	res.Count("dedup", src, removedAny && nfn >= 3)
	if merged {
		res.Dist("dedup-merged-function-constants")
	}
	if rdo.TimedOut || rdu.TimedOut {
		res.Dist("timeout")
		return
	}
	if rdo.String() != rdu.String() || rdo.String() != ru.String() {
		// confirm: the difference must be reproducible (a loaded machine, map iteration order)
		a, b, c := lib.RunBytecode(do, lib.RunOpts{}), lib.RunBytecode(du, lib.RunOpts{}), lib.RunBytecode(u, lib.RunOpts{})
		if a.String() != rdo.String() || b.String() != rdu.String() || c.String() != ru.String() {
			res.Skipped++
			res.Dist("dedup-unstable-outcome-skipped")
			return
		}
	}
	if rdo.String() != rdu.String() {
		res.Violate(lib.Violation{Signature: "dedup-twin-run-differs", Stream: "dedup", Input: replayInput{Source: src},
			Observed: clip(rdo.String(), 600), Expected: clip(rdu.String(), 600),
			Oracle: "RemoveDuplicates(optimized) run == RemoveDuplicates(unoptimized twin) run (globals, error text with positions)"})
	}
	if rdo.String() != ru.String() {
		res.Violate(lib.Violation{Signature: "dedup-optimized-run-differs-from-reference", Stream: "dedup", Input: replayInput{Source: src},
			Observed: clip(rdo.String(), 600), Expected: clip(ru.String(), 600),
			Oracle: "RemoveDuplicates(optimized) run == run of the raw unoptimized twin (no optimizer code, no RemoveDuplicates)"})
	}
	// forced allocation-limit error at the k-th allocation: probes the source map of whichever function
	// object a call really executes, also in programs that succeed
	budgeted := nfn >= 3 && removedAny && ru.Err == "" && dedupSweepBudget > 0
	if budgeted {
		dedupSweepBudget--
	}
	if merged || budgeted {
		for k := int64(1); k <= 12; k++ {
			so := lib.RunBytecode(do, lib.RunOpts{MaxAllocs: k})
			su := lib.RunBytecode(du, lib.RunOpts{MaxAllocs: k})
			sr := lib.RunBytecode(u, lib.RunOpts{MaxAllocs: k})
			res.Count("dedup-sweep", fmt.Sprintf("%d|%s", k, src), true)
			if so.TimedOut || su.TimedOut || sr.TimedOut {
				break
			}
			if !strings.Contains(so.Err+su.Err+sr.Err, "allocation limit") {
				break // fewer than k allocations: this is the plain run compared above
			}
			if so.Err != su.Err || so.Panic != su.Panic || so.Err != sr.Err || so.Panic != sr.Panic {
				sig := "dedup-twin-run-differs-under-alloc-limit"
				if so.Err == su.Err && so.Panic == su.Panic {
					sig = "dedup-optimized-run-differs-from-reference-under-alloc-limit"
				}
				res.Violate(lib.Violation{Signature: sig, Stream: "dedup",
					Input:    replayInput{Source: src, Insts: fmt.Sprintf("maxAllocs=%d", k)},
					Observed: clip(so.Err+so.Panic, 600), Expected: clip(su.Err+su.Panic+" | reference: "+sr.Err+sr.Panic, 600),
					Oracle: "RemoveDuplicates(optimized) == RemoveDuplicates(unoptimized twin) == raw unoptimized twin with the allocation limit error forced at the k-th allocation (error text with positions)"})
				break
			}
			if !strings.Contains(sr.Err, "allocation limit") {
				break
			}
		}
	}
}

// ---- script stream ------------------------------------------------------------------------

type scriptOutcome struct {
	CompileErr string
	Err        string
	Panic      string
	TimedOut   bool
	Globals    map[string]string
}

func (o scriptOutcome) String() string {
	var sb strings.Builder
	switch {
	case o.TimedOut:
		sb.WriteString("timeout")
	case o.Panic != "":
		sb.WriteString("panic " + o.Panic)
	case o.CompileErr != "":
		sb.WriteString("compile-err " + o.CompileErr)
	case o.Err != "":
		sb.WriteString("err " + o.Err)
	default:
		sb.WriteString("ok")
	}
	names := make([]string, 0, len(o.Globals))
	for n := range o.Globals {
		names = append(names, n)
	}
	sort.Strings(names)
	for _, n := range names {
		sb.WriteString(" " + n + "=" + o.Globals[n])
	}
	return sb.String()
}

// runScript is the user's path: tengo.NewScript, SetImports, Compile (compiler + RemoveDuplicates), Run.
func runScript(src string, mods map[string]string, keepDead bool, maxAllocs int64) (out scriptOutcome) {
	defer func() {
		if p := recover(); p != nil {
			out.Panic = fmt.Sprint(p)
		}
	}()
	s := tengo.NewScript([]byte(src))
	if len(mods) > 0 {
		mm := tengo.NewModuleMap()
		for n, m := range mods {
			mm.AddSourceModule(n, []byte(m))
		}
		s.SetImports(mm)
	}
	if maxAllocs > 0 {
		s.SetMaxAllocs(maxAllocs)
	}
	saved := tengo.VerifKeepDeadCode
	tengo.VerifKeepDeadCode = keepDead
	c, err := s.Compile()
	tengo.VerifKeepDeadCode = saved
	if err != nil {
		out.CompileErr = err.Error()
		return
	}
	ctx, cancel := context.WithTimeout(context.Background(), 5*time.Second)
	defer cancel()
	if err := c.RunContext(ctx); err != nil {
		if ctx.Err() != nil {
			out.TimedOut = true
			return
		}
		out.Err = err.Error()
	}
	out.Globals = map[string]string{}
	for _, v := range c.GetAll() {
		out.Globals[v.Name()] = lib.Canon(v.Object())
	}
	return
}

// frames of an error text: the "at file:line:col" lines, innermost first
func errFrames(e string) []string {
	var fr []string
	for _, l := range strings.Split(e, "\n") {
		l = strings.TrimSpace(l)
		if strings.HasPrefix(l, "at ") {
			fr = append(fr, strings.TrimPrefix(l, "at "))
		}
	}
	return fr
}

// checkScript runs one program through the Script API, optimized and with dead code kept, and
// compares; exp (optional) is what the harness knows about the program by construction.
func checkScript(in replayInput) {
	t0 := time.Now()
	defer func() { scriptTime += time.Since(t0) }()
	src, mods := in.Source, in.Modules
	o := runScript(src, mods, false, 0)
	u := runScript(src, mods, true, 0)
	failing := len(in.ExpectFrames) > 0
	res.Count("script", src+fmt.Sprint(mods), true)
	if o.TimedOut || u.TimedOut {
		res.Dist("timeout")
		return
	}
	if o.String() != u.String() {
		res.Violate(lib.Violation{Signature: "script-twin-run-differs", Stream: "script", Input: in,
			Observed: clip(o.String(), 600), Expected: clip(u.String(), 600),
			Oracle: "Script.Compile+Run with dead-code elimination == Script.Compile+Run with dead code kept (globals, error text with positions)"})
	}
	if in.Expect != "" {
		// oracle independent of both twins
		bad := ""
		switch {
		case o.CompileErr != "" || o.Panic != "":
			bad = "does not compile/run: " + o.CompileErr + o.Panic
		case failing:
			fr := errFrames(o.Err)
			switch {
			case o.Err == "":
				bad = "no run-time error"
			case !strings.Contains(o.Err, in.ExpectErr):
				bad = "error text lacks " + in.ExpectErr
			case len(fr) < len(in.ExpectFrames):
				bad = fmt.Sprintf("%d frames", len(fr))
			default:
				for i, f := range in.ExpectFrames {
					if f != "" && fr[i] != f {
						bad = fmt.Sprintf("frame %d is %s, the program has the failing code at %s", i, fr[i], f)
						break
					}
				}
			}
		default:
			if o.Err != "" {
				bad = "unexpected run-time error"
			}
		}
		if bad == "" {
			for _, kv := range strings.Split(in.Expect, ";") {
				if i := strings.Index(kv, "="); i > 0 {
					if got, ok := o.Globals[kv[:i]]; !ok || got != kv[i+1:] {
						bad = fmt.Sprintf("global %s is %s, expected %s", kv[:i], got, kv[i+1:])
						break
					}
				}
			}
		}
		if bad != "" {
			if os.Getenv("VERIF_C03_DEBUG") != "" {
				fmt.Fprintf(os.Stderr, "oracle: %s\n%s\n%v\n%s\n\n", bad, in.Source, in.Modules, o.String())
			}
			sig := "script-values-unexpected"
			if failing {
				sig = "script-error-position-unexpected"
			}
			res.Violate(lib.Violation{Signature: sig, Stream: "script", Input: in,
				Observed: clip(bad+" | "+o.String(), 600), Expected: clip(fmt.Sprintf("err~%q frames=%v globals %s", in.ExpectErr, in.ExpectFrames, in.Expect), 600),
				Oracle: "positions of the failing expression / call site and the values of the succeeding calls are known from the program template (optimized Script run)"})
		}
	}
	// allocation-limit sweep through the API, for programs that do not fail by themselves
	if o.Err != "" || o.CompileErr != "" || scriptSweepBudget <= 0 {
		return
	}
	scriptSweepBudget--
	for k := int64(1); k <= 8; k++ {
		so := runScript(src, mods, false, k)
		su := runScript(src, mods, true, k)
		res.Count("script-sweep", fmt.Sprintf("%d|%s", k, src), true)
		if so.TimedOut || su.TimedOut {
			break
		}
		if !strings.Contains(so.Err+su.Err, "allocation limit") {
			break // fewer than k allocations: this is the plain run compared above
		}
		if so.Err != su.Err || so.Panic != su.Panic || so.CompileErr != su.CompileErr {
			in2 := in
			in2.Insts = fmt.Sprintf("maxAllocs=%d", k)
			res.Violate(lib.Violation{Signature: "script-twin-run-differs-under-alloc-limit", Stream: "script", Input: in2,
				Observed: clip(so.Err+so.Panic+so.CompileErr, 600), Expected: clip(su.Err+su.Panic+su.CompileErr, 600),
				Oracle: "Script run with dead-code elimination == with dead code kept, allocation limit error forced at the k-th allocation (error text with positions)"})
			break
		}
		if !strings.Contains(su.Err, "allocation limit") {
			break
		}
	}
}

// ---- the duplicate-function family --------------------------------------------------------

// A body is the live code of the K functions. `%D` marks a place right after a return where
// unreachable statements may be inserted, `@` the start of the expression that fails for the bad
// arguments, " ; " a top-level statement separator, $a/$b the two operands.
type dupBody struct {
	name, params, tmpl string
	okArgs, badArgs    string
	okSetup, badSetup  string // statements run before the call (operands in globals)
	okVal              string // canonical value of the succeeding call
	errSub             string
	extraFrames        int  // frames between the failing expression and the marked call site
	twoArgs            bool // callable as f(x, y) from the wrapper
	a, b               string
}

var dupBodies = []dupBody{
	{name: "add", params: "a, b", tmpl: "return @$a + $b%D", okArgs: "1, 2", badArgs: `1, "x"`, okVal: "(i 3)", errSub: "invalid operation: int + string", twoArgs: true},
	{name: "index", params: "a, b", tmpl: "return $a[@$b]%D", okArgs: "[4, 5], 1", badArgs: "5, 7", okVal: "(i 5)", errSub: "not indexable: int", twoArgs: true},
	{name: "call", params: "a, b", tmpl: "return @$a($b)%D", okArgs: `len, "ab"`, badArgs: "1, 2", okVal: "(i 2)", errSub: "not callable: int", twoArgs: true},
	{name: "argc", params: "a, b", tmpl: "return @$a($b, $b)%D", okArgs: "func(x, y) { return y }, 3", badArgs: "func(x) { return x }, 3", okVal: "(i 3)", errSub: "wrong number of arguments: want=1, got=2", twoArgs: true},
	{name: "if-mid", params: "a, b", tmpl: "if is_string($b) { return @$a + $b%D } ; return $a%D", okArgs: "1, 2", badArgs: `1, "x"`, okVal: "(i 1)", errSub: "invalid operation: int + string", twoArgs: true},
	{name: "loop", params: "a, b", tmpl: "for i := 0; i < 2; i++ { if i == 1 { return $a[@$b]%D } } ; return $b%D", okArgs: "[4, 5], 0", badArgs: "5, 7", okVal: "(i 4)", errSub: "not indexable: int", twoArgs: true},
	{name: "local", params: "a, b", tmpl: "c := $a ; return c[@$b]%D", okArgs: "[4, 5], 1", badArgs: "5, 7", okVal: "(i 5)", errSub: "not indexable: int", twoArgs: true},
	{name: "ternary", params: "a, b", tmpl: "return is_int($b) ? $b : @$a + $b%D", okArgs: "1, 2", badArgs: `1, "x"`, okVal: "(i 2)", errSub: "invalid operation: int + string", twoArgs: true},
	{name: "and", params: "a, b", tmpl: "return $b && @$a + $b%D", okArgs: "1, 2", badArgs: `1, "x"`, okVal: "(i 3)", errSub: "invalid operation: int + string", twoArgs: true},
	{name: "variadic", params: "a, ...b", tmpl: "return @$a + $b[0]%D", okArgs: "1, 2", badArgs: `1, "x"`, okVal: "(i 3)", errSub: "invalid operation: int + string"},
	{name: "globals", params: "", tmpl: "return @$a + $b%D", okSetup: "g1 = 1; g2 = 2", badSetup: `g2 = "x"`, okVal: "(i 3)", errSub: "invalid operation: int + string", a: "g1", b: "g2"},
	{name: "forin", params: "a, b", tmpl: "for v in $a { if v == $b { return @v + $a%D } } ; return 0%D", okArgs: "[4, 5], 9", badArgs: "[4, 5], 5", okVal: "(i 0)", errSub: "invalid operation: int + array", twoArgs: true},
	{name: "inner", params: "a, b", tmpl: "g := func() { return @$a + $b } ; return g()%D", okArgs: "1, 2", badArgs: `1, "x"`, okVal: "(i 3)", errSub: "invalid operation: int + string", extraFrames: 1, twoArgs: true},
	{name: "setidx", params: "a, b", tmpl: "if $b > 1 { @$a[$b] = 1 ; return 0%D } ; return $a[$b]%D", okArgs: "[4, 5], 1", badArgs: "[4, 5], 7", okVal: "(i 5)", errSub: "index out of bounds", twoArgs: true},
}

// unreachable statements (they follow a return); "" = nothing
var dupTails = []string{
	"",
	"$a = $b",
	"return $b",
	"$b += $a",
	"x := [$a, $b]",
	"$a = $a && $b || $a",
	"for { break }",
	"if $a { return $a } else { $b = $a }",
	"return $a + $b",
	"$a = func() { return $b }()",
	"for i := 0; i < 3; i++ { if i { continue }; return i }",
}

const (
	ctTop = iota
	ctMap
	ctArray
	ctMaker
	ctInline
	ctModule
	nContainers
)

const (
	cfDirect = iota
	cfAlias
	cfSpread
	cfWrapper
	nCallForms
)

type dupSpec struct {
	body       int
	tails      [][]int // per function, per %D slot: index into dupTails
	failing    int     // index of the function called with the bad arguments, -1 = none
	container  int
	callForm   int
	indent     []int // per function
	multiline  []bool
	sameLine   bool // top-level container: all definitions on one line
	interleave bool // call each function right after its definition
	useFree    bool // maker container: live code touches a captured variable
}

// tengo has no trailing comma in literals
func lastSep(i, k int) string {
	if i == k-1 {
		return ""
	}
	return ","
}

func renderFn(b dupBody, tails []int, mark bool, multi bool, indent int, free bool) string {
	t := b.tmpl
	for _, ti := range tails {
		rep := ""
		if dupTails[ti] != "" {
			rep = "; " + dupTails[ti]
		}
		t = strings.Replace(t, "%D", rep, 1)
	}
	t = strings.ReplaceAll(t, "%D", "")
	if free {
		t = "k = k ; " + t
	}
	if !mark {
		t = strings.ReplaceAll(t, "@", "")
	}
	a, bb := b.a, b.b
	if a == "" {
		a, bb = "a", "b"
	}
	t = strings.NewReplacer("$a", a, "$b", bb).Replace(t)
	pad := strings.Repeat(" ", indent)
	if multi {
		return "func(" + b.params + ") {\n" + pad + "  " + strings.ReplaceAll(t, " ; ", "\n"+pad+"  ") + "\n" + pad + "}"
	}
	return "func(" + b.params + ") { " + strings.ReplaceAll(t, " ; ", "; ") + " }"
}

// build renders the program, strips the markers and returns the replay input with the expectations.
func (s dupSpec) build() replayInput {
	b := dupBodies[s.body]
	k := len(s.tails)
	fn := func(i int) string {
		return renderFn(b, s.tails[i], i == s.failing, s.multiline[i], s.indent[i], s.useFree && s.container == ctMaker)
	}
	pad := func(i int) string { return strings.Repeat(" ", s.indent[i]) }
	var sb strings.Builder
	mods := map[string]string{}
	callee := make([]string, k)
	sb.WriteString("out := 0\ng1 := 0\ng2 := 0\n")
	call := func(i int, bad bool) string {
		args, setup := b.okArgs, b.okSetup
		if bad {
			args, setup = b.badArgs, b.badSetup
		}
		var c strings.Builder
		if setup != "" {
			c.WriteString(setup + "\n")
		}
		lhs := fmt.Sprintf("r%d := ", i)
		mk := ""
		if bad {
			lhs, mk = "out = ", "^"
		}
		form := s.callForm
		if form == cfWrapper && !b.twoArgs {
			form = cfDirect
		}
		e := callee[i]
		if s.container == ctInline {
			e = fn(i)
			if form == cfAlias || form == cfWrapper {
				form = cfDirect
			}
		}
		switch form {
		case cfDirect:
			fmt.Fprintf(&c, "%s%s%s(%s)\n", lhs, mk, e, args)
		case cfAlias:
			fmt.Fprintf(&c, "h%d%v := %s\n%s%sh%d%v(%s)\n", i, bad, e, lhs, mk, i, bad, args)
		case cfSpread:
			fmt.Fprintf(&c, "%s%s%s([%s]...)\n", lhs, mk, e, args)
		case cfWrapper:
			w := "wrap"
			if bad {
				w = "wrapbad" // the marked call site is inside this wrapper
				fmt.Fprintf(&c, "wrapbad := func(f, x, y) { return %sf(x, y) }\n", mk)
			}
			fmt.Fprintf(&c, "%s%s(%s, %s)\n", lhs, w, e, args)
		}
		return c.String()
	}
	if s.callForm == cfWrapper && b.twoArgs && s.container != ctInline {
		sb.WriteString("wrap := func(f, x, y) { return f(x, y) }\n")
	}
	var calls strings.Builder
	switch s.container {
	case ctTop:
		for i := 0; i < k; i++ {
			callee[i] = fmt.Sprintf("f%d", i)
			def := fmt.Sprintf("f%d := %s", i, fn(i))
			if s.sameLine && !s.interleave {
				if i > 0 {
					sb.WriteString("; ")
				}
				sb.WriteString(def)
				if i == k-1 {
					sb.WriteString("\n")
				}
			} else {
				sb.WriteString(pad(i) + def + "\n")
			}
			if s.interleave {
				sb.WriteString(call(i, false))
			} else {
				calls.WriteString(call(i, false))
			}
		}
	case ctMap:
		sb.WriteString("m := {\n")
		for i := 0; i < k; i++ {
			callee[i] = fmt.Sprintf("m.f%d", i)
			sb.WriteString(pad(i) + fmt.Sprintf("f%d: %s%s\n", i, fn(i), lastSep(i, k)))
			calls.WriteString(call(i, false))
		}
		sb.WriteString("}\n")
	case ctArray:
		sb.WriteString("fs := [\n")
		for i := 0; i < k; i++ {
			callee[i] = fmt.Sprintf("fs[%d]", i)
			sb.WriteString(pad(i) + fn(i) + lastSep(i, k) + "\n")
			calls.WriteString(call(i, false))
		}
		sb.WriteString("]\n")
	case ctMaker:
		sb.WriteString("mk := func(k) {\n")
		var names []string
		for i := 0; i < k; i++ {
			callee[i] = fmt.Sprintf("fs[%d]", i)
			names = append(names, fmt.Sprintf("f%d", i))
			sb.WriteString(pad(i) + fmt.Sprintf("  f%d := %s\n", i, fn(i)))
			calls.WriteString(call(i, false))
		}
		sb.WriteString("  return [" + strings.Join(names, ", ") + "]\n}\nfs := mk(0)\n")
	case ctInline:
		for i := 0; i < k; i++ {
			calls.WriteString(pad(i) + call(i, false))
		}
	case ctModule:
		for i := 0; i < k; i++ {
			callee[i] = fmt.Sprintf("f%d", i)
			// operands in globals cannot be seen from a module: such bodies fall back to literals of main
			mods[fmt.Sprintf("m%d", i)] = strings.Repeat("\n", s.indent[i]%3) + pad(i) + "export " + fn(i) + "\n"
			sb.WriteString(fmt.Sprintf("f%d := import(\"m%d\")\n", i, i))
			calls.WriteString(call(i, false))
		}
	}
	sb.WriteString(calls.String())
	if s.failing >= 0 {
		if s.container == ctInline {
			sb.WriteString(pad(s.failing))
		}
		sb.WriteString(call(s.failing, true))
	}
	sb.WriteString("done := 1\n")
	src := sb.String()

	in := replayInput{}
	// locate and strip the markers
	strip := func(text, file string) (string, map[byte]string) {
		pos := map[byte]string{}
		var out strings.Builder
		line, col := 1, 1
		for i := 0; i < len(text); i++ {
			ch := text[i]
			if ch == '@' || ch == '^' {
				pos[ch] = fmt.Sprintf("%s:%d:%d", file, line, col)
				continue
			}
			out.WriteByte(ch)
			if ch == '\n' {
				line, col = line+1, 1
			} else {
				col++
			}
		}
		return out.String(), pos
	}
	var marks map[byte]string
	in.Source, marks = strip(src, "(main)")
	if len(mods) > 0 && s.container == ctModule {
		in.Modules = map[string]string{}
		for n, m := range mods {
			t, p := strip(m, n)
			in.Modules[n] = t
			for c, v := range p {
				marks[c] = v
			}
		}
	}
	var exp []string
	for i := 0; i < k; i++ {
		exp = append(exp, fmt.Sprintf("r%d=%s", i, b.okVal))
	}
	if s.failing >= 0 {
		in.ExpectErr = b.errSub
		in.ExpectFrames = []string{marks['@']}
		for i := 0; i < b.extraFrames; i++ {
			in.ExpectFrames = append(in.ExpectFrames, "")
		}
		in.ExpectFrames = append(in.ExpectFrames, marks['^'])
		exp = append(exp, "out=(i 0)")
	} else {
		exp = append(exp, "done=(i 1)")
	}
	in.Expect = strings.Join(exp, ";")
	return in
}

func checkDup(s dupSpec) {
	b := dupBodies[s.body]
	if s.container == ctModule && b.a != "" {
		s.container = ctTop // operands in globals of main are invisible to a module
	}
	in := s.build()
	res.Dist("dup-container-" + []string{"top", "map", "array", "maker", "inline", "module"}[s.container])
	res.Dist("dup-body-" + b.name)
	if s.failing >= 0 {
		res.Dist("dup-failing-programs")
	} else {
		res.Dist("dup-succeeding-programs")
	}
	if len(in.Modules) == 0 {
		checkProgram(in.Source)
	}
	checkScript(in)
	res.Sample(map[string]interface{}{"stream": "script", "source": in.Source, "modules": in.Modules, "expect": in.Expect, "frames": in.ExpectFrames}, 5)
}

// dupFamilies: the closed-form part (every body x every tail x {no failure, first fails, second
// fails}; containers, call forms and layouts cycle) and a random part.
func dupFamilies(rng *lib.RNG, nRandom int) {
	n := 0
	for bi := range dupBodies {
		slots := strings.Count(dupBodies[bi].tmpl, "%D")
		for ti := 1; ti < len(dupTails); ti++ {
			// one failing program per (body, tail): the later function fails (every 4th: the earlier one);
			// every 2nd (body, tail) also as a program without failure
			for _, failing := range []int{1, -1} {
				if failing == 1 && n%4 == 3 {
					failing = 0
				}
				if failing == -1 && (bi+ti)%2 == 1 {
					continue
				}
				t0, t1 := make([]int, slots), make([]int, slots)
				for j := range t1 {
					t1[j] = ti
					if j > 0 && (bi+ti)%2 == 0 {
						t1[j] = 0 // dead code only after the first (inner) return
					}
				}
				s := dupSpec{body: bi, tails: [][]int{t0, t1}, failing: failing,
					container: n % nContainers, callForm: (n / nContainers) % nCallForms,
					indent: []int{n % 3, 2 + n%5}, multiline: []bool{n%4 == 1, n%4 >= 2},
					sameLine: n%7 == 0, interleave: n%2 == 0, useFree: n%3 == 0}
				if n%11 == 0 {
					s.tails[0], s.tails[1] = s.tails[1], s.tails[0] // the EARLIER function carries the dead code
				}
				checkDup(s)
				n++
			}
		}
	}
	for i := 0; i < nRandom; i++ {
		r := rng.Fork()
		bi := r.Intn(len(dupBodies))
		slots := strings.Count(dupBodies[bi].tmpl, "%D")
		k := 2 + r.Intn(2)
		s := dupSpec{body: bi, failing: r.Intn(k+1) - 1, container: r.Intn(nContainers), callForm: r.Intn(nCallForms),
			sameLine: r.Chance(1, 5), interleave: r.Bool(), useFree: r.Bool()}
		for f := 0; f < k; f++ {
			t := make([]int, slots)
			for j := range t {
				if r.Chance(2, 3) {
					t[j] = r.Intn(len(dupTails))
				}
			}
			s.tails = append(s.tails, t)
			s.indent = append(s.indent, r.Intn(9))
			s.multiline = append(s.multiline, r.Chance(1, 3))
		}
		checkDup(s)
	}
}

// hand-written programs of the family (run through checkProgram and the Script API)
var dupCorpus = []string{
	// two literals that differ only in the code after the return; the later one fails
	"add := func(a, b) { return a + b }\nout := add(1, 2)\n    sum := func(a, b) { return a + b; a = b }\nout = sum(out, \"x\")\n",
	// the earlier one fails
	"add := func(a, b) { return a + b; return b }\n  sum := func(a, b) { return a + b }\nout := sum(1, 2)\nout = add(out, \"x\")\n",
	// three, the middle one fails; dead code inside an if-block
	"f := func(a) { if a { return a[0] }; return a }\ng := func(a) { if a { return a[0]; a = 1 }; return a; a = 2 }\n\n\nh := func(a) { if a { return a[0] }; return a; return 1 }\nx := f([1])\ny := h([2])\nz := g(5)\n",
	// no failure: values and forced allocation-limit positions must agree
	"p := func(a, b) { return [a, b] }\nq := func(a, b) { return [a, b]; b = a }\nx := p(1, 2)\ny := q(3, 4)\n",
	// methods of a map, called through a selector
	"m := {\n  inc: func(x) { return x + m.d },\n      dec: func(x) { return x + m.d; x = 0 }\n}\nm.d = 1\na := m.inc(1)\nm.d = \"s\"\nb := m.dec(1)\n",
	// nested: the duplicated pair lives inside another function and captures a variable
	"mk := func(k) {\n  f := func(a) { return a + k }\n  g := func(a) { return a + k; k = a }\n  return [f, g]\n}\nfs := mk(\"s\")\nx := fs[0](\"t\")\ny := fs[1](1)\n",
	// wrong number of arguments in a call made by the later twin
	"id := func(x) { return x }\nf := func(c) { return c(1) }\ng := func(c) { return c(1); c = 0 }\nx := f(id)\ny := g(func() { return 0 })\n",
}

// runDupCorpus: the hand-written programs (early in the run: a concise failing input comes first)
func runDupCorpus() {
	t0 := time.Now()
	defer func() { familyTime += time.Since(t0) }()
	for _, src := range dupCorpus {
		res.Dist("dup-corpus-programs")
		checkProgram(src)
		checkScript(replayInput{Source: src})
	}
}

func runDupFamilies(rng *lib.RNG, nRandom int) {
	t0 := time.Now()
	defer func() { familyTime += time.Since(t0) }()
	dupFamilies(rng, nRandom)
}

// Command c03: correspondence and searchers for C03 (dead-code elimination
// never changes what a program does).
//
// Streams
//
//	opt      model `optimizeFunc` vs the real one, byte for byte incl. source map, on every function
//	         of every generated program (unoptimized twin obtained with the keep-dead-code hook)
//	skeleton exhaustive small instruction skeletons through the VerifOptimize hook vs the model
//	twin     (searcher) optimized vs unoptimized run: globals, error text incl. positions
//	trace    (searcher) the opcode sequences dispatched by the two runs are identical
//	reach    (searcher) control-flow reachability of the unoptimized function (computed here, not by
//	         the model): every reachable instruction survives
package main

import (
	"sort"
	"encoding/json"
	"fmt"
	"os"
	"strings"

	"github.com/d5/tengo/v2"
	"github.com/d5/tengo/v2/parser"
	"verifharness/lib"
)

type replayInput struct {
	Source string `json:"source,omitempty"`
	Insts  string `json:"insts,omitempty"`
	// script stream (script.go): source modules, and what the harness knows about the program by construction
	Modules      map[string]string `json:"modules,omitempty"`
	Expect       string            `json:"expect,omitempty"`        // name=canonical value;... of the optimized Script run
	ExpectErr    string            `json:"expect_err,omitempty"`    // substring of the run-time error
	ExpectFrames []string          `json:"expect_frames,omitempty"` // file:line:col per frame, innermost first ("" = any)
}

var (
	res         *lib.Result
	drv         *lib.Driver
	thorough    bool
	sweepBudget int
)

func profile(r *lib.RNG) lib.Profile {
	p := lib.DefaultProfile()
	p.Returns = 6 + r.Intn(6)
	p.DeadCode = true
	p.MaxStmts = 10 + r.Intn(12)
	p.MaxDepth = 3 + r.Intn(2)
	p.Chaos = 25
	return p
}

func checkProgram(src string) {
	var inputs []lib.OptInput
	o, errO := lib.CompileSource([]byte(src), lib.CompileOpts{OptInputs: &inputs})
	if thorough {
		_, errU := lib.CompileSource([]byte(src), lib.CompileOpts{KeepDead: true})
		if (errU == nil) != (errO == nil) || (errU != nil && errU.Error() != errO.Error()) {
			res.Violate(lib.Violation{Signature: "compile-outcome-differs", Stream: "twin", Input: replayInput{Source: src},
				Observed: fmt.Sprint(errO), Expected: fmt.Sprint(errU), Oracle: "optimized and keep-dead compile must fail alike"})
			return
		}
	}
	if errO != nil {
		res.Count("twin", src, false)
		res.Dist("compile-error")
		if strings.HasPrefix(errO.Error(), "PANIC") {
			// the optimizer (or the compiler around it) panics on code the compiler itself produced
			res.Violate(lib.Violation{Signature: "compile-panics", Stream: "twin", Input: replayInput{Source: src},
				Observed: clip(errO.Error(), 300), Expected: "bytecode or a compile error", Oracle: "recover around Compiler.Compile"})
		}
		return
	}
	fo := lib.Functions(o.BC)
	removedAny := false
	if len(inputs) != len(fo)-1 {
		res.Disagree(lib.Disagreement{Stream: "opt", Input: replayInput{Source: src}, Model: fmt.Sprintf("%d optimizer calls", len(inputs)),
			Impl: fmt.Sprintf("%d function constants", len(fo)-1)})
		return
	}
	for i := 1; i < len(fo); i++ { // main (index 0) is not optimized
		if len(inputs[i-1].Insts) > len(fo[i].Instructions) {
			removedAny = true
		}
		checkFunction(src, inputs[i-1], fo[i])
	}
	// The reference twin is built by the harness from the raw optimizer inputs (what the compiler
	// emitted before optimizeFunc touched it) plus a trailing `RET 0`: no code of the optimizer is
	// involved in it.
	u := unoptimizedTwin(o, inputs)
	fu := lib.Functions(u.BC)
	// translation validation on the whole-VM model: the optimized program is the twin with every function
	// relocated (checkReloc passes) — then, by Tengo.Props.C03VM, the two programs run alike on the VM model for
	// EVERY input, budget and fuel, not only on the run below
	if line, ok := lib.RelocLine(u.BC, o.BC, 24000); ok {
		ans, err := drv.Ask(line)
		if err != nil {
			fatal(err)
		}
		if strings.HasPrefix(ans, "ok ") {
			f := strings.Fields(ans) // ok <#fn> <#pos> <#moved> <twin shape> <bodies are the model's>
			moved := len(f) > 3 && f[3] != "0"
			res.Count("reloc", line, moved)
			if moved {
				res.Dist("reloc-checked-with-moved-code")
			}
			if len(f) > 5 && f[4] == "1" && f[5] == "1" {
				// the pair is one the universal theorem speaks about (covered_reloc): hypotheses evaluated, conclusion proved
				res.Dist("reloc-covered-by-universal-theorem")
			} else {
				res.Disagree(lib.Disagreement{Stream: "reloc-universal", Input: replayInput{Source: src}, Model: ans,
					Impl: "the program must have the shape the universal theorem assumes (checkTwin) and the real optimizer's bodies must be the model's (bodiesAreModel)"})
			}
		} else {
			res.Count("reloc", line, true)
			res.Disagree(lib.Disagreement{Stream: "reloc", Input: replayInput{Source: src}, Model: ans,
				Impl: "checkReloc(twin, optimized) must pass: the real optimizer's output is not the twin with its instructions relocated"})
		}
	} else {
		res.Dist("reloc-skipped-constant-or-size")
	}
	var tu, to []string
	idxU, idxO := fnIndex(fu), fnIndex(fo)
	ru := lib.RunBytecode(u, lib.RunOpts{Probe: func(v *tengo.VM, fn *tengo.CompiledFunction, ip, sp, bp, fi int, a int64) {
		if len(tu) < 20000 && ip < len(fn.Instructions) {
			tu = append(tu, fmt.Sprintf("%d:%d", idxU[fn], fn.Instructions[ip]))
		}
	}})
	ro := lib.RunBytecode(o, lib.RunOpts{Probe: func(v *tengo.VM, fn *tengo.CompiledFunction, ip, sp, bp, fi int, a int64) {
		if len(to) < 20000 && ip < len(fn.Instructions) {
			to = append(to, fmt.Sprintf("%d:%d", idxO[fn], fn.Instructions[ip]))
		}
	}})
	// guard: a program whose outcome depends on Go map iteration order is outside the property
	if r2 := lib.RunBytecode(u, lib.RunOpts{}); r2.String() != ru.String() {
		res.Skipped++
		res.Dist("map-order-dependent-skipped")
		return
	}
	res.Count("twin", src, removedAny)
	if removedAny {
		res.Dist("programs-with-removed-code")
	}
	if ru.Err != "" {
		res.Dist("runtime-error-programs")
	}
	if ru.MemGuard || ro.MemGuard {
		res.Dist("memory-guard-aborted")
		res.Sample(map[string]interface{}{"stream": "twin", "memory_guard": true, "source": src}, 6)
	}
	if ru.TimedOut || ro.TimedOut {
		res.Dist("timeout")
		return
	}
	if ru.String() != ro.String() {
		res.Violate(lib.Violation{Signature: "twin-run-differs", Stream: "twin", Input: replayInput{Source: src},
			Observed: clip(ro.String(), 600), Expected: clip(ru.String(), 600), Oracle: "optimized run == unoptimized run (globals, error text with positions)"})
	}
	if strings.Join(tu, " ") != strings.Join(to, " ") {
		res.Violate(lib.Violation{Signature: "opcode-trace-differs", Stream: "trace", Input: replayInput{Source: src},
			Observed: fmt.Sprintf("%d dispatched", len(to)), Expected: fmt.Sprintf("%d dispatched", len(tu)),
			Oracle: "the optimized run dispatches the same opcode sequence as the unoptimized run"})
	}
	res.Sample(map[string]interface{}{"stream": "twin", "source": src, "outcome": clip(ru.String(), 200)}, 3)
	// what the user runs went through RemoveDuplicates as well (script.go)
	checkDedup(src, o, u, ru, len(fo), removedAny)
	// sweep: force the allocation-limit error at the k-th tracked allocation, for every k the run performs
	// (bounded): both twins must report it at the same position — this probes the source map at every
	// allocating instruction on the executed path, not only where the program happens to fail.
	if removedAny && sweepBudget > 0 {
		sweepBudget--
		for k := int64(1); k <= 16; k++ {
			su := lib.RunBytecode(u, lib.RunOpts{MaxAllocs: k})
			so := lib.RunBytecode(o, lib.RunOpts{MaxAllocs: k})
			res.Count("sweep", fmt.Sprintf("%d|%s", k, src), true)
			// only the error (text with positions) is compared: the partial globals at the moment the
			// limit hits may legitimately depend on map iteration order
			if su.Err != so.Err || su.Panic != so.Panic {
				res.Violate(lib.Violation{Signature: "twin-run-differs-under-alloc-limit", Stream: "sweep",
					Input: replayInput{Source: src, Insts: fmt.Sprintf("maxAllocs=%d", k)}, Observed: clip(so.Err+so.Panic, 600), Expected: clip(su.Err+su.Panic, 600),
					Oracle: "optimized run == unoptimized run with the allocation limit error forced at the k-th allocation (error text with positions)"})
				break
			}
			if !strings.Contains(su.Err, "allocation limit") {
				break // the run needs fewer than k allocations
			}
		}
	}
}

// unoptimizedTwin clones the optimized bytecode and replaces every function
// body by the raw optimizer input followed by `RET 0`.
func unoptimizedTwin(o *lib.Compiled, inputs []lib.OptInput) *lib.Compiled {
	bc := &tengo.Bytecode{FileSet: o.BC.FileSet, MainFunction: o.BC.MainFunction}
	k := 0
	for _, c := range o.BC.Constants {
		if f, ok := c.(*tengo.CompiledFunction); ok {
			in := inputs[k]
			k++
			insts := append(append([]byte{}, in.Insts...), tengo.MakeInstruction(parser.OpReturn, 0)...)
			sm := map[int]parser.Pos{}
			for p, v := range in.SrcMap {
				sm[p] = v
			}
			sm[len(in.Insts)] = in.Node.Pos()
			bc.Constants = append(bc.Constants, &tengo.CompiledFunction{Instructions: insts, NumLocals: f.NumLocals,
				NumParameters: f.NumParameters, VarArgs: f.VarArgs, SourceMap: sm})
		} else {
			bc.Constants = append(bc.Constants, c)
		}
	}
	return &lib.Compiled{BC: bc, Symbols: o.Symbols, FileSet: o.FileSet, File: o.File}
}

func clip(s string, n int) string {
	if len(s) > n {
		return s[:n] + "…"
	}
	return s
}

func fnIndex(fs []*tengo.CompiledFunction) map[*tengo.CompiledFunction]int {
	m := map[*tengo.CompiledFunction]int{}
	for i, f := range fs {
		m[f] = i
	}
	return m
}

// checkFunction compares one (unoptimized, optimized) pair with the model and
// checks reachability of removed code.
func checkFunction(src string, u lib.OptInput, o *tengo.CompiledFunction) {
	key := lib.Hex(u.Insts)
	removed := len(u.Insts) > len(o.Instructions)
	res.Count("opt", key, removed)
	du, err := lib.Decode(u.Insts)
	if err != nil {
		res.Violate(lib.Violation{Signature: "undecodable-function", Stream: "opt", Input: replayInput{Source: src, Insts: key},
			Observed: err.Error(), Expected: "decodable", Oracle: "iterateInstructions"})
		return
	}
	if drv == nil {
		return
	}
	retPos := int(u.Node.Pos())
	line := lib.L("opt", key, lib.SrcMapSexp(u.SrcMap), lib.N(retPos))
	ans, err := drv.Ask(line)
	if err != nil {
		fatal(err)
	}
	res.ModelLines++
	want := "ok " + lib.Hex(o.Instructions) + " " + lib.SrcMapSexp(o.SourceMap)
	got := ans
	if i := strings.LastIndex(ans, " "); i > 0 && strings.HasPrefix(ans, "ok ") {
		got = ans[:i] // drop the "appended" flag
	}
	if got != want {
		// same instruction bytes but another source map: the kept instructions are known (they give these very
		// bytes), so the expected map is determined by the input map — a wrong entry is a wrong reported error position
		gf, wf := strings.Fields(got), strings.Fields(want)
		if len(gf) >= 2 && len(wf) >= 2 && gf[0] == "ok" && gf[1] == wf[1] {
			if bad := srcMapMismatch(key, du, u, o); bad != "" {
				res.Violate(lib.Violation{Signature: "source-map-of-kept-instruction-differs", Stream: "srcmap",
					Input: replayInput{Source: src, Insts: key}, Observed: bad,
					Expected: "every kept instruction keeps its source position; the appended return carries the function's position",
					Oracle:   "input source map from the optimizer hook; kept offsets = those whose re-encoding gives exactly the emitted bytes"})
			}
		}
		res.Disagree(lib.Disagreement{Stream: "opt", Input: replayInput{Source: src, Insts: key}, Model: ans, Impl: want})
		return
	}
	// reach: ask the model which old positions are kept; validate nothing reachable was dropped
	kans, err := drv.Ask(lib.L("keptpos", key))
	if err != nil {
		fatal(err)
	}
	res.ModelLines++
	kept := map[int]bool{}
	if v, err := lib.ParseSexp(strings.TrimPrefix(kans, "ok ")); err == nil {
		if l, ok := v.([]interface{}); ok {
			for _, x := range l {
				var n int
				fmt.Sscan(x.(string), &n)
				kept[n] = true
			}
		}
	}
	for _, p := range reachable(du) {
		if !kept[p] {
			res.Violate(lib.Violation{Signature: "removed-reachable-instruction", Stream: "reach",
				Input: replayInput{Source: src, Insts: key}, Observed: fmt.Sprintf("offset %d removed", p),
				Expected: "reachable offsets are kept", Oracle: "CFG reachability from offset 0 computed by the harness"})
			break
		}
	}
	res.Count("reach", key, removed)
}

// srcMapMismatch compares the emitted source map with the one determined by the input map and the kept offsets.
func srcMapMismatch(key string, du []lib.DInstr, u lib.OptInput, o *tengo.CompiledFunction) string {
	kans, err := drv.Ask(lib.L("keptpos", key))
	if err != nil {
		fatal(err)
	}
	res.ModelLines++
	var keptPos []int
	if v, err := lib.ParseSexp(strings.TrimPrefix(kans, "ok ")); err == nil {
		if l, ok := v.([]interface{}); ok {
			for _, x := range l {
				var n int
				fmt.Sscan(x.(string), &n)
				keptPos = append(keptPos, n)
			}
		}
	}
	sort.Ints(keptPos)
	do, derr := lib.Decode(o.Instructions)
	if derr != nil || !(len(do) == len(keptPos) || len(do) == len(keptPos)+1) {
		return ""
	}
	want := map[int]parser.Pos{}
	for j, p := range keptPos {
		if sp, ok := u.SrcMap[p]; ok {
			want[do[j].Pos] = sp
		}
	}
	if len(do) == len(keptPos)+1 {
		want[do[len(do)-1].Pos] = u.Node.Pos()
	}
	for q, sp := range o.SourceMap {
		if w, ok := want[q]; !ok || w != sp {
			return fmt.Sprintf("output offset %d maps to source position %d, expected %d (present=%v)", q, sp, w, ok)
		}
	}
	for q, w := range want {
		if sp, ok := o.SourceMap[q]; !ok || sp != w {
			return fmt.Sprintf("output offset %d: expected source position %d, found %d (present=%v)", q, w, sp, ok)
		}
	}
	return ""
}

// reachable computes the offsets reachable from 0 in the CFG of a function.
func reachable(is []lib.DInstr) []int {
	at := map[int]int{}
	for i, x := range is {
		at[x.Pos] = i
	}
	seen := map[int]bool{}
	var out []int
	work := []int{0}
	for len(work) > 0 {
		p := work[len(work)-1]
		work = work[:len(work)-1]
		i, ok := at[p]
		if !ok || seen[p] {
			continue
		}
		seen[p] = true
		out = append(out, p)
		x := is[i]
		switch x.Op {
		case parser.OpReturn:
		case parser.OpJump:
			work = append(work, x.Args[0])
		case parser.OpJumpFalsy, parser.OpAndJump, parser.OpOrJump:
			work = append(work, x.Args[0], p+x.Len)
		default:
			work = append(work, p+x.Len)
		}
	}
	return out
}

// ---- skeleton stream: hand-assembled instruction skeletons ----

// abstract instruction kinds of a skeleton
const (
	kOther = iota // NULL (no operands, falls through)
	kRet          // RET 0
	kJmp          // JMP t
	kCjmp         // JMPF t
	nKinds
)

func assemble(kinds []int, targets []int) ([]byte, map[int]parser.Pos) {
	// first pass: offsets
	offs := make([]int, len(kinds)+1)
	for i, k := range kinds {
		n := 1
		switch k {
		case kRet:
			n = 2
		case kJmp, kCjmp:
			n = 5
		}
		offs[i+1] = offs[i] + n
	}
	var b []byte
	sm := map[int]parser.Pos{}
	for i, k := range kinds {
		sm[len(b)] = parser.Pos(100 + i)
		switch k {
		case kOther:
			b = append(b, tengo.MakeInstruction(parser.OpNull)...)
		case kRet:
			b = append(b, tengo.MakeInstruction(parser.OpReturn, 0)...)
		case kJmp:
			b = append(b, tengo.MakeInstruction(parser.OpJump, offs[targets[i]])...)
		case kCjmp:
			b = append(b, tengo.MakeInstruction(parser.OpJumpFalsy, offs[targets[i]])...)
		}
	}
	return b, sm
}

type posNode struct{ p parser.Pos }

func (n posNode) Pos() parser.Pos { return n.p }
func (n posNode) End() parser.Pos { return n.p }
func (n posNode) String() string  { return "" }

func checkSkeleton(kinds, targets []int) {
	b, sm := assemble(kinds, targets)
	key := lib.Hex(b)
	res.Count("skeleton", key, true)
	out, osm, pan := tengo.VerifOptimize(b, sm, posNode{7})
	impl := ""
	if pan != nil {
		impl = "panic"
		res.Violate(lib.Violation{Signature: "optimizer-panic-on-wellformed-jumps", Stream: "skeleton", Input: replayInput{Insts: key},
			Observed: fmt.Sprint(pan), Expected: "no panic: every jump targets an instruction boundary or the end", Oracle: "optimizeFunc"})
		return
	}
	impl = "ok " + lib.Hex(out) + " " + lib.SrcMapSexp(osm)
	// searcher: reachable instructions survive (count-based: every reachable instruction of the input
	// must appear; the output may only lack unreachable ones) — checked through kept positions of the model
	if drv != nil {
		ans, err := drv.Ask(lib.L("opt", key, lib.SrcMapSexp(sm), "7"))
		if err != nil {
			fatal(err)
		}
		res.ModelLines++
		got := ans
		if i := strings.LastIndex(ans, " "); i > 0 && strings.HasPrefix(ans, "ok ") {
			got = ans[:i]
		}
		if got != impl {
			res.Disagree(lib.Disagreement{Stream: "skeleton", Input: replayInput{Insts: key}, Model: ans, Impl: impl})
		}
	}
	// model-independent searcher: abstract execution of both versions under every branch oracle of
	// bounded length gives the same observable trace of `other` instructions
	if !sameBehaviour(b, out) {
		res.Violate(lib.Violation{Signature: "skeleton-behaviour-differs", Stream: "skeleton", Input: replayInput{Insts: key},
			Observed: lib.Hex(out), Expected: "same paths as the input", Oracle: "abstract execution under all branch decisions up to 6 steps"})
	}
}

// sameBehaviour runs input and output under all sequences of branch decisions;
// observable = number of NULLs executed before RET / falling off the end / step budget.
func sameBehaviour(a, b []byte) bool {
	da, e1 := lib.Decode(a)
	db, e2 := lib.Decode(b)
	if e1 != nil || e2 != nil {
		return false
	}
	for mask := 0; mask < 64; mask++ {
		if absRun(da, len(a), mask, true) != absRun(db, len(b), mask, false) {
			return false
		}
	}
	return true
}

func absRun(is []lib.DInstr, end int, mask int, isInput bool) string {
	at := map[int]int{}
	for i, x := range is {
		at[x.Pos] = i
	}
	p, nulls, dec := 0, 0, 0
	for step := 0; step < 40; step++ {
		if p == end {
			if !isInput {
				return "ran-off-the-end" // optimizer output must end every path in RET
			}
			return fmt.Sprintf("end:%d", nulls) // input: falling off the end == the RET 0 the optimizer owes
		}
		i, ok := at[p]
		if !ok {
			return "bad-target"
		}
		x := is[i]
		switch x.Op {
		case parser.OpReturn:
			return fmt.Sprintf("end:%d", nulls)
		case parser.OpJump:
			p = x.Args[0]
		case parser.OpJumpFalsy:
			if dec < 6 && mask&(1<<dec) != 0 {
				p = x.Args[0]
			} else {
				p += x.Len
			}
			dec++
		default:
			nulls++
			p += x.Len
		}
	}
	return fmt.Sprintf("budget:%d", nulls)
}

func skeletons(maxLen int) {
	var rec func(kinds []int, n int)
	rec = func(kinds []int, n int) {
		if len(kinds) == n {
			// enumerate targets for jump positions: any boundary 0..n (n = end)
			var jumps []int
			for i, k := range kinds {
				if k == kJmp || k == kCjmp {
					jumps = append(jumps, i)
				}
			}
			targets := make([]int, n)
			var rt func(j int)
			rt = func(j int) {
				if j == len(jumps) {
					checkSkeleton(kinds, targets)
					return
				}
				for t := 0; t <= n; t++ {
					targets[jumps[j]] = t
					rt(j + 1)
				}
			}
			rt(0)
			return
		}
		for k := 0; k < nKinds; k++ {
			rec(append(kinds, k), n)
		}
	}
	for n := 1; n <= maxLen; n++ {
		rec(nil, n)
	}
}

// deadCodeProgram builds a function whose body mixes removed code (statements after
// return/break/continue) with later logical operators, ternaries, loops and operations that
// fail for some arguments, and calls it with one argument tuple.
func deadCodeProgram(r *lib.RNG) string {
	// a bare `return` makes a dead region that STARTS with an OpReturn (round 10, seeded change C03-m13: a fast path that
	// recorded the first dropped offset only in the generic dead-code branch, not in the OpReturn branch)
	dead := []string{"b = b", "a = !a", "x := [a, b]", "return b", "b += 1", "for { break }", "a = a && b || a", "return", "return; return b", "return; b = 1"}
	val := []string{"a", "b", "1", "b - 1", "[a][0]", "a || b", "a && b", "b ? a : 2", "(a || b) && (b || a)", "len([a, b])", "b + 1", "string(b)"}
	var sb strings.Builder
	sb.WriteString("f := func(a, b) {\n")
	n := 1 + r.Intn(3)
	for i := 0; i < n; i++ {
		switch r.Intn(5) {
		case 0:
			fmt.Fprintf(&sb, "\tif %s {\n\t\treturn %s\n\t\t%s\n\t}\n", lib.Pick(r, []string{"a", "!a", "a && b", "false", "is_string(b)"}), lib.Pick(r, val), lib.Pick(r, dead))
		case 1:
			fmt.Fprintf(&sb, "\tfor i := 0; i < 3; i++ {\n\t\tif i == %d { %s; %s }\n\t\t%s\n\t}\n", r.Intn(3), lib.Pick(r, []string{"break", "continue", "return i"}), lib.Pick(r, dead), lib.Pick(r, []string{"b = b", "continue; b = 0", "x := i || a"}))
		case 2:
			fmt.Fprintf(&sb, "\tif %s {\n\t\treturn\n\t\t%s\n\t} else if %s {\n\t\t%s\n\t}\n", lib.Pick(r, []string{"a", "false", "b == 0"}), lib.Pick(r, dead), lib.Pick(r, []string{"b", "!b"}), lib.Pick(r, []string{"b = [b]", "return a; a = 1", "a = b"}))
		case 3:
			fmt.Fprintf(&sb, "\tc%d := %s\n", i, lib.Pick(r, val))
		default:
			fmt.Fprintf(&sb, "\tfor v in [a, b] {\n\t\tif v { continue; %s }\n\t\tbreak\n\t\t%s\n\t}\n", lib.Pick(r, dead), lib.Pick(r, dead))
		}
	}
	for i := 0; i < 1+r.Intn(3); i++ {
		fmt.Fprintf(&sb, "\td%d := %s\n", i, lib.Pick(r, val))
	}
	if r.Bool() { // without a final return the optimizer appends one
		fmt.Fprintf(&sb, "\treturn %s\n", lib.Pick(r, val))
		if r.Bool() {
			fmt.Fprintf(&sb, "\t%s\n", lib.Pick(r, dead))
		}
	}
	sb.WriteString("}\n")
	args := []string{"true", "false", "0", "1", "\"s\"", "undefined", "[1]"}
	fmt.Fprintf(&sb, "out := f(%s, %s)\n", lib.Pick(r, args), lib.Pick(r, args))
	return sb.String()
}

func fatal(err error) {
	fmt.Fprintln(os.Stderr, "c03:", err)
	os.Exit(3)
}

func main() {
	f := lib.ParseFlags()
	res = lib.NewResult("C03", f)
	thorough = f.Thorough()
	sweepBudget = f.Scale(120, 2000)
	dedupSweepBudget = f.Scale(40, 1000)
	scriptSweepBudget = f.Scale(80, 1500)
	var err error
	drv, err = lib.StartDriver(f.Driver)
	if err != nil {
		fatal(err)
	}
	defer drv.Close()
	res.DriverUsed = drv != nil
	res.Rule = "programs from the type-directed generator (profile: heavy return/break/continue, code after return, loops, closures, recursion); " +
		"a case is non-trivial when the optimizer removed at least one instruction of the function/program; distinct by hash of the unoptimized instruction bytes (opt, reach), of the source (twin), of the assembled bytes (skeleton)"

	if f.Replay != "" {
		replaying = true
		replay(f.Replay)
		res.Write(f.Out)
		return
	}
	// corpus first
	for _, src := range corpus {
		checkProgram(src)
	}
	runDupCorpus()
	// functions longer than 64 KiB: jump operands above 65535, with and without dead code (in main and in a literal)
	{
		var body strings.Builder
		for i := 0; i < 11500; i++ {
			body.WriteString("x = 1\n")
		}
		b := body.String()
		for _, src := range []string{
			"x := 0\nc := false\nif c {\n" + b + "}\ny := 2\n",
			"x := 0\nf := func(c) {\nif c {\n" + b + "}\nreturn 7279\n}\ny := f(false)\nz := f(true)\n",
			"x := 0\nf := func(c) {\nif c {\nreturn 1\nx = 5\n}\nfor i := 0; i < 2; i++ {\nif i == 5 {\n" + b + "}\n}\nreturn 7\nx = 9\n}\ny := f(false)\n",
		} {
			res.Dist("large-function-programs")
			checkProgram(src)
		}
	}
	rng := lib.NewRNG(f.Seed)
	n := f.Scale(1500, 15000)
	for i := 0; i < n; i++ {
		r := rng.Fork()
		g := lib.NewGen(r, profile(r))
		checkProgram(g.Program())
		if i < 50 || i%50 == 0 {
			for k, v := range g.Feat {
				res.Distribution["feat:"+k] += v
			}
		}
	}
	nt := f.Scale(1500, 15000)
	for i := 0; i < nt; i++ {
		checkProgram(deadCodeProgram(rng.Fork()))
	}
	// functions with identical live code that differ in dead code only, through RemoveDuplicates / the Script API
	runDupFamilies(rng.Fork(), f.Scale(150, 3000))
	skeletons(f.Scale(4, 5))
	res.Extra = map[string]interface{}{"skeleton_max_len": f.Scale(4, 5),
		"round8_wall_s": map[string]float64{"dedup_all_programs": dedupTime.Seconds(), "dup_families_total": familyTime.Seconds(), "script_api": scriptTime.Seconds()}}
	res.Write(f.Out)
}

func replay(path string) {
	b, err := os.ReadFile(path)
	if err != nil {
		fatal(err)
	}
	var rp struct {
		Violations []struct {
			Input replayInput `json:"input"`
		} `json:"violations"`
		Obligations []struct {
			Detail string `json:"detail"`
		} `json:"theorem_or_stream"`
	}
	if err := json.Unmarshal(b, &rp); err != nil {
		fatal(err)
	}
	for _, v := range rp.Violations {
		if v.Input.Source != "" {
			if len(v.Input.Modules) == 0 {
				checkProgram(v.Input.Source)
			}
			in := v.Input
			in.Insts = ""
			checkScript(in)
		}
	}
	for _, o := range rp.Obligations {
		var d lib.Disagreement
		if json.Unmarshal([]byte(o.Detail), &d) == nil {
			if m, ok := d.Input.(map[string]interface{}); ok {
				if s, ok := m["source"].(string); ok && s != "" {
					checkProgram(s)
				}
			}
		}
	}
}

// minimised past cases and hand-written boundary programs; run first
var corpus = []string{
	"f := func() { return 1; x := 2; return x }\na := f()\n",
	"f := func(n) { for i := 0; i < n; i++ { if i == 2 { return i; a := 1 }; continue; b := 2 }; return -1 }\na := f(5)\n",
	"f := func(n) { for { if n > 3 { break; n = 0 }; n++; continue; n = 9 }; return n }\na := f(0)\n",
	"f := func(a, b) { return a && b; return 5 }\nx := f(1, 0)\ny := f(0, 1)\n",
	"f := func(a) { if a { return 1 } else { return 2 }; return 3 }\nx := f(true)\ny := f(false)\n",
	"f := func(a) { return a ? 1 : 2; a = 3 }\nx := f(0)\n",
	"f := func() { return; return 1 }\nx := f()\n",
	"f := func(x) { for x < 3 { x++; if x == 2 { return [x][1 / 0] } }; return; x = 1 }\ny := f(0)\n",
	"f := func() { return func() { return 1; return 2 }; return 3 }\nx := f()()\n",
	"f := func(n) { if n { } }\nx := f(1)\n",
	"f := func(n) { for i in [1,2,3] { if i == n { return i; n = 0 }; continue; n = 1 } }\nx := f(2)\ny := f(9)\n",
	"f := func(a) {\n  return a[0]\n  a = 1\n}\nx := f(5)\n",
}

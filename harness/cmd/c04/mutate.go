package main

// Seeds and mutations. Everything random comes from the RNG handed in.

import (
	"bytes"
	"fmt"
	"os"
	"path/filepath"
	"sort"
	"strings"

	"verifharness/lib"
)

func repoDir() string {
	if r := os.Getenv("VERIF_REPO"); r != "" {
		return r
	}
	return "/repo"
}

func rootDir() string {
	if r := os.Getenv("VERIF_ROOT"); r != "" {
		return r
	}
	return "/verif"
}

// loadSeeds: testdata scripts, the ```golang blocks of the docs, the corpus of minimised past failures.
func loadSeeds() (seeds [][]byte, origin map[string]int) {
	origin = map[string]int{}
	var paths []string
	_ = filepath.Walk(filepath.Join(repoDir(), "testdata"), func(p string, info os.FileInfo, err error) error {
		if err == nil && !info.IsDir() && (strings.HasSuffix(p, ".tengo") || strings.HasSuffix(p, ".mshk")) {
			paths = append(paths, p)
		}
		return nil
	})
	sort.Strings(paths)
	for _, p := range paths {
		if b, err := os.ReadFile(p); err == nil {
			seeds = append(seeds, b)
			origin["testdata"]++
		}
	}
	docs, _ := filepath.Glob(filepath.Join(repoDir(), "docs", "*.md"))
	sort.Strings(docs)
	for _, p := range docs {
		b, err := os.ReadFile(p)
		if err != nil {
			continue
		}
		parts := strings.Split(string(b), "```")
		for i := 1; i < len(parts); i += 2 {
			blk := parts[i]
			nl := strings.IndexByte(blk, '\n')
			if nl < 0 {
				continue
			}
			lang := strings.TrimSpace(blk[:nl])
			if lang != "golang" && lang != "go" {
				continue
			}
			body := blk[nl+1:]
			if len(body) > 0 && len(body) <= 4096 {
				seeds = append(seeds, []byte(body))
				origin["docs"]++
			}
		}
	}
	cps, _ := filepath.Glob(filepath.Join(rootDir(), "corpus", "C04", "*"))
	sort.Strings(cps)
	for _, p := range cps {
		if b, err := os.ReadFile(p); err == nil {
			seeds = append(seeds, b)
			origin["corpus"]++
		}
	}
	for _, s := range handSeeds {
		seeds = append(seeds, []byte(s))
		origin["hand"]++
	}
	return
}

// hand-written seeds: every statement and expression form once, plus the shapes of the repaired defects
var handSeeds = []string{
	"len = 5\n",
	"for { f := func() { break } }\n",
	"x := [1]; for a, b, c in x {}\n",
	"a := 0\nfor a < 3 { a++; if a == 2 { continue } else if a == 9 { break } }\n",
	"f := func(a, b, ...c) { return a + b + len(c) }\nx := f(1, 2, 3, 4)\ny := f([1, 2, 3]...)\n",
	"m := {a: 1, \"b\": [1, 2.5, 'c', `raw`], c: {d: undefined}}\nfor k, v in m { m[k] = v }\n",
	"s := \"h\\x41\\u00e9\\U0001F600\\n\"; t := s[1:3]; u := s[:2] + s[2:]\n",
	"e := error(\"x\"); i := immutable([1, 2]); c := true ? 1 : false ? 2 : 3\n",
	"x := 0x1F + 0b101 + 0o17 + 017 + 1_000 + 1e3 + .5 + 0x1p-2\nx += 1; x -= 1; x *= 2; x /= 2; x %= 3; x &= 1; x |= 2; x ^= 3; x <<= 1; x >>= 1; x &^= 1\n",
	"export func(x) { return x.a.b[0](1)(2) }\n",
	"m := import(\"modx\")\nh := import(\"helper\")\nt := import(\"text\")\nout := t.trim(\" a \") + string(h.one)\n",
	"/* block\ncomment */ a := 1 // line\nb := a /* x */ + /* y\n */ 2\n",
	"if x := 1; x > 0 { } else if y := 2; y { } else { }\nfor i := 0; i < 3; i++ { }\nfor i in 5 { }\nfor { break }\n",
	"a := !true; b := -1; c := ^2; d := +3; e := a && b || c; f := a == b != c < d <= e > 1 >= 2\n",
	"a.b = 1; a[0] = 2; a.b[1].c = 3; a, b = b, a\n",
	"return 1\n",
	"fn := func() { return }; fn()\n",
	"\uFEFFa := 1\n",
	// an error at the first byte of a source, reported after other source modules were loaded
	"len = import(\"m1\")\n",
	"copy += [import(\"m1\"), import(\"m2\")]",
	"import(\"big\")",
	"a1 := import(\"m1\")\na3 := import(\"m3\")\nnosuch",
	"break\na1 := import(\"m1\")\n",
}

// split cuts src into mutation units: identifiers/numbers, string and char literals, white-space runs and
// single other bytes. It is total and does not use the scanner under test.
func split(src []byte) [][]byte {
	var out [][]byte
	isWord := func(b byte) bool {
		return b == '_' || b >= 0x80 || (b >= '0' && b <= '9') || (b >= 'a' && b <= 'z') || (b >= 'A' && b <= 'Z')
	}
	for i := 0; i < len(src); {
		j := i + 1
		switch b := src[i]; {
		case isWord(b):
			for j < len(src) && isWord(src[j]) {
				j++
			}
		case b == ' ' || b == '\t' || b == '\r':
			for j < len(src) && (src[j] == ' ' || src[j] == '\t' || src[j] == '\r') {
				j++
			}
		case b == '"' || b == '\'' || b == '`':
			for j < len(src) && src[j] != b && (b == '`' || src[j] != '\n') {
				if src[j] == '\\' && b != '`' && j+1 < len(src) {
					j++
				}
				j++
			}
			if j < len(src) && src[j] == b {
				j++
			}
		}
		if j > len(src) {
			j = len(src)
		}
		out = append(out, src[i:j])
		i = j
	}
	return out
}

func join(ts [][]byte) []byte { return bytes.Join(ts, nil) }

var nasty = [][]byte{
	{0}, {0xEF, 0xBB, 0xBF}, {'\r'}, {'\r', '\n'}, {0xFF}, {0xC0, 0x80}, {0xED, 0xA0, 0x80}, {0xF4, 0x90, 0x80, 0x80},
	{0xE2, 0x82}, {0x80}, []byte("\\ud800"), []byte("\\uDFFF"), []byte("\\U00110000"), []byte("\\x"), []byte("\\8"),
	[]byte(" "), []byte("é"), []byte("٠"), []byte("/*"), []byte("*/"), []byte("//"), []byte("\\"),
	[]byte("'"), []byte("\""), []byte("`"), []byte("0x"), []byte("0b"), []byte("1e"), []byte("1e+"), []byte("0o8"),
	[]byte("..."), []byte(".."), []byte(":="), []byte("?"), []byte(":"),
}

var keywords = []string{"break", "continue", "else", "for", "func", "error", "immutable", "if", "return", "export",
	"true", "false", "in", "undefined", "import", "len", "_", "a", "x"}

var punct = []string{"(", ")", "[", "]", "{", "}", ",", ";", ".", "\n", "=", ":=", "+", "-", "*", "/", "%", "&", "|", "^",
	"<<", ">>", "&^", "&&", "||", "!", "==", "!=", "<", ">", "<=", ">=", "++", "--", "+=", "?", ":", "..."}

// mutate applies 1–4 mutations. other is a second pool entry for splicing.
func mutate(r *lib.RNG, src, other []byte) ([]byte, string) {
	n := []int{1, 1, 1, 1, 1, 2, 2, 2, 3, 4}[r.Intn(10)]
	kind := ""
	for k := 0; k < n; k++ {
		var name string
		src, name = mutateOnce(r, src, other)
		if kind == "" {
			kind = name
		}
	}
	if len(src) > 4096 {
		src = src[:4096]
	}
	return src, kind
}

func mutateOnce(r *lib.RNG, src, other []byte) ([]byte, string) {
	ts := split(src)
	pick := func() int { return r.Intn(len(ts)) }
	cp := func(b []byte) []byte { return append([]byte{}, b...) }
	switch r.Intn(26) {
	case 0: // token deletion
		if len(ts) > 1 {
			i := pick()
			return join(append(append([][]byte{}, ts[:i]...), ts[i+1:]...)), "tok-delete"
		}
	case 1: // token duplication
		if len(ts) > 0 {
			i := pick()
			k := 1 + r.Intn(3)
			out := append([][]byte{}, ts[:i+1]...)
			for j := 0; j < k; j++ {
				out = append(out, ts[i])
			}
			return join(append(out, ts[i+1:]...)), "tok-dup"
		}
	case 2: // token swap
		if len(ts) > 1 {
			i, j := pick(), pick()
			t2 := append([][]byte{}, ts...)
			t2[i], t2[j] = t2[j], t2[i]
			return join(t2), "tok-swap"
		}
	case 3: // bracket imbalance: drop or insert one bracket
		var idx []int
		for i, t := range ts {
			if len(t) == 1 && strings.ContainsRune("()[]{}", rune(t[0])) {
				idx = append(idx, i)
			}
		}
		if len(idx) > 0 && r.Bool() {
			i := idx[r.Intn(len(idx))]
			return join(append(append([][]byte{}, ts[:i]...), ts[i+1:]...)), "bracket-drop"
		}
		if len(ts) > 0 {
			i := pick()
			b := []byte{"()[]{}"[r.Intn(6)]}
			out := append(append([][]byte{}, ts[:i]...), b)
			return join(append(out, ts[i:]...)), "bracket-insert"
		}
	case 4: // truncated literal / truncated file
		if len(src) > 0 {
			var lits []int
			for i, t := range ts {
				if len(t) > 1 && (t[0] == '"' || t[0] == '\'' || t[0] == '`' || (t[0] >= '0' && t[0] <= '9')) {
					lits = append(lits, i)
				}
			}
			if len(lits) > 0 && r.Chance(2, 3) {
				i := lits[r.Intn(len(lits))]
				t2 := append([][]byte{}, ts...)
				t2[i] = t2[i][:1+r.Intn(len(t2[i])-1)]
				return join(t2), "literal-truncate"
			}
			return cp(src[:r.Intn(len(src))]), "file-truncate"
		}
	case 5: // byte flip
		if len(src) > 0 {
			b := cp(src)
			i := r.Intn(len(b))
			if r.Bool() {
				b[i] ^= 1 << uint(r.Intn(8))
			} else {
				b[i] = byte(r.Intn(256))
			}
			return b, "byte-flip"
		}
	case 6, 7: // nasty insertion
		i := r.Intn(len(src) + 1)
		ins := nasty[r.Intn(len(nasty))]
		out := append(cp(src[:i]), ins...)
		return append(out, src[i:]...), "nasty-insert"
	case 8: // keyword / punctuation insertion
		i := r.Intn(len(ts) + 1)
		var w string
		if r.Bool() {
			w = keywords[r.Intn(len(keywords))]
		} else {
			w = punct[r.Intn(len(punct))]
		}
		out := append(append([][]byte{}, ts[:i]...), []byte(w))
		if r.Bool() {
			out = append(out, []byte(" "))
		}
		return join(append(out, ts[i:]...)), "token-insert"
	case 9: // token replacement
		if len(ts) > 0 {
			i := pick()
			t2 := append([][]byte{}, ts...)
			if r.Bool() {
				t2[i] = []byte(punct[r.Intn(len(punct))])
			} else {
				t2[i] = []byte(keywords[r.Intn(len(keywords))])
			}
			return join(t2), "token-replace"
		}
	case 10: // splice with another pool entry
		if len(other) > 0 && len(ts) > 0 {
			os := split(other)
			i, j := pick(), r.Intn(len(os))
			k := j + 1 + r.Intn(8)
			if k > len(os) {
				k = len(os)
			}
			out := append(append([][]byte{}, ts[:i]...), os[j:k]...)
			return join(append(out, ts[i:]...)), "splice"
		}
	case 11: // very long identifier or number
		i := r.Intn(len(src) + 1)
		var w []byte
		n := 200 + r.Intn(3000)
		switch r.Intn(4) {
		case 0:
			w = bytes.Repeat([]byte("a"), n)
		case 1:
			w = bytes.Repeat([]byte("9"), n)
		case 2:
			w = append([]byte("0x"), bytes.Repeat([]byte("F"), n)...)
		default:
			w = append([]byte("1."), bytes.Repeat([]byte("0"), n)...)
			w = append(w, []byte("e99999")...)
		}
		out := append(cp(src[:i]), w...)
		return append(out, src[i:]...), "long-word"
	case 12: // moderate nesting around a token range
		if len(ts) > 0 {
			i := pick()
			d := 1 + r.Intn(60)
			pairs := [][2]string{{"(", ")"}, {"[", "]"}, {"{", "}"}, {"func(){", "}"}, {"if a {", "}"}, {"-", ""}, {"!", ""}, {"a[", "]"}, {"f(", ")"}, {"{a:", "}"}, {"a?", ":b"}}
			p := pairs[r.Intn(len(pairs))]
			out := append([][]byte{}, ts[:i]...)
			out = append(out, []byte(strings.Repeat(p[0], d)))
			out = append(out, ts[i])
			if r.Chance(4, 5) {
				out = append(out, []byte(strings.Repeat(p[1], d)))
			}
			return join(append(out, ts[i+1:]...)), "nest"
		}
	case 13: // line break / semicolon games
		if len(ts) > 0 {
			i := pick()
			t2 := append([][]byte{}, ts...)
			t2[i] = []byte([]string{"\n", ";", "\r\n", " ", "\n\n", ";;", ",", "\t"}[r.Intn(8)])
			return join(t2), "separator"
		}
	case 14: // delete a range of tokens
		if len(ts) > 2 {
			i := pick()
			j := i + 1 + r.Intn(6)
			if j > len(ts) {
				j = len(ts)
			}
			return join(append(append([][]byte{}, ts[:i]...), ts[j:]...)), "range-delete"
		}
	case 15: // duplicate a range
		if len(ts) > 2 {
			i := pick()
			j := i + 1 + r.Intn(8)
			if j > len(ts) {
				j = len(ts)
			}
			out := append(append([][]byte{}, ts[:j]...), ts[i:j]...)
			return join(append(out, ts[j:]...)), "range-dup"
		}
	case 16: // many statements: repeated definitions (symbol / constant / jump limits)
		k := 50 + r.Intn(400)
		var sb strings.Builder
		form := r.Intn(5)
		for i := 0; i < k && sb.Len() < 3800; i++ {
			switch form {
			case 0:
				fmt.Fprintf(&sb, "q%d:=%d;", i, i)
			case 1:
				fmt.Fprintf(&sb, "q%d:=\"s%d\";", i, i)
			case 2:
				fmt.Fprintf(&sb, "if q{q=%d};", i)
			case 3:
				fmt.Fprintf(&sb, "q=[q,%d.5];", i)
			default:
				fmt.Fprintf(&sb, "f%d:=func(a%d){return a%d};", i, i, i)
			}
		}
		if r.Bool() {
			return append([]byte("f := func() {"+sb.String()+"}\n"), src...), "many-stmts"
		}
		return append([]byte(sb.String()+"\n"), src...), "many-stmts"
	case 17: // random bytes block
		i := r.Intn(len(src) + 1)
		n := 1 + r.Intn(12)
		blk := make([]byte, n)
		for k := range blk {
			blk[k] = byte(r.Intn(256))
		}
		out := append(cp(src[:i]), blk...)
		return append(out, src[i:]...), "random-bytes"
	case 18: // wrap into a construct
		w := [][2]string{{"f := func() {\n", "\n}\n"}, {"for {\n", "\n}\n"}, {"if true {\n", "\n} else {\n}\n"}, {"x := [", "]\n"}, {"x := {k: ", "}\n"}, {"export ", ""}, {"for a, b in [1] {\n", "\n}\n"}, {"f(", ")\n"}}[r.Intn(8)]
		return append(append([]byte(w[0]), src...), []byte(w[1])...), "wrap"
	case 19: // change a name into a builtin name or a number into a boundary
		if len(ts) > 0 {
			i := pick()
			t2 := append([][]byte{}, ts...)
			t2[i] = []byte([]string{"len", "import", "9223372036854775808", "255", "256", "65536", "0", "\"\"", "''", "'ab'", "1e400", "0x", "import(\"modx\")", "import(\"nosuch\")", "import(\"helper\")", "import(\"os\")", "import(\"m1\")", "import(\"m2\")", "import(\"m3\")", "import(\"big\")"}[r.Intn(20)])
			return join(t2), "boundary-word"
		}
	}
	if len(ts) > 0 { // cases 20..25: syntax-preserving replacements (reach the compiler)
		isIdent := func(t []byte) bool {
			return len(t) > 0 && (t[0] == '_' || (t[0] >= 'a' && t[0] <= 'z') || (t[0] >= 'A' && t[0] <= 'Z'))
		}
		isNum := func(t []byte) bool { return len(t) > 0 && t[0] >= '0' && t[0] <= '9' }
		var ids, nums, ops []int
		for i, t := range ts {
			switch {
			case isIdent(t):
				ids = append(ids, i)
			case isNum(t):
				nums = append(nums, i)
			case len(t) == 1 && strings.ContainsRune("+-*/%&|^<>", rune(t[0])):
				ops = append(ops, i)
			}
		}
		t2 := append([][]byte{}, ts...)
		switch r.Intn(3) {
		case 0:
			if len(ids) > 0 {
				i := ids[r.Intn(len(ids))]
				if r.Chance(2, 3) {
					t2[i] = ts[ids[r.Intn(len(ids))]]
				} else {
					t2[i] = []byte([]string{"len", "undefined", "fresh", "import", "true", "error", "immutable", "_", "in", "func"}[r.Intn(10)])
				}
				return join(t2), "ident-replace"
			}
		case 1:
			if len(nums) > 0 {
				i := nums[r.Intn(len(nums))]
				t2[i] = []byte([]string{"0", "1", "255", "256", "65535", "65536", "1.5", "\"s\"", "'c'", "[]", "{}", "undefined", "func(){}", "9223372036854775807"}[r.Intn(14)])
				return join(t2), "literal-replace"
			}
		default:
			if len(ops) > 0 {
				i := ops[r.Intn(len(ops))]
				t2[i] = []byte([]string{"+", "-", "*", "/", "%", "&", "|", "^", "<", ">", "==", "&&", "||", "<<", ":=", "="}[r.Intn(16)])
				return join(t2), "op-replace"
			}
		}
	}
	// fallback: random byte insertion
	i := r.Intn(len(src) + 1)
	out := append(cp(src[:i]), byte(r.Intn(256)))
	return append(out, src[i:]...), "byte-insert"
}

// withImports places imports of the configured source modules (Config.Src = n) in front of and/or behind the
// mutated text, or makes the text's first statement itself start with an erroneous token that contains one.
func withImports(r *lib.RNG, src []byte, n int) ([]byte, string) {
	pre, post := "", ""
	k := 1 + r.Intn(n)
	switch r.Intn(5) {
	case 0:
		pre = importLines("ia", k)
	case 1:
		post = "\n" + importLines("ib", k)
	case 2:
		pre, post = importLines("ia", k), "\n"+importLines("ib", 1+r.Intn(n))
	case 3: // the first token of the text becomes the target of an assignment whose value loads modules
		heads := []string{"len", "copy", "nosuch", "ia1", "len.x", "len[0]"}
		ops := []string{"=", "+=", ":=", "="}
		pre = fmt.Sprintf("%s %s import(\"m%d\")\n", heads[r.Intn(len(heads))], ops[r.Intn(len(ops))], k)
		if r.Bool() {
			pre = "import(\"big\")\n"
		}
	default: // no line break: the imports share the first / last line with the text
		pre = strings.ReplaceAll(importLines("ia", k), "\n", ";")
		if r.Bool() {
			pre, post = "", ";"+strings.TrimSuffix(strings.ReplaceAll(importLines("ib", k), "\n", ";"), ";")
		}
	}
	out := append(append([]byte(pre), src...), []byte(post)...)
	if len(out) > 4096 {
		out = out[:4096]
	}
	return out, "imports-around"
}

// deepInputs builds nesting monsters (run in a child process).
func deepInputs(r *lib.RNG, n int, maxDepth int) [][]byte {
	type pat struct{ open, mid, close string }
	pats := []pat{
		{"(", "1", ")"}, {"[", "1", "]"}, {"{", "", "}"}, {"-", "1", ""}, {"!", "a", ""}, {"a[", "0", "]"}, {"f(", "1", ")"},
		{"func(){", "", "}"}, {"if a {", "", "}"}, {"for {", "", "}"}, {"{a:", "1", "}"}, {"a?", "b", ":c"}, {"x := func(){return ", "1", "}"},
		{"if a {} else ", "{}", ""}, {"a.b(", "", ")"}, {"error(", "1", ")"}, {"immutable(", "1", ")"}, {"1+(", "2", ")"},
		{"(", "", ""}, {"[", "", ""}, {"{", "", ""}, {"func(){", "", ""}, {"", "1", ")"}, {"", "", "}"}, {"a[", "", ""}, {"a?", "", ""},
		{"x := ", "a", " + a"}, {"x := ", "a", " && a"}, {"", "a", ".b"}, {"", "a", "[0]"}, {"", "f", "()"}, {"/*", "", ""}, {"\"\\", "", ""},
	}
	var out [][]byte
	for i := 0; i < n; i++ {
		p := pats[i%len(pats)]
		d := maxDepth
		if i >= len(pats) {
			d = 100 + r.Intn(maxDepth-100)
		}
		var sb strings.Builder
		if !strings.Contains(p.open, ":=") && (strings.HasPrefix(p.open, "(") || strings.HasPrefix(p.open, "[") || strings.HasPrefix(p.open, "-") || strings.HasPrefix(p.open, "!") || p.open == "1+(" || p.open == "a?" || p.open == "{a:" || p.open == "") {
			sb.WriteString("x := ")
		}
		if strings.Contains(p.open, ":=") {
			sb.WriteString(p.open)
			sb.WriteString(p.mid)
			sb.WriteString(strings.Repeat(p.close, d))
		} else {
			sb.WriteString(strings.Repeat(p.open, d))
			sb.WriteString(p.mid)
			sb.WriteString(strings.Repeat(p.close, d))
		}
		sb.WriteString("\n")
		out = append(out, []byte(sb.String()))
	}
	return out
}

// megaInputs: the shapes of finding O45 (1 MB and more of one opening token or of one left-nested chain; the tree they
// describe is a million levels deep). Run in child processes like the other nesting monsters.
func megaInputs(thorough bool) [][]byte {
	n := 1000000
	shapes := []string{
		"a := " + strings.Repeat("(", n),
		"a := 1" + strings.Repeat("+1", n/2),
		"a := b" + strings.Repeat(".c", n/2),
		"a := " + strings.Repeat("[", n),
		"a := f" + strings.Repeat("()", n/2),
		"a := " + strings.Repeat("!", n) + "1",
		"a := " + strings.Repeat("func(){", n/7),
		"a := b" + strings.Repeat("[0]", n/3),
	}
	if thorough {
		shapes = append(shapes,
			"a := "+strings.Repeat("- ", n/2)+"1",
			"a := "+strings.Repeat("(", n)+"1"+strings.Repeat(")", n),
			strings.Repeat("if a {", n/6),
			"if a {}"+strings.Repeat(" else if a {}", n/12),
			"a := "+strings.Repeat("[", 3*n),
			"a := "+strings.Repeat("{a:", n/3),
			"a := "+strings.Repeat("1?", n/2)+"1",
			"a := "+strings.Repeat("error(", n/6),
			"a := b"+strings.Repeat("&&b", n/3),
		)
	}
	out := make([][]byte, len(shapes))
	for i, s := range shapes {
		out[i] = []byte(s + "\n")
	}
	return out
}

package main

// The property is its own oracle: for one source and one configuration, run the public entry points and
// report a panic, a hang, or an error position outside the input. Nothing here consults the Lean model.

import (
	"context"
	"errors"
	"fmt"
	"io"
	"os"
	"path/filepath"
	"regexp"
	"sort"
	"strings"
	"time"

	"github.com/d5/tengo/v2"
	"github.com/d5/tengo/v2/parser"
	"github.com/d5/tengo/v2/stdlib"
)

// Config is one way of reaching the front end and the compiler.
type Config struct {
	Kind string `json:"kind"`            // bare | bare-body | script | srcmod-body | srcmod-main | fileimp-body | fileimp-main
	Mods bool   `json:"mods,omitempty"`  // builtin module map configured (script kinds)
	NVar int    `json:"nvar,omitempty"`  // number of pre-declared variables
	Bltn bool   `json:"bltn,omitempty"`  // some variables are named like builtin functions
	Run  bool   `json:"run,omitempty"`   // also run the compiled script (child process only)
	Trc  bool   `json:"trace,omitempty"` // parse with a trace writer (bare kind)
	Src  int    `json:"src,omitempty"`   // 1..3: source modules m1..mSrc and "big" (> 256 locals) are configured as well
	Pre  int    `json:"pre,omitempty"`   // body kinds: the main source imports m1..mPre before the module under test
	Post int    `json:"post,omitempty"`  // body kinds: … and m1..mPost after it
	Want string `json:"want,omitempty"`  // targeted inputs: "file@offset" of the erroneous token the error must name
}

func (c Config) String() string {
	s := c.Kind
	if c.Mods {
		s += "+mods"
	}
	if c.NVar > 0 {
		s += fmt.Sprintf("+vars%d", c.NVar)
	}
	if c.Bltn {
		s += "+builtin-names"
	}
	if c.Run {
		s += "+run"
	}
	if c.Trc {
		s += "+trace"
	}
	if c.Src > 0 {
		s += fmt.Sprintf("+src%d", c.Src)
	}
	if c.Pre > 0 || c.Post > 0 {
		s += fmt.Sprintf("+pre%d+post%d", c.Pre, c.Post)
	}
	if c.Want != "" {
		s += "+want:" + c.Want
	}
	return s
}

// extra source modules (Config.Src): m3 itself imports m1, "big" has more than 256 locals (its import fails)
var bigSrc = func() []byte {
	var sb strings.Builder
	for i := 0; i < 300; i++ {
		fmt.Fprintf(&sb, "v%d := %d\n", i, i)
	}
	return []byte(sb.String())
}()

func extraModules(n int) map[string][]byte {
	if n <= 0 {
		return nil
	}
	m := map[string][]byte{"big": bigSrc}
	bodies := [][]byte{[]byte("export 1\n"), []byte("export {two: 2, f: func(a) { return a * 2 }}\n"), []byte("h := import(\"m1\")\nexport h + 2\n")}
	for i := 0; i < n && i < len(bodies); i++ {
		m[fmt.Sprintf("m%d", i+1)] = bodies[i]
	}
	return m
}

// importLines: "<prefix>1 := import("m1")\n…" for the first n extra modules.
func importLines(prefix string, n int) string {
	var sb strings.Builder
	for i := 1; i <= n && i <= 3; i++ {
		fmt.Fprintf(&sb, "%s%d := import(\"m%d\")\n", prefix, i, i)
	}
	return sb.String()
}

// bodyMain is the main source of the body kinds: the module under test between Pre and Post other imports.
func bodyMain(c Config) []byte {
	return []byte(importLines("pre", c.Pre) + "m := import(\"" + moduleName + "\")\nout := m\n" + importLines("post", c.Post))
}

// textPosProblem looks at the position an error TEXT carries ("…\n\tat file:line:col"): "" when it names a
// file and a line (SourceFilePos.String prints "-" for the zero position, "line:col" without a file name and
// the bare file name when the line is 0).
func textPosProblem(text string) string {
	i := strings.LastIndex(text, "\n\tat ")
	if i < 0 {
		return "the text has no `at` part"
	}
	at := text[i+5:]
	parts := strings.Split(at, ":")
	isNum := func(s string) bool {
		if s == "" {
			return false
		}
		for _, ch := range s {
			if ch < '0' || ch > '9' {
				return false
			}
		}
		return true
	}
	nums := 0
	for nums < 2 && nums < len(parts) && isNum(parts[len(parts)-1-nums]) {
		nums++
	}
	file := strings.Join(parts[:len(parts)-nums], ":")
	switch {
	case nums == 0:
		return fmt.Sprintf("the text ends in `at %s`: no line", at)
	case file == "":
		return fmt.Sprintf("the text ends in `at %s`: no file name", at)
	case parts[len(parts)-nums] == "0":
		return fmt.Sprintf("the text ends in `at %s`: line 0", at)
	}
	return ""
}

// Finding is one failure of the property on an input.
type Finding struct {
	Stage    string // parse | compile | script-compile | dedup | error-text | run
	Kind     string // panic | hang | badpos
	Sig      string // stable class
	Observed string
}

const (
	mainName   = "(main)"
	moduleName = "modx"
	helperName = "helper"
	helperSrc  = "export {one: 1, f: func(a) { return a + 1 }}\n"
)

var (
	reNum   = regexp.MustCompile(`-?\b\d+\b`)
	reHex   = regexp.MustCompile(`0x[0-9a-fA-F]+`)
	reQuote = regexp.MustCompile(`'[^']*'|"[^"]*"`)
	reFound = regexp.MustCompile(`found .*$`)
)

// msgClass normalises a panic or error message to a stable class.
func msgClass(m string) string {
	if i := strings.IndexByte(m, '\n'); i >= 0 {
		m = m[:i]
	}
	m = reHex.ReplaceAllString(m, "0xH")
	if strings.HasPrefix(m, "expected ") {
		m = reFound.ReplaceAllStringFunc(m, func(f string) string {
			if strings.HasPrefix(f, "found '") || f == "found newline" {
				return f
			}
			return "found LIT"
		})
	}
	m = reQuote.ReplaceAllString(m, "Q")
	m = reNum.ReplaceAllString(m, "N")
	if len(m) > 90 {
		m = m[:90]
	}
	return strings.ReplaceAll(strings.TrimSpace(m), " ", "-")
}

// lineStarts is the independent line table: 0 and the offset after every newline that is inside the file.
func lineStarts(src []byte) []int {
	ls := []int{0}
	for i, b := range src {
		if b == '\n' && i+1 < len(src) {
			ls = append(ls, i+1)
		}
	}
	return ls
}

// posProblem says why a reported position does not lie inside the input ("" = it does).
func posProblem(p parser.SourceFilePos, files map[string][]byte) string {
	src, ok := files[p.Filename]
	if !ok {
		return fmt.Sprintf("file %q is none of the inputs", p.Filename)
	}
	if p.Offset < 0 || p.Offset > len(src) {
		return fmt.Sprintf("offset %d outside 0..%d", p.Offset, len(src))
	}
	ls := lineStarts(src)
	if p.Line < 1 || p.Line > len(ls) {
		return fmt.Sprintf("line %d outside 1..%d", p.Line, len(ls))
	}
	start := ls[p.Line-1]
	end := len(src) + 1 // the position after the last byte (EOF) belongs to the last line
	if p.Line < len(ls) {
		end = ls[p.Line]
	}
	if p.Column < 1 || p.Column > end-start {
		return fmt.Sprintf("column %d outside 1..%d of line %d", p.Column, end-start, p.Line)
	}
	return ""
}

// Env is what one worker reuses between evaluations.
type Env struct {
	Dir     string           // scratch import directory of this worker ("" = file-import kinds are skipped)
	mods    *tengo.ModuleMap // builtin modules (all of stdlib), compile only
	safe    *tengo.ModuleMap // modules without side effects, for the run stage
	Timeout time.Duration
}

func NewEnv(dir string) *Env {
	return &Env{Dir: dir,
		mods:    stdlib.GetModuleMap(stdlib.AllModuleNames()...),
		safe:    stdlib.GetModuleMap("math", "text", "json", "base64", "hex", "enum", "times"),
		Timeout: 5 * time.Second}
}

var builtinLike = []string{"len", "copy", "append", "format", "string", "int", "is_error", "type_name", "delete", "splice"}

func varNames(c Config) []string {
	var ns []string
	for i := 0; i < c.NVar; i++ {
		if c.Bltn && i < len(builtinLike) {
			ns = append(ns, builtinLike[i])
		} else {
			ns = append(ns, fmt.Sprintf("v%d", i))
		}
	}
	return ns
}

// guard runs f under recover and the watchdog; isolated = no watchdog goroutine (child process: the parent
// kills us), so that a fatal error or a hang is attributed to exactly this call.
func guard(isolated bool, timeout time.Duration, f func()) (panicVal string, hung bool) {
	if isolated {
		func() {
			defer func() {
				if p := recover(); p != nil {
					panicVal = fmt.Sprint(p)
					if panicVal == "" {
						panicVal = "(empty panic value)"
					}
				}
			}()
			f()
		}()
		return
	}
	done := make(chan string, 1)
	go func() {
		pv := ""
		defer func() {
			if p := recover(); p != nil {
				pv = fmt.Sprint(p)
				if pv == "" {
					pv = "(empty panic value)"
				}
			}
			done <- pv
		}()
		f()
	}()
	t := time.NewTimer(timeout)
	defer t.Stop()
	select {
	case pv := <-done:
		return pv, false
	case <-t.C:
		return "", true
	}
}

// sameFile: the reported file name is the input called want (file imports are reported by path).
func sameFile(got, want string) bool {
	return got == want || filepath.Base(got) == want+".tengo"
}

// Eval runs every stage the configuration asks for. feats are behavioural features of the run (used by the
// searcher as a poor man's coverage signal).
func (e *Env) Eval(src []byte, c Config, isolated bool) (finds []Finding, feats []string) {
	timeout := e.Timeout
	if len(src) > 4096 {
		timeout = 30 * time.Second
	}
	add := func(stage, kind, sig, obs string) {
		finds = append(finds, Finding{stage, kind, stage + ":" + kind + ":" + sig, obs})
	}

	// the inputs of this configuration: main source, source modules, files
	mainSrc := src
	srcMods := extraModules(c.Src)
	if srcMods == nil {
		srcMods = map[string][]byte{}
	}
	switch c.Kind {
	case "bare-body", "srcmod-body":
		srcMods[moduleName] = src
		mainSrc = bodyMain(c)
	case "fileimp-body":
		mainSrc = bodyMain(c)
	case "srcmod-main":
		srcMods[moduleName], srcMods[helperName] = []byte(helperSrc), []byte(helperSrc)
	}
	files := map[string][]byte{mainName: mainSrc}
	var modNames []string
	for n, b := range srcMods {
		files[n] = b
		modNames = append(modNames, n)
	}
	sort.Strings(modNames)
	moduleMap := func(base *tengo.ModuleMap) *tengo.ModuleMap {
		mm := tengo.NewModuleMap()
		if base != nil {
			mm = base.Copy()
		}
		for _, n := range modNames {
			mm.AddSourceModule(n, srcMods[n])
		}
		return mm
	}

	checkErr := func(stage string, err error) {
		// the error text itself must be obtainable
		var text string
		if pv, hung := guard(isolated, timeout, func() { text = err.Error() }); pv != "" || hung {
			if hung {
				add("error-text", "hang", stage, "err.Error() did not return")
			} else {
				add("error-text", "panic", msgClass(pv), "err.Error() panicked: "+pv)
			}
			return
		}
		var el parser.ErrorList
		var ce *tengo.CompilerError
		switch {
		case errors.As(err, &el):
			feats = append(feats, stage+":perr:"+msgClass(firstMsg(el)))
			for _, pe := range el {
				if pr := posProblem(pe.Pos, files); pr != "" {
					add(stage, "badpos", "parse-error-position", fmt.Sprintf("%s: %q reported at %s (offset %d)", pr, pe.Msg, pe.Pos, pe.Pos.Offset))
				}
			}
		case errors.As(err, &ce):
			feats = append(feats, stage+":cerr:"+msgClass(ce.Err.Error()))
			var p parser.SourceFilePos
			if pv, _ := guard(true, 0, func() { p = ce.FileSet.Position(ce.Node.Pos()) }); pv != "" {
				add(stage, "panic", "compile-error-position:"+msgClass(pv), pv)
				return
			}
			// a compile error must SAY where it is: a position without file and line (`at -`) names no place
			// inside the offending input
			if tp := textPosProblem(text); tp != "" || !p.IsValid() || p.Filename == "" {
				if tp == "" {
					tp = fmt.Sprintf("FileSet.Position(Node.Pos()) = {file %q, line %d, column %d}", p.Filename, p.Line, p.Column)
				}
				add(stage, "badpos", "error-position-missing", fmt.Sprintf("%s; error text %q (node %T, Pos %d)", tp, text, ce.Node, int(ce.Node.Pos())))
			} else if pr := posProblem(p, files); pr != "" {
				add(stage, "badpos", "compile-error-position", fmt.Sprintf("%s: %q reported at %s (offset %d)", pr, ce.Err.Error(), p, p.Offset))
			} else if want := c.Want; want != "" {
				if got := fmt.Sprintf("%d", p.Offset); !strings.HasSuffix(want, "@"+got) || !sameFile(p.Filename, strings.TrimSuffix(want, "@"+got)) {
					add(stage, "badpos", "error-position-not-at-erroneous-token", fmt.Sprintf("%q reported at %s (offset %d), the erroneous token is at %s", ce.Err.Error(), p, p.Offset, want))
				}
			}
		default:
			feats = append(feats, stage+":err:"+msgClass(text))
		}
	}

	switch c.Kind {
	case "bare", "bare-body":
		var file *parser.File
		var fs *parser.SourceFileSet
		var sf *parser.SourceFile
		var err error
		pv, hung := guard(isolated, timeout, func() {
			fs = parser.NewFileSet()
			sf = fs.AddFile(mainName, -1, len(mainSrc))
			var tw io.Writer
			if c.Trc {
				tw = discard{}
			}
			file, err = parser.NewParser(sf, mainSrc, tw).ParseFile()
		})
		if hung {
			add("parse", "hang", "no-return", "ParseFile did not return in "+timeout.String())
			return
		}
		if pv != "" {
			add("parse", "panic", msgClass(pv), pv)
			return
		}
		if err != nil {
			checkErr("parse", err)
			return
		}
		if file == nil {
			add("parse", "badpos", "nil-file-without-error", "ParseFile returned (nil, nil)")
			return
		}
		feats = append(feats, "parse:ok")
		var bc *tengo.Bytecode
		pv, hung = guard(isolated, timeout, func() {
			st := tengo.NewSymbolTable()
			for idx, fn := range tengo.GetAllBuiltinFunctions() {
				st.DefineBuiltin(idx, fn.Name)
			}
			for _, n := range varNames(c) {
				st.Define(n)
			}
			var mm tengo.ModuleGetter // untyped nil when no modules are configured
			switch {
			case c.Mods && len(modNames) == 0:
				mm = e.mods
			case c.Mods:
				mm = moduleMap(e.mods)
			case len(modNames) > 0:
				mm = moduleMap(nil)
			}
			var ctw io.Writer
			if c.Trc {
				ctw = discard{}
			}
			cp := tengo.NewCompiler(sf, st, nil, mm, ctw)
			err = cp.Compile(file)
			if err == nil {
				bc = cp.Bytecode()
			}
		})
		if hung {
			add("compile", "hang", "no-return", "Compiler.Compile did not return in "+timeout.String())
			return
		}
		if pv != "" {
			add("compile", "panic", msgClass(pv), pv)
			return
		}
		if err != nil {
			checkErr("compile", err)
			return
		}
		feats = append(feats, "compile:ok")
		pv, hung = guard(isolated, timeout, func() { bc.RemoveDuplicates() })
		if hung {
			add("dedup", "hang", "no-return", "RemoveDuplicates did not return")
		} else if pv != "" {
			add("dedup", "panic", msgClass(pv), pv)
		}
		return
	}

	// Script kinds
	var compiled *tengo.Compiled
	var err error
	pv, hung := guard(isolated, timeout, func() {
		s := tengo.NewScript(mainSrc)
		var mm *tengo.ModuleMap
		switch {
		case c.Run:
			mm = moduleMap(e.safe)
		case c.Mods:
			mm = moduleMap(e.mods)
		default:
			mm = moduleMap(nil)
		}
		switch c.Kind {
		case "fileimp-body", "fileimp-main":
			if e.Dir != "" {
				for _, n := range []string{moduleName, helperName} {
					body := []byte(helperSrc)
					if n == moduleName && c.Kind == "fileimp-body" {
						body = src
					}
					path := filepath.Join(e.Dir, n+".tengo")
					_ = os.WriteFile(path, body, 0o600)
					files[path] = body
					if abs, err := filepath.Abs(path); err == nil {
						files[abs] = body
					}
				}
				s.EnableFileImport(true)
				_ = s.SetImportDir(e.Dir)
			}
		}
		s.SetImports(mm)
		for i, n := range varNames(c) {
			_ = s.Add(n, i)
		}
		if c.Run {
			s.SetMaxAllocs(20000)
		}
		compiled, err = s.Compile()
	})
	if hung {
		add("script-compile", "hang", "no-return", "Script.Compile did not return in "+timeout.String())
		return
	}
	if pv != "" {
		add("script-compile", "panic", msgClass(pv), pv)
		return
	}
	if err != nil {
		checkErr("script-compile", err)
		return
	}
	feats = append(feats, "script-compile:ok")
	if c.Run && isolated && compiled != nil {
		var rerr error
		pv, _ := guard(true, 0, func() {
			ctx, cancel := context.WithTimeout(context.Background(), 200*time.Millisecond)
			defer cancel()
			rerr = compiled.RunContext(ctx)
		})
		if pv != "" {
			add("run", "panic", msgClass(pv), pv)
		} else if rerr != nil {
			feats = append(feats, "run:err:"+msgClass(rerr.Error()))
		} else {
			feats = append(feats, "run:ok")
		}
	}
	return
}

func firstMsg(el parser.ErrorList) string {
	if len(el) == 0 {
		return "(empty error list)"
	}
	return el[0].Msg
}

type discard struct{}

func (discard) Write(p []byte) (int, error) { return len(p), nil }

func sigs(fs []Finding) string {
	var s []string
	for _, f := range fs {
		s = append(s, f.Sig)
	}
	sort.Strings(s)
	return strings.Join(s, " | ")
}

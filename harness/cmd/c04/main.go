// Command c04: searcher and correspondence for C04 (scanner, parser and compiler are total on arbitrary
// source bytes).
//
// Searcher (real code, oracle = the property itself, `Violate`): a feature-guided mutation fuzzer over source
// bytes. Seeds: /repo/testdata, the ```golang blocks of /repo/docs, programs of lib.NewGen, hand-written
// forms and /verif/corpus/C04 (minimised past failures). Every input is pushed through ParseFile and
// Compiler.Compile ("bare") and through Script.Compile under a configuration (builtin module map, source
// module whose body is the input, file import from a scratch directory, 0..1100 pre-declared variables,
// names equal to builtin functions, trace writer). A panic, a hang (> 5 s for ≤ 4 KiB), or an error position
// outside the input it names is a violation; failing inputs are minimised (delta debugging on bytes).
// Deep-nesting inputs (depth 5000) and the run stage execute in child processes, so that a fatal stack
// overflow is observed instead of killing the harness.
//
// Correspondence (`Disagree`): real scanner / parser / SourceFile.Position vs the Lean models
// (`scan`, `parse` of Drivers.C20 and `c04pos`) on a deterministic sample of the same arbitrary bytes.
package main

import (
	"bytes"
	"encoding/hex"
	"encoding/json"
	"flag"
	"fmt"
	"hash/fnv"
	"io"
	"os"
	"os/exec"
	"runtime"
	"sort"
	"strings"
	"sync"
	"sync/atomic"
	"syscall"
	"time"
	"unicode/utf8"

	"github.com/d5/tengo/v2"
	"verifharness/lib"
)

type replayInput struct {
	Source string `json:"source"` // source text; "hex:…" when not valid UTF-8
	Config Config `json:"config"`
	Mut    string `json:"mutation,omitempty"`
}

func encSrc(b []byte) string {
	if utf8.Valid(b) && !bytes.HasPrefix(b, []byte("hex:")) {
		return string(b)
	}
	return "hex:" + hex.EncodeToString(b)
}

func decSrc(s string) []byte {
	if strings.HasPrefix(s, "hex:") {
		if b, err := hex.DecodeString(s[4:]); err == nil {
			return b
		}
	}
	return []byte(s)
}

func fatal(err error) {
	fmt.Fprintln(os.Stderr, "c04:", err)
	os.Exit(3)
}

func clip(s string, n int) string {
	if len(s) > n {
		return s[:n] + "…"
	}
	return s
}

func h64(b []byte, extra string) uint64 {
	h := fnv.New64a()
	h.Write(b)
	h.Write([]byte{0})
	h.Write([]byte(extra))
	return h.Sum64()
}

// ---- configurations ----

var inProcKinds = []Config{
	{Kind: "bare"}, {Kind: "bare", Mods: true}, {Kind: "bare", Trc: true}, {Kind: "bare", NVar: 3, Bltn: true},
	{Kind: "script"}, {Kind: "script", Mods: true}, {Kind: "script", NVar: 2, Bltn: true}, {Kind: "script", Mods: true, NVar: 12, Bltn: true},
	{Kind: "srcmod-body"}, {Kind: "srcmod-body", Mods: true}, {Kind: "srcmod-main"}, {Kind: "srcmod-main", Mods: true, NVar: 1},
	{Kind: "fileimp-body"}, {Kind: "fileimp-main", Mods: true},
	// other source modules configured (and imported around the module under test)
	{Kind: "bare", Src: 1}, {Kind: "bare", Src: 3, Mods: true}, {Kind: "bare-body", Src: 2, Pre: 1}, {Kind: "script", Src: 3},
	{Kind: "script", Src: 2, Mods: true, NVar: 2}, {Kind: "srcmod-body", Src: 3, Pre: 2, Post: 1}, {Kind: "srcmod-main", Src: 1},
	{Kind: "fileimp-body", Src: 2, Post: 2},
}

// srcConfig: a configuration with n other source modules, for texts that import them.
func srcConfig(r *lib.RNG, n int) Config {
	c := Config{Kind: []string{"bare", "bare", "script", "script", "bare-body", "srcmod-body", "fileimp-body", "srcmod-main"}[r.Intn(8)], Src: n}
	c.Mods = r.Chance(1, 4)
	if strings.HasSuffix(c.Kind, "-body") {
		c.Pre, c.Post = r.Intn(n+1), r.Intn(n+1)
	} else if r.Chance(1, 4) {
		c.NVar = 1 + r.Intn(3)
	}
	return c
}

func pickConfig(r *lib.RNG) Config {
	if r.Chance(1, 60) { // symbol-table boundaries
		return Config{Kind: "script", NVar: []int{255, 256, 257, 1000, 1023, 1024, 1025, 1100}[r.Intn(8)], Bltn: r.Bool(), Mods: r.Bool()}
	}
	return inProcKinds[r.Intn(len(inProcKinds))]
}

// ---- one worker ----

type rawViolation struct {
	src  []byte
	cfg  Config
	mut  string
	find Finding
}

type worker struct {
	id       int
	env      *Env
	rng      *lib.RNG
	pool     [][]byte
	nSeeds   int
	feats    map[string]bool
	seen     map[uint64]bool
	evals    int
	streams  map[string]int
	dist     map[string]int
	viols    []rawViolation
	sigSeen  map[string]int
	samples  [][]byte // for the model correspondence
	runnable [][]byte // compiled under a script kind: candidates for the run stage
	good     []int    // indices of the seeds that parse
}

var stopAll int32 // set when a hang was seen: the process is tainted, stop searching and report

func (w *worker) eval(src []byte, cfg Config, mut string) {
	if atomic.LoadInt32(&stopAll) != 0 {
		return
	}
	finds, feats := w.env.Eval(src, cfg, false)
	w.evals++
	w.streams["fuzz:"+cfg.Kind]++
	w.seen[h64(src, cfg.String())] = true
	fresh := false
	for _, f := range feats {
		k := cfg.Kind + "/" + f
		if !w.feats[k] {
			w.feats[k] = true
			fresh = true
		}
		if i := strings.Index(f, ":"); i > 0 {
			j := strings.Index(f[i+1:], ":")
			if j < 0 {
				w.dist["outcome:"+f]++
			} else {
				w.dist["outcome:"+f[:i+1+j]]++
			}
		}
	}
	if fresh && len(src) <= 4096 && len(w.pool) < 6000 {
		w.pool = append(w.pool, src)
	}
	if cfg.Kind == "script" && len(finds) == 0 && len(w.runnable) < 400 {
		for _, f := range feats {
			if f == "script-compile:ok" && w.evals%7 == 0 {
				w.runnable = append(w.runnable, src)
			}
		}
	}
	for _, f := range finds {
		w.dist["finding:"+f.Kind]++
		if f.Kind == "hang" {
			atomic.StoreInt32(&stopAll, 1)
			w.viols = append(w.viols, rawViolation{src, cfg, mut, f})
			return
		}
		if w.sigSeen[f.Sig] >= 2 {
			continue
		}
		w.sigSeen[f.Sig]++
		min := w.minimise(src, cfg, f.Sig)
		// re-evaluate the minimised input for its observation
		f2 := f
		fs, _ := w.env.Eval(min, cfg, false)
		for _, g := range fs {
			if g.Sig == f.Sig {
				f2 = g
			}
		}
		w.viols = append(w.viols, rawViolation{min, cfg, mut, f2})
	}
}

// minimise: delta debugging on bytes, bounded effort, keeping the signature.
func (w *worker) minimise(src []byte, cfg Config, sig string) []byte {
	budget := 350
	still := func(b []byte) bool {
		if budget <= 0 || atomic.LoadInt32(&stopAll) != 0 {
			return false
		}
		budget--
		fs, _ := w.env.Eval(b, cfg, false)
		for _, f := range fs {
			if f.Sig == sig {
				return true
			}
			if f.Kind == "hang" {
				atomic.StoreInt32(&stopAll, 1)
			}
		}
		return false
	}
	return ddmin(src, still)
}

func ddmin(src []byte, still func([]byte) bool) []byte {
	cur := append([]byte{}, src...)
	for chunk := (len(cur) + 1) / 2; chunk >= 1; {
		removed := false
		for i := 0; i+chunk <= len(cur); {
			cand := append(append([]byte{}, cur[:i]...), cur[i+chunk:]...)
			if still(cand) {
				cur = cand
				removed = true
			} else {
				i += chunk
			}
		}
		if chunk == 1 && !removed {
			break
		}
		if chunk > 1 {
			chunk = (chunk + 1) / 2
		} else if !removed {
			break
		}
	}
	return cur
}

func genProgram(r *lib.RNG) []byte {
	p := lib.DefaultProfile()
	p.MaxStmts = 4 + r.Intn(10)
	p.MaxDepth = 2 + r.Intn(3)
	p.Chaos = 30
	g := lib.NewGen(r, p)
	return []byte(g.Program())
}

// smallLen bounds the exhaustive small-scope enumeration (4: 168 420 strings; 5: 3.4 million).
var smallLen = 4

func (w *worker) run(quota int, nWorkers int, sampleStride int) {
	// seeds first, under every in-process configuration (shared out between the workers)
	for i := 0; i < w.nSeeds; i++ {
		if i%nWorkers != w.id {
			continue
		}
		for _, c := range inProcKinds {
			w.eval(w.pool[i], c, "seed")
		}
		w.eval(w.pool[i], Config{Kind: "script", NVar: 1100}, "seed")
		if len(w.pool[i]) <= 2048 {
			w.samples = append(w.samples, w.pool[i])
		}
	}
	// exhaustive small scope: every string of length ≤ smallLen over the bytes the scanner treats
	// specially (comment and string delimiters, CR/LF, escapes, digits and prefixes, brackets, NUL,
	// invalid UTF-8), shared out between the workers
	{
		alpha := []byte{'/', '*', '\r', '\n', '`', '"', '\'', '\\', 'a', '0', '.', 'x', '_', '{', '(', ' ', 0x00, 0xff, 'e', '+'}
		idx := 0
		var rec func(cur []byte, left int)
		rec = func(cur []byte, left int) {
			if atomic.LoadInt32(&stopAll) != 0 {
				return
			}
			if len(cur) > 0 {
				idx++
				if idx%nWorkers == w.id {
					w.streams["exhaustive-small"]++
					w.eval(append([]byte{}, cur...), Config{Kind: "bare"}, "exhaustive-small")
				}
			}
			if left == 0 {
				return
			}
			for _, c := range alpha {
				rec(append(cur, c), left-1)
			}
		}
		rec(nil, smallLen)
	}
	for n := 0; n < quota && atomic.LoadInt32(&stopAll) == 0; n++ {
		r := w.rng.Fork()
		var base []byte
		switch {
		case r.Chance(1, 25):
			base = genProgram(r)
			if len(w.pool) < 6000 {
				w.pool = append(w.pool, base)
			}
		case r.Chance(1, 3) && len(w.pool) > w.nSeeds:
			k := len(w.pool) - w.nSeeds
			if k > 64 {
				k = 64
			}
			base = w.pool[len(w.pool)-1-r.Intn(k)]
		case r.Chance(1, 2) && len(w.good) > 0:
			base = w.pool[w.good[r.Intn(len(w.good))]] // a valid program: few mutations keep it near-valid
		default:
			base = w.pool[r.Intn(len(w.pool))]
		}
		other := w.pool[r.Intn(len(w.pool))]
		src, mut := mutate(r, base, other)
		w.dist["mutation:"+mut]++
		switch {
		case len(src) == 0:
			w.dist["size:empty"]++
		case len(src) < 64:
			w.dist["size:<64"]++
		case len(src) < 512:
			w.dist["size:<512"]++
		default:
			w.dist["size:<=4096"]++
		}
		if !utf8.Valid(src) {
			w.dist["bytes:invalid-utf8"]++
		}
		if bytes.IndexByte(src, 0) >= 0 {
			w.dist["bytes:nul"]++
		}
		w.eval(src, Config{Kind: "bare", Trc: r.Chance(1, 50), Mods: r.Chance(1, 4)}, mut)
		if r.Chance(1, 5) { // the same text with imports of configured source modules in front of / behind it
			n := 1 + r.Intn(3)
			src2, m2 := withImports(r, src, n)
			w.dist["mutation:"+m2]++
			w.eval(src2, srcConfig(r, n), mut+"+"+m2)
		} else {
			w.eval(src, pickConfig(r), mut)
		}
		if n%sampleStride == 0 && len(src) <= 1536 {
			w.samples = append(w.samples, src)
		}
	}
}

// ---- child processes ----

type childOut struct {
	Finds []Finding `json:"finds"`
	Feats []string  `json:"feats"`
}

func childMain(cfgJSON string) {
	var cfg Config
	if err := json.Unmarshal([]byte(cfgJSON), &cfg); err != nil {
		fatal(err)
	}
	src, err := io.ReadAll(os.Stdin)
	if err != nil {
		fatal(err)
	}
	go func() { // runaway allocation: give up before the machine suffers (reported as a hang by the parent)
		var ms runtime.MemStats
		for {
			time.Sleep(100 * time.Millisecond)
			runtime.ReadMemStats(&ms)
			if ms.HeapAlloc > 3<<30 {
				os.Exit(97)
			}
		}
	}()
	dir := os.Getenv("C04_CHILD_DIR")
	env := NewEnv(dir)
	finds, feats := env.Eval(src, cfg, true)
	b, _ := json.Marshal(childOut{finds, feats})
	os.Stdout.Write(b)
}

// runChild evaluates one input in a fresh process. A death of the child (fatal error) or a timeout is
// itself a finding.
func runChild(src []byte, cfg Config, dir string, timeout time.Duration) (finds []Finding, feats []string) {
	exe, err := os.Executable()
	if err != nil {
		fatal(err)
	}
	cj, _ := json.Marshal(cfg)
	cmd := exec.Command(exe, "-child", string(cj))
	cmd.Env = append(os.Environ(), "C04_CHILD_DIR="+dir)
	cmd.Stdin = bytes.NewReader(src)
	var out, errb bytes.Buffer
	cmd.Stdout, cmd.Stderr = &out, &errb
	if err := cmd.Start(); err != nil {
		fatal(err)
	}
	done := make(chan error, 1)
	go func() { done <- cmd.Wait() }()
	stage := "parse/compile"
	if cfg.Run {
		stage = "compile/run"
	}
	select {
	case err := <-done:
		if ee, ok := err.(*exec.ExitError); ok && ee.ExitCode() == 97 {
			return []Finding{{Stage: stage, Kind: "hang", Sig: stage + ":hang:no-return", Observed: "more than 3 GiB allocated without returning (child stopped itself)"}}, nil
		}
		if err != nil {
			line := errb.String()
			if i := strings.Index(line, "fatal error:"); i >= 0 {
				line = line[i:]
			}
			if i := strings.IndexByte(line, '\n'); i >= 0 {
				line = line[:i]
			}
			return []Finding{{Stage: stage, Kind: "fatal", Sig: stage + ":fatal:" + msgClass(line), Observed: "the process died: " + clip(line, 200)}}, nil
		}
	case <-time.After(timeout):
		_ = cmd.Process.Kill()
		<-done
		return []Finding{{Stage: stage, Kind: "hang", Sig: stage + ":hang:no-return", Observed: "no result within " + timeout.String() + " (child killed)"}}, nil
	}
	var co childOut
	if err := json.Unmarshal(out.Bytes(), &co); err != nil {
		return []Finding{{Stage: stage, Kind: "fatal", Sig: stage + ":fatal:unreadable-child-output", Observed: clip(out.String(), 200)}}, nil
	}
	return co.Finds, co.Feats
}

// minimiseChild: delta debugging through child processes (hangs and fatal errors), small budget.
func minimiseChild(src []byte, cfg Config, dir string, sig string, timeout time.Duration) []byte {
	budget := 45
	return ddmin(src, func(b []byte) bool {
		if budget <= 0 {
			return false
		}
		budget--
		fs, _ := runChild(b, cfg, dir, timeout)
		for _, f := range fs {
			if f.Sig == sig {
				return true
			}
		}
		return false
	})
}

// ---- main ----

var (
	res   *lib.Result
	flags *lib.Flags
)

func violate(src []byte, cfg Config, mut string, f Finding) {
	violateIn("fuzz:"+cfg.Kind, src, cfg, mut, f)
}

func violateIn(stream string, src []byte, cfg Config, mut string, f Finding) {
	exp := "a result or an error value whose positions lie inside the input"
	if strings.Contains(f.Sig, "error-position-missing") {
		exp = "an error value that names the file and line of the offending token"
	}
	res.Violate(lib.Violation{Signature: f.Sig, Stream: stream, Input: replayInput{encSrc(src), cfg, mut},
		Observed: clip(f.Observed, 600), Expected: exp,
		Oracle: "no panic, no hang (> 5 s for ≤ 4 KiB), every reported error position inside the input it names (stage " + f.Stage + ")"})
}

func main() {
	child := flag.String("child", "", "internal: evaluate stdin under this JSON configuration and print the findings")
	follow := flag.String("followup", "", "internal: state file of a run that saw a hang (the process re-executes itself to get rid of the lost goroutine)")
	flags = lib.ParseFlags()
	if *child != "" {
		childMain(*child)
		return
	}
	res = lib.NewResult("C04", flags)
	if *follow != "" {
		followUp(*follow)
		return
	}
	drv, err := lib.StartDriver(flags.Driver)
	if err != nil {
		fatal(err)
	}
	defer drv.Close()
	res.DriverUsed = drv != nil
	res.Rule = "inputs: mutations (token deletion/duplication/swap/replacement, bracket imbalance, truncated literals, byte flips, invalid UTF-8/NUL/BOM/CR/surrogate-escape insertions, long words, nesting, splices) of testdata, docs snippets, generated programs and the corpus, ≤ 4 KiB (deep-nesting inputs larger); " +
		"a case = (source bytes, configuration); non-trivial = non-empty source; distinct by hash of bytes and configuration; inputs that show a new behaviour (error class, stage reached) join the mutation pool"

	scratch, err := os.MkdirTemp("", "c04imports")
	if err != nil {
		fatal(err)
	}
	defer os.RemoveAll(scratch)

	if flags.Replay != "" {
		replay(flags.Replay, scratch, drv)
		res.Write(flags.Out)
		return
	}

	lib.RunProbes(res, "C04", flags.Known)
	ownProbes()
	{
		t1 := time.Now()
		targetedStage(scratch)
		floodStage(scratch)
		res.Extra = map[string]interface{}{"targeted_s": time.Since(t1).Seconds()}
	}

	seeds, origin := loadSeeds()
	for k, v := range origin {
		res.Distribution["seeds:"+k] = v
	}
	nW := flags.Scale(8, 16)
	smallLen = flags.Scale(4, 5)
	total := flags.Scale(20000, 2000000)
	stride := flags.Scale(8, 60) // model sample: every stride-th input of each worker
	rng := lib.NewRNG(flags.Seed)
	ws := make([]*worker, nW)
	t0 := time.Now()
	var good []int
	{
		env := NewEnv("")
		for i, s := range seeds {
			if len(s) > 4096 {
				continue
			}
			_, feats := env.Eval(s, Config{Kind: "bare"}, false)
			for _, f := range feats {
				if f == "parse:ok" {
					good = append(good, i)
				}
			}
		}
		res.Distribution["seeds:parse-ok"] = len(good)
	}
	var wg sync.WaitGroup
	for i := 0; i < nW; i++ {
		dir := fmt.Sprintf("%s/w%d", scratch, i)
		_ = os.MkdirAll(dir, 0o700)
		w := &worker{id: i, env: NewEnv(dir), rng: rng.Fork(), nSeeds: len(seeds), feats: map[string]bool{}, seen: map[uint64]bool{},
			streams: map[string]int{}, dist: map[string]int{}, sigSeen: map[string]int{}}
		w.pool = append(w.pool, seeds...)
		w.good = good
		ws[i] = w
		wg.Add(1)
		go func() {
			defer wg.Done()
			w.run(total/nW, nW, stride)
		}()
	}
	wg.Wait()
	fuzzS := time.Since(t0).Seconds()

	// merge in worker order
	featAll := map[string]bool{}
	seenAll := map[uint64]bool{}
	var samples, runnable [][]byte
	for _, w := range ws {
		res.Evaluations += w.evals
		for k, v := range w.streams {
			res.Streams[k] += v
		}
		for k, v := range w.dist {
			res.Distribution[k] += v
		}
		for k := range w.feats {
			featAll[k] = true
		}
		for k := range w.seen {
			seenAll[k] = true
		}
		samples = append(samples, w.samples...)
		runnable = append(runnable, w.runnable...)
	}
	res.Distinct += len(seenAll)
	var hangs []hangState
	for _, w := range ws {
		for _, v := range w.viols {
			if v.find.Kind == "hang" {
				hangs = append(hangs, hangState{encSrc(v.src), v.cfg, v.mut, v.find})
				continue
			}
			violate(v.src, v.cfg, v.mut, v.find)
		}
	}
	hangSeen := len(hangs) > 0
	res.Extra["behaviour_features"], res.Extra["workers"], res.Extra["seeds"] = len(featAll), nW, len(seeds)

	res.Extra["fuzz_s"] = fuzzS
	if hangSeen {
		// A goroutine of this process is lost in the call that does not return (and may be allocating).
		// Save the state and replace the process; the successor confirms and minimises in child processes.
		res.Extra["search_stopped_early"] = "an evaluation did not return within the watchdog limit"
		rb, _ := json.Marshal(res)
		st, _ := json.Marshal(followState{Result: rb, Hangs: hangs, Scratch: scratch})
		path := scratch + "/follow.json"
		if err := os.WriteFile(path, st, 0o600); err != nil {
			fatal(err)
		}
		exe, err := os.Executable()
		if err != nil {
			fatal(err)
		}
		args := []string{exe, "-followup", path, "-tier", flags.Tier, "-seed", fmt.Sprint(flags.Seed), "-out", flags.Out, "-known", flags.Known}
		if err := syscall.Exec(exe, args, os.Environ()); err != nil {
			fatal(err)
		}
	}
	if !hangSeen {
		t1 := time.Now()
		deepStage(rng.Fork(), scratch)
		res.Extra["deep_s"] = time.Since(t1).Seconds()
		t1 = time.Now()
		runStage(runnable, scratch)
		res.Extra["run_s"] = time.Since(t1).Seconds()
		t1 = time.Now()
		modelStage(drv, samples)
		res.Extra["model_s"] = time.Since(t1).Seconds()
	}
	res.Write(flags.Out)
}

// targetedStage: the erroneous token at the first / last byte of the main source and of a source-module body,
// with 1..3 other source modules imported before and/or after it, under the compiler and the script entry
// points. Deterministic (no randomness): every form × placement × configuration is evaluated. Besides the
// general oracle the configuration carries the place of the erroneous token (Config.Want), which a reported
// compile-error position must equal.
func targetedStage(scratch string) {
	type form struct {
		name, text string
		rel        int // offset of the erroneous token inside text
		nvar       int
	}
	args := strings.Repeat("1, ", 256)
	forms := []form{
		{"assign-builtin", "len = 5", 0, 0},
		{"assign-builtin-import", "len = import(\"m1\")", 0, 0},
		{"opassign-builtin-imports", "copy += [import(\"m1\"), import(\"m1\")]", 0, 0},
		{"import-big", "import(\"big\")", 0, 0},
		{"import-big-selector", "import(\"big\").v1", 0, 0},
		{"define-import-big", "x := import(\"big\")", 5, 0},
		{"unresolved-assign", "nosuch = import(\"m1\")", 0, 0},
		{"unresolved-ident", "nosuch", 0, 0},
		{"unresolved-one-byte", "q", 0, 0},
		{"unresolved-callee", "nosuch(import(\"m1\"))", 0, 0},
		{"unresolved-after-import", "import(\"m1\")(nosuch)", 13, 0},
		{"break", "break", 0, 0},
		{"continue", "continue", 0, 0},
		{"return", "return", 0, 0},
		{"return-import", "return import(\"m1\")", 0, 0},
		{"redeclared-variable", "v0 := import(\"m1\")", 0, 1},
		{"redeclared-second", "x := 1\nx := import(\"m1\")", 7, 0},
		{"module-not-found", "import(\"nosuch\")", 0, 0},
		{"empty-module-name", "import(\"\")", 0, 0},
		{"import-self", "import(\"" + moduleName + "\")", 0, 0},
		{"define-selector", "a.b := import(\"m1\")", 0, 0},
		{"too-many-arguments", "len(" + args + "1)", 0, 0},
		{"export-in-function", "func() { export import(\"m1\") }()", 9, 0},
	}
	dir := scratch + "/targeted"
	_ = os.MkdirAll(dir, 0o700)
	env := NewEnv(dir)
	reported := map[string]int{}
	for _, f := range forms {
		for k := 1; k <= 3; k++ {
			type placed struct {
				name, text string
				off        int
			}
			pre, post := importLines("ia", k), "\n"+importLines("ib", k)
			pls := []placed{{"alone", f.text, f.rel}, {"imports-before", pre + f.text, len(pre) + f.rel}, {"imports-after", f.text + post, f.rel},
				{"imports-around", pre + f.text + post, len(pre) + f.rel}}
			if k == 1 {
				const sameLine = "ia1 := import(\"m1\"); "
				pls = append(pls, placed{"alone-newline", f.text + "\n", f.rel}, placed{"same-line", sameLine + f.text, len(sameLine) + f.rel})
			}
			var cfgs []Config
			cfgs = append(cfgs, Config{Kind: "bare", Src: k, NVar: f.nvar}, Config{Kind: "script", Src: k, NVar: f.nvar})
			if k == 2 {
				cfgs = append(cfgs, Config{Kind: "bare", Src: k, NVar: f.nvar, Mods: true}, Config{Kind: "script", Src: k, NVar: f.nvar, Mods: true})
			}
			for _, kind := range []string{"bare-body", "srcmod-body", "fileimp-body"} {
				cfgs = append(cfgs, Config{Kind: kind, Src: k}, Config{Kind: kind, Src: k, Pre: k}, Config{Kind: kind, Src: k, Post: k})
			}
			for _, pl := range pls {
				for _, cfg := range cfgs {
					file := mainName
					if strings.HasSuffix(cfg.Kind, "-body") {
						file = moduleName
					}
					cfg.Want = fmt.Sprintf("%s@%d", file, pl.off)
					src := []byte(pl.text)
					finds, feats := env.Eval(src, cfg, false)
					res.Evaluations++
					res.Count("targeted:"+cfg.Kind, f.name+"/"+pl.name+"/"+cfg.String(), true)
					outcome := "no-error"
					for _, ft := range feats {
						if strings.Contains(ft, ":cerr:") {
							outcome = "compile-error"
						} else if strings.Contains(ft, ":perr:") {
							outcome = "parse-error"
						}
					}
					if len(finds) > 0 {
						outcome = "finding"
					}
					res.Dist("targeted-outcome:" + outcome)
					if outcome != "compile-error" {
						res.Dist("targeted-" + outcome + ":" + f.name + "/" + cfg.Kind)
					}
					for _, fd := range finds {
						key := fd.Sig + "|" + cfg.Kind
						if reported[key] >= 1 {
							continue
						}
						reported[key]++
						violateIn("targeted:"+cfg.Kind, src, cfg, "targeted:"+f.name+"/"+pl.name, fd)
					}
				}
			}
		}
	}
}

// floodStage: inputs that make the scanner or the parser report MANY errors at one place — inside the first
// token (which NewParser scans in its constructor, outside ParseFile's recover), inside a later token, in a
// module body — with counts around the parser's error cap (10). Added after seeded change C04-m6 (a cap on
// scanner errors whose bailout panic escaped from NewParser) was not found by the mutation fuzzer.
func floodStage(scratch string) {
	dir := scratch + "/flood"
	_ = os.MkdirAll(dir, 0o700)
	env := NewEnv(dir)
	// (with a line break after each bad byte too: an error cap that counts one error per LINE needs them on
	// distinct lines — C04-m8)
	bad := []string{"\x00", "\xff", "\xef\xbb\xbf", "\x80", "\x01", "\x00\n", "\xff\n", "\x80\x00\n"}
	wrap := []struct{ name, open, close string }{
		{"string", "\"", "\""}, {"raw-string", "`", "`"}, {"char", "'", "'"}, {"block-comment", "/*", "*/ a := 1"},
		{"line-comment", "//", "\na := 1"}, {"bare", "", ""}, {"bare-then-code", "", " a := 1"}, {"unterminated-string", "\"", ""},
		{"unterminated-comment", "/*", ""}, {"illegal-punct", "", "@"},
	}
	reported := map[string]int{}
	for _, b := range bad {
		for _, w := range wrap {
			for _, k := range []int{1, 9, 10, 11, 12, 13, 14, 40} {
				core := w.open + strings.Repeat(b, k) + w.close
				for _, pl := range []struct{ name, text string }{{"first-token", core}, {"first-token-newline", core + "\n"},
					{"after-statement", "x := 1\n" + core}, {"after-import", "m := import(\"m1\")\n" + core}, {"operand", "x := " + core},
					{"many-statements", strings.Repeat(core+"\n", 3)}} {
					for _, cfg := range []Config{{Kind: "bare", Src: 1}, {Kind: "script", Src: 1}, {Kind: "bare-body", Src: 1},
						{Kind: "srcmod-body", Src: 1}, {Kind: "fileimp-body", Src: 1}} {
						src := []byte(pl.text)
						finds, _ := env.Eval(src, cfg, false)
						res.Evaluations++
						res.Count("flood:"+cfg.Kind, w.name+"/"+pl.name+"/"+fmt.Sprint(k)+"/"+b+"/"+cfg.String(), true)
						res.Dist("flood:" + w.name)
						for _, fd := range finds {
							key := fd.Sig + "|" + cfg.Kind
							if reported[key] >= 1 {
								continue
							}
							reported[key]++
							violateIn("flood:"+cfg.Kind, src, cfg, "flood:"+w.name+"/"+pl.name, fd)
						}
					}
				}
			}
		}
	}
}

type intImportable struct{}

func (intImportable) Import(string) (interface{}, error) { return 42, nil }

// ownProbes re-runs the findings of this property that have no probe in lib/findings.go.
func ownProbes() {
	known := map[string]bool{}
	for _, k := range lib.LoadKnown(flags.Known) {
		if k.Property == "C04" && k.Status == "known" {
			known[k.ID] = true
		}
	}
	// C04-1: a custom Importable whose Import returns neither []byte nor an Object
	pv, _ := guard(false, 10*time.Second, func() {
		mm := tengo.NewModuleMap()
		mm.Add("m", intImportable{})
		s := tengo.NewScript([]byte("x := import(\"m\")\n"))
		s.SetImports(mm)
		_, _ = s.Compile()
	})
	res.Count("finding-probe", "C04-1", true)
	if pv != "" {
		if known["C04-1"] {
			res.KnownHits = append(res.KnownHits, "C04-1")
		} else {
			res.Violate(lib.Violation{Signature: "finding-C04-1", Stream: "finding-probe", Input: "ModuleMap.Add(\"m\", Importable returning 42); x := import(\"m\")",
				Observed: "panic: " + pv, Expected: "a compile error", Oracle: "Script.Compile must not panic whatever modules are configured"})
		}
	}
}

type hangState struct {
	Source string  `json:"source"`
	Config Config  `json:"config"`
	Mut    string  `json:"mutation"`
	Find   Finding `json:"finding"`
}

type followState struct {
	Result  json.RawMessage `json:"result"`
	Hangs   []hangState     `json:"hangs"`
	Scratch string          `json:"scratch"`
}

// followUp runs in the re-executed process: confirm the hang in a fresh process with the full limit, minimise
// it there, report.
func followUp(path string) {
	b, err := os.ReadFile(path)
	if err != nil {
		fatal(err)
	}
	var st followState
	if err := json.Unmarshal(b, &st); err != nil {
		fatal(err)
	}
	if err := json.Unmarshal(st.Result, res); err != nil {
		fatal(err)
	}
	if res.Extra == nil {
		res.Extra = map[string]interface{}{}
	}
	defer os.RemoveAll(st.Scratch)
	dir := st.Scratch + "/w0"
	_ = os.MkdirAll(dir, 0o700)
	done := map[string]bool{}
	for _, h := range st.Hangs {
		if done[h.Find.Sig] {
			continue
		}
		done[h.Find.Sig] = true
		src := decSrc(h.Source)
		limit := 5 * time.Second
		if len(src) > 4096 {
			limit = 40 * time.Second
		}
		isHang := func(b []byte, lim time.Duration) (Finding, bool) {
			fs, _ := runChild(b, h.Config, dir, lim)
			for _, f := range fs {
				if f.Kind == "hang" {
					return f, true
				}
			}
			return Finding{}, false
		}
		f, ok := isHang(src, limit)
		if !ok {
			res.Distribution["hang-not-reproduced-in-fresh-process"]++ // machine load, not a property failure
			continue
		}
		budget := 40
		min := ddmin(src, func(b []byte) bool {
			if budget <= 0 {
				return false
			}
			budget--
			_, still := isHang(b, 2*time.Second)
			return still
		})
		if _, ok := isHang(min, limit); !ok {
			min = src
		}
		f.Sig, f.Stage = h.Find.Sig, h.Find.Stage
		f.Observed = h.Find.Observed + "; confirmed in a fresh process: " + f.Observed
		violate(min, h.Config, h.Mut, f)
	}
	res.Write(flags.Out)
}

// deepStage: nesting monsters in child processes.
func deepStage(r *lib.RNG, scratch string) {
	n := flags.Scale(40, 330)
	inputs := deepInputs(r, n, 5000)
	cfgs := []Config{{Kind: "bare"}, {Kind: "srcmod-body"}}
	type job struct {
		src []byte
		cfg Config
	}
	var jobs []job
	for i, in := range inputs {
		jobs = append(jobs, job{in, cfgs[0]})
		if i%3 == 0 {
			jobs = append(jobs, job{in, cfgs[1]})
		}
	}
	// O45: about 1 MB of one opening token (or of one chain) exhausted the goroutine stack in the recursive-descent
	// parser / the compiler's tree walk: a fatal error no recover() can catch. Every shape, bare; two as module bodies.
	for i, in := range megaInputs(flags.Thorough()) {
		jobs = append(jobs, job{in, cfgs[0]})
		if i < 2 {
			jobs = append(jobs, job{in, cfgs[1]})
		}
	}
	outs := make([][]Finding, len(jobs))
	var wg sync.WaitGroup
	sem := make(chan struct{}, 4)
	for i := range jobs {
		wg.Add(1)
		sem <- struct{}{}
		go func(i int) {
			defer wg.Done()
			defer func() { <-sem }()
			dir := fmt.Sprintf("%s/w%d", scratch, i%4)
			outs[i], _ = runChild(jobs[i].src, jobs[i].cfg, dir, 40*time.Second)
		}(i)
	}
	wg.Wait()
	seen := map[string]bool{}
	for i, fs := range outs {
		res.Count("deep:"+jobs[i].cfg.Kind, string(jobs[i].src)+jobs[i].cfg.String(), true)
		for _, f := range fs {
			res.Dist("deep-finding:" + f.Kind)
			if seen[f.Sig] {
				continue
			}
			seen[f.Sig] = true
			src := jobs[i].src
			if f.Kind == "hang" || f.Kind == "fatal" {
				src = minimiseChild(src, jobs[i].cfg, fmt.Sprintf("%s/w0", scratch), f.Sig, 20*time.Second)
			}
			res.Violate(lib.Violation{Signature: f.Sig, Stream: "deep:" + jobs[i].cfg.Kind, Input: replayInput{encSrc(src), jobs[i].cfg, "deep-nesting"},
				Observed: clip(f.Observed, 600), Expected: "a result or an error value",
				Oracle: "nesting depth up to 5000 (and the 1 MB nesting shapes of O45) must not panic, overflow the stack or hang (> 40 s)"})
		}
	}
}

// runStage: compiled scripts are also run (context-aware path, side-effect-free modules) in child processes.
// A Go panic escaping RunContext is reported; a death of the process while RUNNING belongs to C05 and is only
// recorded.
func runStage(cands [][]byte, scratch string) {
	n := flags.Scale(120, 1200)
	if len(cands) > n {
		cands = cands[:n]
	}
	var mu sync.Mutex
	var wg sync.WaitGroup
	sem := make(chan struct{}, 4)
	deaths := []string{}
	for i := range cands {
		wg.Add(1)
		sem <- struct{}{}
		go func(i int) {
			defer wg.Done()
			defer func() { <-sem }()
			cfg := Config{Kind: "script", Run: true}
			fs, feats := runChild(cands[i], cfg, fmt.Sprintf("%s/w%d", scratch, i%4), 20*time.Second)
			mu.Lock()
			defer mu.Unlock()
			res.Count("run", string(cands[i]), true)
			for _, f := range feats {
				if strings.HasPrefix(f, "run:") {
					res.Dist("run-outcome:" + strings.SplitN(f, ":", 3)[1])
				}
			}
			for _, f := range fs {
				switch {
				case f.Stage == "run" && f.Kind == "panic":
					violate(cands[i], cfg, "run", f)
				case f.Kind == "fatal" || f.Kind == "hang":
					res.Dist("run-stage-process-" + f.Kind)
					if len(deaths) < 5 {
						deaths = append(deaths, encSrc(cands[i])+" => "+f.Observed)
					}
				default:
					violate(cands[i], cfg, "run", f)
				}
			}
		}(i)
	}
	wg.Wait()
	sort.Strings(deaths)
	if len(deaths) > 0 {
		res.Extra["run_stage_process_deaths"] = deaths
	}
}

func replay(path, scratch string, drv *lib.Driver) {
	b, err := os.ReadFile(path)
	if err != nil {
		fatal(err)
	}
	var rp struct {
		Violations []struct {
			Input replayInput `json:"input"`
		} `json:"violations"`
		Obligations []struct {
			Detail string `json:"detail"`
		} `json:"theorem_or_stream"`
	}
	if err := json.Unmarshal(b, &rp); err != nil {
		fatal(err)
	}
	dir := scratch + "/w0"
	_ = os.MkdirAll(dir, 0o700)
	for _, v := range rp.Violations {
		src := decSrc(v.Input.Source)
		if v.Input.Config.Kind == "" {
			continue
		}
		fs, _ := runChild(src, v.Input.Config, dir, 40*time.Second)
		res.Count("replay", v.Input.Source, true)
		for _, f := range fs {
			violate(src, v.Input.Config, v.Input.Mut, f)
		}
	}
	var samples [][]byte
	for _, o := range rp.Obligations {
		var d lib.Disagreement
		if json.Unmarshal([]byte(o.Detail), &d) == nil {
			if m, ok := d.Input.(map[string]interface{}); ok {
				if s, ok := m["source"].(string); ok {
					samples = append(samples, decSrc(s))
				}
			}
		}
	}
	modelStage(drv, samples)
}

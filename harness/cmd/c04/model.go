package main

// Correspondence with the Lean models on arbitrary bytes: token stream and scanner errors (`scan`), parse
// result (`parse`: position-free AST or `error`), line/column of offsets (`c04pos`).

import (
	"fmt"
	"math"
	"strconv"
	"strings"
	"unicode"
	"unicode/utf8"

	"github.com/d5/tengo/v2/parser"
	"github.com/d5/tengo/v2/token"
	"verifharness/lib"
)

type tokRec struct {
	Tok token.Token
	Lit string
	Off int
}

type errRec struct {
	Off int
	Msg string
}

// realScan runs the real scanner to EOF; the returned file has the complete line table.
func realScan(src []byte) (toks []tokRec, errs []errRec, sf *parser.SourceFile, bad string) {
	pv, hung := guard(false, 10e9, func() {
		fs := parser.NewFileSet()
		sf = fs.AddFile("t", -1, len(src))
		s := parser.NewScanner(sf, src, func(pos parser.SourceFilePos, msg string) {
			errs = append(errs, errRec{pos.Offset, msg})
		}, 0)
		for {
			t, lit, pos := s.Scan()
			toks = append(toks, tokRec{t, lit, int(pos) - sf.Base})
			if t == token.EOF || len(toks) > len(src)+3 {
				break
			}
		}
	})
	if hung {
		bad = "timeout"
	} else if pv != "" {
		bad = pv
	}
	return
}

func hexU(msg string) string {
	i := strings.Index(msg, "U+")
	if i < 0 {
		return "?"
	}
	j := i + 2
	for j < len(msg) && strings.ContainsRune("0123456789ABCDEFabcdef", rune(msg[j])) {
		j++
	}
	v, err := strconv.ParseUint(msg[i+2:j], 16, 32)
	if err != nil {
		return "?"
	}
	return strconv.FormatUint(v, 10)
}

func scanMsgClass(msg string) string {
	switch {
	case msg == "illegal character NUL":
		return "nul"
	case msg == "illegal UTF-8 encoding":
		return "utf8"
	case msg == "illegal byte order mark":
		return "bom"
	case strings.HasSuffix(msg, "in escape sequence"):
		return "escIllegalChar:" + hexU(msg)
	case strings.HasPrefix(msg, "illegal character "):
		return "illegalChar:" + hexU(msg)
	case msg == "comment not terminated":
		return "commentNotTerminated"
	case msg == "exponent has no digits":
		return "exponentNoDigits"
	case msg == "unknown escape sequence":
		return "escUnknown"
	case msg == "escape sequence not terminated":
		return "escNotTerminated"
	case msg == "escape sequence is invalid Unicode code point":
		return "escInvalidCodePoint"
	case msg == "rune literal not terminated":
		return "runeNotTerminated"
	case msg == "illegal rune literal":
		return "illegalRune"
	case msg == "string literal not terminated":
		return "stringNotTerminated"
	case msg == "raw string literal not terminated":
		return "rawStringNotTerminated"
	}
	return "other:" + strings.ReplaceAll(msg, " ", "_")
}

func scanString(toks []tokRec, errs []errRec) string {
	var sb strings.Builder
	sb.WriteString("ok (")
	for i, t := range toks {
		if i > 0 {
			sb.WriteByte(' ')
		}
		sb.WriteString("(" + lib.TokName[t.Tok] + " " + lib.HexS(t.Lit) + " " + lib.N(t.Off) + ")")
	}
	sb.WriteString(") (")
	for i, e := range errs {
		if i > 0 {
			sb.WriteByte(' ')
		}
		sb.WriteString("(" + lib.N(e.Off) + " " + scanMsgClass(e.Msg) + ")")
	}
	sb.WriteString(")")
	return sb.String()
}

// oracleTable: the external functions of the model for this source (ParseFloat of the Float tokens, unicode
// classes of the non-ASCII runes).
func oracleTable(src []byte, toks []tokRec) string {
	var items []string
	seen := map[string]bool{}
	for _, t := range toks {
		if t.Tok == token.Float && !seen[t.Lit] {
			seen[t.Lit] = true
			if v, err := strconv.ParseFloat(t.Lit, 64); err == nil {
				items = append(items, "(f "+lib.HexS(t.Lit)+" "+lib.U(math.Float64bits(v))+")")
			}
		}
	}
	seenR := map[rune]bool{}
	for i := 0; i < len(src); {
		r, w := utf8.DecodeRune(src[i:])
		i += w
		if r >= utf8.RuneSelf && !seenR[r] {
			seenR[r] = true
			c := 0
			if unicode.IsLetter(r) {
				c = 1
			} else if unicode.IsDigit(r) {
				c = 2
			}
			if c != 0 {
				items = append(items, "(u "+lib.N(int(r))+" "+lib.N(c)+")")
			}
		}
	}
	return "(" + strings.Join(items, " ") + ")"
}

func modelStage(drv *lib.Driver, samples [][]byte) {
	if drv == nil || len(samples) == 0 {
		return
	}
	drv.Timeout = 120e9
	type q struct {
		stream string
		src    []byte
		want   string
	}
	var lines []string
	var qs []q
	flush := func() {
		if len(lines) == 0 {
			return
		}
		ans, err := drv.Batch(lines)
		if err != nil {
			fatal(fmt.Errorf("driver: %v (after %d answers; next line %.200s)", err, len(ans), lines[len(ans)]))
		}
		for i, a := range ans {
			res.ModelLines++
			if a != qs[i].want {
				res.Disagree(lib.Disagreement{Stream: qs[i].stream, Input: replayInput{Source: encSrc(qs[i].src)},
					Model: clip(a, 1500), Impl: clip(qs[i].want, 1500)})
			}
		}
		lines, qs = nil, nil
	}
	seen := map[uint64]bool{}
	for _, src := range samples {
		k := h64(src, "")
		if seen[k] {
			continue
		}
		seen[k] = true
		toks, errs, sf, bad := realScan(src)
		if bad != "" {
			res.Dist("model:real-scan-failed") // reported by the searcher
			continue
		}
		or := oracleTable(src, toks)
		hx := lib.Hex(src)
		lines = append(lines, "(scan "+hx+" "+or+")")
		qs = append(qs, q{"scan", src, scanString(toks, errs)})
		res.Count("scan", string(src), len(toks) > 2)
		if len(errs) > 0 {
			res.Dist("model:scan-with-errors")
		}

		dump := "error"
		pv, hung := guard(false, 10e9, func() {
			ff, _, err := lib.ParseSource("t", src)
			if err == nil && ff != nil {
				dump = "ok " + lib.ASTDumper{}.File(ff)
			}
		})
		if pv == "" && !hung {
			lines = append(lines, "(parse "+hx+" "+or+")")
			qs = append(qs, q{"parse", src, dump})
			res.Count("parse", string(src), dump != "error")
			if dump == "error" {
				res.Dist("model:parse-error")
			} else {
				res.Dist("model:parse-ok")
			}
		}

		// positions: every scanner error offset, every token offset up to 8, the ends
		offs := []int{0, len(src)}
		for _, e := range errs {
			offs = append(offs, e.Off)
		}
		for i, t := range toks {
			if i%(len(toks)/8+1) == 0 {
				offs = append(offs, t.Off)
			}
		}
		for i, b := range src {
			if b == '\n' && len(offs) < 40 {
				offs = append(offs, i)
				if i+1 <= len(src) {
					offs = append(offs, i+1)
				}
			}
		}
		var os2, ws []string
		ok := true
		for _, o := range offs {
			var p parser.SourceFilePos
			if pv, _ := guard(true, 0, func() { p = sf.Position(sf.FileSetPos(o)) }); pv != "" {
				ok = false
				break
			}
			os2 = append(os2, lib.N(o))
			ws = append(ws, "("+lib.N(p.Line)+" "+lib.N(p.Column)+")")
		}
		if ok {
			lines = append(lines, "(c04pos "+hx+" ("+strings.Join(os2, " ")+"))")
			qs = append(qs, q{"pos", src, "ok " + lib.N(sf.LineCount()) + " (" + strings.Join(ws, " ") + ")"})
			res.Count("pos", string(src), len(offs) > 2)
		}
		if len(lines) >= 192 {
			flush()
		}
	}
	flush()
}

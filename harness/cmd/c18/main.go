// Command c18: correspondence and searchers for C18 (JSON encode/decode round-trips and agrees with
// encoding/json).
//
// Streams
//
//	enc        model `encode` vs real json.Encode, byte for byte (map members sent to the model in the
//	           order the real encoder emitted them; strings may hold invalid UTF-8 here)
//	dec        model `decode` vs real json.Decode on byte strings: same value / same SyntaxError
//	           (offset and message)
//	roundtrip  (searcher) Decode(Encode v) Equals v for representable v
//	enc-oracle (searcher) Encode v is valid for encoding/json and unmarshals (UseNumber) to the same data
//	dec-oracle (searcher) for every byte string: Decode errs iff !json.Valid, never panics, otherwise the
//	           same data with numbers typed int iff no '.', 'e', 'E' (and within int64), float otherwise
//	module     (searcher) the json module's encode/decode as seen by compiled scripts agree with the
//	           direct calls
//
// deep.go adds, on every seed, texts and values nested around the scanner's maxNestingDepth (10000) to
// the dec / dec-oracle and enc / roundtrip / enc-oracle streams.
package main

import (
	"bytes"
	gojson "encoding/json"
	"fmt"
	"math"
	"os"
	"sort"
	"strconv"
	"strings"
	"unicode/utf8"

	"github.com/d5/tengo/v2"
	"github.com/d5/tengo/v2/stdlib"
	tjson "github.com/d5/tengo/v2/stdlib/json"
	"verifharness/lib"
)

type replayInput struct {
	Kind  string `json:"kind"` // "value" | "bytes"
	Value string `json:"value,omitempty"`
	Hex   string `json:"hex,omitempty"`
}

var (
	res      *lib.Result
	drv      *lib.Driver
	thorough bool
)

func fatal(err error) {
	fmt.Fprintln(os.Stderr, "c18:", err)
	os.Exit(3)
}

func clip(s string, n int) string {
	if len(s) > n {
		return s[:n] + "…"
	}
	return s
}

// ---------------------------------------------------------------- value generator

var boundaryInts = []int64{0, 1, -1, 9, 10, -10, 1984, math.MaxInt64, math.MinInt64, math.MaxInt64 - 1, math.MinInt64 + 1,
	1 << 53, -(1 << 53), 1<<53 + 1, -(1<<53 + 1), 1<<53 - 1, 1 << 62, 1000000000000000000, -1000000000000000000,
	7075984636689534001, math.MaxInt32, math.MinInt32, 4294967296}

var boundaryFloats = []float64{0, math.Copysign(0, -1), 1, -1, 1.5, -19.84, 1e20, 1e21, 9.999999999999999e20, 1e-6, 1e-7,
	9.999999999999999e-7, 5e-324, -5e-324, math.MaxFloat64, -math.MaxFloat64, math.SmallestNonzeroFloat64, 1 << 53, -(1 << 53),
	1<<53 + 2, 9223372036854775808.0, -9223372036854775808.0, 9223372036854775807.0, 9.223372036854777e18, 1e19, 9e18,
	123456789, 1e15, 1e16, 1e17, 0.1, 0.30000000000000004, 3.141592653589793, 2.2250738585072014e-308, 1e-9, 1.5e-9, 1.234e-10,
	1e-10, 1e100, 1.7976931348623157e308, 4.9e-324, 100, 1e3, 1e7, 109.4}

var runePool = []rune{0, 1, 8, 9, 10, 12, 13, 0x1b, 0x1c, 0x1f, ' ', '"', '\\', '/', '\'', '<', '>', '&', 'a', 'Z', '0', 0x7f, 0x80, 0xe9,
	0x7ff, 0x800, 0x20ac, 0x2028, 0x2029, 0xd7ff, 0xe000, 0xfffd, 0xffff, 0x10000, 0x1f600, 0x10ffff, 'u', 'n', '{', '}', '[', ']', ':', ','}

func genString(r *lib.RNG, allowInvalid bool) string {
	n := r.Intn(9)
	if r.Chance(1, 12) {
		n = 10 + r.Intn(40)
	}
	var sb strings.Builder
	mode := r.Intn(5)
	for i := 0; i < n; i++ {
		switch {
		case allowInvalid && r.Chance(1, 5):
			sb.WriteByte(lib.Pick(r, []byte{0x80, 0xbf, 0xc0, 0xc1, 0xc2, 0xe0, 0xed, 0xa0, 0xf0, 0xf4, 0x90, 0xf5, 0xff, 0xfe, 0xe2, 0x82}))
		case mode == 0:
			sb.WriteByte(byte('a' + r.Intn(26)))
		case mode == 1:
			sb.WriteRune(lib.Pick(r, runePool))
		case mode == 2:
			sb.WriteByte(byte(r.Intn(128)))
		case mode == 3:
			x := rune(r.Intn(0x110000))
			if x >= 0xd800 && x < 0xe000 {
				x = 0xfffd
			}
			sb.WriteRune(x)
		default:
			if r.Bool() {
				sb.WriteRune(lib.Pick(r, runePool))
			} else {
				sb.WriteByte(byte(0x20 + r.Intn(0x5f)))
			}
		}
	}
	return sb.String()
}

func genFloat(r *lib.RNG) float64 {
	switch r.Intn(6) {
	case 0, 1:
		return lib.Pick(r, boundaryFloats)
	case 2:
		for {
			f := math.Float64frombits(r.U64())
			if !math.IsNaN(f) && !math.IsInf(f, 0) {
				return f
			}
		}
	case 3: // integral floats of every magnitude
		f := math.Trunc(float64(int64(r.U64()>>uint(r.Intn(64)))) * lib.Pick(r, []float64{1, -1, 10, 1000, 1e6}))
		return f
	case 4:
		return float64(r.Intn(2000000)-1000000) / lib.Pick(r, []float64{1, 10, 100, 1000, 1e7, 1e9, 1e12})
	default:
		e := r.Intn(60) - 30
		return float64(1+r.Intn(9999)) * math.Pow(10, float64(e))
	}
}

func genInt(r *lib.RNG) int64 {
	switch r.Intn(4) {
	case 0:
		return lib.Pick(r, boundaryInts)
	case 1:
		return int64(r.Intn(2001) - 1000)
	case 2:
		return int64(r.U64())
	default:
		return int64(r.U64() >> uint(r.Intn(64)))
	}
}

type genOpts struct {
	invalidUTF8 bool
	floats      bool
}

func genValue(r *lib.RNG, depth int, o genOpts) tengo.Object {
	k := r.Intn(10)
	if depth <= 0 && k >= 7 {
		k = r.Intn(7)
	}
	switch k {
	case 0:
		return tengo.UndefinedValue
	case 1:
		if r.Bool() {
			return tengo.TrueValue
		}
		return tengo.FalseValue
	case 2, 3:
		return &tengo.Int{Value: genInt(r)}
	case 4:
		if !o.floats {
			return &tengo.Int{Value: genInt(r)}
		}
		return &tengo.Float{Value: genFloat(r)}
	case 5, 6:
		return &tengo.String{Value: genString(r, o.invalidUTF8)}
	case 7, 8:
		n := r.Intn(5)
		xs := make([]tengo.Object, n)
		for i := range xs {
			xs[i] = genValue(r, depth-1, o)
		}
		if r.Chance(1, 8) {
			return &tengo.ImmutableArray{Value: xs}
		}
		return &tengo.Array{Value: xs}
	default:
		n := r.Intn(5)
		m := map[string]tengo.Object{}
		for i := 0; i < n; i++ {
			// invalid UTF-8 only in single-member maps (member order is read back through encoding/json)
			m[genString(r, o.invalidUTF8 && n == 1)] = genValue(r, depth-1, o)
		}
		if r.Chance(1, 8) {
			return &tengo.ImmutableMap{Value: m}
		}
		return &tengo.Map{Value: m}
	}
}

// ---------------------------------------------------------------- value <-> S-expression

func elems(o tengo.Object) ([]tengo.Object, bool) {
	switch v := o.(type) {
	case *tengo.Array:
		return v.Value, true
	case *tengo.ImmutableArray:
		return v.Value, true
	}
	return nil, false
}

func members(o tengo.Object) (map[string]tengo.Object, bool) {
	switch v := o.(type) {
	case *tengo.Map:
		return v.Value, true
	case *tengo.ImmutableMap:
		return v.Value, true
	}
	return nil, false
}

func sortedKeys(m map[string]tengo.Object) []string {
	ks := make([]string, 0, len(m))
	for k := range m {
		ks = append(ks, k)
	}
	sort.Strings(ks)
	return ks
}

func scalarSexp(o tengo.Object) string {
	switch v := o.(type) {
	case *tengo.Undefined:
		return "u"
	case *tengo.Bool:
		return "(b " + lib.B(!v.IsFalsy()) + ")"
	case *tengo.Int:
		return "(i " + lib.I(v.Value) + ")"
	case *tengo.Float:
		return "(f " + lib.U(math.Float64bits(v.Value)) + ")"
	case *tengo.String:
		return "(s " + lib.HexS(v.Value) + ")"
	}
	return "(other)"
}

// valueSexp renders v for the model; dec (may be nil) is a token reader over the text the real
// encoder produced: map members are listed in the order they appear there.
func valueSexp(v tengo.Object, dec *gojson.Decoder) (string, bool) {
	okAll := true
	tok := func() gojson.Token {
		if dec == nil {
			return nil
		}
		t, err := dec.Token()
		if err != nil {
			dec = nil
			okAll = false
			return nil
		}
		return t
	}
	var rec func(v tengo.Object) string
	rec = func(v tengo.Object) string {
		if xs, ok := elems(v); ok {
			tok()
			var sb strings.Builder
			sb.WriteString("(a")
			for _, x := range xs {
				sb.WriteByte(' ')
				sb.WriteString(rec(x))
			}
			tok()
			sb.WriteByte(')')
			return sb.String()
		}
		if m, ok := members(v); ok {
			tok()
			var sb strings.Builder
			sb.WriteString("(m")
			var order []string
			if dec == nil || len(m) <= 1 {
				order = sortedKeys(m)
			}
			for i := 0; i < len(m); i++ {
				var k string
				if order != nil {
					k = order[i]
					tok()
				} else {
					t := tok()
					ks, isStr := t.(string)
					if _, has := m[ks]; !isStr || !has {
						// the text does not list the members of m: fall back to sorted order
						okAll = false
						dec = nil
						sb.Reset()
						sb.WriteString("(m")
						for _, k2 := range sortedKeys(m) {
							sb.WriteString(" (" + lib.HexS(k2) + " " + rec(m[k2]) + ")")
						}
						sb.WriteByte(')')
						return sb.String()
					}
					k = ks
				}
				sb.WriteString(" (" + lib.HexS(k) + " " + rec(m[k]) + ")")
			}
			tok()
			sb.WriteByte(')')
			return sb.String()
		}
		tok()
		return scalarSexp(v)
	}
	s := rec(v)
	return s, okAll
}

// canonValue renders a decoded value in the model's answer syntax (maps sorted by key).
func canonValue(o tengo.Object) string {
	if xs, ok := elems(o); ok {
		var sb strings.Builder
		sb.WriteString("(a")
		for _, x := range xs {
			sb.WriteByte(' ')
			sb.WriteString(canonValue(x))
		}
		sb.WriteByte(')')
		return sb.String()
	}
	if m, ok := members(o); ok {
		var sb strings.Builder
		sb.WriteString("(m")
		for _, k := range sortedKeys(m) {
			sb.WriteString(" (" + lib.HexS(k) + " " + canonValue(m[k]) + ")")
		}
		sb.WriteByte(')')
		return sb.String()
	}
	return scalarSexp(o)
}

// fromSexp rebuilds a value from its S-expression (replays).
func fromSexp(x interface{}) (tengo.Object, error) {
	if s, ok := x.(string); ok {
		if s == "u" {
			return tengo.UndefinedValue, nil
		}
		return nil, fmt.Errorf("bad atom %q", s)
	}
	l, ok := x.([]interface{})
	if !ok || len(l) == 0 {
		return nil, fmt.Errorf("bad value")
	}
	head, _ := l[0].(string)
	arg := func() string {
		if len(l) == 2 {
			s, _ := l[1].(string)
			return s
		}
		return ""
	}
	unhex := func(s string) string {
		var b []byte
		fmt.Sscanf(strings.TrimPrefix(s, "#"), "%x", &b)
		return string(b)
	}
	switch head {
	case "b":
		if arg() == "1" {
			return tengo.TrueValue, nil
		}
		return tengo.FalseValue, nil
	case "i":
		n, err := strconv.ParseInt(arg(), 10, 64)
		return &tengo.Int{Value: n}, err
	case "f":
		n, err := strconv.ParseUint(arg(), 10, 64)
		return &tengo.Float{Value: math.Float64frombits(n)}, err
	case "s":
		return &tengo.String{Value: unhex(arg())}, nil
	case "a":
		xs := []tengo.Object{}
		for _, e := range l[1:] {
			v, err := fromSexp(e)
			if err != nil {
				return nil, err
			}
			xs = append(xs, v)
		}
		return &tengo.Array{Value: xs}, nil
	case "m":
		m := map[string]tengo.Object{}
		for _, e := range l[1:] {
			kv, ok := e.([]interface{})
			if !ok || len(kv) != 2 {
				return nil, fmt.Errorf("bad member")
			}
			ks, _ := kv[0].(string)
			v, err := fromSexp(kv[1])
			if err != nil {
				return nil, err
			}
			m[unhex(ks)] = v
		}
		return &tengo.Map{Value: m}, nil
	}
	return nil, fmt.Errorf("bad head %q", head)
}

// ---------------------------------------------------------------- features of a value

type feat struct {
	floats, escapes, nonASCII, invalid, nested, bigInt, multiMap bool
}

func features(o tengo.Object, depth int, f *feat, fl *[]float64) {
	switch v := o.(type) {
	case *tengo.Float:
		f.floats = true
		*fl = append(*fl, v.Value)
	case *tengo.Int:
		if v.Value > 1<<53 || v.Value < -(1<<53) {
			f.bigInt = true
		}
	case *tengo.String:
		strFeat(v.Value, f)
	}
	if xs, ok := elems(o); ok {
		if depth >= 1 {
			f.nested = true
		}
		for _, x := range xs {
			features(x, depth+1, f, fl)
		}
	}
	if m, ok := members(o); ok {
		if depth >= 1 {
			f.nested = true
		}
		if len(m) > 1 {
			f.multiMap = true
		}
		for k, x := range m {
			strFeat(k, f)
			features(x, depth+1, f, fl)
		}
	}
}

func strFeat(s string, f *feat) {
	if !utf8.ValidString(s) {
		f.invalid = true
	}
	for i := 0; i < len(s); i++ {
		c := s[i]
		if c < 0x20 || c == '"' || c == '\\' {
			f.escapes = true
		}
		if c >= 0x80 {
			f.nonASCII = true
		}
	}
}

// ---------------------------------------------------------------- comparing with encoding/json data

func goUnmarshal(text []byte) (interface{}, error) {
	d := gojson.NewDecoder(bytes.NewReader(text))
	d.UseNumber()
	var g interface{}
	if err := d.Decode(&g); err != nil {
		return nil, err
	}
	return g, nil
}

// numberMatches: does the tengo number o carry the data of the JSON number text n, typed by the
// stated rule (int iff no '.', 'e', 'E'; beyond int64 the current code keeps the magnitude as a float)?
func decodedNumberOK(n string, o tengo.Object) (bool, string) {
	pf := func() float64 { f, _ := strconv.ParseFloat(n, 64); return f }
	if !strings.ContainsAny(n, ".eE") {
		if i, err := strconv.ParseInt(n, 10, 64); err == nil {
			v, ok := o.(*tengo.Int)
			return ok && v.Value == i, "int " + n
		}
		v, ok := o.(*tengo.Float)
		return ok && math.Float64bits(v.Value) == math.Float64bits(pf()), "float (beyond int64) " + n
	}
	v, ok := o.(*tengo.Float)
	return ok && math.Float64bits(v.Value) == math.Float64bits(pf()), "float " + n
}

// encodedNumberOK: does the JSON number text n denote the tengo number o?
func encodedNumberOK(n string, o tengo.Object) bool {
	switch v := o.(type) {
	case *tengo.Int:
		i, err := strconv.ParseInt(n, 10, 64)
		return err == nil && i == v.Value
	case *tengo.Float:
		f, err := strconv.ParseFloat(n, 64)
		return err == nil && (f == v.Value) && math.Signbit(f) == math.Signbit(v.Value)
	}
	return false
}

// sameData compares what encoding/json read (g) with a tengo value. decoded selects the number rule.
func sameData(g interface{}, o tengo.Object, decoded bool) (bool, string) {
	switch x := g.(type) {
	case nil:
		return o == tengo.UndefinedValue, "null"
	case bool:
		b, ok := o.(*tengo.Bool)
		return ok && b.IsFalsy() == !x, "bool"
	case gojson.Number:
		if decoded {
			return decodedNumberOK(string(x), o)
		}
		return encodedNumberOK(string(x), o), "number " + string(x)
	case string:
		s, ok := o.(*tengo.String)
		return ok && s.Value == x, "string"
	case []interface{}:
		xs, ok := elems(o)
		if !ok || len(xs) != len(x) {
			return false, "array length"
		}
		for i := range x {
			if ok, why := sameData(x[i], xs[i], decoded); !ok {
				return false, why
			}
		}
		return true, ""
	case map[string]interface{}:
		m, ok := members(o)
		if !ok || len(m) != len(x) {
			return false, "object size"
		}
		for k, gv := range x {
			tv, has := m[k]
			if !has {
				return false, "missing key"
			}
			if ok, why := sameData(gv, tv, decoded); !ok {
				return false, why
			}
		}
		return true, ""
	}
	return false, "unknown"
}

// ---------------------------------------------------------------- real code, guarded

func realEncode(v tengo.Object) (out []byte, err error, pan string) {
	defer func() {
		if p := recover(); p != nil {
			pan = fmt.Sprint(p)
		}
	}()
	out, err = tjson.Encode(v)
	return
}

func realDecode(b []byte) (o tengo.Object, err error, pan string) {
	defer func() {
		if p := recover(); p != nil {
			pan = fmt.Sprint(p)
		}
	}()
	o, err = tjson.Decode(b)
	return
}

// quoteChar of scanner.go (strconv.Quote is external to the model).
func quoteChar(c byte) string {
	if c == '\'' {
		return `'\''`
	}
	if c == '"' {
		return `'"'`
	}
	s := strconv.Quote(string(rune(c))) // Go's string(c) of a byte converts the byte value as a rune
	return "'" + s[1:len(s)-1] + "'"
}

// ---------------------------------------------------------------- checks on one value

type pending struct {
	line  string
	want  string
	input replayInput
	strm  string
}

var queue []pending

func ask(strm, line, want string, in replayInput) {
	if drv == nil {
		return
	}
	queue = append(queue, pending{line, want, in, strm})
	if len(queue) >= 256 {
		flushDec()
	}
}

func floatOracleEnc(fl []float64) string {
	seen := map[uint64]bool{}
	var sb strings.Builder
	sb.WriteByte('(')
	for _, f := range fl {
		b := math.Float64bits(f)
		if seen[b] {
			continue
		}
		seen[b] = true
		if sb.Len() > 1 {
			sb.WriteByte(' ')
		}
		sb.WriteString("(" + lib.U(b) + " " + lib.Hex(strconv.AppendFloat(nil, f, 'f', -1, 64)) + " " + lib.Hex(strconv.AppendFloat(nil, f, 'e', -1, 64)) + ")")
	}
	sb.WriteByte(')')
	return sb.String()
}

func isNumByte(c byte) bool {
	return c >= '0' && c <= '9' || c == '-' || c == '+' || c == '.' || c == 'e' || c == 'E'
}

// floatOracleDec lists strconv.ParseFloat for every maximal run of number bytes of the input (a
// number token of a valid text is such a run).
func floatOracleDec(b []byte) string {
	seen := map[string]bool{}
	var sb strings.Builder
	sb.WriteByte('(')
	n := 0
	for i := 0; i < len(b); {
		if !isNumByte(b[i]) {
			i++
			continue
		}
		j := i
		for j < len(b) && isNumByte(b[j]) {
			j++
		}
		t := string(b[i:j])
		i = j
		if seen[t] || n >= 400 {
			continue
		}
		seen[t] = true
		f, err := strconv.ParseFloat(t, 64)
		if err != nil && !math.IsInf(f, 0) {
			continue // not a number token
		}
		if sb.Len() > 1 {
			sb.WriteByte(' ')
		}
		sb.WriteString("(" + lib.HexS(t) + " " + lib.U(math.Float64bits(f)) + ")")
		n++
	}
	sb.WriteByte(')')
	return sb.String()
}

func checkValue(v tengo.Object) {
	var f feat
	var fl []float64
	features(v, 0, &f, &fl)
	sorted, _ := valueSexp(v, nil)
	in := replayInput{Kind: "value", Value: sorted}
	nontrivial := f.floats || f.escapes || f.nonASCII || f.nested || f.bigInt
	res.Count("enc", sorted, nontrivial)
	for _, kv := range []struct {
		k string
		b bool
	}{{"value:floats", f.floats}, {"value:escapes", f.escapes}, {"value:non-ascii", f.nonASCII}, {"value:invalid-utf8", f.invalid},
		{"value:nested", f.nested}, {"value:big-int", f.bigInt}, {"value:multi-key-map", f.multiMap}} {
		if kv.b {
			res.Dist(kv.k)
		}
	}
	text, err, pan := realEncode(v)
	if pan != "" {
		res.Violate(lib.Violation{Signature: "encode-panics", Stream: "roundtrip", Input: in, Observed: "panic: " + pan, Expected: "no panic", Oracle: "json.Encode"})
		return
	}
	if err != nil {
		res.Violate(lib.Violation{Signature: "encode-error-on-representable-value", Stream: "roundtrip", Input: in, Observed: err.Error(),
			Expected: "encoding", Oracle: "json.Encode of a value built from int, finite float, string, bool, undefined, arrays, maps"})
		return
	}
	// correspondence: byte-identical text
	ordered, ok := valueSexp(v, gojson.NewDecoder(bytes.NewReader(text)))
	if !ok {
		res.Dist("enc:member-order-unreadable")
	}
	ask("enc", lib.L("json-enc", ordered, floatOracleEnc(fl)), "ok "+lib.Hex(text), in)
	if f.escapes && f.nested && f.floats {
		res.Sample(map[string]interface{}{"stream": "enc", "value": clip(sorted, 300), "text": clip(string(text), 300)}, 3)
	}
	if f.invalid {
		// outside the property's quantifier (not JSON-representable); correspondence of decode only
		checkBytes(text, false, "encoded-invalid-utf8")
		return
	}
	// searcher 1: Decode(Encode v) Equals v
	res.Count("roundtrip", sorted, nontrivial)
	back, derr, pan := realDecode(text)
	switch {
	case pan != "":
		res.Violate(lib.Violation{Signature: "decode-panics-on-encoded-value", Stream: "roundtrip", Input: in, Observed: "panic: " + pan,
			Expected: "a value", Oracle: "json.Decode(json.Encode(v))"})
	case derr != nil:
		res.Violate(lib.Violation{Signature: "decode-rejects-encoded-value", Stream: "roundtrip", Input: in,
			Observed: derr.Error() + " on " + clip(string(text), 200), Expected: "a value", Oracle: "json.Decode(json.Encode(v))"})
	case !back.Equals(v):
		res.Violate(lib.Violation{Signature: "roundtrip-not-equal", Stream: "roundtrip", Input: in,
			Observed: clip(canonValue(back), 400) + " from " + clip(string(text), 200), Expected: clip(sorted, 400),
			Oracle: "Decode(Encode(v)).Equals(v) (tengo equality: int and float compare numerically)"})
	}
	// searcher 2: encoding/json accepts the text and reads the same data
	res.Count("enc-oracle", sorted, nontrivial)
	if !gojson.Valid(text) {
		res.Violate(lib.Violation{Signature: "encoding-not-valid-json", Stream: "enc-oracle", Input: in, Observed: clip(string(text), 300),
			Expected: "valid JSON", Oracle: "encoding/json.Valid"})
	} else if g, err := goUnmarshal(text); err != nil {
		res.Violate(lib.Violation{Signature: "encoding-not-readable-by-encoding-json", Stream: "enc-oracle", Input: in,
			Observed: err.Error(), Expected: "unmarshals", Oracle: "encoding/json Decoder.UseNumber"})
	} else if ok, why := sameData(g, v, false); !ok {
		res.Violate(lib.Violation{Signature: "encoding-read-as-different-data", Stream: "enc-oracle", Input: in,
			Observed: clip(string(text), 300) + " (" + why + ")", Expected: clip(sorted, 300), Oracle: "encoding/json unmarshal (UseNumber) vs the value"})
	}
	// the decoder side on the same text
	checkBytes(text, false, "encoded")
}

// ---------------------------------------------------------------- checks on one byte string

func checkBytes(b []byte, count bool, origin string) {
	in := replayInput{Kind: "bytes", Hex: lib.Hex(b)}
	valid := gojson.Valid(b)
	o, err, pan := realDecode(b)
	if count {
		nontrivial := valid
		if se, ok := err.(*tjson.SyntaxError); ok && se.Offset > 1 {
			nontrivial = true
		}
		res.Count("dec", in.Hex, nontrivial)
		res.Count("dec-oracle", in.Hex, nontrivial)
		res.Dist("bytes:" + origin)
		if valid {
			res.Dist("bytes:valid")
		} else {
			res.Dist("bytes:invalid")
		}
	}
	if pan != "" {
		res.Violate(lib.Violation{Signature: "decode-panics", Stream: "dec-oracle", Input: in, Observed: "panic: " + pan,
			Expected: "value or error", Oracle: "json.Decode never panics"})
		ask("dec", lib.L("json-dec", in.Hex, floatOracleDec(b)), "panic", in)
		return
	}
	if (err != nil) == valid {
		obs := "accepted"
		if err != nil {
			obs = "rejected: " + err.Error()
		}
		res.Violate(lib.Violation{Signature: "decode-validity-differs-from-encoding-json", Stream: "dec-oracle", Input: in, Observed: obs,
			Expected: fmt.Sprintf("json.Valid = %v", valid), Oracle: "Decode fails exactly when encoding/json.Valid is false"})
	}
	var want string
	if err != nil {
		se, ok := err.(*tjson.SyntaxError)
		if !ok {
			want = "error-of-other-type " + err.Error()
		} else {
			want = "syntax-error " + lib.I(se.Offset) + " " + lib.HexS(se.Error())
		}
	} else {
		want = "ok " + canonValue(o)
		if valid {
			if g, gerr := goUnmarshal(b); gerr != nil {
				res.Dist("bytes:encoding-json-unmarshal-error")
			} else if ok, why := sameData(g, o, true); !ok {
				res.Violate(lib.Violation{Signature: "decoded-data-differs-from-encoding-json", Stream: "dec-oracle", Input: in,
					Observed: clip(canonValue(o), 300) + " (" + why + ")", Expected: "the data encoding/json reads, numbers typed by the stated rule",
					Oracle: "encoding/json unmarshal (UseNumber)"})
			}
		}
	}
	if drv != nil {
		queueDec(b, want, in)
	}
	if count && len(b) > 12 && origin != "corpus" {
		res.Sample(map[string]interface{}{"stream": "dec", "origin": origin, "bytes": clip(string(b), 120), "outcome": clip(want, 200)}, 8)
	}
}

// queueDec asks the model; its `syntax off byte ctx` answer is turned into the message scanner.go
// builds (quoteChar is strconv-based, external to the model).
func queueDec(b []byte, want string, in replayInput) {
	queue = append(queue, pending{lib.L("json-dec", in.Hex, floatOracleDec(b)), want, in, "dec"})
	if len(queue) >= 256 {
		flushDec()
	}
}

func normaliseModel(ans string) string {
	if !strings.HasPrefix(ans, "syntax ") {
		return ans
	}
	p := strings.Fields(ans)
	if len(p) != 4 {
		return ans
	}
	var ctx []byte
	fmt.Sscanf(strings.TrimPrefix(p[3], "#"), "%x", &ctx)
	bad, _ := strconv.Atoi(p[2])
	msg := string(ctx)
	if bad >= 0 {
		msg = "invalid character " + quoteChar(byte(bad)) + " " + string(ctx)
	}
	return "syntax-error " + p[1] + " " + lib.HexS(msg)
}

func flushDec() {
	if drv == nil || len(queue) == 0 {
		queue = queue[:0]
		return
	}
	lines := make([]string, len(queue))
	for i, p := range queue {
		lines[i] = p.line
	}
	ans, err := drv.Batch(lines)
	if err != nil {
		fatal(err)
	}
	for i, p := range queue {
		res.ModelLines++
		got := ans[i]
		if p.strm == "dec" {
			got = normaliseModel(got)
		}
		if got != p.want {
			res.Disagree(lib.Disagreement{Stream: p.strm, Input: p.input, Model: clip(got, 700), Impl: clip(p.want, 700)})
		}
	}
	queue = queue[:0]
}

// ---------------------------------------------------------------- decoder input generators

var wsPool = []string{"", "", "", " ", "\n", "\t", "\r", "  ", " \n\t"}

func ws(r *lib.RNG) string { return lib.Pick(r, wsPool) }

var numberPool = []string{"0", "-0", "1", "-1", "10", "123", "0.0", "-0.0", "0.5", "1.0", "1.5", "3.14", "1e5", "1E5", "1e+5", "1E+5", "1e-5",
	"1E-5", "1.5e3", "0e0", "0E-0", "-1.25e-7", "1e20", "1e21", "1e22", "1e308", "1e309", "1e999", "-1e999", "1e-400", "5e-324", "2.5e-324",
	"9223372036854775807", "9223372036854775808", "-9223372036854775808", "-9223372036854775809", "18446744073709551615",
	"18446744073709551616", "100000000000000000000", "-100000000000000000000", "9007199254740992", "9007199254740993",
	"123456789012345678901234567890", "0.1", "0.30000000000000004", "1.7976931348623157e308", "1.7976931348623159e308",
	"4.9406564584124654e-324", "2.2250738585072011e-308", "1234567890.0987654321", "1e00", "1e01", "1.0e+00", "0.000001", "0.0000001",
	"1000000000000000000000", "999999999999999999999", "12e0", "7075984636689534001"}

func genNumberText(r *lib.RNG) string {
	if r.Chance(3, 5) {
		return lib.Pick(r, numberPool)
	}
	var sb strings.Builder
	if r.Bool() {
		sb.WriteByte('-')
	}
	if r.Chance(1, 4) {
		sb.WriteByte('0')
	} else {
		sb.WriteByte(byte('1' + r.Intn(9)))
		for n := r.Intn(22); n > 0; n-- {
			sb.WriteByte(byte('0' + r.Intn(10)))
		}
	}
	if r.Chance(1, 3) {
		sb.WriteByte('.')
		for n := 1 + r.Intn(6); n > 0; n-- {
			sb.WriteByte(byte('0' + r.Intn(10)))
		}
	}
	if r.Chance(1, 3) {
		sb.WriteByte(lib.Pick(r, []byte{'e', 'E'}))
		sb.WriteString(lib.Pick(r, []string{"", "+", "-"}))
		for n := 1 + r.Intn(3); n > 0; n-- {
			sb.WriteByte(byte('0' + r.Intn(10)))
		}
	}
	return sb.String()
}

var escapePool = []string{"\\\"", "\\\\", "\\/", "\\b", "\\f", "\\n", "\\r", "\\t", "\\u0000", "\\u001f", "\\u0041", "\\u00e9", "\\u00E9", "\\u20ac", "\\u20AC", "\\ufffd", "\\uFFFD", "\\uffff", "\\ud83d\\ude00", "\\uD83D\\uDE00", "\\ud83D\\uDe00", "\\ud800", "\\udfff", "\\udc00", "\\ud800\\u0041", "\\ud800\\ud800", "\\udbff\\udfff", "\\ud800\\udc00", "\\ud83d\\n", "\\ud83dx", "\\ud83d\\\\", "\\uDBFF", " ", "\\u007f", "\\u0080", "\\uabcd", "\\uABCD", "\\uAbCd", "\\u2028", "\\ude00\\ud83d"}

func genStringText(r *lib.RNG) string {
	var sb strings.Builder
	sb.WriteByte('"')
	n := r.Intn(7)
	for i := 0; i < n; i++ {
		switch r.Intn(8) {
		case 0, 1:
			sb.WriteString(lib.Pick(r, escapePool))
		case 2:
			sb.WriteString(string(lib.Pick(r, []rune{0xe9, 0x20ac, 0x1f600, 0x7f, 0x80, 0x7ff, 0x800, 0xffff, 0x10000, 0x10ffff, 0xfffd, 0x2028})))
		case 3: // raw bytes that are not valid UTF-8 (valid for the scanner, replaced by the decoder)
			sb.WriteByte(lib.Pick(r, []byte{0x80, 0xbf, 0xc0, 0xc2, 0xe0, 0xed, 0xf0, 0xf4, 0xf5, 0xff, 0xa0, 0x90}))
		case 4:
			sb.WriteByte(lib.Pick(r, []byte{' ', '\'', '/', '<', '>', '&', '{', '}', '[', ']', ':', ',', 'u', 'e', 'E', '.', '0', '-'}))
		default:
			sb.WriteByte(byte('a' + r.Intn(26)))
		}
	}
	sb.WriteByte('"')
	return sb.String()
}

func genText(r *lib.RNG, depth int) string {
	k := r.Intn(10)
	if depth <= 0 && k >= 7 {
		k = r.Intn(7)
	}
	switch k {
	case 0:
		return lib.Pick(r, []string{"null", "true", "false"})
	case 1, 2, 3:
		return genNumberText(r)
	case 4, 5, 6:
		return genStringText(r)
	case 7, 8:
		var sb strings.Builder
		sb.WriteByte('[')
		n := r.Intn(5)
		sb.WriteString(ws(r))
		for i := 0; i < n; i++ {
			if i > 0 {
				sb.WriteString("," + ws(r))
			}
			sb.WriteString(genText(r, depth-1) + ws(r))
		}
		sb.WriteByte(']')
		return sb.String()
	default:
		var sb strings.Builder
		sb.WriteByte('{')
		n := r.Intn(5)
		sb.WriteString(ws(r))
		for i := 0; i < n; i++ {
			if i > 0 {
				sb.WriteString("," + ws(r))
			}
			key := genStringText(r)
			if r.Chance(1, 6) {
				key = lib.Pick(r, []string{`"a"`, `"a"`, `""`, `"k"`})
			}
			sb.WriteString(key + ws(r) + ":" + ws(r) + genText(r, depth-1) + ws(r))
		}
		sb.WriteByte('}')
		return sb.String()
	}
}

var mutAlphabet = []byte("{}[]:,\"\\/ \n\t\r-+.eE0123456789truefalsnul'u\x00\x1f\x7f\x80\xc3\xa9\xff")

func mutate(r *lib.RNG, s []byte) []byte {
	b := append([]byte{}, s...)
	for n := 1 + r.Intn(2); n > 0; n-- {
		switch op := r.Intn(6); {
		case len(b) == 0 || op == 0:
			i := r.Intn(len(b) + 1)
			b = append(b[:i], append([]byte{lib.Pick(r, mutAlphabet)}, b[i:]...)...)
		case op == 1:
			i := r.Intn(len(b))
			b = append(b[:i], b[i+1:]...)
		case op == 2:
			b[r.Intn(len(b))] = lib.Pick(r, mutAlphabet)
		case op == 3:
			b = b[:r.Intn(len(b)+1)]
		case op == 4:
			i, j := r.Intn(len(b)), r.Intn(len(b))
			b[i], b[j] = b[j], b[i]
		default:
			i := r.Intn(len(b))
			b = append(b[:i], append([]byte{b[i]}, b[i:]...)...)
		}
	}
	return b
}

func genArbitrary(r *lib.RNG) []byte {
	n := r.Intn(14)
	b := make([]byte, n)
	jsonish := r.Chance(3, 4)
	for i := range b {
		if jsonish {
			b[i] = lib.Pick(r, mutAlphabet)
		} else {
			b[i] = byte(r.U64())
		}
	}
	return b
}

func genDeep(r *lib.RNG, max int) []byte {
	d := 1 + r.Intn(max)
	var sb strings.Builder
	kind := r.Intn(3)
	for i := 0; i < d; i++ {
		if kind == 0 || kind == 2 && i%2 == 0 {
			sb.WriteByte('[')
		} else {
			sb.WriteString(`{"k":`)
		}
	}
	sb.WriteString(lib.Pick(r, []string{"1", "", "null", `"x"`, "[]", "{}"}))
	closers := d
	if r.Chance(1, 5) {
		closers = d - 1 + r.Intn(3)
	}
	for i := d - 1; i >= 0 && closers > 0; i, closers = i-1, closers-1 {
		if kind == 0 || kind == 2 && i%2 == 0 {
			sb.WriteByte(']')
		} else {
			sb.WriteByte('}')
		}
	}
	return []byte(sb.String())
}

// ---------------------------------------------------------------- the json module through scripts

var moduleScript = []byte(`
json := import("json")
enc := json.encode(v)
dec := json.decode(inp)
encok := !is_error(enc)
back := encok ? json.decode(enc) : undefined
decs := json.decode(string(inp))
`)

func checkModule(v tengo.Object, inp []byte) {
	vs, _ := valueSexp(v, nil)
	in := replayInput{Kind: "value", Value: vs, Hex: lib.Hex(inp)}
	res.Count("module", vs+in.Hex, true)
	s := tengo.NewScript(moduleScript)
	s.SetImports(stdlib.GetModuleMap("json"))
	_ = s.Add("v", v)
	_ = s.Add("inp", &tengo.Bytes{Value: inp})
	var c *tengo.Compiled
	var err error
	g := lib.Guard(10e9, func() { c, err = s.Run() })
	if g.Panicked || g.TimedOut || err != nil {
		res.Violate(lib.Violation{Signature: "json-module-script-fails", Stream: "module", Input: in,
			Observed: fmt.Sprint(g.PanicVal, err), Expected: "script runs", Oracle: "compiled script calling json.encode/json.decode"})
		return
	}
	// decode through the module == direct Decode
	direct := func(b []byte) string {
		o, err, pan := realDecode(b)
		if pan != "" {
			return "panic"
		}
		if err != nil {
			return "(e (s " + lib.HexS(err.Error()) + "))"
		}
		return canonValue(o)
	}
	canonM := func(o tengo.Object) string {
		if e, ok := o.(*tengo.Error); ok {
			return "(e " + canonValue(e.Value) + ")"
		}
		return canonValue(o)
	}
	want := direct(inp)
	for _, name := range []string{"dec", "decs"} {
		if got := canonM(c.Get(name).Object()); got != want {
			res.Violate(lib.Violation{Signature: "json-module-decode-differs-from-Decode", Stream: "module", Input: in,
				Observed: clip(got, 300), Expected: clip(want, 300), Oracle: "json.decode(bytes|string) in a script vs json.Decode"})
		}
	}
	text, eerr, _ := realEncode(v)
	enc := c.Get("enc").Object()
	if eerr != nil {
		if _, isErr := enc.(*tengo.Error); !isErr {
			res.Violate(lib.Violation{Signature: "json-module-encode-differs-from-Encode", Stream: "module", Input: in,
				Observed: clip(canonM(enc), 200), Expected: "error " + eerr.Error(), Oracle: "json.encode in a script vs json.Encode"})
		}
		return
	}
	eb, ok := enc.(*tengo.Bytes)
	var f feat
	var fl []float64
	features(v, 0, &f, &fl)
	if !ok || (!f.multiMap && !bytes.Equal(eb.Value, text)) {
		res.Violate(lib.Violation{Signature: "json-module-encode-differs-from-Encode", Stream: "module", Input: in,
			Observed: clip(canonM(enc), 300), Expected: clip(string(text), 300), Oracle: "json.encode in a script vs json.Encode"})
		return
	}
	if f.invalid {
		return
	}
	back := c.Get("back").Object()
	if _, isErr := back.(*tengo.Error); isErr || !back.Equals(v) {
		res.Violate(lib.Violation{Signature: "roundtrip-not-equal", Stream: "module", Input: in, Observed: clip(canonM(back), 300),
			Expected: clip(vs, 300), Oracle: "json.decode(json.encode(v)) == v inside a script"})
	}
}

// ---------------------------------------------------------------- fixed corpus

var corpusTexts = []string{
	"\"\\ud83d\\ude00\"", "\"\\uD83D\\uDE00x\"", "\"\\ud83d\\u0041\"", "\"\\udc00\\ud800\"", "\"\\u00e9\\u20ac\\uFFFF\"", "\"a\\/b\\\\c\\\\\"d\\b\\f\\n\\r\\t\"", "{\"k\\u0041\":[1,2.5e-3,{\"\\n\":null}], \"k2\" : \"\\ud800\"}", "\"\\u12G4\"", "\"\\ud83d\\ude0\"", "[ 1 , 2 ]", "{ \"a\" : 1 , \"b\" : [ ] }",
	`null`, `true`, `false`, `0`, `-0`, `1.0`, `1e5`, `1E5`, `"x"`, `[]`, `{}`, ` [ ] `, "\t{ }\n", `[1,2]`, `{"a":1,"a":2}`,
	`{"b":1,"a":{"c":[null]}}`, `"😀"`, `"\ud83d"`, `"\ude00"`, `"\ud83d😀"`, `"éé"`, "\"\xff\"", "\"\xed\xa0\x80\"",
	"\"\xc0\x80\"", "\"a\x7fb\"", `"\/"`, `"\'"`, `"\x"`, `"\u12"`, `"\u12g4"`, "\"\n\"", `01`, `-`, `-a`, `1.`, `.1`, `1e`, `1e+`, `1.2.3`, `1ee5`, `+1`,
	`[1,]`, `[,1]`, `[1 2]`, `{"a"}`, `{"a":}`, `{"a":1,}`, `{,}`, `{1:2}`, `[`, `]`, `{`, `}`, `"`, `"abc`, `nul`, `nulll`, `tru`, `truee`, `fals`, `t`,
	``, ` `, `1 2`, `1 x`, `{}x`, `[]]`, `[[]`, `9223372036854775807`, `9223372036854775808`, `-9223372036854775808`, `-9223372036854775809`,
	`100000000000000000000`, `1e999`, `-1e999`, `1e-999`, `[1e5,1E5,1.0,10]`, `{"k":1.}`, `[1.e5]`, "1\x00", "\xef\xbb\xbf1", `"\u0000"`,
	`[1.5.]`, `1.5.`, `1.5e`, `1e5.`, `1e5e`, `[1e5e]`, `123e`, `0e`, `0.`, `-0.`, `00`, `-00`, `0x10`, `1_000`, `Infinity`, `NaN`,
}

func corpusValues() []tengo.Object {
	S := func(s string) tengo.Object { return &tengo.String{Value: s} }
	I := func(i int64) tengo.Object { return &tengo.Int{Value: i} }
	F := func(f float64) tengo.Object { return &tengo.Float{Value: f} }
	A := func(xs ...tengo.Object) tengo.Object { return &tengo.Array{Value: xs} }
	out := []tengo.Object{tengo.UndefinedValue, tengo.TrueValue, tengo.FalseValue, S(""), S("foo \"bar\""), S("1\u001C04"), S("çığöşü"),
		S("错误测试"), S("\\"), S("\x00\x01\x1f\x7f"), S("a\nb\rc\td\be\ff"), S("😀\U0010ffff� "), S("</script>&"),
		A(), A(I(0)), A(A(A())), &tengo.Map{Value: map[string]tengo.Object{}},
		&tengo.Map{Value: map[string]tengo.Object{"a": I(0), "b": S("bee"), "arr": A(I(1), F(109.4), tengo.UndefinedValue)}},
		&tengo.Map{Value: map[string]tengo.Object{"": I(1), "\"": I(2), "é": A()}},
		&tengo.ImmutableArray{Value: []tengo.Object{I(1), S("x")}}, &tengo.ImmutableMap{Value: map[string]tengo.Object{"k": F(1)}}}
	for _, i := range boundaryInts {
		out = append(out, I(i))
	}
	for _, f := range boundaryFloats {
		out = append(out, F(f), A(F(f), F(-f)))
	}
	return out
}

// ---------------------------------------------------------------- main

func main() {
	f := lib.ParseFlags()
	res = lib.NewResult("C18", f)
	thorough = f.Thorough()
	var err error
	drv, err = lib.StartDriver(f.Driver)
	if err != nil {
		fatal(err)
	}
	defer drv.Close()
	res.DriverUsed = drv != nil
	res.Rule = "values: random trees over undefined/bool/int/float/string/array/map (immutable variants included) with boundary ints and floats, " +
		"control characters, quotes, backslashes, 2/3/4-byte runes; non-trivial when the value holds a float, a string needing an escape, a " +
		"non-ASCII string, a nested container or an int beyond 2^53. byte strings: generated valid texts (every escape, surrogate forms, raw " +
		"invalid UTF-8, every number form), 1-2 byte mutations of them, JSON-alphabet and arbitrary bytes, deep nesting, and on every seed " +
		"arrays/objects/mixtures nested 9999, 10000, 10001, 10002 and about 20000 deep (closed, unclosed, garbage inside or behind) plus values " +
		"nested exactly 10000 deep through Encode/Decode (the scanner's maxNestingDepth, O34); non-trivial when " +
		"encoding/json accepts the text or the first error lies beyond the first byte. distinct by hash of the canonical value / of the bytes"

	if f.Replay != "" {
		replay(f.Replay)
		flushAll()
		res.Write(f.Out)
		return
	}
	lib.RunProbes(res, "C18", f.Known)

	for _, v := range corpusValues() {
		checkValue(v)
	}
	for _, t := range corpusTexts {
		checkBytes([]byte(t), true, "corpus")
	}
	rng := lib.NewRNG(f.Seed)
	nVal := f.Scale(40000, 1200000)
	for i := 0; i < nVal; i++ {
		r := rng.Fork()
		o := genOpts{floats: true, invalidUTF8: i%10 == 9}
		checkValue(genValue(r, 1+r.Intn(4), o))
	}
	nBytes := f.Scale(100000, 2400000)
	maxDeep := f.Scale(300, 3000)
	for i := 0; i < nBytes; i++ {
		r := rng.Fork()
		switch k := r.Intn(20); {
		case k < 8:
			checkBytes([]byte(ws(r)+genText(r, 1+r.Intn(4))+ws(r)), true, "valid-text")
		case k < 14:
			checkBytes(mutate(r, []byte(ws(r)+genText(r, 1+r.Intn(3))+ws(r))), true, "mutation")
		case k < 19:
			checkBytes(genArbitrary(r), true, "arbitrary")
		default:
			if i%8 == 0 {
				checkBytes(genDeep(r, maxDeep), true, "deep")
			} else {
				checkBytes(genDeep(r, 12), true, "deep")
			}
		}
	}
	// nesting around maxNestingDepth = 10000 (O34), on every seed: texts through dec + dec-oracle, values
	// nested exactly at the limit through enc + roundtrip + enc-oracle
	deepR := rng.Fork()
	nNestTexts := checkDeepNesting(deepR, thorough)
	nNestValues := checkDeepValues(deepR, thorough)
	flushAll()
	nMod := f.Scale(3000, 40000)
	for i := 0; i < nMod; i++ {
		r := rng.Fork()
		var inp []byte
		if r.Bool() {
			inp = []byte(genText(r, 2))
		} else {
			inp = mutate(r, []byte(genText(r, 2)))
		}
		checkModule(genValue(r, 1+r.Intn(3), genOpts{floats: true}), inp)
	}
	checkDeepModule(rng.Fork())
	flushAll()
	res.Extra = map[string]interface{}{"deep_nesting_max": maxDeep, "nest_limit": nestLimit, "nest_limit_texts": nNestTexts,
		"nest_limit_values": nNestValues}
	res.Write(f.Out)
}

func flushAll() { flushDec() }

func replay(path string) {
	b, err := os.ReadFile(path)
	if err != nil {
		fatal(err)
	}
	var rp struct {
		Violations []struct {
			Input replayInput `json:"input"`
		} `json:"violations"`
		Obligations []struct {
			Detail string `json:"detail"`
		} `json:"theorem_or_stream"`
	}
	if err := gojson.Unmarshal(b, &rp); err != nil {
		fatal(err)
	}
	var ins []replayInput
	for _, v := range rp.Violations {
		ins = append(ins, v.Input)
	}
	for _, o := range rp.Obligations {
		var d struct {
			Input replayInput `json:"input"`
		}
		if gojson.Unmarshal([]byte(o.Detail), &d) == nil {
			ins = append(ins, d.Input)
		}
	}
	for _, in := range ins {
		var raw []byte
		fmt.Sscanf(strings.TrimPrefix(in.Hex, "#"), "%x", &raw)
		switch in.Kind {
		case "bytes":
			checkBytes(raw, true, "replay")
		case "value":
			x, err := lib.ParseSexp(in.Value)
			if err != nil {
				continue
			}
			v, err := fromSexp(x)
			if err != nil {
				continue
			}
			checkValue(v)
			if in.Hex != "" {
				checkModule(v, raw)
			}
		}
	}
}

package main

// Nesting around the scanner's limit (scanner.go: maxNestingDepth = 10000, the limit encoding/json has;
// finding O34: the limit was missing). Every seed runs texts nested 9999, 10000, 10001, 10002 and about
// 20000 deep — arrays, objects, mixtures; closed, unclosed, with garbage inside or behind — through the
// model correspondence (`dec`) and the encoding/json oracle (`dec-oracle`), and values nested exactly at
// the limit through Encode/Decode (`enc`, `roundtrip`, `enc-oracle`).

import (
	gojson "encoding/json"
	"strings"

	"github.com/d5/tengo/v2"
	"verifharness/lib"
)

// nestLimit is the depth up to which encoding/json (and the repaired scanner) accept a text.
const nestLimit = 10000

// nestKinds: 0 arrays, 1 objects, 2 array/object alternating, 3 object/array alternating.
const nestKinds = 4

func nestIsArray(kind, level int) bool {
	switch kind {
	case 0:
		return true
	case 1:
		return false
	case 2:
		return level%2 == 0
	default:
		return level%2 == 1
	}
}

type nestSpec struct {
	kind    int
	depth   int    // number of opening brackets/braces
	inner   string // what stands inside the innermost container ("" = empty container)
	closers int    // how many of the depth closers are written
	suffix  string // written after the closers
	spaced  bool   // white space between some tokens
}

// nestText writes the text of a spec. With inner a JSON value (or empty), closers == depth and no suffix
// the text is a JSON text nested exactly depth deep.
func nestText(r *lib.RNG, s nestSpec) []byte {
	var sb strings.Builder
	sp := func() {
		if s.spaced && r.Chance(1, 16) {
			sb.WriteString(lib.Pick(r, []string{" ", "\n", "\t", "\r", "  "}))
		}
	}
	sp()
	for i := 0; i < s.depth; i++ {
		if nestIsArray(s.kind, i) {
			sb.WriteByte('[')
			sp()
		} else {
			sb.WriteByte('{')
			sp()
			if i < s.depth-1 || s.inner != "" {
				sb.WriteString(`"k"`)
				sp()
				sb.WriteByte(':')
				sp()
			}
		}
	}
	sb.WriteString(s.inner)
	for i, n := s.depth-1, s.closers; i >= 0 && n > 0; i, n = i-1, n-1 {
		sp()
		if nestIsArray(s.kind, i) {
			sb.WriteByte(']')
		} else {
			sb.WriteByte('}')
		}
	}
	sb.WriteString(s.suffix)
	return []byte(sb.String())
}

var nestInnerValues = []string{"", "1", "null", `"x"`, "-0.5e1", "true", `"😀"`, "9223372036854775808"}
var nestGarbageInner = []string{"]", "}", "tru", "1 2", ",", "\x00", `"abc`, "01", `{"a"}`, "[,]", ":"}
var nestGarbageSuffix = []string{"]", "}", "x", ",", "[", "1", "\x00", `"`}

func isNestInner(x string) bool {
	for _, v := range nestInnerValues {
		if v == x {
			return true
		}
	}
	return false
}

// nestDepths: the depths every seed covers; the last one is drawn around 20000.
func nestDepths(r *lib.RNG) []int {
	return []int{nestLimit - 1, nestLimit, nestLimit + 1, nestLimit + 2, 19000 + r.Intn(2001)}
}

// checkDeepNesting feeds the texts to checkBytes (model correspondence + encoding/json oracle).
func checkDeepNesting(r *lib.RNG, all bool) int {
	n := 0
	run := func(s nestSpec) {
		b := nestText(r, s)
		form := "closed"
		if s.closers != s.depth {
			form = "unclosed"
		} else if s.suffix != "" || !isNestInner(s.inner) {
			form = "garbage"
		}
		side := "within-limit"
		if s.depth > nestLimit {
			side = "beyond-limit"
		}
		verdict := "invalid"
		if gojson.Valid(b) {
			verdict = "valid"
		}
		res.Dist("nest-limit:" + form + ":" + side + ":encoding/json-" + verdict)
		checkBytes(b, true, "nest-limit")
		n++
	}
	for _, d := range nestDepths(r) {
		// closed, valid up to the limit: every kind (quick: arrays, objects, one alternation)
		kinds := []int{0, 1, 2 + r.Intn(2)}
		if all {
			kinds = []int{0, 1, 2, 3}
		}
		for _, k := range kinds {
			run(nestSpec{kind: k, depth: d, inner: lib.Pick(r, nestInnerValues), closers: d, spaced: r.Chance(1, 3)})
		}
		// unclosed
		forms := 1
		if all {
			forms = 4
		}
		for i := 0; i < forms; i++ {
			closers := lib.Pick(r, []int{0, d - 1, d / 2, r.Intn(d)})
			run(nestSpec{kind: r.Intn(nestKinds), depth: d, inner: lib.Pick(r, nestInnerValues), closers: closers, spaced: r.Chance(1, 3)})
		}
		// garbage inside the innermost container, or behind the closed text
		for i := 0; i < forms; i++ {
			s := nestSpec{kind: r.Intn(nestKinds), depth: d, closers: d, spaced: r.Chance(1, 3)}
			if r.Bool() {
				s.inner = lib.Pick(r, nestGarbageInner)
			} else {
				s.inner = lib.Pick(r, nestInnerValues)
				s.suffix = lib.Pick(r, nestGarbageSuffix)
			}
			run(s)
		}
	}
	// a valid text nested at the limit inside a wider one: siblings do not add depth
	{
		in := string(nestText(r, nestSpec{kind: 0, depth: nestLimit - 1, inner: "1", closers: nestLimit - 1}))
		checkBytes([]byte("["+in+","+in+"]"), true, "nest-limit")
		checkBytes([]byte(`{"a":`+in+`,"b":[`+in+`]}`), true, "nest-limit")
		n += 2
	}
	return n
}

// nestValue builds a value nested exactly depth containers deep (innermost container empty or holding leaf).
func nestValue(kind, depth int, leaf tengo.Object) tengo.Object {
	var v tengo.Object = leaf
	for i := depth - 1; i >= 0; i-- {
		if nestIsArray(kind, i) {
			xs := []tengo.Object{}
			if v != nil {
				xs = append(xs, v)
			}
			v = &tengo.Array{Value: xs}
		} else {
			m := map[string]tengo.Object{}
			if v != nil {
				m["k"] = v
			}
			v = &tengo.Map{Value: m}
		}
	}
	return v
}

// checkDeepValues round-trips values nested exactly at the limit (and one level below) through
// Encode/Decode; a value nested deeper is not JSON-representable for encoding/json either, its encoding
// is covered as a byte string by checkDeepNesting.
func checkDeepValues(r *lib.RNG, all bool) int {
	leaves := []tengo.Object{nil, &tengo.Int{Value: 1}, &tengo.String{Value: "é\n"}, tengo.UndefinedValue, &tengo.Float{Value: 1e21}}
	kinds := []int{0, 1, 2 + r.Intn(2)}
	if all {
		kinds = []int{0, 1, 2, 3}
	}
	n := 0
	for _, k := range kinds {
		checkValue(nestValue(k, nestLimit, lib.Pick(r, leaves)))
		n++
	}
	checkValue(nestValue(r.Intn(nestKinds), nestLimit-1, lib.Pick(r, leaves)))
	n++
	return n
}

// checkDeepModule runs texts at and above the limit through the json module of a compiled script.
func checkDeepModule(r *lib.RNG) {
	for _, d := range []int{nestLimit, nestLimit + 1} {
		text := nestText(r, nestSpec{kind: r.Intn(nestKinds), depth: d, inner: "1", closers: d})
		checkModule(&tengo.Int{Value: int64(d)}, text)
	}
}

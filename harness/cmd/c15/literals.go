package main

// Round 8: scripts that hold literals of DIFFERENT types whose printed forms or numeric values coincide
// (1 / 1.0 / '1' / "1" / 49 / true, 7 / '7', 0 / 0.0 / -0.0 / "" / '0', 2^53 / 2^53+1, 1.5 / 1.25, 'a' / "a" / 97 …).
//
// Script.Compile, Script.Run and tengo.Eval post-process the constants of the compiled script (de-duplication,
// index remapping, also inside function bodies). Whatever that step does, a variable must read back as the value
// the script text assigns to it, with the documented Go type (Int -> int64, Float -> float64, Char -> rune,
// String -> string, Bool -> bool), through Value(), ValueType(), the eleven typed accessors, Get, GetAll, IsDefined,
// on the original, on clones taken before and after a run, after repeated runs, and as the result of Eval.
//
// Oracle: every literal carries the value its text denotes, written here by hand (Go constants, not a second run of
// the code under test); an expression form (parenthesis, index, selector, call, conditional, container) carries the
// value it has by construction. Host values of the same colliding kinds come in through Add/Set next to the script
// literals (expected: the conversion table, refConv).
//
// Streams: `lit` (direct: one script, five handles, every reading), `eval-lit` (tengo.Eval of pinned expressions),
// `api-lit` (call histories over such scripts against the Go specification and the Lean model). Each has a closed-form
// part run on every seed (litCorpus: every ordered pair of every group) and a random part.

import (
	"context"
	"fmt"
	"math"
	"sort"
	"strings"

	"github.com/d5/tengo/v2"
	"verifharness/lib"
)

type lit struct {
	txt string // source text
	tv  *TV    // the value the text denotes
}

func tf(f float64) *TV { return &TV{K: "f", F: math.Float64bits(f)} }
func tc(c rune) *TV    { return &TV{K: "c", I: int64(c)} }

var negZero = math.Copysign(0, -1)

type litGroup struct {
	name string
	lits []lit
}

// litGroups: literals that collide with each other under some printing / numeric view although their types or values
// differ, plus a few exact duplicates under another spelling (these MAY share a constant: same type, same value).
var litGroups = []litGroup{
	{"one", []lit{
		{"1", ti(1)}, {"1.0", tf(1)}, {"'1'", tc('1')}, {`"1"`, ts("1")}, {"49", ti(49)}, {"1e0", tf(1)}, {"0x1", ti(1)}, {"true", tb(true)},
		{`"1.0"`, ts("1.0")}, {"49.0", tf(49)}, {`'\x01'`, tc(1)}, {`"true"`, ts("true")}, {"`1`", ts("1")}, {`" 1"`, ts(" 1")}, {"1.", tf(1)},
		{"0x31", ti(49)}, {`"\"1\""`, ts(`"1"`)}, {`"'1'"`, ts("'1'")},
	}},
	{"seven", []lit{
		{"7", ti(7)}, {"'7'", tc('7')}, {"7.0", tf(7)}, {`"7"`, ts("7")}, {"55", ti(55)}, {"55.0", tf(55)}, {"07", ti(7)}, {"7e0", tf(7)},
		{`"7.0"`, ts("7.0")}, {`'\a'`, tc(7)}, {"0x37", ti(55)},
	}},
	{"zero", []lit{
		{"0", ti(0)}, {"0.0", tf(0)}, {"'0'", tc('0')}, {`"0"`, ts("0")}, {"48", ti(48)}, {`""`, ts("")}, {"false", tb(false)}, {`"false"`, ts("false")},
		{`'\x00'`, tc(0)}, {`"\x00"`, ts("\x00")}, {"0e0", tf(0)}, {"undefined", &TV{K: "u"}}, {"(-0.0)", tf(negZero)}, {"(-0)", ti(0)}, {`"0.0"`, ts("0.0")},
		{`"-0"`, ts("-0")}, {"48.0", tf(48)}, {"``", ts("")}, {`"undefined"`, ts("undefined")}, {"4294967296", ti(1 << 32)},
	}},
	{"big", []lit{
		{"9007199254740992", ti(1 << 53)}, {"9007199254740993", ti(1<<53 + 1)}, {"9007199254740992.0", tf(9007199254740992.0)},
		{"9007199254740993.0", tf(9007199254740993.0)}, {`"9007199254740992"`, ts("9007199254740992")}, {"9223372036854775807", ti(math.MaxInt64)},
		{"9223372036854775807.0", tf(9223372036854775807.0)}, {"9223372036854775806", ti(math.MaxInt64 - 1)}, {"1e19", tf(1e19)},
		{`"9223372036854775807"`, ts("9223372036854775807")}, {"(-9223372036854775807)", ti(-math.MaxInt64)},
	}},
	{"frac", []lit{
		{"1.5", tf(1.5)}, {`"1.5"`, ts("1.5")}, {"1", ti(1)}, {"2", ti(2)}, {"1.25", tf(1.25)}, {"1.50", tf(1.5)}, {"15e-1", tf(1.5)}, {"0.5", tf(0.5)},
		{`"0.5"`, ts("0.5")}, {"0", ti(0)}, {"2.0", tf(2)}, {"1.9999999999999999", tf(1.9999999999999999)}, {"0.1", tf(0.1)},
		{"0.10000000000000001", tf(0.10000000000000001)}, {`"0.1"`, ts("0.1")}, {"1.0000000000000002", tf(1.0000000000000002)}, {"1.0", tf(1)}, {"0.10000000149011612", tf(0.10000000149011612)},
	}},
	{"letter", []lit{
		{"'a'", tc('a')}, {`"a"`, ts("a")}, {"97", ti(97)}, {"97.0", tf(97)}, {"'A'", tc('A')}, {`"A"`, ts("A")}, {"65", ti(65)}, {`"97"`, ts("97")},
		{"0x61", ti(97)}, {`"\x61"`, ts("a")}, {`'\x61'`, tc('a')}, {"4294967361", ti(1<<32 + 65)},
	}},
	{"quote", []lit{
		{"' '", tc(' ')}, {`" "`, ts(" ")}, {"32", ti(32)}, {`'"'`, tc('"')}, {`"\""`, ts(`"`)}, {"34", ti(34)}, {`"\"\""`, ts(`""`)}, {`""`, ts("")},
		{`'\''`, tc('\'')}, {`"'"`, ts("'")}, {"39", ti(39)}, {"32.0", tf(32)}, {`"  "`, ts("  ")}, {"`\"`", ts(`"`)},
	}},
	{"hundred", []lit{
		{"100", ti(100)}, {"100.0", tf(100)}, {"1e2", tf(100)}, {`"100"`, ts("100")}, {"'d'", tc('d')}, {`"d"`, ts("d")}, {`"1e2"`, ts("1e2")},
		{`"1e+02"`, ts("1e+02")}, {"1_00", ti(100)}, {"0x64", ti(100)}, {"0144", ti(100)}, {"0b1100100", ti(100)}, {"0o144", ti(100)}, {"1.0e2", tf(100)},
		{"100.", tf(100)},
	}},
	{"neg", []lit{
		{"(-1)", ti(-1)}, {"(-1.0)", tf(-1)}, {`"-1"`, ts("-1")}, {"1", ti(1)}, {"1.0", tf(1)}, {"'-'", tc('-')}, {`"-"`, ts("-")}, {"45", ti(45)},
		{"(-1e0)", tf(-1)}, {"(-45)", ti(-45)},
	}},
	{"nonascii", []lit{
		{"'é'", tc(0xe9)}, {`"é"`, ts("é")}, {"233", ti(233)}, {"233.0", tf(233)}, {`'\u00e9'`, tc(0xe9)}, {`"\u00e9"`, ts("é")}, {"'世'", tc(0x4e16)},
		{`"世"`, ts("世")}, {"19990", ti(19990)}, {`"\xe9"`, ts("\xe9")}, {"0xe9", ti(233)},
	}},
}

// ---- expression forms: an expression around literal l (with a second literal d next to it) and its value ----

const litScalarForms = 8 // forms 0..7 have the value of l itself
const litForms = 15

func litForm(k int, l, d lit) lit {
	arr := func(kind string, kids ...*TV) *TV { return &TV{K: kind, Kids: kids} }
	switch k % litForms {
	case 0:
		return l
	case 1:
		return lit{"(" + l.txt + ")", l.tv}
	case 2:
		return lit{"[" + l.txt + "][0]", l.tv}
	case 3:
		return lit{"{k: " + l.txt + "}.k", l.tv}
	case 4:
		return lit{"func() { return " + l.txt + " }()", l.tv}
	case 5:
		return lit{"true ? " + l.txt + " : " + d.txt, l.tv}
	case 6:
		return lit{"[" + d.txt + ", " + l.txt + "][1]", l.tv}
	case 7:
		return lit{"false ? " + d.txt + " : " + l.txt, l.tv}
	case 8:
		return lit{"[" + l.txt + ", " + d.txt + "]", arr("a", l.tv, d.tv)}
	case 9:
		return lit{"{p: " + l.txt + ", q: " + d.txt + "}", &TV{K: "m", Keys: []string{"p", "q"}, Kids: []*TV{l.tv, d.tv}}}
	case 10:
		return lit{"immutable([" + d.txt + ", " + l.txt + "])", arr("ia", d.tv, l.tv)}
	case 11:
		return lit{"error(" + l.txt + ")", arr("e", l.tv)}
	case 12:
		return lit{"{p: [" + l.txt + "], q: {r: " + d.txt + "}}", &TV{K: "m", Keys: []string{"p", "q"},
			Kids: []*TV{arr("a", l.tv), {K: "m", Keys: []string{"r"}, Kids: []*TV{d.tv}}}}}
	case 13:
		return lit{"func(z) { return [z, " + l.txt + "] }(" + d.txt + ")", arr("a", d.tv, l.tv)}
	}
	return lit{"immutable({p: " + d.txt + ", q: " + l.txt + "})", &TV{K: "im", Keys: []string{"p", "q"}, Kids: []*TV{d.tv, l.tv}}}
}

// ---- host values of the same colliding kinds ----

// litHostValue: a Go value (plain Go type, another documented Go type of the same Tengo type, or the object itself)
// for the value of a literal. What it converts to is decided by refConv, not here.
func litHostValue(r *lib.RNG, t *TV) interface{} {
	k := r.Intn(3)
	switch t.K {
	case "i":
		switch {
		case k == 0 && t.I == int64(int(t.I)):
			return int(t.I)
		case k == 1:
			return &tengo.Int{Value: t.I}
		}
		return t.I
	case "f":
		if k == 1 {
			return &tengo.Float{Value: math.Float64frombits(t.F)}
		}
		return math.Float64frombits(t.F)
	case "c":
		switch {
		case k == 0 && t.I >= 0 && t.I < 256:
			return byte(t.I)
		case k == 1:
			return &tengo.Char{Value: rune(t.I)}
		}
		return rune(t.I)
	case "s":
		if k == 1 {
			return &tengo.String{Value: string(t.S)}
		}
		return string(t.S)
	case "b":
		if k == 1 {
			return t.obj()
		}
		return t.B
	case "u":
		if k == 1 {
			return tengo.UndefinedValue
		}
		return nil
	}
	return t.obj()
}

func genLitValue(r *lib.RNG, g litGroup) interface{} {
	one := func() interface{} { return litHostValue(r, lib.Pick(r, g.lits).tv) }
	switch r.Intn(8) {
	case 0:
		return []interface{}{one(), one(), one()}
	case 1:
		return map[string]interface{}{"p": one(), "q": one()}
	case 2:
		return &tengo.ImmutableArray{Value: []tengo.Object{lib.Pick(r, g.lits).tv.obj(), lib.Pick(r, g.lits).tv.obj()}}
	}
	return one()
}

// ---- the direct checker: one script, five handles, every reading ----

type litStmt struct {
	dst  string
	decl bool   // `:=` (else `=`)
	e    lit    // right-hand side: an expression and its value …
	from string // … or another variable
}

type litHostVar struct {
	name string
	g    interface{}
}

type litScript struct {
	stmts  []litStmt
	inputs []litHostVar
}

func (sc *litScript) text() string {
	var sb strings.Builder
	for _, st := range sc.stmts {
		rhs := st.from
		if rhs == "" {
			rhs = st.e.txt
		}
		if st.decl {
			sb.WriteString(st.dst + " := " + rhs + "\n")
		} else {
			sb.WriteString(st.dst + " = " + rhs + "\n")
		}
	}
	return sb.String()
}

func (sc *litScript) run(env map[string]*TV) map[string]*TV {
	out := map[string]*TV{}
	for n, v := range env {
		out[n] = v
	}
	for _, st := range sc.stmts {
		if st.from != "" {
			out[st.dst] = out[st.from]
		} else {
			out[st.dst] = st.e.tv
		}
	}
	return out
}

// byScript: the names whose value after a run was written by a script literal (directly or through a copy).
func (sc *litScript) byScript() map[string]bool {
	out := map[string]bool{}
	for _, st := range sc.stmts {
		if st.from != "" {
			out[st.dst] = out[st.from]
		} else {
			out[st.dst] = true
		}
	}
	return out
}

func cloneEnv(env map[string]*TV) map[string]*TV {
	out := map[string]*TV{}
	for n, v := range env {
		out[n] = copyTV(v)
	}
	return out
}

type litInput struct {
	Stream   string   `json:"stream"`
	CaseSeed uint64   `json:"case_seed,omitempty"`
	Corpus   string   `json:"corpus,omitempty"`
	Script   string   `json:"script"`
	Inputs   []string `json:"inputs"`
	Where    string   `json:"read_at,omitempty"`
}

// litReadBad: every reading of v against the value `want` the harness derived from the script text.
func litReadBad(v *tengo.Variable, want *TV) (what, got, exp string, bad bool) {
	if v == nil {
		return "Get", "nil", want.sexp(), true
	}
	if got := tvOf(v.Object()).sexp(); got != want.sexp() {
		return "Object", got, want.sexp(), true
	}
	fresh := want.obj()
	if !(hasError(want) && multiMapInside(fresh)) {
		if got, exp := canonG(v.Value()), canonG(goOfObject(fresh)); got != exp {
			return "Value", got, exp, true
		}
	}
	if tn, ok := typeNames[want.K]; ok && v.ValueType() != tn {
		return "ValueType", v.ValueType(), tn, true
	}
	for _, a := range accessors {
		if g, w, b, _ := accCheck(v, fresh, a); b {
			return a, g, w, true
		}
	}
	return "", "", "", false
}

// full: all five handles and the repeated runs (one Compile, four runs, one Script.Run); otherwise one Compile, one run,
// a clone taken before and a clone taken after it (the closed-form pairs: many scripts, each cheap).
func checkLitScript(stream string, seed uint64, tag string, sc *litScript, full bool) (violated bool) {
	text := sc.text()
	in := litInput{Stream: stream, CaseSeed: seed, Corpus: tag, Script: text}
	env := map[string]*TV{}
	s := tengo.NewScript([]byte(text))
	for _, hv := range sc.inputs {
		want, ec := refConv(hv.g, 1<<30, 1<<30)
		in.Inputs = append(in.Inputs, hv.name+"="+clip(canonG(hv.g), 200))
		if ec != "" {
			return false // the generator only makes supported values
		}
		env[hv.name] = want
	}
	res.Count(stream, text+strings.Join(in.Inputs, ","), true)
	res.Dist("lit:stmts=" + lib.N(len(sc.stmts)))
	fail := func(sig, where, obs, exp, oracle string) bool {
		in.Where = where
		res.Violate(lib.Violation{Signature: sig, Stream: stream, Input: in, Observed: where + ": " + clip(obs, 300), Expected: clip(exp, 300), Oracle: oracle})
		return true
	}
	defer func() {
		if p := recover(); p != nil {
			violated = fail("api-call-panics-on-script-of-literals", "Compile / Run / Clone / Get / GetAll", "panic: "+fmt.Sprint(p), "no panic", "no call of the embedding API panics on a well-formed script")
		}
	}()
	for _, hv := range sc.inputs {
		if err := s.Add(hv.name, hv.g); err != nil {
			return fail("add-result-differs", "s.Add("+hv.name+")", err.Error(), "ok", "conversion table of docs/interoperability.md")
		}
	}
	for _, st := range sc.stmts {
		if st.decl {
			env[st.dst] = &TV{K: "u"}
		}
	}
	written := sc.byScript()
	names := make([]string, 0, len(env))
	for n := range env {
		names = append(names, n)
	}
	sort.Strings(names)
	const (
		oracleLit  = "the value the literal text denotes (hand-written next to each literal) read through Value()/ValueType()/typed accessors per docs/runtime-types.md"
		oracleHost = "the value the host added (conversion table of docs/interoperability.md), not assigned by the script"
	)
	readAll := func(c *tengo.Compiled, env map[string]*TV, ran bool, where string) bool {
		check := func(n string, v *tengo.Variable, via string) bool {
			want := env[n]
			if what, got, exp, bad := litReadBad(v, want); bad {
				sig, oracle := "script-literal-read-back-as-another-value", oracleLit
				if !(ran && written[n]) {
					sig, oracle = "host-value-next-to-script-literals-read-back-differs", oracleHost
				}
				return fail(sig, where, via+"(\""+n+"\")."+what+"() = "+got, exp+"  [variable holds "+clip(want.sexp(), 120)+"]", oracle)
			}
			return false
		}
		for _, n := range names {
			if check(n, c.Get(n), "Get") {
				return true
			}
			if got, exp := c.IsDefined(n), env[n].K != "u"; got != exp {
				return fail("isdefined-disagrees-with-last-value", where, fmt.Sprintf("IsDefined(%q) = %v", n, got), fmt.Sprint(exp), oracleLit)
			}
		}
		seen := map[string]bool{}
		for _, v := range c.GetAll() {
			if _, ok := env[v.Name()]; !ok || seen[v.Name()] {
				return fail("getall-not-last-values", where, "GetAll lists "+v.Name(), "each of "+strings.Join(names, ",")+" once", oracleLit)
			}
			seen[v.Name()] = true
			if check(v.Name(), v, "GetAll") {
				return true
			}
		}
		if len(seen) != len(names) {
			return fail("getall-not-last-values", where, fmt.Sprintf("GetAll lists %d names", len(seen)), strings.Join(names, ","), oracleLit)
		}
		if v := c.Get("zz"); !v.IsUndefined() || c.IsDefined("zz") {
			return fail("get-not-last-value", where, "Get(\"zz\") = "+tvOf(v.Object()).sexp(), "undefined", "undeclared names read as undefined")
		}
		return false
	}
	c, err := s.Compile()
	if err != nil {
		return fail("compile-outcome-differs", "s.Compile()", err.Error(), "compiles (declared names only, literals and construction forms)", "the script is well-formed by construction")
	}
	run := func(c *tengo.Compiled, ctx bool, where string) bool {
		var err error
		if ctx {
			err = c.RunContext(context.Background())
		} else {
			err = c.Run()
		}
		if err != nil {
			return fail("run-outcome-differs", where, err.Error(), "ok", "straight-line assignments of literals cannot fail")
		}
		return false
	}
	if full && readAll(c, env, false, "c := s.Compile(); c") {
		return true
	}
	cl0 := c.Clone()
	if run(c, seed%2 == 1, "c.Run()") {
		return true
	}
	env1 := sc.run(env)
	if readAll(c, env1, true, "c := s.Compile(); c.Run(); c") {
		return true
	}
	cl1 := c.Clone()
	if readAll(cl1, cloneEnv(env1), true, "c.Run(); cl := c.Clone(); cl") {
		return true
	}
	env0 := cloneEnv(env)
	if readAll(cl0, env0, false, "c := s.Compile(); cl := c.Clone(); c.Run(); cl") {
		return true
	}
	if !full {
		return false
	}
	if run(cl0, seed%2 == 0, "cl.Run() on the clone taken before c.Run()") || readAll(cl0, sc.run(env0), true, "cl := c.Clone(); c.Run(); cl.Run(); cl") {
		return true
	}
	if run(cl1, false, "second run (clone of the run original)") || readAll(cl1, sc.run(cloneEnv(env1)), true, "c.Run(); cl := c.Clone(); cl.Run(); cl") {
		return true
	}
	if readAll(c, env1, true, "c after its clones ran") {
		return true
	}
	c2, err := s.Run()
	if err != nil {
		return fail("run-outcome-differs", "s.Run()", err.Error(), "ok", "straight-line assignments of literals cannot fail")
	}
	return readAll(c2, env1, true, "c2 := s.Run(); c2")
}

// ---- generators ----

var litDeclNames = []string{"x", "y", "out", "w", "v0", "v1", "v2", "v3"}

func genLitScript(r *lib.RNG) *litScript {
	g := lib.Pick(r, litGroups)
	pick := func() lit {
		if r.Chance(1, 4) {
			return lib.Pick(r, lib.Pick(r, litGroups).lits)
		}
		return lib.Pick(r, g.lits)
	}
	sc := &litScript{}
	declared := []string{}
	for _, n := range []string{"a", "b", "m"} {
		if r.Chance(1, 2) {
			sc.inputs = append(sc.inputs, litHostVar{n, genLitValue(r, g)})
			declared = append(declared, n)
		}
	}
	free := append([]string{}, litDeclNames...)
	n := 2 + r.Intn(5)
	var last lit
	for i := 0; i < n; i++ {
		st := litStmt{}
		switch {
		case len(declared) > 0 && r.Chance(1, 4):
			st.dst = lib.Pick(r, declared)
		case len(free) > 0:
			st.dst, st.decl = free[0], true
			free = free[1:]
		default:
			st.dst = lib.Pick(r, declared)
		}
		switch {
		case len(declared) > 0 && r.Chance(1, 6):
			st.from = lib.Pick(r, declared)
		case last.tv != nil && r.Chance(1, 6):
			st.e = last // the same literal again: this one may share a constant, the ones after it must not shift
		default:
			l, d := pick(), pick()
			last = l
			k := 0
			if r.Chance(1, 2) {
				k = r.Intn(litForms)
			}
			st.e = litForm(k, l, d)
		}
		sc.stmts = append(sc.stmts, st)
		if st.decl {
			declared = append(declared, st.dst)
		}
	}
	return sc
}

func litCase(seed uint64) {
	checkLitScript("lit", seed, "", genLitScript(lib.NewRNG(seed)), true)
}

// ---- Eval of pinned expressions ----

func goOfTV(t *TV) interface{} { return goOfObject(t.obj()) }

func checkEvalLit(seed uint64, expr string, params map[string]interface{}, want interface{}) {
	saved := evalStream
	evalStream = "eval-lit"
	defer func() { evalStream = saved }()
	checkEvalOne(seed, expr, params, true, want)
}

func evalLitCase(seed uint64) {
	r := lib.NewRNG(seed)
	g := lib.Pick(r, litGroups)
	pick := func() lit {
		if r.Chance(1, 5) {
			return lib.Pick(r, lib.Pick(r, litGroups).lits)
		}
		return lib.Pick(r, g.lits)
	}
	l, d := pick(), pick()
	f := r.Bool()
	pl := pick()
	p := litHostValue(r, pl.tv)
	params := map[string]interface{}{"f": f, "n": r.Intn(2), "p": p}
	if r.Chance(1, 2) {
		params["q"] = litHostValue(r, pick().tv)
	}
	pw := normalizeGo(p)
	sel := func(c bool, x, y interface{}) interface{} {
		if c {
			return x
		}
		return y
	}
	var expr string
	var want interface{}
	switch r.Intn(10) {
	case 0, 1:
		expr, want = "f ? "+l.txt+" : "+d.txt, sel(f, goOfTV(l.tv), goOfTV(d.tv))
	case 2:
		expr, want = "["+l.txt+", "+d.txt+"]", []interface{}{goOfTV(l.tv), goOfTV(d.tv)}
	case 3:
		expr, want = "["+l.txt+", "+d.txt+"][n]", sel(params["n"].(int) == 0, goOfTV(l.tv), goOfTV(d.tv))
	case 4:
		expr, want = "{p: "+l.txt+", q: "+d.txt+"}", map[string]interface{}{"p": goOfTV(l.tv), "q": goOfTV(d.tv)}
	case 5:
		expr, want = "[p, "+l.txt+", "+d.txt+"]", []interface{}{pw, goOfTV(l.tv), goOfTV(d.tv)}
	case 6:
		expr, want = "f ? p : "+l.txt, sel(f, pw, goOfTV(l.tv))
	case 7:
		expr, want = "func() { return ["+d.txt+", "+l.txt+"] }()", []interface{}{goOfTV(d.tv), goOfTV(l.tv)}
	case 8:
		e := litForm(r.Intn(litForms), l, d)
		if hasError(e.tv) {
			e = litForm(1, l, d)
		}
		expr, want = e.txt, goOfTV(e.tv)
	default:
		expr, want = "[f ? "+l.txt+" : "+d.txt+", f ? "+d.txt+" : "+l.txt+"]", []interface{}{sel(f, goOfTV(l.tv), goOfTV(d.tv)), sel(f, goOfTV(d.tv), goOfTV(l.tv))}
	}
	checkEvalLit(seed, expr, params, want)
}

// ---- call histories over such scripts (Go specification + Lean model) ----

func litStmtOf(kind, dst string, e lit) stmt { return stmt{K: kind, Dst: dst, V: e.tv, Txt: e.txt} }

func genLitAPIScript(r *lib.RNG, g litGroup) []stmt {
	pick := func() lit {
		if r.Chance(1, 5) {
			return lib.Pick(r, lib.Pick(r, litGroups).lits)
		}
		return lib.Pick(r, g.lits)
	}
	expr := func() lit {
		l, d := pick(), pick()
		if r.Chance(1, 2) {
			return l
		}
		return litForm(r.Intn(litForms), l, d)
	}
	free := []string{"x", "y", "out"}
	var src []stmt
	n := 2 + r.Intn(4)
	for i := 0; i < n; i++ {
		switch {
		case r.Chance(1, 5):
			src = append(src, litStmtOf("asg", lib.Pick(r, []string{"a", "b"}), expr()))
		case len(free) == 0:
			src = append(src, litStmtOf("asg", lib.Pick(r, []string{"x", "y", "out"}), expr()))
		case r.Chance(1, 6):
			src = append(src, defv(free[0], lib.Pick(r, []string{"a", "b"})))
			free = free[1:]
		default:
			src = append(src, litStmtOf("def", free[0], expr()))
			free = free[1:]
		}
	}
	return src
}

func apiLitCase(seed uint64) {
	r := lib.NewRNG(seed)
	g := lib.Pick(r, litGroups)
	ops := genHistoryFrom(r, 1<<31-1, 1<<31-1, r.Bool(),
		func(r *lib.RNG) []stmt { return genLitAPIScript(r, g) },
		func(r *lib.RNG) interface{} {
			if r.Chance(1, 6) {
				return genAPIValue(r, 1<<31-1, 1<<31-1)
			}
			return genLitValue(r, g)
		})
	runHistory("api-lit", ops, 1<<31-1, 1<<31-1, apiInput{CaseSeed: seed}, true)
}

// ---- closed-form part, run on every seed ----

func litCorpus() {
	n := 0
	for gi, g := range litGroups {
		r := lib.NewRNG(uint64(1000 + gi)) // host values only; the literals are enumerated
		// every ordered pair of the group: plain, and inside a construction form next to host values of the group
		for i, li := range g.lits {
			for j, lj := range g.lits {
				if i >= j {
					continue
				}
				n++
				if n%4 >= 2 {
					li, lj = lj, li // the other order (the whole-group scripts below hold every pair in both orders)
				}
				tag := fmt.Sprintf("group=%s pair=(%d,%d)", g.name, i, j)
				if n%2 == 0 {
					checkLitScript("lit", 0, tag+" plain", &litScript{stmts: []litStmt{{dst: "x", decl: true, e: li}, {dst: "y", decl: true, e: lj}}}, false)
				} else {
					k := 1 + (i*len(g.lits)+j)%(litForms-1)
					sc := &litScript{inputs: []litHostVar{{"a", litHostValue(r, lj.tv)}, {"b", litHostValue(r, li.tv)}},
						stmts: []litStmt{{dst: "y", decl: true, e: lj}, {dst: "a", e: litForm(k, li, lj)}, {dst: "out", decl: true, from: "b"}}}
					if n%4 == 1 {
						sc.stmts[0], sc.stmts[1] = sc.stmts[1], sc.stmts[0]
					}
					checkLitScript("lit", 0, tag+fmt.Sprintf(" form=%d", k), sc, false)
				}
				// Eval: the conditional picks the second / the first literal; an array holds both next to a parameter
				switch n % 6 {
				case 0, 3:
					f := n%6 == 3
					want := goOfTV(lj.tv)
					if f {
						want = goOfTV(li.tv)
					}
					checkEvalLit(uint64(n), "f ? "+li.txt+" : "+lj.txt, map[string]interface{}{"f": f}, want)
				case 1:
					p := litHostValue(r, lj.tv)
					pw := normalizeGo(p)
					checkEvalLit(uint64(n), "["+li.txt+", "+lj.txt+", p]", map[string]interface{}{"p": p}, []interface{}{goOfTV(li.tv), goOfTV(lj.tv), pw})
				}
			}
		}
		// the whole group in one script, in order and reversed, and once with every literal twice
		for rev := 0; rev < 3; rev++ {
			sc := &litScript{}
			for i := range g.lits {
				l := g.lits[i]
				if rev == 1 {
					l = g.lits[len(g.lits)-1-i]
				}
				sc.stmts = append(sc.stmts, litStmt{dst: fmt.Sprintf("v%d", i), decl: true, e: l})
				if rev == 2 {
					sc.stmts = append(sc.stmts, litStmt{dst: fmt.Sprintf("w%d", i), decl: true, e: litForm(4+i%2*9, l, g.lits[(i+1)%len(g.lits)])})
				}
			}
			checkLitScript("lit", 0, fmt.Sprintf("group=%s all order=%d", g.name, rev), sc, true)
		}
		// call histories: Add / Compile / Clone / Run / Set / GetAll over three rotations of the group
		for rot := 0; rot < 3; rot++ {
			at := func(i int) lit { return g.lits[(rot*4+i)%len(g.lits)] }
			src := []stmt{litStmtOf("asg", "a", litForm(rot*5, at(0), at(1))), litStmtOf("def", "x", at(1)), litStmtOf("def", "y", litForm(8+rot, at(2), at(0))),
				defv("out", "b"), litStmtOf("asg", "b", at(3))}
			ops := []op{{K: "new", Src: src},
				{K: "add", H: 0, Name: "a", G: litHostValue(r, at(1).tv)},
				{K: "add", H: 0, Name: "b", G: litHostValue(r, at(0).tv)},
				{K: "add", H: 0, Name: "m", G: genLitValue(r, g)},
				{K: "compile", H: 0}, {K: "clone", H: 0},
				{K: "getall", H: 0}, {K: "getall", H: 1},
				{K: "run", H: 1}, {K: "getall", H: 1},
				{K: "clone", H: 1}, {K: "getall", H: 2},
				{K: "run", H: 0, Ctx: true}, {K: "getall", H: 0},
				{K: "set", H: 1, Name: "a", G: litHostValue(r, at(2).tv)},
				{K: "set", H: 2, Name: "b", G: litHostValue(r, at(3).tv)},
				{K: "set", H: 2, Name: "x", G: litHostValue(r, at(0).tv)},
				{K: "clone", H: 1}, {K: "getall", H: 2},
				{K: "run", H: 2}, {K: "run", H: 3}, {K: "clone", H: 3},
			}
			for h := 0; h <= 4; h++ {
				ops = append(ops, op{K: "getall", H: h})
				for _, nm := range []string{"a", "b", "out", "x", "y", "zz"} {
					ops = append(ops, op{K: "get", H: h, Name: nm}, op{K: "isdef", H: h, Name: nm})
				}
			}
			runHistory("api-lit", ops, 1<<30, 1<<30, apiInput{Exh: fmt.Sprintf("lit-corpus group=%s rotation=%d", g.name, rot)}, true)
		}
	}
}

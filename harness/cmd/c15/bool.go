package main

import (
	"fmt"
	"strconv"
	"strings"
	"time"

	"github.com/d5/tengo/v2"
	"verifharness/lib"
)

// ---- every reading of a Variable handed out by Get / GetAll ----

var typeNames = map[string]string{"u": "undefined", "i": "int", "s": "string", "f": "float", "b": "bool", "c": "char", "y": "bytes",
	"a": "array", "ia": "immutable-array", "m": "map", "im": "immutable-map", "t": "time", "e": "error"}

func hasError(t *TV) bool {
	if t.K == "e" {
		return true
	}
	for _, k := range t.Kids {
		if hasError(k) {
			return true
		}
	}
	return false
}

// accCheck compares one typed accessor of v with the coercion table row of `fresh` (an object of the same value built by
// the harness). skipped: the cell is not pinned down (text depending on Go's map order, platform-defined float->int).
func accCheck(v *tengo.Variable, fresh tengo.Object, a string) (got, want string, bad, skipped bool) {
	got = accReal(v, a)
	want = accExpected(fresh, a)
	if a == "String" && multiMapInside(fresh) {
		return got, want, false, true
	}
	bad = want != "" && got != want
	if want == "" && a == "String" {
		s := v.String()
		switch x := fresh.(type) {
		case *tengo.Float:
			f, e := strconv.ParseFloat(s, 64)
			bad = e != nil || fbits(f) != fbits(x.Value)
		case *tengo.Array:
			bad = !strings.HasPrefix(s, "[") || !strings.HasSuffix(s, "]")
		case *tengo.Map:
			bad = !strings.HasPrefix(s, "{") || !strings.HasSuffix(s, "}")
		case *tengo.Error:
			bad = !strings.HasPrefix(s, "error: ")
		}
		want = "strconv / \"[...]\" / \"{...}\" / \"error: ...\" form"
	}
	return got, want, bad, false
}

// badReading: Value(), ValueType() and the eleven typed accessors of a Variable against the value of the object it holds
// (rebuilt by the harness from the object's printed tree, so that nothing of the object's identity is relied on).
func badReading(v *tengo.Variable) (what, got, want string, bad bool) {
	t := tvOf(v.Object())
	fresh := t.obj()
	if !(hasError(t) && multiMapInside(fresh)) {
		got, want = canonG(v.Value()), canonG(goOfObject(fresh))
		if got != want {
			return "Value", got, want, true
		}
	}
	if tn, ok := typeNames[t.K]; ok && v.ValueType() != tn {
		return "ValueType", v.ValueType(), tn, true
	}
	for _, a := range accessors {
		if g, w, b, _ := accCheck(v, fresh, a); b {
			return a, g, w, true
		}
	}
	return "", "", "", false
}

// ---- script statements outside the model's language: reading a global inside the script ----

// extShapes: `Dst := <shape>` with V replaced by the name of a global.
var extShapes = []string{
	"V == true",
	"V == false",
	"!V",
	"V ? 1 : 2",
	"copy(V)",
	"is_bool(V) ? int(V) : -1",
	"[V] == [true]",
	"V != true",
	"{k: V}.k == false",
	"is_bool(V) ? string(V) : \"-\"",
	// round 10 (share.go): the global named more than once inside one value
	"[V, V]",
	"{p: V, q: V}",
	"[V, [V], {k: V}]",
	"immutable([V, V])",
	"func(z) { return [z, z] }(V)",
	"{l: V, r: {c: V, d: [V]}}",
	"immutable({p: V, q: [V, V]})",
	"[copy(V), V]",
}

func ext(shape int, dst, v string) stmt { return stmt{K: "ext", N: shape, Dst: dst, Var: v} }
func tb(b bool) *TV                     { return &TV{K: "b", B: b} }

// truthy: !IsFalsy() as documented in docs/runtime-types.md (Bool column of the coercion table, plus the types outside it).
func truthy(t *TV) bool {
	switch t.K {
	case "u", "e":
		return false
	case "i", "c":
		return t.I != 0
	case "s", "y":
		return len(t.S) > 0
	case "f":
		return t.F != nanBits
	case "b":
		return t.B
	case "a", "ia", "m", "im":
		return len(t.Kids) > 0
	case "t":
		return !time.Unix(t.I, int64(t.Nsec)).UTC().IsZero()
	}
	return true // user function, user object
}

func extEval(shape int, v *TV) *TV {
	if v == nil {
		v = &TV{K: "u"}
	}
	isT, isF := v.K == "b" && v.B, v.K == "b" && !v.B
	switch shape {
	case 0, 6:
		return tb(isT)
	case 1, 8:
		return tb(isF)
	case 2:
		return tb(!truthy(v))
	case 3:
		if truthy(v) {
			return ti(1)
		}
		return ti(2)
	case 4:
		return copyTV(v)
	case 5:
		switch {
		case isT:
			return ti(1)
		case isF:
			return ti(0)
		}
		return ti(-1)
	case 7:
		return tb(!isT)
	case 10, 14:
		return &TV{K: "a", Kids: []*TV{v, v}}
	case 11:
		return &TV{K: "m", Keys: []string{"p", "q"}, Kids: []*TV{v, v}}
	case 12:
		return &TV{K: "a", Kids: []*TV{v, {K: "a", Kids: []*TV{v}}, {K: "m", Keys: []string{"k"}, Kids: []*TV{v}}}}
	case 13:
		return &TV{K: "ia", Kids: []*TV{v, v}}
	case 15:
		return &TV{K: "m", Keys: []string{"l", "r"}, Kids: []*TV{v, {K: "m", Keys: []string{"c", "d"}, Kids: []*TV{v, {K: "a", Kids: []*TV{v}}}}}}
	case 16:
		return &TV{K: "im", Keys: []string{"p", "q"}, Kids: []*TV{v, {K: "a", Kids: []*TV{v, v}}}}
	case 17:
		return &TV{K: "a", Kids: []*TV{copyTV(v), v}}
	}
	switch {
	case isT:
		return ts("true")
	case isF:
		return ts("false")
	}
	return ts("-")
}

func usesExt(ops []op) bool {
	for _, o := range ops {
		for _, s := range o.Src {
			if s.K == "ext" {
				return true
			}
		}
	}
	return false
}

// boolFamily: scripts that assign booleans (top level and nested, in mutable and immutable containers), copy them and
// compare them. Inputs a, b, m; results out, x, y.
var boolNested = &TV{K: "a", Kids: []*TV{tb(true), tb(false), {K: "m", Keys: []string{"k"}, Kids: []*TV{tb(true)}}}}

var boolFamily = [][]stmt{
	{ext(0, "out", "a"), ext(5, "x", "a")},
	{ext(4, "out", "a")},
	{ext(4, "x", "m"), ext(6, "out", "a"), ext(2, "y", "a")},
	{def("x", tb(true)), def("y", boolNested), ext(0, "out", "x")},
	{ext(3, "out", "a"), ext(1, "x", "b"), ext(7, "y", "a")},
	{def("x", &TV{K: "ia", Kids: []*TV{tb(true), tb(false)}}), ext(4, "y", "x"), ext(0, "out", "a")},
	{asgv("a", "b"), ext(0, "out", "a"), ext(8, "x", "b")},
	{def("x", tb(true)), ext(4, "y", "x"), ext(0, "out", "y")},
	{ext(4, "x", "a"), ext(0, "out", "x"), ext(9, "y", "x")},
	{def("x", tb(false)), ext(4, "y", "x"), ext(1, "out", "y")},
	{ext(4, "x", "m"), ext(4, "y", "x"), asgv("m", "y"), ext(0, "out", "b")},
	{ext(0, "out", "a"), failStmt, ext(4, "x", "a")},
	{hid(1), ext(4, "x", "a"), hid(0), ext(0, "out", "x"), def("y", tb(true))},
}

// boolFamilyModel: the members of the model's language (literals only); they are also part of `family`.
var boolFamilyModel = [][]stmt{
	{def("out", tb(true)), asg("a", tb(false)), def("x", &TV{K: "im", Keys: []string{"k"}, Kids: []*TV{tb(true)}})},
	{def("x", boolNested), asgv("a", "x"), def("y", tb(false)), defv("out", "y")},
}

func init() { family = append(family, boolFamilyModel...) }

// boolValues: what a host hands in: Go bools, the two Bool objects, and both nested in every kind of container.
var boolValues = []func() interface{}{
	func() interface{} { return true },
	func() interface{} { return false },
	func() interface{} { return tengo.TrueValue },
	func() interface{} { return tengo.FalseValue },
	func() interface{} { return []interface{}{true, false} },
	func() interface{} {
		return map[string]interface{}{"on": true, "off": false, "list": []interface{}{true, false}}
	},
	func() interface{} { return map[string]tengo.Object{"t": tengo.TrueValue, "f": tengo.FalseValue} },
	func() interface{} { return []tengo.Object{tengo.TrueValue, tengo.FalseValue} },
	func() interface{} {
		return &tengo.ImmutableArray{Value: []tengo.Object{tengo.TrueValue, tengo.FalseValue}}
	},
	func() interface{} {
		return &tengo.ImmutableMap{Value: map[string]tengo.Object{"t": tengo.TrueValue, "in": &tengo.Array{Value: []tengo.Object{tengo.FalseValue, tengo.TrueValue}}}}
	},
	func() interface{} { return &tengo.Error{Value: tengo.TrueValue} },
	func() interface{} {
		return []interface{}{map[string]interface{}{"deep": []interface{}{[]interface{}{true}}}, tengo.TrueValue, 1, "true"}
	},
	func() interface{} { return 1 },
	func() interface{} { return "true" },
	func() interface{} { return nil },
}

func genBoolValue(r *lib.RNG, maxStr, maxBytes int) interface{} {
	if r.Chance(1, 5) {
		return genAPIValue(r, maxStr, maxBytes)
	}
	return lib.Pick(r, boolValues)()
}

// ---- host variables named like builtin functions ----

var builtinNames = []string{"len", "copy", "format", "is_int", "is_bool", "string", "int", "append", "type_name", "range", "delete", "bool", "is_undefined", "splice", "is_function"}

// renameInputs gives the inputs a, b, m the names of builtin functions (in the calls and in the scripts). Only for
// histories in which the specification never answers "unresolved" for one of them: there the language resolves the
// name to the builtin function, which is outside this model of scripts.
func renameInputs(r *lib.RNG, ops []op, maxStr, maxBytes int) []op {
	sh := &refState{maxStr: maxStr, maxBytes: maxBytes}
	for _, o := range ops {
		out := sh.do(o)
		for _, n := range names3 {
			if out == "(err (unresolved "+lib.HexS(n)+"))" {
				return ops
			}
		}
	}
	var perm []string
	for _, b := range builtinNames {
		if usesExt(ops) && (b == "copy" || b == "is_bool" || b == "int" || b == "string") {
			continue // the ext shapes call these builtins themselves
		}
		perm = append(perm, b)
	}
	for i := len(perm) - 1; i > 0; i-- {
		j := r.Intn(i + 1)
		perm[i], perm[j] = perm[j], perm[i]
	}
	to := map[string]string{"a": perm[0], "b": perm[1], "m": perm[2]}
	ren := func(n string) string {
		if t, ok := to[n]; ok {
			return t
		}
		return n
	}
	out := make([]op, len(ops))
	for i, o := range ops {
		o.Name = ren(o.Name)
		if o.Src != nil {
			src := make([]stmt, len(o.Src))
			for j, s := range o.Src {
				s.Dst, s.Var = ren(s.Dst), ren(s.Var)
				src[j] = s
			}
			o.Src = src
		}
		out[i] = o
	}
	return out
}

// ---- deterministic histories: every bool value x every bool script, original and clones, before and after Run ----

func boolCorpus() {
	scripts := append(append([][]stmt{}, boolFamily...), boolFamilyModel...)
	scripts = append(scripts, family[1], family[2])
	n := 0
	for si, src := range scripts {
		for vi, mk := range boolValues {
			other := boolValues[(vi+3)%len(boolValues)]
			ops := []op{{K: "new", Src: src},
				{K: "add", H: 0, Name: "a", G: mk()},
				{K: "add", H: 0, Name: "b", G: other()},
				{K: "add", H: 0, Name: "m", G: map[string]interface{}{"flag": mk(), "k": true}},
				{K: "compile", H: 0}, // c0
				{K: "clone", H: 0},   // c1: clone before any run
				{K: "getall", H: 0}, {K: "getall", H: 1},
				{K: "run", H: 1}, {K: "getall", H: 1},
				{K: "clone", H: 1}, // c2: clone of a clone after its run
				{K: "getall", H: 2},
				{K: "run", H: 0, Ctx: true}, {K: "getall", H: 0},
				{K: "set", H: 1, Name: "a", G: other()},
				{K: "set", H: 2, Name: "b", G: mk()},
				{K: "clone", H: 1}, // c3
				{K: "run", H: 2}, {K: "run", H: 3},
				{K: "clone", H: 3}, // c4
			}
			for h := 0; h <= 4; h++ {
				ops = append(ops, op{K: "getall", H: h})
				for _, nm := range []string{"a", "out", "x", "zz"} {
					ops = append(ops, op{K: "get", H: h, Name: nm}, op{K: "isdef", H: h, Name: nm})
				}
			}
			n++
			runHistory("api-bool", ops, 1<<30, 1<<30, apiInput{Exh: fmt.Sprintf("bool-corpus script=%d value=%d", si, vi)}, !usesExt(ops) && n%4 == 0)
		}
	}
}

// apiBoolCase: random histories over the bool scripts with bool-heavy values; 1/3 with builtin names for the inputs.
func apiBoolCase(seed uint64) {
	r := lib.NewRNG(seed)
	ops := genHistoryWith(r, 1<<31-1, 1<<31-1, true)
	if r.Chance(1, 3) {
		ops = renameInputs(r, ops, 1<<31-1, 1<<31-1)
	}
	runHistory("api-bool", ops, 1<<31-1, 1<<31-1, apiInput{CaseSeed: seed}, !usesExt(ops))
}

// ---- conversion stream: what a value reads as after Clone and after the script's copy() ----

// viaClone: Add(g) / Compile / Clone / Get on the clone; viaCopy: script `w := copy(v)` run, Get("w").
func viaClone(g interface{}) (v *tengo.Variable, ok bool) {
	s := tengo.NewScript([]byte(""))
	if err := s.Add("v", g); err != nil {
		return nil, false
	}
	c, err := s.Compile()
	if err != nil {
		return nil, false
	}
	return c.Clone().Get("v"), true
}

func viaCopy(g interface{}) (v *tengo.Variable, ok bool) {
	s := tengo.NewScript([]byte("w := copy(v)"))
	if err := s.Add("v", g); err != nil {
		return nil, false
	}
	c, err := s.Run()
	if err != nil {
		return nil, false
	}
	return c.Get("w"), true
}

// ---- regression probe of finding O32 (repaired): host variables named like builtin functions ----

func probeBuiltinNamedVariables() (fails bool, observed string) {
	for i, name := range builtinNames {
		for _, val := range []interface{}{5, 2.5, "txt", map[string]interface{}{"k": []interface{}{1, "x"}}} {
			want := canonG(normalizeGo(val))
			s := tengo.NewScript([]byte("out := " + name + "\n"))
			if err := s.Add(name, val); err != nil {
				return true, "Add(" + name + "): " + err.Error()
			}
			c, err := s.Compile()
			if err != nil {
				return true, "Compile with host variable " + name + ": " + err.Error()
			}
			cl := c.Clone()
			for hi, h := range []*tengo.Compiled{c, cl} {
				if got := canonG(h.Get(name).Value()); got != want {
					return true, fmt.Sprintf("handle %d before Run: Get(%q) = %s, the host added %s", hi, name, got, want)
				}
				if err := h.Run(); err != nil {
					return true, fmt.Sprintf("handle %d Run: %v", hi, err)
				}
				for _, rd := range []string{name, "out"} {
					if got := canonG(h.Get(rd).Value()); got != want {
						return true, fmt.Sprintf("handle %d after Run of `out := %s`: Get(%q) = %s, the host added %s = %s", hi, name, rd, got, name, want)
					}
				}
				seen := 0
				for _, v := range h.GetAll() {
					if v.Name() == name || v.Name() == "out" {
						seen++
						if got := canonG(v.Value()); got != want {
							return true, fmt.Sprintf("handle %d GetAll: %s = %s, want %s", hi, v.Name(), got, want)
						}
					}
				}
				if seen != 2 {
					return true, fmt.Sprintf("handle %d GetAll lists %d of {%s, out}", hi, seen, name)
				}
			}
			// Set on the compiled script, then the script reads the new value
			val2 := []interface{}{int64(i), "set"}
			want2 := canonG(normalizeGo(val2))
			if err := cl.Set(name, val2); err != nil {
				return true, "Set(" + name + "): " + err.Error()
			}
			if err := cl.Run(); err != nil {
				return true, "Run after Set: " + err.Error()
			}
			if got := canonG(cl.Get("out").Value()); got != want2 {
				return true, fmt.Sprintf("after Set(%q, …) and Run: out = %s, want %s", name, got, want2)
			}
			if got := canonG(c.Get(name).Value()); got != want {
				return true, fmt.Sprintf("Set on the clone changed the original: Get(%q) = %s, want %s", name, got, want)
			}
		}
	}
	return false, ""
}

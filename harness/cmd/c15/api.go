package main

import (
	"context"
	"fmt"
	"sort"
	"strings"

	"github.com/d5/tengo/v2"
	"verifharness/lib"
)

// ---- the script family: straight-line programs over globals ----

type stmt struct {
	K   string // def asg sel fail hid ext
	N   int    // hid: shape of the block; ext: shape of the expression (extShapes)
	Dst string
	Var string // right-hand side: a global …
	V   *TV    // … or a literal
	Key string // sel
	Txt string // def/asg with V: the source text of the right-hand side when it is not V.src() (literals.go: the
	// expression as written, e.g. `1.0`, `'7'`, `true ? 1 : 1.0`; V is the value that text denotes)
}

func ti(n int64) *TV              { return &TV{K: "i", I: n} }
func ts(s string) *TV             { return &TV{K: "s", S: []byte(s)} }
func def(d string, v *TV) stmt    { return stmt{K: "def", Dst: d, V: v} }
func defv(d, x string) stmt       { return stmt{K: "def", Dst: d, Var: x} }
func asg(d string, v *TV) stmt    { return stmt{K: "asg", Dst: d, V: v} }
func asgv(d, x string) stmt       { return stmt{K: "asg", Dst: d, Var: x} }
func sel(d, k string, v *TV) stmt { return stmt{K: "sel", Dst: d, Key: k, V: v} }

var failStmt = stmt{K: "fail"}

// hid: a top-level block or loop that declares block-scoped variables only. They occupy global slots but are no
// names of the Compiled; a top-level variable declared after them has a slot index above len(globalIndexes).
func hid(shape int) stmt { return stmt{K: "hid", N: shape} }

var hiddenShapes = []string{
	"if true { t0 := 1 }",
	"for i1 := 0; i1 < 2; i1++ { t1 := i1 }",
	"for k2, v2 in [1, 2] { w2 := v2 }",
	"if true { p3 := 1; if p3 { q3 := 2; for j3 := 0; j3 < 1; j3++ { r3 := j3 } } }",
	"for v4 in {k: 1} { w4 := v4 }",
}

// Inputs are named a, b, m; scripts define out, x, y.
var family = [][]stmt{
	{},
	{defv("out", "a")},
	{defv("out", "a"), defv("x", "b")},
	{asg("a", ti(5))},
	{asg("a", ts("s")), defv("out", "a")},
	{def("x", ti(1)), def("y", ts("two"))},
	{def("x", &TV{K: "m", Keys: []string{"k"}, Kids: []*TV{ti(1)}}), def("y", &TV{K: "a", Kids: []*TV{ti(1), ti(2)}})},
	{sel("m", "k", ti(7))},
	{sel("m", "k", ti(7)), sel("m", "j", ts("s"))},
	{defv("out", "a"), failStmt, def("x", ti(1))},
	{asg("a", ti(9)), failStmt},
	{failStmt},
	{def("a", ti(1))},
	{defv("out", "zz")},
	{asg("b", ti(2))},
	{def("x", &TV{K: "ia", Kids: []*TV{ti(1), ti(2)}}), defv("out", "x")},
	{def("out", &TV{K: "u"})},
	{def("x", &TV{K: "e", Kids: []*TV{ts("e")}})},
	{sel("m", "k", ti(1)), defv("out", "a")},
	{asgv("a", "b"), asg("b", ti(3))},
	{def("x", ti(1)), asgv("x", "a"), defv("out", "x")},
	{def("x", &TV{K: "im", Keys: []string{"k"}, Kids: []*TV{&TV{K: "a", Kids: []*TV{ti(1)}}}}), asg("a", &TV{K: "y", S: []byte("hi")})},
	{sel("a", "k", &TV{K: "a", Kids: []*TV{ti(1)}}), def("y", ti(2))},
	// variables declared inside top-level blocks / loops BEFORE later top-level declarations
	{hid(0), def("out", ti(1))},
	{def("x", ti(1)), hid(1), defv("out", "a"), def("y", ts("s"))},
	{hid(2), def("b", ti(7))},
	{hid(3), hid(0), def("x", &TV{K: "m", Keys: []string{"k"}, Kids: []*TV{ti(1)}}), asgv("x", "a"), def("y", &TV{K: "a", Kids: []*TV{ti(2)}})},
	{hid(1), sel("m", "k", ti(1)), def("y", ti(2)), hid(4), def("out", &TV{K: "ia", Kids: []*TV{ti(3)}})},
	{hid(4), defv("out", "a"), failStmt, def("x", ti(1))},
}

func mutates(src []stmt) bool {
	for _, s := range src {
		if s.K == "sel" {
			return true
		}
	}
	return false
}

func srcText(src []stmt) string {
	var sb strings.Builder
	for _, s := range src {
		rhs := s.Var
		if rhs == "" && s.V != nil {
			if s.Txt != "" {
				rhs = s.Txt
			} else {
				rhs = s.V.src()
			}
		}
		switch s.K {
		case "def":
			sb.WriteString(s.Dst + " := " + rhs + "\n")
		case "asg":
			sb.WriteString(s.Dst + " = " + rhs + "\n")
		case "sel":
			sb.WriteString(s.Dst + "." + s.Key + " = " + rhs + "\n")
		case "fail":
			sb.WriteString("1 + \"s\"\n")
		case "hid":
			sb.WriteString(hiddenShapes[s.N%len(hiddenShapes)] + "\n")
		case "ext":
			sb.WriteString(s.Dst + " := " + strings.ReplaceAll(extShapes[s.N], "V", s.Var) + "\n")
		}
	}
	return sb.String()
}

func srcSexp(src []stmt) string {
	var parts []string
	for _, s := range src {
		e := ""
		if s.Var != "" {
			e = "(var " + lib.HexS(s.Var) + ")"
		} else if s.V != nil {
			e = "(const " + s.V.sexp() + ")"
		}
		switch s.K {
		case "def", "asg":
			parts = append(parts, "("+s.K+" "+lib.HexS(s.Dst)+" "+e+")")
		case "sel":
			parts = append(parts, "(sel "+lib.HexS(s.Dst)+" "+lib.HexS(s.Key)+" "+s.V.sexp()+")")
		case "fail":
			parts = append(parts, "(fail)")
		case "hid":
			parts = append(parts, "(hid "+lib.N(s.N)+")")
		}
	}
	return "(" + strings.Join(parts, " ") + ")"
}

// ---- operations ----

type op struct {
	K    string // new add remove compile set run get getall isdef clone
	H    int    // handle
	Name string
	G    interface{} // add, set (a fresh Go value)
	GS   string      // its canonical print, taken before any call
	Src  []stmt      // new
	Ctx  bool        // run through RunContext
}

func (o op) sexp() string {
	switch o.K {
	case "new":
		return "(new " + srcSexp(o.Src) + ")"
	case "add", "set":
		return "(" + o.K + " " + lib.N(o.H) + " " + lib.HexS(o.Name) + " " + o.GS + ")"
	case "remove", "get", "isdef":
		return "(" + o.K + " " + lib.N(o.H) + " " + lib.HexS(o.Name) + ")"
	}
	return "(" + o.K + " " + lib.N(o.H) + ")"
}

func (o op) human() string {
	switch o.K {
	case "new":
		return "NewScript(" + fmt.Sprintf("%q", srcText(o.Src)) + ")"
	case "add":
		return fmt.Sprintf("s%d.Add(%q, %s)", o.H, o.Name, o.GS)
	case "set":
		return fmt.Sprintf("c%d.Set(%q, %s)", o.H, o.Name, o.GS)
	case "remove":
		return fmt.Sprintf("s%d.Remove(%q)", o.H, o.Name)
	case "compile":
		return fmt.Sprintf("s%d.Compile()", o.H)
	case "get":
		return fmt.Sprintf("c%d.Get(%q)", o.H, o.Name)
	case "isdef":
		return fmt.Sprintf("c%d.IsDefined(%q)", o.H, o.Name)
	case "getall":
		return fmt.Sprintf("c%d.GetAll()", o.H)
	case "run":
		return fmt.Sprintf("c%d.Run()", o.H)
	}
	return fmt.Sprintf("c%d.Clone()", o.H)
}

func showVars(names []string, val func(string) string) string {
	sort.Strings(names)
	var sb strings.Builder
	for _, n := range names {
		sb.WriteString(" (" + lib.HexS(n) + " " + val(n) + ")")
	}
	return "(vars" + sb.String() + ")"
}

// ---- the real API ----

type realState struct {
	scripts  []*tengo.Script
	compiled []*tengo.Compiled
	read     []*tengo.Variable // the variables handed out by the last Get / GetAll
}

func between(s, a, b string) (string, bool) {
	i := strings.Index(s, a)
	if i < 0 {
		return "", false
	}
	r := s[i+len(a):]
	j := strings.Index(r, b)
	if j < 0 {
		return "", false
	}
	return r[:j], true
}

func compileErrClass(err error) string {
	e := err.Error()
	if n, ok := between(e, "unresolved reference '", "'"); ok {
		return "(err (unresolved " + lib.HexS(n) + "))"
	}
	if n, ok := between(e, "Compile Error: '", "' redeclared in this block"); ok {
		return "(err (redeclared " + lib.HexS(n) + "))"
	}
	return "(err (other " + lib.HexS(e) + "))"
}

func (st *realState) do(o op) (out string) {
	defer func() {
		if p := recover(); p != nil {
			out = "(panic " + lib.HexS(fmt.Sprint(p)) + ")"
		}
	}()
	st.read = nil
	switch o.K {
	case "new":
		st.scripts = append(st.scripts, tengo.NewScript([]byte(srcText(o.Src))))
		return "(script " + lib.N(len(st.scripts)-1) + ")"
	case "add", "remove", "compile":
		if o.H >= len(st.scripts) {
			return "nohandle"
		}
		s := st.scripts[o.H]
		switch o.K {
		case "add":
			if err := s.Add(o.Name, o.G); err != nil {
				return "(err (conv " + errClass(err) + "))"
			}
			return "ok"
		case "remove":
			return "(bool " + lib.B(s.Remove(o.Name)) + ")"
		}
		c, err := s.Compile()
		if err != nil {
			return compileErrClass(err)
		}
		st.compiled = append(st.compiled, c)
		return "(compiled " + lib.N(len(st.compiled)-1) + ")"
	}
	if o.H >= len(st.compiled) {
		return "nohandle"
	}
	c := st.compiled[o.H]
	switch o.K {
	case "set":
		err := c.Set(o.Name, o.G)
		if err == nil {
			return "ok"
		}
		if err.Error() == "'"+o.Name+"' is not defined" {
			return "(err (notdef " + lib.HexS(o.Name) + "))"
		}
		return "(err (conv " + errClass(err) + "))"
	case "run":
		var err error
		if o.Ctx {
			err = c.RunContext(context.Background())
		} else {
			err = c.Run()
		}
		if err == nil {
			return "ok"
		}
		if strings.HasPrefix(err.Error(), "Runtime Error") {
			return "(err runtime)"
		}
		return "(err (other " + lib.HexS(err.Error()) + "))"
	case "get":
		v := c.Get(o.Name)
		if v.Name() != o.Name {
			return "(val-with-wrong-name " + lib.HexS(v.Name()) + ")"
		}
		st.read = []*tengo.Variable{v}
		return "(val " + tvOf(v.Object()).sexp() + ")"
	case "getall":
		m := map[string]string{}
		var names []string
		for _, v := range c.GetAll() {
			if _, dup := m[v.Name()]; dup {
				return "(vars-duplicate " + lib.HexS(v.Name()) + ")"
			}
			m[v.Name()] = tvOf(v.Object()).sexp()
			names = append(names, v.Name())
			st.read = append(st.read, v)
		}
		return showVars(names, func(n string) string { return m[n] })
	case "isdef":
		return "(bool " + lib.B(c.IsDefined(o.Name)) + ")"
	case "clone":
		st.compiled = append(st.compiled, c.Clone())
		return "(compiled " + lib.N(len(st.compiled)-1) + ")"
	}
	return "bad-op"
}

// ---- the abstract specification, in Go: every handle maps names to their last value ----

type refScript struct {
	vars map[string]*TV
	src  []stmt
}
type refCompiled struct {
	env  map[string]*TV // nil = declared, not assigned yet
	code []stmt
}
type refState struct {
	scripts  []*refScript
	compiled []*refCompiled
	maxStr   int
	maxBytes int
}

func (st *refState) do(o op) string {
	switch o.K {
	case "new":
		st.scripts = append(st.scripts, &refScript{vars: map[string]*TV{}, src: o.Src})
		return "(script " + lib.N(len(st.scripts)-1) + ")"
	case "add", "remove", "compile":
		if o.H >= len(st.scripts) {
			return "nohandle"
		}
		s := st.scripts[o.H]
		switch o.K {
		case "add":
			v, ec := refConv(o.G, st.maxStr, st.maxBytes)
			if ec != "" {
				return "(err (conv " + ec + "))"
			}
			s.vars[o.Name] = v
			return "ok"
		case "remove":
			_, ok := s.vars[o.Name]
			delete(s.vars, o.Name)
			return "(bool " + lib.B(ok) + ")"
		}
		// Compile: names declared so far; := must be new, = and reads must resolve
		env := map[string]*TV{}
		for n, v := range s.vars {
			env[n] = v
		}
		for _, t := range s.src {
			if t.K == "hid" {
				continue // block-scoped variables are no names of the Compiled
			}
			_, known := env[t.Dst]
			if (t.K == "def" || t.K == "ext") && known {
				return "(err (redeclared " + lib.HexS(t.Dst) + "))"
			}
			if (t.K == "asg" || t.K == "sel") && !known {
				return "(err (unresolved " + lib.HexS(t.Dst) + "))"
			}
			if _, ok := env[t.Var]; t.Var != "" && !ok {
				return "(err (unresolved " + lib.HexS(t.Var) + "))"
			}
			if t.K == "def" || t.K == "ext" {
				env[t.Dst] = nil
			}
		}
		st.compiled = append(st.compiled, &refCompiled{env: env, code: s.src})
		return "(compiled " + lib.N(len(st.compiled)-1) + ")"
	}
	if o.H >= len(st.compiled) {
		return "nohandle"
	}
	c := st.compiled[o.H]
	val := func(n string) *TV {
		if v := c.env[n]; v != nil {
			return v
		}
		return &TV{K: "u"}
	}
	switch o.K {
	case "set":
		v, ec := refConv(o.G, st.maxStr, st.maxBytes)
		if ec != "" {
			return "(err (conv " + ec + "))"
		}
		if _, ok := c.env[o.Name]; !ok {
			return "(err (notdef " + lib.HexS(o.Name) + "))"
		}
		c.env[o.Name] = v
		return "ok"
	case "run":
		for _, t := range c.code {
			switch t.K {
			case "def", "asg":
				if t.Var != "" {
					c.env[t.Dst] = c.env[t.Var]
				} else {
					c.env[t.Dst] = t.V
				}
			case "sel":
				m := c.env[t.Dst]
				if m == nil || m.K != "m" {
					return "(err runtime)"
				}
				n := &TV{K: "m", Keys: append([]string{}, m.Keys...), Kids: append([]*TV{}, m.Kids...)}
				found := false
				for i, k := range n.Keys {
					if k == t.Key {
						n.Kids[i], found = t.V, true
					}
				}
				if !found {
					n.Keys, n.Kids = append(n.Keys, t.Key), append(n.Kids, t.V)
				}
				c.env[t.Dst] = n
			case "ext":
				c.env[t.Dst] = extEval(t.N, c.env[t.Var])
			case "fail":
				return "(err runtime)"
			}
		}
		return "ok"
	case "get":
		return "(val " + val(o.Name).sexp() + ")"
	case "getall":
		var names []string
		for n := range c.env {
			names = append(names, n)
		}
		return showVars(names, func(n string) string { return val(n).sexp() })
	case "isdef":
		return "(bool " + lib.B(val(o.Name).K != "u") + ")"
	case "clone":
		env := map[string]*TV{}
		for n, v := range c.env {
			if v != nil {
				v = copyTV(v)
			}
			env[n] = v
		}
		st.compiled = append(st.compiled, &refCompiled{env: env, code: c.code})
		return "(compiled " + lib.N(len(st.compiled)-1) + ")"
	}
	return "bad-op"
}

// ---- running one history on the real API, the Go specification and the two Lean machines ----

type apiInput struct {
	Stream   string   `json:"stream"`
	CaseSeed uint64   `json:"case_seed,omitempty"`
	Exh      string   `json:"exhaustive,omitempty"`
	MaxStr   int      `json:"max_string_len"`
	MaxBytes int      `json:"max_bytes_len"`
	History  []string `json:"history"`
	Step     int      `json:"first_differing_call"`
}

func sigFor(o op, real, want string) string {
	switch o.K {
	case "set":
		if real == "ok" && strings.HasPrefix(want, "(err (notdef") {
			return "set-accepts-undeclared-name"
		}
		return "set-result-differs"
	case "get":
		return "get-not-last-value"
	case "getall":
		return "getall-not-last-values"
	case "isdef":
		return "isdefined-disagrees-with-last-value"
	case "run":
		return "run-outcome-differs"
	case "compile":
		return "compile-outcome-differs"
	case "add":
		return "add-result-differs"
	case "remove":
		return "remove-result-differs"
	}
	return "api-" + o.K + "-differs"
}

func runHistory(stream string, ops []op, maxStr, maxBytes int, in apiInput, askModel bool) (violated bool) {
	savedS, savedB := tengo.MaxStringLen, tengo.MaxBytesLen
	tengo.MaxStringLen, tengo.MaxBytesLen = maxStr, maxBytes
	defer func() { tengo.MaxStringLen, tengo.MaxBytesLen = savedS, savedB }()
	for i := range ops {
		if ops[i].K == "add" || ops[i].K == "set" {
			ops[i].GS = canonG(ops[i].G)
		}
	}
	in.Stream, in.MaxStr, in.MaxBytes = stream, maxStr, maxBytes
	for _, o := range ops {
		in.History = append(in.History, o.human())
	}
	rs, ref := &realState{}, &refState{maxStr: maxStr, maxBytes: maxBytes}
	reals, refs := make([]string, len(ops)), make([]string, len(ops))
	nontrivial := false
	for i, o := range ops {
		// the specification first: it reads o.G before the real code can touch it
		refs[i] = ref.do(o)
		reals[i] = rs.do(o)
		if reals[i] == refs[i] && !violated {
			// the object read is the last value; every typed reading of it must be that value's too
			for _, v := range rs.read {
				if what, got, want, bad := badReading(v); bad {
					in.Step = i
					res.Violate(lib.Violation{Signature: "variable-" + strings.ToLower(what) + "-of-read-variable-not-last-value", Stream: stream, Input: in,
						Observed: fmt.Sprintf("call %d %s: %s.%s() = %s", i, o.human(), v.Name(), what, clip(got, 300)),
						Expected: clip(want, 300), Oracle: "the object read is " + clip(tvOf(v.Object()).sexp(), 200) + " (= the last value); Value() is its documented Go value and the typed accessors follow the coercion table of docs/runtime-types.md"})
					violated = true
					break
				}
			}
		}
		if o.K == "clone" || o.K == "set" || (o.K == "run" && refs[i] != "ok") {
			nontrivial = true
		}
	}
	res.Count(stream, strings.Join(in.History, ";"), nontrivial)
	for i := range ops {
		res.Dist("op:" + ops[i].K)
		if strings.HasPrefix(refs[i], "(err ") {
			res.Dist("out:" + strings.SplitN(strings.TrimPrefix(refs[i], "(err "), " ", 2)[0])
		}
		if reals[i] != refs[i] && !violated {
			in.Step = i
			res.Violate(lib.Violation{Signature: sigFor(ops[i], reals[i], refs[i]), Stream: stream, Input: in,
				Observed: fmt.Sprintf("call %d %s = %s", i, ops[i].human(), clip(reals[i], 300)),
				Expected: clip(refs[i], 300), Oracle: "abstract specification replayed in Go: each handle maps names to the last value set by the host or assigned by its script"})
			violated = true
		}
	}
	if drv == nil || !askModel {
		return
	}
	var parts []string
	for _, o := range ops {
		parts = append(parts, o.sexp())
	}
	body := lib.N(maxStr) + " " + lib.N(maxBytes) + " " + strings.Join(parts, " ")
	ans, err := drv.Batch([]string{"(api " + body + ")", "(aapi " + body + ")"})
	if err != nil {
		fatal(err)
	}
	res.ModelLines += 2
	if want := "ok " + strings.Join(reals, " "); ans[0] != want {
		res.Disagree(lib.Disagreement{Stream: stream, Input: in, Model: clip(firstDiff(ans[0], want), 400), Impl: clip(firstDiff(want, ans[0]), 400)})
	}
	if want := "ok " + strings.Join(refs, " "); ans[1] != want {
		res.Disagree(lib.Disagreement{Stream: stream + "-absspec", Input: in, Model: clip(firstDiff(ans[1], want), 400), Impl: clip(firstDiff(want, ans[1]), 400)})
	}
	return
}

func firstDiff(a, b string) string {
	i := 0
	for i < len(a) && i < len(b) && a[i] == b[i] {
		i++
	}
	j := i - 40
	if j < 0 {
		j = 0
	}
	return fmt.Sprintf("…@%d %s", i, a[j:])
}

// ---- random histories ----

var names3 = []string{"a", "b", "m"}
var readNames = []string{"a", "b", "m", "out", "x", "y", "zz"}

func genAPIValue(r *lib.RNG, maxStr, maxBytes int) interface{} {
	switch r.Intn(10) {
	case 0, 1, 2:
		return map[string]interface{}{"k": genGoOK(r, 1, 0, maxStr, maxBytes), "z": int(r.Intn(5))}
	case 3:
		return genGoOK(r, 2, 3, maxStr, maxBytes)
	case 4:
		return genTV(r, 2).obj()
	}
	return genGoOK(r, 1, 0, maxStr, maxBytes)
}

func genHistory(r *lib.RNG, maxStr, maxBytes int) []op {
	return genHistoryWith(r, maxStr, maxBytes, false)
}

// boolMode: scripts mostly from boolFamily, values mostly booleans (top level and nested), more clones.
func genHistoryWith(r *lib.RNG, maxStr, maxBytes int, boolMode bool) []op {
	return genHistoryFrom(r, maxStr, maxBytes, boolMode, nil, nil)
}

// genHistoryFrom: pickScript / pickValue (when not nil) replace the script family and the value generator
// (literals.go); with nil the choices and the order of the random draws are those of genHistoryWith.
func genHistoryFrom(r *lib.RNG, maxStr, maxBytes int, boolMode bool, pickScript func(*lib.RNG) []stmt, pickValue func(*lib.RNG) interface{}) []op {
	n := 4 + r.Intn(27)
	value := func() interface{} {
		if pickValue != nil {
			return pickValue(r)
		}
		if boolMode {
			return genBoolValue(r, maxStr, maxBytes)
		}
		return genAPIValue(r, maxStr, maxBytes)
	}
	weights := []int{6, 1, 4, 5, 5, 5, 2, 3, 2}
	if boolMode {
		weights = []int{6, 1, 4, 4, 5, 4, 3, 1, 5}
	}
	var ops []op
	type sc struct {
		src      []stmt
		compiles int
	}
	var scripts []*sc
	ncompiled := 0
	// keep a shadow of what compiles, to stay within existing handles
	shadow := &refState{maxStr: 1 << 30, maxBytes: 1 << 30}
	push := func(o op) {
		out := shadow.do(o)
		if o.K == "compile" && strings.HasPrefix(out, "(compiled") || o.K == "clone" {
			ncompiled++
		}
		ops = append(ops, o)
	}
	for len(ops) < n {
		if len(scripts) == 0 || (len(scripts) < 3 && r.Chance(1, 10)) {
			src := family[r.Intn(len(family))]
			if boolMode && r.Chance(3, 4) {
				src = boolFamily[r.Intn(len(boolFamily))]
			}
			if pickScript != nil {
				src = pickScript(r)
			}
			scripts = append(scripts, &sc{src: src})
			push(op{K: "new", Src: src})
			continue
		}
		k := r.Weighted(weights)
		if ncompiled == 0 && k >= 3 {
			k = r.Weighted([]int{3, 1, 3})
		}
		switch k {
		case 0:
			push(op{K: "add", H: r.Intn(len(scripts)), Name: lib.Pick(r, names3), G: value()})
		case 1:
			push(op{K: "remove", H: r.Intn(len(scripts)), Name: lib.Pick(r, names3)})
		case 2:
			h := r.Intn(len(scripts))
			// known finding C15-1: Compile shares the objects made by Add between all Compiled of one Script;
			// a script that updates an input in place is compiled at most once here.
			if mutates(scripts[h].src) && scripts[h].compiles > 0 {
				continue
			}
			scripts[h].compiles++
			push(op{K: "compile", H: h})
		case 3:
			push(op{K: "set", H: r.Intn(ncompiled), Name: lib.Pick(r, readNames), G: value()})
		case 4:
			push(op{K: "run", H: r.Intn(ncompiled), Ctx: r.Bool()})
		case 5:
			push(op{K: "get", H: r.Intn(ncompiled), Name: lib.Pick(r, readNames)})
		case 6:
			push(op{K: "getall", H: r.Intn(ncompiled)})
		case 7:
			push(op{K: "isdef", H: r.Intn(ncompiled), Name: lib.Pick(r, readNames)})
		case 8:
			push(op{K: "clone", H: r.Intn(ncompiled)})
		}
	}
	// observe everything at the end
	for h := 0; h < ncompiled; h++ {
		ops = append(ops, op{K: "getall", H: h})
	}
	return ops
}

// ---- exhaustive short histories: 6 kinds of call x 3 names x 3 values over one script ----

var exhValues = []func() interface{}{
	func() interface{} { return 1 },
	func() interface{} { return map[string]interface{}{"k": "v"} },
	func() interface{} { return nil },
}

func exhAlphabet() []op {
	var a []op
	for _, n := range names3 {
		for _, v := range exhValues {
			a = append(a, op{K: "add", Name: n, G: v})
			a = append(a, op{K: "set", Name: n, G: v})
		}
		a = append(a, op{K: "remove", Name: n})
	}
	a = append(a, op{K: "compile"}, op{K: "run"}, op{K: "clone"})
	return a
}

// exhaustive enumerates all histories of exactly `length` calls from the alphabet over script `si`; Set/Run/Clone go
// to the newest Compiled; after the calls every Compiled is read completely (GetAll, IsDefined, Get of an unknown name).
func exhaustive(si, length int, modelEvery int) (count int) {
	alpha := exhAlphabet()
	src := family[si]
	idx := make([]int, length)
	for {
		ops := []op{{K: "new", Src: src}}
		ncomp, compiles, skip := 0, 0, false
		for _, i := range idx {
			o := alpha[i]
			if f, ok := o.G.(func() interface{}); ok {
				o.G = f()
			}
			switch o.K {
			case "compile":
				compiles++
				if mutates(src) && compiles > 1 {
					skip = true // known finding C15-1 (see genHistory)
				}
				// whether it succeeds is decided by the replay; handles are counted from the outputs below
			case "set", "run", "clone":
				o.H = -1 // newest, resolved below
			}
			ops = append(ops, o)
		}
		if !skip {
			// resolve "newest compiled" with the Go specification as shadow
			sh := &refState{maxStr: 1 << 30, maxBytes: 1 << 30}
			for j := range ops {
				if ops[j].H == -1 {
					ops[j].H = ncomp - 1
					if ncomp == 0 {
						ops[j].H = 0 // no handle yet: the call must answer "nohandle" … which the real API cannot; drop it
						skip = true
						break
					}
				}
				out := sh.do(ops[j])
				if strings.HasPrefix(out, "(compiled") {
					ncomp++
				}
			}
			if !skip {
				for h := 0; h < ncomp; h++ {
					ops = append(ops, op{K: "getall", H: h}, op{K: "get", H: h, Name: "zz"})
					for _, n := range []string{"a", "out", "zz"} {
						ops = append(ops, op{K: "isdef", H: h, Name: n})
					}
				}
				count++
				runHistory("api-exhaustive", ops, 1<<30, 1<<30, apiInput{Exh: fmt.Sprintf("script=%d len=%d index=%v", si, length, idx)}, modelEvery > 0 && count%modelEvery == 0)
			}
		}
		// next index vector
		p := length - 1
		for p >= 0 {
			idx[p]++
			if idx[p] < len(alpha) {
				break
			}
			idx[p] = 0
			p--
		}
		if p < 0 {
			return
		}
	}
}

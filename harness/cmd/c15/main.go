// Command c15: correspondence and searchers for C15 (host/script value exchange is coherent over any
// sequence of API calls).
//
// Streams
//
//	conv      Go values of every supported and many unsupported types -> tengo.FromInterface -> tengo.ToInterface.
//	          searcher: round trip == normalisation written from docs/interoperability.md + runtime-types.md
//	          (canonical print and reflect.DeepEqual); FromInterface == conversion table + limits.
//	          correspondence: `from`, `to`, `go-norm` lines of the Lean model.
//	acc       typed accessors of Variable vs the coercion table of docs/runtime-types.md (hard-coded here);
//	          correspondence: `var-acc`.
//	api       call histories (<= 30 calls) over a family of small scripts, several Script/Compiled/clone handles
//	          alive; searcher: the abstract specification re-implemented in Go (maps of last values);
//	          correspondence: `api` (concrete Lean model) and `aapi` (Lean specification vs the Go one).
//	api-exhaustive  all histories of <= 3 (quick) / <= 4 (thorough) calls over 6 calls x 3 names x 3 values.
//	eval      tengo.Eval(expr, params) == `__res__ := (expr)` run by hand; correspondence `api-eval`.
package main

import (
	"context"
	"encoding/json"
	"fmt"
	"math"
	"os"
	"reflect"
	"sort"
	"strconv"
	"strings"

	"github.com/d5/tengo/v2"
	"verifharness/lib"
)

var (
	res *lib.Result
	drv *lib.Driver
)

func fatal(err error) {
	fmt.Fprintln(os.Stderr, "c15:", err)
	os.Exit(3)
}

func clip(s string, n int) string {
	if len(s) > n {
		return s[:n] + "…"
	}
	return s
}

func ask(line string) string {
	ans, err := drv.Ask(line)
	if err != nil {
		fatal(err)
	}
	res.ModelLines++
	return ans
}

type convInput struct {
	Stream   string `json:"stream"`
	CaseSeed uint64 `json:"case_seed"`
	MaxStr   int    `json:"max_string_len"`
	MaxBytes int    `json:"max_bytes_len"`
	Value    string `json:"go_value"`
}

func withLimits(maxStr, maxBytes int, f func()) {
	savedS, savedB := tengo.MaxStringLen, tengo.MaxBytesLen
	tengo.MaxStringLen, tengo.MaxBytesLen = maxStr, maxBytes
	defer func() { tengo.MaxStringLen, tengo.MaxBytesLen = savedS, savedB }()
	f()
}

// ---- conv ----

func checkConv(seed uint64, g interface{}, maxStr, maxBytes int) {
	gs := canonG(g)
	in := convInput{"conv", seed, maxStr, maxBytes, clip(gs, 600)}
	var o tengo.Object
	var err error
	withLimits(maxStr, maxBytes, func() { o, err = tengo.FromInterface(g) })
	want, wantErr := refConv(g, maxStr, maxBytes)
	nbad, viaMap := badLeaves(g, maxStr, maxBytes)
	res.Count("conv", gs, strings.Contains(gs, "(map") || strings.Contains(gs, "(slice") || err != nil)
	res.Dist("conv:" + strings.SplitN(strings.Trim(gs, "()"), " ", 2)[0])
	exactErr := nbad <= 1 || !viaMap
	// searcher 1: FromInterface follows the documented table and limits
	switch {
	case (err != nil) != (wantErr != ""):
		res.Violate(lib.Violation{Signature: "frominterface-error-not-as-documented", Stream: "conv", Input: in,
			Observed: fmt.Sprint(err), Expected: "error iff unsupported type or over-limit string/bytes: " + wantErr,
			Oracle: "conversion table of docs/interoperability.md + MaxStringLen/MaxBytesLen"})
		return
	case err != nil:
		res.Dist("conv-err:" + strings.SplitN(strings.Trim(wantErr, "()"), " ", 2)[0])
		if exactErr && errClass(err) != wantErr {
			res.Violate(lib.Violation{Signature: "frominterface-wrong-error", Stream: "conv", Input: in,
				Observed: errClass(err), Expected: wantErr, Oracle: "conversion table + limits"})
			return
		}
	default:
		if got := tvOf(o).sexp(); got != want.sexp() {
			res.Violate(lib.Violation{Signature: "frominterface-wrong-object", Stream: "conv", Input: in,
				Observed: clip(got, 400), Expected: clip(want.sexp(), 400), Oracle: "conversion table of docs/interoperability.md"})
			return
		}
	}
	// correspondence: from
	if drv != nil {
		ans := ask(lib.L("from", lib.N(maxStr), lib.N(maxBytes), gs))
		impl := "err " + errClass(err)
		if err == nil {
			impl = "ok " + tvOf(o).sexp()
		}
		if ans != impl && (err == nil || exactErr || !strings.HasPrefix(ans, "err ")) {
			res.Disagree(lib.Disagreement{Stream: "from", Input: in, Model: clip(ans, 400), Impl: clip(impl, 400)})
		}
	}
	if err != nil {
		return
	}
	tab := strtab(o)
	r := tengo.ToInterface(o)
	rs := canonG(r)
	// searcher 2: round trip == documented normalisation
	n := normalizeGo(g)
	ns := canonG(n)
	if rs != ns {
		res.Violate(lib.Violation{Signature: "roundtrip-not-normalisation", Stream: "conv", Input: in,
			Observed: clip(rs, 400), Expected: clip(ns, 400), Oracle: "ToInterface(FromInterface(g)) == normalize(g) (int kinds->int64, byte/rune->rune, error->its message form, containers converted)"})
		return
	}
	if !hasNaNOrFunc(r) && !reflect.DeepEqual(r, n) {
		res.Violate(lib.Violation{Signature: "roundtrip-not-deepequal-normalisation", Stream: "conv", Input: in,
			Observed: fmt.Sprintf("%#v", r), Expected: fmt.Sprintf("%#v", n), Oracle: "reflect.DeepEqual(ToInterface(FromInterface(g)), normalize(g))"})
		return
	}
	if drv != nil {
		if ans := ask(lib.L("to", tvOf(o).sexp(), tab)); ans != "ok "+rs {
			res.Disagree(lib.Disagreement{Stream: "to", Input: in, Model: clip(ans, 400), Impl: clip("ok "+rs, 400)})
		}
		if ans := ask(lib.L("go-norm", gs, tab)); ans != "ok "+ns {
			res.Disagree(lib.Disagreement{Stream: "go-norm", Input: in, Model: clip(ans, 400), Impl: clip("ok "+ns, 400)})
		}
	}
}

// checkTo: ToInterface on an arbitrary object (also objects FromInterface never builds).
func checkTo(seed uint64, t *TV) {
	o := t.obj()
	in := convInput{"to", seed, 0, 0, t.sexp()}
	r := tengo.ToInterface(o)
	rs := canonG(r)
	res.Count("to", t.sexp(), len(t.Kids) > 0)
	if want := canonG(goOfObject(o)); rs != want {
		res.Violate(lib.Violation{Signature: "tointerface-not-documented-go-type", Stream: "to", Input: in,
			Observed: clip(rs, 400), Expected: clip(want, 400), Oracle: "Go type of each Tengo type per docs/runtime-types.md"})
		return
	}
	if drv != nil {
		if ans := ask(lib.L("to", t.sexp(), strtab(o))); ans != "ok "+rs {
			res.Disagree(lib.Disagreement{Stream: "to", Input: in, Model: clip(ans, 400), Impl: clip("ok "+rs, 400)})
		}
	}
}

// ---- acc ----

var accessors = []string{"Int", "Int64", "Float", "Char", "Bool", "String", "Bytes", "Array", "Map", "Error", "IsUndefined"}

func accReal(v *tengo.Variable, a string) string {
	switch a {
	case "Int":
		return "(int " + lib.I(int64(v.Int())) + ")"
	case "Int64":
		return "(int " + lib.I(v.Int64()) + ")"
	case "Float":
		return "(float " + lib.U(fbits(v.Float())) + ")"
	case "Char":
		return "(int " + lib.I(int64(v.Char())) + ")"
	case "Bool":
		return "(bool " + lib.B(v.Bool()) + ")"
	case "String":
		return "(str " + lib.HexS(v.String()) + ")"
	case "Bytes":
		return "(bytes " + lib.Hex(v.Bytes()) + ")"
	case "Array":
		if x := v.Array(); x != nil {
			return "(slice " + canonG(x) + ")"
		}
		return "(slice nil)"
	case "Map":
		if x := v.Map(); x != nil {
			return "(map " + canonG(x) + ")"
		}
		return "(map nil)"
	case "Error":
		if e := v.Error(); e != nil {
			return "(err " + lib.HexS(e.Error()) + ")"
		}
		return "(err nil)"
	}
	return "(bool " + lib.B(v.IsUndefined()) + ")"
}

// accExpected: the coercion table of docs/runtime-types.md, row by row. "" = not pinned down here.
func accExpected(o tengo.Object, a string) string {
	zero := map[string]string{"Int": "(int 0)", "Int64": "(int 0)", "Float": "(float 0)", "Char": "(int 0)", "Bool": "(bool 0)",
		"String": "(str #)", "Bytes": "(bytes #)", "Array": "(slice nil)", "Map": "(map nil)", "Error": "(err nil)", "IsUndefined": "(bool 0)"}
	row := map[string]string{}
	switch v := o.(type) {
	case *tengo.Int:
		row["Int"], row["Int64"] = "(int "+lib.I(v.Value)+")", "(int "+lib.I(v.Value)+")"
		row["String"] = "(str " + lib.HexS(strconv.FormatInt(v.Value, 10)) + ")"
		row["Float"] = "(float " + lib.U(fbits(float64(v.Value))) + ")"
		row["Bool"] = "(bool " + lib.B(v.Value != 0) + ")"
		row["Char"] = "(int " + lib.I(int64(rune(v.Value))) + ")"
	case *tengo.String:
		row["String"] = "(str " + lib.HexS(v.Value) + ")"
		if n, err := strconv.ParseInt(v.Value, 10, 64); err == nil {
			row["Int"], row["Int64"] = "(int "+lib.I(n)+")", "(int "+lib.I(n)+")"
		}
		if f, err := strconv.ParseFloat(v.Value, 64); err == nil {
			row["Float"] = "(float " + lib.U(fbits(f)) + ")"
		}
		row["Bool"] = "(bool " + lib.B(len(v.Value) > 0) + ")"
		row["Bytes"] = "(bytes " + lib.HexS(v.Value) + ")"
	case *tengo.Float:
		row["Float"] = "(float " + lib.U(fbits(v.Value)) + ")"
		if math.Abs(v.Value) < 9.2e18 {
			n := int64(math.Trunc(v.Value))
			row["Int"], row["Int64"] = "(int "+lib.I(n)+")", "(int "+lib.I(n)+")"
		} else {
			row["Int"], row["Int64"] = "", "" // out of range / NaN: platform-defined conversion
		}
		row["String"] = "" // strconv: checked by parsing it back (below)
		row["Bool"] = "(bool " + lib.B(!math.IsNaN(v.Value)) + ")"
	case *tengo.Bool:
		b := !v.IsFalsy()
		one := "0"
		if b {
			one = "1"
		}
		row["Int"], row["Int64"] = "(int "+one+")", "(int "+one+")"
		row["String"] = "(str " + lib.HexS(strconv.FormatBool(b)) + ")"
		row["Bool"] = "(bool " + lib.B(b) + ")"
	case *tengo.Char:
		row["Int"], row["Int64"] = "(int "+lib.I(int64(v.Value))+")", "(int "+lib.I(int64(v.Value))+")"
		row["String"] = "(str " + lib.HexS(string(v.Value)) + ")"
		row["Bool"] = "(bool " + lib.B(v.Value != 0) + ")"
		row["Char"] = "(int " + lib.I(int64(v.Value)) + ")"
	case *tengo.Bytes:
		row["String"] = "(str " + lib.HexS(string(v.Value)) + ")"
		row["Bool"] = "(bool " + lib.B(len(v.Value) > 0) + ")"
		row["Bytes"] = "(bytes " + lib.Hex(v.Value) + ")"
	case *tengo.Array:
		row["String"] = ""
		row["Bool"] = "(bool " + lib.B(len(v.Value) > 0) + ")"
		if len(v.Value) > 0 {
			row["Array"] = "(slice " + canonG(goOfObjects(v.Value)) + ")"
		}
	case *tengo.Map:
		row["String"] = ""
		row["Bool"] = "(bool " + lib.B(len(v.Value) > 0) + ")"
		row["Map"] = "(map " + canonG(goOfObjectMap(v.Value)) + ")"
	case *tengo.Time:
		row["String"] = "(str " + lib.HexS(v.Value.String()) + ")"
		row["Bool"] = "(bool " + lib.B(!v.Value.IsZero()) + ")"
	case *tengo.Error:
		row["String"] = ""
		row["Bool"] = "(bool 0)"
		row["Error"] = "(err " + lib.HexS(goOfObject(v).(error).Error()) + ")"
	case *tengo.Undefined:
		row["IsUndefined"] = "(bool 1)"
	default:
		return "" // not a row of the table
	}
	if e, ok := row[a]; ok {
		return e
	}
	return zero[a]
}

func checkAcc(seed uint64, o tengo.Object) {
	v, err := tengo.NewVariable("v", o)
	if err != nil {
		return
	}
	ts := tvOf(o).sexp()
	pi, pf, f2i, i2f := "none", "none", "0", "0"
	switch x := o.(type) {
	case *tengo.String:
		if n, e := strconv.ParseInt(x.Value, 10, 64); e == nil {
			pi = lib.I(n)
		}
		if f, e := strconv.ParseFloat(x.Value, 64); e == nil {
			pf = lib.U(fbits(f))
		}
	case *tengo.Float:
		f2i = lib.I(int64(x.Value))
	case *tengo.Int:
		i2f = lib.U(fbits(float64(x.Value)))
	}
	tab := strtab(o)
	for _, a := range accessors {
		got := accReal(v, a)
		in := convInput{"acc", seed, 0, 0, a + " of " + clip(ts, 400)}
		res.Count("acc", a+ts, true)
		want := accExpected(o, a)
		if a == "String" && multiMapInside(o) {
			res.Skipped++ // text depends on Go's map iteration order
			continue
		}
		bad := want != "" && got != want
		if want == "" && a == "String" {
			s := v.String()
			switch x := o.(type) {
			case *tengo.Float:
				f, e := strconv.ParseFloat(s, 64)
				bad = e != nil || fbits(f) != fbits(x.Value)
			case *tengo.Array:
				bad = !strings.HasPrefix(s, "[") || !strings.HasSuffix(s, "]")
			case *tengo.Map:
				bad = !strings.HasPrefix(s, "{") || !strings.HasSuffix(s, "}")
			case *tengo.Error:
				bad = !strings.HasPrefix(s, "error: ")
			}
			want = "strconv / \"[...]\" / \"{...}\" / \"error: ...\" form"
		}
		if bad {
			res.Violate(lib.Violation{Signature: "variable-" + strings.ToLower(a) + "-not-coercion-table", Stream: "acc", Input: in,
				Observed: clip(got, 300), Expected: clip(want, 300), Oracle: "Type Conversion/Coercion Table of docs/runtime-types.md"})
			continue
		}
		if drv != nil {
			ans := strings.Replace(ask(lib.L("var-acc", a, ts, tab, pi, pf, f2i, i2f)), "(bytes nil)", "(bytes #)", 1)
			if ans != "ok "+got {
				res.Disagree(lib.Disagreement{Stream: "var-acc", Input: in, Model: clip(ans, 300), Impl: clip("ok "+got, 300)})
			}
		}
	}
}

// ---- eval ----

var evalExprs = []string{"a", "b", "s", "m", "5", "\"lit\"", "a + b", "a * 2 - b", "s + \"x\"", "len(s)", "[a, b]", "{k: a}", "m.k", "m.nope",
	"a > b ? a : b", "undefined", "zz", "a +", "", "   ", "  a  ", "1 + \"s\"", "func() { return a }()", "error(a)", "immutable([a])", "is_undefined(u)", "u",
	"a) + (b", "__res__"}

type evalInput struct {
	Stream   string   `json:"stream"`
	CaseSeed uint64   `json:"case_seed"`
	Expr     string   `json:"expr"`
	Params   []string `json:"params"`
}

func checkEval(seed uint64, r *lib.RNG) {
	expr := lib.Pick(r, evalExprs)
	mk := func() map[string]interface{} { // same RNG stream twice would diverge: build once, values are not mutated by Eval
		p := map[string]interface{}{}
		if r.Chance(7, 8) {
			p["a"] = int(lib.Pick(r, intPool))
		}
		if r.Chance(7, 8) {
			p["b"] = lib.Pick(r, []interface{}{int64(3), 2.5, "str", byte(65)})
		}
		if r.Chance(3, 4) {
			p["s"] = genString(r)
		}
		if r.Chance(3, 4) {
			p["m"] = map[string]interface{}{"k": genGoOK(r, 1, 0, tengo.MaxStringLen, tengo.MaxBytesLen)}
		}
		if r.Chance(1, 2) {
			p["u"] = genGoOK(r, 1, 2, tengo.MaxStringLen, tengo.MaxBytesLen)
		}
		return p
	}
	params := mk()
	in := evalInput{"eval", seed, expr, nil}
	keys := make([]string, 0, len(params))
	for k := range params {
		keys = append(keys, k)
	}
	sort.Strings(keys)
	nbad := 0
	var psexp []string
	for _, k := range keys {
		in.Params = append(in.Params, k+"="+clip(canonG(params[k]), 200))
		psexp = append(psexp, "("+lib.HexS(k)+" "+canonG(params[k])+")")
		if n, _ := badLeaves(params[k], tengo.MaxStringLen, tengo.MaxBytesLen); n > 0 {
			nbad++
		}
	}
	res.Count("eval", expr+strings.Join(in.Params, ","), true)
	got, gerr := tengo.Eval(context.Background(), expr, params)
	// by hand
	var want interface{}
	var werr error
	var wobj tengo.Object
	trimmed := strings.TrimSpace(expr)
	if trimmed == "" {
		if gerr == nil {
			res.Violate(lib.Violation{Signature: "eval-accepts-empty-expression", Stream: "eval", Input: in, Observed: canonG(got), Expected: "an error", Oracle: "eval.go doc: expr must be an expression"})
		}
		return
	}
	s := tengo.NewScript([]byte("__res__ := (" + trimmed + ")"))
	for _, k := range keys {
		if err := s.Add(k, params[k]); err != nil {
			werr = fmt.Errorf("script add: %w", err)
			break
		}
	}
	if werr == nil {
		c, err := s.RunContext(context.Background())
		if err != nil {
			werr = fmt.Errorf("script run: %w", err)
		} else {
			wobj = c.Get("__res__").Object()
			want = c.Get("__res__").Value()
		}
	}
	switch {
	case (gerr != nil) != (werr != nil), gerr != nil && nbad <= 1 && gerr.Error() != werr.Error():
		res.Violate(lib.Violation{Signature: "eval-error-differs-from-script", Stream: "eval", Input: in,
			Observed: fmt.Sprint(gerr), Expected: fmt.Sprint(werr), Oracle: "Eval(expr, params) == `__res__ := (expr)` compiled and run with the same params"})
		return
	case gerr == nil && canonG(got) != canonG(want):
		res.Violate(lib.Violation{Signature: "eval-value-differs-from-script", Stream: "eval", Input: in,
			Observed: clip(canonG(got), 300), Expected: clip(canonG(want), 300), Oracle: "Eval(expr, params) == value of `__res__ := (expr)` run with the same params"})
		return
	}
	if gerr != nil {
		res.Dist("eval:error")
	} else {
		res.Dist("eval:value")
	}
	// correspondence: expressions of the model's language (a parameter name or an int literal)
	if drv == nil || !(trimmed == "5" || len(trimmed) == 1 || trimmed == "zz" || trimmed == "__res__") {
		return
	}
	e := "(var " + lib.HexS(trimmed) + ")"
	if trimmed == "5" {
		e = "(const (i 5))"
	}
	tab := "()"
	if wobj != nil {
		tab = strtab(wobj)
	}
	ans := ask(lib.L("api-eval", lib.N(tengo.MaxStringLen), lib.N(tengo.MaxBytesLen), e, "("+strings.Join(psexp, " ")+")", tab))
	impl := ""
	switch {
	case gerr == nil:
		impl = "ok (value " + canonG(got) + ")"
	case strings.HasPrefix(gerr.Error(), "script add: "):
		impl = "ok (adderr " + errClass(fmt.Errorf("%s", strings.TrimPrefix(gerr.Error(), "script add: "))) + ")"
		if nbad > 1 {
			if strings.HasPrefix(ans, "ok (adderr ") {
				return
			}
		}
	default:
		impl = "ok (runerr " + strings.TrimSuffix(strings.TrimPrefix(compileErrClass(gerr), "(err "), ")") + ")"
	}
	if ans != impl {
		res.Disagree(lib.Disagreement{Stream: "api-eval", Input: in, Model: clip(ans, 300), Impl: clip(impl, 300)})
	}
}

// ---- known finding C15-1 ----

// Compile hands the very objects made by Add to every Compiled of the Script: an in-place update made by one
// Compiled's run shows in its siblings and in later compiles, although the host never set it there.
func probeSharedInputs() (fails bool, observed string) {
	s := tengo.NewScript([]byte("m.x = 2\n"))
	_ = s.Add("m", map[string]interface{}{"x": 1})
	c1, err := s.Compile()
	if err != nil {
		return false, ""
	}
	c2, _ := s.Compile()
	if err := c1.Run(); err != nil {
		return false, ""
	}
	got := tvOf(c2.Get("m").Object()).sexp()
	if got != "(m (#78 (i 1)))" {
		return true, "c2.Get(\"m\") = " + got + " after c1.Run(); the host's last value for c2 is {x: 1}"
	}
	return false, ""
}

// ---- main ----

func convCase(seed uint64) {
	r := lib.NewRNG(seed)
	maxStr, maxBytes := 1<<31-1, 1<<31-1
	if r.Chance(1, 3) {
		maxStr, maxBytes = 4+r.Intn(12), 4+r.Intn(12)
	}
	checkConv(seed, genGo(r, 3, 1+r.Intn(2)*r.Intn(3)), maxStr, maxBytes)
}

func toCase(seed uint64) {
	r := lib.NewRNG(seed)
	checkTo(seed, genTV(r, 3))
}

func accCase(seed uint64) {
	r := lib.NewRNG(seed)
	if r.Chance(1, 4) {
		if o, err := tengo.FromInterface(genGo(r, 2, 0)); err == nil {
			checkAcc(seed, o)
			return
		}
	}
	checkAcc(seed, genTV(r, 2).obj())
}

func apiCase(seed uint64) {
	r := lib.NewRNG(seed)
	maxStr, maxBytes := 1<<31-1, 1<<31-1
	if r.Chance(1, 4) {
		maxStr, maxBytes = 6+r.Intn(10), 6+r.Intn(10)
	}
	runHistory("api", genHistory(r, maxStr, maxBytes), maxStr, maxBytes, apiInput{CaseSeed: seed}, true)
}

func evalCase(seed uint64) { checkEval(seed, lib.NewRNG(seed)) }

var exhScripts = []int{1, 9, 18, 19, 23, 24, 25}

func main() {
	f := lib.ParseFlags()
	res = lib.NewResult("C15", f)
	var err error
	drv, err = lib.StartDriver(f.Driver)
	if err != nil {
		fatal(err)
	}
	defer drv.Close()
	res.DriverUsed = drv != nil
	res.Rule = "conv: Go values from a recursive generator over every case of FromInterface's switch plus ~25 unsupported types, limits lowered in 1/3 of the cases; " +
		"non-trivial = nested container or conversion error. api: histories of 4..30 calls over 23 scripts with up to 3 Script handles and any number of Compiled/clone handles; " +
		"non-trivial = contains Set, Clone or a failing Run; distinct by the printed history. acc: every accessor on every generated object. eval: 29 expressions x random params."
	if f.Replay != "" {
		replay(f.Replay)
		res.Write(f.Out)
		return
	}
	corpus()
	rng := lib.NewRNG(f.Seed)
	for i, n := 0, f.Scale(6000, 150000); i < n; i++ {
		convCase(rng.U64())
	}
	for i, n := 0, f.Scale(1500, 30000); i < n; i++ {
		toCase(rng.U64())
	}
	for i, n := 0, f.Scale(1500, 30000); i < n; i++ {
		accCase(rng.U64())
	}
	for i, n := 0, f.Scale(2000, 100000); i < n; i++ {
		apiCase(rng.U64())
	}
	for i, n := 0, f.Scale(1500, 30000); i < n; i++ {
		evalCase(rng.U64())
	}
	maxLen := f.Scale(3, 4)
	total := 0
	for _, si := range exhScripts {
		for l := 1; l <= maxLen; l++ {
			every := 1
			if l == 4 {
				every = 8
			}
			total += exhaustive(si, l, every)
		}
	}
	res.Exhaustive = true
	res.Extra = map[string]interface{}{"exhaustive_history_len": maxLen, "exhaustive_histories": total, "exhaustive_scripts": exhScripts}
	// known findings
	lib.RunProbes(res, "C15", f.Known)
	res.Count("finding-probe", "C15-1", true)
	if fails, obs := probeSharedInputs(); fails {
		res.KnownHits = append(res.KnownHits, "C15-1")
		res.Extra["C15-1"] = obs
	}
	res.Write(f.Out)
}

// corpus: hand-written boundary cases, run first.
func corpus() {
	big := strings.Repeat("x", 40)
	for i, g := range []interface{}{
		nil, 1, int64(2), rune(65), byte(66), int32(-1), uint8(255), 2.5, "s", []byte("y"), []byte(nil), timePool[2], fmt.Errorf("boom %q", "q"),
		map[string]interface{}(nil), []interface{}(nil), map[string]interface{}{"a": []interface{}{1, map[string]interface{}{"b": byte(1)}}},
		map[string]tengo.Object{"o": &tengo.ImmutableMap{Value: map[string]tengo.Object{"i": &tengo.Int{Value: 1}}}},
		[]tengo.Object{&tengo.Error{Value: &tengo.Array{Value: []tengo.Object{&tengo.Int{Value: 3}}}}},
		&tengo.ImmutableArray{Value: []tengo.Object{tengo.TrueValue}}, tengo.UndefinedValue, fns[1], &userObj{id: 2},
		make(chan int), struct{}{}, func() {}, int8(1), uint(1), uint64(1 << 63), float32(1), myStr("x"), []int{1},
		big, []byte(big), []interface{}{big}, map[string]interface{}{"k": []byte(big)}, []interface{}{1, make(chan int), big},
		map[string]tengo.Object{"k": &tengo.String{Value: big}}, &tengo.String{Value: big},
	} {
		checkConv(uint64(i), g, 1<<31-1, 1<<31-1)
		checkConv(uint64(i), g, 10, 10)
	}
	for _, t := range []*TV{{K: "u"}, {K: "a"}, {K: "m"}, {K: "ia"}, {K: "im"}, {K: "y"}, {K: "s"}, {K: "t", I: -62135596800}, {K: "f", F: nanBits},
		{K: "f", F: fbits(2.9)}, {K: "f", F: fbits(-2.9)}, {K: "i", I: 1<<32 + 65}, {K: "s", S: []byte("12")}, {K: "s", S: []byte("1e3")}, {K: "s", S: []byte(" 1")},
		{K: "e", Kids: []*TV{{K: "e", Kids: []*TV{{K: "s", S: []byte("in")}}}}}, {K: "uf", I: 1}, {K: "o", I: 1}} {
		checkTo(0, t)
		checkAcc(0, t.obj())
	}
}

func replay(path string) {
	b, err := os.ReadFile(path)
	if err != nil {
		fatal(err)
	}
	var rp struct {
		Violations []struct {
			Input json.RawMessage `json:"input"`
		} `json:"violations"`
		Obligations []struct {
			Detail string `json:"detail"`
		} `json:"theorem_or_stream"`
	}
	if err := json.Unmarshal(b, &rp); err != nil {
		fatal(err)
	}
	var inputs []json.RawMessage
	for _, v := range rp.Violations {
		inputs = append(inputs, v.Input)
	}
	for _, o := range rp.Obligations {
		var d struct {
			Input json.RawMessage `json:"input"`
		}
		if json.Unmarshal([]byte(o.Detail), &d) == nil && d.Input != nil {
			inputs = append(inputs, d.Input)
		}
	}
	for _, raw := range inputs {
		var in struct {
			Stream   string `json:"stream"`
			CaseSeed uint64 `json:"case_seed"`
			Exh      string `json:"exhaustive"`
		}
		if json.Unmarshal(raw, &in) != nil {
			continue
		}
		switch {
		case in.Exh != "":
			var si, l int
			if _, err := fmt.Sscanf(in.Exh, "script=%d len=%d", &si, &l); err == nil {
				exhaustive(si, l, 1)
			}
		case in.Stream == "conv" || in.Stream == "from" || in.Stream == "go-norm":
			convCase(in.CaseSeed)
		case in.Stream == "to":
			toCase(in.CaseSeed)
			convCase(in.CaseSeed)
		case in.Stream == "acc" || in.Stream == "var-acc":
			accCase(in.CaseSeed)
		case strings.HasPrefix(in.Stream, "api-eval") || in.Stream == "eval":
			evalCase(in.CaseSeed)
		case strings.HasPrefix(in.Stream, "api"):
			apiCase(in.CaseSeed)
		}
	}
	corpus()
	if fails, _ := probeSharedInputs(); fails {
		res.KnownHits = append(res.KnownHits, "C15-1")
	}
}

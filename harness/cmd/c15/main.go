// Command c15: correspondence and searchers for C15 (host/script value exchange is coherent over any
// sequence of API calls).
//
// Streams
//
//	conv      Go values of every supported and many unsupported types -> tengo.FromInterface -> tengo.ToInterface.
//	          searcher: round trip == normalisation written from docs/interoperability.md + runtime-types.md
//	          (canonical print and reflect.DeepEqual); FromInterface == conversion table + limits.
//	          correspondence: `from`, `to`, `go-norm` lines of the Lean model.
//	acc       typed accessors of Variable vs the coercion table of docs/runtime-types.md (hard-coded here);
//	          correspondence: `var-acc`.
//	api       call histories (<= 30 calls) over a family of small scripts, several Script/Compiled/clone handles
//	          alive; searcher: the abstract specification re-implemented in Go (maps of last values);
//	          correspondence: `api` (concrete Lean model) and `aapi` (Lean specification vs the Go one).
//	api-exhaustive  all histories of <= 3 (quick) / <= 4 (thorough) calls over 6 calls x 3 names x 3 values.
//	api-bool  histories over scripts that assign, copy and compare booleans (statements outside the model's language are
//	          evaluated by the Go specification only), bool-heavy values, inputs sometimes named like builtin functions;
//	          a fixed corpus (every bool value x every bool script, original / clones before and after Run) on every seed.
//	          In all api streams every Variable handed out by Get/GetAll is also read through Value() and all typed accessors.
//	          conv/to/acc read every value again from a Clone and from the script's copy().
//	eval      tengo.Eval(expr, params) == `__res__ := (expr)` run by hand == the value known by construction; expressions
//	          over all binary operators and '%'-laden literals / parameters (evalgen.go); correspondence `api-eval`.
//	lit / eval-lit / api-lit        scripts holding literals of different types with colliding printed forms (literals.go).
//	share / to-share / eval-share / api-share   values in which one array / map object is reachable along several paths
//	          (`[row, row]`, `{x: cfg, y: cfg}`, []tengo.Object{o, o}), read back through every route; expected by a heap
//	          interpreter written in the harness (share.go).
//	api-heap  histories over scripts that alias globals and update objects in place, any number of Compile per Script (the
//	          C15-1 shape included), Clone-then-update; correspondence `apiheap` (HostHeap.hrunOps, the heap model) on every
//	          observation, and `apiheap-spec` (HostHeap.srunOps) whenever HostHeap.safeOpsG holds (apiheap.go).
package main

import (
	"context"
	"encoding/json"
	"fmt"
	"math"
	"os"
	"reflect"
	"sort"
	"strconv"
	"strings"

	"github.com/d5/tengo/v2"
	"verifharness/lib"
)

var (
	res *lib.Result
	drv *lib.Driver
)

func fatal(err error) {
	fmt.Fprintln(os.Stderr, "c15:", err)
	os.Exit(3)
}

func clip(s string, n int) string {
	if len(s) > n {
		return s[:n] + "…"
	}
	return s
}

func ask(line string) string {
	ans, err := drv.Ask(line)
	if err != nil {
		fatal(err)
	}
	res.ModelLines++
	return ans
}

type convInput struct {
	Stream   string `json:"stream"`
	CaseSeed uint64 `json:"case_seed"`
	MaxStr   int    `json:"max_string_len"`
	MaxBytes int    `json:"max_bytes_len"`
	Value    string `json:"go_value"`
}

func withLimits(maxStr, maxBytes int, f func()) {
	savedS, savedB := tengo.MaxStringLen, tengo.MaxBytesLen
	tengo.MaxStringLen, tengo.MaxBytesLen = maxStr, maxBytes
	defer func() { tengo.MaxStringLen, tengo.MaxBytesLen = savedS, savedB }()
	f()
}

// ---- conv ----

func checkConv(seed uint64, g interface{}, maxStr, maxBytes int) {
	gs := canonG(g)
	in := convInput{"conv", seed, maxStr, maxBytes, clip(gs, 600)}
	var o tengo.Object
	var err error
	withLimits(maxStr, maxBytes, func() { o, err = tengo.FromInterface(g) })
	want, wantErr := refConv(g, maxStr, maxBytes)
	nbad, viaMap := badLeaves(g, maxStr, maxBytes)
	res.Count("conv", gs, strings.Contains(gs, "(map") || strings.Contains(gs, "(slice") || err != nil)
	res.Dist("conv:" + strings.SplitN(strings.Trim(gs, "()"), " ", 2)[0])
	exactErr := nbad <= 1 || !viaMap
	// searcher 1: FromInterface follows the documented table and limits
	switch {
	case (err != nil) != (wantErr != ""):
		res.Violate(lib.Violation{Signature: "frominterface-error-not-as-documented", Stream: "conv", Input: in,
			Observed: fmt.Sprint(err), Expected: "error iff unsupported type or over-limit string/bytes: " + wantErr,
			Oracle: "conversion table of docs/interoperability.md + MaxStringLen/MaxBytesLen"})
		return
	case err != nil:
		res.Dist("conv-err:" + strings.SplitN(strings.Trim(wantErr, "()"), " ", 2)[0])
		if exactErr && errClass(err) != wantErr {
			res.Violate(lib.Violation{Signature: "frominterface-wrong-error", Stream: "conv", Input: in,
				Observed: errClass(err), Expected: wantErr, Oracle: "conversion table + limits"})
			return
		}
	default:
		if got := tvOf(o).sexp(); got != want.sexp() {
			res.Violate(lib.Violation{Signature: "frominterface-wrong-object", Stream: "conv", Input: in,
				Observed: clip(got, 400), Expected: clip(want.sexp(), 400), Oracle: "conversion table of docs/interoperability.md"})
			return
		}
	}
	// correspondence: from
	if drv != nil {
		ans := ask(lib.L("from", lib.N(maxStr), lib.N(maxBytes), gs))
		impl := "err " + errClass(err)
		if err == nil {
			impl = "ok " + tvOf(o).sexp()
		}
		if ans != impl && (err == nil || exactErr || !strings.HasPrefix(ans, "err ")) {
			res.Disagree(lib.Disagreement{Stream: "from", Input: in, Model: clip(ans, 400), Impl: clip(impl, 400)})
		}
	}
	if err != nil {
		return
	}
	tab := strtab(o)
	r := tengo.ToInterface(o)
	rs := canonG(r)
	// searcher 2: round trip == documented normalisation
	n := normalizeGo(g)
	ns := canonG(n)
	if rs != ns {
		res.Violate(lib.Violation{Signature: "roundtrip-not-normalisation", Stream: "conv", Input: in,
			Observed: clip(rs, 400), Expected: clip(ns, 400), Oracle: "ToInterface(FromInterface(g)) == normalize(g) (int kinds->int64, byte/rune->rune, error->its message form, containers converted)"})
		return
	}
	if !hasNaNOrFunc(r) && !reflect.DeepEqual(r, n) {
		res.Violate(lib.Violation{Signature: "roundtrip-not-deepequal-normalisation", Stream: "conv", Input: in,
			Observed: fmt.Sprintf("%#v", r), Expected: fmt.Sprintf("%#v", n), Oracle: "reflect.DeepEqual(ToInterface(FromInterface(g)), normalize(g))"})
		return
	}
	// searcher 3: the same value read from a Clone of the Compiled it was added to, and from the script's copy() of it
	var routes [2]*tengo.Variable
	withLimits(maxStr, maxBytes, func() {
		routes[0], _ = viaClone(g)
		routes[1], _ = viaCopy(g)
	})
	if checkRoutes("conv", in, routes, ns) {
		return
	}
	if drv != nil {
		if ans := ask(lib.L("to", tvOf(o).sexp(), tab)); ans != "ok "+rs {
			res.Disagree(lib.Disagreement{Stream: "to", Input: in, Model: clip(ans, 400), Impl: clip("ok "+rs, 400)})
		}
		if ans := ask(lib.L("go-norm", gs, tab)); ans != "ok "+ns {
			res.Disagree(lib.Disagreement{Stream: "go-norm", Input: in, Model: clip(ans, 400), Impl: clip("ok "+ns, 400)})
		}
	}
}

// checkRoutes: a value that went through Clone (routes[0]) or the script's copy() (routes[1]) reads as `want` through
// Value() and follows the coercion table through every typed accessor.
func checkRoutes(stream string, in convInput, routes [2]*tengo.Variable, want string) (violated bool) {
	for i, v := range routes {
		if v == nil {
			continue
		}
		route := []string{"s.Add(\"v\", g); c := s.Compile(); c.Clone().Get(\"v\")", "s := NewScript(`w := copy(v)`); s.Add(\"v\", g); s.Run().Get(\"w\")"}[i]
		sig := []string{"clone-read-not-the-value-added", "script-copy-read-not-the-value-added"}[i]
		if got := canonG(v.Value()); got != want && !(hasError(tvOf(v.Object())) && multiMapInside(v.Object())) {
			res.Violate(lib.Violation{Signature: sig, Stream: stream, Input: in, Observed: route + ".Value() = " + clip(got, 300), Expected: clip(want, 300),
				Oracle: "a clone / a script copy of a variable reads as the value the host added, converted as documented (normalize(g))"})
			return true
		}
		if what, got, want, bad := badReading(v); bad {
			res.Violate(lib.Violation{Signature: sig + "-" + strings.ToLower(what), Stream: stream, Input: in, Observed: route + "." + what + "() = " + clip(got, 300), Expected: clip(want, 300),
				Oracle: "typed accessors of the variable read from a clone / script copy follow the coercion table of docs/runtime-types.md for the value " + clip(tvOf(v.Object()).sexp(), 200)})
			return true
		}
	}
	return false
}

// checkTo: ToInterface on an arbitrary object (also objects FromInterface never builds).
func checkTo(seed uint64, t *TV) {
	o := t.obj()
	in := convInput{"to", seed, 0, 0, t.sexp()}
	r := tengo.ToInterface(o)
	rs := canonG(r)
	res.Count("to", t.sexp(), len(t.Kids) > 0)
	if want := canonG(goOfObject(o)); rs != want {
		res.Violate(lib.Violation{Signature: "tointerface-not-documented-go-type", Stream: "to", Input: in,
			Observed: clip(rs, 400), Expected: clip(want, 400), Oracle: "Go type of each Tengo type per docs/runtime-types.md"})
		return
	}
	var routes [2]*tengo.Variable
	routes[0], _ = viaClone(t.obj())
	routes[1], _ = viaCopy(t.obj())
	if checkRoutes("to", in, routes, canonG(goOfObject(t.obj()))) {
		return
	}
	if drv != nil {
		if ans := ask(lib.L("to", t.sexp(), strtab(o))); ans != "ok "+rs {
			res.Disagree(lib.Disagreement{Stream: "to", Input: in, Model: clip(ans, 400), Impl: clip("ok "+rs, 400)})
		}
	}
}

// ---- acc ----

var accessors = []string{"Int", "Int64", "Float", "Char", "Bool", "String", "Bytes", "Array", "Map", "Error", "IsUndefined"}

func accReal(v *tengo.Variable, a string) string {
	switch a {
	case "Int":
		return "(int " + lib.I(int64(v.Int())) + ")"
	case "Int64":
		return "(int " + lib.I(v.Int64()) + ")"
	case "Float":
		return "(float " + lib.U(fbits(v.Float())) + ")"
	case "Char":
		return "(int " + lib.I(int64(v.Char())) + ")"
	case "Bool":
		return "(bool " + lib.B(v.Bool()) + ")"
	case "String":
		return "(str " + lib.HexS(v.String()) + ")"
	case "Bytes":
		return "(bytes " + lib.Hex(v.Bytes()) + ")"
	case "Array":
		if x := v.Array(); x != nil {
			return "(slice " + canonG(x) + ")"
		}
		return "(slice nil)"
	case "Map":
		if x := v.Map(); x != nil {
			return "(map " + canonG(x) + ")"
		}
		return "(map nil)"
	case "Error":
		if e := v.Error(); e != nil {
			return "(err " + lib.HexS(e.Error()) + ")"
		}
		return "(err nil)"
	}
	return "(bool " + lib.B(v.IsUndefined()) + ")"
}

// accExpected: the coercion table of docs/runtime-types.md, row by row. "" = not pinned down here.
func accExpected(o tengo.Object, a string) string {
	zero := map[string]string{"Int": "(int 0)", "Int64": "(int 0)", "Float": "(float 0)", "Char": "(int 0)", "Bool": "(bool 0)",
		"String": "(str #)", "Bytes": "(bytes #)", "Array": "(slice nil)", "Map": "(map nil)", "Error": "(err nil)", "IsUndefined": "(bool 0)"}
	row := map[string]string{}
	switch v := o.(type) {
	case *tengo.Int:
		row["Int"], row["Int64"] = "(int "+lib.I(v.Value)+")", "(int "+lib.I(v.Value)+")"
		row["String"] = "(str " + lib.HexS(strconv.FormatInt(v.Value, 10)) + ")"
		row["Float"] = "(float " + lib.U(fbits(float64(v.Value))) + ")"
		row["Bool"] = "(bool " + lib.B(v.Value != 0) + ")"
		row["Char"] = "(int " + lib.I(int64(rune(v.Value))) + ")"
	case *tengo.String:
		row["String"] = "(str " + lib.HexS(v.Value) + ")"
		if n, err := strconv.ParseInt(v.Value, 10, 64); err == nil {
			row["Int"], row["Int64"] = "(int "+lib.I(n)+")", "(int "+lib.I(n)+")"
		}
		if f, err := strconv.ParseFloat(v.Value, 64); err == nil {
			row["Float"] = "(float " + lib.U(fbits(f)) + ")"
		}
		row["Bool"] = "(bool " + lib.B(len(v.Value) > 0) + ")"
		row["Bytes"] = "(bytes " + lib.HexS(v.Value) + ")"
	case *tengo.Float:
		row["Float"] = "(float " + lib.U(fbits(v.Value)) + ")"
		if math.Abs(v.Value) < 9.2e18 {
			n := int64(math.Trunc(v.Value))
			row["Int"], row["Int64"] = "(int "+lib.I(n)+")", "(int "+lib.I(n)+")"
		} else {
			row["Int"], row["Int64"] = "", "" // out of range / NaN: platform-defined conversion
		}
		row["String"] = "" // strconv: checked by parsing it back (below)
		row["Bool"] = "(bool " + lib.B(!math.IsNaN(v.Value)) + ")"
	case *tengo.Bool:
		b := !v.IsFalsy()
		one := "0"
		if b {
			one = "1"
		}
		row["Int"], row["Int64"] = "(int "+one+")", "(int "+one+")"
		row["String"] = "(str " + lib.HexS(strconv.FormatBool(b)) + ")"
		row["Bool"] = "(bool " + lib.B(b) + ")"
	case *tengo.Char:
		row["Int"], row["Int64"] = "(int "+lib.I(int64(v.Value))+")", "(int "+lib.I(int64(v.Value))+")"
		row["String"] = "(str " + lib.HexS(string(v.Value)) + ")"
		row["Bool"] = "(bool " + lib.B(v.Value != 0) + ")"
		row["Char"] = "(int " + lib.I(int64(v.Value)) + ")"
	case *tengo.Bytes:
		row["String"] = "(str " + lib.HexS(string(v.Value)) + ")"
		row["Bool"] = "(bool " + lib.B(len(v.Value) > 0) + ")"
		row["Bytes"] = "(bytes " + lib.Hex(v.Value) + ")"
	case *tengo.Array:
		row["String"] = ""
		row["Bool"] = "(bool " + lib.B(len(v.Value) > 0) + ")"
		if len(v.Value) > 0 && a == "Array" { // (computed only when asked for: the value may be large)
			row["Array"] = "(slice " + canonG(goOfObjects(v.Value)) + ")"
		}
	case *tengo.Map:
		row["String"] = ""
		row["Bool"] = "(bool " + lib.B(len(v.Value) > 0) + ")"
		if a == "Map" {
			row["Map"] = "(map " + canonG(goOfObjectMap(v.Value)) + ")"
		}
	case *tengo.Time:
		row["String"] = "(str " + lib.HexS(v.Value.String()) + ")"
		row["Bool"] = "(bool " + lib.B(!v.Value.IsZero()) + ")"
	case *tengo.Error:
		row["String"] = ""
		row["Bool"] = "(bool 0)"
		row["Error"] = "(err " + lib.HexS(goOfObject(v).(error).Error()) + ")"
	case *tengo.Undefined:
		row["IsUndefined"] = "(bool 1)"
	default:
		return "" // not a row of the table
	}
	if e, ok := row[a]; ok {
		return e
	}
	return zero[a]
}

func checkAcc(seed uint64, o tengo.Object) {
	v, err := tengo.NewVariable("v", o)
	if err != nil {
		return
	}
	ts := tvOf(o).sexp()
	pi, pf, f2i, i2f := "none", "none", "0", "0"
	switch x := o.(type) {
	case *tengo.String:
		if n, e := strconv.ParseInt(x.Value, 10, 64); e == nil {
			pi = lib.I(n)
		}
		if f, e := strconv.ParseFloat(x.Value, 64); e == nil {
			pf = lib.U(fbits(f))
		}
	case *tengo.Float:
		f2i = lib.I(int64(x.Value))
	case *tengo.Int:
		i2f = lib.U(fbits(float64(x.Value)))
	}
	tab := strtab(o)
	for _, a := range accessors {
		in := convInput{"acc", seed, 0, 0, a + " of " + clip(ts, 400)}
		res.Count("acc", a+ts, true)
		got, want, bad, skipped := accCheck(v, o, a)
		if skipped {
			res.Skipped++ // text depends on Go's map iteration order
			continue
		}
		if bad {
			res.Violate(lib.Violation{Signature: "variable-" + strings.ToLower(a) + "-not-coercion-table", Stream: "acc", Input: in,
				Observed: clip(got, 300), Expected: clip(want, 300), Oracle: "Type Conversion/Coercion Table of docs/runtime-types.md"})
			continue
		}
		if drv != nil {
			ans := strings.Replace(ask(lib.L("var-acc", a, ts, tab, pi, pf, f2i, i2f)), "(bytes nil)", "(bytes #)", 1)
			if ans != "ok "+got {
				res.Disagree(lib.Disagreement{Stream: "var-acc", Input: in, Model: clip(ans, 300), Impl: clip("ok "+got, 300)})
			}
		}
	}
	// the same accessors on the variable read from a clone and from a script copy
	var routes [2]*tengo.Variable
	routes[0], _ = viaClone(tvOf(o).obj())
	routes[1], _ = viaCopy(tvOf(o).obj())
	checkRoutes("acc", convInput{"acc", seed, 0, 0, "accessors of " + clip(ts, 400) + " after Clone / copy()"}, routes, canonG(goOfObject(tvOf(o).obj())))
}

// ---- eval ----

var evalExprs = []string{"a", "b", "s", "m", "5", "\"lit\"", "a + b", "a * 2 - b", "s + \"x\"", "len(s)", "[a, b]", "{k: a}", "m.k", "m.nope",
	"a > b ? a : b", "undefined", "zz", "a +", "", "   ", "  a  ", "1 + \"s\"", "func() { return a }()", "error(a)", "immutable([a])", "is_undefined(u)", "u",
	"a) + (b", "__res__"}

type evalInput struct {
	Stream   string   `json:"stream"`
	CaseSeed uint64   `json:"case_seed"`
	Expr     string   `json:"expr"`
	Params   []string `json:"params"`
}

func checkEval(seed uint64, r *lib.RNG) {
	params := map[string]interface{}{}
	aVal := lib.Pick(r, intPool)
	sVal := genString(r)
	if r.Chance(1, 3) {
		sVal = lib.Pick(r, evalPctStrings)
	}
	pVal := lib.Pick(r, evalPctStrings) + lib.Pick(r, []string{"", "%", "x", "%d"})
	aInt, sStr := false, false
	if r.Chance(7, 8) {
		params["a"], aInt = int(aVal), true
	}
	if r.Chance(7, 8) {
		params["b"] = lib.Pick(r, []interface{}{int64(3), 2.5, "str", byte(65), int64(0), "%", byte('%')})
	}
	if r.Chance(3, 4) {
		params["s"], sStr = sVal, true
	}
	if r.Chance(3, 4) {
		params["m"] = map[string]interface{}{"k": genGoOK(r, 1, 0, tengo.MaxStringLen, tengo.MaxBytesLen)}
	}
	if r.Chance(1, 2) {
		params["u"] = genGoOK(r, 1, 2, tengo.MaxStringLen, tengo.MaxBytesLen)
	}
	pStr := r.Chance(3, 4)
	if pStr {
		params["p"] = pVal
	}
	if r.Chance(3, 4) {
		params["n"] = lib.Pick(r, []interface{}{1, 2, 3, 7, -2, int64(10)})
	}
	if r.Chance(3, 4) {
		params["f"] = r.Bool()
	}
	expr, pinned, want := "", false, interface{}(nil)
	switch r.Intn(4) {
	case 0:
		expr = lib.Pick(r, evalExprs)
	case 1:
		pe := evalPinned(r, aVal, sVal, pVal)
		expr, pinned, want = pe.expr, true, pe.want
		for _, n := range pe.needs {
			if (n == "a" && !aInt) || (n == "s" && !sStr) || (n == "p" && !pStr) {
				pinned = false
			}
		}
		if r.Chance(1, 4) {
			expr = lib.Pick(r, []string{" ", "\t", "\n"}) + expr + lib.Pick(r, []string{" ", "\n", ""})
		}
	default:
		expr = evalRandom(r, 1+r.Intn(3))
	}
	checkEvalOne(seed, expr, params, pinned, want)
}

// checkEvalOne: Eval(expr, params) against (1) the same expression compiled and run by hand as `__res__ := (expr)` with
// the parameters added as variables and (2) when pinned, the value the expression has by construction.
// evalStream: the stream name recorded in the inputs (and counted) by checkEvalOne; literals.go runs its pinned
// expressions under "eval-lit" so that a replay regenerates them with its own generator.
var evalStream = "eval"

func checkEvalOne(seed uint64, expr string, params map[string]interface{}, pinned bool, pinnedWant interface{}) {
	in := evalInput{evalStream, seed, expr, nil}
	keys := make([]string, 0, len(params))
	for k := range params {
		keys = append(keys, k)
	}
	sort.Strings(keys)
	nbad := 0
	var psexp []string
	for _, k := range keys {
		in.Params = append(in.Params, k+"="+clip(canonG(params[k]), 200))
		psexp = append(psexp, "("+lib.HexS(k)+" "+canonG(params[k])+")")
		if n, _ := badLeaves(params[k], tengo.MaxStringLen, tengo.MaxBytesLen); n > 0 {
			nbad++
		}
	}
	res.Count(evalStream, expr+strings.Join(in.Params, ","), true)
	if strings.Contains(expr, "%") {
		res.Dist("eval:has-percent")
	}
	got, gerr := tengo.Eval(context.Background(), expr, params)
	// by hand
	var want interface{}
	var werr error
	var wobj tengo.Object
	trimmed := strings.TrimSpace(expr)
	if trimmed == "" {
		if gerr == nil {
			res.Violate(lib.Violation{Signature: "eval-accepts-empty-expression", Stream: "eval", Input: in, Observed: canonG(got), Expected: "an error", Oracle: "eval.go doc: expr must be an expression"})
		}
		return
	}
	s := tengo.NewScript([]byte("__res__ := (" + trimmed + ")"))
	for _, k := range keys {
		if err := s.Add(k, params[k]); err != nil {
			werr = fmt.Errorf("script add: %w", err)
			break
		}
	}
	if werr == nil {
		c, err := s.RunContext(context.Background())
		if err != nil {
			werr = fmt.Errorf("script run: %w", err)
		} else {
			wobj = c.Get("__res__").Object()
			want = c.Get("__res__").Value()
		}
	}
	if pinned && nbad == 0 {
		res.Dist("eval:pinned")
		if gerr != nil || canonG(got) != canonG(pinnedWant) {
			obs := clip(canonG(got), 300)
			if gerr != nil {
				obs = "error: " + gerr.Error()
			}
			res.Violate(lib.Violation{Signature: "eval-value-not-the-expression-value", Stream: evalStream, Input: in,
				Observed: obs, Expected: clip(canonG(pinnedWant), 300), Oracle: "value the expression has by construction (string/char literals are themselves, + concatenates, int % int is Go's remainder, format verbs %d %s %%)"})
			return
		}
	}
	switch {
	case (gerr != nil) != (werr != nil), gerr != nil && nbad <= 1 && gerr.Error() != werr.Error():
		res.Violate(lib.Violation{Signature: "eval-error-differs-from-script", Stream: "eval", Input: in,
			Observed: fmt.Sprint(gerr), Expected: fmt.Sprint(werr), Oracle: "Eval(expr, params) == `__res__ := (expr)` compiled and run with the same params"})
		return
	case gerr == nil && canonG(got) != canonG(want):
		res.Violate(lib.Violation{Signature: "eval-value-differs-from-script", Stream: "eval", Input: in,
			Observed: clip(canonG(got), 300), Expected: clip(canonG(want), 300), Oracle: "Eval(expr, params) == value of `__res__ := (expr)` run with the same params"})
		return
	}
	if gerr != nil {
		res.Dist("eval:error")
	} else {
		res.Dist("eval:value")
	}
	// correspondence: expressions of the model's language (a parameter name or an int literal)
	if drv == nil || !(trimmed == "5" || (len(trimmed) == 1 && strings.Contains("absmupnf", trimmed)) || trimmed == "zz" || trimmed == "__res__") {
		return
	}
	e := "(var " + lib.HexS(trimmed) + ")"
	if trimmed == "5" {
		e = "(const (i 5))"
	}
	tab := "()"
	if wobj != nil {
		tab = strtab(wobj)
	}
	ans := ask(lib.L("api-eval", lib.N(tengo.MaxStringLen), lib.N(tengo.MaxBytesLen), e, "("+strings.Join(psexp, " ")+")", tab))
	impl := ""
	switch {
	case gerr == nil:
		impl = "ok (value " + canonG(got) + ")"
	case strings.HasPrefix(gerr.Error(), "script add: "):
		impl = "ok (adderr " + errClass(fmt.Errorf("%s", strings.TrimPrefix(gerr.Error(), "script add: "))) + ")"
		if nbad > 1 {
			if strings.HasPrefix(ans, "ok (adderr ") {
				return
			}
		}
	default:
		impl = "ok (runerr " + strings.TrimSuffix(strings.TrimPrefix(compileErrClass(gerr), "(err "), ")") + ")"
	}
	if ans != impl {
		res.Disagree(lib.Disagreement{Stream: "api-eval", Input: in, Model: clip(ans, 300), Impl: clip(impl, 300)})
	}
}

// ---- known finding C15-1 ----

// Compile hands the very objects made by Add to every Compiled of the Script: an in-place update made by one
// Compiled's run shows in its siblings and in later compiles, although the host never set it there.
func probeSharedInputs() (fails bool, observed string) {
	s := tengo.NewScript([]byte("m.x = 2\n"))
	_ = s.Add("m", map[string]interface{}{"x": 1})
	c1, err := s.Compile()
	if err != nil {
		return false, ""
	}
	c2, _ := s.Compile()
	if err := c1.Run(); err != nil {
		return false, ""
	}
	got := tvOf(c2.Get("m").Object()).sexp()
	if got != "(m (#78 (i 1)))" {
		return true, "c2.Get(\"m\") = " + got + " after c1.Run(); the host's last value for c2 is {x: 1}"
	}
	return false, ""
}

// ---- main ----

func convCase(seed uint64) {
	r := lib.NewRNG(seed)
	maxStr, maxBytes := 1<<31-1, 1<<31-1
	if r.Chance(1, 3) {
		maxStr, maxBytes = 4+r.Intn(12), 4+r.Intn(12)
	}
	checkConv(seed, genGo(r, 3, 1+r.Intn(2)*r.Intn(3)), maxStr, maxBytes)
}

func toCase(seed uint64) {
	r := lib.NewRNG(seed)
	checkTo(seed, genTV(r, 3))
}

func accCase(seed uint64) {
	r := lib.NewRNG(seed)
	if r.Chance(1, 4) {
		if o, err := tengo.FromInterface(genGo(r, 2, 0)); err == nil {
			checkAcc(seed, o)
			return
		}
	}
	checkAcc(seed, genTV(r, 2).obj())
}

func apiCase(seed uint64) {
	r := lib.NewRNG(seed)
	maxStr, maxBytes := 1<<31-1, 1<<31-1
	if r.Chance(1, 4) {
		maxStr, maxBytes = 6+r.Intn(10), 6+r.Intn(10)
	}
	ops := genHistory(r, maxStr, maxBytes)
	if r.Chance(1, 6) {
		ops = renameInputs(r, ops, maxStr, maxBytes) // host variables named like builtin functions (finding O32)
	}
	runHistory("api", ops, maxStr, maxBytes, apiInput{CaseSeed: seed}, true)
}

func evalCase(seed uint64) { checkEval(seed, lib.NewRNG(seed)) }

var exhScripts = []int{1, 9, 18, 19, 23, 24, 25}

func main() {
	f := lib.ParseFlags()
	res = lib.NewResult("C15", f)
	var err error
	drv, err = lib.StartDriver(f.Driver)
	if err != nil {
		fatal(err)
	}
	defer drv.Close()
	res.DriverUsed = drv != nil
	res.Rule = "conv: Go values from a recursive generator over every case of FromInterface's switch plus ~25 unsupported types, limits lowered in 1/3 of the cases; " +
		"non-trivial = nested container or conversion error. api: histories of 4..30 calls over 23 scripts with up to 3 Script handles and any number of Compiled/clone handles; " +
		"non-trivial = contains Set, Clone or a failing Run; distinct by the printed history. api-bool: the same over 13+2 scripts that assign/copy/compare booleans with bool-heavy values (+ fixed corpus). " +
		"acc: every accessor on every generated object (also after Clone / copy()). eval: generated expressions over all binary operators, '%'-laden string/char literals and format calls (+29 fixed shapes, + fixed corpus) x random params. " +
		"share / to-share / eval-share / api-share: values in which one array / map / error object is reachable along several paths (scripts that name a variable several times inside a value, host-built object graphs), " +
		"read back through every handle of Compile / Clone / Run / Set histories, ToInterface, NewVariable, FromInterface and Eval; expected by a heap interpreter written in the harness."
	if f.Replay != "" {
		replay(f.Replay)
		res.Write(f.Out)
		return
	}
	corpus()
	rng := lib.NewRNG(f.Seed)
	for i, n := 0, f.Scale(6000, 150000); i < n; i++ {
		convCase(rng.U64())
	}
	for i, n := 0, f.Scale(1500, 30000); i < n; i++ {
		toCase(rng.U64())
	}
	for i, n := 0, f.Scale(1500, 30000); i < n; i++ {
		accCase(rng.U64())
	}
	for i, n := 0, f.Scale(2000, 100000); i < n; i++ {
		apiCase(rng.U64())
	}
	for i, n := 0, f.Scale(1500, 40000); i < n; i++ {
		apiBoolCase(rng.U64())
	}
	for i, n := 0, f.Scale(2500, 50000); i < n; i++ {
		evalCase(rng.U64())
	}
	// round 8: scripts holding literals of different types with colliding printed forms / values (literals.go)
	for i, n := 0, f.Scale(700, 40000); i < n; i++ {
		litCase(rng.U64())
	}
	for i, n := 0, f.Scale(600, 15000); i < n; i++ {
		evalLitCase(rng.U64())
	}
	for i, n := 0, f.Scale(400, 15000); i < n; i++ {
		apiLitCase(rng.U64())
	}
	// round 10: values in which one array / map object is reachable along several paths (share.go)
	for i, n := 0, f.Scale(600, 40000); i < n; i++ {
		shareCase(rng.U64())
	}
	for i, n := 0, f.Scale(800, 30000); i < n; i++ {
		toShareCase(rng.U64())
	}
	for i, n := 0, f.Scale(500, 15000); i < n; i++ {
		evalShareCase(rng.U64())
	}
	for i, n := 0, f.Scale(300, 10000); i < n; i++ {
		apiShareCase(rng.U64())
	}
	apiHeapStream(rng, f.Scale(1500, 40000)) // the heap model (HostHeap.lean, driver line apiheap) vs the real API (apiheap.go)
	maxLen := f.Scale(3, 4)
	total := 0
	for _, si := range exhScripts {
		for l := 1; l <= maxLen; l++ {
			every := 1
			if l == 4 {
				every = 8
			}
			total += exhaustive(si, l, every)
		}
	}
	res.Exhaustive = true
	res.Extra = map[string]interface{}{"exhaustive_history_len": maxLen, "exhaustive_histories": total, "exhaustive_scripts": exhScripts}
	// known findings
	lib.Probes = append(lib.Probes, lib.Probe{ID: "O32", Props: []string{"C15"},
		Input:    "for name in len, copy, format, is_int, …: s := NewScript(`out := <name>`); s.Add(name, v); c := s.Compile(); cl := c.Clone(); Get/GetAll before and after Run on both; cl.Set(name, v2); cl.Run()",
		WhatFail: "a host variable named like a builtin function reads as the value the host set: in the script (out), through Get/GetAll, on the original and on a clone (finding O32, repaired)",
		Run:      probeBuiltinNamedVariables})
	lib.RunProbes(res, "C15", f.Known)
	res.Count("finding-probe", "C15-1", true)
	if fails, obs := probeSharedInputs(); fails {
		res.KnownHits = append(res.KnownHits, "C15-1")
		res.Extra["C15-1"] = obs
	}
	res.Write(f.Out)
}

// corpus: hand-written boundary cases, run first.
func corpus() {
	big := strings.Repeat("x", 40)
	for i, g := range []interface{}{
		nil, 1, int64(2), rune(65), byte(66), int32(-1), uint8(255), 2.5, "s", []byte("y"), []byte(nil), timePool[2], fmt.Errorf("boom %q", "q"),
		map[string]interface{}(nil), []interface{}(nil), map[string]interface{}{"a": []interface{}{1, map[string]interface{}{"b": byte(1)}}},
		map[string]tengo.Object{"o": &tengo.ImmutableMap{Value: map[string]tengo.Object{"i": &tengo.Int{Value: 1}}}},
		[]tengo.Object{&tengo.Error{Value: &tengo.Array{Value: []tengo.Object{&tengo.Int{Value: 3}}}}},
		&tengo.ImmutableArray{Value: []tengo.Object{tengo.TrueValue}}, tengo.UndefinedValue, fns[1], &userObj{id: 2},
		make(chan int), struct{}{}, func() {}, int8(1), uint(1), uint64(1 << 63), float32(1), myStr("x"), []int{1},
		big, []byte(big), []interface{}{big}, map[string]interface{}{"k": []byte(big)}, []interface{}{1, make(chan int), big},
		map[string]tengo.Object{"k": &tengo.String{Value: big}}, &tengo.String{Value: big},
	} {
		checkConv(uint64(i), g, 1<<31-1, 1<<31-1)
		checkConv(uint64(i), g, 10, 10)
	}
	for i, mk := range boolValues {
		checkConv(uint64(100+i), mk(), 1<<31-1, 1<<31-1)
		checkConv(uint64(100+i), mk(), 10, 10)
		if o, err := tengo.FromInterface(mk()); err == nil {
			checkTo(uint64(100+i), tvOf(o))
			checkAcc(uint64(100+i), o)
		}
	}
	for i, e := range evalCorpus() {
		checkEvalOne(uint64(i), e.expr, e.params, e.pinned, e.want)
	}
	boolCorpus()
	litCorpus()
	shareCorpus()
	for _, t := range []*TV{{K: "b", B: true}, {K: "b"}, {K: "ia", Kids: []*TV{tb(true), tb(false)}}, {K: "u"}, {K: "a"}, {K: "m"}, {K: "ia"}, {K: "im"}, {K: "y"}, {K: "s"}, {K: "t", I: -62135596800}, {K: "f", F: nanBits},
		{K: "f", F: fbits(2.9)}, {K: "f", F: fbits(-2.9)}, {K: "i", I: 1<<32 + 65}, {K: "s", S: []byte("12")}, {K: "s", S: []byte("1e3")}, {K: "s", S: []byte(" 1")},
		{K: "e", Kids: []*TV{{K: "e", Kids: []*TV{{K: "s", S: []byte("in")}}}}}, {K: "uf", I: 1}, {K: "o", I: 1}} {
		checkTo(0, t)
		checkAcc(0, t.obj())
	}
}

func replay(path string) {
	b, err := os.ReadFile(path)
	if err != nil {
		fatal(err)
	}
	var rp struct {
		Violations []struct {
			Input json.RawMessage `json:"input"`
		} `json:"violations"`
		Obligations []struct {
			Detail string `json:"detail"`
		} `json:"theorem_or_stream"`
	}
	if err := json.Unmarshal(b, &rp); err != nil {
		fatal(err)
	}
	var inputs []json.RawMessage
	for _, v := range rp.Violations {
		inputs = append(inputs, v.Input)
	}
	for _, o := range rp.Obligations {
		var d struct {
			Input json.RawMessage `json:"input"`
		}
		if json.Unmarshal([]byte(o.Detail), &d) == nil && d.Input != nil {
			inputs = append(inputs, d.Input)
		}
	}
	for _, raw := range inputs {
		var in struct {
			Stream   string `json:"stream"`
			CaseSeed uint64 `json:"case_seed"`
			Exh      string `json:"exhaustive"`
		}
		if json.Unmarshal(raw, &in) != nil {
			continue
		}
		switch {
		case strings.HasPrefix(in.Stream, "api-heap"):
			if in.Exh != "" {
				heapCorpus()
			} else {
				apiHeapCase(in.CaseSeed)
			}
		case in.Exh != "":
			var si, l int
			if _, err := fmt.Sscanf(in.Exh, "script=%d len=%d", &si, &l); err == nil {
				exhaustive(si, l, 1)
			}
		case in.Stream == "conv" || in.Stream == "from" || in.Stream == "go-norm":
			convCase(in.CaseSeed)
		case in.Stream == "to":
			toCase(in.CaseSeed)
			convCase(in.CaseSeed)
		case in.Stream == "acc" || in.Stream == "var-acc":
			accCase(in.CaseSeed)
		case in.Stream == "lit":
			litCase(in.CaseSeed)
		case in.Stream == "eval-lit":
			evalLitCase(in.CaseSeed)
		case in.Stream == "api-lit" || in.Stream == "api-lit-absspec":
			apiLitCase(in.CaseSeed)
		case in.Stream == "share":
			shareCase(in.CaseSeed)
		case in.Stream == "to-share":
			toShareCase(in.CaseSeed)
		case in.Stream == "eval-share":
			evalShareCase(in.CaseSeed)
		case in.Stream == "api-share":
			apiShareCase(in.CaseSeed)
		case in.Stream == "api-bool" || in.Stream == "api-bool-absspec":
			apiBoolCase(in.CaseSeed)
		case strings.HasPrefix(in.Stream, "api-eval") || in.Stream == "eval":
			evalCase(in.CaseSeed)
		case strings.HasPrefix(in.Stream, "api"):
			apiCase(in.CaseSeed)
		}
	}
	corpus()
	if fails, _ := probeSharedInputs(); fails {
		res.KnownHits = append(res.KnownHits, "C15-1")
	}
}

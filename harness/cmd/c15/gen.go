package main

import (
	"errors"
	"fmt"
	"math"
	"time"

	"github.com/d5/tengo/v2"
	"verifharness/lib"
)

type myErr struct{ msg string }

func (e *myErr) Error() string { return e.msg }

type myStr string
type myInt int
type myStruct struct{ A int }

var keyPool = []string{"a", "b", "k", "x", "key_1", "Z", "", "é"}
var strPool = []string{"", "a", "hello", "with \"quotes\"", "back\\slash", "new\nline", "üñí", "\xff\xfe", "0123456789", "42", "-7", "3.5", "abcdefghijklmnop"}

func genString(r *lib.RNG) string {
	if r.Chance(1, 8) {
		n := 9 + r.Intn(30)
		b := make([]byte, n)
		for i := range b {
			b[i] = byte('a' + r.Intn(26))
		}
		return string(b)
	}
	return lib.Pick(r, strPool)
}

var intPool = []int64{0, 1, -1, 2, 7, 65, 255, 256, 1 << 31, -(1 << 31) - 1, 1<<32 + 65, math.MaxInt64, math.MinInt64, 1 << 53, 1<<53 + 1}
var floatPool = []float64{0, math.Copysign(0, -1), 1, -1.5, 2.5, 2.9999, -2.9999, 1e10, 1e19, -1e19, 9.2233720368547758e18, math.MaxFloat64, math.SmallestNonzeroFloat64, math.Inf(1), math.Inf(-1), math.NaN(), 0.1, 123456.789}
var timePool = []time.Time{{}, time.Unix(0, 0).UTC(), time.Unix(1700000000, 123456789).UTC(), time.Unix(-1, 999).UTC(), time.Date(2024, 2, 29, 12, 0, 0, 0, time.UTC)}

// genTV: a Tengo value tree.
func genTV(r *lib.RNG, depth int) *TV { return genTVf(r, depth, false) }

// flat: no map with two or more entries (the String() text of such a map depends on Go's map iteration order).
func genTVf(r *lib.RNG, depth int, flat bool) *TV {
	n := 13
	if depth <= 0 {
		n = 9
	}
	switch r.Intn(n) {
	case 0:
		return &TV{K: "u"}
	case 1:
		return &TV{K: "i", I: lib.Pick(r, intPool)}
	case 2:
		return &TV{K: "s", S: []byte(genString(r))}
	case 3:
		return &TV{K: "f", F: fbits(lib.Pick(r, floatPool))}
	case 4:
		return &TV{K: "b", B: r.Bool()}
	case 5:
		return &TV{K: "c", I: lib.Pick(r, []int64{0, 65, 0x20ac, 0x1f600, 0xd800, -1, 0x110000, math.MaxInt32})}
	case 6:
		return &TV{K: "y", S: []byte(genString(r))}
	case 7:
		t := lib.Pick(r, timePool)
		return &TV{K: "t", I: t.Unix(), Nsec: t.Nanosecond()}
	case 8:
		if r.Bool() {
			return &TV{K: "uf", I: int64(r.Intn(3))}
		}
		return &TV{K: "o", I: int64(r.Intn(3))}
	case 9, 10:
		k := lib.Pick(r, []string{"a", "ia"})
		t := &TV{K: k}
		for i := r.Intn(4); i > 0; i-- {
			t.Kids = append(t.Kids, genTVf(r, depth-1, flat))
		}
		return t
	case 11:
		k := lib.Pick(r, []string{"m", "im"})
		t := &TV{K: k}
		used := map[string]bool{}
		for i := r.Intn(4); i > 0; i-- {
			key := lib.Pick(r, keyPool)
			if used[key] || (flat && len(t.Keys) == 1) {
				continue
			}
			used[key] = true
			t.Keys = append(t.Keys, key)
			t.Kids = append(t.Kids, genTVf(r, depth-1, flat))
		}
		return t
	}
	return &TV{K: "e", Kids: []*TV{genTVf(r, depth-1, true)}}
}

func genBad(r *lib.RNG) interface{} {
	x := 5
	return lib.Pick(r, []interface{}{make(chan int), struct{}{}, myStruct{1}, &x, func() {}, func(a ...tengo.Object) tengo.Object { return nil },
		[]int{1}, []string{"a"}, map[string]int{"a": 1}, map[int]interface{}{1: 1}, float32(1.5), complex(1, 2), [2]int{1, 2},
		myStr("s"), myInt(3), int8(-3), int16(300), uint(7), uint16(9), uint32(1 << 31), uint64(math.MaxUint64), uintptr(9),
		[]map[string]interface{}{}, map[string][]interface{}{}})
}

// genGo: a Go value as a host would pass it. bad = probability (in 1/16) of an unsupported leaf per leaf.
func genGo(r *lib.RNG, depth int, bad int) interface{} {
	if r.Intn(16) < bad {
		return genBad(r)
	}
	n := 20
	if depth <= 0 {
		n = 14
	}
	switch r.Intn(n) {
	case 0:
		return nil
	case 1:
		return r.Bool()
	case 2:
		return int(lib.Pick(r, intPool))
	case 3:
		return lib.Pick(r, intPool)
	case 4:
		return rune(lib.Pick(r, intPool))
	case 5:
		return byte(lib.Pick(r, intPool))
	case 6:
		return lib.Pick(r, floatPool)
	case 7:
		return genString(r)
	case 8:
		if r.Chance(1, 6) {
			return []byte(nil)
		}
		return []byte(genString(r))
	case 9:
		return lib.Pick(r, timePool)
	case 10:
		switch r.Intn(3) {
		case 0:
			return errors.New(genString(r))
		case 1:
			return fmt.Errorf("wrap: %w", errors.New(genString(r)))
		}
		return &myErr{genString(r)}
	case 11:
		return genTV(r, depth).obj()
	case 12:
		return fns[r.Intn(3)]
	case 13:
		return lib.Pick(r, []interface{}{tengo.UndefinedValue, tengo.TrueValue, tengo.FalseValue})
	case 14, 15:
		if r.Chance(1, 8) {
			return map[string]interface{}(nil)
		}
		m := map[string]interface{}{}
		for i := r.Intn(4); i > 0; i-- {
			m[lib.Pick(r, keyPool)] = genGo(r, depth-1, bad)
		}
		return m
	case 16, 17:
		if r.Chance(1, 8) {
			return []interface{}(nil)
		}
		s := []interface{}{}
		for i := r.Intn(4); i > 0; i-- {
			s = append(s, genGo(r, depth-1, bad))
		}
		return s
	case 18:
		m := map[string]tengo.Object{}
		for i := r.Intn(3); i > 0; i-- {
			m[lib.Pick(r, keyPool)] = genTV(r, depth-1).obj()
		}
		return m
	}
	s := []tengo.Object{}
	for i := r.Intn(3); i > 0; i-- {
		s = append(s, genTV(r, depth-1).obj())
	}
	return s
}

// genGoOK: like genGo, but never with two failing leaves of which one sits under a map[string]interface{} (which
// error is reported then depends on Go's map iteration order).
func genGoOK(r *lib.RNG, depth, bad, maxStr, maxBytes int) interface{} {
	for {
		g := genGo(r, depth, bad)
		if n, via := badLeaves(g, maxStr, maxBytes); n <= 1 || !via {
			return g
		}
	}
}

package main

// Round 10: values in which ONE array / map / error / scalar OBJECT is reachable along more than one path
// (`row := [1, 2]; grid := [row, row]`, `opts := {x: cfg, y: cfg}`, `[]tengo.Object{inner, inner}`): finite values that
// are graphs (DAGs), not trees. Every value of the earlier streams was a tree: the harness's picture of an object (TV)
// was rebuilt with one fresh object per occurrence, no script named a variable twice inside one container, and no host
// value held the same Object twice. Reading such a value back (Variable.Value / Array / Map, GetAll, tengo.Eval,
// tengo.ToInterface, after Clone, after copy(), after further runs and in-place updates through one of the paths) must
// give the documented Go value of the WHOLE value: every occurrence of the shared part converted ([]interface{},
// map[string]interface{}, int64, …), nothing dropped, nothing stale.
//
// Oracle: a small heap interpreter written here (TV nodes used with pointer identity): array / map literals make new
// nodes, a variable or an element read yields the node itself, `x[i] = e` / `x.k = e` update the node in place, copy()
// and Clone make fresh trees (immutable containers become mutable), Set replaces the host's value. The expected Go
// value is the documented conversion of the tree obtained by expanding the graph (goOfObject over a tree rebuilt by
// the harness). The code under test is never run to obtain an expectation.
//
// Streams: `share` (one script, inputs in three host forms, Compile / Clone / Run / Set histories with every reading
// on every handle), `to-share` (host-built object graphs through ToInterface / NewVariable / FromInterface / Clone /
// copy(), repeated calls), `eval-share` (tengo.Eval of expressions that repeat their operands), `api-share` (call
// histories of the api machine over scripts that repeat a global inside a value, against the Go specification).
// Each has a closed-form part run on every seed (shareCorpus) and a random part. Cyclic values are never built (the
// interpreter rejects an update that would close a cycle): reading one back does not terminate on the unchanged tree.

import (
	"context"
	"fmt"
	"reflect"
	"sort"
	"strings"

	"github.com/d5/tengo/v2"
	"verifharness/lib"
)

const shareMaxTree = 300 // nodes of a variable's value expanded as a tree

// ---- graphs of TV nodes ----

func shareContainer(k string) bool { return k == "a" || k == "ia" || k == "m" || k == "im" || k == "e" }

// objShared builds the tengo objects of t, ONE object per node: a node referenced twice is one object referenced twice.
func objShared(t *TV, memo map[*TV]tengo.Object) tengo.Object {
	if o, ok := memo[t]; ok {
		return o
	}
	list := func() []tengo.Object {
		out := make([]tengo.Object, len(t.Kids))
		for i, k := range t.Kids {
			out[i] = objShared(k, memo)
		}
		return out
	}
	kv := func() map[string]tengo.Object {
		out := map[string]tengo.Object{}
		for i, k := range t.Keys {
			out[k] = objShared(t.Kids[i], memo)
		}
		return out
	}
	var o tengo.Object
	switch t.K {
	case "a":
		o = &tengo.Array{Value: list()}
	case "ia":
		o = &tengo.ImmutableArray{Value: list()}
	case "m":
		o = &tengo.Map{Value: kv()}
	case "im":
		o = &tengo.ImmutableMap{Value: kv()}
	case "e":
		o = &tengo.Error{Value: objShared(t.Kids[0], memo)}
	default:
		o = t.obj()
	}
	memo[t] = o
	return o
}

// cloneGraph copies the container nodes of t and keeps their sharing (leaves are never updated: kept).
func cloneGraph(t *TV, memo map[*TV]*TV) *TV {
	if t == nil || !shareContainer(t.K) {
		return t
	}
	if c, ok := memo[t]; ok {
		return c
	}
	c := &TV{K: t.K, Keys: append([]string{}, t.Keys...), Kids: make([]*TV, len(t.Kids))}
	memo[t] = c
	for i, k := range t.Kids {
		c.Kids[i] = cloneGraph(k, memo)
	}
	return c
}

// treeSize: number of nodes of t expanded as a tree (saturating).
func treeSize(t *TV, memo map[*TV]int) int {
	if t == nil {
		return 1
	}
	if n, ok := memo[t]; ok {
		return n
	}
	n := 1
	for _, k := range t.Kids {
		n += treeSize(k, memo)
		if n > 1<<20 {
			n = 1 << 20
		}
	}
	memo[t] = n
	return n
}

func shareSize(t *TV) int { return treeSize(t, map[*TV]int{}) }

func reaches(from, target *TV, seen map[*TV]bool) bool {
	if from == target {
		return true
	}
	if from == nil || seen[from] {
		return false
	}
	seen[from] = true
	for _, k := range from.Kids {
		if reaches(k, target, seen) {
			return true
		}
	}
	return false
}

// multiMapTV: the String() text of the value depends on Go's map iteration order.
func multiMapTV(t *TV, seen map[*TV]bool) bool {
	if t == nil || seen[t] {
		return false
	}
	seen[t] = true
	if (t.K == "m" || t.K == "im") && len(t.Kids) > 1 {
		return true
	}
	for _, k := range t.Kids {
		if multiMapTV(k, seen) {
			return true
		}
	}
	return false
}

// showDAG prints the value with its sharing visible: a container node referenced more than once is labelled `#n=` where
// it is first written and `#n` afterwards.
func showDAG(t *TV) string {
	refs := map[*TV]int{}
	var count func(t *TV)
	count = func(t *TV) {
		if !shareContainer(t.K) {
			return
		}
		refs[t]++
		if refs[t] > 1 {
			return
		}
		for _, k := range t.Kids {
			count(k)
		}
	}
	count(t)
	label := map[*TV]int{}
	var sb strings.Builder
	var pr func(t *TV)
	pr = func(t *TV) {
		if !shareContainer(t.K) {
			sb.WriteString(leafText(t))
			return
		}
		if n, ok := label[t]; ok {
			sb.WriteString("#" + lib.N(n))
			return
		}
		if refs[t] > 1 {
			label[t] = len(label) + 1
			sb.WriteString("#" + lib.N(label[t]) + "=")
		}
		open, shut := "[", "]"
		switch t.K {
		case "ia":
			open, shut = "immutable([", "])"
		case "m":
			open, shut = "{", "}"
		case "im":
			open, shut = "immutable({", "})"
		case "e":
			open, shut = "error(", ")"
		}
		sb.WriteString(open)
		for i, k := range t.Kids {
			if i > 0 {
				sb.WriteString(", ")
			}
			if t.K == "m" || t.K == "im" {
				sb.WriteString(t.Keys[i] + ": ")
			}
			pr(k)
		}
		sb.WriteString(shut)
	}
	pr(t)
	return sb.String()
}

func leafText(t *TV) string {
	switch t.K {
	case "u", "i", "s", "b", "c", "y":
		return t.src()
	}
	return t.sexp()
}

// ---- host values: a graph handed over in one of three forms ----

type shareHost struct {
	t    *TV // template (never updated: every use works on a copy)
	mode int // 0 plain Go ([]interface{}, map[string]interface{}, Go scalars), 1 []tengo.Object / map[string]tengo.Object around shared objects, 2 the object graph itself
}

func (h shareHost) effMode() int {
	if h.mode == 1 && h.t.K != "a" && h.t.K != "m" {
		return 2
	}
	return h.mode
}

// goPlain: arrays and maps as []interface{} / map[string]interface{} (FromInterface makes a new object per occurrence),
// scalars as Go values, everything else as the object (handed through as it is, one object per node).
func goPlain(t *TV, memo map[*TV]tengo.Object) interface{} {
	switch t.K {
	case "a":
		out := make([]interface{}, len(t.Kids))
		for i, k := range t.Kids {
			out[i] = goPlain(k, memo)
		}
		return out
	case "m":
		out := map[string]interface{}{}
		for i, k := range t.Keys {
			out[k] = goPlain(t.Kids[i], memo)
		}
		return out
	case "u":
		return nil
	case "i":
		return t.I
	case "s":
		return string(t.S)
	case "b":
		return t.B
	case "c":
		return rune(t.I)
	}
	return objShared(t, memo)
}

// unsharePlain: what goPlain's value is once converted: a fresh array / map per occurrence; objects keep their identity.
func unsharePlain(t *TV) *TV {
	switch t.K {
	case "a", "m":
		c := &TV{K: t.K, Keys: append([]string{}, t.Keys...), Kids: make([]*TV, len(t.Kids))}
		for i, k := range t.Kids {
			c.Kids[i] = unsharePlain(k)
		}
		return c
	}
	return t
}

// mk: a fresh Go value for one Add / Set / parameter.
func (h shareHost) mk() interface{} {
	memo := map[*TV]tengo.Object{}
	switch h.effMode() {
	case 0:
		return goPlain(h.t, memo)
	case 1:
		if h.t.K == "a" {
			out := make([]tengo.Object, len(h.t.Kids))
			for i, k := range h.t.Kids {
				out[i] = objShared(k, memo)
			}
			return out
		}
		out := map[string]tengo.Object{}
		for i, k := range h.t.Keys {
			out[k] = objShared(h.t.Kids[i], memo)
		}
		return out
	}
	return objShared(h.t, memo)
}

// model: the value the script sees (conversion table of docs/interoperability.md), as a fresh graph.
func (h shareHost) model() *TV {
	g := cloneGraph(h.t, map[*TV]*TV{})
	if h.effMode() == 0 {
		return unsharePlain(g)
	}
	return g
}

func (h shareHost) text() string {
	form := []string{"plain Go value (FromInterface makes one object per occurrence)", "[]tengo.Object / map[string]tengo.Object around one object per #node", "tengo.Object graph, one object per #node"}[h.effMode()]
	return clip(showDAG(h.t), 300) + "  <" + form + ">"
}

// ---- expressions ----

type pel struct {
	key   string
	idx   int
	isKey bool
}

func pathText(p []pel) string {
	var sb strings.Builder
	for _, e := range p {
		if e.isKey {
			sb.WriteString("." + e.key)
		} else {
			sb.WriteString("[" + lib.N(e.idx) + "]")
		}
	}
	return sb.String()
}

// walk follows a path of element reads; every step must exist.
func walk(t *TV, p []pel) (*TV, bool) {
	for _, e := range p {
		if t == nil {
			return nil, false
		}
		switch {
		case (t.K == "a" || t.K == "ia") && !e.isKey && e.idx < len(t.Kids):
			t = t.Kids[e.idx]
		case (t.K == "m" || t.K == "im") && e.isKey:
			found := false
			for i, k := range t.Keys {
				if k == e.key {
					t, found = t.Kids[i], true
					break
				}
			}
			if !found {
				return nil, false
			}
		default:
			return nil, false
		}
	}
	return t, t != nil
}

type sx struct {
	op   string // var leaf arr map imm copy err dup rep mapfor cond idx selk clo
	name string
	path []pel
	l    lit
	kids []*sx
	keys []string
	n    int
}

func sxV(name string, path ...pel) *sx { return &sx{op: "var", name: name, path: path} }
func sxL(txt string, tv *TV) *sx       { return &sx{op: "leaf", l: lit{txt, tv}} }
func sxA(kids ...*sx) *sx              { return &sx{op: "arr", kids: kids} }
func sxM(keys []string, kids ...*sx) *sx {
	return &sx{op: "map", keys: keys, kids: kids}
}
func sx1(op string, k *sx) *sx    { return &sx{op: op, kids: []*sx{k}} }
func sx2(op string, k, d *sx) *sx { return &sx{op: op, kids: []*sx{k, d}} }
func sxRep(n int, k *sx) *sx      { return &sx{op: "rep", n: n, kids: []*sx{k}} }
func sxClo(name string) *sx       { return &sx{op: "clo", name: name} }
func ks(keys ...string) []string  { return keys }
func at(i int) pel                { return pel{idx: i} }
func dot(k string) pel            { return pel{key: k, isKey: true} }
func sxTexts(kids []*sx) []string {
	out := make([]string, len(kids))
	for i, k := range kids {
		out[i] = k.text()
	}
	return out
}

func (e *sx) text() string {
	switch e.op {
	case "var":
		return e.name + pathText(e.path)
	case "leaf":
		return e.l.txt
	case "arr":
		return "[" + strings.Join(sxTexts(e.kids), ", ") + "]"
	case "map":
		parts := sxTexts(e.kids)
		for i := range parts {
			parts[i] = e.keys[i] + ": " + parts[i]
		}
		return "{" + strings.Join(parts, ", ") + "}"
	case "imm":
		return "immutable(" + e.kids[0].text() + ")"
	case "copy":
		return "copy(" + e.kids[0].text() + ")"
	case "err":
		return "error(" + e.kids[0].text() + ")"
	case "dup":
		return "func(z) { return [z, z] }(" + e.kids[0].text() + ")"
	case "rep":
		return "func(z) { r := []; for i := 0; i < " + lib.N(e.n) + "; i++ { r = append(r, z) }; return r }(" + e.kids[0].text() + ")"
	case "mapfor":
		return "func(z) { r := {}; for k in [\"p\", \"q\"] { r[k] = z }; return r }(" + e.kids[0].text() + ")"
	case "cond":
		return "(true ? " + e.kids[0].text() + " : " + e.kids[1].text() + ")"
	case "idx":
		return "[" + e.kids[0].text() + ", " + e.kids[1].text() + "][1]"
	case "selk":
		return "{k: " + e.kids[0].text() + "}.k"
	case "clo":
		return "func() { return [" + e.name + ", {k: " + e.name + "}] }()"
	}
	panic("sx: " + e.op)
}

func shareUndef() *TV { return &TV{K: "u"} }

// eval: the value of the expression in env, nodes with identity. ok=false: the generator must not use it here (missing
// element, value too large, an error text that depends on map order).
func (e *sx) eval(env map[string]*TV) (*TV, bool) {
	kids := func() ([]*TV, bool) {
		out := make([]*TV, len(e.kids))
		for i, k := range e.kids {
			v, ok := k.eval(env)
			if !ok {
				return nil, false
			}
			out[i] = v
		}
		return out, true
	}
	switch e.op {
	case "var", "clo":
		v, declared := env[e.name]
		if !declared {
			return nil, false
		}
		if v == nil {
			v = shareUndef()
		}
		if e.op == "clo" {
			return &TV{K: "a", Kids: []*TV{v, {K: "m", Keys: ks("k"), Kids: []*TV{v}}}}, true
		}
		return walk(v, e.path)
	case "leaf":
		return e.l.tv, true
	}
	vs, ok := kids()
	if !ok {
		return nil, false
	}
	switch e.op {
	case "arr":
		return &TV{K: "a", Kids: vs}, true
	case "map":
		return &TV{K: "m", Keys: append([]string{}, e.keys...), Kids: vs}, true
	case "imm": // of an array / map literal only: nobody else holds the literal
		v := vs[0]
		switch v.K {
		case "a":
			return &TV{K: "ia", Kids: v.Kids}, true
		case "m":
			return &TV{K: "im", Keys: v.Keys, Kids: v.Kids}, true
		}
		return nil, false
	case "copy":
		if shareSize(vs[0]) > shareMaxTree {
			return nil, false
		}
		return copyTV(vs[0]), true
	case "err":
		if multiMapTV(vs[0], map[*TV]bool{}) {
			return nil, false
		}
		return &TV{K: "e", Kids: vs}, true
	case "dup":
		return &TV{K: "a", Kids: []*TV{vs[0], vs[0]}}, true
	case "rep":
		out := &TV{K: "a"}
		for i := 0; i < e.n; i++ {
			out.Kids = append(out.Kids, vs[0])
		}
		return out, true
	case "mapfor":
		return &TV{K: "m", Keys: ks("p", "q"), Kids: []*TV{vs[0], vs[0]}}, true
	case "cond":
		return vs[0], true
	case "idx":
		return vs[1], true
	case "selk":
		return vs[0], true
	}
	panic("sx eval: " + e.op)
}

// ---- scripts, scenarios and the heap interpreter ----

type shareStmt struct {
	dst  string
	decl bool
	path []pel // not empty: in-place update of an element of dst
	e    *sx
}

type shareInput struct {
	name string
	h    shareHost
}

type shareScript struct {
	inputs []shareInput
	stmts  []shareStmt
}

func (sc *shareScript) text() string {
	var sb strings.Builder
	for _, st := range sc.stmts {
		op := " = "
		if st.decl {
			op = " := "
		}
		sb.WriteString(st.dst + pathText(st.path) + op + st.e.text() + "\n")
	}
	return sb.String()
}

// assignAt: root[path] = v in place. The container must be a mutable array (index in range) or map, and v must not
// reach it (no cycles).
func assignAt(root *TV, path []pel, v *TV) bool {
	c, ok := walk(root, path[:len(path)-1])
	if !ok || reaches(v, c, map[*TV]bool{}) {
		return false
	}
	last := path[len(path)-1]
	switch {
	case c.K == "a" && !last.isKey && last.idx < len(c.Kids):
		c.Kids[last.idx] = v
		return true
	case c.K == "m" && last.isKey:
		for i, k := range c.Keys {
			if k == last.key {
				c.Kids[i] = v
				return true
			}
		}
		c.Keys, c.Kids = append(c.Keys, last.key), append(c.Kids, v)
		return true
	}
	return false
}

func (st *shareStmt) exec(env map[string]*TV) bool {
	v, ok := st.e.eval(env)
	if !ok {
		return false
	}
	if len(st.path) == 0 {
		env[st.dst] = v
		return true
	}
	root := env[st.dst]
	return root != nil && assignAt(root, st.path, v)
}

// errOverMulti: an error whose text depends on Go's map iteration order (a map of two or more entries below it).
func errOverMulti(t *TV, seen map[*TV]bool) bool {
	if t == nil || seen[t] {
		return false
	}
	seen[t] = true
	if t.K == "e" && multiMapTV(t, map[*TV]bool{}) {
		return true
	}
	for _, k := range t.Kids {
		if errOverMulti(k, seen) {
			return true
		}
	}
	return false
}

// envSmall: every value is small enough to be expanded as a tree and has a text that does not depend on map order.
func envSmall(env map[string]*TV) bool {
	for _, v := range env {
		if v != nil && (shareSize(v) > shareMaxTree || errOverMulti(v, map[*TV]bool{})) {
			return false
		}
	}
	return true
}

func (sc *shareScript) run(env map[string]*TV) bool {
	for i := range sc.stmts {
		if !sc.stmts[i].exec(env) {
			return false
		}
	}
	return envSmall(env)
}

func (sc *shareScript) initialEnv() map[string]*TV {
	env := map[string]*TV{}
	for _, in := range sc.inputs {
		env[in.name] = in.h.model()
	}
	for _, st := range sc.stmts {
		if st.decl {
			env[st.dst] = nil
		}
	}
	return env
}

type shareStep struct {
	k    string // read clone run set
	h    int
	ctx  bool
	name string
	v    shareHost
}

func (st shareStep) text(next int) string {
	switch st.k {
	case "clone":
		return fmt.Sprintf("c%d := c%d.Clone()", next, st.h)
	case "run":
		if st.ctx {
			return fmt.Sprintf("c%d.RunContext(ctx)", st.h)
		}
		return fmt.Sprintf("c%d.Run()", st.h)
	case "set":
		return fmt.Sprintf("c%d.Set(%q, %s)", st.h, st.name, st.v.text())
	}
	return fmt.Sprintf("read c%d", st.h)
}

type shareModel struct {
	sc   *shareScript
	envs []map[string]*TV
	ran  []bool
}

func newShareModel(sc *shareScript) *shareModel {
	return &shareModel{sc: sc, envs: []map[string]*TV{sc.initialEnv()}, ran: []bool{false}}
}

func (m *shareModel) step(st shareStep) bool {
	if st.h >= len(m.envs) {
		return false
	}
	env := m.envs[st.h]
	switch st.k {
	case "clone": // every global copied by itself (copy() semantics)
		c := map[string]*TV{}
		for n, v := range env {
			if v != nil {
				v = copyTV(v)
			}
			c[n] = v
		}
		m.envs, m.ran = append(m.envs, c), append(m.ran, m.ran[st.h])
	case "run":
		m.ran[st.h] = true
		return m.sc.run(env)
	case "set":
		if _, ok := env[st.name]; !ok {
			return false
		}
		env[st.name] = st.v.model()
		return envSmall(env)
	}
	return true
}

func shareScenarioOK(sc *shareScript, steps []shareStep) bool {
	if !envSmall(sc.initialEnv()) {
		return false
	}
	m := newShareModel(sc)
	for _, st := range steps {
		if !m.step(st) {
			return false
		}
	}
	return true
}

type shareRec struct {
	Stream   string   `json:"stream"`
	CaseSeed uint64   `json:"case_seed,omitempty"`
	Corpus   string   `json:"corpus,omitempty"`
	Script   string   `json:"script,omitempty"`
	Inputs   []string `json:"inputs,omitempty"`
	Calls    []string `json:"calls,omitempty"`
	Where    string   `json:"read_at,omitempty"`
}

const (
	sigShareScript = "script-value-with-shared-elements-read-back-differs"
	sigShareHost   = "host-value-with-shared-elements-read-back-differs"
	oracleShare    = "heap interpreter of the script written in the harness (literals make new arrays/maps, variables and element reads alias, x[i]=e updates in place, copy()/Clone copy, Set replaces); " +
		"the variable reads as the documented Go value of that value expanded as a tree (array -> []interface{}, map -> map[string]interface{}, int -> int64, …; docs/runtime-types.md, docs/interoperability.md), every occurrence of a shared element included"
)

// shareReadBad: every reading of v against the tree `want`, plus reflect.DeepEqual on Value().
func shareReadBad(v *tengo.Variable, want *TV) (what, got, exp string, bad bool) {
	if what, got, exp, bad = litReadBad(v, want); bad {
		return
	}
	// no error of the values built here has a text that depends on map order (envSmall, genDAG): Value() is always compared
	w, g := goOfTV(want), v.Value()
	if gs, ws := canonG(g), canonG(w); gs != ws {
		return "Value", gs, ws, true
	}
	if !hasNaNOrFunc(w) && !reflect.DeepEqual(g, w) {
		return "Value", fmt.Sprintf("%#v", g), fmt.Sprintf("%#v", w), true
	}
	return "", "", "", false
}

// checkShareScript runs the scenario on the real API and on the heap interpreter in lockstep.
// Precondition: shareScenarioOK(sc, steps).
func checkShareScript(stream string, seed uint64, tag string, sc *shareScript, steps []shareStep) (violated bool) {
	text := sc.text()
	in := shareRec{Stream: stream, CaseSeed: seed, Corpus: tag, Script: text}
	for _, hv := range sc.inputs {
		in.Inputs = append(in.Inputs, hv.name+" = "+hv.h.text())
	}
	in.Calls = append(in.Calls, "s := NewScript(script); s.Add(inputs); c0 := s.Compile()  (read cN = every name of cN through Get, GetAll, IsDefined, Object, Value, ValueType and the 11 typed accessors)")
	next := 1
	for _, st := range steps {
		in.Calls = append(in.Calls, st.text(next))
		if st.k == "clone" {
			next++
		}
	}
	res.Count(stream, text+strings.Join(in.Inputs, ",")+strings.Join(in.Calls, ";"), true)
	res.Dist("share:stmts=" + lib.N(len(sc.stmts)))
	fail := func(sig, where, obs, exp, oracle string) bool {
		in.Where = where
		res.Violate(lib.Violation{Signature: sig, Stream: stream, Input: in, Observed: where + ": " + clip(obs, 300), Expected: clip(exp, 300), Oracle: oracle})
		return true
	}
	defer func() {
		if p := recover(); p != nil {
			violated = fail("api-call-panics-on-value-with-shared-elements", "Compile / Run / Clone / Set / Get / GetAll", "panic: "+fmt.Sprint(p), "no panic", "no call of the embedding API panics on a well-formed script and finite values")
		}
	}()
	s := tengo.NewScript([]byte(text))
	for _, hv := range sc.inputs {
		if err := s.Add(hv.name, hv.h.mk()); err != nil {
			return fail("add-result-differs", "s.Add("+hv.name+")", err.Error(), "ok", "conversion table of docs/interoperability.md")
		}
	}
	c0, err := s.Compile()
	if err != nil {
		return fail("compile-outcome-differs", "s.Compile()", err.Error(), "compiles (declared names only)", "the script is well-formed by construction")
	}
	m := newShareModel(sc)
	handles := []*tengo.Compiled{c0}
	readAll := func(h int, where string) bool {
		c, env := handles[h], m.envs[h]
		sig := sigShareHost
		if m.ran[h] {
			sig = sigShareScript
		}
		names := make([]string, 0, len(env))
		for n := range env {
			names = append(names, n)
		}
		sort.Strings(names)
		check := func(n string, v *tengo.Variable, via string) bool {
			want := env[n]
			if want == nil {
				want = shareUndef()
			}
			if what, got, exp, bad := shareReadBad(v, want); bad {
				return fail(sig, where, fmt.Sprintf("c%d.%s(%q).%s() = %s", h, via, n, what, got), exp+"  [variable holds "+clip(showDAG(want), 160)+"]", oracleShare)
			}
			return false
		}
		for _, n := range names {
			if check(n, c.Get(n), "Get") {
				return true
			}
			if got, exp := c.IsDefined(n), env[n] != nil && env[n].K != "u"; got != exp {
				return fail("isdefined-disagrees-with-last-value", where, fmt.Sprintf("c%d.IsDefined(%q) = %v", h, n, got), fmt.Sprint(exp), oracleShare)
			}
		}
		seen := map[string]bool{}
		for _, v := range c.GetAll() {
			if _, ok := env[v.Name()]; !ok || seen[v.Name()] {
				return fail("getall-not-last-values", where, "GetAll lists "+v.Name(), "each of "+strings.Join(names, ",")+" once", oracleShare)
			}
			seen[v.Name()] = true
			// the variables of GetAll: object and Value() (all the typed readings were made on Get's variable)
			want := env[v.Name()]
			if want == nil {
				want = shareUndef()
			}
			if got, exp := tvOf(v.Object()).sexp(), want.sexp(); got != exp {
				return fail(sig, where, fmt.Sprintf("c%d.GetAll(): %s.Object() = %s", h, v.Name(), got), exp, oracleShare)
			}
			if got, exp := canonG(v.Value()), canonG(goOfTV(want)); got != exp {
				return fail(sig, where, fmt.Sprintf("c%d.GetAll(): %s.Value() = %s", h, v.Name(), got), exp+"  [variable holds "+clip(showDAG(want), 160)+"]", oracleShare)
			}
		}
		if len(seen) != len(names) {
			return fail("getall-not-last-values", where, fmt.Sprintf("GetAll lists %d names", len(seen)), strings.Join(names, ","), oracleShare)
		}
		return false
	}
	for i, st := range steps {
		where := fmt.Sprintf("call %d (%s)", i+1, clip(st.text(len(handles)), 120))
		if !m.step(st) {
			return false // not reachable: the scenario was validated
		}
		c := handles[st.h]
		switch st.k {
		case "clone":
			handles = append(handles, c.Clone())
		case "run":
			var err error
			if st.ctx {
				err = c.RunContext(context.Background())
			} else {
				err = c.Run()
			}
			if err != nil {
				return fail("run-outcome-differs", where, err.Error(), "ok", "the interpreter of the harness runs the script without error (elements exist, updated containers are mutable)")
			}
		case "set":
			if err := c.Set(st.name, st.v.mk()); err != nil {
				return fail("set-result-differs", where, err.Error(), "ok", "Set of a declared name with a supported value")
			}
		case "read":
			if readAll(st.h, where) {
				return true
			}
		}
	}
	return false
}

// shareBaseSteps: clone before the run, run, read, clone after it, the host replaces a value, second run, the clones
// run, everything read at every stage.
func shareBaseSteps(setName string, setVal shareHost, ctx bool) []shareStep {
	steps := []shareStep{{k: "read", h: 0}, {k: "clone", h: 0}, {k: "run", h: 0, ctx: ctx}, {k: "read", h: 0}, {k: "clone", h: 0}, {k: "read", h: 2}, {k: "read", h: 1}}
	if setName != "" {
		steps = append(steps, shareStep{k: "set", h: 0, name: setName, v: setVal}, shareStep{k: "read", h: 0})
	}
	steps = append(steps, shareStep{k: "run", h: 0, ctx: !ctx}, shareStep{k: "read", h: 0}, shareStep{k: "run", h: 1}, shareStep{k: "read", h: 1})
	if setName != "" {
		steps = append(steps, shareStep{k: "set", h: 2, name: setName, v: setVal})
	}
	return append(steps, shareStep{k: "run", h: 2, ctx: ctx}, shareStep{k: "read", h: 2}, shareStep{k: "clone", h: 2}, shareStep{k: "read", h: 3}, shareStep{k: "read", h: 0}, shareStep{k: "read", h: 1})
}

// shareShortSteps: the longest prefix-style fallback: run and read, clone and read.
func shareShortSteps() []shareStep {
	return []shareStep{{k: "run", h: 0}, {k: "read", h: 0}, {k: "clone", h: 0}, {k: "read", h: 1}, {k: "read", h: 0}}
}

// ---- generators ----

var shareLeafLits = []lit{{"1", ti(1)}, {"2", ti(2)}, {`"v"`, ts("v")}, {"true", tb(true)}, {"'q'", tc('q')}, {"2.5", tf(2.5)}, {"undefined", &TV{K: "u"}}, {`""`, ts("")}, {"0", ti(0)}, {"false", tb(false)}}

func genShareLeaf(r *lib.RNG) *TV {
	switch r.Intn(12) {
	case 0, 1, 2:
		return ti(lib.Pick(r, []int64{0, 1, 2, 7, -1, 1 << 40}))
	case 3, 4:
		return ts(lib.Pick(r, []string{"", "v", "p", "two words", "é"}))
	case 5:
		return tf(lib.Pick(r, []float64{0, 2.5, -1.5, 1e10}))
	case 6:
		return tb(r.Bool())
	case 7:
		return tc(lib.Pick(r, []rune{'q', 'A', 0x20ac}))
	case 8:
		return &TV{K: "u"}
	case 9:
		return &TV{K: "y", S: []byte(lib.Pick(r, []string{"", "hi"}))}
	case 10:
		t := lib.Pick(r, timePool)
		return &TV{K: "t", I: t.Unix(), Nsec: t.Nanosecond()}
	}
	if r.Chance(1, 3) {
		return &TV{K: "o", I: int64(r.Intn(3))}
	}
	return ti(int64(r.Intn(5)))
}

var shareKeys = []string{"p", "q", "k", "c", "d", "one", "two"}

// genDAG: containers built bottom-up over a pool of earlier nodes, picked with replacement: sharing at every level
// (the same node twice in one container, in sibling containers, at different depths), never a cycle.
func genDAG(r *lib.RNG) *TV {
	var pool []*TV
	for i := 1 + r.Intn(3); i > 0; i-- {
		pool = append(pool, genShareLeaf(r))
	}
	var root *TV
	for i := 2 + r.Intn(6); i > 0; i-- {
		pick := func() *TV {
			if r.Chance(1, 2) {
				k := 2
				if len(pool) < k {
					k = len(pool)
				}
				return pool[len(pool)-1-r.Intn(k)]
			}
			if r.Chance(1, 6) {
				return genShareLeaf(r)
			}
			return lib.Pick(r, pool)
		}
		var n *TV
		switch r.Intn(12) {
		case 0, 1, 2:
			n = &TV{K: "a"}
			for j := r.Intn(4); j > 0; j-- {
				n.Kids = append(n.Kids, pick())
			}
		case 3, 4: // the same node several times
			n = &TV{K: lib.Pick(r, []string{"a", "a", "ia"})}
			x := pick()
			for j := 2 + r.Intn(2); j > 0; j-- {
				n.Kids = append(n.Kids, x)
			}
			if r.Chance(1, 3) {
				n.Kids = append(n.Kids, pick())
			}
		case 5:
			n = &TV{K: "ia"}
			for j := r.Intn(3); j > 0; j-- {
				n.Kids = append(n.Kids, pick())
			}
		case 6, 7, 8, 9:
			n = &TV{K: lib.Pick(r, []string{"m", "m", "im"})}
			x := pick()
			for j, cnt := 0, r.Intn(4); j < cnt; j++ {
				n.Keys = append(n.Keys, shareKeys[(j+i)%len(shareKeys)])
				if r.Chance(1, 2) {
					n.Kids = append(n.Kids, x)
				} else {
					n.Kids = append(n.Kids, pick())
				}
			}
		case 10:
			x := pick()
			if multiMapTV(x, map[*TV]bool{}) {
				continue
			}
			n = &TV{K: "e", Kids: []*TV{x}}
		default:
			n = &TV{K: "a", Kids: []*TV{pick(), {K: "a", Kids: []*TV{pick()}}}}
		}
		if shareSize(n) > shareMaxTree/2 {
			continue
		}
		pool = append(pool, n)
		root = n
	}
	if root == nil {
		x := pool[0]
		root = &TV{K: "a", Kids: []*TV{x, x}}
	}
	return root
}

var shareSimpleHosts = []func() *TV{
	func() *TV { return &TV{K: "a", Kids: []*TV{ti(1), ti(2)}} },
	func() *TV { return &TV{K: "m", Keys: ks("k"), Kids: []*TV{ts("v")}} },
	func() *TV { return &TV{K: "a"} },
	func() *TV { return &TV{K: "m"} },
	func() *TV { return ti(7) },
	func() *TV { return ts("s") },
	func() *TV {
		return &TV{K: "a", Kids: []*TV{{K: "a", Kids: []*TV{ti(1)}}, {K: "m", Keys: ks("k"), Kids: []*TV{tb(true)}}}}
	},
	func() *TV { return &TV{K: "ia", Kids: []*TV{ti(1), ti(2)}} },
	func() *TV { return &TV{K: "u"} },
	func() *TV { in := &TV{K: "a", Kids: []*TV{ti(7)}}; return &TV{K: "a", Kids: []*TV{in, in}} },
	func() *TV {
		return &TV{K: "m", Keys: ks("k", "j"), Kids: []*TV{{K: "a", Kids: []*TV{ti(1)}}, {K: "m", Keys: ks("z"), Kids: []*TV{tb(true)}}}}
	},
}

func genShareHost(r *lib.RNG) shareHost {
	if r.Chance(1, 2) {
		return shareHost{t: lib.Pick(r, shareSimpleHosts)(), mode: r.Intn(3)}
	}
	return shareHost{t: genDAG(r), mode: r.Intn(3)}
}

func sortedNames(env map[string]*TV) []string {
	out := make([]string, 0, len(env))
	for n := range env {
		out = append(out, n)
	}
	sort.Strings(out)
	return out
}

// genSX: an expression over the variables `names` (all holding a value in env); `focus` is named again and again.
func genSX(r *lib.RNG, env map[string]*TV, names []string, focus string, depth int) *sx {
	variable := func() *sx {
		n := focus
		if r.Chance(1, 3) {
			n = lib.Pick(r, names)
		}
		e := sxV(n)
		t := env[n]
		for t != nil && len(t.Kids) > 0 && t.K != "e" && r.Chance(1, 4) {
			i := r.Intn(len(t.Kids))
			if t.K == "a" || t.K == "ia" {
				e.path = append(e.path, at(i))
			} else {
				e.path = append(e.path, dot(t.Keys[i]))
			}
			t = t.Kids[i]
		}
		return e
	}
	leaf := func() *sx { l := lib.Pick(r, shareLeafLits); return sxL(l.txt, l.tv) }
	if len(names) == 0 {
		return leaf()
	}
	if depth <= 0 {
		if r.Chance(1, 4) {
			return leaf()
		}
		return variable()
	}
	sub := func() *sx { return genSX(r, env, names, focus, depth-1) }
	arr := func() *sx {
		e := sxA()
		for i := 1 + r.Intn(4); i > 0; i-- {
			e.kids = append(e.kids, sub())
		}
		return e
	}
	mp := func() *sx {
		e := sxM(nil)
		off := r.Intn(len(shareKeys))
		for i, n := 0, 1+r.Intn(3); i < n; i++ {
			e.keys = append(e.keys, shareKeys[(off+i)%len(shareKeys)])
			e.kids = append(e.kids, sub())
		}
		return e
	}
	switch r.Intn(22) {
	case 0, 1, 2, 3, 4:
		return variable()
	case 5:
		return leaf()
	case 6, 7, 8, 9, 10:
		return arr()
	case 11, 12, 13:
		return mp()
	case 14:
		if r.Bool() {
			return sx1("imm", arr())
		}
		return sx1("imm", mp())
	case 15:
		return sx1("dup", sub())
	case 16:
		return sxRep(2+r.Intn(3), sub())
	case 17:
		return sx1("mapfor", sub())
	case 18:
		return sx1("copy", sub())
	case 19:
		return sx1("err", sub())
	case 20:
		return sx2(lib.Pick(r, []string{"cond", "idx"}), sub(), sub())
	}
	if r.Bool() {
		return sx1("selk", sub())
	}
	return sxClo(focus)
}

type pathTo struct {
	path []pel
	c    *TV
}

// mutableSpots: the mutable arrays (non-empty) and maps reachable from t within three element reads.
func mutableSpots(t *TV, prefix []pel, depth int, out *[]pathTo) {
	if t == nil || len(*out) > 40 {
		return
	}
	if (t.K == "a" && len(t.Kids) > 0) || t.K == "m" {
		*out = append(*out, pathTo{append([]pel{}, prefix...), t})
	}
	if depth == 0 || t.K == "e" {
		return
	}
	for i, k := range t.Kids {
		el := at(i)
		if t.K == "m" || t.K == "im" {
			el = dot(t.Keys[i])
		}
		mutableSpots(k, append(prefix, el), depth-1, out)
	}
}

var shareInputNames = []string{"a", "b", "m", "row", "cfg"}
var shareDeclNames = []string{"g", "x", "y", "out", "w", "v0", "v1", "v2"}

func genShareScriptOnce(r *lib.RNG, inPlace bool) *shareScript {
	sc := &shareScript{}
	for _, n := range shareInputNames {
		if r.Chance(2, 5) || (n == "row" && len(sc.inputs) == 0) {
			sc.inputs = append(sc.inputs, shareInput{n, genShareHost(r)})
		}
	}
	env := sc.initialEnv()
	free := append([]string{}, shareDeclNames...)
	for i, n := 0, 2+r.Intn(5); i < n; i++ {
		names := sortedNames(env)
		focus := lib.Pick(r, names)
		e := genSX(r, env, names, focus, 1+r.Intn(2))
		st := shareStmt{e: e}
		switch k := r.Intn(10); {
		case k >= 8 && inPlace:
			st.dst = lib.Pick(r, names)
			var spots []pathTo
			mutableSpots(env[st.dst], nil, 3, &spots)
			if len(spots) == 0 {
				continue
			}
			sp := lib.Pick(r, spots)
			last := at(0)
			if sp.c.K == "a" {
				last = at(r.Intn(len(sp.c.Kids)))
			} else if len(sp.c.Keys) > 0 && r.Bool() {
				last = dot(lib.Pick(r, sp.c.Keys))
			} else {
				last = dot("n")
			}
			st.path = append(sp.path, last)
		case k >= 6 || len(free) == 0:
			st.dst = lib.Pick(r, names)
		default:
			st.dst, st.decl = free[0], true
			free = free[1:]
		}
		if !st.exec(env) { // not usable here (exec writes nothing unless it succeeds)
			if st.decl {
				free = append([]string{st.dst}, free...)
			}
			continue
		}
		if !envSmall(env) {
			return nil
		}
		sc.stmts = append(sc.stmts, st)
	}
	if len(sc.stmts) == 0 {
		return nil
	}
	return sc
}

func genShareSteps(r *lib.RNG, sc *shareScript) []shareStep {
	var names []string
	for _, in := range sc.inputs {
		names = append(names, in.name)
	}
	for _, st := range sc.stmts {
		if st.decl {
			names = append(names, st.dst)
		}
	}
	if r.Chance(1, 3) {
		set := ""
		if r.Chance(2, 3) {
			set = lib.Pick(r, names)
		}
		return shareBaseSteps(set, genShareHost(r), r.Bool())
	}
	var steps []shareStep
	runs := []int{0}
	if r.Bool() {
		steps = append(steps, shareStep{k: "read", h: 0})
	}
	for i, n := 0, 5+r.Intn(9); i < n; i++ {
		h := r.Intn(len(runs))
		switch r.Weighted([]int{4, 2, 2, 3}) {
		case 0:
			if runs[h] >= 3 {
				continue
			}
			runs[h]++
			steps = append(steps, shareStep{k: "run", h: h, ctx: r.Bool()})
			if r.Chance(2, 3) {
				steps = append(steps, shareStep{k: "read", h: h})
			}
		case 1:
			if len(runs) >= 4 {
				continue
			}
			steps = append(steps, shareStep{k: "clone", h: h})
			runs = append(runs, runs[h])
			if r.Chance(1, 2) {
				steps = append(steps, shareStep{k: "read", h: len(runs) - 1})
			}
		case 2:
			steps = append(steps, shareStep{k: "set", h: h, name: lib.Pick(r, names), v: genShareHost(r)})
		default:
			steps = append(steps, shareStep{k: "read", h: h})
		}
	}
	for h := range runs {
		steps = append(steps, shareStep{k: "read", h: h})
	}
	return steps
}

// genShareCase: a script and a scenario the interpreter accepts (every run of the scenario: elements exist, no cycle,
// values stay small).
func genShareCase(r *lib.RNG) (*shareScript, []shareStep) {
	for try := 0; try < 40; try++ {
		sc := genShareScriptOnce(r, try < 25 && r.Chance(2, 3))
		if sc == nil {
			continue
		}
		for t := 0; t < 3; t++ {
			steps := genShareSteps(r, sc)
			if shareScenarioOK(sc, steps) {
				return sc, steps
			}
		}
		if steps := shareShortSteps(); shareScenarioOK(sc, steps) {
			return sc, steps
		}
	}
	row := shareHost{t: shareSimpleHosts[0](), mode: 0}
	return &shareScript{inputs: []shareInput{{"row", row}}, stmts: []shareStmt{{dst: "g", decl: true, e: sxA(sxV("row"), sxV("row"))}}}, shareShortSteps()
}

func shareCase(seed uint64) {
	sc, steps := genShareCase(lib.NewRNG(seed))
	checkShareScript("share", seed, "", sc, steps)
}

// ---- host-built object graphs: ToInterface / NewVariable / FromInterface / Clone / copy(), repeated calls ----

type toShareRec struct {
	Stream   string `json:"stream"`
	CaseSeed uint64 `json:"case_seed,omitempty"`
	Corpus   string `json:"corpus,omitempty"`
	Value    string `json:"object_graph"`
	Route    string `json:"route,omitempty"`
}

func checkShareValue(seed uint64, tag string, t *TV) (violated bool) {
	in := toShareRec{Stream: "to-share", CaseSeed: seed, Corpus: tag, Value: clip(showDAG(t), 500) + "  <one tengo object per #node>"}
	res.Count("to-share", in.Value, true)
	fail := func(sig, route, obs, exp, oracle string) bool {
		in.Route = route
		res.Violate(lib.Violation{Signature: sig, Stream: "to-share", Input: in, Observed: route + " = " + clip(obs, 300), Expected: clip(exp, 300), Oracle: oracle})
		return true
	}
	defer func() {
		if p := recover(); p != nil {
			violated = fail("api-call-panics-on-value-with-shared-elements", "ToInterface / NewVariable / FromInterface / Clone", "panic: "+fmt.Sprint(p), "no panic", "no call of the embedding API panics on a finite value")
		}
	}()
	const oracleTo = "Go type of each Tengo type per docs/runtime-types.md, applied to the value expanded as a tree: every occurrence of a shared element is converted"
	skipValue := errOverMulti(t, map[*TV]bool{}) // never with genDAG / the corpus
	pure := !hasNaNOrFunc(goOfTV(t))
	o := objShared(t, map[*TV]tengo.Object{})
	want := goOfTV(t)
	ws := canonG(want)
	toCheck := func(route string, got, want interface{}, ws string) bool {
		if skipValue {
			return false
		}
		if gs := canonG(got); gs != ws {
			return fail("tointerface-not-documented-go-type", route, gs, ws, oracleTo)
		}
		if pure && !reflect.DeepEqual(got, want) {
			return fail("tointerface-not-documented-go-type", route, fmt.Sprintf("%#v", got), fmt.Sprintf("%#v", want), oracleTo+" (reflect.DeepEqual)")
		}
		return false
	}
	// the value itself, twice (nothing may be remembered between two conversions), then its elements, then a wrapper
	if toCheck("ToInterface(o)", tengo.ToInterface(o), want, ws) || toCheck("second ToInterface(o)", tengo.ToInterface(o), want, ws) {
		return true
	}
	for i, k := range t.Kids {
		if i > 3 {
			break
		}
		var ko tengo.Object
		switch x := o.(type) {
		case *tengo.Array:
			ko = x.Value[i]
		case *tengo.ImmutableArray:
			ko = x.Value[i]
		case *tengo.Map:
			ko = x.Value[t.Keys[i]]
		case *tengo.ImmutableMap:
			ko = x.Value[t.Keys[i]]
		case *tengo.Error:
			ko = x.Value
		}
		if ko == nil {
			continue
		}
		kw := goOfTV(k)
		if !skipValue {
			if gs := canonG(tengo.ToInterface(ko)); gs != canonG(kw) {
				return fail("tointerface-not-documented-go-type", fmt.Sprintf("ToInterface(element %d of o) after ToInterface(o)", i), gs, canonG(kw), oracleTo)
			}
		}
	}
	wrapT := &TV{K: "a", Kids: []*TV{t, {K: "m", Keys: ks("k"), Kids: []*TV{t}}, t}}
	wrapO := &tengo.Array{Value: []tengo.Object{o, &tengo.Map{Value: map[string]tengo.Object{"k": o}}, o}}
	if shareSize(wrapT) <= 2*shareMaxTree && toCheck("ToInterface([o, {k: o}, o])", tengo.ToInterface(wrapO), goOfTV(wrapT), canonG(goOfTV(wrapT))) {
		return true
	}
	if toCheck("ToInterface(o) after ToInterface([o, {k: o}, o])", tengo.ToInterface(o), want, ws) {
		return true
	}
	// a Variable of it
	v, err := tengo.NewVariable("v", o)
	if err != nil {
		return fail("frominterface-error-not-as-documented", "NewVariable(\"v\", o)", err.Error(), "ok", "a tengo.Object is taken as it is")
	}
	if what, got, exp, bad := shareReadBad(v, t); bad {
		return fail(sigShareHost, "NewVariable(\"v\", o)."+what+"()", got, exp, oracleTo+"; typed accessors per the coercion table")
	}
	// containers of objects handed to FromInterface
	pairT := &TV{K: "a", Kids: []*TV{t, t}}
	pairMT := &TV{K: "m", Keys: ks("one", "two"), Kids: []*TV{t, t}}
	for i, g := range []interface{}{[]tengo.Object{o, o}, []interface{}{o, o}, map[string]tengo.Object{"one": o, "two": o}, map[string]interface{}{"one": o, "two": o}} {
		route := []string{"[]tengo.Object{o, o}", "[]interface{}{o, o}", "map[string]tengo.Object{one: o, two: o}", "map[string]interface{}{one: o, two: o}"}[i]
		wt := pairT
		if i >= 2 {
			wt = pairMT
		}
		fo, err := tengo.FromInterface(g)
		if err != nil {
			return fail("frominterface-error-not-as-documented", "FromInterface("+route+")", err.Error(), "ok", "conversion table of docs/interoperability.md")
		}
		if got := tvOf(fo).sexp(); got != wt.sexp() {
			return fail("frominterface-wrong-object", "FromInterface("+route+")", got, wt.sexp(), "conversion table of docs/interoperability.md")
		}
		if toCheck("ToInterface(FromInterface("+route+"))", tengo.ToInterface(fo), goOfTV(wt), canonG(goOfTV(wt))) {
			return true
		}
	}
	// Clone and copy(): fresh trees of the same value (immutable containers become mutable)
	ct := copyTV(t)
	for i, via := range []func(interface{}) (*tengo.Variable, bool){viaClone, viaCopy} {
		route := []string{"s.Add(\"v\", o); s.Compile().Clone().Get(\"v\")", "NewScript(`w := copy(v)`) with s.Add(\"v\", o); s.Run().Get(\"w\")"}[i]
		cv, ok := via(objShared(t, map[*TV]tengo.Object{}))
		if !ok || cv == nil {
			return fail("run-outcome-differs", route, "error", "ok", "copying a finite value")
		}
		if what, got, exp, bad := shareReadBad(cv, ct); bad {
			return fail([]string{"clone-read-not-the-value-added", "script-copy-read-not-the-value-added"}[i], route+"."+what+"()", got, exp,
				"a clone / a script copy of a variable reads as the value the host added, every occurrence of a shared element included")
		}
	}
	return false
}

func toShareCase(seed uint64) { checkShareValue(seed, "", genDAG(lib.NewRNG(seed))) }

// ---- tengo.Eval of expressions that repeat their operands ----

func checkEvalShare(seed uint64, e *sx, hosts map[string]shareHost) {
	env := map[string]*TV{}
	params := map[string]interface{}{}
	for n, h := range hosts {
		env[n] = h.model()
		params[n] = h.mk()
	}
	want, ok := e.eval(env)
	if !ok || shareSize(want) > shareMaxTree {
		return
	}
	saved := evalStream
	evalStream = "eval-share"
	defer func() { evalStream = saved }()
	checkEvalOne(seed, e.text(), params, true, goOfTV(want))
}

func evalShareCase(seed uint64) {
	r := lib.NewRNG(seed)
	hosts := map[string]shareHost{}
	env := map[string]*TV{}
	for _, n := range []string{"x", "m", "p"} {
		if len(hosts) == 0 || r.Chance(1, 2) {
			hosts[n] = genShareHost(r)
			env[n] = hosts[n].model()
		}
	}
	names := sortedNames(env)
	for try := 0; try < 10; try++ {
		e := genSX(r, env, names, lib.Pick(r, names), 1+r.Intn(3))
		if v, ok := e.eval(env); ok && shareSize(v) <= shareMaxTree {
			checkEvalShare(seed, e, hosts)
			return
		}
	}
	checkEvalShare(seed, sxA(sxV(names[0]), sxV(names[0])), hosts)
}

// ---- call histories of the api machine (Go specification) over scripts that repeat a global inside a value ----

var shareFamily = [][]stmt{
	{ext(10, "out", "a")},
	{ext(11, "out", "m"), ext(10, "x", "out")},
	{ext(12, "x", "a"), defv("out", "x"), ext(10, "y", "x")},
	{ext(13, "out", "a"), ext(4, "x", "out")},
	{ext(14, "out", "m"), ext(11, "x", "out"), ext(10, "y", "b")},
	{ext(15, "x", "b"), ext(16, "y", "b"), ext(10, "out", "y")},
	{asgv("b", "a"), ext(10, "out", "b"), ext(11, "x", "a")},
	{def("x", &TV{K: "a", Kids: []*TV{ti(1), ti(2)}}), ext(10, "y", "x"), ext(11, "out", "y")},
	{hid(1), ext(10, "x", "a"), hid(0), ext(12, "out", "x")},
	{ext(10, "out", "a"), failStmt, ext(10, "x", "a")},
	{ext(17, "x", "m"), ext(10, "out", "x")},
	{def("x", &TV{K: "im", Keys: []string{"k"}, Kids: []*TV{{K: "a", Kids: []*TV{ti(1)}}}}), ext(16, "out", "x"), ext(13, "y", "out")},
	{ext(15, "out", "a"), ext(15, "x", "out")},
}

var shareAPIValues = []func() interface{}{
	func() interface{} { return []interface{}{1, 2} },
	func() interface{} { return map[string]interface{}{"k": "v"} },
	func() interface{} { return []interface{}{} },
	func() interface{} { return 7 },
	func() interface{} { return nil },
	func() interface{} {
		in := &tengo.Array{Value: []tengo.Object{&tengo.Int{Value: 7}}}
		return []tengo.Object{in, in}
	},
	func() interface{} {
		in := &tengo.Map{Value: map[string]tengo.Object{"n": &tengo.Int{Value: 1}}}
		return &tengo.ImmutableMap{Value: map[string]tengo.Object{"one": in, "two": &tengo.Array{Value: []tengo.Object{in, in}}}}
	},
	func() interface{} {
		return map[string]interface{}{"k": []interface{}{1, map[string]interface{}{"z": true}}, "j": "s"}
	},
	func() interface{} {
		return &tengo.ImmutableArray{Value: []tengo.Object{&tengo.String{Value: "p"}, &tengo.Char{Value: 'q'}, &tengo.Float{Value: 2.5}}}
	},
}

func apiShareCase(seed uint64) {
	r := lib.NewRNG(seed)
	ops := genHistoryFrom(r, 1<<31-1, 1<<31-1, r.Bool(),
		func(r *lib.RNG) []stmt { return shareFamily[r.Intn(len(shareFamily))] },
		func(r *lib.RNG) interface{} {
			switch r.Intn(6) {
			case 0:
				return genAPIValue(r, 1<<31-1, 1<<31-1)
			case 1, 2:
				return genShareHost(r).mk()
			}
			return lib.Pick(r, shareAPIValues)()
		})
	if r.Chance(1, 6) {
		ops = renameInputs(r, ops, 1<<31-1, 1<<31-1)
	}
	runHistory("api-share", ops, 1<<31-1, 1<<31-1, apiInput{CaseSeed: seed}, false)
}

// ---- closed-form part, run on every seed ----

type shareForm struct {
	name string
	mk   func(v, w *sx) *sx
}

var shareForms = []shareForm{
	{"[v, v]", func(v, w *sx) *sx { return sxA(v, v) }},
	{"[v, v, v]", func(v, w *sx) *sx { return sxA(v, v, v) }},
	{"{x: v, y: v}", func(v, w *sx) *sx { return sxM(ks("x", "y"), v, v) }},
	{"{a: v, b: {c: v, d: [v]}}", func(v, w *sx) *sx { return sxM(ks("a", "b"), v, sxM(ks("c", "d"), v, sxA(v))) }},
	{"[v, [v]]", func(v, w *sx) *sx { return sxA(v, sxA(v)) }},
	{"[[v], [v]]", func(v, w *sx) *sx { return sxA(sxA(v), sxA(v)) }},
	{"[[v, w], [w, v]]", func(v, w *sx) *sx { return sxA(sxA(v, w), sxA(w, v)) }},
	{"immutable([v, v])", func(v, w *sx) *sx { return sx1("imm", sxA(v, v)) }},
	{"immutable({p: v, q: v})", func(v, w *sx) *sx { return sx1("imm", sxM(ks("p", "q"), v, v)) }},
	{"[immutable([v]), v]", func(v, w *sx) *sx { return sxA(sx1("imm", sxA(v)), v) }},
	{"func(z){[z, z]}(v)", func(v, w *sx) *sx { return sx1("dup", v) }},
	{"append loop x3", func(v, w *sx) *sx { return sxRep(3, v) }},
	{"map filled in a loop", func(v, w *sx) *sx { return sx1("mapfor", v) }},
	{"[v, copy(v)]", func(v, w *sx) *sx { return sxA(v, sx1("copy", v)) }},
	{"[error(v), v]", func(v, w *sx) *sx { return sxA(sx1("err", v), v) }},
	{"[(true ? v : w), v]", func(v, w *sx) *sx { return sxA(sx2("cond", v, w), v) }},
	{"[[w, v][1], v]", func(v, w *sx) *sx { return sxA(sx2("idx", w, v), v) }},
	{"[{k: v}.k, v]", func(v, w *sx) *sx { return sxA(sx1("selk", v), v) }},
	{"closure over the global", func(v, w *sx) *sx { return sxClo(v.name) }},
	{"[v, w, v, w]", func(v, w *sx) *sx { return sxA(v, w, v, w) }},
	{"{p: [v, v], q: [v, v]}", func(v, w *sx) *sx { return sxM(ks("p", "q"), sxA(v, v), sxA(v, v)) }},
	{"dup(dup(v))", func(v, w *sx) *sx { return sx1("dup", sx1("dup", v)) }},
	{"[[[[v]]], [[[v]]], v]", func(v, w *sx) *sx { return sxA(sxA(sxA(sxA(v))), sxA(sxA(sxA(v))), v) }},
	{"{k: v}.k", func(v, w *sx) *sx { return sx1("selk", v) }},
	{"[v]", func(v, w *sx) *sx { return sxA(v) }},
	{"[copy(v), copy(v)]", func(v, w *sx) *sx { return sxA(sx1("copy", v), sx1("copy", v)) }},
	{"{one: w, two: [w, {k: w}]}", func(v, w *sx) *sx { return sxM(ks("one", "two"), w, sxA(w, sxM(ks("k"), w))) }},
	{"[1, 1, \"v\", \"v\", v]", func(v, w *sx) *sx {
		return sxA(sxL("1", ti(1)), sxL("1", ti(1)), sxL(`"v"`, ts("v")), sxL(`"v"`, ts("v")), v)
	}},
}

// shareInPlace: scripts that update a shared element through one of its paths (x: the first form's value).
var shareInPlace = []func(f *sx) []shareStmt{
	func(f *sx) []shareStmt { // the element is updated after the value was built
		return []shareStmt{{dst: "t", decl: true, e: sxA(sxL("1", ti(1)), sxL("2", ti(2)))}, {dst: "g", decl: true, e: sxA(sxV("t"), sxV("t"), sxV("row"))},
			{dst: "t", path: []pel{at(0)}, e: sxL("9", ti(9))}, {dst: "x", decl: true, e: f}}
	},
	func(f *sx) []shareStmt { // updated through the container
		return []shareStmt{{dst: "t", decl: true, e: sxM(ks("k"), sxL(`"v"`, ts("v")))}, {dst: "g", decl: true, e: sxA(sxV("t"), sxM(ks("p", "q"), sxV("t"), sxV("t")))},
			{dst: "g", path: []pel{at(1), dot("p"), dot("k")}, e: f}, {dst: "out", decl: true, e: sxV("t")}}
	},
	func(f *sx) []shareStmt { // one occurrence replaced, the others stay
		return []shareStmt{{dst: "x", decl: true, e: f}, {dst: "g", decl: true, e: sxA(sxV("x"), sxV("x"), sxV("x"))}, {dst: "g", path: []pel{at(1)}, e: sxA(sxV("row"))},
			{dst: "out", decl: true, e: sxV("g", at(2))}}
	},
	func(f *sx) []shareStmt { // the input grows around itself on every run
		return []shareStmt{{dst: "x", decl: true, e: f}, {dst: "row", e: sxA(sxV("row"), sxV("row"))}, {dst: "g", decl: true, e: sxM(ks("l", "r"), sxV("row"), sxV("x"))}}
	},
}

func shareCorpusHosts() []*TV {
	out := []*TV{}
	for _, mk := range shareSimpleHosts {
		out = append(out, mk())
	}
	return out
}

func shareCorpus() {
	hosts := shareCorpusHosts()
	cfgs := []func() *TV{shareSimpleHosts[1], shareSimpleHosts[3], shareSimpleHosts[10]}
	n := 0
	// every form x every host value x host form, full scenario
	for fi, f := range shareForms {
		for hi, ht := range hosts {
			for _, mode := range []int{0, 2, 1} {
				if mode == 1 && ((ht.K != "a" && ht.K != "m") || (fi+hi)%2 == 1) {
					continue
				}
				n++
				row := shareHost{t: ht, mode: mode}
				cfg := shareHost{t: cfgs[n%len(cfgs)](), mode: (mode + n) % 3}
				e := f.mk(sxV("row"), sxV("cfg"))
				var sc *shareScript
				switch n % 3 {
				case 0:
					sc = &shareScript{stmts: []shareStmt{{dst: "g", decl: true, e: e}}}
				case 1:
					sc = &shareScript{stmts: []shareStmt{{dst: "x", decl: true, e: e}, {dst: "g", decl: true, e: sxA(sxV("x"), sxV("x"), sxV("row"))}, {dst: "out", decl: true, e: sxV("x")}}}
				default:
					sc = &shareScript{stmts: []shareStmt{{dst: "g", decl: true, e: e}, {dst: "cfg", e: sxM(ks("x", "y"), sxV("cfg"), sxV("g"))}}}
				}
				sc.inputs = []shareInput{{"row", row}, {"cfg", cfg}}
				set := shareHost{t: hosts[(hi+3)%len(hosts)], mode: mode}
				tag := fmt.Sprintf("form=%d %s host=%d mode=%d", fi, f.name, hi, mode)
				steps := shareBaseSteps("row", set, n%2 == 0)
				if !shareScenarioOK(sc, steps) {
					steps = shareShortSteps()
					if !shareScenarioOK(sc, steps) {
						continue // error(v) of a value whose text depends on map order
					}
				}
				checkShareScript("share", 0, tag, sc, steps)
				// Eval of the same expression over the same values
				if n%2 == 0 {
					checkEvalShare(uint64(n), f.mk(sxV("x"), sxV("m")), map[string]shareHost{"x": row, "m": cfg})
				}
			}
		}
	}
	// in-place updates through one path of a shared element
	for fi, f := range shareForms {
		for pi, mk := range shareInPlace {
			for hi, ht := range []*TV{hosts[0], hosts[[]int{6, 9, 2}[(fi+pi)%3]]} {
				sc := &shareScript{inputs: []shareInput{{"row", shareHost{t: ht, mode: (fi + pi + hi) % 3}}, {"cfg", shareHost{t: cfgs[(fi+hi)%len(cfgs)](), mode: 0}}},
					stmts: mk(f.mk(sxV("row"), sxV("cfg")))}
				steps := shareBaseSteps("", shareHost{}, fi%2 == 0)
				if !shareScenarioOK(sc, steps) {
					steps = shareShortSteps()
					if !shareScenarioOK(sc, steps) {
						continue
					}
				}
				checkShareScript("share", 0, fmt.Sprintf("in-place=%d form=%d %s host=%d", pi, fi, f.name, hi), sc, steps)
			}
		}
	}
	// host-built object graphs
	inners := []func() *TV{
		func() *TV { return &TV{K: "a", Kids: []*TV{ti(7)}} },
		func() *TV { return &TV{K: "a"} },
		func() *TV { return &TV{K: "m", Keys: ks("k"), Kids: []*TV{ti(1)}} },
		func() *TV { return &TV{K: "m"} },
		func() *TV { return &TV{K: "ia", Kids: []*TV{ti(1), ts("s")}} },
		func() *TV { return &TV{K: "im", Keys: ks("k"), Kids: []*TV{{K: "a", Kids: []*TV{ti(1)}}}} },
		func() *TV { return ti(5) },
		func() *TV { return ts("s") },
		func() *TV { return &TV{K: "y", S: []byte("hi")} },
		func() *TV { return &TV{K: "e", Kids: []*TV{ts("x")}} },
		func() *TV { return tb(true) },
		func() *TV { return &TV{K: "f", F: fbits(2.5)} },
		func() *TV { return tc('q') },
		func() *TV { x := &TV{K: "a", Kids: []*TV{ti(1)}}; return &TV{K: "a", Kids: []*TV{x, x}} },
	}
	wrappers := []func(in *TV) *TV{
		func(in *TV) *TV { return &TV{K: "a", Kids: []*TV{in, in}} },
		func(in *TV) *TV { return &TV{K: "ia", Kids: []*TV{in, in}} },
		func(in *TV) *TV { return &TV{K: "m", Keys: ks("one", "two"), Kids: []*TV{in, in}} },
		func(in *TV) *TV { return &TV{K: "im", Keys: ks("one", "two"), Kids: []*TV{in, in}} },
		func(in *TV) *TV { return &TV{K: "a", Kids: []*TV{in, {K: "a", Kids: []*TV{in}}}} },
		func(in *TV) *TV {
			return &TV{K: "a", Kids: []*TV{{K: "a", Kids: []*TV{in}}, {K: "a", Kids: []*TV{in}}}}
		},
		func(in *TV) *TV {
			return &TV{K: "m", Keys: ks("a", "b"), Kids: []*TV{in, {K: "m", Keys: ks("c", "d"), Kids: []*TV{in, {K: "a", Kids: []*TV{in}}}}}}
		},
		func(in *TV) *TV { return &TV{K: "a", Kids: []*TV{{K: "e", Kids: []*TV{in}}, in}} },
		func(in *TV) *TV { mid := &TV{K: "a", Kids: []*TV{in, in}}; return &TV{K: "a", Kids: []*TV{mid, mid}} },
		func(in *TV) *TV {
			chain := in
			for i := 0; i < 8; i++ {
				chain = &TV{K: "a", Kids: []*TV{chain}}
			}
			return &TV{K: "a", Kids: []*TV{chain, in}}
		},
		func(in *TV) *TV { e := &TV{K: "e", Kids: []*TV{in}}; return &TV{K: "a", Kids: []*TV{e, e}} },
		func(in *TV) *TV { return &TV{K: "a", Kids: []*TV{in}} },
	}
	for ii, mkIn := range inners {
		for wi, wr := range wrappers {
			checkShareValue(0, fmt.Sprintf("inner=%d wrapper=%d", ii, wi), wr(mkIn()))
		}
	}
	// call histories: every script of the family x every value, original and clones before / after runs, Set on clones
	for si, src := range shareFamily {
		for vi, mk := range shareAPIValues {
			other := shareAPIValues[(vi+2)%len(shareAPIValues)]
			ops := []op{{K: "new", Src: src},
				{K: "add", H: 0, Name: "a", G: mk()},
				{K: "add", H: 0, Name: "b", G: other()},
				{K: "add", H: 0, Name: "m", G: map[string]interface{}{"v": mk(), "w": mk()}},
				{K: "compile", H: 0}, {K: "clone", H: 0},
				{K: "getall", H: 0}, {K: "getall", H: 1},
				{K: "run", H: 1}, {K: "getall", H: 1},
				{K: "clone", H: 1}, {K: "getall", H: 2},
				{K: "run", H: 0, Ctx: true}, {K: "getall", H: 0},
				{K: "set", H: 1, Name: "a", G: other()},
				{K: "set", H: 2, Name: "b", G: mk()},
				{K: "clone", H: 1},
				{K: "run", H: 2}, {K: "run", H: 3}, {K: "run", H: 3},
				{K: "clone", H: 3},
			}
			for h := 0; h <= 4; h++ {
				ops = append(ops, op{K: "getall", H: h})
				for _, nm := range []string{"a", "out", "x", "y", "zz"} {
					ops = append(ops, op{K: "get", H: h, Name: nm}, op{K: "isdef", H: h, Name: nm})
				}
			}
			runHistory("api-share", ops, 1<<30, 1<<30, apiInput{Exh: fmt.Sprintf("share-corpus script=%d value=%d", si, vi)}, false)
		}
	}
}

package main

import (
	"errors"
	"fmt"
	"math"
	"sort"
	"strconv"
	"strings"
	"time"

	"github.com/d5/tengo/v2"
	"verifharness/lib"
)

// ---- Tengo values as trees (the harness's own picture of an object) ----

// TV kinds: u i s f b c y a ia m im t e uf o
type TV struct {
	K    string
	I    int64  // i, c, t(sec), uf/o(id)
	F    uint64 // f bits
	S    []byte // s, y
	B    bool
	Nsec int
	Kids []*TV
	Keys []string // m, im: parallel to Kids
}

const nanBits = 0x7ff8000000000001

func fbits(f float64) uint64 {
	if f != f {
		return nanBits
	}
	return math.Float64bits(f)
}

// user-defined Object type (anything FromInterface/ToInterface do not know)
type userObj struct {
	tengo.ObjectImpl
	id int
}

func (o *userObj) TypeName() string         { return "user-obj" }
func (o *userObj) String() string           { return fmt.Sprintf("<user-obj %d>", o.id) }
func (o *userObj) Copy() tengo.Object       { return o }
func (o *userObj) IsFalsy() bool            { return false }
func (o *userObj) Equals(tengo.Object) bool { return false }

var fns = []tengo.CallableFunc{
	func(args ...tengo.Object) (tengo.Object, error) { return &tengo.Int{Value: 0}, nil },
	func(args ...tengo.Object) (tengo.Object, error) { return &tengo.Int{Value: 1}, nil },
	func(args ...tengo.Object) (tengo.Object, error) { return &tengo.Int{Value: 2}, nil },
}

func fnID(f tengo.CallableFunc) int64 {
	o, _ := f()
	if i, ok := o.(*tengo.Int); ok {
		return i.Value
	}
	return -1
}

func tvOf(o tengo.Object) *TV {
	switch v := o.(type) {
	case nil:
		return &TV{K: "u"}
	case *tengo.Undefined:
		return &TV{K: "u"}
	case *tengo.Int:
		return &TV{K: "i", I: v.Value}
	case *tengo.String:
		return &TV{K: "s", S: []byte(v.Value)}
	case *tengo.Float:
		return &TV{K: "f", F: fbits(v.Value)}
	case *tengo.Bool:
		return &TV{K: "b", B: !v.IsFalsy()}
	case *tengo.Char:
		return &TV{K: "c", I: int64(v.Value)}
	case *tengo.Bytes:
		return &TV{K: "y", S: append([]byte{}, v.Value...)}
	case *tengo.Array:
		return &TV{K: "a", Kids: tvList(v.Value)}
	case *tengo.ImmutableArray:
		return &TV{K: "ia", Kids: tvList(v.Value)}
	case *tengo.Map:
		k, c := tvMap(v.Value)
		return &TV{K: "m", Keys: k, Kids: c}
	case *tengo.ImmutableMap:
		k, c := tvMap(v.Value)
		return &TV{K: "im", Keys: k, Kids: c}
	case *tengo.Time:
		return &TV{K: "t", I: v.Value.Unix(), Nsec: v.Value.Nanosecond()}
	case *tengo.Error:
		return &TV{K: "e", Kids: []*TV{tvOf(v.Value)}}
	case *tengo.UserFunction:
		return &TV{K: "uf", I: fnID(v.Value)}
	case *userObj:
		return &TV{K: "o", I: int64(v.id)}
	}
	return &TV{K: "o", I: 999}
}

func tvList(xs []tengo.Object) []*TV {
	out := make([]*TV, len(xs))
	for i, x := range xs {
		out[i] = tvOf(x)
	}
	return out
}

func tvMap(m map[string]tengo.Object) ([]string, []*TV) {
	keys := make([]string, 0, len(m))
	for k := range m {
		keys = append(keys, k)
	}
	sort.Strings(keys)
	kids := make([]*TV, len(keys))
	for i, k := range keys {
		kids[i] = tvOf(m[k])
	}
	return keys, kids
}

func (t *TV) sexp() string {
	switch t.K {
	case "u":
		return "u"
	case "i":
		return "(i " + lib.I(t.I) + ")"
	case "s":
		return "(s " + lib.Hex(t.S) + ")"
	case "f":
		return "(f " + lib.U(t.F) + ")"
	case "b":
		return "(b " + lib.B(t.B) + ")"
	case "c":
		return "(c " + lib.I(t.I) + ")"
	case "y":
		return "(y " + lib.Hex(t.S) + ")"
	case "a", "ia":
		var sb strings.Builder
		for _, k := range t.Kids {
			sb.WriteString(" " + k.sexp())
		}
		return "(" + t.K + sb.String() + ")"
	case "m", "im":
		idx := make([]int, len(t.Keys))
		for i := range idx {
			idx[i] = i
		}
		sort.Slice(idx, func(a, b int) bool { return t.Keys[idx[a]] < t.Keys[idx[b]] })
		var sb strings.Builder
		for _, i := range idx {
			sb.WriteString(" (" + lib.HexS(t.Keys[i]) + " " + t.Kids[i].sexp() + ")")
		}
		return "(" + t.K + sb.String() + ")"
	case "t":
		return "(t " + lib.I(t.I) + " " + lib.N(t.Nsec) + ")"
	case "e":
		return "(e " + t.Kids[0].sexp() + ")"
	case "uf":
		return "(uf " + lib.I(t.I) + ")"
	}
	return "(o " + lib.I(t.I) + ")"
}

// obj builds a fresh tengo object.
func (t *TV) obj() tengo.Object {
	switch t.K {
	case "u":
		return tengo.UndefinedValue
	case "i":
		return &tengo.Int{Value: t.I}
	case "s":
		return &tengo.String{Value: string(t.S)}
	case "f":
		return &tengo.Float{Value: math.Float64frombits(t.F)}
	case "b":
		if t.B {
			return tengo.TrueValue
		}
		return tengo.FalseValue
	case "c":
		return &tengo.Char{Value: rune(t.I)}
	case "y":
		return &tengo.Bytes{Value: append([]byte{}, t.S...)}
	case "a":
		return &tengo.Array{Value: objList(t.Kids)}
	case "ia":
		return &tengo.ImmutableArray{Value: objList(t.Kids)}
	case "m":
		return &tengo.Map{Value: objMap(t)}
	case "im":
		return &tengo.ImmutableMap{Value: objMap(t)}
	case "t":
		return &tengo.Time{Value: time.Unix(t.I, int64(t.Nsec)).UTC()}
	case "e":
		return &tengo.Error{Value: t.Kids[0].obj()}
	case "uf":
		return &tengo.UserFunction{Value: fns[t.I]}
	}
	return &userObj{id: int(t.I)}
}

func objList(ts []*TV) []tengo.Object {
	out := make([]tengo.Object, len(ts))
	for i, t := range ts {
		out[i] = t.obj()
	}
	return out
}

func objMap(t *TV) map[string]tengo.Object {
	m := map[string]tengo.Object{}
	for i, k := range t.Keys {
		m[k] = t.Kids[i].obj()
	}
	return m
}

// copyTV is Object.Copy() as documented for `copy`: deep, immutable containers become mutable.
func copyTV(t *TV) *TV {
	switch t.K {
	case "a", "ia":
		return &TV{K: "a", Kids: copyTVs(t.Kids)}
	case "m", "im":
		return &TV{K: "m", Keys: append([]string{}, t.Keys...), Kids: copyTVs(t.Kids)}
	case "e":
		return &TV{K: "e", Kids: copyTVs(t.Kids)}
	}
	return t
}

func copyTVs(ts []*TV) []*TV {
	out := make([]*TV, len(ts))
	for i, t := range ts {
		out[i] = copyTV(t)
	}
	return out
}

// src renders a value as a Tengo literal expression (script family constants).
func (t *TV) src() string {
	switch t.K {
	case "u":
		return "undefined"
	case "i":
		if t.I < 0 {
			return "(" + lib.I(t.I) + ")"
		}
		return lib.I(t.I)
	case "s":
		return strconv.Quote(string(t.S))
	case "b":
		return strconv.FormatBool(t.B)
	case "c":
		return "'" + string(rune(t.I)) + "'"
	case "y":
		return "bytes(" + strconv.Quote(string(t.S)) + ")"
	case "a", "ia":
		var parts []string
		for _, k := range t.Kids {
			parts = append(parts, k.src())
		}
		s := "[" + strings.Join(parts, ", ") + "]"
		if t.K == "ia" {
			return "immutable(" + s + ")"
		}
		return s
	case "m", "im":
		var parts []string
		for i, k := range t.Kids {
			parts = append(parts, t.Keys[i]+": "+k.src())
		}
		s := "{" + strings.Join(parts, ", ") + "}"
		if t.K == "im" {
			return "immutable(" + s + ")"
		}
		return s
	case "e":
		return "error(" + t.Kids[0].src() + ")"
	}
	panic("no literal for " + t.K)
}

// ---- Go values: canonical print (the GoVal of the model) ----

func canonG(g interface{}) string {
	switch v := g.(type) {
	case nil:
		return "nil"
	case bool:
		return "(bool " + lib.B(v) + ")"
	case int:
		return "(int int " + lib.I(int64(v)) + ")"
	case int8:
		return "(int int8 " + lib.I(int64(v)) + ")"
	case int16:
		return "(int int16 " + lib.I(int64(v)) + ")"
	case int32:
		return "(int int32 " + lib.I(int64(v)) + ")"
	case int64:
		return "(int int64 " + lib.I(v) + ")"
	case uint:
		return "(int uint " + lib.U(uint64(v)) + ")"
	case uint8:
		return "(int uint8 " + lib.U(uint64(v)) + ")"
	case uint16:
		return "(int uint16 " + lib.U(uint64(v)) + ")"
	case uint32:
		return "(int uint32 " + lib.U(uint64(v)) + ")"
	case uint64:
		return "(int uint64 " + lib.U(v) + ")"
	case uintptr:
		return "(int uintptr " + lib.U(uint64(v)) + ")"
	case float64:
		return "(f64 " + lib.U(fbits(v)) + ")"
	case string:
		return "(str " + lib.HexS(v) + ")"
	case []byte:
		return "(bytes " + lib.Hex(v) + ")"
	case time.Time:
		return "(time " + lib.I(v.Unix()) + " " + lib.N(v.Nanosecond()) + ")"
	case map[string]tengo.Object:
		k, c := tvMap(v)
		return "(mapobj" + strings.TrimPrefix((&TV{K: "m", Keys: k, Kids: c}).sexp(), "(m") // same entry syntax
	case map[string]interface{}:
		keys := make([]string, 0, len(v))
		for k := range v {
			keys = append(keys, k)
		}
		sort.Strings(keys)
		var sb strings.Builder
		for _, k := range keys {
			sb.WriteString(" (" + lib.HexS(k) + " " + canonG(v[k]) + ")")
		}
		return "(map" + sb.String() + ")"
	case []tengo.Object:
		return "(sliceobj" + strings.TrimPrefix((&TV{K: "a", Kids: tvList(v)}).sexp(), "(a")
	case []interface{}:
		var sb strings.Builder
		for _, x := range v {
			sb.WriteString(" " + canonG(x))
		}
		return "(slice" + sb.String() + ")"
	case tengo.CallableFunc:
		return "(fn " + lib.I(fnID(v)) + ")"
	case error: // before Object, as in the switch
		return "(err " + lib.HexS(v.Error()) + ")"
	case tengo.Object:
		return "(obj " + tvOf(v).sexp() + ")"
	}
	return "(bad " + lib.HexS(fmt.Sprintf("%T", g)) + ")"
}

// ---- the documented normalisation, written from docs/interoperability.md and docs/runtime-types.md ----

// goOfObject: the Go type the documentation gives for each Tengo type (runtime-types.md), recursively.
func goOfObject(o tengo.Object) interface{} {
	switch v := o.(type) {
	case *tengo.Int:
		return v.Value // int64
	case *tengo.String:
		return v.Value
	case *tengo.Float:
		return v.Value
	case *tengo.Bool:
		return !v.IsFalsy()
	case *tengo.Char:
		return v.Value // rune
	case *tengo.Bytes:
		return v.Value
	case *tengo.Array:
		return goOfObjects(v.Value)
	case *tengo.ImmutableArray:
		return goOfObjects(v.Value)
	case *tengo.Map:
		return goOfObjectMap(v.Value)
	case *tengo.ImmutableMap:
		return goOfObjectMap(v.Value)
	case *tengo.Time:
		return v.Value
	case *tengo.Error:
		// coercion table, Error -> String: "error: ..." over the payload's String()
		if s, ok := v.Value.(*tengo.String); ok {
			return errors.New("error: " + strconv.Quote(s.Value))
		}
		return errors.New("error: " + v.Value.String())
	case *tengo.Undefined:
		return nil
	}
	return o
}

func goOfObjects(xs []tengo.Object) []interface{} {
	out := make([]interface{}, len(xs))
	for i, x := range xs {
		out[i] = goOfObject(x)
	}
	return out
}

func goOfObjectMap(m map[string]tengo.Object) map[string]interface{} {
	out := make(map[string]interface{}, len(m))
	for k, x := range m {
		out[k] = goOfObject(x)
	}
	return out
}

// normalizeGo: what a supported Go value is after Go -> Tengo -> Go according to the documentation.
func normalizeGo(g interface{}) interface{} {
	switch v := g.(type) {
	case nil, string, bool, float64, []byte, time.Time, int64:
		return g
	case int:
		return int64(v)
	case rune:
		return v
	case byte:
		return rune(v)
	case map[string]tengo.Object:
		return goOfObjectMap(v)
	case map[string]interface{}:
		out := make(map[string]interface{}, len(v))
		for k, x := range v {
			out[k] = normalizeGo(x)
		}
		return out
	case []tengo.Object:
		return goOfObjects(v)
	case []interface{}:
		out := make([]interface{}, len(v))
		for i, x := range v {
			out[i] = normalizeGo(x)
		}
		return out
	case tengo.CallableFunc:
		return &tengo.UserFunction{Value: v}
	case error:
		return errors.New("error: " + strconv.Quote(v.Error()))
	case tengo.Object:
		return goOfObject(v)
	}
	return g
}

// refConv: FromInterface according to the conversion table of docs/interoperability.md plus the
// MaxStringLen / MaxBytesLen limits; the error class of the first bad leaf in canonical order.
func refConv(g interface{}, maxStr, maxBytes int) (*TV, string) {
	switch v := g.(type) {
	case nil:
		return &TV{K: "u"}, ""
	case string:
		if len(v) > maxStr {
			return nil, "string-limit"
		}
		return &TV{K: "s", S: []byte(v)}, ""
	case int64:
		return &TV{K: "i", I: v}, ""
	case int:
		return &TV{K: "i", I: int64(v)}, ""
	case bool:
		return &TV{K: "b", B: v}, ""
	case rune:
		return &TV{K: "c", I: int64(v)}, ""
	case byte:
		return &TV{K: "c", I: int64(v)}, ""
	case float64:
		return &TV{K: "f", F: fbits(v)}, ""
	case []byte:
		if len(v) > maxBytes {
			return nil, "bytes-limit"
		}
		return &TV{K: "y", S: append([]byte{}, v...)}, ""
	case time.Time:
		return &TV{K: "t", I: v.Unix(), Nsec: v.Nanosecond()}, ""
	case map[string]tengo.Object:
		k, c := tvMap(v)
		return &TV{K: "m", Keys: k, Kids: c}, ""
	case map[string]interface{}:
		keys := make([]string, 0, len(v))
		for k := range v {
			keys = append(keys, k)
		}
		sort.Strings(keys)
		t := &TV{K: "m"}
		for _, k := range keys {
			e, ec := refConv(v[k], maxStr, maxBytes)
			if ec != "" {
				return nil, ec
			}
			t.Keys = append(t.Keys, k)
			t.Kids = append(t.Kids, e)
		}
		return t, ""
	case []tengo.Object:
		return &TV{K: "a", Kids: tvList(v)}, ""
	case []interface{}:
		t := &TV{K: "a"}
		for _, x := range v {
			e, ec := refConv(x, maxStr, maxBytes)
			if ec != "" {
				return nil, ec
			}
			t.Kids = append(t.Kids, e)
		}
		return t, ""
	case tengo.CallableFunc:
		return &TV{K: "uf", I: fnID(v)}, ""
	case error:
		return &TV{K: "e", Kids: []*TV{{K: "s", S: []byte(v.Error())}}}, ""
	case tengo.Object:
		return tvOf(v), ""
	}
	return nil, "(cannot " + lib.HexS(fmt.Sprintf("%T", g)) + ")"
}

// badLeaves counts the leaves that make a conversion fail; viaMap says whether one sits under a
// map[string]interface{} (then which one is reported depends on Go's map iteration order).
func badLeaves(g interface{}, maxStr, maxBytes int) (n int, viaMap bool) {
	switch v := g.(type) {
	case map[string]interface{}:
		for _, x := range v {
			k, _ := badLeaves(x, maxStr, maxBytes)
			n += k
		}
		return n, n > 0
	case []interface{}:
		for _, x := range v {
			k, m := badLeaves(x, maxStr, maxBytes)
			n += k
			viaMap = viaMap || m
		}
		return n, viaMap
	}
	if _, ec := refConv(g, maxStr, maxBytes); ec != "" {
		return 1, false
	}
	return 0, false
}

func errClass(err error) string {
	switch {
	case err == nil:
		return ""
	case errors.Is(err, tengo.ErrStringLimit):
		return "string-limit"
	case errors.Is(err, tengo.ErrBytesLimit):
		return "bytes-limit"
	case strings.HasPrefix(err.Error(), "cannot convert to object: "):
		return "(cannot " + lib.HexS(strings.TrimPrefix(err.Error(), "cannot convert to object: ")) + ")"
	}
	return "(other " + lib.HexS(err.Error()) + ")"
}

// strtab: the String() texts the model needs for a value: every error payload, and the value itself.
func strtab(objs ...tengo.Object) string {
	seen := map[string]bool{}
	var sb strings.Builder
	var walk func(o tengo.Object, self bool)
	add := func(o tengo.Object) {
		k := tvOf(o).sexp()
		if !seen[k] {
			seen[k] = true
			sb.WriteString("(" + k + " " + lib.HexS(o.String()) + ")")
		}
	}
	walk = func(o tengo.Object, self bool) {
		if self {
			add(o)
		}
		switch v := o.(type) {
		case *tengo.Error:
			add(v.Value)
			walk(v.Value, false)
		case *tengo.Array:
			for _, x := range v.Value {
				walk(x, false)
			}
		case *tengo.ImmutableArray:
			for _, x := range v.Value {
				walk(x, false)
			}
		case *tengo.Map:
			for _, k := range sortedKeys(v.Value) {
				walk(v.Value[k], false)
			}
		case *tengo.ImmutableMap:
			for _, k := range sortedKeys(v.Value) {
				walk(v.Value[k], false)
			}
		}
	}
	for _, o := range objs {
		walk(o, true)
	}
	return "(" + sb.String() + ")"
}

func sortedKeys(m map[string]tengo.Object) []string {
	keys := make([]string, 0, len(m))
	for k := range m {
		keys = append(keys, k)
	}
	sort.Strings(keys)
	return keys
}

func hasNaNOrFunc(g interface{}) bool {
	s := canonG(g)
	return strings.Contains(s, "(f64 "+lib.U(nanBits)+")") || strings.Contains(s, "(f "+lib.U(nanBits)+")") ||
		strings.Contains(s, "(uf ") || strings.Contains(s, "(fn ")
}

// multiMapInside: the String() text of o depends on Go's map iteration order.
func multiMapInside(o tengo.Object) bool {
	switch v := o.(type) {
	case *tengo.Error:
		return multiMapInside(v.Value)
	case *tengo.Array:
		for _, x := range v.Value {
			if multiMapInside(x) {
				return true
			}
		}
	case *tengo.ImmutableArray:
		for _, x := range v.Value {
			if multiMapInside(x) {
				return true
			}
		}
	case *tengo.Map:
		if len(v.Value) > 1 {
			return true
		}
		for _, x := range v.Value {
			if multiMapInside(x) {
				return true
			}
		}
	case *tengo.ImmutableMap:
		if len(v.Value) > 1 {
			return true
		}
		for _, x := range v.Value {
			if multiMapInside(x) {
				return true
			}
		}
	}
	return false
}

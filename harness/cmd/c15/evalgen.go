package main

import (
	"strconv"
	"strings"

	"verifharness/lib"
)

// ---- expressions for the eval stream ----
//
// Eval hands the expression text to the compiler; the text must reach it unchanged whatever characters it holds.
// The generator therefore covers every binary operator of the language (the modulo operator included) and string /
// char literals full of '%' (format verbs, "%%", "%!", verbs next to parameter names), and parameters whose values
// contain '%'.

var evalBinOps = []string{"+", "-", "*", "/", "%", "&", "|", "^", "&^", "<<", ">>", "==", "!=", "<", "<=", ">", ">=", "&&", "||"}

var evalPctStrings = []string{"%", "%%", "100%", "100%%", "%d", "%v", "%s", "%!", "%!d(MISSING)", "a%db", "%5.2f", "% x", "%[1]d", "%%%",
	"50% of %v", "%q", "%T", "%+v", "%#v", "%c", "%U", "%*d", "%-", "%\n", "%%d", "%a%b%s", "(%s)", "%)", "%(", "x%", "%x%", "%!(EXTRA string=x)",
	"%!v(MISSING)", "%!(NOVERB)", "%%!", "%09d", "%.3s", "% d", "%+d", "%e", "%t", "%p", "%w", "\"%\"", "'%'", "`%`"}

func evalStrLit(r *lib.RNG, s string) string {
	if !strings.Contains(s, "`") && !strings.Contains(s, "\r") && r.Chance(1, 4) {
		return "`" + s + "`"
	}
	return strconv.Quote(s)
}

// pinnedExpr: an expression whose value the harness knows by construction.
type pinnedExpr struct {
	expr  string
	want  interface{}
	needs []string // parameters that must be present with the generated kind (a: int, s: string, p: string)
}

// evalParams the generator relies on: a (int), n (non-zero small int), s (string), p (string with '%'), f (bool).
func evalPinned(r *lib.RNG, a int64, s, p string) pinnedExpr {
	lit := lib.Pick(r, evalPctStrings)
	q := evalStrLit(r, lit)
	k := lib.Pick(r, []int64{1, 2, 3, 7, 10, -3, 1 << 40})
	switch r.Intn(14) {
	case 0:
		return pinnedExpr{q, lit, nil}
	case 1:
		return pinnedExpr{"s + " + q, s + lit, []string{"s"}}
	case 2:
		return pinnedExpr{q + " + s", lit + s, []string{"s"}}
	case 3:
		return pinnedExpr{q + "+p+" + q, lit + p + lit, []string{"p"}}
	case 4:
		return pinnedExpr{"a % " + lib.I(absI(k)), a % absI(k), []string{"a"}}
	case 5:
		return pinnedExpr{"a%" + lib.I(absI(k)), a % absI(k), []string{"a"}}
	case 6:
		return pinnedExpr{lib.I(absI(k)) + " %(7)", absI(k) % 7, nil}
	case 7:
		return pinnedExpr{"'%'", rune('%'), nil}
	case 8:
		return pinnedExpr{"len(" + q + ")", int64(len(lit)), nil}
	case 9:
		return pinnedExpr{"format(\"%d%%\", a)", strconv.FormatInt(a, 10) + "%", []string{"a"}}
	case 10:
		return pinnedExpr{"format(\"%d%s%d\", a, " + q + ", a %3)", strconv.FormatInt(a, 10) + lit + strconv.FormatInt(a%3, 10), []string{"a"}}
	case 11:
		return pinnedExpr{"[" + q + ", '%', a % 5]", []interface{}{lit, rune('%'), a % 5}, []string{"a"}}
	case 12:
		return pinnedExpr{"p", p, []string{"p"}}
	}
	return pinnedExpr{"{k: " + q + "}.k + string('%')", lit + "%", nil}
}

func absI(k int64) int64 {
	if k < 0 {
		return -k
	}
	return k
}

func evalAtom(r *lib.RNG) string {
	switch r.Intn(12) {
	case 0, 1:
		return "a"
	case 2:
		return "n"
	case 3:
		return "b"
	case 4:
		return "s"
	case 5:
		return "p"
	case 6:
		return "f"
	case 7:
		return lib.I(int64(r.Intn(9)))
	case 8:
		return evalStrLit(r, lib.Pick(r, evalPctStrings))
	case 9:
		return lib.Pick(r, []string{"'%'", "'x'", "'d'"})
	case 10:
		return lib.Pick(r, []string{"2.5", "true", "false", "undefined"})
	}
	return lib.Pick(r, []string{"len(p)", "string(a)", "int(f)", "char(37)"})
}

// evalRandom: a random expression over all binary operators; values only flow through types whose printed form does not
// depend on Go's map iteration order (no multi-entry maps).
func evalRandom(r *lib.RNG, depth int) string {
	if depth <= 0 || r.Chance(1, 4) {
		return evalAtom(r)
	}
	switch r.Intn(8) {
	case 0:
		return "(" + evalRandom(r, depth-1) + ")"
	case 1:
		return "format(" + evalStrLit(r, lib.Pick(r, evalPctStrings)+lib.Pick(r, []string{"", "%d", "%v", "|%s|"})) + ", " + evalAtom(r) + ", " + evalAtom(r) + ")"
	case 2:
		return evalRandom(r, depth-1) + " ? " + evalAtom(r) + " : " + evalAtom(r)
	}
	op := lib.Pick(r, evalBinOps)
	if r.Chance(1, 3) {
		op = "%"
	}
	sp := lib.Pick(r, []string{" ", "", "  "})
	return evalRandom(r, depth-1) + sp + op + sp + evalRandom(r, depth-1)
}

// evalCorpus: fixed expressions run on every seed (expr, pinned value or nil = script route only).
type evalFixed struct {
	expr   string
	params map[string]interface{}
	pinned bool
	want   interface{}
}

func evalCorpus() []evalFixed {
	ab := func() map[string]interface{} {
		return map[string]interface{}{"a": 17, "b": int64(5), "s": "100", "p": "50%d%%"}
	}
	out := []evalFixed{
		{"a % b", ab(), true, int64(2)},
		{"a%b", ab(), true, int64(2)},
		{"s + \"%%\"", ab(), true, "100%%"},
		{"s + \"%\"", ab(), true, "100%"},
		{"\"%d\"", ab(), true, "%d"},
		{"\"%v\" + s", ab(), true, "%v100"},
		{"\"%!\"", nil, true, "%!"},
		{"'%'", nil, true, rune('%')},
		{"`%s`", nil, true, "%s"},
		{"p", ab(), true, "50%d%%"},
		{"p + \"%\"", ab(), true, "50%d%%%"},
		{"format(\"%d%%\", a)", ab(), true, "17%"},
		{"format(\"%v %v\", a, b)", ab(), true, "17 5"},
		{"(a % b) % 2 == 0 ? \"even%\" : \"odd%\"", ab(), true, "even%"},
		{"a % 0", ab(), false, nil},
		{"a %", ab(), false, nil},
		{"% a", ab(), false, nil},
		{"a %% b", ab(), false, nil},
		{"\"%", ab(), false, nil},
	}
	for _, op := range evalBinOps {
		for _, sp := range []string{" ", ""} {
			out = append(out, evalFixed{"a" + sp + op + sp + "b", ab(), false, nil})
			out = append(out, evalFixed{"s" + sp + op + sp + "\"%\"", ab(), false, nil})
		}
	}
	for _, lit := range evalPctStrings {
		out = append(out, evalFixed{strconv.Quote(lit), ab(), true, lit})
		out = append(out, evalFixed{"s+" + strconv.Quote(lit) + "+p", ab(), true, "100" + lit + "50%d%%"})
	}
	return out
}

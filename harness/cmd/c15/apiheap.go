package main

// Stream api-heap: the heap-based model of Script / Compiled (lean/Tengo/Model/HostHeap.lean, driver line `apiheap`)
// against the REAL API. Histories over scripts that alias globals (`y = x`, `y := x`) and update objects in place
// (`x.k = v`, `x["k"] = v`, `x[i] = v`), with no restriction on how often a Script is compiled: the C15-1 shape (two
// Compile of one Script, update through one Compiled, read through the other), Compile-Run-Compile, Clone-then-update
// and random histories. Every observation (return value of every call) of the real objects is compared with the
// model's: a difference is a Disagree. The driver line `apiheap-spec` returns HostHeap.safeOpsG of the history and the
// observations of the per-handle specification (HostHeap.srunOps): on a safe history they must equal the real ones too
// (theorem api_refines_heap); on an unsafe one they may differ (that difference IS known finding C15-1, which the model
// represents) - counted, never reported.

import (
	"fmt"
	"strconv"
	"strings"

	"github.com/d5/tengo/v2"
	"verifharness/lib"
)

// statements: the `stmt` of api.go with two more kinds
//
//	updf  Dst.Key = V   /  Dst["Key"] = V      (in-place update of a map object)
//	updi  Dst[N] = V                            (in-place update of an array object)
func updf(d, k string, v *TV) stmt     { return stmt{K: "updf", Dst: d, Key: k, V: v} }
func updi(d string, i int, v *TV) stmt { return stmt{K: "updi", Dst: d, N: i, V: v} }

func isIdent(s string) bool {
	if s == "" {
		return false
	}
	for i, c := range s {
		if !(c == '_' || c >= 'a' && c <= 'z' || c >= 'A' && c <= 'Z' || i > 0 && c >= '0' && c <= '9') {
			return false
		}
	}
	return true
}

func heapSrcText(src []stmt) string {
	var sb strings.Builder
	for _, s := range src {
		switch s.K {
		case "updf":
			if isIdent(s.Key) && s.N == 0 {
				sb.WriteString(s.Dst + "." + s.Key + " = " + s.V.src() + "\n")
			} else {
				sb.WriteString(s.Dst + "[" + strconv.Quote(s.Key) + "] = " + s.V.src() + "\n")
			}
		case "updi":
			sb.WriteString(s.Dst + "[" + lib.N(s.N) + "] = " + s.V.src() + "\n")
		default:
			sb.WriteString(srcText([]stmt{s}))
		}
	}
	return sb.String()
}

func heapSrcSexp(src []stmt) string {
	var parts []string
	for _, s := range src {
		switch s.K {
		case "updf":
			parts = append(parts, "(updf "+lib.HexS(s.Dst)+" "+lib.HexS(s.Key)+" "+s.V.sexp()+")")
		case "updi":
			parts = append(parts, "(updi "+lib.HexS(s.Dst)+" "+lib.N(s.N)+" "+s.V.sexp()+")")
		default:
			one := srcSexp([]stmt{s})
			parts = append(parts, one[1:len(one)-1])
		}
	}
	return "(" + strings.Join(parts, " ") + ")"
}

func heapUpdates(src []stmt) bool {
	for _, s := range src {
		if s.K == "updf" || s.K == "updi" {
			return true
		}
	}
	return false
}

func heapOpSexp(o op) string {
	if o.K == "new" {
		return "(new " + heapSrcSexp(o.Src) + ")"
	}
	return o.sexp()
}

func heapOpHuman(o op) string {
	if o.K == "new" {
		return "NewScript(" + fmt.Sprintf("%q", heapSrcText(o.Src)) + ")"
	}
	return o.human()
}

// the real API: NewScript needs the source text of the larger family, everything else is realState.do
func (st *realState) doHeap(o op) string {
	if o.K == "new" {
		st.read = nil
		st.scripts = append(st.scripts, tengo.NewScript([]byte(heapSrcText(o.Src))))
		return "(script " + lib.N(len(st.scripts)-1) + ")"
	}
	return st.do(o)
}

// ---- literals and host values ----

var heapKeys = []string{"k", "j", "z", "k", "two words", ""}

func heapLit(r *lib.RNG, depth int) *TV {
	n := 9
	if depth <= 0 {
		n = 5
	}
	switch r.Intn(n) {
	case 0, 1:
		return ti(int64(r.Intn(9)) - 2)
	case 2:
		return ts(lib.Pick(r, []string{"", "s", "two", "q\"t"}))
	case 3:
		return &TV{K: "b", B: r.Bool()}
	case 4:
		if r.Bool() {
			return &TV{K: "u"}
		}
		return &TV{K: "c", I: int64('a' + r.Intn(3))}
	case 5, 6:
		t := &TV{K: "a"}
		if r.Chance(1, 5) {
			t.K = "ia"
		}
		for i := r.Intn(4); i > 0; i-- {
			t.Kids = append(t.Kids, heapLit(r, depth-1))
		}
		return t
	case 7:
		t := &TV{K: "m"}
		if r.Chance(1, 5) {
			t.K = "im"
		}
		for _, k := range []string{"k", "j", "z"} {
			if r.Bool() {
				t.Keys, t.Kids = append(t.Keys, k), append(t.Kids, heapLit(r, depth-1))
			}
		}
		return t
	}
	return &TV{K: "e", Kids: []*TV{heapLit(r, 0)}}
}

// goOfLit: the literal as a fresh Go value of the interface{} kind (maps / slices of interface{}).
func goOfLit(t *TV) interface{} {
	switch t.K {
	case "a", "ia":
		xs := make([]interface{}, 0, len(t.Kids))
		for _, k := range t.Kids {
			xs = append(xs, goOfLit(k))
		}
		return xs
	case "m", "im":
		m := map[string]interface{}{}
		for i, k := range t.Kids {
			m[t.Keys[i]] = goOfLit(k)
		}
		return m
	case "i":
		return t.I
	case "s":
		return string(t.S)
	case "b":
		return t.B
	case "c":
		return rune(t.I)
	case "u":
		return nil
	}
	return t.obj()
}

// heapValue: containers first (they are what in-place updates and Clone are about).
func heapValue(r *lib.RNG, maxStr, maxBytes int) interface{} {
	switch r.Intn(12) {
	case 0, 1, 2:
		m := map[string]interface{}{}
		for _, k := range []string{"k", "j", "x"} {
			if r.Chance(2, 3) {
				m[k] = goOfLit(heapLit(r, 1))
			}
		}
		return m
	case 3, 4:
		xs := []interface{}{}
		for i := r.Intn(4); i > 0; i-- {
			xs = append(xs, goOfLit(heapLit(r, 1)))
		}
		return xs
	case 5:
		// tengo objects handed over as such (mutable and immutable containers, errors)
		t := heapLit(r, 2)
		return t.obj()
	case 6:
		m := map[string]tengo.Object{}
		for _, k := range []string{"k", "j"} {
			if r.Bool() {
				m[k] = heapLit(r, 1).obj()
			}
		}
		return m
	case 7:
		xs := []tengo.Object{}
		for i := r.Intn(3); i > 0; i-- {
			xs = append(xs, heapLit(r, 1).obj())
		}
		return xs
	case 8:
		return genAPIValue(r, maxStr, maxBytes)
	case 9:
		return int(r.Intn(5))
	}
	return goOfLit(heapLit(r, 2))
}

// ---- scripts ----

// Inputs are a, b, m; scripts define x, y, out.
var heapFamily = [][]stmt{
	{updf("m", "x", ti(2))},
	{updf("m", "k", ti(7)), updf("m", "j", ts("s"))},
	{updi("m", 0, ti(9))},
	{updi("a", 1, &TV{K: "a", Kids: []*TV{ti(1)}})},
	{defv("x", "m"), updf("x", "k", ti(5))},
	{defv("x", "m"), defv("y", "x"), updf("y", "k", ts("via y")), updi("a", 0, ti(3))},
	{def("x", &TV{K: "m", Keys: []string{"k"}, Kids: []*TV{ti(1)}}), defv("y", "x"), updf("y", "k", ti(2)), updf("x", "j", ti(3))},
	{def("x", &TV{K: "a", Kids: []*TV{ti(1), ti(2)}}), defv("y", "x"), updi("x", 1, ts("s")), asg("x", ti(0))},
	{asgv("b", "m"), updf("b", "k", ti(1)), asg("m", &TV{K: "m"})},
	{asgv("a", "m"), asgv("b", "m"), updf("a", "k", ti(1)), updf("b", "j", ti(2)), updf("m", "z", ti(3))},
	{updf("m", "k", ti(1)), failStmt, updf("m", "k", ti(2))},
	{updf("m", "k", ti(1)), updi("m", 0, ti(2)), updf("m", "j", ti(3))},
	{updi("m", 7, ti(1)), def("x", ti(1))},
	{def("x", &TV{K: "ia", Kids: []*TV{ti(1)}}), updi("x", 0, ti(2))},
	{def("x", &TV{K: "im", Keys: []string{"k"}, Kids: []*TV{ti(1)}}), defv("y", "x"), updf("y", "k", ti(2))},
	{updf("zz", "k", ti(1))},
	{hid(1), defv("x", "m"), hid(0), updf("x", "two words", &TV{K: "m", Keys: []string{"k"}, Kids: []*TV{ti(1)}}), def("out", ti(1))},
	{def("x", &TV{K: "u"}), updf("x", "k", ti(1))},
	{updf("a", "k", &TV{K: "u"}), updi("b", 0, &TV{K: "u"})},
	{asgv("m", "m"), updf("m", "k", ti(4)), defv("out", "m"), asg("m", ti(0)), updf("out", "j", ti(5))},
}

func heapScript(r *lib.RNG) []stmt {
	if r.Chance(2, 5) {
		return heapFamily[r.Intn(len(heapFamily))]
	}
	if r.Chance(1, 12) {
		return family[r.Intn(len(family)-6)] // the tree model's scripts without `sel` are heap scripts too
	}
	known := []string{"a", "b", "m"}
	fresh := []string{"x", "y", "out"}
	var src []stmt
	name := func() string {
		if r.Chance(1, 25) {
			return "zz"
		}
		return lib.Pick(r, known)
	}
	prefer := func(n string) string { // inputs named m are mostly maps, inputs named a mostly arrays (heapGen.inputs)
		if r.Bool() {
			return n
		}
		return name()
	}
	for n := 1 + r.Intn(6); n > 0; n-- {
		switch r.Weighted([]int{3, 3, 5, 4, 1, 1}) {
		case 0:
			d := "a"
			if len(fresh) > 0 && !r.Chance(1, 20) {
				d, fresh = fresh[0], fresh[1:]
			}
			if r.Chance(2, 3) {
				src = append(src, defv(d, name()))
			} else {
				src = append(src, def(d, heapLit(r, 2)))
			}
			if d != "a" {
				known = append(known, d)
			}
		case 1:
			if r.Chance(2, 3) {
				src = append(src, asgv(name(), name()))
			} else {
				src = append(src, asg(name(), heapLit(r, 2)))
			}
		case 2:
			s := updf(prefer("m"), lib.Pick(r, heapKeys), heapLit(r, 1))
			if r.Chance(1, 3) {
				s.N = 1 // written as x["k"]
			}
			src = append(src, s)
		case 3:
			src = append(src, updi(prefer("a"), r.Intn(4), heapLit(r, 1)))
		case 4:
			src = append(src, failStmt)
		case 5:
			src = append(src, hid(r.Intn(len(hiddenShapes))))
		}
	}
	return src
}

func heapHasSel(src []stmt) bool {
	for _, s := range src {
		if s.K == "sel" || s.K == "ext" {
			return true
		}
	}
	return false
}

// ---- histories ----

type heapGen struct {
	r                *lib.RNG
	maxStr, maxBytes int
	ops              []op
}

func (g *heapGen) push(o op)        { g.ops = append(g.ops, o) }
func (g *heapGen) val() interface{} { return heapValue(g.r, g.maxStr, g.maxBytes) }
func (g *heapGen) container() interface{} {
	for {
		v := g.val()
		switch v.(type) {
		case map[string]interface{}, []interface{}, map[string]tengo.Object, []tengo.Object:
			return v
		}
	}
}
func (g *heapGen) script() []stmt {
	for {
		s := heapScript(g.r)
		if !heapHasSel(s) {
			return s
		}
	}
}
func (g *heapGen) updScript() []stmt {
	for {
		s := g.script()
		if heapUpdates(s) {
			return s
		}
	}
}
func (g *heapGen) typed(n string) interface{} {
	for i := 0; ; i++ {
		v := g.container()
		_, isMap := v.(map[string]interface{})
		_, isMapO := v.(map[string]tengo.Object)
		isMap = isMap || isMapO
		if n == "b" || i >= 3 || isMap == (n == "m") {
			return v
		}
	}
}
func (g *heapGen) inputs(s int) {
	for _, n := range names3 {
		if g.r.Chance(19, 20) {
			g.push(op{K: "add", H: s, Name: n, G: g.typed(n)})
		}
	}
}
func (g *heapGen) readAll(ncompiled int) {
	for h := 0; h < ncompiled; h++ {
		g.push(op{K: "getall", H: h})
	}
}

// shape 0: C15-1. Two (or three) Compile of one Script whose code updates an input in place; Run one, read the others.
func (g *heapGen) c151() {
	r := g.r
	g.push(op{K: "new", Src: g.updScript()})
	g.inputs(0)
	n := 2 + r.Intn(2)
	for i := 0; i < n; i++ {
		g.push(op{K: "compile", H: 0})
	}
	for i := 1 + r.Intn(3); i > 0; i-- {
		c := r.Intn(n)
		if r.Chance(1, 4) {
			g.push(op{K: "set", H: c, Name: lib.Pick(r, names3), G: g.val()})
		}
		g.push(op{K: "run", H: c, Ctx: r.Bool()})
		o := r.Intn(n)
		g.push(op{K: "get", H: o, Name: lib.Pick(r, readNames)})
		g.push(op{K: "isdef", H: o, Name: lib.Pick(r, readNames)})
	}
	g.readAll(n)
}

// shape 1: Compile, Run (in-place updates), Compile again: the new Compiled starts from the updated objects.
func (g *heapGen) recompile() {
	r := g.r
	g.push(op{K: "new", Src: g.updScript()})
	g.inputs(0)
	g.push(op{K: "compile", H: 0})
	g.push(op{K: "run", H: 0, Ctx: r.Bool()})
	if r.Bool() {
		g.push(op{K: "add", H: 0, Name: lib.Pick(r, names3), G: g.container()})
	}
	g.push(op{K: "compile", H: 0})
	g.push(op{K: "get", H: 1, Name: lib.Pick(r, names3)})
	if r.Bool() {
		g.push(op{K: "run", H: 1})
	}
	g.readAll(2)
}

// shape 2: Clone, then update through the clone / the original; both are read.
func (g *heapGen) cloneUpdate() {
	r := g.r
	g.push(op{K: "new", Src: g.updScript()})
	g.inputs(0)
	g.push(op{K: "compile", H: 0})
	n := 1
	if r.Bool() {
		g.push(op{K: "run", H: 0})
	}
	for i := 1 + r.Intn(3); i > 0; i-- {
		g.push(op{K: "clone", H: r.Intn(n)})
		n++
		if r.Chance(1, 3) {
			g.push(op{K: "set", H: r.Intn(n), Name: lib.Pick(r, readNames), G: g.val()})
		}
		g.push(op{K: "run", H: r.Intn(n), Ctx: r.Bool()})
		g.push(op{K: "get", H: r.Intn(n), Name: lib.Pick(r, readNames)})
	}
	if r.Chance(1, 3) {
		g.push(op{K: "compile", H: 0}) // a sibling of the original after all that
		n++
	}
	g.readAll(n)
}

// shape 3: random calls, any number of Compile per Script.
func (g *heapGen) random() {
	r := g.r
	n := 4 + r.Intn(27)
	nscripts, ncompiled := 0, 0
	// which Compile succeed is decided by the tree model's Go specification on the names (sel stands for an update)
	shadow := &refState{maxStr: 1 << 30, maxBytes: 1 << 30}
	shadowOf := func(o op) op {
		if o.K != "new" {
			return o
		}
		var src []stmt
		for _, s := range o.Src {
			if s.K == "updf" || s.K == "updi" {
				s = sel(s.Dst, "k", s.V)
			}
			src = append(src, s)
		}
		return op{K: "new", Src: src}
	}
	push := func(o op) {
		out := shadow.do(shadowOf(o))
		if o.K == "compile" && strings.HasPrefix(out, "(compiled") || o.K == "clone" {
			ncompiled++
		}
		g.push(o)
	}
	weights := []int{5, 1, 5, 3, 7, 5, 2, 2, 3}
	for len(g.ops) < n {
		if nscripts == 0 || (nscripts < 3 && r.Chance(1, 10)) {
			src := g.script()
			push(op{K: "new", Src: src})
			nscripts++
			if r.Chance(9, 10) {
				for _, nm := range names3 {
					if r.Chance(9, 10) {
						v := g.val()
						if r.Chance(2, 3) {
							v = g.typed(nm)
						}
						push(op{K: "add", H: nscripts - 1, Name: nm, G: v})
					}
				}
			}
			continue
		}
		k := r.Weighted(weights)
		if ncompiled == 0 && k >= 3 {
			k = r.Weighted([]int{3, 1, 4})
		}
		switch k {
		case 0:
			push(op{K: "add", H: r.Intn(nscripts), Name: lib.Pick(r, names3), G: g.val()})
		case 1:
			push(op{K: "remove", H: r.Intn(nscripts), Name: lib.Pick(r, names3)})
		case 2:
			push(op{K: "compile", H: r.Intn(nscripts)})
		case 3:
			push(op{K: "set", H: r.Intn(ncompiled), Name: lib.Pick(r, readNames), G: g.val()})
		case 4:
			push(op{K: "run", H: r.Intn(ncompiled), Ctx: r.Bool()})
		case 5:
			push(op{K: "get", H: r.Intn(ncompiled), Name: lib.Pick(r, readNames)})
		case 6:
			push(op{K: "getall", H: r.Intn(ncompiled)})
		case 7:
			push(op{K: "isdef", H: r.Intn(ncompiled), Name: lib.Pick(r, readNames)})
		case 8:
			push(op{K: "clone", H: r.Intn(ncompiled)})
		}
	}
	g.readAll(ncompiled)
}

// ---- one history: the real API, then the two driver lines ----

type heapVerdict struct {
	modelAgrees bool // every observation of the heap machine equals the real one
	safe        bool // HostHeap.safeOpsG
	specAgrees  bool // every observation of the per-handle specification equals the real one
}

func runHeapHistory(ops []op, maxStr, maxBytes int, in apiInput, shape string) (v heapVerdict) {
	if drv == nil {
		return
	}
	savedS, savedB := tengo.MaxStringLen, tengo.MaxBytesLen
	tengo.MaxStringLen, tengo.MaxBytesLen = maxStr, maxBytes
	defer func() { tengo.MaxStringLen, tengo.MaxBytesLen = savedS, savedB }()
	for i := range ops {
		if ops[i].K == "add" || ops[i].K == "set" {
			ops[i].GS = canonG(ops[i].G) // printed before the real code can touch the value
		}
	}
	in.Stream, in.MaxStr, in.MaxBytes = "api-heap", maxStr, maxBytes
	var parts []string
	for _, o := range ops {
		in.History = append(in.History, heapOpHuman(o))
		parts = append(parts, heapOpSexp(o))
	}
	rs := &realState{}
	reals := make([]string, len(ops))
	nontrivial := false
	updating := map[int]bool{} // Compiled handles whose code updates in place
	var codeOf []bool          // per script: updates?
	var compiledCode []bool
	var scriptSrc, compiledSrc [][]stmt
	outside := ""
	for i, o := range ops {
		// (an index update of a map, `m[0] = v`, was outside the model until updCell got its `Map.IndexSet` clause;
		// indexUpdateOfMap is kept for the distribution only)
		if o.K == "run" && o.H < len(rs.compiled) && o.H < len(compiledSrc) {
			if k := indexUpdateOfMap(rs.compiled[o.H], compiledSrc[o.H]); k != "" {
				res.Dist("heap-shape-extra:" + k)
			}
		}
		reals[i] = rs.doHeap(o)
		switch {
		case o.K == "new":
			codeOf = append(codeOf, heapUpdates(o.Src))
			scriptSrc = append(scriptSrc, o.Src)
		case o.K == "compile" && strings.HasPrefix(reals[i], "(compiled"):
			compiledCode = append(compiledCode, codeOf[o.H])
			compiledSrc = append(compiledSrc, scriptSrc[o.H])
		case o.K == "clone" && strings.HasPrefix(reals[i], "(compiled"):
			compiledCode = append(compiledCode, compiledCode[o.H])
			compiledSrc = append(compiledSrc, compiledSrc[o.H])
		case o.K == "run" && o.H < len(compiledCode) && compiledCode[o.H]:
			updating[o.H] = true
			nontrivial = true
		}
	}
	if outside != "" {
		// outside HostHeap's fragment (see indexUpdateOfMap): not compared
		res.Skipped++
		res.Dist("heap-skipped:" + outside)
		return
	}
	res.Count("api-heap", strings.Join(in.History, ";"), nontrivial)
	res.Dist("heap-shape:" + shape)
	for i := range ops {
		res.Dist("heap-op:" + ops[i].K)
		if strings.HasPrefix(reals[i], "(err ") {
			res.Dist("heap-out:" + strings.SplitN(strings.TrimPrefix(reals[i], "(err "), " ", 2)[0])
		}
	}
	body := lib.N(maxStr) + " " + lib.N(maxBytes) + " " + strings.Join(parts, " ")
	ans, err := drv.Batch([]string{"(apiheap " + body + ")", "(apiheap-spec " + body + ")"})
	if err != nil {
		fatal(err)
	}
	res.ModelLines += 2
	want := "ok " + strings.Join(reals, " ")
	v.modelAgrees = ans[0] == want
	if !v.modelAgrees {
		in.Step = firstDifferingCall(ans[0], reals)
		res.Disagree(lib.Disagreement{Stream: "api-heap", Input: in, Model: clip(firstDiff(ans[0], want), 400), Impl: clip(firstDiff(want, ans[0]), 400)})
	}
	switch {
	case strings.HasPrefix(ans[1], "ok (safe 1) "):
		v.safe = true
		v.specAgrees = strings.TrimPrefix(ans[1], "ok (safe 1) ") == strings.Join(reals, " ")
		res.Dist("heap-safe:1")
		if !v.specAgrees {
			// theorem api_refines_heap: on a safe history the specification returns what the machine returns
			sw := "ok (safe 1) " + strings.Join(reals, " ")
			res.Disagree(lib.Disagreement{Stream: "api-heap-spec", Input: in, Model: clip(firstDiff(ans[1], sw), 400), Impl: clip(firstDiff(sw, ans[1]), 400)})
		}
	case strings.HasPrefix(ans[1], "ok (safe 0) "):
		v.specAgrees = strings.TrimPrefix(ans[1], "ok (safe 0) ") == strings.Join(reals, " ")
		if v.specAgrees {
			res.Dist("heap-safe:0-sharing-not-observed")
		} else {
			res.Dist("heap-safe:0-sharing-observed(C15-1)")
		}
	default:
		res.Disagree(lib.Disagreement{Stream: "api-heap-spec", Input: in, Model: clip(ans[1], 400), Impl: "ok (safe …) …"})
	}
	return
}

// indexUpdateOfMap: would this Run execute `x[i] = v` while x holds a map? Map.IndexSet converts the index to the key
// "i" (objects.go: ToString(index)) and succeeds; HostHeap.updCell knows string keys on maps only (Key.index on a map is
// a run-time error there). Such histories are outside the model's fragment: they are counted as skipped, not compared.
// Decided on the kinds of the real globals just before the Run, followed through the straight-line code (a literal has
// its own kind, `y = x` the kind of x, an in-place update keeps the kind of its target); after a statement that fails
// the rest is not executed by the real code, so looking at it can only skip more.
func indexUpdateOfMap(c *tengo.Compiled, src []stmt) string {
	kind := map[string]string{}
	for _, v := range c.GetAll() {
		kind[v.Name()] = tvOf(v.Object()).K
	}
	for _, s := range src {
		switch s.K {
		case "def", "asg":
			if s.Var != "" {
				kind[s.Dst] = kind[s.Var]
			} else if s.V != nil {
				kind[s.Dst] = s.V.K
			}
		case "updi":
			if kind[s.Dst] == "m" {
				return "index-update-of-a-map"
			}
		case "fail":
			return ""
		}
	}
	return ""
}

func firstDifferingCall(ans string, reals []string) int {
	rest := strings.TrimPrefix(ans, "ok ")
	for i, r := range reals {
		if !strings.HasPrefix(rest, r) {
			return i
		}
		rest = strings.TrimPrefix(strings.TrimPrefix(rest, r), " ")
	}
	return len(reals)
}

func apiHeapCase(seed uint64) {
	r := lib.NewRNG(seed)
	g := &heapGen{r: r, maxStr: 1<<31 - 1, maxBytes: 1<<31 - 1}
	if r.Chance(1, 8) {
		g.maxStr, g.maxBytes = 10+r.Intn(8), 10+r.Intn(8) // >= the longest string literal of the scripts (the compiler checks them)
	}
	shape := ""
	switch r.Weighted([]int{3, 2, 3, 8}) {
	case 0:
		shape = "c15-1"
		g.c151()
	case 1:
		shape = "compile-run-compile"
		g.recompile()
	case 2:
		shape = "clone-update"
		g.cloneUpdate()
	case 3:
		shape = "random"
		g.random()
	}
	runHeapHistory(g.ops, g.maxStr, g.maxBytes, apiInput{CaseSeed: seed}, shape)
}

// heapCorpus: fixed histories, run on every seed. The first is the history of known finding C15-1 (probeSharedInputs):
// the heap machine must return what the real API returns, the side condition must be false and the specification
// must differ - otherwise the model no longer represents the finding (a Disagree: the model follows the code).
func heapCorpus() {
	m1 := func() interface{} { return map[string]interface{}{"x": 1} }
	arr := func() interface{} { return []interface{}{1, 2} }
	big := 1<<31 - 1
	c151 := []op{{K: "new", Src: heapFamily[0]}, {K: "add", H: 0, Name: "m", G: m1()}, {K: "compile", H: 0}, {K: "compile", H: 0},
		{K: "run", H: 0}, {K: "get", H: 1, Name: "m"}, {K: "getall", H: 0}, {K: "getall", H: 1}}
	v := runHeapHistory(c151, big, big, apiInput{Exh: "heap-corpus C15-1"}, "corpus")
	if drv != nil && v.modelAgrees && (v.safe || v.specAgrees) {
		res.Disagree(lib.Disagreement{Stream: "api-heap-c15-1", Input: apiInput{Stream: "api-heap", Exh: "heap-corpus C15-1"},
			Model: fmt.Sprintf("safeOpsG=%v, specification equals the machine: %v", v.safe, v.specAgrees),
			Impl:  "the real API shows the update made through c0 when read through c1 (known finding C15-1): the history must be outside safeOpsG and the specification must differ"})
	}
	fixed := [][]op{
		// the same through an array and an index update
		{{K: "new", Src: heapFamily[2]}, {K: "add", H: 0, Name: "m", G: arr()}, {K: "compile", H: 0}, {K: "compile", H: 0},
			{K: "run", H: 1}, {K: "get", H: 0, Name: "m"}, {K: "getall", H: 1}},
		// Compile-Run-Compile
		{{K: "new", Src: heapFamily[0]}, {K: "add", H: 0, Name: "m", G: m1()}, {K: "compile", H: 0}, {K: "run", H: 0},
			{K: "compile", H: 0}, {K: "get", H: 1, Name: "m"}},
		// Clone isolates: update through the clone, read the original, and the other way round
		{{K: "new", Src: heapFamily[0]}, {K: "add", H: 0, Name: "m", G: m1()}, {K: "compile", H: 0}, {K: "clone", H: 0},
			{K: "run", H: 1}, {K: "get", H: 0, Name: "m"}, {K: "get", H: 1, Name: "m"}, {K: "run", H: 0}, {K: "clone", H: 0},
			{K: "getall", H: 0}, {K: "getall", H: 1}, {K: "getall", H: 2}},
		// aliases inside one handle: y = x, update through y, read x; Clone separates the aliases
		{{K: "new", Src: heapFamily[5]}, {K: "add", H: 0, Name: "m", G: m1()}, {K: "add", H: 0, Name: "a", G: arr()}, {K: "compile", H: 0},
			{K: "run", H: 0}, {K: "getall", H: 0}, {K: "clone", H: 0}, {K: "set", H: 1, Name: "x", G: m1()}, {K: "run", H: 1}, {K: "getall", H: 1}, {K: "getall", H: 0}},
		// Set replaces the object of one Compiled only; the sibling keeps the Add-time object
		{{K: "new", Src: heapFamily[0]}, {K: "add", H: 0, Name: "m", G: m1()}, {K: "compile", H: 0}, {K: "compile", H: 0},
			{K: "set", H: 0, Name: "m", G: m1()}, {K: "run", H: 0}, {K: "get", H: 1, Name: "m"}, {K: "run", H: 1}, {K: "get", H: 0, Name: "m"}, {K: "get", H: 1, Name: "m"}},
		// run-time errors of an update: immutable target, index out of range, wrong key type, undefined target; effects so far stay
		{{K: "new", Src: heapFamily[11]}, {K: "add", H: 0, Name: "m", G: arr()}, {K: "compile", H: 0}, {K: "run", H: 0}, {K: "getall", H: 0}},
		{{K: "new", Src: heapFamily[12]}, {K: "add", H: 0, Name: "m", G: arr()}, {K: "compile", H: 0}, {K: "run", H: 0}, {K: "getall", H: 0}},
		{{K: "new", Src: heapFamily[13]}, {K: "compile", H: 0}, {K: "run", H: 0}, {K: "getall", H: 0}},
		{{K: "new", Src: heapFamily[14]}, {K: "compile", H: 0}, {K: "run", H: 0}, {K: "getall", H: 0}, {K: "clone", H: 0}, {K: "set", H: 1, Name: "x", G: m1()}, {K: "getall", H: 1}},
		{{K: "new", Src: heapFamily[17]}, {K: "compile", H: 0}, {K: "run", H: 0}, {K: "getall", H: 0}},
		{{K: "new", Src: heapFamily[15]}, {K: "add", H: 0, Name: "m", G: m1()}, {K: "compile", H: 0}},
		// an immutable container handed over by the host; its clone is mutable
		{{K: "new", Src: heapFamily[0]}, {K: "add", H: 0, Name: "m", G: (&TV{K: "im", Keys: []string{"x"}, Kids: []*TV{ti(1)}}).obj()}, {K: "compile", H: 0},
			{K: "run", H: 0}, {K: "clone", H: 0}, {K: "run", H: 1}, {K: "getall", H: 0}, {K: "getall", H: 1}},
	}
	for i, ops := range fixed {
		runHeapHistory(ops, big, big, apiInput{Exh: fmt.Sprintf("heap-corpus %d", i)}, "corpus")
	}
}

// apiHeapStream: the fixed histories, then n random ones.
func apiHeapStream(rng *lib.RNG, n int) {
	heapCorpus()
	for i := 0; i < n; i++ {
		apiHeapCase(rng.U64())
	}
}

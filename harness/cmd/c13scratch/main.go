package main

import (
	"fmt"

	"github.com/d5/tengo/v2"
	"verifharness/lib"
)

func main() {
	mm := tengo.NewModuleMap()
	mm.AddSourceModule("x", []byte("export {v: 1, a: [1, 2]}\n"))
	c, err := lib.CompileSource([]byte("m := import(\"x\")\n"), lib.CompileOpts{Modules: mm})
	fmt.Println(err)
	for _, l := range c.BC.FormatInstructions() {
		fmt.Println(l)
	}
	for _, l := range c.BC.FormatConstants() {
		fmt.Println(l)
	}
}

package lib

import (
	"encoding/hex"
	"fmt"
	"regexp"
	"strings"

	"github.com/d5/tengo/v2"
	"github.com/d5/tengo/v2/parser"
)

// Correspondence of the whole-compiler model (Tengo.Model.Compiler, driver line `compile`) with the real
// compiler: main function bytes, every constant (value constants in canonical form; function constants
// with bytes, NumLocals, NumParameters, VarArgs), the root table's MaxSymbols, and the compile error text.

// CompRealAnswer compiles src with the real parser and compiler (no RemoveDuplicates) and renders the
// result in the answer format of the `compile` driver line. ok=false: src does not parse.
func CompRealAnswer(src string, inputs []string) (ans string, ok bool) {
	if _, _, perr := ParseSource("(main)", []byte(src)); perr != nil {
		return "", false
	}
	c, err := CompileSource([]byte(src), CompileOpts{Inputs: inputs})
	if err != nil {
		msg := err.Error()
		if strings.HasPrefix(msg, "PANIC: ") {
			return "panic " + HexS(strings.TrimPrefix(msg, "PANIC: ")), true
		}
		if !strings.HasPrefix(msg, "Compile Error: ") {
			return "error " + HexS(msg), true
		}
		msg = strings.TrimPrefix(msg, "Compile Error: ")
		if i := strings.Index(msg, "\n"); i >= 0 {
			msg = msg[:i]
		}
		return "cerr " + HexS(msg), true
	}
	consts := make([]string, len(c.BC.Constants))
	for i, k := range c.BC.Constants {
		if f, isFn := k.(*tengo.CompiledFunction); isFn {
			consts[i] = vmFnSexp(f)
		} else {
			consts[i] = L("v", Canon(k))
		}
	}
	return "ok " + Hex(c.BC.MainFunction.Instructions) + " (" + strings.Join(consts, " ") + ") " + N(c.Symbols.MaxSymbols()), true
}

// CompModelLine builds the `compile` driver line for src. ok=false: src does not parse.
func CompModelLine(src string, inputs []string) (line string, ok bool) {
	f, _, perr := ParseSource("(main)", []byte(src))
	if perr != nil {
		return "", false
	}
	names := make([]string, len(inputs))
	for i, n := range inputs {
		names[i] = HexS(n)
	}
	return L("compile", "("+strings.Join(names, " ")+")", ASTDumper{}.File(f)), true
}

// CompModelCompare compiles src with the real compiler and with the Lean compiler model and compares the
// two answers exactly. status: "agree", "differ", or "skip:<why>".
func CompModelCompare(d *Driver, src string, inputs []string) (status, model, impl string, err error) {
	line, ok := CompModelLine(src, inputs)
	if !ok {
		return "skip:parse-error", "", "", nil
	}
	impl, _ = CompRealAnswer(src, inputs)
	model, err = d.Ask(line)
	if err != nil {
		return "", "", "", err
	}
	mf := strings.Fields(model + " -")
	switch mf[0] {
	case "unsupported", "model-timeout":
		why := mf[0]
		if mf[0] == "unsupported" {
			why = mf[1]
		}
		if len(why) > 48 {
			why = why[:48]
		}
		return "skip:" + why, model, impl, nil
	case "panic":
		// the text of a Go panic is not modelled
		if strings.HasPrefix(impl, "panic ") {
			return "agree", model, impl, nil
		}
		return "differ", model, impl, nil
	}
	if model == impl {
		return "agree", model, impl, nil
	}
	return "differ", model, impl, nil
}

// CompDiff names the first place where two `compile` answers differ: the function (main or constant
// index) and the byte offset of the first differing instruction, with both instructions decoded.
func CompDiff(model, impl string) string {
	mc, merr := ParseSexp("(" + model + ")")
	ic, ierr := ParseSexp("(" + impl + ")")
	ml, _ := mc.([]interface{})
	il, _ := ic.([]interface{})
	if merr != nil || ierr != nil || len(ml) == 0 || len(il) == 0 {
		return "unparsable answers"
	}
	ms, _ := ml[0].(string)
	is, _ := il[0].(string)
	if ms != is || ms != "ok" {
		txt := func(l []interface{}) string {
			if len(l) > 1 {
				if s, ok := l[1].(string); ok && strings.HasPrefix(s, "#") {
					if b, err := hex.DecodeString(s[1:]); err == nil {
						return fmt.Sprintf("%s %q", l[0], string(b))
					}
				}
			}
			return fmt.Sprint(l[0])
		}
		return "outcome: model " + txt(ml) + " / impl " + txt(il)
	}
	if len(ml) < 4 || len(il) < 4 {
		return "short answers"
	}
	if d := compBytesDiff(ml[1], il[1]); d != "" {
		return "main " + d
	}
	mk, _ := ml[2].([]interface{})
	ik, _ := il[2].([]interface{})
	for i := 0; i < len(mk) && i < len(ik); i++ {
		a, _ := mk[i].([]interface{})
		b, _ := ik[i].([]interface{})
		if len(a) == 0 || len(b) == 0 || fmt.Sprint(a[0]) != fmt.Sprint(b[0]) {
			return fmt.Sprintf("const %d: kind model %v / impl %v", i, mk[i], ik[i])
		}
		if fmt.Sprint(a[0]) == "fn" && len(a) == 5 && len(b) == 5 {
			if d := compBytesDiff(a[1], b[1]); d != "" {
				return fmt.Sprintf("const %d (fn) %s", i, d)
			}
			if fmt.Sprint(a[2:]) != fmt.Sprint(b[2:]) {
				return fmt.Sprintf("const %d (fn) numLocals/numParams/varargs: model %v / impl %v", i, a[2:], b[2:])
			}
		} else if fmt.Sprint(a) != fmt.Sprint(b) {
			return fmt.Sprintf("const %d: model %v / impl %v", i, a, b)
		}
	}
	if len(mk) != len(ik) {
		return fmt.Sprintf("constant count: model %d / impl %d", len(mk), len(ik))
	}
	if fmt.Sprint(ml[3]) != fmt.Sprint(il[3]) {
		return fmt.Sprintf("max globals: model %v / impl %v", ml[3], il[3])
	}
	return "no difference found"
}

func compBytesDiff(a, b interface{}) string {
	as, _ := a.(string)
	bs, _ := b.(string)
	if as == bs {
		return ""
	}
	ab, _ := hex.DecodeString(strings.TrimPrefix(as, "#"))
	bb, _ := hex.DecodeString(strings.TrimPrefix(bs, "#"))
	ai, _ := Decode(ab)
	bi, _ := Decode(bb)
	show := func(in DInstr) string {
		return fmt.Sprintf("%04d %s %v", in.Pos, compOpName(in.Op), in.Args)
	}
	for i := 0; i < len(ai) && i < len(bi); i++ {
		if ai[i].Pos != bi[i].Pos || ai[i].Op != bi[i].Op || fmt.Sprint(ai[i].Args) != fmt.Sprint(bi[i].Args) {
			return fmt.Sprintf("@%d: model [%s] / impl [%s]", bi[i].Pos, show(ai[i]), show(bi[i]))
		}
	}
	return fmt.Sprintf("length: model %d bytes (%d instrs) / impl %d bytes (%d instrs)", len(ab), len(ai), len(bb), len(bi))
}

func compOpName(op byte) string {
	if int(op) < len(parser.OpcodeNames) && parser.OpcodeNames[op] != "" {
		return parser.OpcodeNames[op]
	}
	return N(int(op))
}

// CompStream is the `comp` correspondence stream: every program is compiled by the real compiler and by the
// Lean compiler model and the complete bytecode is compared.
func CompStream(res *Result, d *Driver, src string, inputs []string, input interface{}) error {
	if d == nil {
		return nil
	}
	st, model, impl, err := CompModelCompare(d, src, inputs)
	if err != nil {
		return err
	}
	res.ModelLines++
	res.Dist("comp:" + st)
	switch st {
	case "agree":
		f := strings.Fields(impl + " -")
		res.Dist("comp-outcome:" + f[0])
		if f[0] == "cerr" {
			// which error paths were compared (names and numbers abstracted)
			if b, err := hex.DecodeString(strings.TrimPrefix(f[1], "#")); err == nil {
				res.Dist("comp-cerr:" + compErrClass.ReplaceAllString(string(b), "_"))
			}
		}
		res.Count("comp", strings.Join(inputs, ",")+"|"+src, len(impl) > 200)
		if f[0] == "ok" {
			// the real compiler's output IS the model's here: is the program one the universal theorem
			// compile_verifies / compiled_never_faults speaks about (its three size hypotheses, evaluated)?
			if line, ok := CompModelLine(src, inputs); ok {
				ans, err := d.Ask(strings.Replace(line, "(compile ", "(compilebounds ", 1))
				if err != nil {
					return err
				}
				switch ans {
				case "bounds 1":
					res.Dist("comp-covered-by-compile_verifies")
				case "bounds 0":
					// legal: a program beyond 65536 constants / globals (the theorem does not speak about it)
					res.Dist("comp-outside-compile_verifies-size-hypotheses")
				default:
					res.Disagree(Disagreement{Stream: "comp-bounds", Input: input, Model: ans, Impl: "the model compiled the program a moment ago"})
				}
			}
		}
	case "differ":
		clip := func(s string) string {
			if len(s) > 1200 {
				return s[:1200] + "…"
			}
			return s
		}
		res.Disagree(Disagreement{Stream: "comp", Input: input, Model: CompDiff(model, impl) + " | " + clip(model), Impl: clip(impl)})
	}
	return nil
}

// CompCase is a program of the `comp` stream with the names of its pre-declared globals.
type CompCase struct {
	Src    string
	Inputs []string
}

// CompBoundaryPrograms: hand-made programs at the compiler's error paths and limits (first error reported,
// one-byte operand limits, scoping corner cases, dead code, loops in closures).
func CompBoundaryPrograms() []CompCase {
	seq := func(n int, f func(i int) string, sep string) string {
		parts := make([]string, n)
		for i := range parts {
			parts[i] = f(i)
		}
		return strings.Join(parts, sep)
	}
	num := func(i int) string { return N(i) }
	out := []CompCase{
		{Src: "a := 1\na := 2\n"},
		{Src: "a = 1\n"},
		{Src: "a += 1\n"},
		{Src: "a++\n"},
		{Src: "x := a\n"},
		{Src: "break\n"},
		{Src: "continue\n"},
		{Src: "return\n"},
		{Src: "return 1\n"},
		{Src: "if true { return 1 }\n"},
		{Src: "for { if true { break }; continue }\n"},
		{Src: "f := func() { break }\n"},
		{Src: "for { f := func() { continue } }\n"},
		{Src: "for { f := func() { for { break } }; break }\n"},
		{Src: "a, b := 1, 2\n"},
		{Src: "a, b = 1, 2\n"},
		{Src: "a := 1, 2\n"},
		{Src: "a := {}\na.b := 1\n"},
		{Src: "a := []\na[0] := 1\n"},
		{Src: "len = 1\n"},
		{Src: "len += 1\n"},
		{Src: "len++\n"},
		{Src: "len.x = 1\n"},
		{Src: "len := 1\nlen = 2\nlen := 3\n"},
		{Src: "f := func() { len := 1; len = 2; return len }\n"},
		{Src: "f := func() { len = 2 }\n"},
		{Src: "(a) := 1\n"},
		{Src: "(a) := 1\n(b) := 2\n"},
		{Src: "a := 1\n(a) = 2\n"},
		{Src: "a := {}\n(a).b = 2\n"},
		{Src: "a := {}\na.b.c[1].d = 2\na.b.c[1].d += 2\na.b++\n"},
		{Src: "f := func() { a := {}; a.b.c[1].d = 2; a.b.c[1].d += 2; a.b++; return func() { a.x = 1; a.y.z -= 1; a = 2; a++ } }\n"},
		{Src: "f := func() { return 1 }\nf().x = 1\n"},
		{Src: "f := func(a, a) { return a }\n"},
		{Src: "f := func(a) { a := 1; return a }\n"},
		{Src: "f := func(a) { if true { a := 1; a = 2 }; a := 3; return a }\n"},
		{Src: "f := func(a, ...b) { return b }\ng := func(...b) { return b }\nx := f(1, [2]...)\n"},
		{Src: "for a, a in [1] { b := a }\n"},
		{Src: "for _, _ in [1] { }\n"},
		{Src: "for _ in [1] { }\n"},
		{Src: "for k in {a: 1} { k = 2 }\n"},
		{Src: "for k, v in {a: 1} { for k, v in [k, v] { x := k + v } }\nfor k, v in [] {}\n"},
		{Src: "f := func(x) { for k, v in x { for k2, v2 in v { if k2 { continue }; return func() { return k + v2 } } }; for i := 0; i < 3; i++ { if i { break } } }\n"},
		{Src: "f := func() { g := func(n) { return n == 0 ? 0 : g(n-1) }; return g }\n"},
		{Src: "f := func() { g := func(n) { h := func() { return g(n) }; return h }; return g }\n"},
		{Src: "f := func() { a := 1; return func() { b := a; a := 2 } }\n"},
		{Src: "f := func() { a := 1; return func() { b := a; if true { a := 2; b = a }; return func() { return a + b } } }\n"},
		{Src: "f := func() { a := 1; b := 2; return func() { return func() { return func() { a += b; return a } } } }\n"},
		{Src: "f := func() { a := 1; g := func() { a = 2 }; h := func() { return a }; a := 3 }\n"},
		{Src: "f := func() { if a := 1; a { b := func() { return a } } else if c := 2; c { return c + a } else { return a }; d := 4; e := 5 }\n"},
		{Src: "f := func() { x := 0; { y := 1; { z := 2; x = y + z } }; { w := 3; x = w }; return x }\n{ a := 1; { b := 2 } }\n{ c := 3 }\nd := 4\n"},
		{Src: "f := func() { return 1; x := 2; return x }\ng := func() { if true { return 1 } else { return 2 }; y := 3 }\nh := func() { for { return 1 }; return 2 }\nk := func() { for true { if false { break }; return }; }\n"},
		{Src: "f := func() { return; return; return 1 }\ng := func() {}\nh := func() { 1 }\nk := func() { return true ? 1 : 2 }\n"},
		{Src: "f := func() { x := true && false || true; y := x ? 1 : x ? 2 : 3; return x && y }\n"},
		{Src: "export 5\n"},
		{Src: "f := func() { export 5 }\n"},
		{Src: "x := import(\"math\")\n"},
		{Src: "x := [1, 2, 3][1:]\ny := x[:1]\nz := x[:]\nw := x[0:1]\ns := \"abc\"[1]\ne := error(\"x\")\ni := immutable([1])\nv := e.value\n"},
		{Src: "x := 1.5\ny := 'a'\nz := \"s\\x00\\xff\\u00e9\"\nw := `raw`\nu := undefined\nt := true\nf := false\nn := -9223372036854775808\nm := 9223372036854775807\nq := +1\nr := !t\np := ^n\n"},
		{Src: "x := in1 + len\n", Inputs: []string{"in1", "len"}},
		{Src: "x := in1\nin1 := 2\n", Inputs: []string{"in1"}},
		{Src: "x := in1\ny := 3\n", Inputs: []string{"in1", "in1", "in2"}},
		{Src: "f := func() { return in1 + in2 }\nin2 = 3\nin3.a.b = 4\n", Inputs: []string{"in1", "in2", "in3"}},
		{Src: ""},
		{Src: ";;\n"},
		{Src: "a := func() { return a }\nb := func() { return func() { return b } }\n"},
		{Src: "f := func(...a) { return func(b, ...c) { return a + c + b } }\n"},
		{Src: "x := 1\nx = func() { return x }\ny := (func() { return y })\n"},
		{Src: "y := (func() { return 1 })\nz := func() { w := (func() { return w }) }\n"},
		{Src: "é := 1\né := 2\n"},
		{Src: "x := ñandú\n"},
		{Src: "日本 := 1\nf := func() { return 日本 }\n", Inputs: []string{"wörld"}},
		{Src: "for { break foo }\nfor { continue bar }\n"},
		{Src: "a := 1\nif a := 2; a { b := a } else if c := a; c { d := c } else { e := c }\n"},
		{Src: "f := func() { a := 1; if a := 2; a { b := a } else if c := a; c { d := c } else { e := c }; g := 5 }\n"},
	}
	// one-byte operand limits
	out = append(out,
		CompCase{Src: "f := func(...a) {}\nf(" + seq(255, num, ", ") + ")\n"},
		CompCase{Src: "f := func(...a) {}\nf(" + seq(256, num, ", ") + ")\n"},
		CompCase{Src: "f := func(...a) {}\nf(zz, " + seq(256, num, ", ") + ")\n"},
		// selector counts around the one-byte operand of OpSetSel* (O35), on a global, a local and a captured variable
		CompCase{Src: "a := {}\nif false { a" + seq(255, func(int) string { return "[0]" }, "") + " = 1 }\n"},
		CompCase{Src: "a := {}\nif false { a" + seq(256, func(int) string { return "[0]" }, "") + " = 1 }\n"},
		CompCase{Src: "f := func() { a := {}; if false { a" + seq(256, func(int) string { return ".k" }, "") + " = 1 } }\n"},
		CompCase{Src: "f := func() { a := {}; return func() { if false { a" + seq(257, func(int) string { return ".k" }, "") + " += zz } } }\n"},
		CompCase{Src: "f := func() {\n" + seq(256, func(i int) string { return "v" + N(i) + " := " + N(i) }, "\n") + "\n}\n"},
		CompCase{Src: "f := func() {\n" + seq(257, func(i int) string { return "v" + N(i) + " := " + N(i) }, "\n") + "\n}\n"},
		CompCase{Src: "f := func(p) {\n" + seq(128, func(i int) string { return "{ v" + N(i) + " := " + N(i) + "; { w := 1 } }" }, "\n") + "\n" + seq(254, func(i int) string { return "u" + N(i) + " := p" }, "\n") + "\n}\n"},
		CompCase{Src: "f := func(p) {\n" + seq(253, func(i int) string { return "u" + N(i) + " := p" }, "\n") + "\n{ a := 1; { b := 2; { c := 3 } } }\n}\n"},
		CompCase{Src: "f := func() {\n" + seq(255, func(i int) string { return "v" + N(i) + " := " + N(i) }, "\n") + "\nreturn func() { return " + seq(255, func(i int) string { return "v" + N(i) }, " + ") + " }\n}\n"},
		CompCase{Src: "f := func() {\n" + seq(256, func(i int) string { return "v" + N(i) + " := " + N(i) }, "\n") + "\nreturn func() { return " + seq(256, func(i int) string { return "v" + N(i) }, " + ") + " }\n}\n"},
		CompCase{Src: "f := func() {\n" + seq(257, func(i int) string { return "v" + N(i) + " := " + N(i) }, "\n") + "\nreturn func() { return " + seq(257, func(i int) string { return "v" + N(i) }, " + ") + " }\n}\n"},
		CompCase{Src: seq(300, func(i int) string { return "g" + N(i) + " := " + N(i) }, "\n") + "\nf := func() { return g299 + g0 }\n{ h := 1 }\n{ k := 2; { l := 3 } }\n"},
		CompCase{Src: "x := [" + seq(300, num, ", ") + "]\ny := {" + seq(300, func(i int) string { return "k" + N(i) + ": " + N(i) }, ", ") + "}\n"},
	)
	return out
}

var compErrClass = regexp.MustCompile(`'[^']*'|[0-9]+`)

var compIdentRe = regexp.MustCompile(`\b[a-z_][a-z0-9_]*\b`)

var compKeywords = map[string]bool{"break": true, "continue": true, "else": true, "for": true, "func": true, "error": true,
	"immutable": true, "if": true, "return": true, "export": true, "true": true, "false": true, "in": true,
	"undefined": true, "import": true}

// CompMutate derives a program from src by one small textual change that tends to reach a compile error path
// or another scoping situation: `:=` ↔ `=`, an inserted/duplicated/deleted line, a renamed identifier, a range
// of top-level statements wrapped into a function literal. The result may fail to parse (then it is skipped).
func CompMutate(r *RNG, src string) string {
	lines := strings.Split(strings.TrimRight(src, "\n"), "\n")
	occ := func(s, sub string) []int {
		var at []int
		for i := 0; ; {
			j := strings.Index(s[i:], sub)
			if j < 0 {
				return at
			}
			at = append(at, i+j)
			i += j + len(sub)
		}
	}
	topLevel := func() []int {
		var at []int
		for i, l := range lines {
			if l != "" && l[0] != '\t' && l[0] != ' ' && l[0] != '}' && l[0] != ')' && l[0] != ']' {
				at = append(at, i)
			}
		}
		return at
	}
	switch r.Intn(9) {
	case 0:
		if at := occ(src, " := "); len(at) > 0 {
			p := Pick(r, at)
			return src[:p] + " = " + src[p+4:]
		}
	case 1:
		if at := occ(src, " = "); len(at) > 0 {
			p := Pick(r, at)
			return src[:p] + " := " + src[p+3:]
		}
	case 2, 3:
		ins := Pick(r, []string{"break", "continue", "return", "return 1", "zz = 1", "zz += 1", "zz++", "zz := zz", "x.y := 1",
			"a, b := 1, 2", "len = 1", "len := 1", "len(1)", "export 1", "if q := zz; q {}", "for zz in [1] {}", "for q in zz {}",
			"zz.a.b = 1", "f9 := func() { return f9 }", "f9 := func() { break }", "f9 := (func() { return f9 })"})
		i := r.Intn(len(lines) + 1)
		ind := ""
		if i < len(lines) {
			ind = lines[i][:len(lines[i])-len(strings.TrimLeft(lines[i], "\t"))]
		}
		out := append(append(append([]string{}, lines[:i]...), ind+ins), lines[i:]...)
		return strings.Join(out, "\n") + "\n"
	case 4:
		i := r.Intn(len(lines))
		out := append(append([]string{}, lines[:i]...), lines[i+1:]...)
		return strings.Join(out, "\n") + "\n"
	case 5:
		i := r.Intn(len(lines))
		out := append(append(append([]string{}, lines[:i+1]...), lines[i]), lines[i+1:]...)
		return strings.Join(out, "\n") + "\n"
	case 6:
		locs := compIdentRe.FindAllStringIndex(src, -1)
		var ids [][]int
		for _, l := range locs {
			if !compKeywords[src[l[0]:l[1]]] {
				ids = append(ids, l)
			}
		}
		if len(ids) > 0 {
			a, b := Pick(r, ids), Pick(r, ids)
			repl := src[b[0]:b[1]]
			if r.Chance(1, 4) {
				repl = "zz"
			}
			return src[:a[0]] + repl + src[a[1]:]
		}
	default:
		if tl := topLevel(); len(tl) > 0 {
			i := Pick(r, tl)
			var ends []int
			for _, j := range tl {
				if j > i {
					ends = append(ends, j)
				}
			}
			ends = append(ends, len(lines))
			j := Pick(r, ends)
			head := Pick(r, []string{"ff := func() {", "ff := func(a, ...b) {", "for {", "if true {", "for wk, wv in [1] {", "{"})
			out := append([]string{}, lines[:i]...)
			out = append(out, head)
			for _, l := range lines[i:j] {
				out = append(out, "\t"+l)
			}
			out = append(out, "}")
			out = append(out, lines[j:]...)
			return strings.Join(out, "\n") + "\n"
		}
	}
	return src
}

// CompLargePrograms: more than 65535 constants (the two-byte operand of CONST wraps), a function body above
// 64 KiB (four-byte jump operands, optimizer on a long function). Thorough tier only (seconds each).
func CompLargePrograms() []CompCase {
	var a, b strings.Builder
	a.WriteString("x := [")
	for i := 0; i < 66000; i++ {
		if i > 0 {
			a.WriteString(", ")
		}
		a.WriteString(N(i))
	}
	a.WriteString("]\ny := 5\nf := func() { return y }\n")
	b.WriteString("f := func(p) {\n\tq := 0\n")
	for i := 0; i < 2300; i++ {
		b.WriteString("\tif p { q = q + " + N(i) + " } else { q = q - 1 }\n")
	}
	b.WriteString("\treturn func() { return q }\n}\n")
	// element counts around the two-byte operands of OpArray / OpMap (O35)
	lit := func(n int, open, close string, el func(i int) string) string {
		var sb strings.Builder
		sb.WriteString("out := 0\nif out == 1 {\n x := " + open)
		for i := 0; i < n; i++ {
			if i > 0 {
				sb.WriteString(",")
			}
			sb.WriteString(el(i))
		}
		sb.WriteString(close + "\n}\nout = 5\n")
		return sb.String()
	}
	// the elements are reads of a global, not literals: 65535 literals would be 65535 constants and the program would
	// (rightly, since O41) be rejected for its constants before the element count is looked at
	one := func(int) string { return "out" }
	kv := func(i int) string { return "k" + N(i) + ":out" }
	return []CompCase{{Src: a.String()}, {Src: b.String()},
		{Src: lit(65535, "[", "]", one)}, {Src: lit(65536, "[", "]", one)},
		{Src: lit(32767, "{", "}", kv)}, {Src: lit(32768, "{", "}", kv)}}
}

package lib

// RNG is a splitmix64 generator; every random choice of a harness run derives
// from one seed so a disagreement replays exactly.
type RNG struct{ s uint64 }

func NewRNG(seed uint64) *RNG {
	// hash the seed so that nearby seeds give unrelated streams
	z := seed + 0x9E3779B97F4A7C15
	z = (z ^ (z >> 30)) * 0xBF58476D1CE4E5B9
	z = (z ^ (z >> 27)) * 0x94D049BB133111EB
	return &RNG{s: z ^ (z >> 31)}
}

func (r *RNG) U64() uint64 {
	r.s += 0x9E3779B97F4A7C15
	z := r.s
	z = (z ^ (z >> 30)) * 0xBF58476D1CE4E5B9
	z = (z ^ (z >> 27)) * 0x94D049BB133111EB
	return z ^ (z >> 31)
}

// Intn returns a value in [0,n).
func (r *RNG) Intn(n int) int {
	if n <= 0 {
		return 0
	}
	return int(r.U64() % uint64(n))
}

func (r *RNG) Bool() bool { return r.U64()&1 == 1 }

// Chance returns true with probability num/den.
func (r *RNG) Chance(num, den int) bool { return r.Intn(den) < num }

// Fork derives an independent generator (used per case so that shrinking or
// skipping one case does not shift the others).
func (r *RNG) Fork() *RNG { return NewRNG(r.U64()) }

func Pick[T any](r *RNG, xs []T) T { return xs[r.Intn(len(xs))] }

// Weighted picks index i with probability w[i]/sum(w).
func (r *RNG) Weighted(w []int) int {
	t := 0
	for _, x := range w {
		t += x
	}
	k := r.Intn(t)
	for i, x := range w {
		if k < x {
			return i
		}
		k -= x
	}
	return len(w) - 1
}

package lib

import (
	"encoding/hex"
	"fmt"
	"strconv"
	"strings"
)

// Sexp builders for the line protocol (DESIGN.md Appendix A).

func L(items ...string) string { return "(" + strings.Join(items, " ") + ")" }
func Hex(b []byte) string      { return "#" + hex.EncodeToString(b) }
func HexS(s string) string     { return "#" + hex.EncodeToString([]byte(s)) }
func I(n int64) string         { return strconv.FormatInt(n, 10) }
func N(n int) string           { return strconv.Itoa(n) }
func B(b bool) string {
	if b {
		return "1"
	}
	return "0"
}
func U(n uint64) string { return strconv.FormatUint(n, 10) }

// ParseSexp parses one expression (used to read model answers that are
// structured). Returns nested []interface{} / string.
func ParseSexp(s string) (interface{}, error) {
	toks := tokenize(s)
	pos := 0
	var rec func() (interface{}, error)
	rec = func() (interface{}, error) {
		if pos >= len(toks) {
			return nil, fmt.Errorf("unexpected end")
		}
		t := toks[pos]
		pos++
		if t == "(" {
			var items []interface{}
			for {
				if pos >= len(toks) {
					return nil, fmt.Errorf("unclosed list")
				}
				if toks[pos] == ")" {
					pos++
					return items, nil
				}
				it, err := rec()
				if err != nil {
					return nil, err
				}
				items = append(items, it)
			}
		}
		if t == ")" {
			return nil, fmt.Errorf("unexpected )")
		}
		return t, nil
	}
	v, err := rec()
	if err != nil {
		return nil, err
	}
	if pos != len(toks) {
		return nil, fmt.Errorf("trailing tokens")
	}
	return v, nil
}

func tokenize(s string) []string {
	var toks []string
	cur := strings.Builder{}
	flush := func() {
		if cur.Len() > 0 {
			toks = append(toks, cur.String())
			cur.Reset()
		}
	}
	for _, c := range s {
		switch c {
		case '(', ')':
			flush()
			toks = append(toks, string(c))
		case ' ', '\t', '\n', '\r':
			flush()
		default:
			cur.WriteRune(c)
		}
	}
	flush()
	return toks
}

package lib

import (
	"context"
	"encoding/json"
	"fmt"
	"os"
	"strings"
	"time"

	"github.com/d5/tengo/v2"
	"github.com/d5/tengo/v2/parser"
	"github.com/d5/tengo/v2/stdlib"
	tjson "github.com/d5/tengo/v2/stdlib/json"
)

// nilIndexObj: a host type whose IndexGet returns (nil, nil), which the Object interface documents as undefined
type nilIndexObj struct{ tengo.ObjectImpl }

func (o *nilIndexObj) TypeName() string                            { return "nilidx" }
func (o *nilIndexObj) String() string                              { return "nilidx" }
func (o *nilIndexObj) IndexGet(tengo.Object) (tengo.Object, error) { return nil, nil }

type arrayImportable struct{}

func (arrayImportable) Import(string) (interface{}, error) {
	return &tengo.Array{Value: []tengo.Object{&tengo.Int{Value: 1}}}, nil
}

// Probes of the defects observed on the pinned tree (DESIGN.md §6). Each probe
// re-runs the listed input against the real code and reports whether the
// PROPERTY still fails on it. Entries with status "known" in
// known_findings.json are reported as KNOWN-FINDING while the probe fails;
// entries with status "fixed" (or unlisted) are violations when the probe fails
// (a regression).
type Probe struct {
	ID       string
	Props    []string // properties the input violates
	Input    string
	WhatFail string
	Run      func() (fails bool, observed string)
}

// RunScript compiles and runs src through the context-aware path and returns
// the canonical globals, or the error text.
func RunScript(src string, timeout time.Duration) (globals map[string]string, errText string, panicked string) {
	defer func() {
		if p := recover(); p != nil {
			panicked = fmt.Sprint(p)
		}
	}()
	s := tengo.NewScript([]byte(src))
	c, err := s.Compile()
	if err != nil {
		return nil, "compile: " + err.Error(), ""
	}
	ctx, cancel := context.WithTimeout(context.Background(), timeout)
	defer cancel()
	if err := c.RunContext(ctx); err != nil {
		return nil, "run: " + err.Error(), ""
	}
	globals = map[string]string{}
	for _, v := range c.GetAll() {
		globals[v.Name()] = Canon(v.Object())
	}
	return globals, "", ""
}

func expectGlobal(src, name, want string) func() (bool, string) {
	return func() (bool, string) {
		g, e, p := RunScript(src, 5*time.Second)
		if p != "" {
			return true, "panic: " + p
		}
		if e != "" {
			return true, e
		}
		if g[name] != want {
			return true, name + " = " + g[name] + " (want " + want + ")"
		}
		return false, ""
	}
}

func expectNoPanic(src string) func() (bool, string) {
	return func() (bool, string) {
		_, _, p := RunScript(src, 5*time.Second)
		if p != "" {
			return true, "panic: " + p
		}
		return false, ""
	}
}

func manyVars(n int, inFunc bool) string {
	var sb strings.Builder
	if inFunc {
		sb.WriteString("f := func() {\n")
	}
	for i := 0; i < n; i++ {
		fmt.Fprintf(&sb, "v%d := %d\n", i, i)
	}
	if inFunc {
		fmt.Fprintf(&sb, "return [v0, v%d]\n}\nout := f()\n", n-1)
	}
	return sb.String()
}

// Probes lists every probe. Kept in one place so that a finding moved from
// "known" to "fixed" changes only known/*.json.
var Probes = []Probe{
	{ID: "O1", Props: []string{"C04"}, Input: "len = 5", WhatFail: "assignment to a builtin name panics the compiler (invalid assignment variable scope: BUILTIN)",
		Run: expectNoPanic("len = 5\n")},
	{ID: "O2", Props: []string{"C04", "C02"}, Input: "for { f := func() { break } }", WhatFail: "break inside a function literal inside a loop is accepted and patched into the outer function; Script.Compile panics",
		Run: func() (bool, string) {
			_, e, p := RunScript("a := 0\nfor a < 1 { a++; f := func() { break } }\n", 5*time.Second)
			if p != "" {
				return true, "panic: " + p
			}
			if !strings.Contains(e, "break not allowed outside loop") {
				return true, "no 'break not allowed outside loop' error: " + e
			}
			return false, ""
		}},
	{ID: "O3", Props: []string{"C01"}, Input: "a := [1,2,3]; b := a+[4]; c := a+[5]", WhatFail: "array + reuses the spare capacity of its left operand: b is rewritten by the second +",
		Run: expectGlobal("a := [1, 2, 3]\nb := a + [4]\nc := a + [5]\n", "b", "(a (i 1) (i 2) (i 3) (i 4))")},
	{ID: "O6", Props: []string{"C01"}, Input: `b := bytes("hello"); p := b[0:2]; q := p + bytes("XY")`, WhatFail: "bytes + appends in place into the storage its left operand shares with b",
		Run: expectGlobal("b := bytes(\"hello\")\np := b[0:2]\nq := p + bytes(\"XY\")\n", "b", "(y #68656c6c6f)")},
	{ID: "O4", Props: []string{"C09", "C01"}, Input: "x := immutable([1,2,3]); y := x[0:2]; y[0] = 99", WhatFail: "a slice of an immutable array shares its storage: writing the slice changes the immutable value",
		Run: expectGlobal("x := immutable([1, 2, 3])\ny := x[0:2]\ny[0] = 99\n", "x", "(ia (i 1) (i 2) (i 3))")},
	{ID: "O5", Props: []string{"C09", "C01"}, Input: "x := immutable([1,2,3]); y := append(x[0:2], 7)", WhatFail: "append to (a slice of) an immutable array writes into the immutable value's storage",
		Run: expectGlobal("x := immutable([1, 2, 3])\ny := append(x[0:2], 7)\n", "x", "(ia (i 1) (i 2) (i 3))")},
	{ID: "O5b", Props: []string{"C09", "C01"}, Input: "x := immutable([1,2,3]); z1 := x + immutable([8]); z2 := x + immutable([9])", WhatFail: "immutable-array + appends into the spare capacity of its left operand: z1 is rewritten by the second +",
		Run: expectGlobal("x := immutable([1, 2, 3])\nz1 := x + immutable([8])\nz2 := x + immutable([9])\n", "z1", "(a (i 1) (i 2) (i 3) (i 8))")},
	{ID: "O7", Props: []string{"C01", "C02"}, Input: "function with 300 locals returning [v0, v299]", WhatFail: "local index above 255 is truncated by the 1-byte operand: v0 reads another variable",
		Run: func() (bool, string) {
			g, e, p := RunScript(manyVars(300, true), 5*time.Second)
			if p != "" {
				return true, "panic: " + p
			}
			if e != "" {
				return false, "" // rejected with an error: acceptable
			}
			if g["out"] != "(a (i 0) (i 299))" {
				return true, "out = " + g["out"]
			}
			return false, ""
		}},
	{ID: "O33", Props: []string{"C14"}, Input: "f := func() { return 1 + \"a\" }; g := copy(f); g()", WhatFail: "copy() of a compiled function dropped its source map: a run-time error inside the copy was reported at '-' (no file, no line)",
		Run: func() (bool, string) {
			_, e, p := RunScript("f := func() {\n  return 1 + \"a\"\n}\ng := copy(f)\ng()\n", 5*time.Second)
			if p != "" {
				return true, "panic: " + p
			}
			if !strings.Contains(e, "(main):2:") {
				return true, "no location inside the failing statement of the copied function: " + e
			}
			return false, ""
		}},
	{ID: "O35", Props: []string{"C02"}, Input: "a := {}; if false { a[0]…(256 selectors) = 1 }", WhatFail: "the selector count of OpSetSel* is a one-byte operand (and the element counts of OpArray/OpMap two-byte operands): 256 selectors were compiled as 0, leaving 256 values on the operand stack of a path",
		Run: func() (bool, string) {
			_, e, p := RunScript("a := {}\nif false {\n a"+strings.Repeat("[0]", 256)+" = 1\n}\n", 5*time.Second)
			if p != "" {
				return true, "panic: " + p
			}
			if !strings.Contains(e, "too many selectors") {
				return true, "compiled without the operand-width error: " + e
			}
			return false, ""
		}},
	{ID: "O36", Props: []string{"C05"}, Input: "a := [0]; b := immutable(a); a[0] = b; c := freeze(b)", WhatFail: "freeze() of an immutable array/map that contains itself recursed without end (no memo entry for already-immutable containers): the builtin never returned, RunContext hung, eventually fatal stack overflow",
		Run: func() (bool, string) {
			type res struct {
				g map[string]string
				e string
				p string
			}
			for _, src := range []string{
				"a := [0]\nb := immutable(a)\na[0] = b\nc := freeze(b)\nout := is_immutable_array(c[0])\n",
				"m := {}\nim := immutable(m)\nm.self = im\nf := freeze(im)\nout := is_immutable_map(f.self)\n",
			} {
				ch := make(chan res, 1)
				go func() {
					g, e, p := RunScript(src, 3*time.Second)
					ch <- res{g, e, p}
				}()
				select {
				case r := <-ch:
					if r.p != "" || r.e != "" || r.g["out"] != "(b 1)" {
						return true, "freeze of a self-containing immutable value: " + r.p + r.e + " out=" + r.g["out"]
					}
				case <-time.After(6 * time.Second):
					return true, "freeze of a self-containing immutable value did not return (RunContext hangs)"
				}
			}
			return false, ""
		}},
	{ID: "O37", Props: []string{"C01"}, Input: "a := [1,2,3]; d := splice(a, 1, 9223372036854775807)", WhatFail: "splice computed startIdx+delCount, which overflows for a huge delete count: Go panic (slice bounds out of range) instead of deleting to the end",
		Run: expectGlobal("a := [1, 2, 3]\nd := splice(a, 1, 9223372036854775807)\n", "d", "(a (i 2) (i 3))")},
	{ID: "O41", Props: []string{"C01", "C02"}, Input: "33 array literals of 2000 distinct ints each (66000 constants), then v := 5", WhatFail: "constant indexes are emitted as 2-byte operands without a limit check: constant #66000 is loaded as #464 (66000 mod 65536), so v ends as 1000464 instead of 5 and no error is reported",
		Run: func() (bool, string) {
			var sb strings.Builder
			n := 1000000
			for a := 0; a < 33; a++ {
				fmt.Fprintf(&sb, "a%d := [", a)
				for i := 0; i < 2000; i++ {
					if i > 0 {
						sb.WriteString(", ")
					}
					fmt.Fprintf(&sb, "%d", n)
					n++
				}
				sb.WriteString("]\n")
			}
			sb.WriteString("v := 5\n")
			g, e, p := RunScript(sb.String(), 20*time.Second)
			if p != "" {
				return true, "panic: " + p
			}
			if strings.HasPrefix(e, "compile: ") {
				return false, "" // rejected at compile time: acceptable
			}
			if e != "" || g["v"] != "(i 5)" {
				return true, "v = " + g["v"] + " err = " + e
			}
			return false, ""
		}},
	{ID: "O42", Props: []string{"C01"}, Input: "host object x whose IndexGet returns (nil, nil); y := x.a; x.a.b = 1", WhatFail: "indexAssign did not convert the nil result of IndexGet to undefined (OpIndex does): nil pointer dereference in the VM instead of the run-time error 'not index-assignable: undefined'",
		Run: func() (fails bool, obs string) {
			defer func() {
				if r := recover(); r != nil {
					fails, obs = true, fmt.Sprintf("Script.Run panics: %v", r)
				}
			}()
			sc := tengo.NewScript([]byte("y := x.a\nx.a.b = 1\n"))
			_ = sc.Add("x", &nilIndexObj{})
			_, err := sc.Run()
			if err == nil || !strings.Contains(err.Error(), "not index-assignable: undefined") {
				return true, fmt.Sprintf("err = %v", err)
			}
			return false, ""
		}},
	{ID: "O43", Props: []string{"C04"}, Input: "var mm *tengo.ModuleMap; s.SetImports(mm); x := import(\"m\")", WhatFail: "a typed-nil *ModuleMap passes the 'modules == nil' default of NewCompiler; ModuleMap.Get dereferenced it: Script.Compile panicked instead of reporting module 'm' not found",
		Run: func() (fails bool, obs string) {
			defer func() {
				if r := recover(); r != nil {
					fails, obs = true, fmt.Sprintf("Script.Compile panics: %v", r)
				}
			}()
			var mm *tengo.ModuleMap
			sc := tengo.NewScript([]byte("x := import(\"m\")\n"))
			sc.SetImports(mm)
			_, err := sc.Compile()
			if err == nil {
				return true, "compiled without error"
			}
			return false, ""
		}},
	{ID: "C07-K1", Props: []string{"C07"}, Input: "times := import(\"times\"); times.sleep(1200 * times.millisecond)  with a 100 ms deadline", WhatFail: "RunContext returns only when the sleep is over: Abort is polled between instructions and a blocking standard-library call (times.sleep) does not observe it, so the delay after the deadline is as long as the script asked to sleep",
		Run: func() (bool, string) {
			sc := tengo.NewScript([]byte("times := import(\"times\")\ntimes.sleep(1200 * times.millisecond)\n"))
			sc.SetImports(stdlib.GetModuleMap("times"))
			c, err := sc.Compile()
			if err != nil {
				return false, ""
			}
			ctx, cancel := context.WithTimeout(context.Background(), 100*time.Millisecond)
			defer cancel()
			t0 := time.Now()
			done := make(chan error, 1)
			go func() { done <- c.RunContext(ctx) }()
			select {
			case <-done:
			case <-time.After(10 * time.Second):
				return true, "RunContext did not return within 10 s"
			}
			if d := time.Since(t0); d > 700*time.Millisecond {
				return true, fmt.Sprintf("RunContext returned %d ms after the call (deadline 100 ms)", d.Milliseconds())
			}
			return false, ""
		}},
	{ID: "C07-K2", Props: []string{"C07"}, Input: "goroutine A: c.Run() of `x := hold()` where the host function hold blocks for 800 ms; goroutine B, 50 ms later: c.RunContext(ctx) on the SAME Compiled with a 100 ms deadline", WhatFail: "B returns only when A's run is over (about 650 ms after its deadline): RunContext acquires Compiled.lock with a plain Lock() before it looks at the context, so a context that ends while the call waits for the lock is not honoured until the other run releases it (an endless other run: never)",
		Run: func() (bool, string) {
			release := make(chan struct{})
			sc := tengo.NewScript([]byte("x := hold()\n"))
			_ = sc.Add("hold", &tengo.UserFunction{Name: "hold", Value: func(args ...tengo.Object) (tengo.Object, error) {
				<-release
				return tengo.UndefinedValue, nil
			}})
			c, err := sc.Compile()
			if err != nil {
				return false, ""
			}
			aDone := make(chan struct{})
			go func() { _ = c.Run(); close(aDone) }()
			time.Sleep(50 * time.Millisecond)
			ctx, cancel := context.WithTimeout(context.Background(), 100*time.Millisecond)
			defer cancel()
			t1 := time.Now()
			bDone := make(chan error, 1)
			go func() { bDone <- c.RunContext(ctx) }()
			var fails bool
			var obs string
			select {
			case <-bDone: // returned while the other run still holds the lock: the context was honoured
			case <-time.After(800 * time.Millisecond):
				fails, obs = true, fmt.Sprintf("RunContext with a 100 ms deadline had not returned %d ms after the call, while another goroutine's Run held the lock", time.Since(t1).Milliseconds())
			}
			close(release)
			<-aDone
			if fails {
				select {
				case <-bDone:
				case <-time.After(10 * time.Second):
				}
			}
			return fails, obs
		}},
	{ID: "O44", Props: []string{"C02", "C04"}, Input: "cp := NewCompiler(...); cp.Compile(`1`); bc := cp.Bytecode(); cp.Compile(`1`) again; bc.RemoveDuplicates(); bc.FormatInstructions(); run bc", WhatFail: "Compiler.Bytecode appended OpSuspend to the compiler's own instruction buffer: compiling more code with the same Compiler overwrote the OpSuspend of the Bytecode handed out earlier, and RemoveDuplicates / FormatInstructions / a run of it read outside the instruction stream (index out of range)",
		Run: func() (fails bool, obs string) {
			defer func() {
				if r := recover(); r != nil {
					fails, obs = true, fmt.Sprintf("panic on the Bytecode taken before the second Compile: %v", r)
				}
			}()
			src := []byte("1\n2\n3\n")
			sf := parser.NewFileSet().AddFile("(main)", -1, len(src))
			f, err := parser.NewParser(sf, src, nil).ParseFile()
			if err != nil {
				return false, ""
			}
			cp := tengo.NewCompiler(sf, nil, nil, nil, nil)
			if err := cp.Compile(f); err != nil {
				return false, ""
			}
			bc := cp.Bytecode()
			before := append([]byte{}, bc.MainFunction.Instructions...)
			if err := cp.Compile(f); err != nil {
				return false, ""
			}
			if string(before) != string(bc.MainFunction.Instructions) {
				return true, "the instructions of the Bytecode handed out earlier changed when the Compiler compiled more code"
			}
			_ = bc.FormatInstructions()
			bc.RemoveDuplicates()
			globals := make([]tengo.Object, tengo.GlobalsSize)
			if err := tengo.NewVM(bc, globals, -1).Run(); err != nil {
				return true, "run: " + err.Error()
			}
			return false, ""
		}},
	{ID: "O30", Props: []string{"C01", "C02"}, Input: "call with 256 arguments", WhatFail: "the argument count of OpCall is one byte: a call with 256 arguments is compiled as a call with 0 arguments",
		Run: func() (bool, string) {
			var ps, as []string
			for i := 0; i < 256; i++ {
				ps = append(ps, fmt.Sprintf("p%d", i))
				as = append(as, "1")
			}
			g, e, p := RunScript("f := func("+strings.Join(ps, ", ")+") { return p0 + p255 }\nout := f("+strings.Join(as, ", ")+")\n", 5*time.Second)
			if p != "" {
				return true, "panic: " + p
			}
			if strings.HasPrefix(e, "compile: ") {
				return false, "" // rejected at compile time: acceptable
			}
			if e != "" || g["out"] != "(i 2)" {
				return true, "out = " + g["out"] + " err = " + e
			}
			return false, ""
		}},
	{ID: "O8", Props: []string{"C04"}, Input: "1030 top-level variables", WhatFail: "Script.Compile panics: slice bounds out of range [:1032] with capacity 1024",
		Run: expectNoPanic(manyVars(1030, false))},
	{ID: "O11", Props: []string{"C06", "C17"}, Input: `MaxStringLen=10; format("%x", "abcdefgh")`, WhatFail: "%x on a string returns 16 bytes although the maximum string length is 10",
		Run: func() (bool, string) {
			saved := tengo.MaxStringLen
			tengo.MaxStringLen = 10
			defer func() { tengo.MaxStringLen = saved }()
			s, err := tengo.Format("%x", &tengo.String{Value: "abcdefgh"})
			if err == nil && len(s) > 10 {
				return true, fmt.Sprintf("%d-byte string returned", len(s))
			}
			return false, ""
		}},
	{ID: "O18", Props: []string{"C18"}, Input: `json.decode("100000000000000000000")`, WhatFail: "an integer literal outside int64 decodes to MaxInt64 (so decode(encode(1e20)) != 1e20)",
		Run: func() (bool, string) {
			o, err := tjson.Decode([]byte("100000000000000000000"))
			if err != nil {
				return true, err.Error()
			}
			if f, ok := o.(*tengo.Float); !ok || f.Value != 1e20 {
				return true, Canon(o)
			}
			return false, ""
		}},
	{ID: "O21", Props: []string{"C04", "C12"}, Input: `custom Importable returning *Array; x := import("m")`, WhatFail: "Script.Compile panics in RemoveDuplicates: unsupported top-level constant type",
		Run: func() (fails bool, obs string) {
			defer func() {
				if p := recover(); p != nil {
					fails, obs = true, fmt.Sprint("panic: ", p)
				}
			}()
			mm := tengo.NewModuleMap()
			mm.Add("m", arrayImportable{})
			s := tengo.NewScript([]byte("x := import(\"m\")\n"))
			s.SetImports(mm)
			_, err := s.Compile()
			if err != nil {
				return false, "" // an error value is acceptable
			}
			return false, ""
		}},
	{ID: "P1", Props: []string{"C04"}, Input: "x := [1]; for a, b, c in x {}", WhatFail: "more than two names before 'in' were accepted with nil key/value and the compiler panicked (nil dereference)",
		Run: expectNoPanic("x := [1]\nfor a, b, c in x {}\n")},
	{ID: "F1", Props: []string{"C01", "C10"}, Input: "z := -0.0; y := 1.0 / (z * z)", WhatFail: "float arithmetic returned its left operand when the result compared equal to it: (-0.0)*(-0.0) yielded -0.0, so 1.0/(z*z) was -Inf instead of +Inf",
		Run: expectGlobal("z := -0.0\ny := 1.0 / (z * z)\n", "y", "(f 9218868437227405312)")},
	{ID: "O10", Props: []string{"C05"}, Input: "m := {a: 1, b: 2}; out := []; for k, v in m { delete(m, \"a\"); delete(m, \"b\"); out = append(out, v) }; host: Get(\"out\").String()", WhatFail: "a key deleted during for-in made the iterator hand a Go nil to the script; the nil ended up in a global and the host's Variable.String() panicked",
		Run: func() (fails bool, obs string) {
			defer func() {
				if p := recover(); p != nil {
					fails, obs = true, fmt.Sprint("panic: ", p)
				}
			}()
			s := tengo.NewScript([]byte("m := {a: 1, b: 2}\nout := []\nfor k, v in m { delete(m, \"a\"); delete(m, \"b\"); out = append(out, v) }\n"))
			c, err := s.Compile()
			if err != nil {
				return true, err.Error()
			}
			ctx, cancel := context.WithTimeout(context.Background(), 5*time.Second)
			defer cancel()
			if err := c.RunContext(ctx); err != nil {
				return false, "" // an error value is acceptable
			}
			_ = c.Get("out").String()
			if arr, ok := c.Get("out").Object().(*tengo.Array); ok {
				for _, o := range arr.Value {
					if o == nil {
						return true, "nil element in a global array"
					}
				}
			}
			return false, ""
		}},
	{ID: "O17", Props: []string{"C16", "C01"}, Input: "f := func(n) { if n == 0 { return 5 }; f(n-1) }; out := f(3)", WhatFail: "a statement-position self call followed by the implicit return is run as a tail call: f(3) yields 5, not undefined",
		Run: expectGlobal("f := func(n) { if n == 0 { return 5 }; f(n-1) }\nout := f(3)\nok := is_undefined(out)\n", "ok", "(b 1)")},
	{ID: "O34", Props: []string{"C18"}, Input: "[ ×10001 ] ×10001", WhatFail: "json.decode accepted input nested deeper than 10000 levels, which encoding/json rejects (maxNestingDepth): decode did not fail exactly when encoding/json considers the text invalid",
		Run: func() (fails bool, obs string) {
			defer func() {
				if p := recover(); p != nil {
					fails, obs = true, fmt.Sprint("panic: ", p)
				}
			}()
			text := []byte(strings.Repeat("[", 10001) + strings.Repeat("]", 10001))
			if _, err := tjson.Decode(text); err == nil {
				return true, "accepted (encoding/json.Valid = false)"
			}
			return false, ""
		}},
	{ID: "O38", Props: []string{"C17"}, Input: `format("%d", "s")`, WhatFail: "a documented verb on an operand type it is not documented for prints the Tengo value where Go's fmt prints the Go type: %!d(\"s\"=\"s\") for %!d(string=s)",
		Run: formatVsGo("%d", &tengo.String{Value: "s"}, "s")},
	{ID: "O39", Props: []string{"C17"}, Input: `format("%c", bytes("ab"))`, WhatFail: "a bytes operand under a documented verb other than s q x X v d prints nothing where Go's fmt prints the element list: \"\" for [a b]",
		Run: formatVsGo("%c", &tengo.Bytes{Value: []byte("ab")}, []byte("ab"))},
	{ID: "C20-4", Props: []string{"C20"}, Input: "f(1 ...)   f(0x1F ...)   g(a, 2.5 ...)   (the spread of a number literal)", WhatFail: "CallExpr.String() printed `f(1...)`, which scans as the float literal `1.` followed by `..`: the printed form of a parsed program did not parse again (`expected selector, found '.'`; `0x1F...`: invalid float)",
		Run: func() (fails bool, obs string) {
			defer func() {
				if r := recover(); r != nil {
					fails, obs = true, fmt.Sprintf("panic: %v", r)
				}
			}()
			for _, src := range []string{"f(1 ...)", "f(0x1F ...)", "g(a, 2.5 ...)", "h(1. ...)", "x := f(0b11 ...)[0]"} {
				b := []byte(src)
				fs := parser.NewFileSet()
				f1, err := parser.NewParser(fs.AddFile("(a)", -1, len(b)), b, nil).ParseFile()
				if err != nil {
					continue // not a program
				}
				printed := f1.String()
				pb := []byte(printed)
				f2, err := parser.NewParser(fs.AddFile("(b)", -1, len(pb)), pb, nil).ParseFile()
				if err != nil {
					return true, fmt.Sprintf("%q prints as %q, which does not parse: %v", src, printed, err)
				}
				if again := f2.String(); again != printed {
					return true, fmt.Sprintf("%q prints as %q, which prints as %q", src, printed, again)
				}
			}
			return false, ""
		}},
	{ID: "O46", Props: []string{"C02", "C12"}, Input: "cp.Compile(`a := 7; b := 7; mk := func() { x := 1; return func() { return x } }; f := func() { return \"hello\" }`); b1 := cp.Bytecode(); b1.RemoveDuplicates(); cp.Compile(`out := mk()(); s := f()`); b2 := cp.Bytecode(); run b2", WhatFail: "RemoveDuplicates rewrote the instructions of the compiler's own function constants in place: a later Bytecode() of the same Compiler pairs the renumbered function bodies with the un-deduplicated constant table (CLOSURE names an Int: 'not function'; f() returns 7)",
		Run: func() (fails bool, obs string) {
			defer func() {
				if r := recover(); r != nil {
					fails, obs = true, fmt.Sprintf("panic: %v", r)
				}
			}()
			fs := parser.NewFileSet()
			parse := func(src string) *parser.File {
				b := []byte(src)
				f, err := parser.NewParser(fs.AddFile("(main)", -1, len(b)), b, nil).ParseFile()
				if err != nil {
					panic(err)
				}
				return f
			}
			st := tengo.NewSymbolTable()
			cp := tengo.NewCompiler(fs.AddFile("(x)", -1, 0), st, nil, nil, nil)
			if err := cp.Compile(parse("a := 7\nb := 7\nmk := func() { x := 1; return func() { return x } }\nf := func() { return \"hello\" }\n")); err != nil {
				return false, ""
			}
			b1 := cp.Bytecode()
			orig := append([]tengo.Object{}, b1.Constants...)
			var before [][]byte
			for _, c := range orig {
				if fn, ok := c.(*tengo.CompiledFunction); ok {
					before = append(before, append([]byte{}, fn.Instructions...))
				}
			}
			b1.RemoveDuplicates()
			k := 0
			for _, c := range orig {
				if fn, ok := c.(*tengo.CompiledFunction); ok {
					if string(fn.Instructions) != string(before[k]) {
						return true, "the instructions of a function constant the Compiler still holds changed when RemoveDuplicates ran on a Bytecode taken from it"
					}
					k++
				}
			}
			if err := cp.Compile(parse("out := mk()()\ns := f()\n")); err != nil {
				return false, ""
			}
			b2 := cp.Bytecode()
			globals := make([]tengo.Object, tengo.GlobalsSize)
			if err := tengo.NewVM(b2, globals, -1).Run(); err != nil {
				return true, "run of the second Bytecode: " + err.Error()
			}
			if so, _, ok := st.Resolve("s", false); ok {
				if v, isStr := globals[so.Index].(*tengo.String); !isStr || v.Value != "hello" {
					return true, fmt.Sprintf("s = %v, want \"hello\"", globals[so.Index])
				}
			}
			return false, ""
		}},
	{ID: "O47", Props: []string{"C02"}, Input: "base := c0.Bytecode().Constants (len 5, cap 8); cA := NewCompiler(.., base, ..) compiles closures; cB := NewCompiler(.., base, ..) compiles `outB := \"boom\"`; run cA's Bytecode", WhatFail: "NewCompiler appended to the constants slice it was given: two compilers continuing from one base table wrote into the same backing array, the second overwrote function constants of the first's Bytecode (CLOSURE names a String)",
		Run: func() (fails bool, obs string) {
			defer func() {
				if r := recover(); r != nil {
					fails, obs = true, fmt.Sprintf("panic: %v", r)
				}
			}()
			fs := parser.NewFileSet()
			parse := func(src string) *parser.File {
				b := []byte(src)
				f, err := parser.NewParser(fs.AddFile("(main)", -1, len(b)), b, nil).ParseFile()
				if err != nil {
					panic(err)
				}
				return f
			}
			c0 := tengo.NewCompiler(fs.AddFile("(0)", -1, 0), tengo.NewSymbolTable(), nil, nil, nil)
			if err := c0.Compile(parse("a := 1; b := 2; c := 3; d := 4; e := 5\n")); err != nil {
				return false, ""
			}
			base := c0.Bytecode().Constants
			if cap(base) == len(base) {
				base = append(make([]tengo.Object, 0, len(base)+8), base...)
			}
			cA := tengo.NewCompiler(fs.AddFile("(a)", -1, 0), tengo.NewSymbolTable(), base, nil, nil)
			if err := cA.Compile(parse("mk := func(x) { return func() { return x } }\noutA := mk(1)()\n")); err != nil {
				return false, ""
			}
			bA := cA.Bytecode()
			snapshot := append([]tengo.Object{}, bA.Constants...)
			cB := tengo.NewCompiler(fs.AddFile("(b)", -1, 0), tengo.NewSymbolTable(), base, nil, nil)
			if err := cB.Compile(parse("outB := \"boom\"\nx := 2.5\ny := 'c'\n")); err != nil {
				return false, ""
			}
			for i := range snapshot {
				if bA.Constants[i] != snapshot[i] {
					return true, fmt.Sprintf("constant %d of the first compiler's Bytecode was overwritten by the second compiler (%s -> %s)", i, snapshot[i].TypeName(), bA.Constants[i].TypeName())
				}
			}
			globals := make([]tengo.Object, tengo.GlobalsSize)
			if err := tengo.NewVM(bA, globals, -1).Run(); err != nil {
				return true, "run of the first Bytecode: " + err.Error()
			}
			return false, ""
		}},
	{ID: "O48", Props: []string{"C02", "C01"}, Input: "a0 := true … a65536 := true (65537 global definitions); a65536 = false; out := a0   through the Compiler API, VM with 70000 global slots", WhatFail: "global indexes are 2-byte operands and the compiler had no limit: SETG for global #65536 was emitted as SETG 0, a0 was overwritten and out ended false, with no error",
		Run: func() (fails bool, obs string) {
			defer func() {
				if r := recover(); r != nil {
					fails, obs = true, fmt.Sprintf("panic: %v", r)
				}
			}()
			var sb strings.Builder
			for i := 0; i <= 65536; i++ {
				fmt.Fprintf(&sb, "a%d := true\n", i)
			}
			sb.WriteString("a65536 = false\nout := a0\n")
			src := []byte(sb.String())
			fs := parser.NewFileSet()
			f, err := parser.NewParser(fs.AddFile("(main)", -1, len(src)), src, nil).ParseFile()
			if err != nil {
				return false, ""
			}
			st := tengo.NewSymbolTable()
			cp := tengo.NewCompiler(fs.AddFile("(x)", -1, 0), st, nil, nil, nil)
			if err := cp.Compile(f); err != nil {
				return false, "" // rejected at compile time
			}
			globals := make([]tengo.Object, 70000)
			if err := tengo.NewVM(cp.Bytecode(), globals, -1).Run(); err != nil {
				return false, ""
			}
			if so, _, ok := st.Resolve("out", false); ok && so.Index < len(globals) {
				if g := globals[so.Index&0xFFFF]; g == tengo.FalseValue {
					return true, "out is false although a0 was never assigned false: the operand of SETG a65536 wrapped to 0"
				}
				if g := globals[so.Index]; g == tengo.FalseValue {
					return true, "out is false although a0 was never assigned false"
				}
			}
			return false, ""
		}},
}

// formatVsGo: tengo.Format on one operand against fmt.Sprintf on the corresponding Go value.
func formatVsGo(f string, o tengo.Object, g interface{}) func() (bool, string) {
	return func() (fails bool, obs string) {
		defer func() {
			if p := recover(); p != nil {
				fails, obs = true, fmt.Sprint("panic: ", p)
			}
		}()
		got, err := tengo.Format(f, o)
		want := fmt.Sprintf(f, g)
		if err != nil {
			return true, err.Error()
		}
		if got != want {
			return true, fmt.Sprintf("tengo %q, Go %q", got, want)
		}
		return false, ""
	}
}

// KnownEntry mirrors one entry of known_findings.json.
type KnownEntry struct {
	Property  string `json:"property"`
	ID        string `json:"id"`
	Status    string `json:"status"`
	Signature string `json:"signature"`
}

func LoadKnown(path string) []KnownEntry {
	var f struct {
		Findings []KnownEntry `json:"findings"`
	}
	b, err := os.ReadFile(path)
	if err != nil {
		return nil
	}
	_ = json.Unmarshal(b, &f)
	return f.Findings
}

// RunProbes runs the probes registered for prop. A failing probe listed as
// "known" is recorded in KnownHits; any other failing probe is a violation.
func RunProbes(res *Result, prop string, knownPath string) {
	known := map[string]bool{}
	for _, k := range LoadKnown(knownPath) {
		if k.Property == prop && k.Status == "known" {
			known[k.ID] = true
		}
	}
	for _, p := range Probes {
		mine := false
		for _, q := range p.Props {
			if q == prop {
				mine = true
			}
		}
		if !mine {
			continue
		}
		fails, obs := p.Run()
		res.Count("finding-probe", p.ID, true)
		if !fails {
			continue
		}
		if known[p.ID] {
			res.KnownHits = append(res.KnownHits, p.ID)
			continue
		}
		res.Violate(Violation{Signature: "finding-" + p.ID, Stream: "finding-probe", Input: p.Input, Observed: obs,
			Expected: "property holds on this input", Oracle: p.WhatFail})
	}
}

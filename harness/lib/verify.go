package lib

import (
	"fmt"
	"sort"
	"strings"

	"github.com/d5/tengo/v2"
	"github.com/d5/tengo/v2/parser"
)

// Harness-side bytecode verifier: an implementation of the checks of property
// C02 that is independent of the Lean model (written against vm.go). It is the
// oracle for "the compiler emitted an ill-formed function".

// VerifyEnv describes the surroundings of one function.
type VerifyEnv struct {
	ConstIsFn   []bool
	NumBuiltins int
	GlobalsSize int
	NumLocals   int
	NumFree     int
	Limit       int
}

// StackEffect returns (pops, pushes) of a straight-line opcode.
func StackEffect(in DInstr) (pops, pushes int, ok bool) {
	a0, a1 := 0, 0
	if len(in.Args) > 0 {
		a0 = in.Args[0]
	}
	if len(in.Args) > 1 {
		a1 = in.Args[1]
	}
	switch in.Op {
	case parser.OpConstant, parser.OpNull, parser.OpTrue, parser.OpFalse, parser.OpGetGlobal, parser.OpGetLocal,
		parser.OpGetBuiltin, parser.OpGetFreePtr, parser.OpGetFree, parser.OpGetLocalPtr:
		return 0, 1, true
	case parser.OpBinaryOp, parser.OpEqual, parser.OpNotEqual, parser.OpIndex:
		return 2, 1, true
	case parser.OpPop, parser.OpSetGlobal, parser.OpSetLocal, parser.OpDefineLocal, parser.OpSetFree:
		return 1, 0, true
	case parser.OpLNot, parser.OpBComplement, parser.OpMinus, parser.OpError, parser.OpImmutable,
		parser.OpIteratorInit, parser.OpIteratorNext, parser.OpIteratorKey, parser.OpIteratorValue:
		return 1, 1, true
	case parser.OpSliceIndex:
		return 3, 1, true
	case parser.OpArray, parser.OpMap:
		return a0, 1, true
	case parser.OpCall:
		return a0 + 1, 1, true
	case parser.OpClosure:
		return a1, 1, true
	case parser.OpSetSelGlobal, parser.OpSetSelLocal, parser.OpSetSelFree:
		return a1 + 1, 0, true
	}
	return 0, 0, false
}

type succ struct{ pos, h int }

func succsOf(in DInstr, h int) ([]succ, string) {
	t := 0
	if len(in.Args) > 0 {
		t = in.Args[0]
	}
	nxt := in.Pos + in.Len
	switch in.Op {
	case parser.OpReturn:
		if h < t {
			return nil, "underflow"
		}
		return []succ{}, ""
	case parser.OpSuspend:
		return []succ{}, ""
	case parser.OpJump:
		return []succ{{t, h}}, ""
	case parser.OpJumpFalsy:
		if h < 1 {
			return nil, "underflow"
		}
		return []succ{{t, h - 1}, {nxt, h - 1}}, ""
	case parser.OpAndJump, parser.OpOrJump:
		if h < 1 {
			return nil, "underflow"
		}
		return []succ{{t, h}, {nxt, h - 1}}, ""
	}
	pops, pushes, ok := StackEffect(in)
	if !ok {
		return nil, "unknown-opcode"
	}
	if h < pops {
		return nil, "underflow"
	}
	return []succ{{nxt, h - pops + pushes}}, ""
}

// VerifyFunction checks one function; it returns the height table (offset ->
// height) or a description of what is ill-formed.
func VerifyFunction(env VerifyEnv, insts []byte) (map[int]int, string) {
	is, err := Decode(insts)
	if err != nil {
		return nil, "undecodable"
	}
	if len(is) == 0 {
		return nil, "emptyFunction"
	}
	at := map[int]int{}
	for i, x := range is {
		at[x.Pos] = i
	}
	for _, x := range is {
		a0 := 0
		if len(x.Args) > 0 {
			a0 = x.Args[0]
		}
		bad := ""
		switch x.Op {
		case parser.OpConstant:
			if a0 >= len(env.ConstIsFn) {
				bad = "constant-index"
			}
		case parser.OpClosure:
			if a0 >= len(env.ConstIsFn) || !env.ConstIsFn[a0] {
				bad = "closure-constant-is-not-a-function"
			}
		case parser.OpGetLocal, parser.OpSetLocal, parser.OpDefineLocal, parser.OpGetLocalPtr, parser.OpSetSelLocal:
			if a0 >= env.NumLocals {
				bad = "local-index"
			}
		case parser.OpGetFree, parser.OpSetFree, parser.OpGetFreePtr, parser.OpSetSelFree:
			if a0 >= env.NumFree {
				bad = "free-index"
			}
		case parser.OpGetBuiltin:
			if a0 >= env.NumBuiltins {
				bad = "builtin-index"
			}
		case parser.OpGetGlobal, parser.OpSetGlobal, parser.OpSetSelGlobal:
			if a0 >= env.GlobalsSize {
				bad = "global-index"
			}
		case parser.OpMap:
			if a0%2 != 0 {
				bad = "odd-map-element-count"
			}
		}
		if bad != "" {
			return nil, fmt.Sprintf("badOperand %d %s", x.Pos, bad)
		}
	}
	hm := map[int]int{0: 0}
	work := []int{0}
	for len(work) > 0 {
		p := work[len(work)-1]
		work = work[:len(work)-1]
		idx, ok := at[p]
		if !ok {
			return nil, fmt.Sprintf("badTarget %d", p)
		}
		h := hm[p]
		if h > env.Limit {
			return nil, fmt.Sprintf("tooHigh %d %d", p, h)
		}
		ss, bad := succsOf(is[idx], h)
		if bad != "" {
			return nil, fmt.Sprintf("%s %d %d", bad, p, h)
		}
		for _, s := range ss {
			if _, isStart := at[s.pos]; !isStart {
				return nil, fmt.Sprintf("badTarget %d %d", p, s.pos)
			}
			if h0, seen := hm[s.pos]; seen {
				if h0 != s.h {
					return nil, fmt.Sprintf("inconsistent %d %d %d", s.pos, h0, s.h)
				}
				continue
			}
			hm[s.pos] = s.h
			work = append(work, s.pos)
		}
	}
	return hm, ""
}

// FnEnvs computes the verification environment of every function of a
// bytecode (index 0 = main, then function constants in pool order), deriving
// the number of free variables available to a function from the CLOSURE
// instructions that create it.
func FnEnvs(bc *tengo.Bytecode) ([]*tengo.CompiledFunction, []VerifyEnv) {
	fns := Functions(bc)
	isFn := make([]bool, len(bc.Constants))
	fnOfConst := map[int]int{} // constant index -> index in fns
	k := 1
	for i, c := range bc.Constants {
		if _, ok := c.(*tengo.CompiledFunction); ok {
			isFn[i] = true
			fnOfConst[i] = k
			k++
		}
	}
	free := make([]int, len(fns))
	seenClosure := make([]bool, len(fns))
	referenced := make([]bool, len(fns))
	for _, f := range fns {
		is, err := Decode(f.Instructions)
		if err != nil {
			continue
		}
		for _, x := range is {
			if x.Op == parser.OpClosure && len(x.Args) == 2 {
				if j, ok := fnOfConst[x.Args[0]]; ok {
					if !seenClosure[j] || x.Args[1] < free[j] {
						free[j] = x.Args[1]
					}
					seenClosure[j] = true
					referenced[j] = true
				}
			}
			if x.Op == parser.OpConstant && len(x.Args) == 1 {
				if j, ok := fnOfConst[x.Args[0]]; ok {
					referenced[j] = true
				}
			}
		}
	}
	envs := make([]VerifyEnv, len(fns))
	for i, f := range fns {
		if i > 0 && !referenced[i] {
			// a function literal inside code the optimizer removed: never instantiated, so its free
			// variable operands have no creation site to be checked against
			free[i] = 256
		}
		envs[i] = VerifyEnv{ConstIsFn: isFn, NumBuiltins: len(tengo.GetAllBuiltinFunctions()), GlobalsSize: tengo.GlobalsSize,
			NumLocals: f.NumLocals, NumFree: free[i], Limit: tengo.StackSize}
	}
	return fns, envs
}

// HeightsSexp renders a height table sorted by offset.
func HeightsSexp(hm map[int]int) string {
	keys := make([]int, 0, len(hm))
	for k := range hm {
		keys = append(keys, k)
	}
	sort.Ints(keys)
	parts := make([]string, len(keys))
	for i, k := range keys {
		parts[i] = "(" + N(k) + " " + N(hm[k]) + ")"
	}
	return "(" + strings.Join(parts, " ") + ")"
}

// VerifyLine renders the model query for one function.
func VerifyLine(env VerifyEnv, insts []byte) string {
	bits := make([]string, len(env.ConstIsFn))
	for i, b := range env.ConstIsFn {
		bits[i] = B(b)
	}
	return L("verify", "("+strings.Join(bits, " ")+")", N(env.NumBuiltins), N(env.GlobalsSize), N(env.NumLocals),
		N(env.NumFree), N(env.Limit), Hex(insts))
}

package lib

import (
	"fmt"
	"strings"
	"time"

	"github.com/d5/tengo/v2"
)

// Lock-step comparison of the real VM with the Lean VM model (Tengo.Model.VM, driver line `vm`).

// VMObs is one dispatch as the probe hook reports it.
type VMObs struct {
	Fn, IP, SP, BP, Depth int
	Allocs                int64
}

func (o VMObs) String() string {
	return fmt.Sprintf("%d:%d:%d:%d:%d:%d", o.Fn, o.IP, o.SP, o.BP, o.Depth, o.Allocs)
}

// vmMix mirrors Tengo.Model.VM.mix.
func vmMix(h uint64, o VMObs) uint64 {
	a := o.Allocs % 1000000007
	if a < 0 {
		a += 1000000007
	}
	return (h*1000003 + uint64(o.Fn)*7919 + uint64(o.IP)*104729 + uint64(o.SP)*31 + uint64(o.Depth)*131 + uint64(a)) % 2147483647
}

// VMConstSexp renders a constant for the `vm` line; ok=false when the model has no such value.
func vmFnSexp(f *tengo.CompiledFunction) string {
	return L("fn", Hex(f.Instructions), N(f.NumLocals), N(f.NumParameters), B(f.VarArgs))
}

// VMModelLine builds the `vm` driver line for compiled code. ok=false: a constant the model cannot hold.
func VMModelLine(c *Compiled, inputs map[string]tengo.Object, maxAllocs int64, fuel, keep int) (line string, nglobals int, ok bool) {
	var consts []string
	for _, k := range c.BC.Constants {
		switch k := k.(type) {
		case *tengo.CompiledFunction:
			consts = append(consts, vmFnSexp(k))
		case *tengo.Int, *tengo.Float, *tengo.Char, *tengo.String, *tengo.Bytes, *tengo.Bool, *tengo.Undefined:
			consts = append(consts, L("v", Canon(k)))
		default:
			return "", 0, false
		}
	}
	var gs []string
	for _, name := range c.Symbols.Names() {
		sym, _, found := c.Symbols.Resolve(name, false)
		if found && sym.Scope == tengo.ScopeGlobal {
			if sym.Index+1 > nglobals {
				nglobals = sym.Index + 1
			}
			if v, has := inputs[name]; has {
				gs = append(gs, L(N(sym.Index), Canon(v)))
			}
		}
	}
	// globals defined in nested block scopes are not listed by Names(): take the highest SETG/GETG operand too
	for _, f := range Functions(c.BC) {
		if ins, err := Decode(f.Instructions); err == nil {
			for _, in := range ins {
				if (in.Op == 22 || in.Op == 23 || in.Op == 24) && len(in.Args) > 0 && in.Args[0]+1 > nglobals {
					nglobals = in.Args[0] + 1
				}
			}
		}
	}
	line = L("vm", N(fuel), N(keep), I(maxAllocs), N(nglobals), "("+strings.Join(gs, " ")+")",
		"("+strings.Join(consts, " ")+")", vmFnSexp(c.BC.MainFunction))
	return line, nglobals, true
}

// vmConstsSexp renders the constant pool for the `vm` / `reloc` lines; ok=false: a constant the model cannot hold.
func vmConstsSexp(bc *tengo.Bytecode) (string, bool) {
	var consts []string
	for _, k := range bc.Constants {
		switch k := k.(type) {
		case *tengo.CompiledFunction:
			consts = append(consts, vmFnSexp(k))
		case *tengo.Int, *tengo.Float, *tengo.Char, *tengo.String, *tengo.Bytes, *tengo.Bool, *tengo.Undefined:
			consts = append(consts, L("v", Canon(k)))
		default:
			return "", false
		}
	}
	return "(" + strings.Join(consts, " ") + ")", true
}

// RelocLine builds the `reloc` driver line: is `o` the program `u` with every function's instructions relocated
// (Tengo.Model.VM.checkReloc; a passed check gives corresponding runs of the whole-VM model for every input,
// Tengo.Props.C03VM)? ok=false: a constant the model cannot hold, or too large for the quadratic check.
func RelocLine(u, o *tengo.Bytecode, maxBytes int) (string, bool) {
	total := 0
	for _, f := range Functions(u) {
		total += len(f.Instructions)
	}
	if total > maxBytes {
		return "", false
	}
	cu, ok1 := vmConstsSexp(u)
	co, ok2 := vmConstsSexp(o)
	if !ok1 || !ok2 {
		return "", false
	}
	return L("reloc", cu, vmFnSexp(u.MainFunction), co, vmFnSexp(o.MainFunction)), true
}

// VMRealRun runs the real VM with the probe on and renders the outcome in the `vm` answer format.
func VMRealRun(c *Compiled, inputs map[string]tengo.Object, maxAllocs int64, nglobals, keep int, timeout time.Duration) (string, RunOutcome) {
	fnIdx := map[*byte]int{}
	if len(c.BC.MainFunction.Instructions) > 0 {
		fnIdx[&c.BC.MainFunction.Instructions[0]] = 0
	}
	for i, k := range c.BC.Constants {
		if f, isFn := k.(*tengo.CompiledFunction); isFn && len(f.Instructions) > 0 {
			if _, dup := fnIdx[&f.Instructions[0]]; !dup {
				fnIdx[&f.Instructions[0]] = i + 1
			}
		}
	}
	var first []string
	var sum uint64
	steps := 0
	counted := 0
	var lastAllocs int64
	out := RunBytecode(c, RunOpts{MaxAllocs: maxAllocs, ZeroAllocs: true, Inputs: inputs, Timeout: timeout,
		Probe: func(v *tengo.VM, fn *tengo.CompiledFunction, ip, sp, bp, fi int, allocs int64) {
			idx := -1
			if len(fn.Instructions) > 0 {
				if i, ok := fnIdx[&fn.Instructions[0]]; ok {
					idx = i
				}
			}
			o := VMObs{idx, ip, sp, bp, fi, allocs}
			if steps > 0 && allocs != lastAllocs {
				counted++
			}
			lastAllocs = allocs
			if steps < keep {
				first = append(first, o.String())
			}
			sum = vmMix(sum, o)
			steps++
		}})
	tail := fmt.Sprintf("%d %d %d", steps, counted, sum)
	trace := "(" + strings.Join(first, " ") + ")"
	switch {
	case out.TimedOut:
		return "timeout", out
	case out.Panic != "":
		return "panic " + HexS(out.Panic) + " " + tail + " " + trace, out
	case out.Err != "":
		msg := strings.TrimPrefix(out.Err, "Runtime Error: ")
		if i := strings.Index(msg, "\n"); i >= 0 {
			msg = msg[:i]
		}
		return "rerr " + HexS(msg) + " " + tail + " " + trace, out
	}
	// the last dispatch (SUSPEND) is not followed by another probe: the final allocs delta is not visible, and
	// SUSPEND allocates nothing
	slots := make([]string, nglobals)
	for i := range slots {
		slots[i] = "u"
		if i < len(out.Slots) && out.Slots[i] != "nil" {
			slots[i] = out.Slots[i]
		}
	}
	return "ok " + tail + " " + N(out.SP) + " " + trace + " (" + strings.Join(slots, " ") + ")", out
}

// VMCompare runs compiled code on the real VM and on the Lean VM model and compares them in lock step.
// status: "agree", "differ", or "skip:<why>" (outside the model, excluded by the property, timeouts).
func VMCompare(d *Driver, c *Compiled, mkInputs func() map[string]tengo.Object, maxAllocs int64) (status, model, impl string, err error) {
	const fuel, keep = 400000, 300
	if mkInputs == nil {
		mkInputs = func() map[string]tengo.Object { return nil }
	}
	line, ng, ok := VMModelLine(c, mkInputs(), maxAllocs, fuel, keep)
	if !ok {
		return "skip:constant-outside-model", "", "", nil
	}
	model, err = d.Ask(line)
	if err != nil {
		return "", "", "", err
	}
	cls := strings.Fields(model)[0]
	switch cls {
	case "unsupported", "excluded", "fuel", "model-timeout":
		why := ""
		if f := strings.Fields(model); len(f) > 1 {
			why = ":" + f[1]
			if len(why) > 48 {
				why = why[:48]
			}
		}
		return "skip:" + cls + why, model, "", nil
	}
	impl, out := VMRealRun(c, mkInputs(), maxAllocs, ng, keep, 5*time.Second)
	if out.TimedOut {
		return "skip:real-timeout", model, impl, nil
	}
	if cls == "panic" && strings.HasPrefix(impl, "panic ") {
		// the text of a Go run-time panic is not modelled; everything after it is compared
		mf, rf := strings.Fields(model), strings.Fields(impl)
		if len(mf) > 2 && len(rf) > 2 && strings.Join(mf[2:], " ") == strings.Join(rf[2:], " ") {
			return "agree", model, impl, nil
		}
		return "differ", model, impl, nil
	}
	if model == impl {
		return "agree", model, impl, nil
	}
	return "differ", model, impl, nil
}

// VMDiff shows a around the first token where a and b differ.
func VMDiff(a, b string) string {
	af, bf := strings.Fields(a), strings.Fields(b)
	i := 0
	for i < len(af) && i < len(bf) && af[i] == bf[i] {
		i++
	}
	lo := i - 6
	if lo < 0 {
		lo = 0
	}
	hi := i + 12
	if hi > len(af) {
		hi = len(af)
	}
	head := ""
	if len(af) > 0 {
		head = af[0]
	}
	return fmt.Sprintf("%s … [token %d] %s", head, i, strings.Join(af[lo:hi], " "))
}

// VMStream is the `vm` correspondence stream shared by the harnesses: compiled code is run on the real VM and on
// the Lean VM model (Tengo.Model.VM) under each budget and compared in lock step (every dispatched instruction:
// function, ip, sp, bp, frame index, allocation counter; outcome, error text, every global slot).
func VMStream(res *Result, d *Driver, c *Compiled, key string, mk func() map[string]tengo.Object, budgets []int64, input func(budget int64) interface{}) error {
	if d == nil || c == nil || c.BC == nil {
		return nil
	}
	for _, b := range budgets {
		st, model, impl, err := VMCompare(d, c, mk, b)
		if err != nil {
			return err
		}
		res.ModelLines++
		res.Dist("vm:" + st)
		if b >= 0 {
			res.Dist("vm-budget:" + strings.Fields(impl + " -")[0])
		}
		switch st {
		case "agree":
			res.Count("vm", fmt.Sprintf("%d|%s", b, key), len(c.BC.MainFunction.Instructions) > 40)
		case "differ":
			res.Disagree(Disagreement{Stream: "vm", Input: input(b), Model: VMDiff(model, impl), Impl: VMDiff(impl, model)})
		}
	}
	return nil
}

// VMVerifyProgLine builds the `verifyprog` driver line (whole-program verifier, Tengo.Model.VM.verifyProgram):
// only the shape of the constant pool matters, value constants travel as `(v u)`.
func VMVerifyProgLine(bc *tengo.Bytecode, globalsSize int) string {
	consts := make([]string, len(bc.Constants))
	for i, k := range bc.Constants {
		if f, ok := k.(*tengo.CompiledFunction); ok {
			consts[i] = vmFnSexp(f)
		} else {
			consts[i] = "(v u)"
		}
	}
	return L("verifyprog", N(globalsSize), "("+strings.Join(consts, " ")+")", vmFnSexp(bc.MainFunction))
}

// RenumLine builds the `renum` driver line: is `o` the program `u` with its constant pool renumbered by `cm`
// (constant k of u is constant cm[k] of o) and the first operand of every CONST / CLOSURE rewritten accordingly
// (Tengo.Model.VM.checkRenum; a passed check gives corresponding runs of the whole-VM model for every input,
// Tengo.Props.C12VM)? `cm` is untrusted by the model. ok=false: a constant the model cannot hold, a function
// constant that occurs twice in `u` (the wire format has no pointer sharing), or too large for the quadratic check.
func RenumLine(u, o *tengo.Bytecode, cm []int, maxBytes, maxConsts int) (string, bool) {
	if len(u.Constants) > maxConsts || len(cm) != len(u.Constants) {
		return "", false
	}
	total := 0
	seen := map[*tengo.CompiledFunction]bool{}
	for _, f := range Functions(u) {
		total += len(f.Instructions)
		if seen[f] {
			return "", false
		}
		seen[f] = true
	}
	if total > maxBytes {
		return "", false
	}
	cu, ok1 := vmConstsSexp(u)
	co, ok2 := vmConstsSexp(o)
	if !ok1 || !ok2 {
		return "", false
	}
	idx := make([]string, len(cm))
	for i, j := range cm {
		idx[i] = N(j)
	}
	return L("renum", cu, vmFnSexp(u.MainFunction), co, vmFnSexp(o.MainFunction), "("+strings.Join(idx, " ")+")"), true
}

package lib

import (
	"bufio"
	"fmt"
	"io"
	"os"
	"os/exec"
	"strings"
)

// Driver talks to the compiled Lean model over the line protocol.
type Driver struct {
	cmd *exec.Cmd
	in  io.WriteCloser
	out *bufio.Reader
	N   int // lines exchanged
}

// StartDriver launches the Lean driver binary. path=="" returns nil (the
// harness then runs its real-code searchers only).
func StartDriver(path string) (*Driver, error) {
	if path == "" {
		return nil, nil
	}
	if _, err := os.Stat(path); err != nil {
		return nil, err
	}
	cmd := exec.Command(path)
	in, err := cmd.StdinPipe()
	if err != nil {
		return nil, err
	}
	out, err := cmd.StdoutPipe()
	if err != nil {
		return nil, err
	}
	cmd.Stderr = os.Stderr
	if err := cmd.Start(); err != nil {
		return nil, err
	}
	return &Driver{cmd: cmd, in: in, out: bufio.NewReaderSize(out, 1<<20)}, nil
}

// Ask sends one line and returns the model's answer line.
func (d *Driver) Ask(line string) (string, error) {
	if strings.ContainsAny(line, "\n\r") {
		return "", fmt.Errorf("line contains newline")
	}
	if _, err := io.WriteString(d.in, line+"\n"); err != nil {
		return "", err
	}
	d.N++
	ans, err := d.out.ReadString('\n')
	if err != nil {
		return "", fmt.Errorf("driver died: %v", err)
	}
	return strings.TrimRight(ans, "\n"), nil
}

// Batch sends many lines (pipelined in chunks) and returns the answers.
func (d *Driver) Batch(lines []string) ([]string, error) {
	res := make([]string, 0, len(lines))
	const chunk = 256
	for i := 0; i < len(lines); i += chunk {
		j := i + chunk
		if j > len(lines) {
			j = len(lines)
		}
		errc := make(chan error, 1)
		go func(part []string) {
			var sb strings.Builder
			for _, l := range part {
				sb.WriteString(l)
				sb.WriteByte('\n')
			}
			_, err := io.WriteString(d.in, sb.String())
			errc <- err
		}(lines[i:j])
		for k := i; k < j; k++ {
			ans, err := d.out.ReadString('\n')
			if err != nil {
				return res, fmt.Errorf("driver died: %v", err)
			}
			res = append(res, strings.TrimRight(ans, "\n"))
			d.N++
		}
		if err := <-errc; err != nil {
			return res, err
		}
	}
	return res, nil
}

func (d *Driver) Close() {
	if d == nil {
		return
	}
	_ = d.in.Close()
	_ = d.cmd.Wait()
}

package lib

import (
	"bufio"
	"fmt"
	"io"
	"os"
	"os/exec"
	"strings"
	"time"
)

// Driver talks to the compiled Lean model over the line protocol.
type Driver struct {
	cmd  *exec.Cmd
	in   io.WriteCloser
	out  *bufio.Reader
	path string
	N    int // lines exchanged
	// Timeout bounds one Ask (0 = 60 s). On expiry the driver process is killed and restarted and
	// Ask answers "model-timeout".
	Timeout time.Duration
}

// StartDriver launches the Lean driver binary. path=="" returns nil (the
// harness then runs its real-code searchers only).
func StartDriver(path string) (*Driver, error) {
	if path == "" {
		return nil, nil
	}
	if _, err := os.Stat(path); err != nil {
		return nil, err
	}
	d := &Driver{path: path}
	if err := d.start(); err != nil {
		return nil, err
	}
	return d, nil
}

func (d *Driver) start() error {
	cmd := exec.Command(d.path)
	in, err := cmd.StdinPipe()
	if err != nil {
		return err
	}
	out, err := cmd.StdoutPipe()
	if err != nil {
		return err
	}
	cmd.Stderr = os.Stderr
	if err := cmd.Start(); err != nil {
		return err
	}
	d.cmd, d.in, d.out = cmd, in, bufio.NewReaderSize(out, 1<<20)
	return nil
}

// Ask sends one line and returns the model's answer line.
func (d *Driver) Ask(line string) (string, error) {
	if strings.ContainsAny(line, "\n\r") {
		return "", fmt.Errorf("line contains newline")
	}
	if _, err := io.WriteString(d.in, line+"\n"); err != nil {
		return "", err
	}
	d.N++
	type reply struct {
		s   string
		err error
	}
	ch := make(chan reply, 1)
	out := d.out
	go func() {
		ans, err := out.ReadString('\n')
		ch <- reply{ans, err}
	}()
	to := d.Timeout
	if to == 0 {
		to = 60 * time.Second
	}
	select {
	case r := <-ch:
		if r.err != nil {
			return "", fmt.Errorf("driver died: %v", r.err)
		}
		return strings.TrimRight(r.s, "\n"), nil
	case <-time.After(to):
		_ = d.cmd.Process.Kill()
		_ = d.cmd.Wait()
		if err := d.start(); err != nil {
			return "", err
		}
		return "model-timeout", nil
	}
}

// Batch sends many lines (pipelined in chunks) and returns the answers.
func (d *Driver) Batch(lines []string) ([]string, error) {
	res := make([]string, 0, len(lines))
	const chunk = 256
	for i := 0; i < len(lines); i += chunk {
		j := i + chunk
		if j > len(lines) {
			j = len(lines)
		}
		errc := make(chan error, 1)
		go func(part []string) {
			var sb strings.Builder
			for _, l := range part {
				sb.WriteString(l)
				sb.WriteByte('\n')
			}
			_, err := io.WriteString(d.in, sb.String())
			errc <- err
		}(lines[i:j])
		for k := i; k < j; k++ {
			ans, err := d.out.ReadString('\n')
			if err != nil {
				return res, fmt.Errorf("driver died: %v", err)
			}
			res = append(res, strings.TrimRight(ans, "\n"))
			d.N++
		}
		if err := <-errc; err != nil {
			return res, err
		}
	}
	return res, nil
}

func (d *Driver) Close() {
	if d == nil {
		return
	}
	_ = d.in.Close()
	_ = d.cmd.Wait()
}

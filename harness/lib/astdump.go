package lib

import (
	"math"
	"strings"

	"github.com/d5/tengo/v2/parser"
	"github.com/d5/tengo/v2/token"
)

// TokName maps a token to the name of its Go constant (atoms of the protocol
// must not contain parentheses or spaces).
var TokName = map[token.Token]string{
	token.Illegal: "Illegal", token.EOF: "EOF", token.Comment: "Comment", token.Ident: "Ident", token.Int: "Int",
	token.Float: "Float", token.Char: "Char", token.String: "String",
	token.Add: "Add", token.Sub: "Sub", token.Mul: "Mul", token.Quo: "Quo", token.Rem: "Rem", token.And: "And",
	token.Or: "Or", token.Xor: "Xor", token.Shl: "Shl", token.Shr: "Shr", token.AndNot: "AndNot",
	token.AddAssign: "AddAssign", token.SubAssign: "SubAssign", token.MulAssign: "MulAssign",
	token.QuoAssign: "QuoAssign", token.RemAssign: "RemAssign", token.AndAssign: "AndAssign",
	token.OrAssign: "OrAssign", token.XorAssign: "XorAssign", token.ShlAssign: "ShlAssign",
	token.ShrAssign: "ShrAssign", token.AndNotAssign: "AndNotAssign", token.LAnd: "LAnd", token.LOr: "LOr",
	token.Inc: "Inc", token.Dec: "Dec", token.Equal: "Equal", token.Less: "Less", token.Greater: "Greater",
	token.Assign: "Assign", token.Not: "Not", token.NotEqual: "NotEqual", token.LessEq: "LessEq",
	token.GreaterEq: "GreaterEq", token.Define: "Define", token.Ellipsis: "Ellipsis", token.LParen: "LParen",
	token.LBrack: "LBrack", token.LBrace: "LBrace", token.Comma: "Comma", token.Period: "Period",
	token.RParen: "RParen", token.RBrack: "RBrack", token.RBrace: "RBrace", token.Semicolon: "Semicolon",
	token.Colon: "Colon", token.Question: "Question", token.Break: "Break", token.Continue: "Continue",
	token.Else: "Else", token.For: "For", token.Func: "Func", token.Error: "Error", token.Immutable: "Immutable",
	token.If: "If", token.Return: "Return", token.Export: "Export", token.True: "True", token.False: "False",
	token.In: "In", token.Undefined: "Undefined", token.Import: "Import",
}

func tokName(t token.Token) string {
	if s, ok := TokName[t]; ok {
		return s
	}
	return "Tok" + N(int(t))
}

// ASTDumper renders the real parser's AST as the S-expression of DESIGN.md
// Appendix A. With Pos=false positions are omitted (every `pos` field is
// dropped), which is the form the reference semantics consumes.
type ASTDumper struct {
	Pos bool
}

func (d ASTDumper) p(ps ...parser.Pos) string {
	if !d.Pos {
		return ""
	}
	s := make([]string, len(ps))
	for i, x := range ps {
		s[i] = N(int(x))
	}
	return " " + strings.Join(s, " ")
}

func (d ASTDumper) File(f *parser.File) string {
	return "(file " + d.Stmts(f.Stmts) + ")"
}

func (d ASTDumper) Stmts(ss []parser.Stmt) string {
	out := make([]string, len(ss))
	for i, s := range ss {
		out[i] = d.Stmt(s)
	}
	return "(" + strings.Join(out, " ") + ")"
}

func (d ASTDumper) optStmt(s parser.Stmt) string {
	if s == nil {
		return "nil"
	}
	return d.Stmt(s)
}

func (d ASTDumper) optExpr(e parser.Expr) string {
	if e == nil {
		return "nil"
	}
	return d.Expr(e)
}

func (d ASTDumper) Exprs(es []parser.Expr) string {
	out := make([]string, len(es))
	for i, e := range es {
		out[i] = d.Expr(e)
	}
	return "(" + strings.Join(out, " ") + ")"
}

func (d ASTDumper) Stmt(s parser.Stmt) string {
	switch s := s.(type) {
	case *parser.ExprStmt:
		return "(expr " + d.Expr(s.Expr) + ")"
	case *parser.AssignStmt:
		return "(assign " + tokName(s.Token) + d.p(s.TokenPos) + " " + d.Exprs(s.LHS) + " " + d.Exprs(s.RHS) + ")"
	case *parser.IncDecStmt:
		return "(incdec " + tokName(s.Token) + d.p(s.TokenPos) + " " + d.Expr(s.Expr) + ")"
	case *parser.IfStmt:
		return "(if" + d.p(s.IfPos) + " " + d.optStmt(s.Init) + " " + d.optExpr(s.Cond) + " " + d.Block(s.Body) + " " + d.optStmt(s.Else) + ")"
	case *parser.ForStmt:
		return "(for" + d.p(s.ForPos) + " " + d.optStmt(s.Init) + " " + d.optExpr(s.Cond) + " " + d.optStmt(s.Post) + " " + d.Block(s.Body) + ")"
	case *parser.ForInStmt:
		return "(forin" + d.p(s.ForPos) + " " + d.ident(s.Key) + " " + d.ident(s.Value) + " " + d.Expr(s.Iterable) + " " + d.Block(s.Body) + ")"
	case *parser.BlockStmt:
		return d.Block(s)
	case *parser.BranchStmt:
		l := "nil"
		if s.Label != nil {
			l = d.ident(s.Label)
		}
		return "(branch " + tokName(s.Token) + d.p(s.TokenPos) + " " + l + ")"
	case *parser.ReturnStmt:
		return "(return" + d.p(s.ReturnPos) + " " + d.optExpr(s.Result) + ")"
	case *parser.ExportStmt:
		return "(export" + d.p(s.ExportPos) + " " + d.optExpr(s.Result) + ")"
	case *parser.EmptyStmt:
		return "(empty" + d.p(s.Semicolon) + " " + B(s.Implicit) + ")"
	case *parser.BadStmt:
		return "(badstmt" + d.p(s.From, s.To) + ")"
	}
	return "(unknownstmt)"
}

func (d ASTDumper) Block(b *parser.BlockStmt) string {
	if b == nil {
		return "nil"
	}
	return "(block" + d.p(b.LBrace, b.RBrace) + " " + d.Stmts(b.Stmts) + ")"
}

func (d ASTDumper) ident(i *parser.Ident) string {
	if i == nil {
		return "nil"
	}
	return "(ident" + d.p(i.NamePos) + " " + HexS(i.Name) + ")"
}

func (d ASTDumper) Expr(e parser.Expr) string {
	switch e := e.(type) {
	case *parser.Ident:
		return d.ident(e)
	case *parser.IntLit:
		return "(int" + d.p(e.ValuePos) + " " + I(e.Value) + " " + HexS(e.Literal) + ")"
	case *parser.FloatLit:
		return "(float" + d.p(e.ValuePos) + " " + U(math.Float64bits(e.Value)) + " " + HexS(e.Literal) + ")"
	case *parser.CharLit:
		return "(char" + d.p(e.ValuePos) + " " + I(int64(e.Value)) + " " + HexS(e.Literal) + ")"
	case *parser.StringLit:
		return "(str" + d.p(e.ValuePos) + " " + HexS(e.Value) + " " + HexS(e.Literal) + ")"
	case *parser.BoolLit:
		return "(bool" + d.p(e.ValuePos) + " " + B(e.Value) + ")"
	case *parser.UndefinedLit:
		return "(undef" + d.p(e.TokenPos) + ")"
	case *parser.BinaryExpr:
		return "(bin " + tokName(e.Token) + d.p(e.TokenPos) + " " + d.Expr(e.LHS) + " " + d.Expr(e.RHS) + ")"
	case *parser.UnaryExpr:
		return "(un " + tokName(e.Token) + d.p(e.TokenPos) + " " + d.Expr(e.Expr) + ")"
	case *parser.CondExpr:
		return "(cond" + d.p(e.QuestionPos, e.ColonPos) + " " + d.Expr(e.Cond) + " " + d.Expr(e.True) + " " + d.Expr(e.False) + ")"
	case *parser.ParenExpr:
		return "(paren" + d.p(e.LParen, e.RParen) + " " + d.Expr(e.Expr) + ")"
	case *parser.ArrayLit:
		return "(arr" + d.p(e.LBrack, e.RBrack) + " " + d.Exprs(e.Elements) + ")"
	case *parser.MapLit:
		out := make([]string, len(e.Elements))
		for i, m := range e.Elements {
			out[i] = "(" + HexS(m.Key) + d.p(m.KeyPos, m.ColonPos) + " " + d.Expr(m.Value) + ")"
		}
		return "(map" + d.p(e.LBrace, e.RBrace) + " (" + strings.Join(out, " ") + "))"
	case *parser.SelectorExpr:
		return "(sel " + d.Expr(e.Expr) + " " + d.Expr(e.Sel) + ")"
	case *parser.IndexExpr:
		return "(idx" + d.p(e.LBrack, e.RBrack) + " " + d.Expr(e.Expr) + " " + d.optExpr(e.Index) + ")"
	case *parser.SliceExpr:
		return "(slice" + d.p(e.LBrack, e.RBrack) + " " + d.Expr(e.Expr) + " " + d.optExpr(e.Low) + " " + d.optExpr(e.High) + ")"
	case *parser.CallExpr:
		ell := "0"
		if e.Ellipsis.IsValid() {
			ell = "1"
		}
		if d.Pos {
			ell = N(int(e.Ellipsis))
		}
		return "(call" + d.p(e.LParen, e.RParen) + " " + ell + " " + d.Expr(e.Func) + " " + d.Exprs(e.Args) + ")"
	case *parser.FuncLit:
		ps := make([]string, len(e.Type.Params.List))
		for i, p := range e.Type.Params.List {
			ps[i] = d.ident(p)
		}
		return "(func" + d.p(e.Type.FuncPos, e.Type.Params.LParen, e.Type.Params.RParen) + " " + B(e.Type.Params.VarArgs) + " (" + strings.Join(ps, " ") + ") " + d.Block(e.Body) + ")"
	case *parser.ImportExpr:
		return "(import" + d.p(e.TokenPos) + " " + HexS(e.ModuleName) + ")"
	case *parser.ErrorExpr:
		return "(error" + d.p(e.ErrorPos, e.LParen, e.RParen) + " " + d.Expr(e.Expr) + ")"
	case *parser.ImmutableExpr:
		return "(immutable" + d.p(e.ErrorPos, e.LParen, e.RParen) + " " + d.Expr(e.Expr) + ")"
	case *parser.BadExpr:
		return "(bad" + d.p(e.From, e.To) + ")"
	}
	return "(unknownexpr)"
}

// ParseSource parses src with the real parser.
func ParseSource(name string, src []byte) (*parser.File, *parser.SourceFileSet, error) {
	fs := parser.NewFileSet()
	sf := fs.AddFile(name, -1, len(src))
	p := parser.NewParser(sf, src, nil)
	f, err := p.ParseFile()
	return f, fs, err
}

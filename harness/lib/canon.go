package lib

import (
	"math"
	"sort"
	"strings"

	"github.com/d5/tengo/v2"
)

// Canon renders a tengo value as the canonical S-expression of DESIGN.md
// Appendix A: maps sorted by key, floats by bit pattern (NaNs collapsed),
// cycle guard `(cyc k)`.
func Canon(o tengo.Object) string {
	return canon(o, nil)
}

func canon(o tengo.Object, path []tengo.Object) string {
	for i, p := range path {
		if p == o {
			switch o.(type) {
			case *tengo.Array, *tengo.Map, *tengo.ImmutableArray, *tengo.ImmutableMap, *tengo.Error:
				return "(cyc " + N(len(path)-i) + ")"
			}
		}
	}
	if len(path) > 200 {
		return "(deep)"
	}
	switch v := o.(type) {
	case nil:
		return "nil"
	case *tengo.Undefined:
		return "u"
	case *tengo.Bool:
		return "(b " + B(!v.IsFalsy()) + ")"
	case *tengo.Int:
		return "(i " + I(v.Value) + ")"
	case *tengo.Float:
		bits := math.Float64bits(v.Value)
		if v.Value != v.Value {
			bits = 0x7ff8000000000001
		}
		return "(f " + U(bits) + ")"
	case *tengo.Char:
		return "(c " + I(int64(v.Value)) + ")"
	case *tengo.String:
		return "(s " + HexS(v.Value) + ")"
	case *tengo.Bytes:
		return "(y " + Hex(v.Value) + ")"
	case *tengo.Time:
		return "(t " + I(v.Value.UnixNano()) + ")"
	case *tengo.Array:
		return "(a" + canonList(v.Value, append(path, o)) + ")"
	case *tengo.ImmutableArray:
		return "(ia" + canonList(v.Value, append(path, o)) + ")"
	case *tengo.Map:
		return "(m" + canonMap(v.Value, append(path, o)) + ")"
	case *tengo.ImmutableMap:
		return "(im" + canonMap(v.Value, append(path, o)) + ")"
	case *tengo.Error:
		return "(e " + canon(v.Value, append(path, o)) + ")"
	case *tengo.CompiledFunction:
		return "(fn)"
	case *tengo.BuiltinFunction:
		return "(bf " + HexS(v.Name) + ")"
	case *tengo.UserFunction:
		return "(uf)"
	case *tengo.ObjectPtr:
		if v.Value == nil {
			return "(ptr nil)"
		}
		return "(ptr " + canon(*v.Value, append(path, o)) + ")"
	}
	return "(other " + HexS(o.TypeName()) + ")"
}

func canonList(xs []tengo.Object, path []tengo.Object) string {
	var sb strings.Builder
	for _, x := range xs {
		sb.WriteByte(' ')
		sb.WriteString(canon(x, path))
	}
	return sb.String()
}

func canonMap(m map[string]tengo.Object, path []tengo.Object) string {
	keys := make([]string, 0, len(m))
	for k := range m {
		keys = append(keys, k)
	}
	sort.Strings(keys)
	var sb strings.Builder
	for _, k := range keys {
		sb.WriteString(" (" + HexS(k) + " " + canon(m[k], path) + ")")
	}
	return sb.String()
}

package lib

import (
	"fmt"
	"time"
)

// Outcome of a guarded call of real code.
type Guarded struct {
	Panicked bool
	PanicVal string
	TimedOut bool
}

// Guard runs f with recover and a watchdog. On timeout the goroutine is
// abandoned (the caller must treat the process as tainted for timing).
func Guard(timeout time.Duration, f func()) Guarded {
	done := make(chan Guarded, 1)
	go func() {
		var g Guarded
		defer func() {
			if p := recover(); p != nil {
				g.Panicked = true
				g.PanicVal = fmt.Sprint(p)
			}
			done <- g
		}()
		f()
	}()
	select {
	case g := <-done:
		return g
	case <-time.After(timeout):
		return Guarded{TimedOut: true}
	}
}

package lib

import (
	"fmt"
	"runtime/debug"
	"runtime/metrics"
	"sort"
	"strings"
	"time"

	"github.com/d5/tengo/v2"
	"github.com/d5/tengo/v2/parser"
)

// Compiled is the output of the real compiler used directly (no constant
// de-duplication, deterministic symbol order).
type Compiled struct {
	BC      *tengo.Bytecode
	Symbols *tengo.SymbolTable
	FileSet *parser.SourceFileSet
	File    *parser.File
}

// CompileOpts configures CompileSource.
type CompileOpts struct {
	Modules     *tengo.ModuleMap
	Inputs      []string // pre-declared global names, in order
	FileImport  bool
	ImportDir   string
	KeepDead    bool // compile with the keep-dead-code hook on
	RemoveDups  bool
	SkipCompile bool
	OptInputs   *[]OptInput // when set, receives every optimizeFunc input of this compile
}

// OptInput is what optimizeFunc was handed for one function.
type OptInput struct {
	Insts  []byte
	SrcMap map[int]parser.Pos
	Node   parser.Node
}

// CompileSource parses and compiles src with the real parser and compiler.
// A panic of the real code is returned as an error with prefix "PANIC: ".
func CompileSource(src []byte, o CompileOpts) (res *Compiled, err error) {
	defer func() {
		if p := recover(); p != nil {
			err = fmt.Errorf("PANIC: %v", p)
		}
	}()
	saved := tengo.VerifKeepDeadCode
	tengo.VerifKeepDeadCode = o.KeepDead
	defer func() { tengo.VerifKeepDeadCode = saved }()

	if o.OptInputs != nil {
		tengo.VerifOptInput = func(insts []byte, sm map[int]parser.Pos, node parser.Node) {
			*o.OptInputs = append(*o.OptInputs, OptInput{insts, sm, node})
		}
		defer func() { tengo.VerifOptInput = nil }()
	}
	fs := parser.NewFileSet()
	sf := fs.AddFile("(main)", -1, len(src))
	p := parser.NewParser(sf, src, nil)
	file, err := p.ParseFile()
	if err != nil {
		return nil, err
	}
	st := tengo.NewSymbolTable()
	for idx, fn := range tengo.GetAllBuiltinFunctions() {
		st.DefineBuiltin(idx, fn.Name)
	}
	for _, n := range o.Inputs {
		st.Define(n)
	}
	res = &Compiled{Symbols: st, FileSet: fs, File: file}
	if o.SkipCompile {
		return res, nil
	}
	c := tengo.NewCompiler(sf, st, nil, o.Modules, nil)
	c.EnableFileImport(o.FileImport)
	if o.ImportDir != "" {
		c.SetImportDir(o.ImportDir)
	}
	if err := c.Compile(file); err != nil {
		return nil, err
	}
	res.BC = c.Bytecode()
	if o.RemoveDups {
		res.BC.RemoveDuplicates()
	}
	return res, nil
}

// RunOutcome is the canonical observable result of one run.
type RunOutcome struct {
	Err      string // "" when the run succeeded; the full error text otherwise
	Panic    string // Go panic value recovered around VM.Run
	TimedOut bool
	MemGuard bool // aborted by the memory guard (TimedOut is set too)
	Globals  map[string]string // canonical value per global name
	SP       int
	Steps    int
	Slots    []string // canonical value of every global slot up to the last used one ("nil" = never written)
}

func (o RunOutcome) String() string {
	names := make([]string, 0, len(o.Globals))
	for n := range o.Globals {
		names = append(names, n)
	}
	sort.Strings(names)
	var sb strings.Builder
	switch {
	case o.TimedOut:
		sb.WriteString("timeout")
	case o.Panic != "":
		sb.WriteString("panic " + o.Panic)
	case o.Err != "":
		sb.WriteString("err " + o.Err)
	default:
		sb.WriteString("ok")
	}
	for _, n := range names {
		sb.WriteString(" " + n + "=" + o.Globals[n])
	}
	return sb.String()
}

// memory guard of RunBytecode (see there)
var memGuardBytes uint64 = 3 << 30

// MemGuardHits counts the runs the memory guard aborted.
var MemGuardHits int

func heapBytes() uint64 {
	s := []metrics.Sample{{Name: "/memory/classes/heap/objects:bytes"}}
	metrics.Read(s)
	if s[0].Value.Kind() != metrics.KindUint64 {
		return 0
	}
	return s[0].Value.Uint64()
}

// sizeWithin walks a value and charges its size to *budget; false when the budget is exhausted.
func sizeWithin(o tengo.Object, budget *int64, depth int) bool {
	if depth > 64 {
		return true
	}
	*budget -= 16
	switch v := o.(type) {
	case *tengo.String:
		*budget -= int64(len(v.Value))
	case *tengo.Bytes:
		*budget -= int64(len(v.Value))
	case *tengo.Array:
		for _, e := range v.Value {
			if *budget < 0 || !sizeWithin(e, budget, depth+1) {
				return false
			}
		}
	case *tengo.ImmutableArray:
		for _, e := range v.Value {
			if *budget < 0 || !sizeWithin(e, budget, depth+1) {
				return false
			}
		}
	case *tengo.Map:
		for k, e := range v.Value {
			*budget -= int64(len(k))
			if *budget < 0 || !sizeWithin(e, budget, depth+1) {
				return false
			}
		}
	case *tengo.ImmutableMap:
		for k, e := range v.Value {
			*budget -= int64(len(k))
			if *budget < 0 || !sizeWithin(e, budget, depth+1) {
				return false
			}
		}
	case *tengo.Error:
		if v.Value != nil {
			return sizeWithin(v.Value, budget, depth+1)
		}
	}
	return *budget >= 0
}

// RunOpts configures RunBytecode.
type RunOpts struct {
	MaxAllocs int64
	ZeroAllocs bool // MaxAllocs == 0 means a budget of zero (default: 0 = unlimited)
	Timeout   time.Duration
	Inputs    map[string]tengo.Object
	Probe     func(v *tengo.VM, fn *tengo.CompiledFunction, ip, sp, bp, fi int, allocs int64)
}

// RunBytecode runs compiled code on a fresh VM and snapshots the globals.
func RunBytecode(c *Compiled, o RunOpts) RunOutcome {
	if o.Timeout == 0 {
		o.Timeout = 5 * time.Second
	}
	if o.MaxAllocs == 0 && !o.ZeroAllocs {
		o.MaxAllocs = -1
	}
	globals := make([]tengo.Object, tengo.GlobalsSize)
	idx := map[string]int{}
	for _, name := range c.Symbols.Names() {
		sym, _, ok := c.Symbols.Resolve(name, false)
		if ok && sym.Scope == tengo.ScopeGlobal {
			idx[name] = sym.Index
			if v, has := o.Inputs[name]; has {
				globals[sym.Index] = v
			}
		}
	}
	vm := tengo.NewVM(c.BC, globals, o.MaxAllocs)
	var out RunOutcome
	steps := 0
	if o.Probe != nil {
		tengo.VerifProbe = func(v *tengo.VM, fn *tengo.CompiledFunction, ip, sp, bp, fi int, allocs int64) {
			if v == vm {
				steps++
				o.Probe(v, fn, ip, sp, bp, fi, allocs)
			}
		}
		defer func() { tengo.VerifProbe = nil }()
	}
	done := make(chan struct{})
	go func() {
		defer close(done)
		defer func() {
			if p := recover(); p != nil {
				out.Panic = fmt.Sprint(p)
			}
		}()
		if err := vm.Run(); err != nil {
			out.Err = err.Error()
		}
	}()
	timer := time.NewTimer(o.Timeout)
	tick := time.NewTicker(20 * time.Millisecond)
wait:
	for {
		select {
		case <-done:
			break wait
		case <-timer.C:
			vm.Abort()
			<-done
			out.TimedOut = true
			break wait
		case <-tick.C:
			// memory guard: a program that doubles a container in a loop can allocate tens of gigabytes within
			// the timeout; such a run is treated like a timeout (skipped), it is not an outcome to compare
			if heapBytes() > memGuardBytes {
				vm.Abort()
				<-done
				out.TimedOut = true
				out.MemGuard = true
				MemGuardHits++
				break wait
			}
		}
	}
	timer.Stop()
	tick.Stop()
	out.Steps = steps
	out.SP, _, _ = vm.VerifState()
	if out.MemGuard {
		// the globals of such a run are not compared (and are huge)
		for i := range globals {
			globals[i] = nil
		}
		debug.FreeOSMemory()
		out.Globals = map[string]string{}
		return out
	}
	// values too large to canonicalise (a string doubled thirty times): the run is treated like a timeout
	budget := int64(64 << 20)
	for _, g := range globals {
		if g != nil && !sizeWithin(g, &budget, 0) {
			out.TimedOut, out.MemGuard = true, true
			MemGuardHits++
			for i := range globals {
				globals[i] = nil
			}
			debug.FreeOSMemory()
			out.Globals = map[string]string{}
			return out
		}
	}
	last := -1
	for i, g := range globals {
		if g != nil {
			last = i
		}
	}
	for i := 0; i <= last; i++ {
		out.Slots = append(out.Slots, Canon(globals[i]))
	}
	out.Globals = map[string]string{}
	for n, i := range idx {
		if globals[i] != nil {
			out.Globals[n] = Canon(globals[i])
		}
	}
	return out
}

// Functions lists the compiled functions of a bytecode: main first, then every
// function constant in constant-pool order.
func Functions(bc *tengo.Bytecode) []*tengo.CompiledFunction {
	fns := []*tengo.CompiledFunction{bc.MainFunction}
	for _, k := range bc.Constants {
		if f, ok := k.(*tengo.CompiledFunction); ok {
			fns = append(fns, f)
		}
	}
	return fns
}

// SrcMapSexp renders a source map sorted by offset.
func SrcMapSexp(m map[int]parser.Pos) string {
	keys := make([]int, 0, len(m))
	for k := range m {
		keys = append(keys, k)
	}
	sort.Ints(keys)
	parts := make([]string, len(keys))
	for i, k := range keys {
		parts[i] = "(" + N(k) + " " + N(int(m[k])) + ")"
	}
	return "(" + strings.Join(parts, " ") + ")"
}

// DInstr is a decoded instruction (harness-side decoder, independent of the model).
type DInstr struct {
	Pos  int
	Op   byte
	Args []int
	Len  int
}

// Decode decodes an instruction stream with the real operand table.
func Decode(b []byte) (out []DInstr, err error) {
	defer func() {
		if p := recover(); p != nil {
			err = fmt.Errorf("decode panic: %v", p)
		}
	}()
	for i := 0; i < len(b); {
		w := parser.OpcodeOperands[b[i]]
		ops, n := parser.ReadOperands(w, b[i+1:])
		out = append(out, DInstr{Pos: i, Op: b[i], Args: ops, Len: 1 + n})
		i += 1 + n
	}
	return out, nil
}

package lib

import (
	"crypto/sha256"
	"encoding/hex"
	"encoding/json"
	"flag"
	"fmt"
	"os"
	"sort"
	"strconv"
	"time"
)

// Violation: a concrete input on which the PROPERTY fails on the real code.
type Violation struct {
	Signature string      `json:"signature"` // stable class of the failure (matched against known_findings.json)
	Stream    string      `json:"stream"`
	Input     interface{} `json:"input"`
	Observed  string      `json:"observed"`
	Expected  string      `json:"expected"`
	Oracle    string      `json:"oracle"`
}

// Disagreement: model and implementation answered differently on an input
// (a broken correspondence; not by itself a violation of the property).
type Disagreement struct {
	Stream string      `json:"stream"`
	Input  interface{} `json:"input"`
	Model  string      `json:"model"`
	Impl   string      `json:"impl"`
}

// Result is what a harness command hands to ./check.
type Result struct {
	Property      string                 `json:"property"`
	Tier          string                 `json:"tier"`
	Seed          uint64                 `json:"seed"`
	Evaluations   int                    `json:"evaluations"`
	Distinct      int                    `json:"distinct_nontrivial"`
	Rule          string                 `json:"rule"`
	Samples       []interface{}          `json:"samples"`
	Skipped       int                    `json:"skipped_unsupported"`
	ModelLines    int                    `json:"model_lines_compared"`
	Exhaustive    bool                   `json:"exhaustive,omitempty"`
	Distribution  map[string]int         `json:"distribution"`
	Streams       map[string]int         `json:"streams"`
	Violations    []Violation            `json:"violations"`
	Disagreements []Disagreement         `json:"disagreements"`
	KnownHits     []string               `json:"known_probe_hits"` // known-finding probes that still fail: "<id>"
	DriverUsed    bool                   `json:"driver_used"`
	Extra         map[string]interface{} `json:"extra,omitempty"`
	WallS         float64                `json:"wall_s"`

	seen  map[string]bool
	start time.Time
}

// Flags common to every harness command.
type Flags struct {
	Tier   string
	Seed   uint64
	Driver string
	Out    string
	Replay string
	Known  string
}

func ParseFlags() *Flags {
	f := &Flags{}
	flag.StringVar(&f.Tier, "tier", "quick", "quick|thorough")
	seed := flag.String("seed", "1", "PRNG seed")
	flag.StringVar(&f.Driver, "driver", "", "path of the Lean driver binary ('' = searchers only)")
	flag.StringVar(&f.Out, "out", "", "result JSON path")
	flag.StringVar(&f.Replay, "replay", "", "replay file to re-run")
	flag.StringVar(&f.Known, "known", "", "known_findings.json")
	flag.Parse()
	s, err := strconv.ParseUint(*seed, 10, 64)
	if err != nil {
		s = 1
	}
	f.Seed = s
	return f
}

func (f *Flags) Thorough() bool { return f.Tier == "thorough" }

// Scale picks the quick or thorough count.
func (f *Flags) Scale(quick, thorough int) int {
	if f.Thorough() {
		return thorough
	}
	return quick
}

func NewResult(prop string, f *Flags) *Result {
	return &Result{Property: prop, Tier: f.Tier, Seed: f.Seed,
		Distribution: map[string]int{}, Streams: map[string]int{},
		seen: map[string]bool{}, start: time.Now(),
		Violations: []Violation{}, Disagreements: []Disagreement{}, KnownHits: []string{},
		Samples: []interface{}{}}
}

// Count records one evaluated case; key identifies the canonical input and
// nontrivial says whether it passes the property's non-triviality rule.
func (r *Result) Count(stream, key string, nontrivial bool) {
	r.Evaluations++
	r.Streams[stream]++
	if nontrivial {
		h := sha256.Sum256([]byte(stream + "\x00" + key))
		k := hex.EncodeToString(h[:8])
		if !r.seen[k] {
			r.seen[k] = true
			r.Distinct++
		}
	}
}

func (r *Result) Dist(key string) { r.Distribution[key]++ }

// Sample keeps up to max written-out cases.
func (r *Result) Sample(v interface{}, max int) {
	if len(r.Samples) < max {
		r.Samples = append(r.Samples, v)
	}
}

const maxReported = 25

func (r *Result) Violate(v Violation) {
	n := 0
	for _, p := range r.Violations {
		if p.Signature == v.Signature {
			n++
		}
	}
	if n >= 3 || len(r.Violations) >= maxReported {
		return // keep at most a few per signature
	}
	r.Violations = append(r.Violations, v)
}

func (r *Result) Disagree(d Disagreement) {
	if len(r.Disagreements) < maxReported {
		r.Disagreements = append(r.Disagreements, d)
	}
}

func (r *Result) Write(path string) {
	r.WallS = time.Since(r.start).Seconds()
	// deterministic order of maps is given by encoding/json (sorted keys)
	sort.Strings(r.KnownHits)
	b, err := json.MarshalIndent(r, "", " ")
	if err != nil {
		fmt.Fprintln(os.Stderr, "result marshal:", err)
		os.Exit(3)
	}
	if path == "" {
		os.Stdout.Write(b)
		return
	}
	if err := os.WriteFile(path, b, 0o644); err != nil {
		fmt.Fprintln(os.Stderr, "result write:", err)
		os.Exit(3)
	}
}

import Tengo.Sexp
import Tengo.Drivers.Echo
import Tengo.Drivers.C0507
import Tengo.Drivers.C03
import Tengo.Drivers.C13
import Tengo.Drivers.C09
import Tengo.Drivers.C02
import Tengo.Drivers.C01
import Tengo.Drivers.F0
import Tengo.Drivers.C12
import Tengo.Drivers.C17
import Tengo.Drivers.C18
import Tengo.Drivers.C19
import Tengo.Drivers.C10
import Tengo.Drivers.C20
import Tengo.Drivers.C15
import Tengo.Drivers.C16
import Tengo.Drivers.C11
import Tengo.Drivers.C14
import Tengo.Drivers.C06
import Tengo.Drivers.C08
import Tengo.Drivers.C04
import Tengo.Drivers.VM
import Tengo.Drivers.Comp
import Tengo.Drivers.C07VM
/-!
Line-protocol driver: one S-expression `(cmd arg…)` per input line, one answer
line per input line. The only `partial def` of the project is the IO loop.
-/
open Tengo

def allHandlers : List (String × (List Sexp → String)) :=
  Tengo.Drivers.Echo.handlers ++
  Tengo.Drivers.C0507.handlers ++
  Tengo.Drivers.C03.handlers ++
  Tengo.Drivers.C13.handlers ++
  Tengo.Drivers.C09.handlers ++
  Tengo.Drivers.C02.handlers ++
  Tengo.Drivers.C01.handlers ++
  Tengo.Drivers.F0.handlers ++
  Tengo.Drivers.C12.handlers ++
  Tengo.Drivers.C17.handlers ++
  Tengo.Drivers.C18.handlers ++
  Tengo.Drivers.C19.handlers ++
  Tengo.Drivers.C10.handlers ++
  Tengo.Drivers.C20.handlers ++
  Tengo.Drivers.C15.handlers ++
  Tengo.Drivers.C16.handlers ++
  Tengo.Drivers.C11.handlers ++
  Tengo.Drivers.C14.handlers ++
  Tengo.Drivers.VM.handlers ++
  Tengo.Drivers.C06.handlers ++
  Tengo.Drivers.C08.handlers ++
  Tengo.Drivers.C04.handlers ++
  Tengo.Drivers.Comp.handlers ++
  Tengo.Drivers.C07VM.handlers

def answer (line : String) : String :=
  match Sexp.parse line with
  | some (Sexp.list (Sexp.atom cmd :: args)) =>
    match allHandlers.lookup cmd with
    | some h => h args
    | none => "bad-op unknown-command " ++ cmd
  | _ => "bad-op unparsable"

partial def loop (inp : IO.FS.Stream) (out : IO.FS.Stream) : IO Unit := do
  let line ← inp.getLine
  if line.isEmpty then return ()
  out.putStrLn (answer line)
  out.flush
  loop inp out

def main : IO Unit := do
  loop (← IO.getStdin) (← IO.getStdout)

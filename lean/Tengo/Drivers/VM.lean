import Tengo.Sexp
import Tengo.Model.VM
import Tengo.Drivers.C01
/-!
`(vm <fuel> <keep> <maxAllocs> <nglobals> ((idx <value>)…) (<const>…) <fn>)` with
`<const>` = `(v <value>)` | `<fn>`, `<fn>` = `(fn #<insts> numLocals numParams varargs)` →

* `ok <steps> <counted> <sum> <sp> (<obs>…) (<global>…)` — `<obs>` = `f:ip:sp:bp:depth:allocs` for the
  first `keep` dispatches, `<sum>` the checksum over all of them, one `<global>` per slot `< nglobals`;
* `rerr #<msg> <steps> <counted> <sum> (<obs>…)` | `panic #<msg> <steps> <counted> <sum> (<obs>…)`;
* `unsupported <why>` | `excluded <why>` | `fuel`.
-/
namespace Tengo.Drivers.VM
open Tengo Tengo.Model.Spec Tengo.Model.VM
open Tengo.Drivers.C01 (showValue readValue hexOfString atomize)

def readFn : Sexp → Option Fn
  | .list [.atom "fn", b, nl, np, va] =>
    match b.asBytes?, nl.asNat?, np.asNat?, va.asBool? with
    | some bs, some nl, some np, some va => some { insts := bs.toArray, numLocals := nl, numParams := np, varargs := va }
    | _, _, _, _ => none
  | _ => none

def readConsts (cs : List Sexp) : M (Option (List Const × Array FnObj)) := do
  let mut out : List Const := []
  let mut fobjs : Array FnObj := #[]
  let mut k := 0
  for c in cs do
    match c with
    | .list [.atom "v", v] =>
      match ← readValue 64 v with
      | some x => out := .val x :: out
      | none => return none
    | other =>
      match readFn other with
      | some f =>
          out := .fn f fobjs.size :: out
          fobjs := fobjs.push (k, [])
      | none => return none
    k := k + 1
  return some (out.reverse, fobjs)

def readGlobals (n : Nat) (gs : List Sexp) : M (Option (Array Value)) := do
  let mut arr : Array Value := Array.replicate n .undef
  for g in gs do
    match g with
    | .list [i, v] =>
      match i.asNat?, ← readValue 64 v with
      | some i, some x => arr := arr.setIfInBounds i x
      | _, _ => return none
    | _ => return none
  return some arr

def showObs (o : Obs) : String := s!"{o.fnIdx}:{o.ip}:{o.sp}:{o.bp}:{o.depth}:{o.allocs}"

def showTrace (log : Log) : String := "(" ++ " ".intercalate (log.first.reverse.map showObs) ++ ")"

def handleVM : List Sexp → String
  | [fuel, keep, maxAllocs, ng, .list gs, .list cs, mainFn] =>
    match fuel.asNat?, keep.asNat?, maxAllocs.asInt?, ng.asNat?, readFn mainFn with
    | some fuel, some keep, some maxAllocs, some ng, some main =>
      let setup : M (Option (Array Value × List Const × Array FnObj)) := do
        match ← readGlobals ng gs, ← readConsts cs with
        | some g, some (c, fo) => pure (some (g, c, fo))
        | _, _ => pure none
      match setup.run {} with
      | .ok (some (globals, consts, fobjs), heap) =>
        let code : Code := { main := main, consts := consts.toArray }
        let (out, log) := run code keep fuel (maxAllocs + 1) ⟨initCore globals fobjs, {}, heap⟩ {}
        let tail := s!"{log.steps} {log.counted} {log.sum}"
        match out with
        | .halted cfg =>
          let gsOut := cfg.core.regs.globals.toList.map (fun v => showValue 64 cfg.heap v)
          s!"ok {tail} {cfg.core.regs.sp} " ++ showTrace log ++ " (" ++ " ".intercalate gsOut ++ ")"
        | .failed e _ =>
          match e with
          | .runtime m => "rerr #" ++ hexOfString m ++ " " ++ tail ++ " " ++ showTrace log
          | .gopanic m => "panic #" ++ hexOfString m ++ " " ++ tail ++ " " ++ showTrace log
          | .unsupported w => "unsupported " ++ atomize w
          | .excluded w => "excluded " ++ atomize w
          | .fuel => "fuel"
        | .fault ft _ =>
          match ft with
          | .unknownOpcode op => "rerr #" ++ hexOfString s!"unknown opcode: {op}" ++ " " ++ tail ++ " " ++ showTrace log
          | .notFunction _ => "rerr #" ++ hexOfString "not function: compiled-function" ++ " " ++ tail ++ " " ++ showTrace log
          | other => "panic #" ++ hexOfString (reprStr other) ++ " " ++ tail ++ " " ++ showTrace log
        | .limit _ => "rerr #" ++ hexOfString allocLimitText ++ " " ++ tail ++ " " ++ showTrace log
        | .outOfFuel _ => "fuel"
      | _ => "bad-op setup"
    | _, _, _, _, _ => "bad-op args"
  | _ => "bad-op"

def handlers : List (String × (List Sexp → String)) := [("vm", handleVM)]

end Tengo.Drivers.VM

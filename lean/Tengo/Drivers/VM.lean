import Tengo.Sexp
import Tengo.Model.VM
import Tengo.Model.VerifyProg
import Tengo.Model.RelocCheck
import Tengo.Model.RenumCheck
import Tengo.Model.DedupVM
import Tengo.Model.Optimizer
import Tengo.Proofs.C03Twin
import Tengo.Drivers.C01
/-!
`(vm <fuel> <keep> <maxAllocs> <nglobals> ((idx <value>)…) (<const>…) <fn>)` with
`<const>` = `(v <value>)` | `<fn>`, `<fn>` = `(fn #<insts> numLocals numParams varargs)` →

* `ok <steps> <counted> <sum> <sp> (<obs>…) (<global>…)` — `<obs>` = `f:ip:sp:bp:depth:allocs` for the
  first `keep` dispatches, `<sum>` the checksum over all of them, one `<global>` per slot `< nglobals`;
* `rerr #<msg> <steps> <counted> <sum> (<obs>…)` | `panic #<msg> <steps> <counted> <sum> (<obs>…)`;
* `unsupported <why>` | `excluded <why>` | `fuel`.
-/
namespace Tengo.Drivers.VM
open Tengo Tengo.Model.Spec Tengo.Model.VM
open Tengo.Drivers.C01 (showValue readValue hexOfString atomize staleValue staleText)

def readFn : Sexp → Option Fn
  | .list [.atom "fn", b, nl, np, va] =>
    match b.asBytes?, nl.asNat?, np.asNat?, va.asBool? with
    | some bs, some nl, some np, some va => some { insts := bs.toArray, numLocals := nl, numParams := np, varargs := va }
    | _, _, _, _ => none
  | _ => none

def readConsts (cs : List Sexp) : M (Option (List Const)) := do
  let mut out : List Const := []
  for c in cs do
    match c with
    | .list [.atom "v", v] =>
      match ← readValue 64 v with
      | some x => out := .val x :: out
      | none => return none
    | other =>
      match readFn other with
      | some f => out := .fn f 0 :: out       -- `ref` is assigned by `initFobjs`
      | none => return none
  return some out.reverse

def readGlobals (n : Nat) (gs : List Sexp) : M (Option (Array Value)) := do
  let mut arr : Array Value := Array.replicate n .undef
  for g in gs do
    match g with
    | .list [i, v] =>
      match i.asNat?, ← readValue 64 v with
      | some i, some x => arr := arr.setIfInBounds i x
      | _, _ => return none
    | _ => return none
  return some arr

def showObs (o : Obs) : String := s!"{o.fnIdx}:{o.ip}:{o.sp}:{o.bp}:{o.depth}:{o.allocs}"

def showTrace (log : Log) : String := "(" ++ " ".intercalate (log.first.reverse.map showObs) ++ ")"

def handleVM : List Sexp → String
  | [fuel, keep, maxAllocs, ng, .list gs, .list cs, mainFn] =>
    match fuel.asNat?, keep.asNat?, maxAllocs.asInt?, ng.asNat?, readFn mainFn with
    | some fuel, some keep, some maxAllocs, some ng, some main =>
      let setup : M (Option (Array Value × List Const)) := do
        match ← readGlobals ng gs, ← readConsts cs with
        | some g, some c => pure (some (g, c))
        | _, _ => pure none
      match setup.run {} with
      | .ok (some (globals, consts), heap) =>
        let (code, fobjs) := initFobjs { main := main, consts := consts.toArray }
        let (out, log) := run code keep fuel (maxAllocs + 1) ⟨initCore globals fobjs, {}, heap⟩ {}
        let tail := s!"{log.steps} {log.counted} {log.sum}"
        match out with
        | .halted cfg =>
          if cfg.core.regs.globals.toList.any (fun v => staleValue 64 cfg.heap v) then staleText else
          let gsOut := cfg.core.regs.globals.toList.map (fun v => showValue 64 cfg.heap v)
          s!"ok {tail} {cfg.core.regs.sp} " ++ showTrace log ++ " (" ++ " ".intercalate gsOut ++ ")"
        | .failed e _ =>
          match e with
          | .runtime m => "rerr #" ++ hexOfString m ++ " " ++ tail ++ " " ++ showTrace log
          | .gopanic m => "panic #" ++ hexOfString m ++ " " ++ tail ++ " " ++ showTrace log
          | .unsupported w => "unsupported " ++ atomize w
          | .excluded w => "excluded " ++ atomize w
          | .fuel => "fuel"
        | .fault ft _ =>
          match ft with
          | .unknownOpcode op => "rerr #" ++ hexOfString s!"unknown opcode: {op}" ++ " " ++ tail ++ " " ++ showTrace log
          | .notFunction _ => "rerr #" ++ hexOfString "not function: compiled-function" ++ " " ++ tail ++ " " ++ showTrace log
          | other => "panic #" ++ hexOfString (reprStr other) ++ " " ++ tail ++ " " ++ showTrace log
        | .limit _ => "rerr #" ++ hexOfString allocLimitText ++ " " ++ tail ++ " " ++ showTrace log
        | .outOfFuel _ => "fuel"
      | _ => "bad-op setup"
    | _, _, _, _, _ => "bad-op args"
  | _ => "bad-op"

def showVErr : Tengo.Model.Verifier.VErr → String
  | .undecodable => "undecodable"
  | .inconsistent p a b => s!"inconsistent-{p}-{a}-{b}"
  | .underflow p h => s!"underflow-{p}-{h}"
  | .badTarget p t => s!"badTarget-{p}-{t}"
  | .tooHigh p h => s!"tooHigh-{p}-{h}"
  | .badOperand p w => s!"badOperand-{p}-{w.replace " " "-"}"
  | .emptyFunction => "emptyFunction"
  | .noFixpoint => "noFixpoint"

/-- `(verifyprog <nglobals> (<const>…) <fn>)` → `ok <#functions tabulated> <initOk>` | `err <what>`. -/
def handleVerifyProg : List Sexp → String
  | [ng, .list cs, mainFn] =>
    match ng.asNat?, readFn mainFn with
    | some ng, some main =>
      match (readConsts cs).run {} with
      | .ok (some consts, _) =>
        let (code, fobjs) := initFobjs { main := main, consts := consts.toArray }
        match verifyProgram code ng with
        | .ok t => s!"ok {t.fns.length} {if initOk code t fobjs then 1 else 0}"
        | .error (.fn idx e) => s!"err fn {idx} {showVErr e}"
        | .error (.inconsistentClosure _) => "err inconsistent-closure"
        | .error .check => "err check"
      | _ => "bad-op consts"
    | _, _ => "bad-op args"
  | _ => "bad-op"

/-- Untrusted position table of one function for the relocation check: the identity when the bodies are
equal, otherwise old ↦ new offsets of the instructions the optimizer model keeps. -/
def relocTable (twin opt : Array UInt8) : List (Nat × Nat) :=
  match Tengo.Model.decode twin.toList with
  | none => []
  | some is =>
    if twin == opt then is.map (fun i => (i.pos, i.pos))
    else (Tengo.Model.Optimizer.posMap (Tengo.Model.Optimizer.kept is)).filter (fun pq => pq.2 < opt.size)

/-- The second program is the first one with other function bodies (value constants are compared as
written, function constants by their frame layout). -/
def sameButBodies : List Sexp → List Sexp → Bool
  | [], [] => true
  | .list [.atom "v", v] :: cs, .list [.atom "v", v'] :: cs' => v == v' && sameButBodies cs cs'
  | c :: cs, c' :: cs' =>
    (match readFn c, readFn c' with
     | some f, some f' => f.numLocals == f'.numLocals && f.numParams == f'.numParams && f.varargs == f'.varargs
     | _, _ => false) && sameButBodies cs cs'
  | _, _ => false

/-- `(reloc (<const>…) <fn> (<const'>…) <fn'>)`: is the second program the first with every function
relocated (`checkReloc`, sound by `Tengo.Proofs.VMRelocCheck.checkReloc_sound`)? →
`ok <#functions> <#positions> <#moved> <twin shape 0/1> <bodies are the model's 0/1>` | `fail <function index>` | `differ` (not the same program up to
function bodies). -/
def handleReloc : List Sexp → String
  | [.list cs, mainFn, .list cs', mainFn'] =>
    match readFn mainFn, readFn mainFn' with
    | some main, some main' =>
      if !(sameButBodies cs cs' && main.numLocals == main'.numLocals && main.numParams == main'.numParams
            && main.varargs == main'.varargs) then "differ"
      else
      match (readConsts cs).run {} with
      | .ok (some consts, _) =>
        let (code, _) := initFobjs { main := main, consts := consts.toArray }
        let bodies : Array (Array UInt8) :=
          (main'.insts :: cs'.map (fun c => match readFn c with | some f => f.insts | none => #[])).toArray
        let b : Nat → Array UInt8 := fun idx => bodies[idx]?.getD #[]
        let tabs : Array (List (Nat × Nat)) := (List.range (code.consts.size + 1)).toArray.map (fun idx =>
          match code.fn idx with
          | some f => relocTable f.insts (b idx)
          | none => [])
        let tab : Nat → List (Nat × Nat) := fun idx => tabs[idx]?.getD []
        if checkReloc code b tab then
          let nfn := (List.range (code.consts.size + 1)).filter (fun idx => (code.fn idx).isSome) |>.length
          let npos := tabs.foldl (fun n t => n + t.length) 0
          let moved := tabs.foldl (fun n t => n + (t.filter (fun pq => pq.1 != pq.2)).length) 0
          -- is this very pair covered by the universal theorem (Tengo.Proofs.C03Reloc.covered_reloc)?
          let tw := Tengo.Proofs.C03Reloc.checkTwin code
          let same := Tengo.Proofs.C03Reloc.bodiesAreModel code b
          s!"ok {nfn} {npos} {moved} {if tw then 1 else 0} {if same then 1 else 0}"
        else
          match (List.range (code.consts.size + 1)).find? (fun idx =>
              match code.fn idx with
              | some f => !checkFnReloc f (b idx) (tab idx)
              | none => false) with
          | some idx => s!"fail {idx}"
          | none => "fail"
      | _ => "bad-op consts"
    | _, _ => "bad-op args"
  | _ => "bad-op"

/-- Value constants of the two programs agree as written: constant `k` of the first program and constant
`tab[k]` of the second are both values with the same S-expression, or both functions. -/
def sameValsAsWritten (cs cs' : List Sexp) (tab : List Nat) : Bool :=
  (cs.zip tab).all (fun (c, j) =>
    match c, cs'[j]? with
    | .list [.atom "v", v], some (.list [.atom "v", v']) => v == v'
    | .list [.atom "v", _], _ => false
    | _, some (.list [.atom "v", _]) => false
    | _, some _ => true
    | _, none => false)

/-- Untrusted instruction starts of one function for the renumbering check. -/
def startsOf (f : Fn) : List Nat :=
  match Tengo.Model.decode f.insts.toList with
  | none => []
  | some is => is.map (fun i => i.pos)

/-- `(renum (<const>…) <fn> (<const'>…) <fn'> (<cm 0> <cm 1> …))`: is the second program the first with
its constant pool renumbered by the given index map and the CONST / CLOSURE operands rewritten
(`checkRenum`, sound by `Tengo.Proofs.VMRenumCheck.checkRenum_sound`; value constants compared as
written; initial function objects of `initFobjs` compared by `initRelB`)? →
`ok <#functions> <#starts>` | `fail <what>` | `differ` (value constants differ as written). -/
def handleRenum : List Sexp → String
  | [.list cs, mainFn, .list cs', mainFn', .list tabS] =>
    match readFn mainFn, readFn mainFn', tabS.mapM (fun s => s.asNat?) with
    | some main, some main', some tab =>
      if cs.length != tab.length then "fail tab"
      else if !sameValsAsWritten cs cs' tab then "differ"
      else
      match (readConsts cs).run {}, (readConsts cs').run {} with
      | .ok (some consts, _), .ok (some consts', _) =>
        let (code, fobjs) := initFobjs { main := main, consts := consts.toArray }
        let (code', fobjs') := initFobjs { main := main', consts := consts'.toArray }
        let idxs := List.range (code.consts.size + 1)
        let sts : Array (List Nat) := idxs.toArray.map (fun idx =>
          match code.fn idx with
          | some f => startsOf f
          | none => [])
        let starts : Nat → List Nat := fun idx => sts[idx]?.getD []
        let cm := cmOf tab code'.consts.size
        if !initRelB fobjs fobjs' tab code'.consts.size then "fail init"
        else if checkRenum code code' tab starts then
          let nfn := (idxs.filter (fun idx => (code.fn idx).isSome)).length
          let nst := sts.foldl (fun n t => n + t.length) 0
          -- is this very pair covered by the universal theorem (Tengo.Props.C12Univ.covered_renum)?
          let pre := checkDedupPre id code
          let fl := floatsDistinctB code
          let om := outputIsModel id code code' tab
          s!"ok {nfn} {nst} {if pre then 1 else 0} {if fl then 1 else 0} {if om then 1 else 0}"
        else if tab.length != code.consts.size then "fail tab"
        else if !fnShapeB code.main code'.main then "fail main"
        else
          match (List.range code.consts.size).find? (fun k => !constShapeB (code.consts[k]?) (code'.consts[cm k]?)) with
          | some k => s!"fail const {k}"
          | none =>
            match idxs.find? (fun idx =>
                match code.fn idx, code'.fn (fim cm idx) with
                | some f, some f' => !checkFnRenum code code' cm f f' (starts idx)
                | some _, none => true
                | none, _ => false) with
            | some idx => s!"fail fn {idx}"
            | none => "fail"
      | _, _ => "bad-op consts"
    | _, _, _ => "bad-op args"
  | _ => "bad-op"

def handlers : List (String × (List Sexp → String)) :=
  [("vm", handleVM), ("verifyprog", handleVerifyProg), ("reloc", handleReloc), ("renum", handleRenum)]

end Tengo.Drivers.VM

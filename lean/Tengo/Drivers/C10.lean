import Tengo.Sexp
import Tengo.Model.Value
import Tengo.Model.HeapCopy
import Tengo.Drivers.C09
/-! Line protocol of the value model (C10). Values travel in the format of DESIGN.md Appendix A:
`u (b 0|1) (i n) (f bits) (c n) (s #hex) (y #hex) (a v…) (ia v…) (m (#key v)…) (im …) (e id v) (t unixnano)
(fn) (bf #name) (uf)`; `(e v)` is read as an error of identity 0 (fresh). Lines:
`(eq a b)` `(ne a b)` `(cmp Less|LessEq|Greater|GreaterEq a b)` `(pair a b)` `(falsy a)` `(copy a)`
`(conv string|int|float|bool|char|bytes|time a [default])` `(copyheap x op…)` (heap-level copy, see `handleCopyHeap`). -/
namespace Tengo.Drivers.C10
open Tengo Tengo.Model.Val

def toVList : List Value → VList
  | [] => .nil
  | v :: tl => .cons v (toVList tl)

def toVMap : List (Bytes × Value) → VMap
  | [] => .nil
  | (k, v) :: tl => .cons k v (toVMap tl)

/-- total by fuel = nesting depth allowed -/
def parseValueN : Nat → Sexp → Option Value
  | 0, _ => none
  | fuel + 1, s =>
    let pv := parseValueN fuel
    let entry : Sexp → Option (Bytes × Value) := fun e =>
      match e with
      | .list [k, v] =>
        match k.asBytes?, pv v with
        | some kb, some w => some (kb, w)
        | _, _ => none
      | _ => none
    match s with
    | .atom "u" => some .undef
    | .atom _ => none
    | .list [] => none
    | .list (hd :: args) =>
      match hd, args with
      | .atom "b", [x] => x.asBool?.map .bool
      | .atom "i", [x] => x.asInt?.map (fun n => .int (BitVec.ofInt 64 n))
      | .atom "f", [x] => x.asNat?.map (fun n => .float (BitVec.ofNat 64 n))
      | .atom "c", [x] => x.asInt?.map (fun n => .char (BitVec.ofInt 32 n))
      | .atom "s", [x] => x.asBytes?.map .str
      | .atom "y", [x] => x.asBytes?.map .bytes
      | .atom "t", [x] => x.asInt?.map .time
      | .atom "fn", [] => some .fn
      | .atom "uf", [] => some .userfn
      | .atom "bf", [x] => x.asBytes?.map .builtin
      | .atom "a", _ => (args.mapM pv).map (fun vs => .arr (toVList vs))
      | .atom "ia", _ => (args.mapM pv).map (fun vs => .imarr (toVList vs))
      | .atom "m", _ => (args.mapM entry).map (fun es => .map (toVMap es))
      | .atom "im", _ => (args.mapM entry).map (fun es => .immap (toVMap es))
      | .atom "e", [v] => (pv v).map (.err 0)
      | .atom "e", [i, v] =>
        match i.asNat?, pv v with
        | some n, some w => some (.err n w)
        | _, _ => none
      | _, _ => none

def parseValue (s : Sexp) : Option Value := parseValueN 512 s

def canonNaN : Nat := 0x7ff8000000000001

mutual
  def showValue : Value → String
    | .undef => "u"
    | .bool b => if b then "(b 1)" else "(b 0)"
    | .int n => "(i " ++ toString n.toInt ++ ")"
    | .float f => "(f " ++ toString (if F64.isNaN f then canonNaN else f.toNat) ++ ")"
    | .char c => "(c " ++ toString c.toInt ++ ")"
    | .str s => "(s #" ++ Sexp.hexOfBytes s ++ ")"
    | .bytes s => "(y #" ++ Sexp.hexOfBytes s ++ ")"
    | .arr xs => "(a" ++ showList xs ++ ")"
    | .imarr xs => "(ia" ++ showList xs ++ ")"
    | .map es => "(m" ++ showMap es ++ ")"
    | .immap es => "(im" ++ showMap es ++ ")"
    | .err i v => "(e " ++ toString i ++ " " ++ showValue v ++ ")"
    | .time n => "(t " ++ toString n ++ ")"
    | .fn => "(fn)"
    | .builtin n => "(bf #" ++ Sexp.hexOfBytes n ++ ")"
    | .userfn => "(uf)"
  def showList : VList → String
    | .nil => ""
    | .cons v tl => " " ++ showValue v ++ showList tl
  def showMap : VMap → String
    | .nil => ""
    | .cons k v tl => " (#" ++ Sexp.hexOfBytes k ++ " " ++ showValue v ++ ")" ++ showMap tl
end

def bit (b : Bool) : String := if b then "1" else "0"

def cmpOp? : Sexp → Option CmpOp
  | .atom "Less" => some .lt
  | .atom "LessEq" => some .le
  | .atom "Greater" => some .gt
  | .atom "GreaterEq" => some .ge
  | _ => none

def convKind? : Sexp → Option ConvKind
  | .atom "string" => some .string
  | .atom "int" => some .int
  | .atom "float" => some .float
  | .atom "bool" => some .bool
  | .atom "char" => some .char
  | .atom "bytes" => some .bytes
  | .atom "time" => some .time
  | _ => none

def showCmp : Option Bool → String
  | none => "x"
  | some b => bit b

def with2 (f : Value → Value → String) : List Sexp → String
  | [a, b] =>
    match parseValue a, parseValue b with
    | some x, some y => f x y
    | _, _ => "bad-op value"
  | _ => "bad-op arity"

def with1 (f : Value → String) : List Sexp → String
  | [a] =>
    match parseValue a with
    | some x => f x
    | none => "bad-op value"
  | _ => "bad-op arity"

def handleCmp : List Sexp → String
  | [o, a, b] =>
    match cmpOp? o, parseValue a, parseValue b with
    | some op, some x, some y =>
      match binaryCmp op x y with
      | some r => "ok " ++ bit r
      | none => "err invalidOp"
    | _, _, _ => "bad-op"
  | _ => "bad-op arity"

def showConv : ConvRes → String
  | .ok v => "ok " ++ showValue v
  | .err k => "err " ++ k
  | .panic k => "panic " ++ k
  | .unsupported w => "unsupported " ++ w

def handleConv : List Sexp → String
  | [k, a] =>
    match convKind? k, parseValue a with
    | some ck, some x => showConv (conv ck x none)
    | _, _ => "bad-op"
  | [k, a, d] =>
    match convKind? k, parseValue a, parseValue d with
    | some ck, some x, some dv => showConv (conv ck x (some dv))
    | _, _, _ => "bad-op"
  | _ => "bad-op arity"

/-- `(copyheap x op op …)`: build a value in the heap model of C09 with its operations (line protocol of
`Drivers/C09`: `lit arr map err immut …`), then copy the value in handle `x` with `HeapCopy.copyVal`. Answer
`ok <snapshot of the copy> ; <snapshot of the original afterwards> ; data0|1 ; fresh0|1 ; sep0|1`
(`HeapCopy.copyReport`). -/
def handleCopyHeap : List Sexp → String
  | x :: ops =>
    match x.asNat?, (Tengo.Drivers.C09.runCmds ({} : Tengo.Model.Heap9.Heap) ops []).1 with
    | some i, some h =>
      match h.regs[i]? with
      | some v => "ok " ++ Tengo.Model.HeapCopy.copyReport h v
      | none => "bad-op handle"
    | _, _ => "bad-op"
  | _ => "bad-op arity"

def handlers : List (String × (List Sexp → String)) :=
  [("copyheap", handleCopyHeap),
   ("eq", with2 (fun a b => "ok " ++ bit (opEqual a b))),
   ("ne", with2 (fun a b => "ok " ++ bit (opNotEqual a b))),
   ("cmp", handleCmp),
   ("pair", with2 (fun a b => "ok " ++ bit (opEqual a b) ++ " " ++ bit (opNotEqual a b) ++ " " ++
      showCmp (binaryCmp .lt a b) ++ " " ++ showCmp (binaryCmp .le a b) ++ " " ++
      showCmp (binaryCmp .gt a b) ++ " " ++ showCmp (binaryCmp .ge a b))),
   ("falsy", with1 (fun a => "ok " ++ bit (isFalsy a))),
   ("copy", with1 (fun a => "ok " ++ showValue (copy a))),
   ("conv", handleConv)]

end Tengo.Drivers.C10

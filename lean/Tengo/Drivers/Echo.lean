import Tengo.Sexp
/-! Self-test handlers of the line protocol. -/
namespace Tengo.Drivers.Echo
open Tengo

def handlers : List (String × (List Sexp → String)) :=
  [ ("echo", fun args => "ok " ++ Sexp.listToStr args),
    ("hexlen", fun args => match args with
        | [a] => (match a.asBytes? with
            | some bs => "ok " ++ toString bs.length
            | none => "bad-op")
        | _ => "bad-op") ]

end Tengo.Drivers.Echo

import Tengo.Sexp
import Tengo.Model.Clone
/-! Line protocol of the clone model: `(cloneshape <val>)` → preorder flags of `copy` (`F…` fresh node,
`S` node shared with the original). `<val>` = `(s)` singleton | `(a)` scalar/string/bytes/builtin |
`(h)` user function | `(b kind item…)` | `(c cell…)` closure | `(p val)` free-variable cell | `(o)` host object. -/
namespace Tengo.Drivers.C08
open Tengo Tengo.Model.Clone

def kindOf : String → Option BoxKind
  | "arr" => some .arr | "map" => some .map | "iarr" => some .iarr | "imap" => some .imap | "err" => some .err
  | _ => none

/-- locations are irrelevant for the shape; all nodes get `⟨owned 0, 0⟩` -/
def l0 : Loc := ⟨.owned 0, 0⟩

mutual
  def parseVal (fuel : Nat) (s : Sexp) : Option Val :=
    match fuel with
    | 0 => none
    | fuel + 1 =>
      match s with
      | .list [.atom "s"] => some (.single 0)
      | .list [.atom "a"] => some (.atom l0 (.other 0))
      | .list [.atom "h"] => some (.atom l0 (.hostfn 0))
      | .list [.atom "o"] => some (.host l0)
      | .list [.atom "p", v] => (parseVal fuel v).map (.cell l0)
      | .list (.atom "c" :: cells) => (parseItems fuel cells).map (.clos l0 0)
      | .list (.atom "b" :: .atom k :: items) =>
          match kindOf k, parseItems fuel items with
          | some k, some it => some (.box l0 k it)
          | _, _ => none
      | _ => none
  def parseItems (fuel : Nat) (xs : List Sexp) : Option Items :=
    match fuel with
    | 0 => none
    | fuel + 1 =>
      match xs with
      | [] => some .nil
      | x :: rest =>
        match parseVal fuel x, parseItems fuel rest with
        | some v, some tl => some (.cons "" v tl)
        | _, _ => none
end

def handleShape : List Sexp → String
  | [v] =>
    match parseVal 100000 v with
    | some val => "ok " ++ " ".intercalate val.shape
    | none => "bad-op"
  | _ => "bad-op"

def handlers : List (String × (List Sexp → String)) :=
  [("cloneshape", handleShape)]

end Tengo.Drivers.C08

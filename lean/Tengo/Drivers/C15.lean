import Tengo.Sexp
import Tengo.Model.Host
import Tengo.Model.HostHeap
/-!
Line protocol of the host/script exchange model (C15).

```
(from <maxStr> <maxBytes> <goval>)                    FromInterface
(to <tval> <strtab>)                                  ToInterface
(go-norm <goval> <strtab>)                            the documented normalisation
(var-acc <accessor> <tval> <strtab> <pi> <pf> <f2i> <i2f>) typed accessor of Variable
(api <maxStr> <maxBytes> <op>…)   (aapi …)            a history on the concrete model / on the abstract specification
(api-eval <maxStr> <maxBytes> <expr> ((name goval)…) <strtab>)
(apiheap <maxStr> <maxBytes> <hop>…)                  a history on the heap machine HostHeap.hrunOps (one shared store)
(apiheap-spec <maxStr> <maxBytes> <hop>…)             `(safe 0|1)` = HostHeap.safeOpsG of the history, then HostHeap.srunOps
```
`hop` = the `op` of `api`, with scripts `(new (<hstmt>…))`, `hstmt` = `(def n e)` | `(asg n e)` | `(updf n #key <tval>)`
(`n.key = lit` / `n["key"] = lit`) | `(updi n <nat> <tval>)` (`n[i] = lit`) | `(fail)` | `(hid k)`.
`strtab` = `((<tval> #hex)…)`: the `String()` text of the values the model needs (external, supplied by the
harness); `pi pf f2i i2f` = the results of strconv.ParseInt / ParseFloat / int64(f) / float64(i) for this value.
Names and keys travel as `#hex`; maps are printed sorted by key.
-/
namespace Tengo.Drivers.C15
open Tengo Tengo.Model.Host

def nameOfBytes (bs : List UInt8) : String := String.ofList (bs.map (fun b => Char.ofNat b.toNat))
def bytesOfName (s : String) : List UInt8 := s.toList.map (fun c => UInt8.ofNat c.toNat)
def showName (s : String) : String := "#" ++ Sexp.hexOfBytes (bytesOfName s)
def asName? (s : Sexp) : Option String := s.asBytes?.map nameOfBytes

def sortByKey {α : Type} (l : List (String × α)) : List (String × α) :=
  l.mergeSort (fun a b => decide (a.1 < b.1) || a.1 == b.1)

/-! ### parsing -/

mutual
def parseT : Sexp → Option TVal
  | .atom "u" => some .undefined
  | .list [.atom "i", n] => n.asInt?.map .int
  | .list [.atom "s", b] => b.asBytes?.map .str
  | .list [.atom "f", n] => n.asNat?.map (fun x => .float (UInt64.ofNat x))
  | .list [.atom "b", b] => b.asBool?.map .bool
  | .list [.atom "c", n] => n.asInt?.map .char
  | .list [.atom "y", b] => b.asBytes?.map .bytes
  | .list (.atom "a" :: xs) => (parseTs xs).map .array
  | .list (.atom "ia" :: xs) => (parseTs xs).map .immArray
  | .list (.atom "m" :: xs) => (parseTKs xs).map .map
  | .list (.atom "im" :: xs) => (parseTKs xs).map .immMap
  | .list [.atom "t", s, n] => do pure (.time (← s.asInt?) (← n.asNat?))
  | .list [.atom "e", p] => (parseT p).map .error
  | .list [.atom "uf", n] => n.asNat?.map .userFn
  | .list [.atom "o", n] => n.asNat?.map .other
  | _ => none
def parseTs : List Sexp → Option (List TVal)
  | [] => some []
  | x :: xs => do pure ((← parseT x) :: (← parseTs xs))
def parseTKs : List Sexp → Option (List (String × TVal))
  | [] => some []
  | .list [k, v] :: xs => do pure ((← asName? k, ← parseT v) :: (← parseTKs xs))
  | _ => none
end

def parseKind : String → Option IntKind
  | "int" => some .int | "int8" => some .int8 | "int16" => some .int16 | "int32" => some .int32
  | "int64" => some .int64 | "uint" => some .uint | "uint8" => some .uint8 | "uint16" => some .uint16
  | "uint32" => some .uint32 | "uint64" => some .uint64 | "uintptr" => some .uintptr | _ => none

mutual
def parseG : Sexp → Option GoVal
  | .atom "nil" => some .nil
  | .list [.atom "bool", b] => b.asBool?.map .bool
  | .list [.atom "int", .atom k, n] => do pure (.int (← parseKind k) (← n.asInt?))
  | .list [.atom "f64", n] => n.asNat?.map (fun x => .float64 (UInt64.ofNat x))
  | .list [.atom "str", b] => b.asBytes?.map .str
  | .list [.atom "bytes", b] => b.asBytes?.map .bytes
  | .list [.atom "time", s, n] => do pure (.time (← s.asInt?) (← n.asNat?))
  | .list [.atom "err", b] => b.asBytes?.map .error
  | .list (.atom "mapobj" :: xs) => (parseTKs xs).map .mapObj
  | .list (.atom "map" :: xs) => (parseGKs xs).map .mapIface
  | .list (.atom "sliceobj" :: xs) => (parseTs xs).map .sliceObj
  | .list (.atom "slice" :: xs) => (parseGs xs).map .sliceIface
  | .list [.atom "obj", o] => (parseT o).map .object
  | .list [.atom "fn", n] => n.asNat?.map .callable
  | .list [.atom "bad", t] => (asName? t).map .unsupported
  | _ => none
def parseGs : List Sexp → Option (List GoVal)
  | [] => some []
  | x :: xs => do pure ((← parseG x) :: (← parseGs xs))
def parseGKs : List Sexp → Option (List (String × GoVal))
  | [] => some []
  | .list [k, v] :: xs => do pure ((← asName? k, ← parseG v) :: (← parseGKs xs))
  | _ => none
end

/-! ### printing (maps sorted by key) -/

mutual
def showT : TVal → String
  | .undefined => "u"
  | .int v => "(i " ++ toString v ++ ")"
  | .str s => "(s #" ++ Sexp.hexOfBytes s ++ ")"
  | .float b => "(f " ++ toString b.toNat ++ ")"
  | .bool b => "(b " ++ (if b then "1" else "0") ++ ")"
  | .char c => "(c " ++ toString c ++ ")"
  | .bytes b => "(y #" ++ Sexp.hexOfBytes b ++ ")"
  | .array xs => "(a" ++ showTs xs ++ ")"
  | .immArray xs => "(ia" ++ showTs xs ++ ")"
  | .map m => "(m" ++ String.join ((sortByKey (showTKs m)).map (fun p => " (" ++ showName p.1 ++ " " ++ p.2 ++ ")")) ++ ")"
  | .immMap m => "(im" ++ String.join ((sortByKey (showTKs m)).map (fun p => " (" ++ showName p.1 ++ " " ++ p.2 ++ ")")) ++ ")"
  | .time s n => "(t " ++ toString s ++ " " ++ toString n ++ ")"
  | .error p => "(e " ++ showT p ++ ")"
  | .userFn id => "(uf " ++ toString id ++ ")"
  | .other id => "(o " ++ toString id ++ ")"
def showTs : List TVal → String
  | [] => ""
  | x :: xs => " " ++ showT x ++ showTs xs
def showTKs : List (String × TVal) → List (String × String)
  | [] => []
  | (k, v) :: m => (k, showT v) :: showTKs m
end

mutual
def showG : GoVal → String
  | .nil => "nil"
  | .bool b => "(bool " ++ (if b then "1" else "0") ++ ")"
  | .int k v => "(int " ++ k.goName ++ " " ++ toString v ++ ")"
  | .float64 b => "(f64 " ++ toString b.toNat ++ ")"
  | .str s => "(str #" ++ Sexp.hexOfBytes s ++ ")"
  | .bytes b => "(bytes #" ++ Sexp.hexOfBytes b ++ ")"
  | .time s n => "(time " ++ toString s ++ " " ++ toString n ++ ")"
  | .error m => "(err #" ++ Sexp.hexOfBytes m ++ ")"
  | .mapObj m => "(mapobj" ++ String.join ((sortByKey (showTKs m)).map (fun p => " (" ++ showName p.1 ++ " " ++ p.2 ++ ")")) ++ ")"
  | .mapIface m => "(map" ++ String.join ((sortByKey (showGKs m)).map (fun p => " (" ++ showName p.1 ++ " " ++ p.2 ++ ")")) ++ ")"
  | .sliceObj xs => "(sliceobj" ++ showTs xs ++ ")"
  | .sliceIface xs => "(slice" ++ showGs xs ++ ")"
  | .object o => "(obj " ++ showT o ++ ")"
  | .callable id => "(fn " ++ toString id ++ ")"
  | .unsupported t => "(bad " ++ showName t ++ ")"
def showGs : List GoVal → String
  | [] => ""
  | x :: xs => " " ++ showG x ++ showGs xs
def showGKs : List (String × GoVal) → List (String × String)
  | [] => []
  | (k, v) :: m => (k, showG v) :: showGKs m
end

def showConvErr : ConvErr → String
  | .stringLimit => "string-limit"
  | .bytesLimit => "bytes-limit"
  | .cannotConvert t => "(cannot " ++ showName t ++ ")"

/-! ### externals from the line -/

def parseStrTab : Sexp → Option (List (String × List UInt8))
  | .list xs => xs.mapM (fun e => match e with
      | .list [t, b] => do pure (showT (← parseT t), ← b.asBytes?)
      | _ => none)
  | _ => none

def missing : List UInt8 := bytesOf "<missing-from-strtab>"

def extOf (tab : List (String × List UInt8)) (pi : Option Int) (pf : Option UInt64) (f2i : Int) (i2f : UInt64) : Ext :=
  { objString := fun v => (tab.lookup (showT v)).getD missing
    parseInt := fun _ => pi, parseFloat := fun _ => pf, floatToInt := fun _ => f2i, intToFloat := fun _ => i2f }

def parseOptInt : Sexp → Option (Option Int)
  | .atom "none" => some none
  | s => s.asInt?.map some

def parseOptU64 : Sexp → Option (Option UInt64)
  | .atom "none" => some none
  | s => s.asNat?.map (fun n => some (UInt64.ofNat n))

/-! ### handlers -/

def handleFrom : List Sexp → String
  | [ms, mb, g] =>
    match ms.asNat?, mb.asNat?, parseG g with
    | some a, some b, some gv =>
      match fromInterface ⟨a, b⟩ gv with
      | .ok v => "ok " ++ showT v
      | .error e => "err " ++ showConvErr e
    | _, _, _ => "bad-op"
  | _ => "bad-op"

def handleTo : List Sexp → String
  | [t, tab] =>
    match parseT t, parseStrTab tab with
    | some v, some tb => "ok " ++ showG (toInterface (extOf tb none none 0 0) v)
    | _, _ => "bad-op"
  | _ => "bad-op"

def handleNorm : List Sexp → String
  | [g, tab] =>
    match parseG g, parseStrTab tab with
    | some gv, some tb => "ok " ++ showG (normalize (extOf tb none none 0 0) gv)
    | _, _ => "bad-op"
  | _ => "bad-op"

def parseAccessor : String → Option Accessor
  | "Int" => some .int | "Int64" => some .int64 | "Float" => some .float | "Char" => some .char
  | "Bool" => some .bool | "String" => some .string | "Bytes" => some .bytes | "Array" => some .array
  | "Map" => some .map | "Error" => some .error | "IsUndefined" => some .isUndefined | _ => none

def showAcc : AccOut → String
  | .int v => "(int " ++ toString v ++ ")"
  | .float b => "(float " ++ toString b.toNat ++ ")"
  | .bool b => "(bool " ++ (if b then "1" else "0") ++ ")"
  | .str s => "(str #" ++ Sexp.hexOfBytes s ++ ")"
  | .bytes none => "(bytes nil)"
  | .bytes (some b) => "(bytes #" ++ Sexp.hexOfBytes b ++ ")"
  | .slice none => "(slice nil)"
  | .slice (some xs) => "(slice " ++ showG (.sliceIface xs) ++ ")"
  | .map none => "(map nil)"
  | .map (some m) => "(map " ++ showG (.mapIface m) ++ ")"
  | .err none => "(err nil)"
  | .err (some t) => "(err #" ++ Sexp.hexOfBytes t ++ ")"

def handleAcc : List Sexp → String
  | [.atom a, t, tab, pi, pf, f2i, i2f] =>
    match parseAccessor a, parseT t, parseStrTab tab, parseOptInt pi, parseOptU64 pf, f2i.asInt?, i2f.asNat? with
    | some acc, some v, some tb, some p1, some p2, some x, some y =>
      "ok " ++ showAcc (access (extOf tb p1 p2 x (UInt64.ofNat y)) acc v)
    | _, _, _, _, _, _, _ => "bad-op"
  | _ => "bad-op"

def parseExpr : Sexp → Option Expr
  | .list [.atom "const", t] => (parseT t).map .const
  | .list [.atom "var", n] => (asName? n).map .var
  | _ => none

def parseStmt : Sexp → Option Stmt
  | .list [.atom "def", n, e] => do pure (.define (← asName? n) (← parseExpr e))
  | .list [.atom "asg", n, e] => do pure (.assign (← asName? n) (← parseExpr e))
  | .list [.atom "sel", n, k, t] => do pure (.selset (← asName? n) (← asName? k) (← parseT t))
  | .list [.atom "fail"] => some .fail
  | .list [.atom "hid", k] => k.asNat?.map .hidden
  | _ => none

def parseOp : Sexp → Option Op
  | .list [.atom "new", .list ss] => (ss.mapM parseStmt).map .newScript
  | .list [.atom "add", s, n, g] => do pure (.add (← s.asNat?) (← asName? n) (← parseG g))
  | .list [.atom "remove", s, n] => do pure (.remove (← s.asNat?) (← asName? n))
  | .list [.atom "compile", s] => s.asNat?.map .compile
  | .list [.atom "set", c, n, g] => do pure (.set (← c.asNat?) (← asName? n) (← parseG g))
  | .list [.atom "run", c] => c.asNat?.map .run
  | .list [.atom "get", c, n] => do pure (.get (← c.asNat?) (← asName? n))
  | .list [.atom "getall", c] => c.asNat?.map .getAll
  | .list [.atom "isdef", c, n] => do pure (.isDefined (← c.asNat?) (← asName? n))
  | .list [.atom "clone", c] => c.asNat?.map .clone
  | _ => none

def showApiErr : ApiErr → String
  | .conv e => "(conv " ++ showConvErr e ++ ")"
  | .notDefined n => "(notdef " ++ showName n ++ ")"
  | .unresolved n => "(unresolved " ++ showName n ++ ")"
  | .redeclared n => "(redeclared " ++ showName n ++ ")"
  | .runtime => "runtime"

def showOut : Out → String
  | .ok => "ok"
  | .err e => "(err " ++ showApiErr e ++ ")"
  | .bool b => "(bool " ++ (if b then "1" else "0") ++ ")"
  | .val v => "(val " ++ showT v ++ ")"
  | .vars vs => "(vars" ++ String.join ((sortByKey (vs.map (fun p => (p.1, showT p.2)))).map
      (fun p => " (" ++ showName p.1 ++ " " ++ p.2 ++ ")")) ++ ")"
  | .script n => "(script " ++ toString n ++ ")"
  | .compiled n => "(compiled " ++ toString n ++ ")"
  | .noHandle => "nohandle"

def handleApiWith (run : Limits → List Op → List Out) : List Sexp → String
  | ms :: mb :: ops =>
    match ms.asNat?, mb.asNat?, ops.mapM parseOp with
    | some a, some b, some os => "ok " ++ " ".intercalate ((run ⟨a, b⟩ os).map showOut)
    | _, _, _ => "bad-op"
  | _ => "bad-op"

def parseParams : Sexp → Option (List (String × GoVal))
  | .list xs => parseGKs xs
  | _ => none

def handleEval : List Sexp → String
  | [ms, mb, e, ps, tab] =>
    match ms.asNat?, mb.asNat?, parseExpr e, parseParams ps, parseStrTab tab with
    | some a, some b, some ex, some params, some tb =>
      match eval ⟨a, b⟩ (extOf tb none none 0 0) ex params with
      | .value g => "ok (value " ++ showG g ++ ")"
      | .addErr ce => "ok (adderr " ++ showConvErr ce ++ ")"
      | .runErr ae => "ok (runerr " ++ showApiErr ae ++ ")"
    | _, _, _, _, _ => "bad-op"
  | _ => "bad-op"

/-! ### the heap machine (Tengo/Model/HostHeap.lean) -/

open Tengo.Model.HostHeap in
def parseHStmt : Sexp → Option HStmt
  | .list [.atom "def", n, e] => do pure (.define (← asName? n) (← parseExpr e))
  | .list [.atom "asg", n, e] => do pure (.assign (← asName? n) (← parseExpr e))
  | .list [.atom "updf", n, k, t] => do pure (.upd (← asName? n) (.field (← asName? k)) (← parseT t))
  | .list [.atom "updi", n, i, t] => do pure (.upd (← asName? n) (.index (← i.asNat?)) (← parseT t))
  | .list [.atom "fail"] => some .fail
  | .list [.atom "hid", k] => k.asNat?.map .hidden
  | _ => none

open Tengo.Model.HostHeap in
def parseHOp : Sexp → Option HOp
  | .list [.atom "new", .list ss] => (ss.mapM parseHStmt).map .newScript
  | .list [.atom "add", s, n, g] => do pure (.add (← s.asNat?) (← asName? n) (← parseG g))
  | .list [.atom "remove", s, n] => do pure (.remove (← s.asNat?) (← asName? n))
  | .list [.atom "compile", s] => s.asNat?.map .compile
  | .list [.atom "set", c, n, g] => do pure (.set (← c.asNat?) (← asName? n) (← parseG g))
  | .list [.atom "run", c] => c.asNat?.map .run
  | .list [.atom "get", c, n] => do pure (.get (← c.asNat?) (← asName? n))
  | .list [.atom "getall", c] => c.asNat?.map .getAll
  | .list [.atom "isdef", c, n] => do pure (.isDefined (← c.asNat?) (← asName? n))
  | .list [.atom "clone", c] => c.asNat?.map .clone
  | _ => none

def handleApiHeapWith (run : Limits → List Tengo.Model.HostHeap.HOp → String) : List Sexp → String
  | ms :: mb :: ops =>
    match ms.asNat?, mb.asNat?, ops.mapM parseHOp with
    | some a, some b, some os => "ok " ++ run ⟨a, b⟩ os
    | _, _, _ => "bad-op"
  | _ => "bad-op"

/-- every observation of the history on the heap machine, in call order -/
def handleApiHeap : List Sexp → String :=
  handleApiHeapWith (fun L os => " ".intercalate ((Tengo.Model.HostHeap.hrunOps L {} os).map showOut))

/-- the side condition of `api_refines_heap` on this history, then the per-handle specification's observations -/
def handleApiHeapSpec : List Sexp → String :=
  handleApiHeapWith (fun L os =>
    "(safe " ++ (if Tengo.Model.HostHeap.safeOpsG L {} [] os then "1" else "0") ++ ") " ++
      " ".intercalate ((Tengo.Model.HostHeap.srunOps L {} os).map showOut))

def handlers : List (String × (List Sexp → String)) :=
  [("from", handleFrom), ("to", handleTo), ("go-norm", handleNorm), ("var-acc", handleAcc),
   ("api", handleApiWith (fun L ops => runOps L {} ops)), ("aapi", handleApiWith (fun L ops => arunOps L {} ops)),
   ("api-eval", handleEval), ("apiheap", handleApiHeap), ("apiheap-spec", handleApiHeapSpec)]

end Tengo.Drivers.C15

import Tengo.Sexp
import Tengo.Model.Format
import Tengo.Model.FormatSpec
/-!
Line protocol of the formatter model:
`(fmt <limit> #<format> (args…) (oracle…))` → `ok #<hex>` | `err stringLimit` | `unsupported` | `panic`
args: `(i n)` `(f bits)` `(s #hex)` `(b 0|1)` `(y #hex)`;
oracle entries: `(ff bits verb prec #out)` `(fs bits #out)` `(fi bits n)` `(q #s #out)` `(qa #s #out)`
`(cb #s 0|1)` `(qr r #out)` `(qra r #out)` `(ip r 0|1)`.
`(gfmt <flags> <wid|-> <prec|-> <verb> arg)` → the declarative spec `G` on one directive.
-/
namespace Tengo.Drivers.C17
open Tengo Tengo.Model.Format

def parseArg : Sexp → Option Arg
  | Sexp.list [Sexp.atom "i", n] => do let v ← n.asInt?; pure (.int (BitVec.ofInt 64 v))
  | Sexp.list [Sexp.atom "f", n] => do let v ← n.asNat?; pure (.float v)
  | Sexp.list [Sexp.atom "s", b] => do let v ← b.asBytes?; pure (.str v)
  | Sexp.list [Sexp.atom "b", b] => do let v ← b.asBool?; pure (.bool v)
  | Sexp.list [Sexp.atom "y", b] => do let v ← b.asBytes?; pure (.bytes v)
  | _ => none

def parseArgs : List Sexp → Option (List Arg)
  | [] => some []
  | x :: xs => do let a ← parseArg x; let r ← parseArgs xs; pure (a :: r)

structure Table where
  ff : List ((Nat × Nat × Int) × Bytes) := []
  fs : List (Nat × Bytes) := []
  fi : List (Nat × Int) := []
  q : List (Bytes × Bytes) := []
  qa : List (Bytes × Bytes) := []
  cb : List (Bytes × Bool) := []
  qr : List (Nat × Bytes) := []
  qra : List (Nat × Bytes) := []
  ip : List (Nat × Bool) := []

def addEntry (t : Table) : Sexp → Option Table
  | Sexp.list [Sexp.atom "ff", b, v, p, o] => do
      pure { t with ff := ((← b.asNat?, ← v.asNat?, ← p.asInt?), ← o.asBytes?) :: t.ff }
  | Sexp.list [Sexp.atom "fs", b, o] => do pure { t with fs := (← b.asNat?, ← o.asBytes?) :: t.fs }
  | Sexp.list [Sexp.atom "fi", b, o] => do pure { t with fi := (← b.asNat?, ← o.asInt?) :: t.fi }
  | Sexp.list [Sexp.atom "q", s, o] => do pure { t with q := (← s.asBytes?, ← o.asBytes?) :: t.q }
  | Sexp.list [Sexp.atom "qa", s, o] => do pure { t with qa := (← s.asBytes?, ← o.asBytes?) :: t.qa }
  | Sexp.list [Sexp.atom "cb", s, o] => do pure { t with cb := (← s.asBytes?, ← o.asBool?) :: t.cb }
  | Sexp.list [Sexp.atom "qr", r, o] => do pure { t with qr := (← r.asNat?, ← o.asBytes?) :: t.qr }
  | Sexp.list [Sexp.atom "qra", r, o] => do pure { t with qra := (← r.asNat?, ← o.asBytes?) :: t.qra }
  | Sexp.list [Sexp.atom "ip", r, o] => do pure { t with ip := (← r.asNat?, ← o.asBool?) :: t.ip }
  | _ => none

def parseTable : List Sexp → Table → Option Table
  | [], t => some t
  | x :: xs, t => do let t ← addEntry t x; parseTable xs t

def Table.oracle (t : Table) : Oracle where
  appendFloat := fun b v p => t.ff.lookup (b, v, p)
  floatStr := fun b => t.fs.lookup b
  floatInt := fun b => t.fi.lookup b
  quote := fun s => t.q.lookup s
  quoteAscii := fun s => t.qa.lookup s
  canBackquote := fun s => t.cb.lookup s
  quoteRune := fun r => t.qr.lookup r
  quoteRuneAscii := fun r => t.qra.lookup r
  isPrint := fun r => t.ip.lookup r

def showR : R → String
  | .ok s => "ok #" ++ Sexp.hexOfBytes s
  | .error .limit => "err stringLimit"
  | .error .panic => "panic"
  | .error .unsupported => "unsupported"

def handleFmt : List Sexp → String
  | [l, f, Sexp.list as, Sexp.list os] =>
    match l.asNat?, f.asBytes?, parseArgs as, parseTable os {} with
    | some L, some fmt, some args, some t => showR (format t.oracle L fmt args)
    | _, _, _, _ => "bad-op"
  | _ => "bad-op"

open Tengo.Model.FormatSpec in
/-- `(gfmt flagmask wid|- prec|- verb arg)` → `ok #<directive text> #<G's rendering>`. -/
def handleG : List Sexp → String
  | [m, w, p, v, a] =>
    match m.asNat?, v.asNat?, parseArg a with
    | some m, some verb, some arg =>
      let optNat (x : Sexp) : Option Nat := match x with | Sexp.atom "-" => none | _ => x.asNat?
      let d : GDir := { plus := m % 2 = 1, minus := m / 2 % 2 = 1, sharp := m / 4 % 2 = 1, space := m / 8 % 2 = 1,
                        zero := m / 16 % 2 = 1, width := optNat w, prec := optNat p, verb := verb }
      let out : Option Bytes :=
        match arg with
        | .int n =>
          if verb = 98 ∨ verb = 100 ∨ verb = 111 ∨ verb = 79 ∨ verb = 120 ∨ verb = 88 then some (renderInt d n.toInt)
          else if verb = 99 then some (renderChar d n.toInt) else none
        | .str s => if verb = 115 then some (renderStr d s) else none
        | .bytes s => if verb = 115 then some (renderStr d s) else none
        | .bool b => if verb = 116 then some (renderBool d b) else none
        | _ => none
      match out with
      | some o => "ok #" ++ Sexp.hexOfBytes (showDir d) ++ " #" ++ Sexp.hexOfBytes o
      | none => "unsupported"
    | _, _, _ => "bad-op"
  | _ => "bad-op"

def handlers : List (String × (List Sexp → String)) :=
  [("fmt", handleFmt), ("gfmt", handleG)]

end Tengo.Drivers.C17

import Tengo.Sexp
import Tengo.Model.Json
/-!
Line protocol of the JSON model.

`(json-enc <value> ((bits #ftext #etext)…))`  → `ok #<hex>` | `err`
`(json-dec #<bytes> ((#text bits)…))`         → `ok <value>` | `syntax <offset> <byte|-1> #<ctx>` | `panic` | `fuel`
`(json-valid #<bytes>)`                       → `ok` | `syntax …`

`<value>` ::= `u` | `(b 0|1)` | `(i n)` | `(f bits)` | `(s #hex)` | `(a v…)` | `(m (#key v)…)`
-/
namespace Tengo.Drivers.C18
open Tengo Tengo.Model.Json

mutual
  def toJ : Sexp → Option J
    | .atom "u" => some .null
    | .list [.atom "b", x] => x.asBool?.map .bool
    | .list [.atom "i", x] => x.asInt?.map .int
    | .list [.atom "f", x] => x.asNat?.map (fun n => .float (UInt64.ofNat n))
    | .list [.atom "s", x] => x.asBytes?.map .str
    | .list (.atom "a" :: xs) => (toJList xs).map .arr
    | .list (.atom "m" :: es) => (toJMems es).map .obj
    | _ => none
  def toJList : List Sexp → Option JList
    | [] => some .nil
    | x :: xs => match toJ x, toJList xs with
      | some v, some vs => some (.cons v vs)
      | _, _ => none
  def toJMems : List Sexp → Option JMems
    | [] => some .nil
    | .list [k, x] :: es => match k.asBytes?, toJ x, toJMems es with
      | some k, some v, some vs => some (.cons k v vs)
      | _, _, _ => none
    | _ => none
end

mutual
  def showJ : J → String
    | .null => "u"
    | .bool b => "(b " ++ (if b then "1" else "0") ++ ")"
    | .int i => "(i " ++ toString i ++ ")"
    | .float b => "(f " ++ toString b.toNat ++ ")"
    | .str s => "(s #" ++ Sexp.hexOfBytes s ++ ")"
    | .arr xs => "(a" ++ showJList xs ++ ")"
    | .obj es => "(m" ++ showJMems es ++ ")"
  def showJList : JList → String
    | .nil => ""
    | .cons x xs => " " ++ showJ x ++ showJList xs
  def showJMems : JMems → String
    | .nil => ""
    | .cons k v es => " (#" ++ Sexp.hexOfBytes k ++ " " ++ showJ v ++ ")" ++ showJMems es
end

/-- `((bits #f #e)…)` as a function; a missing entry yields `?`, which cannot match the real output. -/
def encOracle : List Sexp → Option (List (Nat × Bytes × Bytes))
  | [] => some []
  | .list [b, f, e] :: rest => match b.asNat?, f.asBytes?, e.asBytes?, encOracle rest with
    | some b, some f, some e, some tl => some ((b, f, e) :: tl)
    | _, _, _, _ => none
  | _ => none

/-- `((#text bits)…)` as a function; a missing entry yields a NaN pattern no parse produces. -/
def decOracle : List Sexp → Option (List (Bytes × Nat))
  | [] => some []
  | .list [t, b] :: rest => match t.asBytes?, b.asNat?, decOracle rest with
    | some t, some b, some tl => some ((t, b) :: tl)
    | _, _, _ => none
  | _ => none

def showErr (e : SynErr) : String :=
  "syntax " ++ toString e.offset ++ " " ++ (match e.bad with | some b => toString b.toNat | none => "-1") ++
    " #" ++ Sexp.hexOfBytes e.ctx.toUTF8.toList

def handleEnc : List Sexp → String
  | [v, .list tab] =>
    match toJ v, encOracle tab with
    | some j, some tb =>
      let ff : UInt64 → Bytes × Bytes := fun b => (tb.lookup b.toNat).getD ([0x3F], [0x3F])
      match encode ff j with
      | some bs => "ok #" ++ Sexp.hexOfBytes bs
      | none => "err"
    | _, _ => "bad-op"
  | _ => "bad-op"

def handleDec : List Sexp → String
  | [b, .list tab] =>
    match b.asBytes?, decOracle tab with
    | some bs, some tb =>
      let pf : Bytes → UInt64 := fun t => UInt64.ofNat ((tb.lookup t).getD 0x7FF80000DEADBEEF)
      match decode pf bs with
      | .ok v => "ok " ++ showJ v
      | .syntaxErr e => showErr e
      | .panic _ => "panic"
      | .outOfFuel => "fuel"
    | _, _ => "bad-op"
  | _ => "bad-op"

def handleValid : List Sexp → String
  | [b] =>
    match b.asBytes? with
    | some bs =>
      match checkValid bs with
      | .ok _ => "ok"
      | .error e => showErr e
    | none => "bad-op"
  | _ => "bad-op"

def handlers : List (String × (List Sexp → String)) :=
  [("json-enc", handleEnc), ("json-dec", handleDec), ("json-valid", handleValid)]

end Tengo.Drivers.C18

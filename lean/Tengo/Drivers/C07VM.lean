import Tengo.Sexp
import Tengo.Model.VM
import Tengo.Model.VMAbort
import Tengo.Drivers.C01
import Tengo.Drivers.VM
/-!
Line protocol of the abortable whole-VM loop (C07, `Tengo.Model.VMAbort.runAbort`):

`(runabort <k> <fuel> <keep> <maxAllocs> <nglobals> ((idx <value>)…) (<const>…) <fn>)` — the program travels
exactly as on the `vm` line (real compiled bytecode, constants, inputs by global slot); `<k>` = the abort flag
becomes visible to the loop-head poll after `k` dispatches (`runAbort code keep (some k) fuel (maxAllocs+1)
⟨initCore …⟩ {}`) →

* `aborted <steps> <counted> <sum> <sp> <depth> <allocs> (<obs>…) (<global>…)` — the poll saw the flag:
  `<steps>` dispatches were made, `<sp> <depth> <allocs>` are the registers of the configuration left behind
  (`allocs` through `cfgAt`), one `<global>` per slot `< nglobals` of that configuration;
* `ok <steps> <counted> <sum> <sp> (<obs>…) (<global>…)` | `rerr #<msg> …` | `panic #<msg> …` — the run ended
  by itself before the flag was seen (same rendering as the `vm` line);
* `unsupported <why>` | `excluded <why>` | `fuel`.
-/
namespace Tengo.Drivers.C07VM
open Tengo Tengo.Model.Spec Tengo.Model.VM Tengo.Model.VMAbort
open Tengo.Drivers.C01 (showValue hexOfString atomize staleValue staleText)
open Tengo.Drivers.VM (readFn readConsts readGlobals showTrace)

def showGlobals (cfg : Cfg) : String :=
  "(" ++ " ".intercalate (cfg.core.regs.globals.toList.map (fun v => showValue 64 cfg.heap v)) ++ ")"

def staleGlobals (cfg : Cfg) : Bool :=
  cfg.core.regs.globals.toList.any (fun v => staleValue 64 cfg.heap v)

/-- Rendering of a run that ended by itself: as the `vm` line. -/
def showFin (out : Tengo.Model.VM.Outcome) (log : Log) : String :=
  let tail := s!"{log.steps} {log.counted} {log.sum}"
  match out with
  | .halted cfg =>
    if staleGlobals cfg then staleText else
    s!"ok {tail} {cfg.core.regs.sp} " ++ showTrace log ++ " " ++ showGlobals cfg
  | .failed e _ =>
    match e with
    | .runtime m => "rerr #" ++ hexOfString m ++ " " ++ tail ++ " " ++ showTrace log
    | .gopanic m => "panic #" ++ hexOfString m ++ " " ++ tail ++ " " ++ showTrace log
    | .unsupported w => "unsupported " ++ atomize w
    | .excluded w => "excluded " ++ atomize w
    | .fuel => "fuel"
  | .fault ft _ =>
    match ft with
    | .unknownOpcode op => "rerr #" ++ hexOfString s!"unknown opcode: {op}" ++ " " ++ tail ++ " " ++ showTrace log
    | .notFunction _ => "rerr #" ++ hexOfString "not function: compiled-function" ++ " " ++ tail ++ " " ++ showTrace log
    | other => "panic #" ++ hexOfString (reprStr other) ++ " " ++ tail ++ " " ++ showTrace log
  | .limit _ => "rerr #" ++ hexOfString allocLimitText ++ " " ++ tail ++ " " ++ showTrace log
  | .outOfFuel _ => "fuel"

def handleRunAbort : List Sexp → String
  | [k, fuel, keep, maxAllocs, ng, .list gs, .list cs, mainFn] =>
    match k.asNat?, fuel.asNat?, keep.asNat?, maxAllocs.asInt?, ng.asNat?, readFn mainFn with
    | some k, some fuel, some keep, some maxAllocs, some ng, some main =>
      let setup : M (Option (Array Value × List Const)) := do
        match ← readGlobals ng gs, ← readConsts cs with
        | some g, some c => pure (some (g, c))
        | _, _ => pure none
      match setup.run {} with
      | .ok (some (globals, consts), heap) =>
        let (code, fobjs) := initFobjs { main := main, consts := consts.toArray }
        let cfg0 : Cfg := ⟨initCore globals fobjs, {}, heap⟩
        let (out, log) := runAbort code keep (some k) fuel (maxAllocs + 1) cfg0 {}
        match out with
        | .fin o => showFin o log
        | .aborted cfg =>
          if staleGlobals cfg then staleText else
          let allocs : String :=
            match cfgAt code k (maxAllocs + 1) cfg0 with
            | some (_, a) => toString a
            | none => "none"
          s!"aborted {log.steps} {log.counted} {log.sum} {cfg.core.regs.sp} {cfg.core.callers.length + 1} {allocs} "
            ++ showTrace log ++ " " ++ showGlobals cfg
      | _ => "bad-op setup"
    | _, _, _, _, _, _ => "bad-op args"
  | _ => "bad-op"

def handlers : List (String × (List Sexp → String)) :=
  [("runabort", handleRunAbort)]

end Tengo.Drivers.C07VM

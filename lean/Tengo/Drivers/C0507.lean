import Tengo.Sexp
import Tengo.Model.Conc
/-!
Line protocol of the RunContext protocol model (C05/C07):

`(sched <prog> <cancel>)` with `<prog>` = `(fin n ok|err|panic|fatal)` | `inf` and
`<cancel>` = `(at k)` | `pre` | `post` | `never`
→ `ok ((<ret> <dispatched> <instrAfterAbort>) …)`: the outcomes of the model's canonical extreme
schedules (`Conc.predict`); `<ret>` = `ctx | nil | err | panic`.
-/
namespace Tengo.Drivers.C0507
open Tengo Tengo.Model.Conc

def parseOutcome : String → Option Outcome
  | "ok" => some .ok
  | "err" => some .err
  | "panic" => some .goPanic
  | "fatal" => some .fatal
  | _ => none

def parseProg : Sexp → Option Prog
  | Sexp.atom "inf" => some .inf
  | Sexp.list [Sexp.atom "fin", n, Sexp.atom o] => do
      let k ← n.asNat?
      let oc ← parseOutcome o
      pure (.fin k oc)
  | _ => none

def parseCancel : Sexp → Option CancelAt
  | Sexp.atom "pre" => some .pre
  | Sexp.atom "post" => some .post
  | Sexp.atom "never" => some .never
  | Sexp.list [Sexp.atom "at", k] => (fun n => CancelAt.at n) <$> k.asNat?
  | _ => none

def showRet : Ret → String
  | .ctxErr => "ctx"
  | .res .nilErr => "nil"
  | .res .runErr => "err"
  | .res .panicErr => "panic"

def showObs (o : Obs) : String :=
  "(" ++ showRet o.ret ++ " " ++ toString o.dispatched ++ " " ++ toString o.instrAfterAbort ++ ")"

def handleSched : List Sexp → String
  | [p, c] =>
    match parseProg p, parseCancel c with
    | some prog, some cancel => "ok (" ++ " ".intercalate ((predict prog cancel).map showObs) ++ ")"
    | _, _ => "bad-op"
  | _ => "bad-op"

def handlers : List (String × (List Sexp → String)) :=
  [("sched", handleSched)]

end Tengo.Drivers.C0507

import Tengo.Sexp
import Tengo.Model.Limits
/-!
Line protocol of the limits model (C06).

* `(budget (g1 … gk) tail end N)` — replay a measured run under budget `N`: `gi` ordinary steps precede the
  i-th allocating step, `tail` ordinary steps follow the last one, `end` is `h` (normal end) or `f` (run-time
  error). Answer `ok|fail|alloclimit <dispatched> <allocs>`.
* `(frames K <trace>)` — trace over `c` (call) `r` (return) `o` (other), then the end.
  Answer `ok|overflow|underflow <dispatched> <framesIndex> <high>`.
* `(guard <op> L a [b])` — length guards on lengths: `stradd bytesadd string bytes bytesn lit pad write
  typename`, and `(guard mapkey L isStr a)` (`isStr` 1: string index stored as it is, 0: converted index).
  Answer `ok <len>` | `err stringlimit|byteslimit|gopanic`.
* `(bufseq L op…)` — a `format` call as its sequence of guarded buffer writes.
-/
namespace Tengo.Drivers.C06
open Tengo Tengo.Model.Limits

def expand : List Nat → Nat → Char → List Char
  | [], tail, e => List.replicate tail 'c' ++ [e]
  | g :: gs, tail, e => List.replicate g 'c' ++ ('a' :: expand gs tail e)

def handleBudget : List Sexp → String
  | [Sexp.list gs, tl, Sexp.atom e, n] =>
    match gs.mapM Sexp.asNat?, tl.asNat?, n.asInt? with
    | some gaps, some tail, some N =>
      let tr := expand gaps tail (if e == "f" then 'f' else 'h')
      let r := runWithBudget traceMachine N (tr.length + 1) tr
      let disp := fun (rest : List Char) => toString (tr.length - rest.length + 1)
      match r.outcome with
      | .ok s => s!"ok {disp s} {r.allocs}"
      | .fail _ s => s!"fail {disp s} {r.allocs}"
      | .allocLimit s => s!"alloclimit {disp s} {r.allocs}"
      | .outOfFuel _ => "fuel"
    | _, _, _ => "bad-op"
  | _ => "bad-op"

def handleFrames : List Sexp → String
  | [k, Sexp.atom t] =>
    match k.asNat? with
    | some K =>
      let tr := t.toList
      let r := runDepth frameTraceMachine K (tr.length + 1) tr
      let disp := fun (rest : List Char) => toString (tr.length - rest.length + 1)
      match r.outcome with
      | .ok s => s!"ok {disp s} {r.fi} {r.high}"
      | .stackOverflow s => s!"overflow {disp s} {r.fi} {r.high}"
      | .underflow s => s!"underflow {disp s} {r.fi} {r.high}"
      | .outOfFuel _ => "fuel"
    | none => "bad-op"
  | _ => "bad-op"

def showGuard : Except GuardErr Bytes → String
  | .ok v => s!"ok {v.length}"
  | .error .stringLimit => "err stringlimit"
  | .error .bytesLimit => "err byteslimit"
  | .error .goPanic => "err gopanic"

def zeros (n : Nat) : Bytes := List.replicate n 0

def handleGuard : List Sexp → String
  | Sexp.atom op :: l :: args =>
    match l.asNat?, args.mapM Sexp.asInt? with
    | some L, some xs =>
      match op, xs with
      | "stradd", [a, b] => showGuard (strAdd L (zeros a.toNat) (zeros b.toNat))
      | "bytesadd", [a, b] => showGuard (bytesAdd L (zeros a.toNat) (zeros b.toNat))
      | "string", [a] => showGuard (builtinString L (zeros a.toNat))
      | "bytes", [a] => showGuard (builtinBytes L (zeros a.toNat))
      | "bytesn", [n] => showGuard (builtinBytesN L n)
      | "lit", [a] => showGuard (stringLit L (zeros a.toNat))
      | "typename", [a] => showGuard (typeNameResult L (zeros a.toNat))
      | "mapkey", [isStr, a] => showGuard (mapKeyOfIndex L (isStr != 0) (zeros a.toNat))
      | "pad", [a, n] => showGuard (bufStep L (zeros a.toNat) (.pad n 32))
      | "write", [a, b] => showGuard (bufStep L (zeros a.toNat) (.write (zeros b.toNat)))
      | _, _ => "bad-op"
    | _, _ => "bad-op"
  | _ => "bad-op"

def parseBufOp : Sexp → Option BufOp
  | Sexp.list [Sexp.atom "w", k] => k.asNat?.map fun n => BufOp.write (zeros n)
  | Sexp.list [Sexp.atom "b"] => some (BufOp.byte 0)
  | Sexp.list [Sexp.atom "r", k] => k.asNat?.map fun n => BufOp.rune (zeros n)
  | Sexp.list [Sexp.atom "p", k] => k.asInt?.map fun n => BufOp.pad n 32
  | Sexp.list [Sexp.atom "x", k] => k.asNat?.map fun n => BufOp.sbx (zeros n)
  | _ => none

/-- `(bufseq L op…)` with `(w k)` write, `(b)` byte, `(r k)` rune, `(p n)` padding, `(x k)` hex text -/
def handleBufSeq : List Sexp → String
  | l :: ops =>
    match l.asNat?, ops.mapM parseBufOp with
    | some L, some os => showGuard (bufRun L [] os)
    | _, _ => "bad-op"
  | _ => "bad-op"

def handlers : List (String × (List Sexp → String)) :=
  [("budget", handleBudget), ("frames", handleFrames), ("guard", handleGuard), ("bufseq", handleBufSeq)]

end Tengo.Drivers.C06

import Tengo.Sexp
import Tengo.Model.TailCall
/-!
`(c16run maxFrames stackSize numGlobals fuel (const…) (fn…))` runs real compiled functions on the frame
model (`Tengo.Model.TailCall.step`: `callStep`/`retStep` + the executable fragment of the other opcodes).

  const ::= (i n) | (fn k) | (x)            fn ::= (numParams numLocals varArgs #bytes)     fn 0 = main

answers `ok maxFi maxSp steps (global…)` | `err kind maxFi maxSp steps` | `panic maxFi maxSp steps`
| `unsupported` | `fuel` — values in the canonical form of harness/lib/canon.go.
-/
namespace Tengo.Drivers.C16
open Tengo Tengo.Model.TailCall

def parseConst : Sexp → Option Val
  | Sexp.list [Sexp.atom "i", n] => n.asInt?.map Val.int
  | Sexp.list [Sexp.atom "fn", k] => k.asNat?.map Val.fn
  | Sexp.list [Sexp.atom "x"] => some (Val.other 0)
  | _ => none

def parseFn : Sexp → Option Fn
  | Sexp.list [np, nl, va, b] =>
    match np.asNat?, nl.asNat?, va.asBool?, b.asBytes? with
    | some np, some nl, some va, some bs =>
      some { numParams := np, numLocals := nl, varArgs := va, insts := bs.map UInt8.toNat }
    | _, _, _, _ => none
  | _ => none

mutual
  def showVal : Val → String
    | .undef => "u"
    | .int n => "(i " ++ toString n ++ ")"
    | .bool b => if b then "(b 1)" else "(b 0)"
    | .fn _ => "(fn)"
    | .arr xs => "(a" ++ showVals xs ++ ")"
    | .ptr _ => "(ptr)"
    | .native _ => "(bf)"
    | .other _ => "(other)"
  def showVals : List Val → String
    | [] => ""
    | x :: xs => " " ++ showVal x ++ showVals xs
end

def showErr : Err → String
  | .notCallable => "not-callable"
  | .notArray => "not-array"
  | .wrongNumArgs => "wrong-num-args"
  | .stackOverflow => "stack-overflow"
  | .other => "other"

def handleRun : List Sexp → String
  | [mf, ss, ng, fuel, Sexp.list cs, Sexp.list fs] =>
    match mf.asNat?, ss.asNat?, ng.asNat?, fuel.asNat?, cs.mapM parseConst, fs.mapM parseFn with
    | some mf, some ss, some ng, some fuel, some cs, some fs =>
      let cfg : Cfg := { prog := fs, maxFrames := mf, consts := cs }
      let r := runN cfg fuel (initState cfg ss ng) 0 0 0
      let tail := s!" {r.maxFi} {r.maxSp} {r.steps}"
      if r.outOfFuel then "fuel" else
      match r.outcome with
      | .halt s => "ok" ++ tail ++ " (" ++ " ".intercalate (s.globals.map showVal) ++ ")"
      | .ok _ => "fuel"
      | .err e => "err " ++ showErr e ++ tail
      | .goPanic => "panic" ++ tail
      | .unsupported => "unsupported"
    | _, _, _, _, _, _ => "bad-op"
  | _ => "bad-op"

/-- `(c16ctx form)` → `(op…) tail` from `contextTable`. -/
def handleCtx : List Sexp → String
  | [Sexp.atom form] =>
    match contextTable.lookup form with
    | some (ops, tail) => "(" ++ " ".intercalate (ops.map toString) ++ ") " ++ (if tail then "1" else "0")
    | none => "unknown"
  | _ => "bad-op"

/-- `(c16pattern #bytes ip)` → the model's layout test on real instruction bytes
(`ip` = offset of the CALL's last operand byte): `tail 0|1` | `nontail` | `panic`. -/
def handlePattern : List Sexp → String
  | [b, ip] =>
    match b.asBytes?, ip.asNat? with
    | some bs, some ip =>
      match tailPattern (bs.map UInt8.toNat) ip with
      | none => "panic"
      | some (true, v) => if v then "tail 1" else "tail 0"
      | some (false, _) => "nontail"
    | _, _ => "bad-op"
  | _ => "bad-op"

def handlers : List (String × (List Sexp → String)) :=
  [("c16run", handleRun), ("c16ctx", handleCtx), ("c16pattern", handlePattern)]

end Tengo.Drivers.C16

import Tengo.Sexp
import Tengo.Model.Verifier
/-! `(verify (constIsFn…) numBuiltins globalsSize numLocals numFree limit #<insts>)` → `ok ((pos h)…)` | `err <kind> …` -/
namespace Tengo.Drivers.C02
open Tengo Tengo.Model Tengo.Model.Verifier

def showErr : VErr → String
  | .undecodable => "undecodable"
  | .inconsistent p a b => s!"inconsistent {p} {a} {b}"
  | .underflow p h => s!"underflow {p} {h}"
  | .badTarget p t => s!"badTarget {p} {t}"
  | .tooHigh p h => s!"tooHigh {p} {h}"
  | .badOperand p w => s!"badOperand {p} {w.replace " " "-"}"
  | .emptyFunction => "emptyFunction"
  | .noFixpoint => "noFixpoint"

def insertSorted (p : Nat × Nat) : List (Nat × Nat) → List (Nat × Nat)
  | [] => [p]
  | q :: qs => if p.1 ≤ q.1 then p :: q :: qs else q :: insertSorted p qs

def handleVerify : List Sexp → String
  | [Sexp.list cs, nb, gs, nl, nf, lim, b] =>
    match cs.mapM Sexp.asBool?, nb.asNat?, gs.asNat?, nl.asNat?, nf.asNat?, lim.asNat?, b.asBytes? with
    | some cf, some nb, some gs, some nl, some nf, some lim, some bs =>
      let env : Env := { constIsFn := cf, numBuiltins := nb, globalsSize := gs, numLocals := nl, numFree := nf }
      match verifyFn env lim bs with
      | .ok hm =>
        let sorted := hm.foldl (fun acc p => insertSorted p acc) []
        "ok (" ++ " ".intercalate (sorted.map (fun (p, h) => s!"({p} {h})")) ++ ")"
      | .error e => "err " ++ showErr e
    | _, _, _, _, _, _, _ => "bad-op"
  | _ => "bad-op"

def handlers : List (String × (List Sexp → String)) := [("verify", handleVerify)]

end Tengo.Drivers.C02
